// Package time is NOT the standard library's: a package of an application that happens to have the same
// name and type names as types the uGO registry knows converters for.  Its values are unsupported.
package time

type Duration int64

type Time struct{ Sec int64 }

type Location struct{ Name string }

type Month int
