// Package json is NOT encoding/json (see ../time).
package json

type RawMessage []byte

type Number string
