package gen

import (
	"fmt"
	"strings"
)

// Import-graph generator for property C12 (stream `modules`).
//
// A case is a main script over k source modules m0..m{k-1} (a DAG: mi imports only
// mj with j > i, so diamonds, chains and repeated imports arise) and builtin (Go)
// modules b0, b1.  Every source module body appends its name to the global `log`
// when it starts ("mI") and when it completes ("/mI"), keeps a counter variable
// `cnt` and returns a map with closures that read/update it.  The generator carries
// a reference semantics in which every module has exactly ONE instance per run
// (the property): the expected log and the expected list of observed values are
// computed from it, independently of the implementation.

// ModAct is one import action in a module body (in body order).
type ModAct struct {
	Kind  string // "top": d := import(mJ) | "cond": if C { import(mJ).inc() } | "loop": for n { import(mJ).inc() } | "lazy": import inside a returned closure | "topb": d := import(bB)
	Dep   int
	N     int
	Taken bool
}

type ModDef struct {
	Name string
	Acts []ModAct
}

// BuiltinDef describes a builtin module b<i>: Attrs = {x: X, arr: [1,2,3], nested: {k: 0}, s: "b<i>"} (+ fn: Go function returning 77)
type BuiltinDef struct {
	Name string
	X    int
	Fn   bool
}

// ModCase is a complete case of the `modules` stream (JSON-serialisable: it is the replay input).
type ModCase struct {
	Kind     string            `json:"kind"` // graph | throw | reenter | cycle | unknown | scope
	Main     string            `json:"main"`
	Mods     map[string]string `json:"mods"`
	Builtins []BuiltinDef      `json:"builtins"`
	Expect   string            `json:"expect"`  // ok | compile-error:<substring>
	ExpOut   []int             `json:"exp_out"` // expected `out` (reference semantics), kind graph only
	ExpLog   []string          `json:"exp_log"`
	Shape    string            `json:"shape"` // classification for the evidence histogram
}

type mgRef struct {
	mods   []ModDef
	cnt    []int
	st     []int
	loaded []bool
	log    []string
	bx     []int
	barr   [][]int
	bnk    []int
}

func (r *mgRef) load(i int) {
	if r.loaded[i] {
		return
	}
	r.loaded[i] = true
	r.log = append(r.log, r.mods[i].Name)
	for _, a := range r.mods[i].Acts {
		switch a.Kind {
		case "top":
			r.load(a.Dep)
		case "cond":
			if a.Taken {
				r.load(a.Dep)
				r.cnt[a.Dep]++
			}
		case "loop":
			for k := 0; k < a.N; k++ {
				r.load(a.Dep)
				r.cnt[a.Dep]++
			}
		}
	}
	r.log = append(r.log, "/"+r.mods[i].Name)
}

func modSource(m ModDef, i int, mods []ModDef) string {
	var sb strings.Builder
	fmt.Fprintf(&sb, "global log\nlog = append(log, %q)\ncnt := 0\nst := {n: 0}\n", m.Name)
	var ents []string
	for t, a := range m.Acts {
		switch a.Kind {
		case "top":
			fmt.Fprintf(&sb, "d%d := import(%q)\n", t, mods[a.Dep].Name)
			ents = append(ents, fmt.Sprintf("dg%d: func() { return d%d.get() }", t, t), fmt.Sprintf("di%d: func() { return d%d.inc() }", t, t))
		case "topb":
			fmt.Fprintf(&sb, "d%d := import(\"b%d\")\n", t, a.Dep)
			ents = append(ents, fmt.Sprintf("bg%d: func() { return d%d.x }", t, t), fmt.Sprintf("bs%d: func(v) { d%d.x = v; return v }", t, t))
		case "cond":
			c := "cnt == 0"
			if !a.Taken {
				c = "cnt != 0"
			}
			if a.N == 1 { // constant condition (folded by the optimizer, dead branch skipped by the compiler)
				c = "true"
				if !a.Taken {
					c = "false"
				}
			}
			fmt.Fprintf(&sb, "if %s { import(%q).inc() }\n", c, mods[a.Dep].Name)
		case "loop":
			fmt.Fprintf(&sb, "for i%d := 0; i%d < %d; i%d++ { import(%q).inc() }\n", t, t, a.N, t, mods[a.Dep].Name)
		case "lazy":
			ents = append(ents, fmt.Sprintf("lg%d: func() { return import(%q).get() }", t, mods[a.Dep].Name),
				fmt.Sprintf("li%d: func() { return import(%q).inc() }", t, mods[a.Dep].Name))
		}
	}
	fmt.Fprintf(&sb, "log = append(log, %q)\n", "/"+m.Name)
	fmt.Fprintf(&sb, "return {name: %q, inc: func() { cnt++; return cnt }, get: func() { return cnt }, st: st", m.Name)
	for _, e := range ents {
		sb.WriteString(", " + e)
	}
	sb.WriteString("}\n")
	_ = i
	return sb.String()
}

type mgSite struct {
	expr string
}

// ModGraphCase generates an acyclic case with its reference answer.
func ModGraphCase(r *Rand) ModCase {
	k := 1 + r.Intn(6)
	nb := r.Intn(3)
	mods := make([]ModDef, k)
	shape := map[string]bool{}
	for i := range mods {
		mods[i].Name = fmt.Sprintf("m%d", i)
		na := r.Intn(4)
		for t := 0; t < na; t++ {
			if i+1 < k && r.Intn(5) > 0 {
				dep := i + 1 + r.Intn(k-i-1)
				kinds := []string{"top", "top", "cond", "loop", "lazy"}
				a := ModAct{Kind: kinds[r.Intn(len(kinds))], Dep: dep, N: 1 + r.Intn(3), Taken: r.Bool()}
				mods[i].Acts = append(mods[i].Acts, a)
				shape["mod-"+a.Kind] = true
			} else if nb > 0 {
				mods[i].Acts = append(mods[i].Acts, ModAct{Kind: "topb", Dep: r.Intn(nb)})
				shape["mod-topb"] = true
			}
		}
	}
	c := ModCase{Kind: "graph", Mods: map[string]string{}, Expect: "ok"}
	for i, m := range mods {
		c.Mods[m.Name] = modSource(m, i, mods)
	}
	for b := 0; b < nb; b++ {
		c.Builtins = append(c.Builtins, BuiltinDef{Name: fmt.Sprintf("b%d", b), X: 10 + b, Fn: r.Intn(3) == 0})
	}
	ref := &mgRef{mods: mods, cnt: make([]int, k), st: make([]int, k), loaded: make([]bool, k),
		bx: make([]int, nb), barr: make([][]int, nb), bnk: make([]int, nb)}
	for b := 0; b < nb; b++ {
		ref.bx[b] = 10 + b
		ref.barr[b] = []int{1, 2, 3}
	}
	var sb strings.Builder
	sb.WriteString("global log\ncnt := 1000\nst := {n: -1}\nout := []\n")
	mainCnt, mainSt := 1000, -1
	var out []int
	emit := func(e string, v int) {
		fmt.Fprintf(&sb, "out = append(out, %s)\n", e)
		out = append(out, v)
	}
	nvar := 0
	vars := make([][]string, k)  // declared top-level variables holding module j
	fns := make([][]string, k)   // declared functions returning import(mj)
	bvars := make([][]string, nb)
	// site picks (and if necessary declares) an import site for source module j
	assign := false // the next site heads an assignment statement: not a bare import expression
	site := func(j int) string {
		name := mods[j].Name
		mode := r.Intn(5)
		if assign { // only `x.sel = v` parses as an assignment statement
			mode = 0
			assign = false
		}
		switch mode {
		case 0:
			if len(vars[j]) > 0 && r.Bool() {
				return vars[j][r.Intn(len(vars[j]))]
			}
			nvar++
			v := fmt.Sprintf("x%d", nvar)
			fmt.Fprintf(&sb, "%s := import(%q)\n", v, name)
			ref.load(j)
			vars[j] = append(vars[j], v)
			shape["site-var"] = true
			return v
		case 1:
			if len(fns[j]) > 0 && r.Bool() {
				ref.load(j)
				return fns[j][r.Intn(len(fns[j]))] + "()"
			}
			nvar++
			f := fmt.Sprintf("f%d", nvar)
			fmt.Fprintf(&sb, "%s := func() { return import(%q) }\n", f, name)
			fns[j] = append(fns[j], f)
			ref.load(j)
			shape["site-fn"] = true
			return f + "()"
		case 2:
			if len(vars[j]) > 0 {
				return vars[j][r.Intn(len(vars[j]))]
			}
			fallthrough
		default:
			ref.load(j)
			shape["site-inline"] = true
			return fmt.Sprintf("import(%q)", name)
		}
	}
	bsite := func(b int, assign bool) string {
		if len(bvars[b]) > 0 && r.Bool() {
			return bvars[b][r.Intn(len(bvars[b]))]
		}
		if assign || r.Bool() {
			nvar++
			v := fmt.Sprintf("y%d", nvar)
			fmt.Fprintf(&sb, "%s := import(\"b%d\")\n", v, b)
			bvars[b] = append(bvars[b], v)
			return v
		}
		return fmt.Sprintf("import(\"b%d\")", b)
	}
	nops := 3 + r.Intn(10)
	for o := 0; o < nops; o++ {
		j := r.Intn(k)
		switch r.Intn(12) {
		case 0, 1:
			s := site(j)
			ref.cnt[j]++
			emit(s+".inc()", ref.cnt[j])
		case 2:
			s := site(j)
			emit(s+".get()", ref.cnt[j])
		case 3:
			v := r.Intn(50)
			assign = true
			s := site(j)
			fmt.Fprintf(&sb, "%s.st.n = %d\n", s, v)
			ref.st[j] = v
		case 4:
			s := site(j)
			emit(s+".st.n", ref.st[j])
		case 5: // through another module's import of its dependency
			if len(mods[j].Acts) == 0 {
				continue
			}
			t := r.Intn(len(mods[j].Acts))
			a := mods[j].Acts[t]
			if a.Kind != "top" && a.Kind != "lazy" && a.Kind != "topb" {
				continue
			}
			s := site(j)
			switch a.Kind {
			case "top":
				if r.Bool() {
					emit(fmt.Sprintf("%s.dg%d()", s, t), ref.cnt[a.Dep])
				} else {
					ref.cnt[a.Dep]++
					emit(fmt.Sprintf("%s.di%d()", s, t), ref.cnt[a.Dep])
				}
				shape["via-top"] = true
			case "lazy":
				ref.load(a.Dep)
				if r.Bool() {
					emit(fmt.Sprintf("%s.lg%d()", s, t), ref.cnt[a.Dep])
				} else {
					ref.cnt[a.Dep]++
					emit(fmt.Sprintf("%s.li%d()", s, t), ref.cnt[a.Dep])
				}
				shape["via-lazy"] = true
			case "topb":
				if r.Bool() {
					emit(fmt.Sprintf("%s.bg%d()", s, t), ref.bx[a.Dep])
				} else {
					v := r.Intn(50)
					ref.bx[a.Dep] = v
					emit(fmt.Sprintf("%s.bs%d(%d)", s, t, v), v)
				}
				shape["via-builtin"] = true
			}
		case 6: // import in a loop
			n := 1 + r.Intn(3)
			fmt.Fprintf(&sb, "for i := 0; i < %d; i++ { import(%q).inc() }\n", n, mods[j].Name)
			ref.load(j)
			ref.cnt[j] += n
			shape["main-loop"] = true
		case 7: // conditional import
			taken := r.Bool()
			c := "cnt >= 1000"
			if !taken {
				c = "cnt < 1000"
			}
			fmt.Fprintf(&sb, "if %s { import(%q).inc() }\n", c, mods[j].Name)
			if taken {
				ref.load(j)
				ref.cnt[j]++
			}
			shape["main-cond"] = true
		case 8: // the main script's own variables named like the modules' variables
			if r.Bool() {
				mainCnt = 1000 + r.Intn(9)
				fmt.Fprintf(&sb, "cnt = %d\n", mainCnt)
				mainSt = -1 - r.Intn(9)
				fmt.Fprintf(&sb, "st.n = %d\n", mainSt)
			}
			emit("cnt", mainCnt)
			emit("st.n", mainSt)
			shape["main-locals"] = true
		default:
			if nb == 0 {
				continue
			}
			b := r.Intn(nb)
			bop := r.Intn(7)
			s := bsite(b, bop == 0 || bop == 2 || bop == 4)
			shape["builtin"] = true
			switch bop {
			case 0:
				v := r.Intn(50)
				fmt.Fprintf(&sb, "%s.x = %d\n", s, v)
				ref.bx[b] = v
			case 1:
				emit(s+".x", ref.bx[b])
			case 2:
				i, v := r.Intn(3), r.Intn(50)
				fmt.Fprintf(&sb, "%s.arr[%d] = %d\n", s, i, v)
				ref.barr[b][i] = v
			case 3:
				i := r.Intn(3)
				emit(fmt.Sprintf("%s.arr[%d]", s, i), ref.barr[b][i])
			case 4:
				v := r.Intn(50)
				fmt.Fprintf(&sb, "%s.nested.k = %d\n", s, v)
				ref.bnk[b] = v
			case 5:
				emit(s+".nested.k", ref.bnk[b])
			default:
				if c.Builtins[b].Fn {
					emit(s+".fn()", 77)
				}
			}
		}
	}
	sb.WriteString("return out\n")
	c.Main = sb.String()
	c.ExpOut = out
	c.ExpLog = ref.log
	var ss []string
	for s := range shape {
		ss = append(ss, s)
	}
	sortStrings(ss)
	c.Shape = strings.Join(ss, ",")
	return c
}

func sortStrings(a []string) {
	for i := 1; i < len(a); i++ {
		for j := i; j > 0 && a[j] < a[j-1]; j-- {
			a[j], a[j-1] = a[j-1], a[j]
		}
	}
}

// importAt renders an import of `name` at a random syntactic position.
func importAt(r *Rand, name string) string {
	switch r.Intn(5) {
	case 0:
		return fmt.Sprintf("z := import(%q)\n", name)
	case 1:
		return fmt.Sprintf("zf := func() { return import(%q) }\n", name)
	case 2:
		return fmt.Sprintf("if cnt == 0 { import(%q) }\n", name)
	case 3:
		return fmt.Sprintf("for i := 0; i < 2; i++ { import(%q) }\n", name)
	default:
		return fmt.Sprintf("zz := {f: func() { try { return import(%q) } catch e { return e } }}\n", name)
	}
}

// ModCycleCase: an import cycle of length L (1..5) reachable from the main script
// through a chain of 0..2 acyclic modules.  Compile must report it.
func ModCycleCase(r *Rand, L int) ModCase {
	c := ModCase{Kind: "cycle", Mods: map[string]string{}, Expect: "compile-error:cyclic module import", Shape: fmt.Sprintf("cycle-%d", L)}
	for i := 0; i < L; i++ {
		next := fmt.Sprintf("c%d", (i+1)%L)
		c.Mods[fmt.Sprintf("c%d", i)] = "global log\ncnt := 0\nlog = append(log, \"c\")\n" + importAt(r, next) + "return {}\n"
	}
	entry := "c" + fmt.Sprint(r.Intn(L))
	chain := r.Intn(3)
	for i := chain - 1; i >= 0; i-- {
		name := fmt.Sprintf("p%d", i)
		c.Mods[name] = "cnt := 0\n" + importAt(r, entry) + "return {}\n"
		entry = name
	}
	c.Main = "cnt := 0\n" + importAt(r, entry) + "return 1\n"
	return c
}

// ModUnknownCase: an import of a module that does not exist, in the main script or in a module.
func ModUnknownCase(r *Rand) ModCase {
	c := ModCase{Kind: "unknown", Mods: map[string]string{}, Expect: "compile-error:not found", Shape: "unknown"}
	entry := fmt.Sprintf("nosuch%d", r.Intn(9))
	chain := r.Intn(3)
	for i := chain - 1; i >= 0; i-- {
		name := fmt.Sprintf("p%d", i)
		c.Mods[name] = "cnt := 0\n" + importAt(r, entry) + "return {}\n"
		entry = name
	}
	c.Main = "cnt := 0\n" + importAt(r, entry) + "return 1\n"
	return c
}

// ModScopeCase: a module's top-level variable named in the main script (or the main
// script's in a module) must be an unresolved reference at compile time.
func ModScopeCase(r *Rand) ModCase {
	c := ModCase{Kind: "scope", Mods: map[string]string{}, Expect: "compile-error:unresolved reference", Shape: "scope"}
	if r.Bool() {
		c.Mods["m0"] = "secret0 := 42\nreturn {get: func() { return secret0 }}\n"
		c.Main = "x := import(\"m0\")\nreturn secret0\n"
		c.Shape = "scope-main-names-module-var"
	} else {
		c.Mods["m0"] = "return {get: func() { return hidden }}\n"
		c.Main = "hidden := 7\nx := import(\"m0\")\nreturn x.get()\n"
		c.Shape = "scope-module-names-main-var"
	}
	return c
}

// ModThrowCase (candidate C12:body-rerun-after-throw): the body throws `fails` times before
// it completes; every failure is caught by the importer.
func ModThrowCase(r *Rand) ModCase {
	fails := 1 + r.Intn(2)
	c := ModCase{Kind: "throw", Mods: map[string]string{}, Expect: "ok", Shape: fmt.Sprintf("throw-%d", fails)}
	c.Mods["t0"] = "global (log, ready)\nlog = append(log, \"t0\")\ncnt := 0\nif !ready { log = append(log, \"!t0\"); throw \"not ready\" }\n" +
		"log = append(log, \"/t0\")\nreturn {inc: func() { cnt++; return cnt }, get: func() { return cnt }}\n"
	var sb strings.Builder
	sb.WriteString("global (log, ready)\nout := []\n")
	inFn := r.Bool()
	if inFn {
		sb.WriteString("imp := func() { return import(\"t0\") }\n")
	}
	imp := "import(\"t0\")"
	if inFn {
		imp = "imp()"
	}
	for i := 0; i < fails; i++ {
		fmt.Fprintf(&sb, "try { %s } catch e { out = append(out, -1) }\n", imp)
	}
	fmt.Fprintf(&sb, "ready = true\nx := %s\nout = append(out, x.inc())\ny := import(\"t0\")\nout = append(out, y.inc(), x.get())\nreturn out\n", imp)
	c.Main = sb.String()
	for i := 0; i < fails; i++ {
		c.ExpOut = append(c.ExpOut, -1)
	}
	c.ExpOut = append(c.ExpOut, 1, 2, 2)
	// the property's reading: one start, one completion
	c.ExpLog = []string{"t0", "/t0"}
	return c
}

// ModReenterCase (candidate C12:body-reentered-via-global): the body calls a global
// function that imports the same module while the body is still running.
func ModReenterCase(r *Rand) ModCase {
	depth := r.Intn(3) // 0 = unguarded
	c := ModCase{Kind: "reenter", Mods: map[string]string{}, Expect: "ok", Shape: fmt.Sprintf("reenter-guard-%d", depth)}
	if depth == 0 {
		c.Mods["r0"] = "global (log, g)\nlog = append(log, \"r0\")\ng()\nlog = append(log, \"/r0\")\nreturn {n: 1}\n"
	} else {
		c.Mods["r0"] = fmt.Sprintf("global (log, g, depth)\nlog = append(log, \"r0\")\ndepth++\nn := depth\nif depth < %d { g() }\nlog = append(log, \"/r0\")\nreturn {n: n}\n", depth+1)
	}
	c.Main = "global (log, g, depth)\ndepth = 0\ng = func() { return import(\"r0\") }\nr := import(\"r0\")\nreturn [r.n, import(\"r0\").n]\n"
	c.ExpOut = []int{1, 1}
	c.ExpLog = []string{"r0", "/r0"}
	return c
}
