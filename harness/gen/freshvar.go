package gen

import (
	"fmt"
	"strings"
)

// FreshVarProgram enumerates "one fresh variable per executed declaration, closures capture
// by reference" (C02): every declaring form of the language is executed three times in every
// re-execution context (loop kinds, self tail call that re-uses the frame, ordinary and
// non-tail recursion, a function called repeatedly), a closure over the declared variable is
// kept from each execution, the variable is (optionally) updated after the capture, and all
// closures are called at the end.  Fixed programs: the reference semantics decides.

type freshDecl struct {
	name string
	// code declares variable V from the expression E and must contain CAPTURE where the
	// closure is to be taken (V in scope)
	code string
}

var freshDecls = []freshDecl{
	{"define", "V := E\nCAPTURE"},
	{"var", "var V = E\nCAPTURE"},
	{"var-group", "var (V = E; w = 1)\nCAPTURE"},
	{"destructure", "V, w := [E, 1]\nCAPTURE"},
	{"if-init", "if V := E; true {\nCAPTURE\n}"},
	{"for-init", "for V := E; true; {\nCAPTURE\nbreak\n}"},
	{"for-in-value", "for _, V in [E] {\nCAPTURE\n}"},
	{"for-in-key", "for V, _ in [1] {\nV = E\nCAPTURE\n}"},
	{"block", "{\nV := E\nCAPTURE\n}"},
	{"try-body", "try {\nV := E\nCAPTURE\n} finally {\n}"},
	{"catch-ident", "try {\nthrow E\n} catch V {\nV = V.Message\nCAPTURE\n}"},
	{"catch-ident-finally", "try {\nthrow E\n} catch V {\nV = V.Message\n} finally {\nCAPTURE\n}"},
	{"catch-ident-nothrow", "try {\nw := E\n} catch V {\n} finally {\nV = E\nCAPTURE\n}"},
	{"catch-ident-body-declared", "try {\nV := E\nthrow \"t\"\n} catch V {\nV = E\nCAPTURE\n}"},
	{"param", "func(V) {\nCAPTURE\n}(E)"},
	{"variadic-param", "func(...V) {\nCAPTURE\n}(E)"},
	{"nested-try-catch", "try {\ntry {\nthrow E\n} finally {\n}\n} catch V {\nV = V.Message\nCAPTURE\n}"},
}

// contexts: CODE is executed three times with N = 0, 1, 2
var freshCtx = []struct{ name, code string }{
	{"for", "for n := 0; n < 3; n++ {\nCODE\n}"},
	{"for-in", "for _, n in [0, 1, 2] {\nCODE\n}"},
	{"for-cond", "n := -1\nfor n < 2 {\nn++\nCODE\n}"},
	{"self-tail", "var f\nf = func(n) {\nif n == 3 {\nreturn 0\n}\nCODE\nreturn f(n + 1)\n}\nf(0)"},
	{"self-tail-discarded", "var f\nf = func(n) {\nif n == 3 {\nreturn\n}\nCODE\nf(n + 1)\n}\nf(0)"},
	{"recursion", "var f\nf = func(n) {\nif n == 3 {\nreturn 0\n}\nCODE\nreturn 1 + f(n + 1)\n}\nf(0)"},
	{"calls", "f := func(n) {\nCODE\n}\nf(0)\nf(1)\nf(2)"},
	{"loop-in-try", "try {\nfor n := 0; n < 3; n++ {\nCODE\n}\n} finally {\n}"},
}

// after the capture: nothing / update the variable / update it through the closure's sibling
var freshAfter = []string{"", "V += \"!\"", "set := func() { V = V + \"?\" }\nset()"}

// NumFreshVarPrograms is the size of the enumeration.
var NumFreshVarPrograms = len(freshDecls) * len(freshCtx) * len(freshAfter)

// FreshVarProgram returns the i-th program.
func FreshVarProgram(i int) string {
	i %= NumFreshVarPrograms
	d := freshDecls[i%len(freshDecls)]
	i /= len(freshDecls)
	cx := freshCtx[i%len(freshCtx)]
	i /= len(freshCtx)
	after := freshAfter[i%len(freshAfter)]
	capture := "fs = append(fs, func() { return V })"
	if after != "" {
		capture += "\n" + after
	}
	code := strings.ReplaceAll(d.code, "CAPTURE", capture)
	code = strings.ReplaceAll(code, "V", "v0")
	// every declared value is a string so that the updates are defined for all forms
	code = strings.ReplaceAll(code, "E", "(\"s\" + n)")
	body := strings.ReplaceAll(cx.code, "CODE", code)
	return fmt.Sprintf("fs := []\n%s\nout := []\nfor _, g in fs {\nout = append(out, g())\n}\nreturn [len(fs), out]\n", body)
}

// FreshVarParts names the i-th program: declaring form, re-execution context, index of the update.
func FreshVarParts(i int) (decl, ctx string, after int) {
	i %= NumFreshVarPrograms
	d := freshDecls[i%len(freshDecls)]
	i /= len(freshDecls)
	cx := freshCtx[i%len(freshCtx)]
	i /= len(freshCtx)
	return d.name, cx.name, i % len(freshAfter)
}
