package gen

import (
	"math"
	"strings"

	"github.com/ozanh/ugo"
)

// ScalarPool is the boundary-value pool of DESIGN.md §8.
func ScalarPool() []ugo.Object {
	var p []ugo.Object
	for _, i := range []int64{0, 1, -1, 2, 63, 64, 65, 97, 1 << 31, 1 << 32, 1<<32 + 97, 1<<53 - 1, 1 << 53, 1<<53 + 1, math.MinInt64, math.MinInt64 + 1, math.MaxInt64} {
		p = append(p, ugo.Int(i))
	}
	for _, u := range []uint64{0, 1, 2, 63, 64, 97, 1 << 63, math.MaxUint64} {
		p = append(p, ugo.Uint(u))
	}
	for _, f := range []float64{0, math.Copysign(0, -1), 1, -1, 0.5, 97, 1 << 53, 1 << 63, 1 << 64, math.MaxFloat64, math.SmallestNonzeroFloat64, math.Inf(1), math.Inf(-1), math.NaN()} {
		p = append(p, ugo.Float(f))
	}
	for _, c := range []int32{0, 1, 'a', 0x7F, 0x80, 0xD800, 0xFFFD, 0x10FFFF, 0x110000, -1, math.MinInt32, math.MaxInt32} {
		p = append(p, ugo.Char(c))
	}
	p = append(p, ugo.True, ugo.False, ugo.Undefined)
	for _, s := range []string{"", "a", "ab", "b", "\x00", "\xff", "é", "<&>", " ", strings.Repeat("x", 64)} {
		p = append(p, ugo.String(s))
	}
	for _, s := range []string{"", "a", "ab", "\xff"} {
		p = append(p, ugo.Bytes(s))
	}
	return p
}

var fnA = &ugo.Function{Name: "fa", Value: func(args ...ugo.Object) (ugo.Object, error) { return ugo.Undefined, nil }}
var fnB = &ugo.Function{Name: "fb", Value: func(args ...ugo.Object) (ugo.Object, error) { return ugo.Undefined, nil }}

// ValuePool adds containers and opaque objects to the scalar pool.
func ValuePool() []ugo.Object {
	p := ScalarPool()
	p = append(p,
		ugo.Array{}, ugo.Array{ugo.Int(1)}, ugo.Array{ugo.Uint(1)}, ugo.Array{ugo.Float(1), ugo.True},
		ugo.Array{ugo.Int(1), ugo.Array{ugo.Char('a'), ugo.String("x")}},
		ugo.Array{ugo.Float(97), ugo.Array{ugo.Int(97), ugo.Bytes("x")}},
		ugo.Map{}, ugo.Map{"a": ugo.Int(1)}, ugo.Map{"a": ugo.True}, ugo.Map{"b": ugo.Int(1)}, ugo.Map{"a": ugo.Undefined}, ugo.Map{"b": ugo.Undefined},
		ugo.Map{"a": ugo.Int(1), "b": ugo.Array{ugo.Uint(2)}},
		ugo.Map{"a": ugo.Float(1), "b": ugo.Array{ugo.Int(2)}},
		ugo.Map{"": ugo.Undefined},
		fnA, fnB,
	)
	return p
}

// RandValue builds a random nested value of bounded depth from the pool.
func RandValue(r *Rand, depth int) ugo.Object {
	pool := ScalarPool()
	if depth <= 0 || r.Intn(3) > 0 {
		return pool[r.Intn(len(pool))]
	}
	n := r.Intn(4)
	if r.Bool() {
		a := make(ugo.Array, n)
		for i := range a {
			a[i] = RandValue(r, depth-1)
		}
		return a
	}
	m := ugo.Map{}
	keys := []string{"", "a", "b", "k", "\xff"}
	for i := 0; i < n; i++ {
		m[keys[r.Intn(len(keys))]] = RandValue(r, depth-1)
	}
	return m
}

// Similar returns a value that is often Equal to v but of other numeric kinds.
func Similar(r *Rand, v ugo.Object) ugo.Object {
	switch x := v.(type) {
	case ugo.Int:
		switch r.Intn(4) {
		case 0:
			return ugo.Uint(x)
		case 1:
			return ugo.Float(x)
		case 2:
			return ugo.Char(x)
		}
		return x
	case ugo.Uint:
		switch r.Intn(3) {
		case 0:
			return ugo.Int(x)
		case 1:
			return ugo.Float(x)
		}
		return x
	case ugo.Float:
		switch r.Intn(3) {
		case 0:
			if x == x && math.Abs(float64(x)) < 1e18 {
				return ugo.Int(x)
			}
		case 1:
			if x == 1 {
				return ugo.True
			}
			if x == 0 {
				return ugo.False
			}
		}
		return x
	case ugo.Char:
		switch r.Intn(3) {
		case 0:
			return ugo.Int(x)
		case 1:
			return ugo.Float(x)
		}
		return x
	case ugo.Bool:
		n := 0
		if x {
			n = 1
		}
		switch r.Intn(4) {
		case 0:
			return ugo.Int(n)
		case 1:
			return ugo.Float(n)
		case 2:
			return ugo.Char(n)
		}
		return x
	case ugo.String:
		if r.Bool() {
			return ugo.Bytes(x)
		}
		return x
	case ugo.Bytes:
		if r.Bool() {
			return ugo.String(x)
		}
		return x
	case ugo.Array:
		a := make(ugo.Array, len(x))
		for i := range x {
			a[i] = Similar(r, x[i])
		}
		return a
	case ugo.Map:
		m := ugo.Map{}
		for k, e := range x {
			m[k] = Similar(r, e)
		}
		return m
	}
	return v
}
