package gen

import (
	"fmt"
	"regexp"
	"strings"
)

// storing a variable into a container can close a cycle; String() of a cyclic value overflows
// the Go stack of the implementation (a fatal error that takes the harness down)
var containerStoreOfVar = regexp.MustCompile(`(?m)^\s*[a-z]\w*(\[[^\]\n]*\]|\.[abk]) = .*\b[a-z]+\d+\b`)

var loopCounterAssign = regexp.MustCompile(`\bi\d+ *(=[^=]|\+=|-=|\*=|--)`)

// EvalScript is a script made of top-level statements that stream `eval` (C10) cuts
// into consecutive fragments.  No statement returns from the top level, except that
// the last statement may be a `return` (the statement's proviso).
type EvalScript struct {
	Stmts   []string          // top-level statements, in order
	Probes  [][]string        // Probes[i]: probe expressions for the names declared by Stmts[i]
	FailAt  int               // index of the deliberately failing statement, -1 if none
	FailKnd string            // "runtime", "compile", "parse", ""
	Modules map[string]string // source modules importable by name
	Imports bool              // some statement imports a module
	Prints  bool              // some statement prints
	Params  bool              // some statement declares `param`
}

// EvalOpts are the knobs of EvalProgram.
type EvalOpts struct {
	MaxStmts int
	Imports  bool // import statements (source modules src1/src2, builtin module bm)
	Prints   bool // println / printf statements
	Fail     bool // a failing statement at a random position
	Params   bool // `param` declarations (the session is started with two arguments)
	Floats   bool
}

type evalGen struct {
	*progGen
	sc      *scope
	es      *EvalScript
	consts  []string
	globals []string
	mods    []string // variables holding imported modules ("src" kind)
	o2      EvalOpts
}

// ProbeUpTo is the list of probe expressions for the names declared by Stmts[0:n].
func (s *EvalScript) ProbeUpTo(n int) []string {
	var ps []string
	for i := 0; i < n && i < len(s.Probes); i++ {
		ps = append(ps, s.Probes[i]...)
	}
	return ps
}

// EvalSourceModules are the source modules every generated script may import.
func EvalSourceModules() map[string]string {
	return map[string]string{
		"src1": "counter := 0\nreturn {inc: func() { counter++; return counter }, get: func() { return counter }, k: 7}\n",
		"src2": "s1 := import(\"src1\")\nbase := [1, 2]\nreturn {bump: func() { return s1.inc() + 100 }, base: base, add: func(x) { base = append(base, x); return len(base) }}\n",
	}
}

// EvalProgram generates one script.
func EvalProgram(r *Rand, eo EvalOpts) *EvalScript {
	o := DefaultProgOpts()
	o.NoTopReturn = true
	o.SingleKeyMaps = true
	o.Params = 0
	o.Decls = true
	o.Floats = eo.Floats
	o.MaxStmts = 3
	o.MaxDepth = 2
	pg := &progGen{r: r, o: o, budget: 60}
	g := &evalGen{progGen: pg, sc: &scope{arity: map[string]int{}, kinds: map[string]byte{}},
		es: &EvalScript{FailAt: -1, Modules: EvalSourceModules()}, o2: eo}
	n := 2 + r.Intn(eo.MaxStmts-1)
	failAt := -1
	if eo.Fail && r.Intn(3) == 0 {
		failAt = r.Intn(n)
	}
	if r.Intn(3) > 0 {
		g.add("global log", nil)
		g.add("log = []", []string{"log"})
		g.globals = append(g.globals, "log")
	} else {
		g.progGen.o.Log = false
	}
	if eo.Params && r.Intn(4) == 0 {
		g.es.Params = true
		switch r.Intn(3) {
		case 0:
			g.add("param (a0, a1)", []string{"a0", "a1"})
			g.sc.vars = append(g.sc.vars, "a0", "a1")
		case 1:
			g.add("param a0", []string{"a0"})
			g.sc.vars = append(g.sc.vars, "a0")
		default:
			g.add("param (a0, ...a1)", []string{"a0", "a1"})
			g.sc.vars = append(g.sc.vars, "a0", "a1")
			g.sc.kinds["a1"] = 'A'
		}
	}
	for len(g.es.Stmts) < n {
		if len(g.es.Stmts) == failAt {
			g.failing()
			continue
		}
		g.top()
	}
	if r.Intn(8) == 0 {
		// the only place a top-level return may stand: the very end of the script
		g.add("return "+g.exprK(g.sc, 2, g.pickKind()), nil)
	}
	return g.es
}

func (g *evalGen) add(stmt string, probes []string) {
	g.es.Stmts = append(g.es.Stmts, strings.TrimRight(stmt, "\n"))
	g.es.Probes = append(g.es.Probes, probes)
}

// callProbe is a probe that calls function f with arguments matching its arity.
func (g *evalGen) callProbe(f string) string {
	ar := g.sc.arity[f]
	n := ar
	if ar < 0 {
		n = -ar - 1 + 1
	}
	var as []string
	for i := 0; i < n; i++ {
		as = append(as, fmt.Sprint(i+1))
	}
	return f + "(" + strings.Join(as, ", ") + ")"
}

func (g *evalGen) intVar() string {
	if v := g.varOfKind(g.sc, 'I'); v != "" {
		return v
	}
	v := g.fresh("v")
	g.add(v+" := "+fmt.Sprint(g.r.Intn(5)), []string{v})
	g.sc.vars = append(g.sc.vars, v)
	g.sc.kinds[v] = 'I'
	return v
}

func (g *evalGen) top() {
	r := g.r
	sc := g.sc
	choices := []string{"gen", "gen", "gen", "gen", "decl", "expr", "expr", "closure", "closure", "callf", "callf",
		"const", "iota", "blockclosure", "global", "compound", "tryfin", "shadow", "destruct"}
	if g.o2.Imports {
		choices = append(choices, "import", "import", "usemod", "usemod")
	}
	if g.o2.Prints {
		choices = append(choices, "print", "print")
	}
	switch choices[r.Intn(len(choices))] {
	case "gen":
		// any statement form of the program generator, at the top level
		before := append([]string{}, sc.vars...)
		var sb strings.Builder
		for try := 0; ; try++ {
			// a statement that assigns to a loop counter may never end, one that stores a
			// variable into a container may build a cyclic value: draw again
			// (declarations made by the rejected draw are dropped with it)
			saveVars, saveFuncs := append([]string{}, sc.vars...), append([]string{}, sc.funcs...)
			sb.Reset()
			g.stmt(&sb, sc, 0, "")
			if !loopCounterAssign.MatchString(sb.String()) && !containerStoreOfVar.MatchString(sb.String()) {
				break
			}
			sc.vars, sc.funcs = saveVars, saveFuncs
			if try > 20 {
				sb.Reset()
				sb.WriteString("1")
				break
			}
		}
		var probes []string
		for _, v := range sc.vars[len(before):] {
			probes = append(probes, v)
			if sc.kinds[v] == 'F' {
				probes = append(probes, g.callProbe(v))
			}
		}
		g.add(sb.String(), probes)
	case "decl":
		v := g.fresh("v")
		k := g.pickKind()
		g.add(v+" := "+g.exprK(sc, 2, k), []string{v})
		sc.vars = append(sc.vars, v)
		sc.kinds[v] = k
	case "expr":
		// an expression statement: its value is the fragment's result when it comes last
		g.add(g.exprK(sc, 2, g.pickKind()), nil)
	case "closure":
		// a function literal capturing top-level variables, called by later fragments
		c := g.intVar()
		f := g.fresh("f")
		switch r.Intn(4) {
		case 0:
			g.add(fmt.Sprintf("%s := func() { %s++; return %s }", f, c, c), []string{f, f + "()"})
			sc.arity[f] = 0
		case 1:
			g.add(fmt.Sprintf("%s := func(p) { %s += p; return [%s, p] }", f, c, c), []string{f + "(2)"})
			sc.arity[f] = 1
		case 2:
			d := g.intVar()
			g.add(fmt.Sprintf("%s := func() { return func() { %s = %s + %s; return %s } }", f, c, c, d, c), []string{f + "()()"})
			sc.arity[f] = 0
		default:
			g.add(fmt.Sprintf("%s := func(...xs) { %s = %s + len(xs); return %s }", f, c, c, c), []string{f + "(1, 2)"})
			sc.arity[f] = -1
		}
		sc.vars = append(sc.vars, f)
		sc.kinds[f] = 'F'
		sc.funcs = append(sc.funcs, f)
	case "callf":
		if len(sc.funcs) == 0 {
			g.add(g.logStmtOr(), nil)
			return
		}
		f := sc.funcs[r.Intn(len(sc.funcs))]
		if r.Bool() {
			g.add(g.callProbe(f), nil)
		} else {
			v := g.fresh("v")
			g.add(v+" := "+g.callProbe(f), []string{v})
			sc.vars = append(sc.vars, v)
			sc.kinds[v] = 'X'
		}
	case "const":
		c := g.fresh("c")
		lits := []string{"1", "2", "\"s\"", "true", "'x'", "undefined", "3u"}
		if g.o2.Floats {
			lits = append(lits, "1.5")
		}
		if len(g.consts) > 0 && r.Intn(3) == 0 {
			g.add(fmt.Sprintf("const %s = %s", c, g.consts[r.Intn(len(g.consts))]), []string{c})
		} else if r.Intn(4) == 0 {
			g.add(fmt.Sprintf("const %s = %s", c, g.exprK(sc, 1, 'I')), []string{c})
		} else {
			g.add(fmt.Sprintf("const %s = %s", c, lits[r.Intn(len(lits))]), []string{c})
		}
		g.consts = append(g.consts, c)
	case "iota":
		a, b, c := g.fresh("c"), g.fresh("c"), g.fresh("c")
		if r.Bool() {
			g.add(fmt.Sprintf("const (%s = iota; %s; %s)", a, b, c), []string{a, b, c})
		} else {
			g.add(fmt.Sprintf("const (\n%s = iota * 2 + 1\n%s\n%s = \"k\"\n)", a, b, c), []string{a, b, c})
		}
		g.consts = append(g.consts, a, b, c)
	case "blockclosure":
		// a closure over a block variable escapes to a top-level variable; later blocks re-use the slot
		f := g.fresh("f")
		t := g.fresh("t")
		ar := 0
		switch r.Intn(3) {
		case 0:
			g.add(fmt.Sprintf("var %s", f), nil)
			g.add(fmt.Sprintf("if true {\n  %s := %d\n  %s = func() { %s++; return %s }\n}", t, r.Intn(9), f, t, t), []string{f + "()"})
		case 1:
			g.add(fmt.Sprintf("%s := []", f), nil)
			g.add(fmt.Sprintf("for %s := 0; %s < 2; %s++ {\n  %s = append(%s, func() { %s += 10; return %s })\n}", t, t, t, f, f, t, t),
				[]string{f + "[0]()", f + "[1]()"})
			sc.kinds[f] = 'X'
			sc.vars = append(sc.vars, f)
			return
		default:
			ar = 1
			g.add(fmt.Sprintf("var %s", f), nil)
			g.add(fmt.Sprintf("try {\n  %s := [1]\n  %s = func(x) { %s = append(%s, x); return %s }\n  throw \"t\"\n} catch e {\n  e = 0\n}",
				t, f, t, t, t), []string{f + "(3)"})
		}
		sc.vars = append(sc.vars, f)
		sc.kinds[f] = 'F'
		sc.arity[f] = ar
		sc.funcs = append(sc.funcs, f)
	case "global":
		gn := g.fresh("g")
		g.add("global "+gn, nil)
		g.add(gn+" = "+g.exprK(sc, 2, 'I'), []string{gn})
		g.globals = append(g.globals, gn)
		sc.vars = append(sc.vars, gn)
		sc.kinds[gn] = 'I'
	case "compound":
		v := g.intVar()
		ops := []string{"+=", "-=", "*=", "|=", "^=", "<<=", "%="}
		g.add(fmt.Sprintf("%s %s %s", v, ops[r.Intn(len(ops))], g.exprK(sc, 1, 'I')), nil)
	case "tryfin":
		v := g.intVar()
		switch r.Intn(3) {
		case 0:
			g.add(fmt.Sprintf("try {\n  %s = %s + 1\n  %s\n} finally {\n  %s *= 2\n}", v, v, v, v), nil)
		case 1:
			g.add(fmt.Sprintf("try {\n  throw %s\n} catch e {\n  %s = [e.Message]\n} finally {\n  %s\n}", v, v, v), nil)
			sc.kinds[v] = 'X'
		default:
			g.add(fmt.Sprintf("if %s > 1 {\n  %s\n} else {\n  %s + 100\n}", v, v, v), nil)
		}
	case "shadow":
		// a top-level variable that shadows a builtin keeps shadowing it in later fragments
		names := []string{"len", "typeName", "append", "string"}
		nm := names[r.Intn(len(names))]
		for _, v := range sc.vars {
			if v == nm {
				g.add(nm, nil)
				return
			}
		}
		g.add(fmt.Sprintf("%s := func(...a) { return \"shadow\" }", nm), []string{nm + "([1])"})
		sc.vars = append(sc.vars, nm)
		sc.kinds[nm] = 'F'
	case "destruct":
		a, b := g.fresh("v"), g.fresh("v")
		g.add(fmt.Sprintf("%s, %s := %s", a, b, g.exprK(sc, 1, 'A')), []string{a, b})
		sc.kinds[a], sc.kinds[b] = 'X', 'X'
		sc.vars = append(sc.vars, a, b)
	case "import":
		g.es.Imports = true
		m := g.fresh("m")
		mod := []string{"src1", "src1", "src2", "bm"}[r.Intn(4)]
		g.add(fmt.Sprintf("%s := import(%q)", m, mod), []string{m})
		g.mods = append(g.mods, m+":"+mod)
	case "usemod":
		if len(g.mods) == 0 {
			g.add(g.logStmtOr(), nil)
			return
		}
		g.es.Imports = true
		mm := strings.SplitN(g.mods[r.Intn(len(g.mods))], ":", 2)
		var e string
		switch mm[1] {
		case "src1":
			e = mm[0] + []string{".inc()", ".get()", ".k"}[r.Intn(3)]
		case "src2":
			e = mm[0] + []string{".bump()", ".base", ".add(5)"}[r.Intn(3)]
		default:
			e = mm[0] + []string{".n", ".twice(4)", ".arr"}[r.Intn(3)]
		}
		if r.Bool() {
			g.add(e, nil)
		} else {
			v := g.fresh("v")
			g.add(v+" := "+e, []string{v})
			sc.vars = append(sc.vars, v)
			sc.kinds[v] = 'X'
		}
	case "print":
		g.es.Prints = true
		// maps print in Go's map order: print scalars and type names only
		safe := func(e string) string {
			return "(isInt(" + e + ") || isString(" + e + ") ? " + e + " : typeName(" + e + "))"
		}
		if r.Bool() {
			g.add("println("+safe(g.exprK(sc, 1, 'I'))+")", nil)
		} else {
			g.add(fmt.Sprintf("printf(\"%%v|%%v\\n\", %s, %s)", safe(g.exprK(sc, 1, 'I')), safe(g.exprK(sc, 1, 'S'))), nil)
		}
	}
}

func (g *evalGen) logStmtOr() string {
	if len(g.globals) > 0 && g.globals[0] == "log" {
		return strings.TrimRight(g.logStmt(""), "\n")
	}
	return g.exprK(g.sc, 1, 'I')
}

// failing appends a statement that fails: at run time, at compile time or in the parser.
func (g *evalGen) failing() {
	r := g.r
	g.es.FailAt = len(g.es.Stmts)
	v := ""
	if len(g.sc.vars) > 0 {
		v = g.sc.vars[r.Intn(len(g.sc.vars))]
	}
	switch r.Intn(12) {
	case 0:
		g.es.FailKnd = "runtime"
		g.add("[1, 2][5]", nil)
	case 1:
		g.es.FailKnd = "runtime"
		z := g.fresh("z")
		g.add(fmt.Sprintf("%s := 0; %s = 1 / %s", z, z, z), []string{z})
	case 2:
		g.es.FailKnd = "runtime"
		g.add("throw \"boom\"", nil)
	case 3:
		g.es.FailKnd = "runtime"
		g.add("try {\n  throw error(\"inner\")\n} finally {\n  1\n}", nil)
	case 4:
		g.es.FailKnd = "runtime"
		w := g.fresh("w")
		g.add(fmt.Sprintf("%s := 3; %s = %s()", w, w, w), []string{w})
	case 5:
		g.es.FailKnd = "compile"
		g.add("undefinedName1 + 1", nil)
	case 6:
		g.es.FailKnd = "compile"
		if v == "" {
			v = "q"
			g.add("q := 1", []string{"q"})
			g.es.FailAt = len(g.es.Stmts)
		}
		g.add(v+" := 1", nil)
	case 7:
		g.es.FailKnd = "compile"
		g.add("break", nil)
	case 8:
		g.es.FailKnd = "compile"
		if len(g.consts) > 0 {
			g.add(g.consts[0]+" = 5", nil)
		} else {
			g.add("const kk = 1; kk = 2", nil)
		}
	case 9:
		g.es.FailKnd = "parse"
		g.add("x9 := 2 +", nil)
	case 10:
		// a compile error after the fragment's earlier statements defined symbols
		g.es.FailKnd = "compile"
		n := g.fresh("v")
		g.add(fmt.Sprintf("%s := 1; %s := 2", n, n), nil)
	default:
		g.es.FailKnd = "runtime"
		f := g.fresh("f")
		g.add(fmt.Sprintf("%s := func(a) { return a.x.y }; %s(1)()", f, f), []string{f + "({x: {y: 2}})"})
	}
}
