package gen

import (
	"fmt"
	"strings"
)

// Systematic call-binding programs (C02 "fixed/variadic/spread call argument binding"):
// every (number of fixed parameters 0..3) x (variadic or not) x (explicit arguments 0..4) x
// (no spread | spread of an array of 0..4 elements) x (call position).  The callee returns its
// parameters, so a wrong binding, a lost/duplicated element or a wrong error is visible.

const (
	cbDirect  = iota // top-level call
	cbTail           // self tail call `return f(n-1, args)`
	cbDiscard        // self call as last statement, value discarded
	cbNonTail        // self call in non-tail position
	cbClosure        // call through a closure that captured f
	cbNumShapes
)

// NumCallBindPrograms is the size of the enumeration.
const NumCallBindPrograms = 4 * 2 * 5 * 6 * cbNumShapes

// CallBindProgram returns program number i of the enumeration.
func CallBindProgram(i int) string {
	np := i % 4
	i /= 4
	variadic := i%2 == 1
	i /= 2
	k := i % 5
	i /= 5
	sp := i%6 - 1 // -1: no spread
	i /= 6
	shape := i % cbNumShapes

	var ps []string
	for j := 0; j < np; j++ {
		ps = append(ps, fmt.Sprintf("p%d", j))
	}
	ret := append([]string{}, ps...)
	if variadic {
		ps = append(ps, "...rest")
		ret = append(ret, "rest", "len(rest)")
	}
	var as []string
	for j := 0; j < k; j++ {
		as = append(as, fmt.Sprint(10+j))
	}
	if sp >= 0 {
		var es []string
		for j := 0; j < sp; j++ {
			es = append(es, fmt.Sprint(20+j))
		}
		as = append(as, "...["+strings.Join(es, ", ")+"]")
	}
	args := strings.Join(as, ", ")
	body := "[" + strings.Join(ret, ", ") + "]"
	var sb strings.Builder
	sb.WriteString("global log\nlog = []\n")
	switch shape {
	case cbDirect:
		fmt.Fprintf(&sb, "f := func(%s) {\n  log = append(log, \"in\")\n  return %s\n}\n", strings.Join(ps, ", "), body)
		fmt.Fprintf(&sb, "r := f(%s)\nreturn [r, log]\n", args)
	case cbClosure:
		fmt.Fprintf(&sb, "f := func(%s) {\n  log = append(log, \"in\")\n  return %s\n}\n", strings.Join(ps, ", "), body)
		fmt.Fprintf(&sb, "g := func() {\n  h := func() { return f(%s) }\n  return h()\n}\nr := g()\nreturn [r, log]\n", args)
	default:
		nps := append([]string{"n"}, ps...)
		nargs := "n-1"
		if args != "" {
			nargs += ", " + args
		}
		fmt.Fprintf(&sb, "var f\nf = func(%s) {\n  log = append(log, n)\n  if n == 0 {\n    return %s\n  }\n", strings.Join(nps, ", "), body)
		switch shape {
		case cbTail:
			fmt.Fprintf(&sb, "  return f(%s)\n", nargs)
		case cbDiscard:
			fmt.Fprintf(&sb, "  f(%s)\n", nargs)
		default:
			fmt.Fprintf(&sb, "  r := f(%s)\n  return [\"w\", r]\n", nargs)
		}
		sb.WriteString("}\n")
		start := "2"
		if args != "" {
			start += ", " + args
		}
		fmt.Fprintf(&sb, "r := f(%s)\nreturn [r, log]\n", start)
	}
	return sb.String()
}

// ClosureChainProgram: several live closures made from ONE function literal (a factory called
// repeatedly, or a literal in a loop capturing a per-iteration variable) that call each other in
// tail position, as a discarded last statement, or in non-tail position.  A closure is not "itself"
// merely because it shares its code with its caller.
func ClosureChainProgram(r *Rand) string {
	var sb strings.Builder
	sb.WriteString("global log\nlog = []\n")
	n := 2 + r.Intn(3)
	start := r.Intn(6)
	callForm := func(callee string) string {
		switch r.Intn(6) {
		case 0, 1:
			return "    return " + callee + "(n - 1)\n"
		case 2:
			return "    " + callee + "(n - 1)\n"
		case 3:
			return "    r := " + callee + "(n - 1)\n    return r\n"
		case 4:
			return "    if n % 2 == 0 {\n      return " + callee + "(n - 1)\n    }\n    " + callee + "(n - 1)\n"
		default:
			return "    return [name, " + callee + "(n - 1)]\n"
		}
	}
	switch r.Intn(3) {
	case 0: // factory
		sb.WriteString("mk := func(name, next) {\n  cnt := 0\n  return func(n) {\n    cnt++\n    log = append(log, [name, n, cnt])\n    if n <= 0 {\n      return name\n    }\n")
		sb.WriteString(callForm("next"))
		sb.WriteString("  }\n}\n")
		sb.WriteString("c0 := mk(\"end\", func(n) { return \"stop\" })\n")
		for i := 1; i < n; i++ {
			fmt.Fprintf(&sb, "c%d := mk(\"c%d\", c%d)\n", i, i, i-1)
		}
		fmt.Fprintf(&sb, "r := c%d(%d)\nreturn [r, log]\n", n-1, start)
	case 1: // literal in a loop, per-iteration capture, ring of closures
		fmt.Fprintf(&sb, "fs := []\nfor i := 0; i < %d; i++ {\n  name := i * 10\n  fs = append(fs, func(n) {\n    log = append(log, [name, n])\n    if n <= 0 {\n      return name\n    }\n", n)
		sb.WriteString(callForm(fmt.Sprintf("fs[(name / 10 + 1) %% %d]", n)))
		sb.WriteString("  })\n}\n")
		fmt.Fprintf(&sb, "r := fs[%d](%d)\nreturn [r, log]\n", r.Intn(n), start)
	default: // factory whose closures also recurse into themselves
		sb.WriteString("mk := func(name, next) {\n  var self\n  self = func(n) {\n    log = append(log, [name, n])\n    if n <= 0 {\n      return name\n    }\n    if n % 3 == 0 {\n      return self(n - 1)\n    }\n")
		sb.WriteString(callForm("next"))
		sb.WriteString("  }\n  return self\n}\n")
		sb.WriteString("c0 := mk(\"end\", func(n) { return \"stop\" })\n")
		for i := 1; i < n; i++ {
			fmt.Fprintf(&sb, "c%d := mk(\"c%d\", c%d)\n", i, i, i-1)
		}
		fmt.Fprintf(&sb, "r := c%d(%d)\nreturn [r, log]\n", n-1, start+2)
	}
	return sb.String()
}

// Destructuring programs (C02 "array destructuring"): targets 1..4 x right-hand sides that own their
// storage or are slices of a longer LIVE array (`full[:m]`, `full[m:]`, a function returning a slice) x
// define / assign; the program returns the targets AND the other array, so that padding or truncation
// done in place on shared storage is visible.
const NumDestructPrograms = 4 * 5 * 5 * 2

func DestructProgram(i int) string {
	k := 1 + i%4
	i /= 4
	rhs := i % 5
	i /= 5
	m := i % 5
	i /= 5
	define := i%2 == 0
	var ts []string
	for j := 0; j < k; j++ {
		ts = append(ts, fmt.Sprintf("t%d", j))
	}
	var sb strings.Builder
	sb.WriteString("full := [1, 2, 3, 4]\nother := full[1:]\n")
	var r string
	switch rhs {
	case 0:
		var es []string
		for j := 0; j < m; j++ {
			es = append(es, fmt.Sprint(10+j))
		}
		r = "[" + strings.Join(es, ", ") + "]"
	case 1:
		r = fmt.Sprintf("full[:%d]", m)
	case 2:
		r = fmt.Sprintf("full[%d:]", m)
	case 3:
		fmt.Fprintf(&sb, "cut := func(n) { return full[:n] }\n")
		r = fmt.Sprintf("cut(%d)", m)
	default:
		// (no `append(full[:m], x)` form: whether append writes into the spare capacity of `full` is Go
		// slice-capacity behaviour, which the models do not track)
		r = fmt.Sprintf("full[%d:%d]", m/2, m)
	}
	if define {
		fmt.Fprintf(&sb, "%s := %s\n", strings.Join(ts, ", "), r)
	} else {
		fmt.Fprintf(&sb, "var (%s)\n%s = %s\n", strings.Join(ts, ", "), strings.Join(ts, ", "), r)
	}
	fmt.Fprintf(&sb, "first := [%s, full, other]\n", strings.Join(ts, ", "))
	// a second destructuring from the same storage sees what the first one left
	fmt.Fprintf(&sb, "u0, u1, u2 := full[1:]\nreturn [first, u0, u1, u2, full, other]\n")
	return sb.String()
}
