// Package gen holds the PRNG and the generators of the correspondence harness.
package gen

// Rand is splitmix64: every random choice of a run derives from one seed.
type Rand struct{ s uint64 }

func NewRand(seed uint64) *Rand {
	// scramble the seed so that consecutive seeds give unrelated streams
	z := (seed + 0x632BE59BD9B4E019) * 0xD6E8FEB86659FD93
	z = (z ^ (z >> 32)) * 0xD6E8FEB86659FD93
	return &Rand{s: z ^ (z >> 32)}
}

func (r *Rand) U64() uint64 {
	r.s += 0x9E3779B97F4A7C15
	z := r.s
	z = (z ^ (z >> 30)) * 0xBF58476D1CE4E5B9
	z = (z ^ (z >> 27)) * 0x94D049BB133111EB
	return z ^ (z >> 31)
}

func (r *Rand) Intn(n int) int {
	if n <= 0 {
		return 0
	}
	return int(r.U64() % uint64(n))
}

func (r *Rand) Bool() bool { return r.U64()&1 == 1 }

// Fork derives an independent generator (for per-case determinism).
func (r *Rand) Fork() *Rand { return &Rand{s: r.U64()} }
