package gen

import (
	"fmt"
	"strings"
)

// FailCase is a script built to fail at run time (property C06).
type FailCase struct {
	Src   string
	Class string // failure atom class (distribution / distinct key)
	Wrap  string // where the failure is placed
	Host  bool   // uses the host callbacks of the harness globals (oracle only)
}

// failure atoms: expression text over the variables of failSetup.
// All operands come through variables so that the optimizer cannot fold them.
const failSetup = `z := 0
m := -1
arr := [1, 2, 3]
s := "abc"
nf := 5
u := undefined
mp := {a: 1}
f1 := func(a) { return a }
fv := func(a, ...b) { return a }
uz := 0u
`

var failAtoms = [][2]string{
	{"div0", "1 / z"}, {"rem0", "7 % z"}, {"shl-neg", "1 << m"}, {"shr-neg", "8 >> m"},
	{"udiv0", "1u / uz"}, {"urem0", "5u % uz"}, {"chardiv0", "'a' % z"},
	{"idx-oob", "arr[5]"}, {"idx-neg", "arr[m]"}, {"str-idx-oob", "s[10]"}, {"idx-type", "arr[s]"},
	{"slice-inv", "arr[2:1]"}, {"slice-oob", "arr[0:9]"}, {"slice-neg", "s[m:2]"}, {"slice-type", "arr[s:]"}, {"slice-nonseq", "nf[0:1]"},
	{"call-int", "nf()"}, {"call-undef", "u(1, 2)"}, {"call-str", "s(1)"}, {"call-arr", "arr()"}, {"call-map", "mp(1)"},
	{"callname-missing", "arr.foo()"}, {"callname-undef", "mp.a.b.c()"}, {"callname-int", "nf.x()"},
	{"not-indexable", "nf.x.y"}, {"unary-str", "(-s)"}, {"unary-arr", "(^arr)"},
	{"add-type", "(1 + s)"}, {"arr-lt", "(arr < 2)"}, {"map-sub", "(mp - 1)"}, {"fn-add", "(f1 + 1)"},
	{"argc-more", "f1(1, 2, 3)"}, {"argc-less", "f1()"}, {"argc-variadic", "fv()"},
	{"spread-nonarray", "f1(...nf)"}, {"spread-count", "f1(...[1, 2])"}, {"spread-variadic-short", "fv(...[])"},
	{"builtin-argc", "len()"}, {"builtin-argc2", "len(1, 2)"}, {"append-type", "append(nf, 1)"},
}

// statements (not expressions) that fail
var failStmts = [][2]string{
	{"setidx-oob", "arr[7] = 1"}, {"setidx-int", "nf[0] = 1"}, {"setidx-str", "s[0] = 1"}, {"setidx-type", "arr[s] = 1"},
	{"throw-int", "throw 42"}, {"throw-undef", "throw undefined"}, {"throw-arr", "throw arr"}, {"throw-str", `throw "boom"`},
	{"forin-int", "for x in nf { nf = x }"}, {"forin-fn", "for x in f1 { nf = x }"},
}

func (r *Rand) pick(n int) int { return r.Intn(n) }

func commaList(n int, elem string) string {
	if n <= 0 {
		return ""
	}
	return strings.Repeat(elem+", ", n)
}

// wideExpr nests array literals so that `pending` values are on the VM stack when `inner` is evaluated.
func wideExpr(pending int, inner string) string {
	// one literal can hold at most 65535 elements; use levels of up to 900 elements
	e := inner
	for pending > 0 {
		k := pending
		if k > 900 {
			k = 900
		}
		e = "[" + commaList(k, "0") + e + "]"
		pending -= k
	}
	return e
}

func wrapFail(r *Rand, stmt string, isExpr bool) (string, string) {
	use := stmt
	if isExpr {
		use = "x0 := " + stmt + "\nlog = append(log, typeName(x0))"
	}
	catchBody := func() string {
		switch r.pick(4) {
		case 0:
			return "log = append(log, typeName(e))"
		case 1:
			return "log = append(log, e.Name)"
		case 2:
			return "log = append(log, e.Message)"
		}
		return "log = append(log, 9)"
	}
	switch r.pick(12) {
	case 0:
		return use + "\nreturn 1\n", "bare"
	case 1:
		return "try {\n" + use + "\nreturn 1\n} catch e {\n" + catchBody() + "\nreturn 2\n}\nreturn 3\n", "try-catch"
	case 2:
		return "try {\n" + use + "\n} finally {\nlog = append(log, 7)\n}\nreturn 3\n", "try-finally"
	case 3:
		return "try {\n" + use + "\n} catch e {\n" + catchBody() + "\n} finally {\nlog = append(log, 7)\n}\nreturn 3\n", "try-catch-finally"
	case 4:
		return "try {\nthrow \"first\"\n} catch e {\n" + use + "\n}\nreturn 3\n", "in-catch"
	case 5:
		return "try {\ntry {\nthrow \"first\"\n} catch e {\n" + use + "\n} finally {\nlog = append(log, 6)\n}\n} catch e2 {\nlog = append(log, e2.Message)\n}\nreturn 3\n", "in-catch-outer"
	case 6:
		return "try {\nlog = append(log, 0)\n} finally {\n" + use + "\n}\nreturn 3\n", "in-finally"
	case 7:
		return "try {\ntry {\nreturn 5\n} finally {\n" + use + "\n}\n} catch e2 {\nlog = append(log, typeName(e2))\nreturn 4\n}\nreturn 3\n", "in-finally-pending-return"
	case 8:
		return "g := func() {\n" + use + "\nreturn 1\n}\ntry {\nreturn g()\n} catch e {\n" + catchBody() + "\nreturn 2\n}\n", "callee-caught-by-caller"
	case 9:
		return "var g\ng = func(n) {\nif n == 0 {\n" + use + "\n}\ntry {\nreturn g(n - 1) + 1\n} finally {\nlog = append(log, n)\n}\n}\ntry {\nreturn g(" + fmt.Sprint(1+r.pick(5)) + ")\n} catch e {\n" + catchBody() + "\nreturn 2\n}\n", "unwind-through-finally-frames"
	case 10:
		return "c := 0\nfor i := 0; i < " + fmt.Sprint(2+r.pick(4)) + "; i++ {\ntry {\n" + use + "\n} catch e {\nc += 1\n}\n}\nreturn c\n", "loop-catch"
	}
	return "g := func() {\ntry {\n" + use + "\n} finally {\nlog = append(log, 8)\n}\n}\ng()\nreturn 1\n", "callee-finally-uncaught"
}

// FailProgram returns one script built to fail.
func FailProgram(r *Rand) FailCase {
	head := "global log\nlog = []\n" + failSetup
	k := r.pick(100)
	switch {
	case k < 45:
		a := failAtoms[r.pick(len(failAtoms))]
		body, w := wrapFail(r, a[1], true)
		return FailCase{Src: head + body, Class: a[0], Wrap: w}
	case k < 58:
		a := failStmts[r.pick(len(failStmts))]
		body, w := wrapFail(r, a[1], false)
		return FailCase{Src: head + body, Class: a[0], Wrap: w}
	case k < 66:
		// unbounded / deep non-tail recursion: frame limit 1024
		depth := []int{10, 500, 1019, 1020, 1021, 1022, 1023, 1024, 1025, 1500, 100000}[r.pick(11)]
		fn := fmt.Sprintf("var rec\nrec = func(n) {\nif n >= %d { return 0 }\nreturn rec(n + 1) + 1\n}\n", depth)
		body, w := wrapFail(r, "rec(0)", true)
		return FailCase{Src: head + fn + body, Class: fmt.Sprintf("recursion-%d", depth), Wrap: w}
	case k < 69:
		// zero-argument recursion: one stack slot per frame, so the FRAME limit (1024) is reached
		// before the value stack is exhausted; `d` is a captured counter
		depth := []int{10, 1019, 1020, 1021, 1022, 1023, 1024, 1025, 1500, 100000}[r.pick(10)]
		fn := fmt.Sprintf("d := 0\nvar rec0\nrec0 = func() {\nd += 1\nif d >= %d { return 0 }\nreturn rec0() + 1\n}\n", depth)
		body, w := wrapFail(r, "rec0()", true)
		return FailCase{Src: head + fn + body, Class: fmt.Sprintf("frames-%d", depth), Wrap: w}
	case k < 72:
		if r.pick(2) == 0 {
			// a Go panic (index out of range while the callee's locals are initialised, sp < 2048)
			// raised in a frame that has its own handler: must be delivered to that frame's catch
			nl := []int{30, 60, 120}[r.pick(3)]
			var sb strings.Builder
			sb.WriteString("var rec\nrec = func(n) {\n")
			for i := 0; i < nl; i++ {
				fmt.Fprintf(&sb, "l%d := n\n", i)
			}
			sb.WriteString("try {\nreturn rec(n + 1) + l0\n} catch e {\nlog = append(log, n)\nreturn n\n}\n}\nreturn rec(0)\n")
			return FailCase{Src: head + sb.String(), Class: fmt.Sprintf("recursion-locals-caught-in-frame-%d", nl), Wrap: "try-catch"}
		}
		// recursion where the deepest frame itself catches the overflow and goes on
		src := head + "var rec\nrec = func(n) {\ntry {\nreturn rec(n + 1) + 1\n} catch e {\nlog = append(log, e.Name)\nreturn 100\n}\nreturn 2\n}\nreturn rec(0)\n"
		if r.Bool() {
			src = head + "var rec\nrec = func(n) {\ntry {\nrec(n + 1)\n} catch e {\nreturn f1(7)\n} finally {\nz += 1\n}\nreturn 2\n}\nreturn [rec(0), z]\n"
		}
		return FailCase{Src: src, Class: "recursion-caught-deepest", Wrap: "try-catch"}
	case k < 80:
		// recursion with many locals: the value stack (2048) is exhausted before the frame limit
		nl := []int{20, 40, 100, 200}[r.pick(4)]
		var sb strings.Builder
		sb.WriteString("var rec\nrec = func(n) {\n")
		for i := 0; i < nl; i++ {
			fmt.Fprintf(&sb, "l%d := n\n", i)
		}
		sb.WriteString("return rec(n + 1) + l0\n}\n")
		body, w := wrapFail(r, "rec(0)", true)
		return FailCase{Src: head + sb.String() + body, Class: fmt.Sprintf("recursion-locals-%d", nl), Wrap: w}
	case k < 92:
		// wide expressions around the 2048-slot limit; main has 10 locals (+1 for x0) declared by head
		pending := 2000 + r.pick(60)
		if r.pick(4) == 0 {
			pending = 3000
		}
		inner := []string{"1", "1 / z", "arr[5]", "nf()", "f1(1)", "f1()", "[1, 2, 3]", "(1 + s)", "fv(1, 2, 3)", "fv(...arr)"}[r.pick(10)]
		body, w := wrapFail(r, wideExpr(pending, inner), true)
		return FailCase{Src: head + body, Class: "wide", Wrap: w}
	case k < 96:
		// bounded self tail call that fails at the end (frames are reused)
		n := []int{3, 100, 3000}[r.pick(3)]
		fn := fmt.Sprintf("var loop\nloop = func(n) {\nif n >= %d { return 1 / z }\nreturn loop(n + 1)\n}\n", n)
		body, w := wrapFail(r, "loop(0)", true)
		return FailCase{Src: head + fn + body, Class: "tailcall-fail", Wrap: w}
	}
	// host callbacks (globals of the harness): oracle only
	calls := []string{"hostPanic()", "hostPanic(1, 2)", "hostPanicEx(1)", "hostPanicEx(...arr)", "hostObj()", "hostObj(1, 2, 3)",
		"hostNil()", "hostErr()", "hostInvoke(f1)", "hostInvoke(func() { return 1 / z })", "hostInvoke(func() { return hostPanic() })",
		"hostNameCaller.boom(1)", "hostNameCaller.x.y()", "hostPanic(...nf)",
		"hostPanicVal(0)", "hostPanicVal(1)", "hostPanicVal(2)", "hostPanicVal(3)", "hostPanicVal(4)", "hostPanicVal(5)", "hostInvoke(func() { return hostPanicVal(0) })"}
	c := calls[r.pick(len(calls))]
	body, w := wrapFail(r, c, true)
	return FailCase{Src: "global (hostPanic, hostPanicEx, hostObj, hostNil, hostErr, hostInvoke, hostNameCaller, hostPanicVal)\n" + head + body,
		Class: "host:" + strings.SplitN(c, "(", 2)[0], Wrap: w, Host: true}
}
