package gen

// Generators for the `enc` / `dec` streams (C04, C18): an extended constant
// pool for the bytecode encoder and a generator of uGO programs with module maps.

import (
	"fmt"
	"math"
	"sort"
	"strings"
	gotime "time"

	"github.com/ozanh/ugo"
	ufmt "github.com/ozanh/ugo/stdlib/fmt"
	ujson "github.com/ozanh/ugo/stdlib/json"
	ustrings "github.com/ozanh/ugo/stdlib/strings"
	utime "github.com/ozanh/ugo/stdlib/time"
)

func stubValue(args ...ugo.Object) (ugo.Object, error) { return ugo.Int(len(args)), nil }

// EncFuncs are *ugo.Function values (encoded by name).
func EncFuncs() []ugo.Object {
	return []ugo.Object{
		&ugo.Function{Name: "fa", Value: stubValue},
		&ugo.Function{Name: "", Value: stubValue},
		&ugo.Function{Name: "mod.Func\xff\x00 name", Value: stubValue},
		&ugo.Function{Name: strings.Repeat("n", 200), Value: stubValue},
	}
}

// EncBuiltinFuncs lists every *ugo.BuiltinFunction of ugo.BuiltinObjects, by index.
func EncBuiltinFuncs() []ugo.Object {
	var out []ugo.Object
	for _, o := range ugo.BuiltinObjects {
		if f, ok := o.(*ugo.BuiltinFunction); ok && f != nil {
			out = append(out, f)
		}
	}
	return out
}

// EncCompiledFuncs: every combination of zero / non-zero fields.
func EncCompiledFuncs() []ugo.Object {
	var out []ugo.Object
	insts := [][]byte{nil, {}, {1, 2, 3, 0, 255, 9}}
	smaps := []func() map[int]int{
		func() map[int]int { return nil },
		func() map[int]int { return map[int]int{} },
		func() map[int]int {
			return map[int]int{0: 1, 5: 77, -1: -5, math.MaxInt64: math.MinInt64, math.MinInt64: math.MaxInt64, 300: 0}
		},
	}
	for _, np := range []int{0, 3} {
		for _, nl := range []int{0, 70} {
			for _, in := range insts {
				for _, va := range []bool{false, true} {
					for _, sm := range smaps {
						var ic []byte
						if in != nil {
							ic = append([]byte{}, in...)
						}
						out = append(out, &ugo.CompiledFunction{NumParams: np, NumLocals: nl, Instructions: ic, Variadic: va, SourceMap: sm()})
					}
				}
			}
		}
	}
	out = append(out,
		&ugo.CompiledFunction{NumParams: math.MaxInt64, NumLocals: math.MaxInt64},
		&ugo.CompiledFunction{NumParams: 1, NumLocals: 1, Instructions: make([]byte, 300), SourceMap: map[int]int{7: 7}},
	)
	return out
}

// EncSyncMaps: nil / empty / filled Value.
func EncSyncMaps() []ugo.Object {
	return []ugo.Object{
		&ugo.SyncMap{},
		&ugo.SyncMap{Value: ugo.Map{}},
		&ugo.SyncMap{Value: ugo.Map{"a": ugo.Int(1)}},
		&ugo.SyncMap{Value: ugo.Map{"a": ugo.Int(1), "": ugo.Array{ugo.Float(math.NaN())}, "\xff": &ugo.SyncMap{}}},
	}
}

// EncGobObjects are objects without a binary marshaler (gob fallback, tag 255).
func EncGobObjects() []ugo.Object {
	var inner ugo.Object = ugo.Int(7)
	return []ugo.Object{
		&ugo.Error{Name: "MyError", Message: "something failed"},
		&ugo.Error{},
		&ugo.ObjectPtr{},
		&ugo.ObjectPtr{Value: &inner},
		&ugo.RuntimeError{Err: &ugo.Error{Name: "rt", Message: "m"}},
		&utime.Time{Value: gotime.Unix(1600000000, 123456789).UTC()},
		&utime.Time{},
		&ujson.RawMessage{Value: []byte(`{"a":1}`)},
		&ujson.EncoderOptions{Value: ugo.Float(1.5), Quote: true},
	}
}

// ContainsGob reports whether the object tree holds an object that the encoder
// sends through the gob fallback.
func ContainsGob(o ugo.Object) bool {
	switch v := o.(type) {
	case nil:
		return false
	case *ugo.UndefinedType, ugo.Bool, ugo.Int, ugo.Uint, ugo.Char, ugo.Float, ugo.String, ugo.Bytes,
		*ugo.CompiledFunction, *ugo.Function, *ugo.BuiltinFunction:
		return false
	case ugo.Array:
		for _, e := range v {
			if ContainsGob(e) {
				return true
			}
		}
		return false
	case ugo.Map:
		for _, e := range v {
			if ContainsGob(e) {
				return true
			}
		}
		return false
	case *ugo.SyncMap:
		if v == nil {
			return false
		}
		for _, e := range v.Value {
			if ContainsGob(e) {
				return true
			}
		}
		return false
	}
	return true
}

func encLeafPool() []ugo.Object {
	p := ScalarPool()
	p = append(p, EncFuncs()...)
	p = append(p, EncBuiltinFuncs()[:6]...)
	cfs := EncCompiledFuncs()
	for i := 0; i < len(cfs); i += 7 {
		p = append(p, cfs[i])
	}
	p = append(p, EncSyncMaps()...)
	return p
}

// EncConstPool is the fixed constant pool of the `enc` stream.
func EncConstPool() []ugo.Object {
	p := ValuePool()
	p = append(p, EncSyncMaps()...)
	p = append(p, EncCompiledFuncs()...)
	p = append(p, EncFuncs()...)
	p = append(p, EncBuiltinFuncs()...)
	p = append(p, ugo.Float(math.Copysign(0, -1)),
		ugo.Float(math.Float64frombits(0x7ff8000000000001)), ugo.Float(math.Float64frombits(0xfff0000000000001)),
		ugo.Float(math.Float64frombits(1)), ugo.Float(math.Float64frombits(0x8000000000000001)),
		ugo.Int(-64), ugo.Int(-65), ugo.Int(1<<62), ugo.Int(-(1 << 62)), ugo.Uint(127), ugo.Uint(128), ugo.Uint(1<<56),
		ugo.Char(63), ugo.Char(-64), ugo.Char(-65),
	)
	// gob-fallback objects only occur nested
	gobs := EncGobObjects()
	for _, g := range gobs {
		p = append(p, ugo.Array{g})
	}
	p = append(p, ugo.Map{"e": gobs[0], "k": ugo.Int(1)}, &ugo.SyncMap{Value: ugo.Map{"e": gobs[0]}},
		ugo.Array{ugo.Int(1), gobs[0], ugo.String("tail"), gobs[3], ugo.Array{gobs[5]}})
	// containers holding everything
	all := ugo.Array{}
	all = append(all, ScalarPool()...)
	all = append(all, EncSyncMaps()...)
	all = append(all, EncFuncs()...)
	all = append(all, EncCompiledFuncs()[:12]...)
	all = append(all, EncBuiltinFuncs()[:4]...)
	am := ugo.Map{}
	for i, e := range all {
		am[fmt.Sprintf("k%03d", i)] = e
	}
	am[""] = ugo.Map{"": ugo.Map{"": ugo.Array{}}}
	am["\xff\x00"] = ugo.Array{ugo.Map{}, ugo.Array{ugo.Array{ugo.Array{}}}}
	am[strings.Repeat("K", 300)] = ugo.Undefined
	p = append(p, all, am, ugo.Array{all, am, ugo.Map{"all": all}})
	// large values
	p = append(p, ugo.String(strings.Repeat("s", 1024)), ugo.String(strings.Repeat("\xfe", 70000)),
		ugo.Bytes(strings.Repeat("b", 1024)), ugo.Bytes(make([]byte, 70000)))
	big := make(ugo.Array, 300)
	for i := range big {
		big[i] = ugo.Int(int64(i) * 0x0101010101010101)
	}
	p = append(p, big)
	big2 := make(ugo.Array, 300)
	for i := range big2 {
		big2[i] = ugo.Array{ugo.Char(i), ugo.String(fmt.Sprint(i))}
	}
	p = append(p, big2, ugo.Map{"big": big2})
	return p
}

// RandEncValue builds a random nested value whose leaves come from the extended
// leaf pool; with gob set it may contain gob-fallback objects.
func RandEncValue(r *Rand, depth int, gob bool) ugo.Object {
	leaves := encLeafPool()
	if depth <= 0 || r.Intn(3) > 0 {
		if gob && r.Intn(8) == 0 {
			g := EncGobObjects()
			return g[r.Intn(len(g))]
		}
		return leaves[r.Intn(len(leaves))]
	}
	n := r.Intn(5)
	switch r.Intn(5) {
	case 0, 1:
		a := make(ugo.Array, n)
		for i := range a {
			a[i] = RandEncValue(r, depth-1, gob)
		}
		return a
	case 2, 3:
		m := ugo.Map{}
		keys := []string{"", "a", "b", "k", "\xff", "long key with spaces", "\x00"}
		for i := 0; i < n; i++ {
			m[keys[r.Intn(len(keys))]] = RandEncValue(r, depth-1, gob)
		}
		return m
	}
	m := ugo.Map{}
	for i := 0; i < n; i++ {
		m[fmt.Sprintf("s%d", r.Intn(4))] = RandEncValue(r, depth-1, gob)
	}
	return &ugo.SyncMap{Value: m}
}

// ---- builtin modules ----

// CustAttrs builds the custom builtin module: one attribute of every value type.
// With gob set it additionally holds an *ugo.Error (gob fallback).
func CustAttrs(gob bool) map[string]ugo.Object {
	inner := &ugo.Function{Name: "inner", Value: func(args ...ugo.Object) (ugo.Object, error) {
		return ugo.Array(append(ugo.Array{ugo.String("inner")}, args...)), nil
	}}
	m := map[string]ugo.Object{
		"i":    ugo.Int(42),
		"imin": ugo.Int(math.MinInt64),
		"u":    ugo.Uint(math.MaxUint64),
		"f":    ugo.Float(1.5),
		"nan":  ugo.Float(math.NaN()),
		"negz": ugo.Float(math.Copysign(0, -1)),
		"c":    ugo.Char('x'),
		"t":    ugo.True,
		"s":    ugo.String("str"),
		"e":    ugo.String(""),
		"y":    ugo.Bytes{0, 255},
		"arr":  ugo.Array{ugo.Int(1), ugo.String("a"), ugo.Array{ugo.Float(2.5)}},
		"m":    ugo.Map{"k": ugo.Int(1), "fn": inner, "n": ugo.Map{"z": ugo.Undefined}},
		"fn": &ugo.Function{Name: "cust.fn", Value: func(args ...ugo.Object) (ugo.Object, error) {
			return ugo.Int(100 + len(args)), nil
		}},
		"fail": &ugo.Function{Name: "cust.fail", Value: func(args ...ugo.Object) (ugo.Object, error) {
			return nil, &ugo.Error{Name: "CustFail", Message: "failed in Go"}
		}},
		"blen": ugo.BuiltinObjects[ugo.BuiltinLen],
		"und":  ugo.Undefined,
		"sm":   &ugo.SyncMap{Value: ugo.Map{"a": ugo.Int(1)}},
	}
	if gob {
		m["err"] = &ugo.Error{Name: "CustErr", Message: "boom"}
		// several values that go through the gob fallback in ONE map (each is a self-contained gob
		// stream: the decoder creates a fresh gob decoder per value), also nested
		m["err2"] = &ugo.Error{Name: "OtherErr", Message: "second"}
		m["errs"] = ugo.Map{"a": &ugo.Error{Name: "A", Message: "a"}, "b": &ugo.Error{Name: "B", Message: "b"}, "n": ugo.Int(1)}
	}
	return m
}

// TinyAttrs is a small builtin module (keeps `dec` bases short).
func TinyAttrs() map[string]ugo.Object {
	return map[string]ugo.Object{
		"k": ugo.Int(7),
		"f": &ugo.Function{Name: "tiny.f", Value: stubValue},
	}
}

var builtinModules = map[string]func() map[string]ugo.Object{
	"strings": func() map[string]ugo.Object { return ustrings.Module },
	"time":    func() map[string]ugo.Object { return utime.Module },
	"fmt":     func() map[string]ugo.Object { return ufmt.Module },
	"json":    func() map[string]ugo.Object { return ujson.Module },
	"cust":    func() map[string]ugo.Object { return CustAttrs(false) },
	"custg":   func() map[string]ugo.Object { return CustAttrs(true) },
	"tiny":    TinyAttrs,
}

// EncProgram is one generated script with its modules and run inputs.
type EncProgram struct {
	Src      string
	SrcMods  map[string]string // source modules
	Builtins []string          // names of builtin modules (sorted)
	HasGob   bool              // imports the custom module with the gob attribute
	Feat     []string          // feature tags (for the distribution)
	Inputs   []Input
}

type Input struct {
	Globals ugo.Object // nil or Map
	Args    []ugo.Object
}

// ModuleMap builds the module map of p and the attribute maps of its builtin modules.
func (p *EncProgram) ModuleMap() (*ugo.ModuleMap, map[string]map[string]ugo.Object) {
	mm := ugo.NewModuleMap()
	attrs := map[string]map[string]ugo.Object{}
	for _, n := range p.Builtins {
		a := builtinModules[n]()
		attrs[n] = a
		mm.AddBuiltinModule(n, a)
	}
	names := make([]string, 0, len(p.SrcMods))
	for n := range p.SrcMods {
		names = append(names, n)
	}
	sort.Strings(names)
	for _, n := range names {
		mm.AddSourceModule(n, []byte(p.SrcMods[n]))
	}
	return mm, attrs
}

type encProgGen struct {
	r        *Rand
	b        strings.Builder
	n        int
	builtins map[string]bool
	srcmods  map[string]string
	feat     map[string]bool
	imported map[string]bool
	hasRest  bool
	hasP1    bool
	hasG     bool
	small    bool
}

func (g *encProgGen) pick(xs []string) string { return xs[g.r.Intn(len(xs))] }

var intLits = []string{"0", "1", "-1", "2", "63", "64", "-64", "-65", "255", "256", "65535", "2147483647", "2147483648",
	"4294967296", "9007199254740993", "9223372036854775807", "(-9223372036854775807-1)", "-9223372036854775807",
	"0x7fffffffffffffff", "0xff", "1234567890123"}
var uintLits = []string{"0u", "1u", "255u", "18446744073709551615u", "9223372036854775808u", "127u", "128u"}
var floatLits = []string{"0.0", "-0.0", "1.5", "0.1", "1e308", "5e-324", "1.7976931348623157e308", "2.2250738585072014e-308",
	"3.141592653589793", "1e-7", "123456789.125", "-1.5e-10", "(1e308*10.0)", "(-1e308*10.0)", "((1e308*10.0)-(1e308*10.0))"}
var charLits = []string{`'a'`, `'\n'`, `'\\'`, `'\''`, `'é'`, `'é'`, `'😀'`, `'\x00'`, `'\U0010FFFF'`, `'0'`, `' '`}
var strLits = []string{`""`, `"a"`, `"a\tb\n"`, `"\"q\""`, `"\x00\xff"`, `"é\U0001F600"`, "`raw\\n`", `"héllo wörld"`,
	`"__module_name__"`, `"line1\nline2"`, `"\\"`, `"%d %s"`}

func (g *encProgGen) intLit() string {
	if g.r.Intn(4) == 0 {
		return fmt.Sprint(int64(g.r.U64() >> uint(g.r.Intn(64))))
	}
	return g.pick(intLits)
}

func (g *encProgGen) strLit() string {
	switch g.r.Intn(12) {
	case 0:
		return `"` + strings.Repeat("x", 1+g.r.Intn(300)) + `"`
	case 1:
		w := []string{"alpha", "beta", "gamma", "delta"}
		return `"` + g.pick(w) + " " + g.pick(w) + `"`
	}
	return g.pick(strLits)
}

func (g *encProgGen) scalarLit() string {
	switch g.r.Intn(8) {
	case 0:
		return g.pick(uintLits)
	case 1:
		return g.pick(floatLits)
	case 2:
		return g.pick(charLits)
	case 3:
		return g.strLit()
	case 4:
		return g.pick([]string{"true", "false", "undefined"})
	}
	return g.intLit()
}

func (g *encProgGen) valueLit(depth int) string {
	if depth <= 0 || g.r.Intn(3) > 0 {
		return g.scalarLit()
	}
	n := g.r.Intn(4)
	parts := make([]string, n)
	if g.r.Bool() {
		for i := range parts {
			parts[i] = g.valueLit(depth - 1)
		}
		return "[" + strings.Join(parts, ", ") + "]"
	}
	keys := []string{"a", "b", `"k 1"`, "zz", `""`}
	used := map[string]bool{}
	parts = parts[:0]
	for i := 0; i < n; i++ {
		k := g.pick(keys)
		if used[k] {
			continue
		}
		used[k] = true
		parts = append(parts, k+": "+g.valueLit(depth-1))
	}
	return "{" + strings.Join(parts, ", ") + "}"
}

func (g *encProgGen) line(format string, args ...interface{}) {
	// random vertical / horizontal whitespace and comments shift source positions
	switch g.r.Intn(6) {
	case 0:
		g.b.WriteString("\n")
	case 1:
		g.b.WriteString("// c" + fmt.Sprint(g.r.Intn(1000)) + "\n")
	case 2:
		g.b.WriteString(strings.Repeat(" ", g.r.Intn(5)))
	}
	fmt.Fprintf(&g.b, format, args...)
	g.b.WriteString("\n")
}

func (g *encProgGen) id() int { g.n++; return g.n }

func (g *encProgGen) imp(name string) string {
	v := "mod_" + name
	if !g.imported[name] {
		g.imported[name] = true
		g.line("%s := import(%q)", v, name)
	}
	return v
}

func (g *encProgGen) needSrc(name string) {
	if _, ok := g.srcmods[name]; ok {
		return
	}
	pad := strings.Repeat("\n", g.r.Intn(3))
	k := g.r.Intn(50)
	switch name {
	case "m1":
		g.needSrc("m2")
		g.srcmods[name] = pad + fmt.Sprintf(`m2 := import("m2")
base := %d
return {
  add: func(a, b) { return a + b + m2.k + base },
  boom: func(x) { return m2.bad(x) },
  mk: func(n) { return func() { return n * 2 + base } },
  names: [m2.name, "m1"],
  thrower: m2.thrower,
}
`, k)
	case "m2":
		g.srcmods[name] = pad + fmt.Sprintf(`k := %d
bad := func(x) {
%s  return [1, 2][x]
}
return {k: k, pi: 3.5, name: "m2", bad: bad,
  thrower: func(msg) {
      throw error(msg) },
  div: func(a, b) { return a / b }}
`, k, strings.Repeat("\n", g.r.Intn(3)))
	case "m3":
		g.builtins["strings"] = true
		g.srcmods[name] = pad + `s := import("strings")
up := func(x, ...more) { return s.ToUpper(x) + string(len(more)) }
return {up: up, call: func(f) { return f() }}
`
	}
}

type snippet struct {
	name string
	w    int
	f    func(g *encProgGen)
}

var snippets = []snippet{
	{"ints", 3, func(g *encProgGen) {
		a, b := g.intLit(), g.intLit()
		g.line("out = append(out, %s, %s, %s %s %s)", a, b, a, g.pick([]string{"+", "-", "*", "&", "|", "^"}), b)
	}},
	{"uints", 2, func(g *encProgGen) {
		a, b := g.pick(uintLits), g.pick(uintLits)
		g.line("out = append(out, %s, %s + %s, %s * 3u)", a, a, b, b)
	}},
	{"floats", 3, func(g *encProgGen) {
		a, b := g.pick(floatLits), g.pick(floatLits)
		g.line("out = append(out, %s, %s, %s * %s, string(%s))", a, b, a, b, a)
	}},
	{"chars", 2, func(g *encProgGen) {
		a := g.pick(charLits)
		g.line("out = append(out, %s, %s + 1, string(%s))", a, g.pick(charLits), a)
	}},
	{"strings", 3, func(g *encProgGen) {
		a, b := g.strLit(), g.strLit()
		g.line("out = append(out, %s, %s + %s, len(%s))", a, a, b, b)
	}},
	{"bytes", 2, func(g *encProgGen) {
		g.line("out = append(out, bytes(%s), bytes(1, 2, 255), bytes(), bytes(%s)[0:0])", g.strLit(), `"ab"`)
	}},
	{"containers", 4, func(g *encProgGen) {
		n := g.id()
		g.line("v%d := %s", n, "["+g.valueLit(3)+", "+g.valueLit(2)+"]")
		g.line("out = append(out, v%d, v%d[0], len(v%d))", n, n, n)
		g.line("w%d := {a: %s, \"b c\": %s}", n, g.valueLit(2), g.scalarLit())
		g.line("out = append(out, w%d, w%d.a, w%d[\"b c\"])", n, n, n)
	}},
	{"closure", 3, func(g *encProgGen) {
		n := g.id()
		g.line("mk%d := func(a) { c := %s; return func(b) { c += 1; return [a, b, c] } }", n, g.intLit())
		g.line("h%d := mk%d(%s)", n, n, g.scalarLit())
		g.line("out = append(out, h%d(1), h%d(%s))", n, n, g.scalarLit())
	}},
	{"variadic", 3, func(g *encProgGen) {
		n := g.id()
		g.line("va%d := func(x, ...r) { return [x, len(r), r] }", n)
		g.line("vb%d := func(...r) { return r }", n)
		g.line("sp%d := [%s, 4]", n, g.scalarLit())
		g.line("out = append(out, va%d(1), va%d(1, 2, %s), va%d(0, ...sp%d), vb%d(), vb%d(%s), vb%d(...[1, %s]))", n, n, g.scalarLit(), n, n, n, n, g.scalarLit(), n, g.scalarLit())
	}},
	{"nestedfn", 2, func(g *encProgGen) {
		n := g.id()
		g.line("nf%d := func(a, b) {", n)
		g.line("  l1 := func(c) {")
		g.line("    l2 := func(d, ...e) { return a + b + c + d + len(e) }")
		g.line("    return l2(%s, a, b)", g.pick([]string{"1", "2", "100"}))
		g.line("  }")
		g.line("  return l1(%s)", g.pick([]string{"1", "7"}))
		g.line("}")
		g.line("out = append(out, nf%d(1, 2), nf%d(%s, 3))", n, n, g.pick([]string{"1", "0.5", "2u"}))
	}},
	{"loop", 3, func(g *encProgGen) {
		n := g.id()
		g.line("acc%d := %s", n, g.pick([]string{"0", "1", "0.5", "\"\""}))
		g.line("for i := 0; i < %d; i++ {", 1+g.r.Intn(9))
		g.line("  if i == 2 { continue }")
		g.line("  if i == 7 { break }")
		g.line("  acc%d += %s", n, g.pick([]string{"i", "i * 2", "1"}))
		g.line("}")
		g.line("out = append(out, acc%d)", n)
	}},
	{"forin", 2, func(g *encProgGen) {
		n := g.id()
		g.line("fi%d := []", n)
		g.line("for k, v in %s { fi%d = append(fi%d, k, v) }", g.pick([]string{"[10, 20, 30]", `"héy"`, "{only: 1}", "bytes(7, 8)", "[]"}), n, n)
		g.line("out = append(out, fi%d)", n)
	}},
	{"try", 3, func(g *encProgGen) {
		n := g.id()
		g.line("try {")
		g.line("  %s", g.pick([]string{`throw error("thrown")`, `throw "plain string"`, "z := 0; out = append(out, 1 / z)", "out = append(out, [1][3])", "out = append(out, 1)", "x := 5; x()"}))
		g.line("} catch err%d {", n)
		g.line("  out = append(out, string(err%d), isError(err%d))", n, n)
		g.line("} finally {")
		g.line("  out = append(out, \"fin%d\")", n)
		g.line("}")
	}},
	{"trynest", 1, func(g *encProgGen) {
		n := g.id()
		g.line("tn%d := func(x) {", n)
		g.line("  try {")
		g.line("    try { return [1, 2][x] } finally { out = append(out, \"inner\") }")
		g.line("  } catch e { return \"caught: \" + string(e) }")
		g.line("}")
		g.line("out = append(out, tn%d(0), tn%d(5))", n, n)
	}},
	{"uncaught", 5, func(g *encProgGen) {
		n := g.id()
		errExpr := g.pick([]string{"1 / (a - a)", "[1, 2][a + 5]", "a()", "{}.x.y.z", "1 % (a - a)", `"s" - a`, "undefined + a"})
		depth := 1 + g.r.Intn(3)
		if g.r.Intn(4) == 0 {
			g.line("e%d_0 := func(a) { throw error(%s) }", n, g.strLit())
		} else {
			g.line("e%d_0 := func(a) {", n)
			g.line("  return %s", errExpr)
			g.line("}")
		}
		for d := 1; d < depth; d++ {
			g.line("e%d_%d := func(a) { return e%d_%d(a) }", n, d, n, d-1)
		}
		g.line("if p0 == %d {", g.r.Intn(3))
		g.line("  out = append(out, e%d_%d(%s))", n, depth-1, g.pick([]string{"1", "p0", "2"}))
		g.line("}")
	}},
	{"toplevel-err", 1, func(g *encProgGen) {
		g.line("if p0 == %d { out = append(out, %s) }", g.r.Intn(4), g.pick([]string{"1 / (p0 - p0)", "p0[1]", "p0.x.y", "[1][p0 + 1]"}))
	}},
	{"params", 3, func(g *encProgGen) {
		s := "p0"
		if g.hasP1 {
			s += ", p1"
		}
		if g.hasRest {
			s += ", rest, len(rest)"
		}
		g.line("out = append(out, %s)", s)
	}},
	{"global", 2, func(g *encProgGen) {
		if g.hasG {
			g.line("out = append(out, g0, g0 == undefined ? \"nog\" : \"g\")")
		} else {
			g.line("out = append(out, 1 ? 2 : 3)")
		}
	}},
	{"consts", 2, func(g *encProgGen) {
		n := g.id()
		g.line("const (")
		g.line("  ca%d = iota", n)
		g.line("  cb%d", n)
		g.line("  cc%d = %s", n, g.scalarLit())
		g.line("  cd%d", n)
		g.line(")")
		g.line("out = append(out, ca%d, cb%d, cc%d, cd%d)", n, n, n, n)
	}},
	{"constfn", 1, func(g *encProgGen) {
		n := g.id()
		g.line("const (")
		g.line("  cf%d = func(x) { return [x, %s] }", n, g.scalarLit())
		g.line("  cg%d", n)
		g.line(")")
		g.line("out = append(out, cf%d(1), cg%d(2))", n, n)
	}},
	{"logic", 2, func(g *encProgGen) {
		g.line("out = append(out, p0 && %s, p0 || %s, !p0, p0 == %s, p0 != %s)", g.scalarLit(), g.scalarLit(), g.scalarLit(), g.scalarLit())
	}},
	{"slice", 1, func(g *encProgGen) {
		g.line("out = append(out, %s[1:3], [1, 2, 3, 4][:2], bytes(\"abcd\")[2:])", `"abcdef"`)
	}},
	{"std-strings", 2, func(g *encProgGen) {
		g.builtins["strings"] = true
		m := g.imp("strings")
		g.line("out = append(out, %s.ToUpper(%s), %s.Repeat(\"ab\", 3), %s.Contains(\"hello\", \"ell\"), %s.Split(\"a,b,c\", \",\"))", m, g.strLit(), m, m, m)
	}},
	{"std-time", 1, func(g *encProgGen) {
		g.builtins["time"] = true
		m := g.imp("time")
		g.line("out = append(out, %s.Second, %s.March, %s.DurationString(%s.Second * 90), %s.RFC3339)", m, m, m, m, m)
	}},
	{"std-fmt", 1, func(g *encProgGen) {
		g.builtins["fmt"] = true
		m := g.imp("fmt")
		g.line("out = append(out, %s.Sprintf(\"%%d|%%s|%%v\", %s, %s, [1, 2.5]), %s.Sprint(1, \"a\"))", m, g.intLit(), g.strLit(), m)
	}},
	{"std-json", 1, func(g *encProgGen) {
		g.builtins["json"] = true
		m := g.imp("json")
		g.line("out = append(out, string(%s.Marshal([1, \"a\", {k: %s}])), %s.Unmarshal(bytes(\"[1,2,{\\\"a\\\":null}]\")))", m, g.intLit(), m)
	}},
	{"src-m1", 3, func(g *encProgGen) {
		g.needSrc("m1")
		m := g.imp("m1")
		g.line("out = append(out, %s.add(1, %s), %s.mk(%s)(), %s.names)", m, g.intLit(), m, g.intLit(), m)
		switch g.r.Intn(4) {
		case 0:
			g.line("if p0 == %d { out = append(out, %s.boom(p0 + 2)) }", g.r.Intn(3), m)
		case 1:
			g.line("if p0 == %d { %s.thrower(%s) }", g.r.Intn(3), m, g.strLit())
		}
	}},
	{"src-m2", 2, func(g *encProgGen) {
		g.needSrc("m2")
		m := g.imp("m2")
		g.line("out = append(out, %s.k, %s.pi, %s.name, %s.bad(0))", m, m, m, m)
		if g.r.Intn(3) == 0 {
			g.line("out = append(out, %s.div(10, p0))", m)
		}
	}},
	{"src-m3", 1, func(g *encProgGen) {
		g.needSrc("m3")
		m := g.imp("m3")
		g.line("out = append(out, %s.up(\"abc\"), %s.up(\"x\", 1, 2), %s.call(func() { return %s }))", m, m, m, g.scalarLit())
		if g.r.Intn(3) == 0 {
			g.line("if p0 == 1 { %s.call(func() { return [][1] }) }", m)
		}
	}},
	{"cust", 3, func(g *encProgGen) {
		name := "cust"
		if g.r.Intn(3) == 0 {
			name = "custg"
		}
		if g.imported["cust"] {
			name = "cust"
		} else if g.imported["custg"] {
			name = "custg"
		}
		g.builtins[name] = true
		m := g.imp(name)
		g.line("out = append(out, %s.i, %s.imin, %s.u, %s.f, %s.nan, %s.negz, %s.c, %s.t, %s.s, %s.e, %s.y)", m, m, m, m, m, m, m, m, m, m, m)
		g.line("out = append(out, %s.arr, %s.m.k, %s.m.n, %s.m.fn(%s), %s.fn(1, 2), %s.blen(\"abc\"), %s.und, %s.sm, string(%s.negz))", m, m, m, m, g.scalarLit(), m, m, m, m, m)
		if name == "custg" {
			g.line("out = append(out, string(%s.err), isError(%s.err))", m, m)
		}
		if g.r.Intn(3) == 0 {
			g.line("if p0 == %d { %s.fail() }", g.r.Intn(3), m)
		}
	}},
}

var snippetTotal = func() int {
	t := 0
	for _, s := range snippets {
		t += s.w
	}
	return t
}()

func (g *encProgGen) pickSnippet() snippet {
	x := g.r.Intn(snippetTotal)
	for _, s := range snippets {
		if x < s.w {
			return s
		}
		x -= s.w
	}
	return snippets[0]
}

var argPool = []ugo.Object{ugo.Int(0), ugo.Int(1), ugo.Int(2), ugo.Int(3), ugo.String("s"), ugo.Undefined, ugo.Float(1.5),
	ugo.Array{ugo.Int(1), ugo.Int(2)}, ugo.Map{"x": ugo.Int(1)}, ugo.True}

// GenProgram generates one program; small programs keep their encoding short
// (bases of the `dec` stream).
func GenProgram(r *Rand, small bool) *EncProgram {
	g := &encProgGen{r: r, builtins: map[string]bool{}, srcmods: map[string]string{}, feat: map[string]bool{}, imported: map[string]bool{}, small: small}
	switch r.Intn(4) {
	case 0:
		g.line("param p0")
	case 1:
		g.hasP1 = true
		g.line("param (p0, p1)")
	case 2:
		g.hasP1, g.hasRest = true, true
		g.line("param (p0, p1, ...rest)")
	case 3:
		g.hasRest = true
		g.line("param (p0, ...rest)")
	}
	if r.Bool() {
		g.hasG = true
		g.line("global g0")
	}
	g.line("out := []")
	n := 2 + r.Intn(7)
	if small {
		n = 1 + r.Intn(2)
	}
	for i := 0; i < n; i++ {
		s := g.pickSnippet()
		if small {
			// no big stdlib modules, no long literals
			for tries := 0; strings.HasPrefix(s.name, "std-") || s.name == "cust" || s.name == "src-m3" || s.name == "containers"; tries++ {
				s = g.pickSnippet()
			}
		}
		g.feat[s.name] = true
		s.f(g)
	}
	if small && r.Intn(3) == 0 {
		g.builtins["tiny"] = true
		g.feat["tiny"] = true
		m := g.imp("tiny")
		g.line("out = append(out, %s.k, %s.f(1))", m, m)
	}
	g.line("return out")
	p := &EncProgram{Src: g.b.String(), SrcMods: g.srcmods, HasGob: g.builtins["custg"]}
	for b := range g.builtins {
		p.Builtins = append(p.Builtins, b)
	}
	sort.Strings(p.Builtins)
	for f := range g.feat {
		p.Feat = append(p.Feat, f)
	}
	sort.Strings(p.Feat)
	for i := 0; i < 3; i++ {
		var in Input
		if r.Intn(3) > 0 {
			in.Globals = ugo.Map{"g0": argPool[r.Intn(len(argPool))]}
		}
		na := r.Intn(4)
		if i == 0 {
			na = 1 + r.Intn(3)
		}
		for j := 0; j < na; j++ {
			if j == 0 {
				in.Args = append(in.Args, ugo.Int(r.Intn(4)))
			} else {
				in.Args = append(in.Args, argPool[r.Intn(len(argPool))])
			}
		}
		p.Inputs = append(p.Inputs, in)
	}
	return p
}

// FixedPrograms are hand-written regression programs run in addition.
func FixedPrograms() []*EncProgram {
	in := []Input{{}, {Args: []ugo.Object{ugo.Int(1)}}, {Globals: ugo.Map{"g0": ugo.Int(1)}, Args: []ugo.Object{ugo.Int(2), ugo.Int(3)}}}
	mk := func(src string, builtins ...string) *EncProgram {
		return &EncProgram{Src: src, SrcMods: map[string]string{}, Builtins: builtins, Inputs: in, Feat: []string{"fixed"}}
	}
	return []*EncProgram{
		mk("a := -0.0; return string(a)"),
		mk("return [-0.0, 0.0, 1/(-0.0 + 1.0)]"),
		mk("return"),
		mk(""),
		// failures at the very first position of the file (offset 0 = the file's base position): the
		// position must resolve to `(main):1:1` in the decoded program too, whose file set has no
		// cached last file
		mk("throw \"boom\""),
		mk("[1][5]"),
		mk("undefined()"),
		mk("x := undefined.a.b\nreturn x"),
		mk("import(\"fmt\").Sprintf()", "fmt"),
		mk("param ...args; return args"),
		mk("f := func() { return [1][2] }\n\n  g := func() { return f() }\nreturn g()"),
		mk(`t := import("tiny"); return [t.k, t.f()]`, "tiny"),
		mk(`c := import("cust"); return [c.nan, c.negz, c.fn(), c.m.fn(1), c.blen([1]), c.sm, c.und]`, "cust"),
		mk(`c := import("custg"); return [string(c.err), c.nan]`, "custg"),
		mk(`c := import("custg"); return [string(c.err), string(c.err2), string(c.errs.a), string(c.errs.b), c.errs.n]`, "custg"),
		mk(`return "` + strings.Repeat("L", 70000) + `"`),
	}
}
