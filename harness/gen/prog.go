package gen

import (
	"fmt"
	"strings"
)

// ProgOpts are the knobs of the program generator.
type ProgOpts struct {
	MaxStmts      int  // statements per block
	MaxDepth      int  // nesting depth of statements
	ExprDepth     int  // nesting depth of expressions
	Try           bool // try/catch/finally/throw
	Funcs         bool // function literals, closures, calls
	Loops         bool
	Containers    bool // arrays, maps, indexing
	Builtins      bool // len, append, typeName
	Floats        bool
	Strings       bool
	Log           bool // append side-effect markers to the global `log`
	Params        int  // number of `param` names (a0..)
	Decls         bool // var/const groups, iota, destructuring, inc/dec
	TryHeavy      bool // many nested try/catch/finally with every exit kind
	CallHeavy     bool // many functions, closures, variadic/spread calls
	FailOps       bool // operations that raise runtime errors (1/0 via variables, bad index, call of non-callable)
	NoTopReturn   bool // no `return` outside function literals (stream eval: fragments must not return early)
	SingleKeyMaps bool // map literals with at most one key (their String() does not depend on Go's map order)
}

// DefaultProgOpts is a mostly-valid mix of everything the VM model supports.
func DefaultProgOpts() ProgOpts {
	return ProgOpts{MaxStmts: 5, MaxDepth: 3, ExprDepth: 3, Try: true, Funcs: true, Loops: true,
		Containers: true, Builtins: true, Strings: true, Log: true, Params: 2, FailOps: true}
}

type scope struct {
	kinds  map[string]byte // 'I' int, 'B' bool, 'S' string, 'A' array, 'M' map, 'X' unknown
	vars   []string        // assignable variables visible here
	funcs  []string        // names known to hold functions (with arity)
	arity  map[string]int
	inLoop bool
	inFunc bool
	inTry  bool
}

type progGen struct {
	r      *Rand
	o      ProgOpts
	n      int // fresh-name counter
	logN   int
	budget int // remaining statements overall
}

// Program returns the source text of a random script.
func Program(r *Rand, o ProgOpts) string {
	g := &progGen{r: r, o: o, budget: 40}
	var sb strings.Builder
	sc := &scope{arity: map[string]int{}, kinds: map[string]byte{}}
	if o.Params > 0 {
		names := make([]string, o.Params)
		for i := range names {
			names[i] = fmt.Sprintf("a%d", i)
			sc.vars = append(sc.vars, names[i])
		}
		sb.WriteString("param (" + strings.Join(names, ", ") + ")\n")
	}
	if o.Log {
		sb.WriteString("global log\nlog = []\n")
	}
	g.block(&sb, sc, 0, "")
	if r.Intn(3) > 0 {
		sb.WriteString("return " + g.exprK(sc, o.ExprDepth, g.pickKind()) + "\n")
	}
	return sb.String()
}

func (g *progGen) fresh(p string) string {
	g.n++
	return fmt.Sprintf("%s%d", p, g.n)
}

func (g *progGen) block(sb *strings.Builder, sc *scope, depth int, ind string) {
	n := 1 + g.r.Intn(g.o.MaxStmts)
	// a block has its own scope: copy
	inner := &scope{kinds: sc.kinds, vars: append([]string{}, sc.vars...), funcs: append([]string{}, sc.funcs...), arity: sc.arity, inLoop: sc.inLoop, inFunc: sc.inFunc, inTry: sc.inTry}
	for i := 0; i < n && g.budget > 0; i++ {
		g.budget--
		g.stmt(sb, inner, depth, ind)
	}
}

func (g *progGen) logStmt(ind string) string {
	g.logN++
	return fmt.Sprintf("%slog = append(log, %d)\n", ind, g.logN)
}

func (g *progGen) stmt(sb *strings.Builder, sc *scope, depth int, ind string) {
	o := g.o
	choices := []string{"decl", "decl", "assign", "assign", "expr"}
	if o.Decls {
		choices = append(choices, "vardecl", "constdecl", "destruct", "incdec")
	}
	if o.Log {
		choices = append(choices, "log", "log")
	}
	if depth < o.MaxDepth {
		choices = append(choices, "if", "if")
		if o.Loops {
			choices = append(choices, "for", "forin")
		}
		if o.Try {
			choices = append(choices, "try", "try")
			if o.TryHeavy {
				choices = append(choices, "try", "try", "try", "try", "for", "throw", "return")
			}
		}
		if o.Funcs {
			choices = append(choices, "func", "call")
			if o.CallHeavy {
				choices = append(choices, "func", "func", "call", "call", "call", "retcall")
			}
		}
	}
	if o.Try && (sc.inTry || g.r.Intn(6) == 0) {
		choices = append(choices, "throw")
	}
	if sc.inLoop {
		choices = append(choices, "break", "continue")
	}
	if sc.inFunc || (depth > 0 && !o.NoTopReturn) {
		choices = append(choices, "return")
	}
	if o.Containers && len(sc.vars) > 0 {
		choices = append(choices, "setindex")
	}
	switch choices[g.r.Intn(len(choices))] {
	case "decl":
		v := g.fresh("v")
		k := g.pickKind()
		fmt.Fprintf(sb, "%s%s := %s\n", ind, v, g.exprK(sc, o.ExprDepth, k))
		sc.vars = append(sc.vars, v)
		sc.kinds[v] = k
	case "vardecl":
		a, b := g.fresh("v"), g.fresh("v")
		switch g.r.Intn(3) {
		case 0:
			fmt.Fprintf(sb, "%svar %s\n", ind, a)
			sc.kinds[a] = 'X'
			sc.vars = append(sc.vars, a)
		case 1:
			fmt.Fprintf(sb, "%svar %s = %s\n", ind, a, g.exprK(sc, 1, 'I'))
			sc.kinds[a] = 'I'
			sc.vars = append(sc.vars, a)
		default:
			fmt.Fprintf(sb, "%svar (%s = %s; %s)\n", ind, a, g.exprK(sc, 1, 'I'), b)
			sc.kinds[a], sc.kinds[b] = 'I', 'X'
			sc.vars = append(sc.vars, a, b)
		}
	case "constdecl":
		a, b, c3 := g.fresh("c"), g.fresh("c"), g.fresh("c")
		switch g.r.Intn(3) {
		case 0:
			fmt.Fprintf(sb, "%sconst %s = %s\n", ind, a, []string{"1", "2", "\"s\"", "true", "1.5", "'x'"}[g.r.Intn(6)])
		case 1:
			fmt.Fprintf(sb, "%sconst (%s = iota; %s; %s)\n", ind, a, b, c3)
		default:
			fmt.Fprintf(sb, "%sconst (%s = iota + 1; %s; %s = 7)\n", ind, a, b, c3)
		}
		// constants are readable but not assignable: expose as read-only via an alias variable
		al := g.fresh("v")
		fmt.Fprintf(sb, "%s%s := %s\n", ind, al, a)
		sc.kinds[al] = 'X'
		sc.vars = append(sc.vars, al)
	case "destruct":
		a, b := g.fresh("v"), g.fresh("v")
		fmt.Fprintf(sb, "%s%s, %s := %s\n", ind, a, b, g.exprK(sc, 1, 'A'))
		sc.kinds[a], sc.kinds[b] = 'X', 'X'
		sc.vars = append(sc.vars, a, b)
	case "incdec":
		v := g.varOfKind(sc, 'I')
		if v == "" || strings.HasPrefix(v, "i") {
			sb.WriteString(g.logStmt(ind))
			return
		}
		fmt.Fprintf(sb, "%s%s%s\n", ind, v, []string{"++", "--"}[g.r.Intn(2)])
	case "assign":
		if len(sc.vars) == 0 {
			sb.WriteString(g.logStmt(ind))
			return
		}
		v := sc.vars[g.r.Intn(len(sc.vars))]
		k := sc.kinds[v]
		if strings.HasPrefix(v, "i") && g.r.Intn(10) > 0 {
			// leave loop counters alone (keeps generated loops short)
			sb.WriteString(g.logStmt(ind))
			return
		}
		ops := []string{"="}
		if k == 'I' {
			ops = []string{"=", "=", "+=", "-=", "*="}
		}
		if k == 0 || k == 'X' || g.r.Intn(12) == 0 {
			k = 'X'
		}
		if k == 'F' {
			sb.WriteString(g.logStmt(ind))
			return
		}
		fmt.Fprintf(sb, "%s%s %s %s\n", ind, v, ops[g.r.Intn(len(ops))], g.exprK(sc, o.ExprDepth, k))
	case "expr":
		// expression statements must be calls in uGO? any expression is allowed as a statement
		fmt.Fprintf(sb, "%s%s\n", ind, g.callExpr(sc, o.ExprDepth))
	case "log":
		sb.WriteString(g.logStmt(ind))
	case "if":
		fmt.Fprintf(sb, "%sif (%s) {\n", ind, g.exprK(sc, o.ExprDepth, 'B'))
		g.block(sb, sc, depth+1, ind+"  ")
		if g.r.Bool() {
			fmt.Fprintf(sb, "%s} else {\n", ind)
			g.block(sb, sc, depth+1, ind+"  ")
		}
		fmt.Fprintf(sb, "%s}\n", ind)
	case "for":
		i := g.fresh("i")
		fmt.Fprintf(sb, "%sfor %s := 0; %s < %d; %s++ {\n", ind, i, i, 1+g.r.Intn(3), i)
		sc.kinds[i] = 'I'
		inner := &scope{kinds: sc.kinds, vars: append(append([]string{}, sc.vars...), i), funcs: sc.funcs, arity: sc.arity, inLoop: true, inFunc: sc.inFunc}
		g.block(sb, inner, depth+1, ind+"  ")
		fmt.Fprintf(sb, "%s}\n", ind)
	case "forin":
		k, v := g.fresh("k"), g.fresh("e")
		fmt.Fprintf(sb, "%sfor %s, %s in %s {\n", ind, k, v, g.arrayExpr(sc, 1))
		sc.kinds[k] = 'I'
		sc.kinds[v] = 'I'
		inner := &scope{kinds: sc.kinds, vars: append(append([]string{}, sc.vars...), k, v), funcs: sc.funcs, arity: sc.arity, inLoop: true, inFunc: sc.inFunc}
		g.block(sb, inner, depth+1, ind+"  ")
		fmt.Fprintf(sb, "%s}\n", ind)
	case "try":
		fmt.Fprintf(sb, "%stry {\n", ind)
		tsc := &scope{kinds: sc.kinds, vars: sc.vars, funcs: sc.funcs, arity: sc.arity, inLoop: sc.inLoop, inFunc: sc.inFunc, inTry: true}
		g.block(sb, tsc, depth+1, ind+"  ")
		kind := g.r.Intn(3) // 0 catch, 1 finally, 2 both
		if kind != 1 {
			e := g.fresh("err")
			if g.r.Intn(4) == 0 {
				fmt.Fprintf(sb, "%s} catch {\n", ind)
				g.block(sb, sc, depth+1, ind+"  ")
			} else {
				fmt.Fprintf(sb, "%s} catch %s {\n", ind, e)
				inner := &scope{kinds: sc.kinds, vars: append(append([]string{}, sc.vars...), e), funcs: sc.funcs, arity: sc.arity, inLoop: sc.inLoop, inFunc: sc.inFunc}
				g.block(sb, inner, depth+1, ind+"  ")
			}
		}
		if kind != 0 {
			fmt.Fprintf(sb, "%s} finally {\n", ind)
			g.block(sb, sc, depth+1, ind+"  ")
		}
		fmt.Fprintf(sb, "%s}\n", ind)
	case "throw":
		msgs := []string{`"boom"`, `"e1"`, `42`, `undefined`}
		if len(sc.vars) > 0 && g.r.Intn(3) == 0 {
			fmt.Fprintf(sb, "%sthrow %s\n", ind, sc.vars[g.r.Intn(len(sc.vars))])
		} else {
			fmt.Fprintf(sb, "%sthrow %s\n", ind, msgs[g.r.Intn(len(msgs))])
		}
	case "break":
		fmt.Fprintf(sb, "%sbreak\n", ind)
	case "continue":
		fmt.Fprintf(sb, "%scontinue\n", ind)
	case "return":
		if g.r.Intn(4) == 0 {
			fmt.Fprintf(sb, "%sreturn\n", ind)
		} else {
			fmt.Fprintf(sb, "%sreturn %s\n", ind, g.exprK(sc, o.ExprDepth, g.pickKind()))
		}
	case "func":
		f := g.fresh("f")
		np := g.r.Intn(3)
		variadic := g.r.Intn(5) == 0
		var ps []string
		for i := 0; i < np; i++ {
			ps = append(ps, g.fresh("p"))
		}
		sig := strings.Join(ps, ", ")
		if variadic {
			vp := g.fresh("rest")
			if np > 0 {
				sig += ", ..." + vp
			} else {
				sig = "..." + vp
			}
			ps = append(ps, vp)
		}
		fmt.Fprintf(sb, "%s%s := func(%s) {\n", ind, f, sig)
		for _, pn := range ps {
			sc.kinds[pn] = 'I'
		}
		inner := &scope{kinds: sc.kinds, vars: append(append([]string{}, sc.vars...), ps...), funcs: sc.funcs, arity: sc.arity, inFunc: true}
		g.block(sb, inner, depth+1, ind+"  ")
		fmt.Fprintf(sb, "%s}\n", ind)
		sc.vars = append(sc.vars, f)
		sc.kinds[f] = 'F'
		sc.funcs = append(sc.funcs, f)
		if variadic {
			sc.arity[f] = -np - 1
		} else {
			sc.arity[f] = np
		}
	case "call":
		fmt.Fprintf(sb, "%s%s\n", ind, g.callExpr(sc, o.ExprDepth))
	case "retcall":
		fmt.Fprintf(sb, "%sreturn %s\n", ind, g.callExpr(sc, o.ExprDepth))
	case "setindex":
		v := g.varOfKind(sc, 'A')
		if v == "" {
			v = g.varOfKind(sc, 'M')
			if v != "" {
				key := []string{"a", "b", "k"}[g.r.Intn(3)]
				if g.o.SingleKeyMaps {
					key = "a"
				}
				fmt.Fprintf(sb, "%s%s.%s = %s\n", ind, v, key, g.scalarExpr(sc, 2))
				return
			}
		}
		if v == "" && g.r.Intn(4) > 0 {
			sb.WriteString(g.logStmt(ind))
			return
		}
		if v == "" || (g.o.FailOps && g.r.Intn(12) == 0) {
			v = sc.vars[g.r.Intn(len(sc.vars))]
		}
		fmt.Fprintf(sb, "%s%s[%s] = %s\n", ind, v, g.smallIdx(), g.scalarExpr(sc, 2))
	}
}

// scalarExpr is the right-hand side of every store INTO a container: it can only evaluate to an
// int, a bool or a string (or fail), never to a container.  Scripts can build values that contain
// themselves (`a[0] = a`), and rendering, copying or comparing such a value overflows the Go stack
// of the implementation (known finding C19:cyclic-arg), which would kill the harness process.
func (g *progGen) scalarExpr(sc *scope, depth int) string {
	if depth <= 0 || g.r.Intn(3) == 0 {
		lits := []string{"0", "1", "2", "3", "7", "(-1)", "100", "true", "\"s\"", "'c'"}
		return lits[g.r.Intn(len(lits))]
	}
	switch g.r.Intn(4) {
	case 0:
		if len(sc.vars) > 0 && g.o.Builtins {
			return "len(" + sc.vars[g.r.Intn(len(sc.vars))] + ")"
		}
	case 1:
		if len(sc.vars) > 0 && g.o.Builtins {
			return "typeName(" + sc.vars[g.r.Intn(len(sc.vars))] + ")"
		}
	case 2:
		if len(sc.vars) > 0 {
			return "(" + sc.vars[g.r.Intn(len(sc.vars))] + " == " + g.scalarExpr(sc, depth-1) + ")"
		}
	}
	ops := []string{"+", "-", "*", "&", "|"}
	if g.o.FailOps && g.r.Intn(4) == 0 {
		ops = []string{"/", "%", "<<"}
	}
	return "(" + g.scalarExpr(sc, depth-1) + " " + ops[g.r.Intn(len(ops))] + " " + g.scalarExpr(sc, depth-1) + ")"
}

func (g *progGen) callExpr(sc *scope, depth int) string {
	if g.o.Funcs && len(sc.funcs) > 0 && g.r.Intn(4) > 0 {
		f := sc.funcs[g.r.Intn(len(sc.funcs))]
		ar := sc.arity[f]
		n := ar
		if ar < 0 {
			n = -ar - 1 + g.r.Intn(3)
		}
		if g.o.FailOps && g.r.Intn(8) == 0 {
			n = g.r.Intn(4) // possibly wrong arity
		}
		var as []string
		for i := 0; i < n; i++ {
			as = append(as, g.exprK(sc, depth-1, 'I'))
		}
		if g.r.Intn(6) == 0 {
			as = append(as, "..."+g.arrayExpr(sc, 1))
		}
		return f + "(" + strings.Join(as, ", ") + ")"
	}
	if g.o.Builtins {
		switch g.r.Intn(3) {
		case 0:
			return "len(" + g.expr(sc, depth-1) + ")"
		case 1:
			return "typeName(" + g.expr(sc, depth-1) + ")"
		}
		return "append(" + g.arrayExpr(sc, 1) + ", " + g.expr(sc, depth-1) + ")"
	}
	return g.expr(sc, depth)
}

func (g *progGen) arrayExpr(sc *scope, depth int) string {
	n := g.r.Intn(4)
	var es []string
	for i := 0; i < n; i++ {
		es = append(es, g.expr(sc, depth-1))
	}
	return "[" + strings.Join(es, ", ") + "]"
}

func (g *progGen) atom(sc *scope) string {
	k := g.r.Intn(10)
	switch {
	case k < 3 && len(sc.vars) > 0:
		return sc.vars[g.r.Intn(len(sc.vars))]
	case k < 6:
		ints := []string{"0", "1", "2", "3", "7", "(-1)", "100", "9223372036854775807"}
		return ints[g.r.Intn(len(ints))]
	case k == 6:
		return []string{"true", "false", "undefined"}[g.r.Intn(3)]
	case k == 7 && g.o.Strings:
		return []string{`""`, `"a"`, `"ab"`, `"k"`}[g.r.Intn(4)]
	case k == 8:
		return []string{"1u", "0u", "'a'", "'b'"}[g.r.Intn(4)]
	case k == 9 && g.o.Floats:
		return []string{"1.5", "0.0", "2.0"}[g.r.Intn(3)]
	}
	return "1"
}

func (g *progGen) expr(sc *scope, depth int) string {
	if depth <= 0 {
		return g.atom(sc)
	}
	k := g.r.Intn(14)
	switch {
	case k < 4:
		return g.atom(sc)
	case k < 8:
		ops := []string{"+", "-", "*", "==", "!=", "<", "<=", ">", ">=", "&&", "||", "&", "|", "^"}
		if g.o.FailOps {
			ops = append(ops, "/", "%", "<<", ">>")
		}
		return "(" + g.expr(sc, depth-1) + " " + ops[g.r.Intn(len(ops))] + " " + g.expr(sc, depth-1) + ")"
	case k == 8:
		return "(" + []string{"!", "-", "^"}[g.r.Intn(3)] + "(" + g.expr(sc, depth-1) + "))"
	case k == 9:
		return "(" + g.expr(sc, depth-1) + " ? " + g.expr(sc, depth-1) + " : " + g.expr(sc, depth-1) + ")"
	case k == 10 && g.o.Containers:
		return g.arrayExpr(sc, depth)
	case k == 11 && g.o.Containers:
		n := g.r.Intn(3)
		if g.o.SingleKeyMaps && n > 1 {
			n = 1
		}
		var es []string
		keys := []string{"a", "b", "k"}
		for i := 0; i < n; i++ {
			es = append(es, keys[i]+": "+g.expr(sc, depth-1))
		}
		return "({" + strings.Join(es, ", ") + "})"
	case k == 12 && g.o.Containers:
		base := "(" + g.exprK(sc, depth-1, []byte{'A', 'A', 'M', 'S', 'X'}[g.r.Intn(5)]) + ")"
		if g.r.Intn(4) == 0 {
			return base + "[" + g.atom(sc) + ":" + g.atom(sc) + "]"
		}
		if g.r.Bool() {
			return base + "[" + g.atom(sc) + "]"
		}
		return base + "." + []string{"a", "b", "k"}[g.r.Intn(3)]
	case k == 13:
		return g.callExpr(sc, depth)
	}
	return g.atom(sc)
}

func (g *progGen) smallIdx() string {
	return []string{"0", "0", "0", "1", "1", "2", "(-1)", "5"}[g.r.Intn(8)]
}

func (g *progGen) pickKind() byte {
	ks := []byte{'I', 'I', 'I', 'B', 'A'}
	if g.o.Strings {
		ks = append(ks, 'S')
	}
	if g.o.Containers {
		ks = append(ks, 'M')
	}
	return ks[g.r.Intn(len(ks))]
}

func (g *progGen) varOfKind(sc *scope, k byte) string {
	var c []string
	for _, v := range sc.vars {
		if sc.kinds[v] == k {
			c = append(c, v)
		}
	}
	if len(c) == 0 {
		return ""
	}
	return c[g.r.Intn(len(c))]
}

// exprK generates an expression that is (mostly) of the given kind; about one in
// twelve sub-expressions is replaced by an arbitrary one so that type errors stay covered.
func (g *progGen) exprK(sc *scope, depth int, k byte) string {
	if k == 'X' || k == 0 || (g.o.FailOps && g.r.Intn(12) == 0) {
		return g.expr(sc, depth)
	}
	if v := g.varOfKind(sc, k); v != "" && g.r.Intn(3) == 0 {
		return v
	}
	switch k {
	case 'I':
		if depth <= 0 || g.r.Intn(3) == 0 {
			ints := []string{"0", "1", "2", "3", "7", "(-1)", "100"}
			return ints[g.r.Intn(len(ints))]
		}
		switch g.r.Intn(7) {
		case 0, 1, 2:
			ops := []string{"+", "-", "*", "&", "|", "^"}
			if g.o.FailOps && g.r.Intn(4) == 0 {
				ops = []string{"/", "%", "<<", ">>"}
			}
			return "(" + g.exprK(sc, depth-1, 'I') + " " + ops[g.r.Intn(len(ops))] + " " + g.exprK(sc, depth-1, 'I') + ")"
		case 3:
			return "len(" + g.exprK(sc, depth-1, 'A') + ")"
		case 4:
			return g.exprK(sc, depth-1, 'A') + "[" + g.smallIdx() + "]"
		case 5:
			return "(" + g.exprK(sc, depth-1, 'B') + " ? " + g.exprK(sc, depth-1, 'I') + " : " + g.exprK(sc, depth-1, 'I') + ")"
		}
		return "(-(" + g.exprK(sc, depth-1, 'I') + "))"
	case 'B':
		if depth <= 0 || g.r.Intn(4) == 0 {
			return []string{"true", "false"}[g.r.Intn(2)]
		}
		switch g.r.Intn(4) {
		case 0, 1:
			ops := []string{"==", "!=", "<", "<=", ">", ">="}
			return "(" + g.exprK(sc, depth-1, 'I') + " " + ops[g.r.Intn(len(ops))] + " " + g.exprK(sc, depth-1, 'I') + ")"
		case 2:
			return "(" + g.exprK(sc, depth-1, 'B') + " " + []string{"&&", "||"}[g.r.Intn(2)] + " " + g.exprK(sc, depth-1, 'B') + ")"
		}
		return "(!" + g.exprK(sc, depth-1, 'B') + ")"
	case 'S':
		if depth <= 0 || g.r.Intn(2) == 0 {
			return []string{`""`, `"a"`, `"ab"`, `"k"`}[g.r.Intn(4)]
		}
		if g.r.Bool() {
			return "(" + g.exprK(sc, depth-1, 'S') + " + " + g.exprK(sc, depth-1, 'S') + ")"
		}
		return "typeName(" + g.expr(sc, depth-1) + ")"
	case 'A':
		if depth <= 0 || g.r.Intn(2) == 0 {
			n := g.r.Intn(4)
			var es []string
			for i := 0; i < n; i++ {
				es = append(es, g.exprK(sc, depth-1, 'I'))
			}
			return "[" + strings.Join(es, ", ") + "]"
		}
		switch g.r.Intn(3) {
		case 0:
			return "append(" + g.exprK(sc, depth-1, 'A') + ", " + g.exprK(sc, depth-1, 'I') + ")"
		case 1:
			return "(" + g.exprK(sc, depth-1, 'A') + " + " + g.exprK(sc, depth-1, 'A') + ")"
		}
		return g.exprK(sc, depth-1, 'A') + "[" + []string{"0", "0", "1", "2"}[g.r.Intn(4)] + ":]"
	case 'M':
		n := g.r.Intn(3)
		if g.o.SingleKeyMaps && n > 1 {
			n = 1
		}
		var es []string
		keys := []string{"a", "b", "k"}
		for i := 0; i < n; i++ {
			es = append(es, keys[i]+": "+g.exprK(sc, depth-1, 'I'))
		}
		return "({" + strings.Join(es, ", ") + "})"
	}
	return g.expr(sc, depth)
}
