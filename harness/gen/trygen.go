package gen

import (
	"fmt"
	"strings"
)

// TryProgram generates a script dense in try/catch/finally nestings, loops,
// calls and every kind of exit (normal, return, break, continue, throw, runtime
// error) at every position (try body, catch body, finally body), with a log
// entry at every point so that order and multiplicity of execution are observable.
// Functions may call earlier functions, so errors cross call frames, and earlier
// completed try statements precede later ones inside one activation.
func TryProgram(r *Rand) string {
	g := &tryGen{r: r}
	var sb strings.Builder
	sb.WriteString("global log\nlog = []\nzero := 0\n")
	nf := r.Intn(3)
	for i := 0; i < nf; i++ {
		fmt.Fprintf(&sb, "f%d := func(x) {\n", i)
		g.body(&sb, 0, 2+r.Intn(2), false, true, i, "  ")
		sb.WriteString("}\n")
	}
	g.body(&sb, 0, 3, false, false, nf, "")
	sb.WriteString("return \"end\"\n")
	return sb.String()
}

type tryGen struct {
	r   *Rand
	n   int
	bud int
}

func (g *tryGen) log(sb *strings.Builder, ind string) {
	g.n++
	fmt.Fprintf(sb, "%slog = append(log, %d)\n", ind, g.n)
}

// body emits 1..4 statements. nf = number of functions callable here.
func (g *tryGen) body(sb *strings.Builder, depth, maxDepth int, inLoop, inFunc bool, nf int, ind string) {
	n := 1 + g.r.Intn(4)
	for i := 0; i < n; i++ {
		g.stmt(sb, depth, maxDepth, inLoop, inFunc, nf, ind)
	}
}

func (g *tryGen) stmt(sb *strings.Builder, depth, maxDepth int, inLoop, inFunc bool, nf int, ind string) {
	k := g.r.Intn(20)
	switch {
	case k < 5:
		g.log(sb, ind)
	case k < 10 && depth < maxDepth:
		// try statement
		g.log(sb, ind)
		fmt.Fprintf(sb, "%stry {\n", ind)
		g.body(sb, depth+1, maxDepth, inLoop, inFunc, nf, ind+"  ")
		form := g.r.Intn(3)
		if form != 1 {
			g.n++
			if g.r.Intn(3) == 0 {
				fmt.Fprintf(sb, "%s} catch {\n", ind)
			} else {
				fmt.Fprintf(sb, "%s} catch e%d {\n%s  log = append(log, e%d.Message)\n", ind, g.n, ind, g.n)
			}
			g.body(sb, depth+1, maxDepth, inLoop, inFunc, nf, ind+"  ")
		}
		if form != 0 {
			fmt.Fprintf(sb, "%s} finally {\n", ind)
			g.body(sb, depth+1, maxDepth, inLoop, inFunc, nf, ind+"  ")
		}
		fmt.Fprintf(sb, "%s}\n", ind)
	case k < 12 && depth < maxDepth:
		g.n++
		fmt.Fprintf(sb, "%sfor i%d := 0; i%d < %d; i%d++ {\n", ind, g.n, g.n, 1+g.r.Intn(2), g.n)
		g.body(sb, depth+1, maxDepth, true, inFunc, nf, ind+"  ")
		fmt.Fprintf(sb, "%s}\n", ind)
	case k == 12:
		if inLoop {
			fmt.Fprintf(sb, "%sbreak\n", ind)
		} else {
			g.log(sb, ind)
		}
	case k == 13:
		if inLoop {
			fmt.Fprintf(sb, "%scontinue\n", ind)
		} else {
			g.log(sb, ind)
		}
	case k == 14:
		g.n++
		fmt.Fprintf(sb, "%sthrow \"e%d\"\n", ind, g.n)
	case k == 15:
		g.n++
		fmt.Fprintf(sb, "%sv%d := 1 / zero\n", ind, g.n)
	case k == 16:
		g.n++
		fmt.Fprintf(sb, "%sreturn %d\n", ind, g.n)
	case k >= 17 && nf > 0:
		f := g.r.Intn(nf)
		g.n++
		switch g.r.Intn(3) {
		case 0:
			fmt.Fprintf(sb, "%sf%d(%d)\n", ind, f, g.n)
		case 1:
			fmt.Fprintf(sb, "%sr%d := f%d(%d)\n%slog = append(log, r%d)\n", ind, g.n, f, g.n, ind, g.n)
		default:
			fmt.Fprintf(sb, "%sreturn f%d(%d)\n", ind, f, g.n)
		}
	default:
		g.log(sb, ind)
	}
}

// TailCallProgram generates a self-recursive function whose recursive call appears
// in one of several positions (tail with value, discarded last statement, inside
// branches, non-tail) and compares nothing by itself: the harness runs it against
// the reference semantics, which knows no tail-call shortcut.
func TailCallProgram(r *Rand) string {
	var sb strings.Builder
	sb.WriteString("global log\nlog = []\nvar f\n")
	depth := 1 + r.Intn(6)
	variadic := r.Intn(4) == 0
	if variadic {
		sb.WriteString("f = func(n, ...rest) {\n")
	} else {
		sb.WriteString("f = func(n, acc) {\n")
	}
	acc := "acc"
	if variadic {
		acc = "len(rest)"
	}
	sb.WriteString("  log = append(log, n)\n")
	if r.Bool() {
		sb.WriteString("  loc := n * 2\n")
	}
	fmt.Fprintf(&sb, "  if n == 0 {\n    return %s\n  }\n", acc)
	call := "f(n-1, acc+1)"
	if variadic {
		switch r.Intn(3) {
		case 0:
			call = "f(n-1, ...append(rest, n))"
		case 1:
			call = "f(n-1, n, n)"
		default:
			call = "f(n-1)"
		}
	}
	switch r.Intn(8) {
	case 0:
		fmt.Fprintf(&sb, "  return %s\n", call)
	case 1:
		fmt.Fprintf(&sb, "  %s\n", call) // discarded, last statement
	case 2:
		fmt.Fprintf(&sb, "  if n %% 2 == 0 {\n    return %s\n  }\n  %s\n", call, call)
	case 3:
		fmt.Fprintf(&sb, "  r := %s\n  return r\n", call)
	case 4:
		fmt.Fprintf(&sb, "  if n %% 2 == 0 {\n    %s\n  } else {\n    return %s\n  }\n", call, call)
	case 5:
		fmt.Fprintf(&sb, "  try {\n    return %s\n  } finally {\n    log = append(log, \"fin\")\n  }\n", call)
	case 6:
		fmt.Fprintf(&sb, "  try { log = append(log, \"t\") } finally { log = append(log, \"u\") }\n  return %s\n", call)
	default:
		fmt.Fprintf(&sb, "  return 1 + %s\n", call)
	}
	sb.WriteString("}\n")
	start := fmt.Sprintf("f(%d, 0)", depth)
	if variadic {
		start = fmt.Sprintf("f(%d)", depth)
	}
	switch r.Intn(3) {
	case 0:
		fmt.Fprintf(&sb, "return %s\n", start)
	case 1:
		fmt.Fprintf(&sb, "x := %s\nreturn [x, log]\n", start)
	default:
		fmt.Fprintf(&sb, "%s\nreturn \"done\"\n", start)
	}
	return sb.String()
}
