package gen

import (
	"math"
	"strings"
	gotime "time"

	"github.com/ozanh/ugo"
	ugofmt "github.com/ozanh/ugo/stdlib/fmt"
	ugojson "github.com/ozanh/ugo/stdlib/json"
	ugotime "github.com/ozanh/ugo/stdlib/time"
)

// Argument pool of C19 (DESIGN.md §8 value pool + what builtins and stdlib functions
// are sensitive to): negative and huge integers around every size limit, empty values,
// undefined, callables of every kind, nested containers, time/location/scanArg/json
// objects, error values, sync maps.

// CompiledFuncs returns compiled functions that use no constants (so they can be run
// by any VM): identity, variadic collector, thrower, negation.
func CompiledFuncs() []ugo.Object {
	bc, err := ugo.Compile([]byte(`return [func(x){return x}, func(...a){return a}, func(x){throw x}, func(x){return -x}]`), ugo.CompilerOptions{})
	if err != nil {
		panic(err)
	}
	ret, err := ugo.NewVM(bc).Run(nil)
	if err != nil {
		panic(err)
	}
	return []ugo.Object(ret.(ugo.Array))
}

// TimeReceivers are the receivers of the time method calls.
func TimeReceivers() []ugo.Object {
	return []ugo.Object{
		&ugotime.Time{Value: gotime.Date(2020, 2, 29, 23, 59, 59, 999999999, gotime.UTC)},
		&ugotime.Time{},
		&ugotime.Time{Value: gotime.Unix(1<<62, 1<<40).In(gotime.FixedZone("far", -86399))},
	}
}

var fnErr = &ugo.Function{Name: "ferr", Value: func(args ...ugo.Object) (ugo.Object, error) {
	return nil, ugo.ErrType.NewError("from callback")
}}
var fnTrue = &ugo.Function{Name: "ftrue", Value: func(args ...ugo.Object) (ugo.Object, error) { return ugo.True, nil }}
var fnChar = &ugo.Function{Name: "fchar", Value: func(args ...ugo.Object) (ugo.Object, error) { return ugo.Char(-1), nil }}

// ArgExtras are the values added to ValuePool for C19.
func ArgExtras() []ugo.Object {
	var p []ugo.Object
	for _, i := range []int64{-2, 3, 7, 255, 256, -255, 1 << 16, 15000000 /* 15 ms as a duration: above time.Sleep's 10 ms polling step */, 1<<31 - 1, -(1 << 31), 1<<32 - 1, 1 << 40, 1 << 47, 1 << 48, 1 << 61, 1 << 62, -(1 << 62), 1<<62 + 1, math.MaxInt64 - 1} {
		p = append(p, ugo.Int(i))
	}
	p = append(p, ugo.Uint(1<<31), ugo.Uint(1<<62), ugo.Float(-0.5), ugo.Float(1e10), ugo.Float(-1e300), ugo.Char('%'))
	for _, s := range []string{"%v %d %s %[3]*.[2]*[1]f %!", "%100000000d", "%[9]v", "2006-01-02T15:04:05Z07:00", "2020-02-29T23:59:59Z", "UTC", "1h2m", "int", "a,b,,c", "{\"a\":[1,2,{\"b\":null}]}", "[1,", strings.Repeat("é\xff", 40)} {
		p = append(p, ugo.String(s))
	}
	p = append(p, ugo.Bytes("{\"a\":1}"), ugo.Bytes(strings.Repeat("\x00", 33)))
	// lengths around fixed-size scratch buffers (64 bytes, base64 of 48), and JSON string documents whose
	// invalid bytes each expand to a 3-byte replacement character
	p = append(p, ugo.Bytes(strings.Repeat("k", 48)), ugo.Bytes(strings.Repeat("k", 49)), ugo.Bytes(strings.Repeat("k", 64)), ugo.Bytes(strings.Repeat("k", 65)),
		ugo.String("\"\xff\xff\xff\xff\xff\xff\xff\""), ugo.Bytes("{\"\xff\xfe\xfd\xfc\xfb\xfa\": 1}"))
	// byte strings that END inside a multi-byte sequence (scanners that look ahead 1 or 2 bytes):
	// U+2028 is E2 80 A8
	for _, b := range []string{"\xe2", "\xe2\x80", "\"a\xe2\x80", "\"a\xe2", "\xf0\x9f", "\xf0\x9f\x98", "[1,\"\xe2\x80", "\"\\u20", "\"\\", "\"\xe2\x80\xa8\""} {
		p = append(p, ugo.Bytes(b), ugo.String(b), &ugojson.RawMessage{Value: []byte(b)})
	}
	deep := ugo.Array{}
	for i := 0; i < 6; i++ {
		deep = ugo.Array{deep, ugo.Map{"k": deep}}
	}
	p = append(p,
		ugo.Array{ugo.Undefined, ugo.Undefined},
		ugo.Array{ugo.String("b"), ugo.Int(2), ugo.Float(1.5), ugo.Char('a'), ugo.Array{}, ugo.Map{}},
		ugo.Array{ugo.Int(3), ugo.Int(1), ugo.Int(2)},
		ugo.Array{ugo.Bytes("a"), ugo.String("a")},
		deep,
		ugo.Map{"year": ugo.Int(1), "": ugo.Array{ugo.Map{}}},
		&ugo.SyncMap{Value: ugo.Map{"a": ugo.Int(1)}},
		&ugo.SyncMap{},
	)
	// errors
	p = append(p, ugo.ErrType, ugo.ErrIndexOutOfBounds.NewError("x"), &ugo.Error{}, &ugo.RuntimeError{Err: ugo.ErrZeroDivision}, &ugo.RuntimeError{})
	// callables
	p = append(p, fnErr, fnTrue, fnChar, ugo.BuiltinObjects[ugo.BuiltinLen], ugo.BuiltinObjects[ugo.BuiltinInt], ugo.BuiltinObjects[ugo.BuiltinSprintf])
	p = append(p, CompiledFuncs()...)
	// time, location, scanArg, json objects
	p = append(p, TimeReceivers()...)
	p = append(p, &ugotime.Location{Value: gotime.UTC}, &ugotime.Location{Value: gotime.FixedZone("x", 3600)})
	for _, t := range []ugo.Object{ugo.String("int"), ugo.String("string"), ugo.BuiltinObjects[ugo.BuiltinBytes]} {
		sa, err := ugofmt.Module["ScanArg"].(*ugo.Function).Value(t)
		if err != nil {
			panic(err)
		}
		p = append(p, sa)
	}
	p = append(p, &ugojson.RawMessage{Value: []byte("{}")}, &ugojson.RawMessage{}, &ugojson.EncoderOptions{Value: ugo.String("<")}, &ugojson.EncoderOptions{})
	return p
}

// ArgPool is the full C19 argument pool.
func ArgPool() []ugo.Object { return append(ValuePool(), ArgExtras()...) }

// ArgCore is the small pool used exhaustively for argument lists of length 3 and
// sampled for length 4: one or two representatives of every kind and magnitude.
func ArgCore() []ugo.Object {
	cf := CompiledFuncs()
	return []ugo.Object{
		ugo.Int(0), ugo.Int(2), ugo.Int(-1), ugo.Int(1 << 62), ugo.Int(math.MinInt64), ugo.Int(1<<31 - 1),
		ugo.Uint(math.MaxUint64), ugo.Float(0.5), ugo.Char('a'), ugo.True, ugo.Undefined,
		ugo.String(""), ugo.String("ab"), ugo.String("%v %d"), ugo.String("é\xff"),
		ugo.Bytes(""), ugo.Bytes("ab"),
		ugo.Array{}, ugo.Array{ugo.Int(1), ugo.String("a")}, ugo.Map{"a": ugo.Int(1)},
		fnTrue, cf[0], TimeReceivers()[0], &ugotime.Location{Value: gotime.UTC},
	}
}

// Fresh returns v, or a copy when v is a mutable container (several builtins
// mutate their arguments: sort, delete, append on bytes with spare capacity).
func Fresh(v ugo.Object) ugo.Object {
	switch x := v.(type) {
	case ugo.Array:
		// keep the spare capacity of the pool value (a copy made by Copy() has none)
		cp := x.Copy().(ugo.Array)
		if cap(x) > len(x) {
			grown := make(ugo.Array, len(cp), cap(x))
			copy(grown, cp)
			return grown
		}
		return cp
	case ugo.Bytes:
		cp := make(ugo.Bytes, len(x), cap(x))
		copy(cp, x)
		return cp
	case ugo.Map, *ugo.SyncMap:
		return x.(ugo.Copier).Copy()
	}
	return v
}
