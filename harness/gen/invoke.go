package gen

import (
	"fmt"
	"strings"
)

// Generator for property C14 (stream `invoke`): one script body, two prefixes.
// Variant A defines `call`/`calln` in the script (`f(...args)`), variant B takes them
// from the globals, where the harness puts Go functions that use ugo.NewInvoker.
// Only accepted arities are generated (exact for fixed, >= NumParams-1 for variadic).

type InvCase struct {
	Body  string            `json:"body"`
	Mods  map[string]string `json:"mods"`
	Mode  string            `json:"mode"` // unpooled | pooled | reuse-unpooled | reuse-pooled
	Shape string            `json:"shape"`
}

const InvPrefixScript = "call := func(f, ...args) { return f(...args) }\n" +
	"calln := func(n, f, ...args) { r := []; for i := 0; i < n; i++ { r = append(r, f(...args)) }; return r }\n" +
	"global gopanic\n"
const InvPrefixHost = "global (call, calln, gopanic)\n"

type invFn struct {
	name  string
	def   string
	min   int  // accepted arity: exactly min, or >= min when variadic
	varia bool
	kind  string // arg kind: "int" | "any" | "small" (recursion depth) | "thrower"
	throws bool
}

func invFns() []invFn {
	return []invFn{
		{name: "fadd", def: "fadd := func(a, b) { return a + b * 2 }", min: 2, kind: "int"},
		{name: "fvar", def: "fvar := func(a, ...r) { return [a, r, len(r)] }", min: 1, varia: true, kind: "any"},
		{name: "fvar0", def: "fvar0 := func(...r) { return r }", min: 0, varia: true, kind: "any"},
		{name: "fvar2", def: "fvar2 := func(a, b, ...r) { t := len(r); c += t; return [b, a, r, t] }", min: 2, varia: true, kind: "any"},
		{name: "fcnt", def: "fcnt := func(d) { c += d; return c }", min: 1, kind: "int"},
		{name: "fglob", def: "fglob := func(v) { g1 += v; return g1 }", min: 1, kind: "int"},
		{name: "frec", def: "var frec\nfrec = func(n) { if n <= 0 { return 0 }; return n + frec(n - 1) }", min: 1, kind: "small"},
		{name: "fnest", def: "var fnest\nfnest = func(n) { if n <= 0 { return c }; c++; return call(fnest, n - 1) + 1 }", min: 1, kind: "small"},
		{name: "fnest2", def: "fnest2 := func(x) { a := call(fcnt, x); b := calln(2, fglob, 1); return [a, b] }", min: 1, kind: "int"},
		{name: "fthrow", def: "fthrow := func(x) { c++; if x > 1 { throw x * 100 }; return x }", min: 1, kind: "int", throws: true},
		{name: "ferr", def: "ferr := func(x) { c++; return 10 / x }", min: 1, kind: "int", throws: true},
		{name: "ferrobj", def: "ferrobj := func(x) { if x > 2 { throw error(\"custom\") }; return x }", min: 1, kind: "int", throws: true},
		{name: "fimp", def: "fimp := func() { return import(\"m0\").inc() }", min: 0},
		{name: "fimp1", def: "fimp1 := func(v) { m := import(\"m1\"); m.st.n += v; return [m.inc(), m.st.n] }", min: 1, kind: "int"},
		{name: "ftry", def: "ftry := func(x) { try { c += 1; if x > 0 { throw \"in\" }; return c } catch e { c += 10; return c } finally { c += 100 } }", min: 1, kind: "int"},
		{name: "flocals", def: "flocals := func(a) { x := a + 1; y := x * 2; z := [x, y]; for i := 0; i < 2; i++ { z = append(z, i + c) }; return z }", min: 1, kind: "int"},
		{name: "fthrown", def: "fthrown := func(x) { return call(fthrow, x) + 1 }", min: 1, kind: "int", throws: true},
		{name: "fpanic", def: "fpanic := func(x) { try { c++; if x > 0 { gopanic() }; return c } catch e { c += 1000; return [-7, c] } }", min: 1, kind: "int"},
		{name: "fpanic2", def: "fpanic2 := func(x) { c++; if x > 0 { gopanic() }; return c }", min: 1, kind: "int", throws: true},
		{name: "fdrain", def: "var fdrain\nfdrain = func(n) { c++; if n <= 0 { return c }; fdrain(n - 1) }", min: 1, kind: "small"},
		{name: "fdrain2", def: "var fdrain2\nfdrain2 = func(n) { c++; if c > n + 3 { return c }; fdrain2(n) }", min: 1, kind: "small"},
		// discarded self tail calls at depth 0, then an error thrown in a NESTED compiled function: the run
		// ends while a deeper frame is current
		{name: "fdrainthrow", def: "var fdrainthrow\nfdrainthrow = func(n) { c++; if n <= 0 { fthrow(5); return c }; fdrainthrow(n - 1) }", min: 1, kind: "small", throws: true},
		{name: "fdrainerr", def: "var fdrainerr\nfdrainerr = func(n) { c++; if n <= 0 { return [ferr(0)] }; fdrainerr(n - 1) }", min: 1, kind: "small", throws: true},
		{name: "ftail", def: "var ftail\nftail = func(n) { c++; if n <= 0 { return c * 2 }; return ftail(n - 1) }", min: 1, kind: "small"},
		{name: "fundef", def: "fundef := func(a, b) { if b == undefined { return -1 }; return a }", min: 2, kind: "any"},
	}
}

func invArg(r *Rand, kind string) string {
	switch kind {
	case "small":
		return fmt.Sprint(r.Intn(5))
	case "int":
		return fmt.Sprint(r.Intn(7) - 1)
	default:
		pool := []string{"0", "1", "-2", "\"s\"", "[1, 2]", "[]", "undefined", "true", "{k: 1}", "'x'"}
		return pool[r.Intn(len(pool))]
	}
}

func (f invFn) callArgs(r *Rand) string {
	n := f.min
	if f.varia {
		n += r.Intn(4)
	}
	var as []string
	for i := 0; i < n; i++ {
		as = append(as, invArg(r, f.kind))
	}
	return strings.Join(as, ", ")
}

// InvokeCase generates one case.
func InvokeCase(r *Rand) InvCase {
	modes := []string{"unpooled", "pooled", "reuse-unpooled", "reuse-pooled"}
	c := InvCase{Mode: modes[r.Intn(len(modes))], Mods: map[string]string{}}
	for _, m := range []string{"m0", "m1"} {
		c.Mods[m] = fmt.Sprintf("global glog\nglog = append(glog, %q)\ncnt := 0\nst := {n: 0}\nreturn {inc: func() { cnt++; return cnt }, get: func() { return cnt }, st: st}\n", m)
	}
	all := invFns()
	var sb strings.Builder
	sb.WriteString("global (g1, glog)\ng1 = 0\nglog = []\nout := []\nc := 0\n")
	shape := map[string]bool{}
	if r.Intn(3) == 0 {
		sb.WriteString("pre := import(\"m0\")\npre.inc()\n")
		shape["parent-imports-first"] = true
	}
	for _, f := range all {
		sb.WriteString(f.def + "\n")
	}
	nst := 3 + r.Intn(8)
	for i := 0; i < nst; i++ {
		f := all[r.Intn(len(all))]
		if f.name == "ferrobj" && r.Intn(3) > 0 { // `error` builtin: outside the VM model, keep it rare
			f = all[r.Intn(len(all))]
		}
		shape[f.name] = true
		args := f.callArgs(r)
		sep := ""
		if args != "" {
			sep = ", "
		}
		// what a catch clause records: name and message of the error (the message of a recovered Go
		// panic carries Go stack text and is never compared)
		rec := "[e.Name, e.Message, c]"
		if f.name == "fpanic2" {
			rec = "[-9, c]"
		}
		switch k := r.Intn(10); {
		case k < 5:
			e := fmt.Sprintf("call(%s%s%s)", f.name, sep, args)
			if f.throws {
				fmt.Fprintf(&sb, "try { out = append(out, %s) } catch e { out = append(out, %s) }\n", e, rec)
			} else {
				fmt.Fprintf(&sb, "out = append(out, %s)\n", e)
			}
		case k < 7:
			n := 1 + r.Intn(3)
			e := fmt.Sprintf("calln(%d, %s%s%s)", n, f.name, sep, args)
			shape["calln"] = true
			if f.throws {
				fmt.Fprintf(&sb, "try { out = append(out, %s) } catch e { out = append(out, %s) } finally { out = append(out, g1) }\n", e, rec)
			} else {
				fmt.Fprintf(&sb, "out = append(out, %s)\n", e)
			}
		case k == 7: // the same function called directly in both variants, between invocations
			if f.throws {
				fmt.Fprintf(&sb, "try { out = append(out, %s(%s)) } catch e { out = append(out, %s) }\n", f.name, args, rec)
			} else {
				fmt.Fprintf(&sb, "out = append(out, %s(%s))\n", f.name, args)
			}
		case k == 8:
			fmt.Fprintf(&sb, "c += %d\ng1 = g1 * 2 + 1\n", r.Intn(5))
		default: // a closure created on the fly, capturing a loop variable and c
			fmt.Fprintf(&sb, "for i := 0; i < 2; i++ { out = append(out, call(func(v) { c += i; return [i, v, c] }, %s)) }\n", invArg(r, "int"))
			shape["loop-closure"] = true
		}
	}
	switch r.Intn(6) {
	case 0:
		sb.WriteString("return call(fthrow, 5)\n") // uncaught: propagates to the embedder
		shape["uncaught-throw"] = true
	case 1:
		sb.WriteString("return call(ferr, 0)\n")
		shape["uncaught-runtime-error"] = true
	default:
		sb.WriteString("return [out, c, g1, import(\"m0\").get(), import(\"m1\").st.n]\n")
	}
	c.Body = sb.String()
	var ss []string
	for s := range shape {
		ss = append(ss, s)
	}
	sortStrings(ss)
	if len(ss) > 4 {
		ss = ss[:4]
	}
	c.Shape = strings.Join(ss, ",")
	return c
}
