// Package xlate translates a small, fixed subset of Go function bodies (the
// operator tables of ozanh/ugo) into Lean 4 definitions.  It fails closed: any
// construct outside the subset is an error, which the check treats as a broken
// proof obligation.
package xlate

import (
	"fmt"
	"go/ast"
	"go/token"
	"math"
	"sort"
	"strconv"
	"strings"
)

// Ty is the static Go type of a translated expression.
type Ty string

const (
	TInt    Ty = "Int"    // int64 / ugo.Int      -> BitVec 64 (signed ops)
	TUint   Ty = "Uint"   // uint64 / ugo.Uint    -> BitVec 64 (unsigned ops)
	TFloat  Ty = "Float"  // float64 / ugo.Float  -> F64 bits
	TChar   Ty = "Char"   // rune,int32 / ugo.Char-> BitVec 32 (signed ops)
	TBool   Ty = "Bool"   // bool / ugo.Bool
	TString Ty = "String" // string / ugo.String  -> Bytes
	TBytes  Ty = "Bytes"  // []byte / ugo.Bytes   -> Bytes
	TGoInt  Ty = "int"    // Go int (only from len / bytes.Compare) -> Int
	TVal    Ty = "val"    // ugo.Object -> Val (or Lit in fold tables)
	TTok    Ty = "tok"
	TUndef  Ty = "Undefined"
	TArray  Ty = "Array"
	TMap    Ty = "Map"
	TNone   Ty = ""
)

func LeanTy(t Ty) string {
	switch t {
	case TInt, TUint:
		return "BitVec 64"
	case TFloat:
		return "Go.F64"
	case TChar:
		return "BitVec 32"
	case TBool:
		return "Bool"
	case TString, TBytes:
		return "Go.Bytes"
	case TGoInt:
		return "Int"
	case TVal:
		return "Go.Val"
	case TTok:
		return "Go.Tok"
	case TArray:
		return "List Go.Val"
	case TMap:
		return "List (Go.Bytes × Go.Val)"
	}
	return "Unit"
}

func goTypeName(e ast.Expr) (Ty, bool) {
	switch x := e.(type) {
	case *ast.Ident:
		switch x.Name {
		case "Int", "int64":
			return TInt, true
		case "Uint", "uint64":
			return TUint, true
		case "Float", "float64":
			return TFloat, true
		case "Char", "rune", "int32":
			return TChar, true
		case "Bool", "bool":
			return TBool, true
		case "String", "string":
			return TString, true
		case "Bytes":
			return TBytes, true
		case "Array":
			return TArray, true
		case "Map":
			return TMap, true
		}
	case *ast.StarExpr:
		if id, ok := x.X.(*ast.Ident); ok && id.Name == "UndefinedType" {
			return TUndef, true
		}
		if sel, ok := x.X.(*ast.SelectorExpr); ok { // *parser.IntLit ...
			switch sel.Sel.Name {
			case "IntLit":
				return TInt, true
			case "UintLit":
				return TUint, true
			case "FloatLit":
				return TFloat, true
			case "CharLit":
				return TChar, true
			case "BoolLit":
				return TBool, true
			case "StringLit":
				return TString, true
			case "UndefinedLit":
				return TUndef, true
			}
		}
	case *ast.ArrayType:
		if id, ok := x.Elt.(*ast.Ident); ok && id.Name == "byte" && x.Len == nil {
			return TBytes, true
		}
	}
	return TNone, false
}

// ctor is the Val/Lit constructor for a static type.
func ctor(t Ty) string {
	switch t {
	case TInt:
		return ".int"
	case TUint:
		return ".uint"
	case TFloat:
		return ".float"
	case TChar:
		return ".char"
	case TBool:
		return ".bool"
	case TString:
		return ".str"
	case TBytes:
		return ".bytes"
	case TArray:
		return ".array"
	case TMap:
		return ".map"
	}
	return ""
}

func TypeNameOf(t Ty) string {
	switch t {
	case TInt:
		return "int"
	case TUint:
		return "uint"
	case TFloat:
		return "float"
	case TChar:
		return "char"
	case TBool:
		return "bool"
	case TString:
		return "string"
	case TBytes:
		return "bytes"
	case TUndef:
		return "undefined"
	case TArray:
		return "array"
	case TMap:
		return "map"
	}
	return "?"
}

type binding struct {
	lean string
	ty   Ty
	// for variables of interface type (right): the statically known dynamic type, if any
	narrowTy   Ty
	narrowLean string
}

type Env map[string]binding

func (e Env) clone() Env {
	n := make(Env, len(e))
	for k, v := range e {
		n[k] = v
	}
	return n
}

// Kind selects how `return` statements are rendered.
type Kind int

const (
	KindEqual Kind = iota // func(...) bool
	KindBinop             // func(...) (Object, error)   -> Res Val
	KindFold              // func(...) (parser.Expr, bool) -> Option Lit
	KindUnary             // vm.xOpUnary: error result + store to stack -> Res Val
	KindBool              // plain bool function (IsFalsy etc)
	KindOptBool           // func(...) (bool, bool) -> Res (Option Bool)
)

type Tr struct {
	Kind     Kind
	Recv     string // receiver type name, e.g. "Int" (for delegation naming)
	RecvTy   Ty
	FuncName string // Equal / BinaryOp
	// Calls collects the names of other generated definitions this body references.
	Calls map[string]bool
	// prefix statements (before the top-level type switch) for goto re-entry checks
	fresh   int
	TokVar  string // name of the token variable (tok / op)
	ValVar  string // name of the interface-typed right operand
	FoldMode bool  // type switch patterns are Lit, results Option Lit
	// CellCall, when set, replaces the body of a single-type case of the type
	// switch over ValVar by a call to the per-cell definition.
	CellCall func(ty Ty, payload string) string
	Monadic  bool // body lives in the Res monad: every branch is its own do-block
}

func (t *Tr) arrow() string {
	if t.Monadic {
		return "=> do"
	}
	return "=>"
}
func (t *Tr) thenW() string {
	if t.Monadic {
		return "then do"
	}
	return "then"
}
func (t *Tr) elseW() string {
	if t.Monadic {
		return "else do"
	}
	return "else"
}

type xerr struct{ msg string }

func fail(pos token.Pos, f string, a ...any) {
	panic(xerr{fmt.Sprintf("pos %d: ", pos) + fmt.Sprintf(f, a...)})
}

// Catch converts a translator failure into an error.
func Catch(f func()) (err error) {
	defer func() {
		if r := recover(); r != nil {
			if x, ok := r.(xerr); ok {
				err = fmt.Errorf("goextract: unsupported construct: %s", x.msg)
				return
			}
			panic(r)
		}
	}()
	f()
	return nil
}

func indent(s string, n int) string {
	pad := strings.Repeat(" ", n)
	lines := strings.Split(s, "\n")
	for i, l := range lines {
		if l != "" {
			lines[i] = pad + l
		}
	}
	return strings.Join(lines, "\n")
}

func tokCtor(e ast.Expr) string {
	sel, ok := e.(*ast.SelectorExpr)
	if !ok {
		fail(e.Pos(), "token case is not token.X")
	}
	if id, ok := sel.X.(*ast.Ident); !ok || id.Name != "token" {
		fail(e.Pos(), "token case is not token.X")
	}
	switch sel.Sel.Name {
	case "Add", "Sub", "Mul", "Quo", "Rem", "And", "Or", "Xor", "Shl", "Shr", "AndNot",
		"Less", "Greater", "LessEq", "GreaterEq", "Equal", "NotEqual", "Not", "LAnd", "LOr":
		return "Go.Tok." + sel.Sel.Name
	}
	fail(e.Pos(), "unknown token %s", sel.Sel.Name)
	return ""
}

// Stmts translates a statement list in continuation-passing style.  k renders
// what happens when control falls off the end of the list.
func (t *Tr) Stmts(ss []ast.Stmt, env Env, k func(Env) string) string {
	if len(ss) == 0 {
		return k(env)
	}
	s, rest := ss[0], ss[1:]
	kr := func(e Env) string { return t.Stmts(rest, e, k) }
	switch s := s.(type) {
	case *ast.ReturnStmt:
		return t.ret(s, env)
	case *ast.LabeledStmt:
		return t.Stmts(append([]ast.Stmt{s.Stmt}, rest...), env, k)
	case *ast.BlockStmt:
		return t.Stmts(s.List, env, kr)
	case *ast.DeclStmt:
		gd := s.Decl.(*ast.GenDecl)
		if gd.Tok != token.VAR {
			fail(s.Pos(), "unsupported decl")
		}
		e2 := env.clone()
		for _, sp := range gd.Specs {
			vs := sp.(*ast.ValueSpec)
			if len(vs.Values) != 0 {
				fail(s.Pos(), "var with initialiser")
			}
			for _, n := range vs.Names {
				if sel, ok := vs.Type.(*ast.SelectorExpr); ok && sel.Sel.Name == "Builder" {
					e2[n.Name] = binding{lean: "([] : Go.Bytes)", ty: TString}
					continue
				}
				if id, ok := vs.Type.(*ast.Ident); ok && (id.Name == "Object" || id.Name == "error") {
					e2[n.Name] = binding{lean: "?unset", ty: TVal}
					continue
				}
				ty, ok := goTypeName(vs.Type)
				if !ok {
					fail(s.Pos(), "var of unsupported type")
				}
				e2[n.Name] = binding{lean: zeroOf(ty), ty: ty}
			}
		}
		return kr(e2)
	case *ast.AssignStmt:
		return t.assign(s, env, kr)
	case *ast.ExprStmt:
		return t.exprStmt(s, env, kr)
	case *ast.IncDecStmt:
		// vm.ip++ in xOpUnary: not part of the value computation
		if t.Kind == KindUnary {
			return kr(env)
		}
		fail(s.Pos(), "inc/dec")
	case *ast.IfStmt:
		return t.ifStmt(s, env, kr)
	case *ast.SwitchStmt:
		return t.switchStmt(s, env, kr)
	case *ast.TypeSwitchStmt:
		return t.typeSwitch(s, env, kr)
	case *ast.BranchStmt:
		if s.Tok == token.GOTO {
			return t.gotoStmt(s, env)
		}
		fail(s.Pos(), "branch %s", s.Tok)
	}
	fail(s.Pos(), "statement %T", s)
	return ""
}

func zeroOf(ty Ty) string {
	switch ty {
	case TInt, TUint:
		return "(0#64)"
	case TChar:
		return "(0#32)"
	case TFloat:
		return "(0#64)"
	case TBool:
		return "false"
	case TString, TBytes:
		return "([] : Go.Bytes)"
	case TGoInt:
		return "(0 : Int)"
	}
	return "?"
}

func (t *Tr) newName(base string) string {
	t.fresh++
	return fmt.Sprintf("%s_%d", base, t.fresh)
}

func (t *Tr) assign(s *ast.AssignStmt, env Env, k func(Env) string) string {
	// v, ok := x.(T)
	if len(s.Lhs) == 2 && len(s.Rhs) == 1 {
		if ta, ok := s.Rhs[0].(*ast.TypeAssertExpr); ok {
			src, ok := ta.X.(*ast.Ident)
			if !ok {
				fail(s.Pos(), "type assertion on non-identifier")
			}
			ty, ok2 := goTypeName(ta.Type)
			if !ok2 {
				fail(s.Pos(), "type assertion to unsupported type")
			}
			vn := s.Lhs[0].(*ast.Ident).Name
			okn := s.Lhs[1].(*ast.Ident).Name
			b := env[src.Name]
			if b.ty != TVal {
				fail(s.Pos(), "type assertion on non-interface %s", src.Name)
			}
			fresh := t.newName(vn)
			eT := env.clone()
			eT[vn] = binding{lean: fresh, ty: ty}
			if vn == src.Name {
				eT[vn] = binding{lean: fresh, ty: ty}
			}
			eT[okn] = binding{lean: "true", ty: TBool}
			eF := env.clone()
			eF[vn] = binding{lean: zeroOf(ty), ty: ty}
			eF[okn] = binding{lean: "false", ty: TBool}
			return fmt.Sprintf("match %s with\n| %s %s %s\n%s\n| _ %s\n%s",
				b.lean, ctor(ty), fresh, t.arrow(), indent(k(eT), 2), t.arrow(), indent(k(eF), 2))
		}
	}
	if len(s.Lhs) > 1 && len(s.Lhs) == len(s.Rhs) {
		// parallel assignment `a, b := x, y`: every right-hand side is evaluated in the environment
		// BEFORE the statement (fresh Lean names, so later lets cannot capture earlier ones)
		e2 := env.clone()
		var lets strings.Builder
		for i := range s.Lhs {
			id, ok := s.Lhs[i].(*ast.Ident)
			if !ok {
				fail(s.Pos(), "multi-assign target %T", s.Lhs[i])
			}
			old, had := env[id.Name]
			if had && old.ty == TVal {
				fail(s.Pos(), "multi-assign to an interface-typed variable")
			}
			want := TNone
			if had {
				want = old.ty
			}
			le, lt := t.expr(s.Rhs[i], env, want)
			if id.Name == "_" {
				continue
			}
			fresh := t.newName(id.Name)
			e2[id.Name] = binding{lean: fresh, ty: lt}
			fmt.Fprintf(&lets, "let %s : %s := %s\n", fresh, LeanTy(lt), le)
		}
		return lets.String() + k(e2)
	}
	if len(s.Lhs) != 1 || len(s.Rhs) != 1 {
		fail(s.Pos(), "multi-assign")
	}
	// vm.stack[vm.sp-1] = value   (xOpUnary)
	if ix, ok := s.Lhs[0].(*ast.IndexExpr); ok && t.Kind == KindUnary {
		_ = ix
		le, lt := t.expr(s.Rhs[0], env, TNone)
		e2 := env.clone()
		e2["$result"] = binding{lean: t.wrap(le, lt, env), ty: TVal}
		return k(e2)
	}
	var name string
	switch l := s.Lhs[0].(type) {
	case *ast.Ident:
		name = l.Name
	default:
		fail(s.Pos(), "assignment target %T", l)
	}
	// literal text produced by strconv (Literal fields of folded nodes) is not part of the value
	if call, ok := s.Rhs[0].(*ast.CallExpr); ok {
		if sel, ok := call.Fun.(*ast.SelectorExpr); ok {
			if id, ok := sel.X.(*ast.Ident); ok && id.Name == "strconv" {
				e2 := env.clone()
				e2[name] = binding{lean: "([] : Go.Bytes)", ty: TString}
				return k(e2)
			}
		}
	}
	old, had := env[name]
	want := TNone
	if had && old.ty != TVal {
		want = old.ty
	}
	le, lt := t.expr(s.Rhs[0], env, want)
	e2 := env.clone()
	if had && old.ty == TVal {
		// interface-typed variable (right / value): remember the static type of what it now holds
		if lt == TVal {
			e2[name] = binding{lean: le, ty: TVal}
			return k(e2)
		}
		fresh := t.newName(name)
		e2[name] = binding{lean: "(" + ctor(lt) + " " + fresh + ")", ty: TVal, narrowTy: lt, narrowLean: fresh}
		return fmt.Sprintf("let %s : %s := %s\n%s", fresh, LeanTy(lt), le, k(e2))
	}
	fresh := t.newName(name)
	e2[name] = binding{lean: fresh, ty: lt}
	return fmt.Sprintf("let %s : %s := %s\n%s", fresh, LeanTy(lt), le, k(e2))
}

func (t *Tr) exprStmt(s *ast.ExprStmt, env Env, k func(Env) string) string {
	call, ok := s.X.(*ast.CallExpr)
	if !ok {
		fail(s.Pos(), "expression statement")
	}
	sel, ok := call.Fun.(*ast.SelectorExpr)
	if !ok {
		fail(s.Pos(), "expression statement call")
	}
	recv, ok := sel.X.(*ast.Ident)
	if !ok {
		fail(s.Pos(), "expression statement receiver")
	}
	b, ok := env[recv.Name]
	if !ok || b.ty != TString {
		fail(s.Pos(), "method call statement on %s", recv.Name)
	}
	e2 := env.clone()
	switch sel.Sel.Name {
	case "Grow":
		return k(env)
	case "WriteRune":
		le, lt := t.expr(call.Args[0], env, TChar)
		if lt != TChar {
			fail(s.Pos(), "WriteRune arg")
		}
		e2[recv.Name] = binding{lean: "(" + b.lean + " ++ Go.utf8EncodeRune " + le + ")", ty: TString}
	case "WriteString", "Write":
		le, lt := t.expr(call.Args[0], env, TNone)
		if lt != TString && lt != TBytes {
			fail(s.Pos(), "Write arg")
		}
		e2[recv.Name] = binding{lean: "(" + b.lean + " ++ " + le + ")", ty: TString}
	default:
		fail(s.Pos(), "builder method %s", sel.Sel.Name)
	}
	return k(e2)
}

func (t *Tr) ifStmt(s *ast.IfStmt, env Env, k func(Env) string) string {
	if s.Init != nil {
		as, ok := s.Init.(*ast.AssignStmt)
		if !ok {
			fail(s.Pos(), "if init")
		}
		// if v, ok := right.(T); ok { A } [else B]; rest
		inner := &ast.IfStmt{Cond: s.Cond, Body: s.Body, Else: s.Else}
		return t.assign(as, env, func(e Env) string {
			return t.ifStmt(inner, e, func(e2 Env) string {
				// variables bound by the init are scoped to the if statement
				e3 := e2.clone()
				for _, l := range as.Lhs {
					n := l.(*ast.Ident).Name
					if old, had := env[n]; had {
						e3[n] = old
					} else {
						delete(e3, n)
					}
				}
				return k(e3)
			})
		})
	}
	c, ct := t.expr(s.Cond, env, TBool)
	if ct != TBool {
		fail(s.Pos(), "if condition not bool")
	}
	thenS := t.Stmts(s.Body.List, env, k)
	var elseS string
	switch e := s.Else.(type) {
	case nil:
		elseS = k(env)
	case *ast.BlockStmt:
		elseS = t.Stmts(e.List, env, k)
	case *ast.IfStmt:
		elseS = t.ifStmt(e, env, k)
	default:
		fail(s.Pos(), "else form")
	}
	// constant-fold the conditions produced by failed type assertions
	if c == "true" {
		return thenS
	}
	if c == "false" {
		return elseS
	}
	return fmt.Sprintf("if %s %s\n%s\n%s\n%s", c, t.thenW(), indent(thenS, 2), t.elseW(), indent(elseS, 2))
}

func (t *Tr) switchStmt(s *ast.SwitchStmt, env Env, k func(Env) string) string {
	if s.Init != nil || s.Tag == nil {
		fail(s.Pos(), "switch form")
	}
	tag, ok := s.Tag.(*ast.Ident)
	if !ok {
		fail(s.Pos(), "switch tag")
	}
	b, ok := env[tag.Name]
	if !ok || b.ty != TTok {
		// switch err { case ErrX: ... }  not supported
		fail(s.Pos(), "switch on non-token %s", tag.Name)
	}
	var sb strings.Builder
	fmt.Fprintf(&sb, "match %s with\n", b.lean)
	hasDefault := false
	var deflt string
	for _, c := range s.Body.List {
		cc := c.(*ast.CaseClause)
		for _, st := range cc.Body {
			if br, ok := st.(*ast.BranchStmt); ok && br.Tok == token.FALLTHROUGH {
				fail(st.Pos(), "fallthrough")
			}
		}
		body := t.Stmts(cc.Body, env, k)
		if cc.List == nil {
			hasDefault = true
			deflt = body
			continue
		}
		var pats []string
		for _, e := range cc.List {
			pats = append(pats, tokCtor(e))
		}
		fmt.Fprintf(&sb, "| %s %s\n%s\n", strings.Join(pats, " | "), t.arrow(), indent(body, 2))
	}
	if !hasDefault {
		deflt = k(env)
	}
	fmt.Fprintf(&sb, "| _ %s\n%s", t.arrow(), indent(deflt, 2))
	return sb.String()
}

// TypeSwitchCases splits a type switch into (case type, body, bound variable).
type TSCase struct {
	Types []Ty
	Body  []ast.Stmt
	Deflt bool
}

func SplitTypeSwitch(s *ast.TypeSwitchStmt) (src string, bound string, cases []TSCase) {
	var ta *ast.TypeAssertExpr
	switch a := s.Assign.(type) {
	case *ast.AssignStmt:
		bound = a.Lhs[0].(*ast.Ident).Name
		ta = a.Rhs[0].(*ast.TypeAssertExpr)
	case *ast.ExprStmt:
		ta = a.X.(*ast.TypeAssertExpr)
	}
	id, ok := ta.X.(*ast.Ident)
	if !ok {
		fail(s.Pos(), "type switch on non-identifier")
	}
	src = id.Name
	for _, c := range s.Body.List {
		cc := c.(*ast.CaseClause)
		if cc.List == nil {
			cases = append(cases, TSCase{Deflt: true, Body: cc.Body})
			continue
		}
		var tys []Ty
		for _, e := range cc.List {
			ty, ok := goTypeName(e)
			if !ok {
				fail(e.Pos(), "type switch case type")
			}
			tys = append(tys, ty)
		}
		cases = append(cases, TSCase{Types: tys, Body: cc.Body})
	}
	return
}

func (t *Tr) typeSwitch(s *ast.TypeSwitchStmt, env Env, k func(Env) string) string {
	src, bound, cases := SplitTypeSwitch(s)
	b, ok := env[src]
	if !ok || b.ty != TVal {
		fail(s.Pos(), "type switch on %s", src)
	}
	if b.narrowTy != TNone {
		// statically known dynamic type: select the matching case now
		for _, c := range cases {
			for _, ty := range c.Types {
				if ty == b.narrowTy {
					e2 := env.clone()
					if bound != "" && len(c.Types) == 1 {
						e2[bound] = binding{lean: b.narrowLean, ty: ty}
					}
					return t.Stmts(c.Body, e2, k)
				}
			}
		}
		for _, c := range cases {
			if c.Deflt {
				return t.Stmts(c.Body, env, k)
			}
		}
		return k(env)
	}
	var sb strings.Builder
	fmt.Fprintf(&sb, "match %s with\n", b.lean)
	hasDefault := false
	var deflt string
	for _, c := range cases {
		if c.Deflt {
			hasDefault = true
			deflt = t.Stmts(c.Body, env, k)
			continue
		}
		if len(c.Types) == 1 {
			ty := c.Types[0]
			e2 := env.clone()
			var pat string
			if ty == TUndef {
				pat = ".undefined"
			} else {
				fresh := t.newName("v")
				pat = ctor(ty) + " " + fresh
				nb := binding{lean: fresh, ty: ty}
				if bound != "" {
					e2[bound] = nb
				}
				// the switched variable itself is now known to hold this type
				e2[src] = binding{lean: b.lean, ty: TVal, narrowTy: ty, narrowLean: fresh}
				if bound == src {
					e2[src] = nb
				}
			}
			if t.CellCall != nil && src == t.ValVar {
				pl := "()"
				if ty != TUndef {
					pl = e2[src].narrowLean
					if bound == src {
						pl = e2[src].lean
					}
				}
				fmt.Fprintf(&sb, "| %s =>\n%s\n", pat, indent(t.CellCall(ty, pl), 2))
				continue
			}
			fmt.Fprintf(&sb, "| %s %s\n%s\n", pat, t.arrow(), indent(t.Stmts(c.Body, e2, k), 2))
			continue
		}
		// case A, B: body may not use the payload
		var pats []string
		for _, ty := range c.Types {
			if ty == TUndef {
				pats = append(pats, ".undefined")
			} else {
				pats = append(pats, ctor(ty)+" _")
			}
		}
		e2 := env.clone()
		if bound != "" {
			e2[bound] = b
		}
		fmt.Fprintf(&sb, "| %s %s\n%s\n", strings.Join(pats, " | "), t.arrow(), indent(t.Stmts(c.Body, e2, k), 2))
	}
	if !hasDefault {
		deflt = k(env)
	}
	fmt.Fprintf(&sb, "| _ %s\n%s", t.arrow(), indent(deflt, 2))
	return sb.String()
}

func (t *Tr) gotoStmt(s *ast.BranchStmt, env Env) string {
	switch s.Label.Name {
	case "switchpos":
		// re-enter the type switch with `right` statically known
		b := env[t.ValVar]
		if b.narrowTy == TNone {
			fail(s.Pos(), "goto switchpos with unknown operand type")
		}
		name := fmt.Sprintf("%s_%s_%s", t.Recv, t.FuncName, b.narrowTy)
		t.Calls[name] = true
		return fmt.Sprintf("%s F S %s o %s", name, env[t.TokVar].lean, b.narrowLean)
	case "invalidType":
		if t.Kind == KindUnary {
			return fmt.Sprintf(".err (.typeErr (\"invalid type for unary '\" ++ Go.Tok.str %s ++ \"': '\" ++ Go.Val.typeName %s ++ \"'\"))",
				env[t.TokVar].lean, env[t.ValVar].lean)
		}
	}
	fail(s.Pos(), "goto %s", s.Label.Name)
	return ""
}

// wrap renders a typed expression as a Val (or Lit).
func (t *Tr) wrap(le string, lt Ty, env Env) string {
	if lt == TVal {
		return le
	}
	c := ctor(lt)
	if c == "" {
		panic(xerr{"cannot wrap type " + string(lt)})
	}
	return "(" + c + " " + le + ")"
}

func (t *Tr) ret(s *ast.ReturnStmt, env Env) string {
	switch t.Kind {
	case KindEqual, KindBool:
		if len(s.Results) != 1 {
			fail(s.Pos(), "return arity")
		}
		le, lt := t.expr(s.Results[0], env, TBool)
		if lt != TBool {
			fail(s.Pos(), "return of non-bool")
		}
		return le
	case KindBinop:
		if len(s.Results) == 1 {
			// return X.BinaryOp(tok, y)
			return t.delegate(s.Results[0], env)
		}
		if len(s.Results) != 2 {
			fail(s.Pos(), "return arity")
		}
		if id, ok := s.Results[1].(*ast.Ident); ok && id.Name == "nil" {
			le, lt := t.expr(s.Results[0], env, TNone)
			return ".ok " + t.wrap(le, lt, env)
		}
		if id, ok := s.Results[0].(*ast.Ident); !ok || id.Name != "nil" {
			fail(s.Pos(), "return value with error")
		}
		return t.errExpr(s.Results[1], env)
	case KindOptBool:
		if len(s.Results) != 2 {
			fail(s.Pos(), "return arity")
		}
		okv, ok := s.Results[1].(*ast.Ident)
		if !ok {
			fail(s.Pos(), "flag")
		}
		if okv.Name == "false" {
			return ".ok none"
		}
		le, lt := t.expr(s.Results[0], env, TBool)
		if lt != TBool {
			fail(s.Pos(), "return of non-bool")
		}
		return ".ok (some " + le + ")"
	case KindFold:
		if len(s.Results) == 1 {
			// return so.binaryopInts(op, left, right)
			call, ok := s.Results[0].(*ast.CallExpr)
			if !ok {
				fail(s.Pos(), "single-value fold return")
			}
			sel, ok := call.Fun.(*ast.SelectorExpr)
			if !ok {
				fail(s.Pos(), "fold delegation")
			}
			var as []string
			for _, a := range call.Args {
				le, _ := t.expr(a, env, TNone)
				as = append(as, le)
			}
			t.Calls[sel.Sel.Name] = true
			return sel.Sel.Name + " F " + strings.Join(as, " ")
		}
		if len(s.Results) != 2 {
			fail(s.Pos(), "return arity")
		}
		okv, ok := s.Results[1].(*ast.Ident)
		if !ok {
			fail(s.Pos(), "fold return flag")
		}
		if okv.Name == "false" {
			return ".ok none"
		}
		if okv.Name != "true" {
			fail(s.Pos(), "fold return flag")
		}
		le, lt := t.expr(s.Results[0], env, TNone)
		return ".ok (some " + t.wrap(le, lt, env) + ")"
	case KindUnary:
		if len(s.Results) != 1 {
			fail(s.Pos(), "return arity")
		}
		if id, ok := s.Results[0].(*ast.Ident); ok && id.Name == "nil" {
			r, ok := env["$result"]
			if !ok {
				fail(s.Pos(), "return nil without stored result")
			}
			return ".ok " + r.lean
		}
		return t.errExpr(s.Results[0], env)
	}
	fail(s.Pos(), "return")
	return ""
}

func (t *Tr) errExpr(e ast.Expr, env Env) string {
	switch x := e.(type) {
	case *ast.Ident:
		if x.Name == "ErrZeroDivision" {
			return ".err .zeroDivision"
		}
	case *ast.CallExpr:
		if id, ok := x.Fun.(*ast.Ident); ok && id.Name == "NewOperandTypeError" {
			if len(x.Args) != 3 {
				fail(e.Pos(), "NewOperandTypeError arity")
			}
			return fmt.Sprintf(".err (.operandType %s %s %s)",
				t.strExpr(x.Args[0], env), t.strExpr(x.Args[1], env), t.strExpr(x.Args[2], env))
		}
		if sel, ok := x.Fun.(*ast.SelectorExpr); ok && sel.Sel.Name == "NewError" {
			if id, ok := sel.X.(*ast.Ident); ok {
				if len(x.Args) == 1 {
					if bl, ok := x.Args[0].(*ast.BasicLit); ok && bl.Kind == token.STRING {
						switch id.Name {
						case "ErrType":
							return ".err (.typeErr " + bl.Value + ")"
						case "ErrInvalidOperator":
							return ".err (.invalidOperator " + bl.Value + ")"
						}
					}
					if c, ok := x.Args[0].(*ast.CallExpr); ok {
						if f, ok := c.Fun.(*ast.SelectorExpr); ok && f.Sel.Name == "Sprintf" {
							msg := t.sprintf(c, env)
							switch id.Name {
							case "ErrType":
								return ".err (.typeErr " + msg + ")"
							case "ErrInvalidOperator":
								return ".err (.invalidOperator " + msg + ")"
							}
						}
					}
				}
			}
		}
	}
	fail(e.Pos(), "error expression")
	return ""
}

// sprintf renders fmt.Sprintf with only %s verbs as a Lean string concatenation.
func (t *Tr) sprintf(c *ast.CallExpr, env Env) string {
	lit, ok := c.Args[0].(*ast.BasicLit)
	if !ok {
		fail(c.Pos(), "Sprintf format")
	}
	f, _ := strconv.Unquote(lit.Value)
	parts := strings.Split(f, "%s")
	if len(parts) != len(c.Args) {
		fail(c.Pos(), "Sprintf verbs")
	}
	var out []string
	for i, p := range parts {
		if strings.Contains(p, "%") {
			fail(c.Pos(), "Sprintf verb")
		}
		out = append(out, strconv.Quote(p))
		if i < len(parts)-1 {
			out = append(out, t.strExpr(c.Args[i+1], env))
		}
	}
	return "(" + strings.Join(out, " ++ ") + ")"
}

// strExpr renders the Lean `String` for tok.String(), x.TypeName().
func (t *Tr) strExpr(e ast.Expr, env Env) string {
	call, ok := e.(*ast.CallExpr)
	if !ok {
		fail(e.Pos(), "string expression")
	}
	sel, ok := call.Fun.(*ast.SelectorExpr)
	if !ok {
		fail(e.Pos(), "string expression")
	}
	id, ok := sel.X.(*ast.Ident)
	if !ok {
		fail(e.Pos(), "string expression receiver")
	}
	switch sel.Sel.Name {
	case "String":
		if b, ok := env[id.Name]; ok && b.ty == TTok {
			return "(Go.Tok.str " + b.lean + ")"
		}
	case "TypeName":
		if id.Name == "Undefined" {
			return "\"undefined\""
		}
		b, ok := env[id.Name]
		if !ok {
			fail(e.Pos(), "TypeName of %s", id.Name)
		}
		if b.ty == TVal {
			if b.narrowTy != TNone {
				return strconv.Quote(TypeNameOf(b.narrowTy))
			}
			return "(Go.Val.typeName " + b.lean + ")"
		}
		return strconv.Quote(TypeNameOf(b.ty))
	}
	fail(e.Pos(), "string expression %s", sel.Sel.Name)
	return ""
}

// delegate renders `X.BinaryOp(tok, Y)`.
func (t *Tr) delegate(e ast.Expr, env Env) string {
	call, ok := e.(*ast.CallExpr)
	if !ok {
		fail(e.Pos(), "single-value return")
	}
	sel, ok := call.Fun.(*ast.SelectorExpr)
	if !ok || sel.Sel.Name != t.FuncName || len(call.Args) != 2 {
		fail(e.Pos(), "delegation form")
	}
	re, rt := t.expr(sel.X, env, TNone)
	tokE, tokT := t.expr(call.Args[0], env, TTok)
	if tokT != TTok {
		fail(e.Pos(), "delegation token")
	}
	var ae string
	var at Ty
	if id, ok := call.Args[1].(*ast.Ident); ok {
		b := env[id.Name]
		if b.ty == TVal {
			if b.narrowTy == TNone {
				fail(e.Pos(), "delegation with operand of unknown type")
			}
			ae, at = b.narrowLean, b.narrowTy
		} else {
			ae, at = b.lean, b.ty
		}
	} else {
		ae, at = t.expr(call.Args[1], env, TNone)
	}
	name := fmt.Sprintf("%s_%s_%s", rt, t.FuncName, at)
	t.Calls[name] = true
	return fmt.Sprintf("%s F S %s %s %s", name, tokE, re, ae)
}

func floatBits(f float64) string {
	return fmt.Sprintf("(0x%016X#64)", math.Float64bits(f))
}

func (t *Tr) lit(x *ast.BasicLit, want Ty, neg bool) (string, Ty) {
	switch x.Kind {
	case token.INT:
		n, err := strconv.ParseInt(x.Value, 0, 64)
		if err != nil {
			fail(x.Pos(), "int literal")
		}
		if neg {
			n = -n
		}
		switch want {
		case TInt, TUint:
			if n < 0 {
				return fmt.Sprintf("(-%d#64)", -n), want
			}
			return fmt.Sprintf("(%d#64)", n), want
		case TChar:
			if n < 0 {
				return fmt.Sprintf("(-%d#32)", -n), want
			}
			return fmt.Sprintf("(%d#32)", n), want
		case TFloat:
			return floatBits(float64(n)), TFloat
		case TGoInt, TNone:
			return fmt.Sprintf("(%d : Int)", n), TGoInt
		}
	}
	fail(x.Pos(), "literal %s in context %s", x.Value, want)
	return "", TNone
}

// expr translates an expression; want is the type expected by context (for
// untyped constants), or TNone.
func (t *Tr) expr(e ast.Expr, env Env, want Ty) (string, Ty) {
	switch x := e.(type) {
	case *ast.ParenExpr:
		return t.expr(x.X, env, want)
	case *ast.SliceExpr:
		// `x[:len(x):len(x)]` (full slice expression that only drops the spare capacity): the same
		// VALUE as x; byte strings are immutable values in the model, capacity is not modelled
		if id, ok := x.X.(*ast.Ident); ok && x.Slice3 && x.Low == nil && isLenOf(x.High, id.Name) && isLenOf(x.Max, id.Name) {
			a, at := t.expr(x.X, env, TNone)
			if at == TBytes {
				return a, TBytes
			}
		}
		fail(x.Pos(), "slice expression other than x[:len(x):len(x)] on bytes")
		return "", TNone
	case *ast.Ident:
		switch x.Name {
		case "True", "true":
			return "true", TBool
		case "False", "false":
			return "false", TBool
		case "Undefined":
			return ".undefined", TVal
		}
		b, ok := env[x.Name]
		if !ok {
			fail(e.Pos(), "unknown identifier %s", x.Name)
		}
		if b.ty == TVal && b.narrowTy != TNone && want != TVal {
			return b.narrowLean, b.narrowTy
		}
		return b.lean, b.ty
	case *ast.SelectorExpr:
		// left.Value  /  expr.Value in fold tables
		if id, ok := x.X.(*ast.Ident); ok && x.Sel.Name == "Value" {
			if b, ok := env[id.Name]; ok && b.ty != TVal {
				return b.lean, b.ty
			}
		}
		if id, ok := x.X.(*ast.Ident); ok && id.Name == "token" {
			return tokCtor(x), TTok
		}
		fail(e.Pos(), "selector")
	case *ast.BasicLit:
		return t.lit(x, want, false)
	case *ast.UnaryExpr:
		if bl, ok := x.X.(*ast.BasicLit); ok && x.Op == token.SUB {
			return t.lit(bl, want, true)
		}
		if x.Op == token.AND {
			// &parser.IntLit{Value: v, ...}
			if cl, ok := x.X.(*ast.CompositeLit); ok {
				return t.compositeLit(cl, env)
			}
		}
		le, lt := t.expr(x.X, env, want)
		switch x.Op {
		case token.NOT:
			if lt == TBool {
				return "(!" + le + ")", TBool
			}
		case token.SUB:
			switch lt {
			case TInt, TUint, TChar:
				return "(-" + le + ")", lt
			case TFloat:
				return "(F.neg " + le + ")", lt
			}
		case token.XOR:
			switch lt {
			case TInt, TUint, TChar:
				return "(~~~" + le + ")", lt
			}
		}
		fail(e.Pos(), "unary %s on %s", x.Op, lt)
	case *ast.BinaryExpr:
		return t.binary(x, env)
	case *ast.CallExpr:
		return t.call(x, env, want)
	}
	fail(e.Pos(), "expression %T", e)
	return "", TNone
}

func (t *Tr) compositeLit(cl *ast.CompositeLit, env Env) (string, Ty) {
	ty, ok := goTypeName(&ast.StarExpr{X: cl.Type})
	if !ok {
		fail(cl.Pos(), "composite literal type")
	}
	for _, el := range cl.Elts {
		kv := el.(*ast.KeyValueExpr)
		if kv.Key.(*ast.Ident).Name == "Value" {
			le, lt := t.expr(kv.Value, env, ty)
			if lt != ty {
				fail(cl.Pos(), "literal Value has type %s, node is %s", lt, ty)
			}
			return le, ty
		}
	}
	fail(cl.Pos(), "composite literal without Value")
	return "", TNone
}

// isLenOf reports whether e is the call len(name).
func isLenOf(e ast.Expr, name string) bool {
	c, ok := e.(*ast.CallExpr)
	if !ok || len(c.Args) != 1 {
		return false
	}
	f, ok := c.Fun.(*ast.Ident)
	a, ok2 := c.Args[0].(*ast.Ident)
	return ok && ok2 && f.Name == "len" && a.Name == name
}

func isUntyped(e ast.Expr) bool {
	switch x := e.(type) {
	case *ast.BasicLit:
		return true
	case *ast.ParenExpr:
		return isUntyped(x.X)
	case *ast.UnaryExpr:
		return isUntyped(x.X) && x.Op == token.SUB
	}
	return false
}

func (t *Tr) binary(x *ast.BinaryExpr, env Env) (string, Ty) {
	// `expr == nil` on an interface-typed AST node: the shipped AST has no nil expression here
	if id, ok := x.Y.(*ast.Ident); ok && id.Name == "nil" && (x.Op == token.EQL || x.Op == token.NEQ) {
		if l, ok := x.X.(*ast.Ident); ok {
			if bnd, ok := env[l.Name]; ok && bnd.ty == TVal {
				if x.Op == token.EQL {
					return "false", TBool
				}
				return "true", TBool
			}
		}
	}
	var a, b string
	var at, bt Ty
	if isUntyped(x.X) && !isUntyped(x.Y) {
		b, bt = t.expr(x.Y, env, TNone)
		a, at = t.expr(x.X, env, bt)
	} else {
		a, at = t.expr(x.X, env, TNone)
		b, bt = t.expr(x.Y, env, at)
	}
	op := x.Op
	if op == token.LAND || op == token.LOR {
		if at != TBool || bt != TBool {
			fail(x.Pos(), "logical operator on non-bool")
		}
		if op == token.LAND {
			return "(" + a + " && " + b + ")", TBool
		}
		return "(" + a + " || " + b + ")", TBool
	}
	if at != bt {
		// String/Bytes compare after string() conversions yield TString on both sides; anything else is a Go type error
		fail(x.Pos(), "operand types differ: %s %s %s", at, op, bt)
	}
	p := func(f string, xs ...string) string { return "(" + f + " " + strings.Join(xs, " ") + ")" }
	inf := func(o string) string { return "(" + a + " " + o + " " + b + ")" }
	switch at {
	case TInt, TChar:
		switch op {
		case token.ADD:
			return inf("+"), at
		case token.SUB:
			return inf("-"), at
		case token.MUL:
			return inf("*"), at
		case token.QUO:
			return "(← Go.quoS " + a + " " + b + ")", at
		case token.REM:
			return "(← Go.remS " + a + " " + b + ")", at
		case token.AND:
			return inf("&&&"), at
		case token.OR:
			return inf("|||"), at
		case token.XOR:
			return inf("^^^"), at
		case token.AND_NOT:
			return "(" + a + " &&& ~~~" + b + ")", at
		case token.SHL:
			return "(← Go.shlS " + a + " " + b + ")", at
		case token.SHR:
			return "(← Go.shrSS " + a + " " + b + ")", at
		case token.LSS:
			return p("BitVec.slt", a, b), TBool
		case token.LEQ:
			return p("BitVec.sle", a, b), TBool
		case token.GTR:
			return p("BitVec.slt", b, a), TBool
		case token.GEQ:
			return p("BitVec.sle", b, a), TBool
		case token.EQL:
			return inf("=="), TBool
		case token.NEQ:
			return inf("!="), TBool
		}
	case TUint:
		switch op {
		case token.ADD:
			return inf("+"), at
		case token.SUB:
			return inf("-"), at
		case token.MUL:
			return inf("*"), at
		case token.QUO:
			return "(← Go.quoU " + a + " " + b + ")", at
		case token.REM:
			return "(← Go.remU " + a + " " + b + ")", at
		case token.AND:
			return inf("&&&"), at
		case token.OR:
			return inf("|||"), at
		case token.XOR:
			return inf("^^^"), at
		case token.AND_NOT:
			return "(" + a + " &&& ~~~" + b + ")", at
		case token.SHL:
			return p("Go.shlU", a, b), at
		case token.SHR:
			return p("Go.shrUU", a, b), at
		case token.LSS:
			return p("BitVec.ult", a, b), TBool
		case token.LEQ:
			return p("BitVec.ule", a, b), TBool
		case token.GTR:
			return p("BitVec.ult", b, a), TBool
		case token.GEQ:
			return p("BitVec.ule", b, a), TBool
		case token.EQL:
			return inf("=="), TBool
		case token.NEQ:
			return inf("!="), TBool
		}
	case TFloat:
		switch op {
		case token.ADD:
			return p("F.add", a, b), at
		case token.SUB:
			return p("F.sub", a, b), at
		case token.MUL:
			return p("F.mul", a, b), at
		case token.QUO:
			return p("F.div", a, b), at
		case token.LSS:
			return p("Go.flt", a, b), TBool
		case token.LEQ:
			return p("Go.fle", a, b), TBool
		case token.GTR:
			return p("Go.flt", b, a), TBool
		case token.GEQ:
			return p("Go.fle", b, a), TBool
		case token.EQL:
			return p("Go.feq", a, b), TBool
		case token.NEQ:
			return "(!" + p("Go.feq", a, b) + ")", TBool
		}
	case TBool:
		switch op {
		case token.EQL:
			return inf("=="), TBool
		case token.NEQ:
			return inf("!="), TBool
		}
	case TString, TBytes:
		switch op {
		case token.ADD:
			return inf("++"), at
		case token.LSS:
			return p("Go.bytesLt", a, b), TBool
		case token.LEQ:
			return p("Go.bytesLe", a, b), TBool
		case token.GTR:
			return p("Go.bytesLt", b, a), TBool
		case token.GEQ:
			return p("Go.bytesLe", b, a), TBool
		case token.EQL:
			return inf("=="), TBool
		case token.NEQ:
			return inf("!="), TBool
		}
	case TGoInt:
		switch op {
		case token.EQL:
			return inf("=="), TBool
		case token.ADD:
			return inf("+"), TGoInt
		}
	case TTok:
		switch op {
		case token.EQL:
			return inf("=="), TBool
		}
	case TVal:
		// right == Undefined
		if op == token.EQL && b == ".undefined" {
			return "(match " + a + " with | .undefined => true | _ => false)", TBool
		}
	}
	fail(x.Pos(), "operator %s on %s", op, at)
	return "", TNone
}

func conv(le string, from, to Ty, pos token.Pos) string {
	if from == to {
		return le
	}
	p := func(f string) string { return "(" + f + " " + le + ")" }
	switch from {
	case TInt:
		switch to {
		case TUint:
			return le
		case TFloat:
			return p("F.ofInt")
		case TChar:
			return p("BitVec.setWidth 32")
		}
	case TUint:
		switch to {
		case TInt:
			return le
		case TFloat:
			return p("F.ofUint")
		case TChar:
			return p("BitVec.setWidth 32")
		}
	case TChar:
		switch to {
		case TInt, TUint:
			return p("BitVec.signExtend 64")
		case TFloat:
			return "(F.ofInt (BitVec.signExtend 64 " + le + "))"
		}
	case TString:
		if to == TBytes {
			return le
		}
	case TBytes:
		if to == TString {
			return le
		}
	}
	fail(pos, "conversion %s -> %s", from, to)
	return ""
}

func (t *Tr) call(x *ast.CallExpr, env Env, want Ty) (string, Ty) {
	// conversion T(e)
	if ty, ok := goTypeName(x.Fun); ok && len(x.Args) == 1 {
		if isUntyped(x.Args[0]) {
			return t.expr(x.Args[0], env, ty)
		}
		le, lt := t.expr(x.Args[0], env, ty)
		if lt == TVal {
			fail(x.Pos(), "conversion of interface value")
		}
		return conv(le, lt, ty, x.Pos()), ty
	}
	if sel, ok := x.Fun.(*ast.SelectorExpr); ok && sel.Sel.Name == "IsFalsy" && len(x.Args) == 0 {
		if id, ok := sel.X.(*ast.Ident); ok && id.Name == "Undefined" {
			return "true", TBool
		}
		le, lt := t.expr(sel.X, env, TNone)
		switch lt {
		case TInt, TUint:
			return "(" + le + " == (0#64))", TBool
		case TChar:
			return "(" + le + " == (0#32))", TBool
		case TFloat:
			return "(Go.F64.isNaN " + le + ")", TBool
		case TString, TBytes:
			return "(" + le + ".isEmpty)", TBool
		case TBool:
			return "(!" + le + ")", TBool
		case TVal:
			return "(isFalsy " + le + ")", TBool
		}
		fail(x.Pos(), "IsFalsy on %s", lt)
	}
	switch f := x.Fun.(type) {
	case *ast.Ident:
		switch f.Name {
		case "append":
			if len(x.Args) == 2 && x.Ellipsis != token.NoPos {
				a, at := t.expr(x.Args[0], env, TNone)
				b, bt := t.expr(x.Args[1], env, TNone)
				if (at == TBytes) && (bt == TBytes || bt == TString) {
					return "(" + a + " ++ " + b + ")", TBytes
				}
			}
		case "len":
			a, at := t.expr(x.Args[0], env, TNone)
			if at == TString || at == TBytes {
				return "(" + a + ".length : Int)", TGoInt
			}
		}
	case *ast.SelectorExpr:
		if id, ok := f.X.(*ast.Ident); ok {
			if id.Name == "bytes" && f.Sel.Name == "Compare" {
				a, at := t.expr(x.Args[0], env, TNone)
				b, bt := t.expr(x.Args[1], env, TNone)
				if at == TBytes && bt == TBytes {
					return "(Go.bytesCompare " + a + " " + b + ")", TGoInt
				}
			}
			if b, ok := env[id.Name]; ok && f.Sel.Name == "String" && len(x.Args) == 0 {
				if b.ty == TString { // strings.Builder
					return b.lean, TString
				}
				if b.ty == TVal {
					return "(S.toStr " + b.lean + ")", TString
				}
			}
		}
	}
	fail(x.Pos(), "call")
	return "", TNone
}

// SortedKeys is a helper for deterministic output.
func SortedKeys(m map[string]bool) []string {
	var ks []string
	for k := range m {
		ks = append(ks, k)
	}
	sort.Strings(ks)
	return ks
}

// NewEnv returns an empty environment.
func NewEnv() Env { return Env{} }

// Bind adds a variable.
func (e Env) Bind(name, lean string, ty Ty) { e[name] = binding{lean: lean, ty: ty} }

// BindNarrow adds an interface-typed variable with a statically known dynamic type.
func (e Env) BindNarrow(name, lean string, ty Ty, inner string) {
	e[name] = binding{lean: lean, ty: TVal, narrowTy: ty, narrowLean: inner}
}
