// Package astenc ships the real parser's AST (with Pos values) to the Lean models
// as an S-expression.  The scanner and parser are not modelled: the Lean compiler,
// optimizer and reference-semantics models start at this AST.
package astenc

import (
	"encoding/hex"
	"fmt"
	"math"
	"strings"

	"github.com/ozanh/ugo/parser"
)

type enc struct {
	sb  strings.Builder
	err error
}

// File renders a parsed file; error if it contains a node kind outside the format.
func File(f *parser.File) (string, error) {
	e := &enc{}
	e.sb.WriteString("(file")
	for _, s := range f.Stmts {
		e.sb.WriteByte(' ')
		e.stmt(s)
	}
	e.sb.WriteString(")")
	return e.sb.String(), e.err
}

func (e *enc) w(f string, a ...any) { fmt.Fprintf(&e.sb, f, a...) }

func hx(s string) string {
	if s == "" {
		return "-"
	}
	return hex.EncodeToString([]byte(s))
}

func (e *enc) optExpr(x parser.Expr) {
	if x == nil {
		e.sb.WriteString("nil")
		return
	}
	e.expr(x)
}

func (e *enc) exprs(xs []parser.Expr) {
	e.sb.WriteString("(")
	for i, x := range xs {
		if i > 0 {
			e.sb.WriteByte(' ')
		}
		e.expr(x)
	}
	e.sb.WriteString(")")
}

func (e *enc) block(b *parser.BlockStmt) {
	if b == nil {
		e.sb.WriteString("nil")
		return
	}
	e.w("(block %d", int(b.Pos()))
	for _, s := range b.Stmts {
		e.sb.WriteByte(' ')
		e.stmt(s)
	}
	e.sb.WriteString(")")
}

func (e *enc) expr(x parser.Expr) {
	p := 0
	if x != nil {
		p = int(x.Pos())
	}
	switch n := x.(type) {
	case *parser.IntLit:
		e.w("(int %d %016x)", p, uint64(n.Value))
	case *parser.UintLit:
		e.w("(uint %d %016x)", p, n.Value)
	case *parser.FloatLit:
		e.w("(float %d %016x)", p, math.Float64bits(n.Value))
	case *parser.CharLit:
		e.w("(char %d %08x)", p, uint32(n.Value))
	case *parser.BoolLit:
		v := 0
		if n.Value {
			v = 1
		}
		e.w("(bool %d %d)", p, v)
	case *parser.StringLit:
		e.w("(str %d %s)", p, hx(n.Value))
	case *parser.UndefinedLit:
		e.w("(undef %d)", p)
	case *parser.Ident:
		e.w("(id %d %s)", p, hx(n.Name))
	case *parser.ArrayLit:
		e.w("(arr %d ", p)
		e.exprs(n.Elements)
		e.sb.WriteString(")")
	case *parser.MapLit:
		e.w("(map %d (", p)
		for i, el := range n.Elements {
			if i > 0 {
				e.sb.WriteByte(' ')
			}
			e.w("(%s ", hx(el.Key))
			e.expr(el.Value)
			e.sb.WriteString(")")
		}
		e.sb.WriteString("))")
	case *parser.UnaryExpr:
		e.w("(un %d %d ", p, int(n.Token))
		e.expr(n.Expr)
		e.sb.WriteString(")")
	case *parser.BinaryExpr:
		e.w("(bin %d %d ", p, int(n.Token))
		e.expr(n.LHS)
		e.sb.WriteByte(' ')
		e.expr(n.RHS)
		e.sb.WriteString(")")
	case *parser.CondExpr:
		e.w("(cond %d ", p)
		e.expr(n.Cond)
		e.sb.WriteByte(' ')
		e.expr(n.True)
		e.sb.WriteByte(' ')
		e.expr(n.False)
		e.sb.WriteString(")")
	case *parser.ParenExpr:
		e.w("(paren %d ", p)
		e.expr(n.Expr)
		e.sb.WriteString(")")
	case *parser.IndexExpr:
		e.w("(idx %d ", p)
		e.expr(n.Expr)
		e.sb.WriteByte(' ')
		e.expr(n.Index)
		e.sb.WriteString(")")
	case *parser.SelectorExpr:
		e.w("(sel %d ", p)
		e.expr(n.Expr)
		e.sb.WriteByte(' ')
		e.expr(n.Sel)
		e.sb.WriteString(")")
	case *parser.SliceExpr:
		e.w("(slice %d ", p)
		e.expr(n.Expr)
		e.sb.WriteByte(' ')
		e.optExpr(n.Low)
		e.sb.WriteByte(' ')
		e.optExpr(n.High)
		e.sb.WriteString(")")
	case *parser.CallExpr:
		el := 0
		if n.Ellipsis.IsValid() {
			el = 1
		}
		e.w("(call %d %d ", p, el)
		e.expr(n.Func)
		e.sb.WriteByte(' ')
		e.exprs(n.Args)
		e.sb.WriteString(")")
	case *parser.FuncLit:
		va := 0
		if n.Type.Params.VarArgs {
			va = 1
		}
		e.w("(func %d %d (", p, va)
		for i, id := range n.Type.Params.List {
			if i > 0 {
				e.sb.WriteByte(' ')
			}
			e.sb.WriteString(hx(id.Name))
		}
		e.sb.WriteString(") ")
		e.block(n.Body)
		e.sb.WriteString(")")
	case *parser.ImportExpr:
		e.w("(import %d %s)", p, hx(n.ModuleName))
	default:
		e.err = fmt.Errorf("astenc: unsupported expression %T", x)
		e.sb.WriteString("(bad)")
	}
}

func (e *enc) optStmt(s parser.Stmt) {
	if s == nil {
		e.sb.WriteString("nil")
		return
	}
	e.stmt(s)
}

func (e *enc) stmt(s parser.Stmt) {
	p := 0
	if s != nil {
		p = int(s.Pos())
	}
	switch n := s.(type) {
	case *parser.ExprStmt:
		e.w("(expr %d ", p)
		e.expr(n.Expr)
		e.sb.WriteString(")")
	case *parser.AssignStmt:
		e.w("(assign %d %d ", p, int(n.Token))
		e.exprs(n.LHS)
		e.sb.WriteByte(' ')
		e.exprs(n.RHS)
		e.sb.WriteString(")")
	case *parser.IncDecStmt:
		e.w("(incdec %d %d %d ", p, int(n.Token), int(n.TokenPos))
		e.expr(n.Expr)
		e.sb.WriteString(")")
	case *parser.BlockStmt:
		e.block(n)
	case *parser.IfStmt:
		e.w("(if %d ", p)
		e.optStmt(n.Init)
		e.sb.WriteByte(' ')
		e.expr(n.Cond)
		e.sb.WriteByte(' ')
		e.block(n.Body)
		e.sb.WriteByte(' ')
		e.optStmt(n.Else)
		e.sb.WriteString(")")
	case *parser.ForStmt:
		e.w("(for %d ", p)
		e.optStmt(n.Init)
		e.sb.WriteByte(' ')
		e.optExpr(n.Cond)
		e.sb.WriteByte(' ')
		e.optStmt(n.Post)
		e.sb.WriteByte(' ')
		e.block(n.Body)
		e.sb.WriteString(")")
	case *parser.ForInStmt:
		e.w("(forin %d %s %s ", p, hx(n.Key.Name), hx(n.Value.Name))
		e.expr(n.Iterable)
		e.sb.WriteByte(' ')
		e.block(n.Body)
		e.sb.WriteString(")")
	case *parser.BranchStmt:
		e.w("(branch %d %d)", p, int(n.Token))
	case *parser.ReturnStmt:
		e.w("(return %d ", p)
		e.optExpr(n.Result)
		e.sb.WriteString(")")
	case *parser.TryStmt:
		e.w("(try %d ", p)
		e.block(n.Body)
		e.sb.WriteByte(' ')
		if n.Catch != nil {
			id := "nil"
			if n.Catch.Ident != nil {
				id = hx(n.Catch.Ident.Name)
			}
			e.w("(catch %d %s ", int(n.Catch.Pos()), id)
			e.block(n.Catch.Body)
			e.sb.WriteString(")")
		} else {
			e.sb.WriteString("nil")
		}
		e.sb.WriteByte(' ')
		if n.Finally != nil {
			e.w("(finally %d ", int(n.Finally.Pos()))
			e.block(n.Finally.Body)
			e.sb.WriteString(")")
		} else {
			e.sb.WriteString("nil")
		}
		e.sb.WriteString(")")
	case *parser.ThrowStmt:
		e.w("(throw %d ", p)
		e.optExpr(n.Expr)
		e.sb.WriteString(")")
	case *parser.DeclStmt:
		gd, ok := n.Decl.(*parser.GenDecl)
		if !ok {
			e.err = fmt.Errorf("astenc: bad declaration")
			e.sb.WriteString("(bad)")
			return
		}
		e.w("(decl %d %d", p, int(gd.Tok))
		for _, sp := range gd.Specs {
			switch spec := sp.(type) {
			case *parser.ParamSpec:
				va := 0
				if spec.Variadic {
					va = 1
				}
				e.w(" (param %d %s %d)", int(spec.Ident.Pos()), hx(spec.Ident.Name), va)
			case *parser.ValueSpec:
				iota := -1
				if v, ok := spec.Data.(int); ok {
					iota = v
				}
				e.w(" (value %d (", iota+1)
				for i, id := range spec.Idents {
					if i > 0 {
						e.sb.WriteByte(' ')
					}
					e.w("(%d %s)", int(id.Pos()), hx(id.Name))
				}
				e.sb.WriteString(") (")
				for i, v := range spec.Values {
					if i > 0 {
						e.sb.WriteByte(' ')
					}
					e.optExpr(v)
				}
				e.sb.WriteString("))")
			}
		}
		e.sb.WriteString(")")
	case *parser.EmptyStmt:
		e.w("(empty %d)", p)
	case *parser.CatchStmt, *parser.FinallyStmt:
		e.err = fmt.Errorf("astenc: stray %T", s)
		e.sb.WriteString("(bad)")
	default:
		e.err = fmt.Errorf("astenc: unsupported statement %T", s)
		e.sb.WriteString("(bad)")
	}
}
