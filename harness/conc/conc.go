// Package conc is the C08 workload: programs that share one compiled Bytecode
// between many VMs (closures, source and builtin module imports, thrown errors
// formatted with stack traces, callbacks through pooled child VMs).  It is used
// in-process by the `concurrent` stream of cmd/corr and, built with -race, by
// cmd/racechild.
package conc

import (
	"bytes"
	"runtime"

	"fmt"
	"github.com/ozanh/ugo/encoder"
	"sort"
	"strings"
	"sync"
	"time"

	"github.com/ozanh/ugo"
	ugostrings "github.com/ozanh/ugo/stdlib/strings"
	ugotime "github.com/ozanh/ugo/stdlib/time"

	"verifharness/codec"
	"verifharness/gen"
)

// Case is one program with everything needed to compile and run it.
type Case struct {
	Family  string
	Src     string
	Mods    map[string]string // source modules (name -> text)
	Builtin bool              // module map also carries strings and time
	Recover bool
	// ModelOK: the script uses nothing but what the Lean VM model supports (no imports,
	// no host objects); its solo run is also compared with the model.
	ModelOK bool
	// Decoded: the Bytecode the VMs share went through encode/decode (its file set has no cached
	// last file, function objects are fresh): lazily restored caches are then first filled while
	// the VMs run.
	Decoded bool
}

// ModuleMap builds a new module map for the case (compile time only).
func (c *Case) ModuleMap() *ugo.ModuleMap {
	mm := ugo.NewModuleMap()
	names := make([]string, 0, len(c.Mods))
	for n := range c.Mods {
		names = append(names, n)
	}
	sort.Strings(names)
	for _, n := range names {
		mm.AddSourceModule(n, []byte(c.Mods[n]))
	}
	if c.Builtin {
		mm.AddBuiltinModule("strings", ugostrings.Module)
		mm.AddBuiltinModule("time", ugotime.Module)
		mm.AddBuiltinModule("vmod", VMod())
		AddObjMods(mm)
	}
	return mm
}

// VMod is a builtin (Go) module whose attributes are mutable containers of every kind a script
// can update IN PLACE (array, map, bytes, nested containers, sync-map) next to scalars and a
// function: each VM must get its own deep copy of all of them (C08), and no run may write
// through to the module constant of the Bytecode (C07).  A fresh value per call.
func VMod() map[string]ugo.Object {
	return map[string]ugo.Object{
		"n":    ugo.Int(1),
		"arr":  ugo.Array{ugo.Int(0), ugo.Int(0), ugo.Int(0)},
		"m":    ugo.Map{"k": ugo.Int(0)},
		"by":   ugo.Bytes{0, 0, 0, 0},
		"deep": ugo.Map{"a": ugo.Array{ugo.Map{"x": ugo.Int(0)}, ugo.Bytes{7}}},
		"sm":   &ugo.SyncMap{Value: ugo.Map{"k": ugo.Int(0)}},
		"em":   ugo.Map{}, // EMPTY containers must be copied per VM as well
		"ea":   ugo.Array{},
		"eb":   ugo.Bytes{},
		"esm":  &ugo.SyncMap{Value: ugo.Map{}}, // empty but not nil
		"wrap": ugo.Map{"inner": ugo.Map{}, "list": ugo.Array{ugo.Map{}}},
		"inc":  &ugo.Function{Name: "inc", Value: func(args ...ugo.Object) (ugo.Object, error) { return ugo.Int(len(args) + 1), nil }},
	}
}

// ObjImportable is a module whose Import returns one object that is NOT a map of attributes: an array,
// bytes or a sync-map handed out as the module value itself.  OpStoreModule must give every VM its
// own Copy() of it as well.
type ObjImportable struct{ New func() ugo.Object }

// Import implements ugo.Importable.
func (o ObjImportable) Import(string) (any, error) { return o.New(), nil }

// AddObjMods registers the object modules: "objarr", "objbytes", "objsync" and "objmods" (a source
// module that imports the three and returns them in a map).
func AddObjMods(mm *ugo.ModuleMap) {
	mm.Add("objarr", ObjImportable{func() ugo.Object { return ugo.Array{ugo.Int(1), ugo.Int(2), ugo.Int(3)} }})
	mm.Add("objbytes", ObjImportable{func() ugo.Object { return ugo.Bytes{1, 2, 3} }})
	mm.Add("objsync", ObjImportable{func() ugo.Object {
		return &ugo.SyncMap{Value: ugo.Map{"k": ugo.Int(0), "nest": ugo.Array{ugo.Int(1), ugo.Map{"x": ugo.Int(0)}}, "by": ugo.Bytes{5}}}
	}})
	mm.AddSourceModule("objmods", []byte(`return {arr: import("objarr"), by: import("objbytes"), sm: import("objsync")}`))
}

// Compile compiles the case with the real compiler.
func (c *Case) Compile(noOpt bool) (*ugo.Bytecode, error) {
	bc, err := ugo.Compile([]byte(c.Src), ugo.CompilerOptions{ModuleMap: c.ModuleMap(), NoOptimize: noOpt})
	if err != nil || !c.Decoded {
		return bc, err
	}
	var buf bytes.Buffer
	if err := encoder.EncodeBytecodeTo(bc, &buf); err != nil {
		return bc, nil // not encodable: share the compiled one
	}
	dec, err := encoder.DecodeBytecodeFrom(&buf, c.ModuleMap())
	if err != nil {
		return bc, nil
	}
	return dec, nil
}

// CompileAny compiles with the optimizer and, when constant folding rejects the script
// (generated scripts contain ill-typed constant expressions), without it.
func (c *Case) CompileAny() (bc *ugo.Bytecode, noOpt bool, err error) {
	bc, err = c.Compile(false)
	if err != nil {
		bc, err = c.Compile(true)
		noOpt = true
	}
	return
}

// Args are the arguments VM number id passes (every script starts with `param (n, s)`).
func Args(id int) []ugo.Object {
	return []ugo.Object{ugo.Int(id), ugo.String(fmt.Sprintf("v%d", id))}
}

// Outcome is the canonical result of one run: value or (Name, Message) of the error,
// the error formatted with %+v (uGO stack trace; Go stacks cut), and the final globals.
func Outcome(ret ugo.Object, err error, pv any, globals ugo.Object) string {
	var sb strings.Builder
	switch {
	case pv != nil:
		sb.WriteString("panic")
	case err != nil:
		switch e := err.(type) {
		case *ugo.RuntimeError:
			if e.Err != nil {
				sb.WriteString("err " + codec.Hex([]byte(e.Err.Name)) + " " + codec.Hex([]byte(e.Err.Message)))
			} else {
				sb.WriteString("err nil")
			}
		case *ugo.Error:
			sb.WriteString("err " + codec.Hex([]byte(e.Name)) + " " + codec.Hex([]byte(e.Message)))
		default:
			if strings.HasPrefix(err.Error(), "panic:") {
				sb.WriteString("goerr panic")
			} else {
				sb.WriteString("goerr " + err.Error())
			}
		}
		// the formatted error with its stack trace (this is what reads the shared file set)
		txt := fmt.Sprintf("%+v", err)
		if i := strings.Index(txt, "\nGo Stack:"); i >= 0 {
			txt = txt[:i]
		}
		sb.WriteString(" fmt=" + codec.Hex([]byte(txt)))
	default:
		sb.WriteString("val " + codec.Encode(ret, nil))
	}
	sb.WriteString(" globals=")
	if globals == nil {
		sb.WriteString("onil:0")
	} else {
		sb.WriteString(codec.Encode(globals, nil))
	}
	return sb.String()
}

// RunOne runs bc on a new VM with its own globals.
func RunOne(bc *ugo.Bytecode, rec bool, id int) (out string) {
	vm := ugo.NewVM(bc).SetRecover(rec)
	g := ugo.Map{}
	var ret ugo.Object
	var err error
	var pv any
	func() {
		defer func() { pv = recover() }()
		ret, err = vm.Run(g, Args(id)...)
	}()
	return Outcome(ret, err, pv, g)
}

// StepLimit: cases whose solo runs need more instructions are not run concurrently (a
// generated script may loop without end; the concurrent phase has no per-VM step hook).
const StepLimit = 100000

// Bounded reports whether the solo runs of all n VMs end within StepLimit instructions
// (H1 trace hook, build tag verif; must not be called while other VMs run).
func Bounded(bc *ugo.Bytecode, rec bool, n int) bool {
	for id := 0; id < n; id++ {
		vm := ugo.NewVM(bc).SetRecover(rec)
		steps, over := 0, false
		ugo.VerifTraceHook = func(fi, ip, sp, nh int, op byte) {
			steps++
			if steps == StepLimit {
				over = true
				vm.Abort()
			}
		}
		func() {
			defer func() { _ = recover() }()
			_, _ = vm.Run(ugo.Map{}, Args(id)...)
		}()
		ugo.VerifTraceHook = nil
		if over {
			return false
		}
	}
	return true
}

// Diff is a run whose result differs from the solo run with the same arguments.
type Diff struct {
	Family string `json:"family"`
	Src    string `json:"src"`
	ID     int    `json:"id"`
	Solo   string `json:"solo"`
	Conc   string `json:"concurrent"`
}

// RunConcurrent runs bc on n goroutines (each: its own VMs, its own globals, k runs)
// and reports every result that differs from the solo result for the same arguments.
//
// The solo results are computed on a SEPARATE compilation of the same script: the Bytecode the
// goroutines share is executed for the first time by the concurrent phase itself, so that state
// initialised lazily on first use (caches, memo tables hanging off shared objects) is initialised
// concurrently and not warmed up by the solo runs.
func RunConcurrent(c *Case, bc *ugo.Bytecode, n, k int) (solo []string, diffs []Diff) {
	solo = make([]string, n)
	soloBc := bc
	if fresh, _, err := c.CompileAny(); err == nil {
		soloBc, bc = bc, fresh
	}
	for i := 0; i < n; i++ {
		solo[i] = RunOne(soloBc, c.Recover, i)
	}
	res := make([][]string, n)
	var wg sync.WaitGroup
	start := make(chan struct{})
	for i := 0; i < n; i++ {
		wg.Add(1)
		go func(i int) {
			defer wg.Done()
			<-start
			for j := 0; j < k; j++ {
				res[i] = append(res[i], RunOne(bc, c.Recover, i))
			}
		}(i)
	}
	close(start)
	wg.Wait()
	for i := 0; i < n; i++ {
		for _, r := range res[i] {
			if r != solo[i] {
				diffs = append(diffs, Diff{Family: c.Family, Src: c.Src, ID: i, Solo: solo[i], Conc: r})
				break
			}
		}
	}
	// and the solo result is reproduced after the concurrent phase (the Bytecode was not changed)
	for i := 0; i < n; i++ {
		if r := RunOne(bc, c.Recover, i); r != solo[i] {
			diffs = append(diffs, Diff{Family: c.Family + "/after", Src: c.Src, ID: i, Solo: solo[i], Conc: r})
			break
		}
	}
	return solo, diffs
}

// PrivacyProbe: one VM assigns a key of an imported builtin module, another VM running
// the same Bytecode (afterwards, and concurrently) must not see it.
func PrivacyProbe(mod string, concurrent bool) (leak string) {
	c := &Case{Builtin: true, Src: fmt.Sprintf(`
param (n, s)
m := import(%q)
seen := m.verifMark
if n == 0 {
	m.verifMark = "written by vm 0"
	m.ToUpper = "overwritten"
}
return [seen, typeName(m.ToUpper), typeName(m.Second)]
`, mod)}
	bc, err := c.Compile(false)
	if err != nil {
		return "probe does not compile: " + err.Error()
	}
	want := RunOne(bc, false, 1)
	if concurrent {
		var wg sync.WaitGroup
		outs := make([]string, 8)
		for i := 0; i < 8; i++ {
			wg.Add(1)
			go func(i int) {
				defer wg.Done()
				for j := 0; j < 20; j++ {
					o := RunOne(bc, false, i%2)
					if i%2 == 1 && o != want {
						outs[i] = o
					}
				}
			}(i)
		}
		wg.Wait()
		for _, o := range outs {
			if o != "" {
				return "vm 1 got " + o + " want " + want
			}
		}
	} else {
		RunOne(bc, false, 0)
	}
	if o := RunOne(bc, false, 1); o != want {
		return "after vm 0 mutated the module, vm 1 got " + o + " want " + want
	}
	return ""
}

// ---------------------------------------------------------------------------
// program families

const hdr = "param (n, s)\n"

func closures(r *gen.Rand) *Case {
	k := 1 + r.Intn(5)
	d := 1 + r.Intn(3)
	var sb strings.Builder
	sb.WriteString(hdr)
	sb.WriteString(fmt.Sprintf("mk := func(k) { c := k; return func(...a) { c += n + len(a); return c } }\n"))
	sb.WriteString("fs := []\n")
	sb.WriteString(fmt.Sprintf("for i := 0; i < %d; i++ { fs = append(fs, mk(i * %d)) }\n", k+1, d))
	sb.WriteString("out := []\n")
	sb.WriteString("for f in fs { f(); out = append(out, f(1, 2)) }\n")
	if r.Bool() {
		sb.WriteString("var fib\nfib = func(x) { if x < 2 { return x }; return fib(x-1) + fib(x-2) }\nout = append(out, fib(n + 5))\n")
	}
	if r.Bool() {
		sb.WriteString("global g\ng = out\n")
	}
	sb.WriteString("return out\n")
	return &Case{Family: "closures", Src: sb.String(), ModelOK: true}
}

func srcModules(r *gen.Rand) *Case {
	inc := 1 + r.Intn(4)
	mods := map[string]string{
		"cnt": fmt.Sprintf(`
state := {n: 0, log: []}
return {
	state: state,
	inc: func(d) { state.n += d * %d; state.log = append(state.log, d); return state.n },
	get: func() { return state.n },
}`, inc),
		"mid": `
cnt := import("cnt")
cnt.inc(100)
return {bump: func(x) { return cnt.inc(x) + 1 }, cnt: cnt}`,
	}
	var sb strings.Builder
	sb.WriteString(hdr)
	sb.WriteString("cnt := import(\"cnt\")\nmid := import(\"mid\")\n")
	sb.WriteString(fmt.Sprintf("for i := 0; i < %d; i++ { cnt.inc(n) }\n", 1+r.Intn(4)))
	sb.WriteString("mid.bump(n)\ncnt.state.extra = s\n")
	if r.Bool() {
		sb.WriteString("f := func() { c2 := import(\"cnt\"); return c2.get() }\nx := f()\n")
	} else {
		sb.WriteString("x := mid.cnt.get()\n")
	}
	sb.WriteString("return [x, cnt.get(), cnt.state, import(\"cnt\").state.n]\n")
	return &Case{Family: "source-modules", Src: sb.String(), Mods: mods}
}

func builtinModules(r *gen.Rand) *Case {
	var sb strings.Builder
	sb.WriteString(hdr)
	sb.WriteString("strings := import(\"strings\")\ntime := import(\"time\")\n")
	sb.WriteString("out := []\n")
	exprs := []string{
		`strings.ToUpper(s + "ab")`, `strings.Repeat(s, n %% 3 + 1)`, `strings.Split("a,b,c" + s, ",")`,
		`strings.Contains(s, "1")`, `strings.Join([s, "x", s], "-")`, `strings.Index(s + s, s)`,
		`time.Second * n`, `time.DurationString(time.Minute * (n + 1))`, `strings.Fields(" a " + s + " b ")`,
		`strings.TrimSpace("  " + s + " ")`, `strings.Title(s)`, `time.MonthString(n %% 12 + 1)`,
	}
	for i, cnt := 0, 2+r.Intn(5); i < cnt; i++ {
		sb.WriteString("out = append(out, " + fmt.Sprintf(exprs[r.Intn(len(exprs))]) + ")\n")
	}
	if r.Bool() {
		// a script may change its own copy of the module
		sb.WriteString("strings.mine = n\nstrings.ToLower = func(x) { return x + \"!\" }\nout = append(out, strings.mine, strings.ToLower(s))\n")
	}
	sb.WriteString("return out\n")
	return &Case{Family: "builtin-modules", Src: sb.String(), Builtin: true}
}

// builtinContainers: every VM updates the container attributes of its copy of `vmod` in place, by
// amounts that depend on its own arguments, and returns what it sees; the solo result is the
// result of a VM that is alone with a pristine module.
func builtinContainers(r *gen.Rand) *Case {
	var sb strings.Builder
	sb.WriteString(hdr)
	sb.WriteString("v := import(\"vmod\")\nout := []\n")
	ops := []string{
		"v.arr[0] += n + 1\nv.arr[2] = s\n",
		"v.m.k += n + 1\nv.m[s] = n\n",
		"v.by[0] = n + 1\nv.by[3] = 255 - n\n",
		"v.deep.a[0].x += n + 1\nv.deep.a[1][0] = n + 9\n",
		"v.sm.k = n + 1\nv.sm[s] = n\n",
		"v.n += n\n",
		"v.em[s] = n + 1\nout = append(out, len(v.em), v.em[s])\n",
		"v.wrap.inner[s] = n\nv.wrap.list[0].k = n + 2\nout = append(out, len(v.wrap.inner), v.wrap.list[0].k)\n",
		"v.ea = append(v.ea, n)\nout = append(out, v.ea)\n",
		"v.esm[s] = n + 1\nout = append(out, len(v.esm), v.esm[s])\n",
		"if true {\no := import(\"objmods\")\no.arr[0] += n + 1\no.by[1] = n\no.sm[s] = n\nout = append(out, o.arr, o.by, len(o.sm))\n}\n",
		"w := import(\"vmod\")\nw.arr[1] = n + 5\nout = append(out, v.arr[1])\n",
	}
	k := 2 + r.Intn(5)
	for i := 0; i < k; i++ {
		sb.WriteString(ops[r.Intn(len(ops))])
	}
	if r.Bool() {
		sb.WriteString("for i := 0; i < 50; i++ { v.arr[1] += 1; v.by[1] = (v.by[1] + 1) % 200; v.m.k += 1 }\n")
	}
	sb.WriteString("out = append(out, v.n, v.arr, v.m.k, v.by, v.deep.a[0].x, v.deep.a[1], v.sm.k, v.inc(1, 2), len(v.em), len(v.esm), len(v.wrap.inner), len(v.wrap.list[0]))\nreturn out\n")
	return &Case{Family: "builtin-containers", Src: sb.String(), Builtin: true}
}

// sharedLibraryState: what all VMs of the process share besides the Bytecode - the library's own error
// values (a caught runtime error wraps ErrZeroDivision, ErrIndexOutOfBounds, ... themselves), the time
// module's location cache, main's variadic parameter array - must not be written by a run: a script that
// annotates a caught error (e.New), loads time zones or updates its own argument array sees what it
// sees when it is alone, and the library errors keep their pristine text.
func sharedLibraryState(r *gen.Rand) *Case {
	var sb strings.Builder
	sb.WriteString("param (n, s, ...rest)\ntime := import(\"time\")\nout := []\n")
	ops := []string{
		"try { x := n / (n - n) } catch e { e2 := e.New(\"ratio \" + s); out = append(out, string(e2)) }\n",
		"try { y := 1 / (n - n) } catch e { out = append(out, string(e)) }\n",
		"try { z := [1][n + 5] } catch e { e3 := e.New(\"idx \" + s); out = append(out, string(e3), string(e)) }\n",
		"try { z := [1][7] } catch e { out = append(out, string(e)) }\n",
		"try { q := 1 + [] } catch e { e4 := e.New(\"type \" + s); out = append(out, string(e4)) }\n",
		"try { q := 2 + {} } catch e { out = append(out, string(e)) }\n",
		"out = append(out, string(time.LoadLocation([\"Europe/Berlin\", \"Asia/Tokyo\", \"America/New_York\", \"Africa/Cairo\", \"Australia/Sydney\", \"Asia/Kolkata\", \"America/Sao_Paulo\"][n % 7])))\n",
		"out = append(out, string(time.LoadLocation(\"Pacific/Auckland\")))\n",
		"rest = append(rest, s)\nout = append(out, len(rest))\n",
		"if len(rest) > 0 { rest[0] = s + \"!\" }\nout = append(out, rest)\n",
	}
	k := 3 + r.Intn(6)
	for i := 0; i < k; i++ {
		sb.WriteString(ops[r.Intn(len(ops))])
	}
	sb.WriteString("try { w := 5 % (n - n) } catch e { out = append(out, string(e)) }\nreturn out\n")
	return &Case{Family: "shared-library-state", Src: sb.String(), Builtin: true}
}

func errorsTraces(r *gen.Rand) *Case {
	depth := 1 + r.Intn(4)
	mods := map[string]string{
		"thrower": `
var fail
fail = func(msg, k) {
	if k <= 0 {
		throw error(msg)
	}
	return fail(msg, k-1) + 1
}
return {fail: fail, div: func(a, b) { return a / b }}`,
	}
	var sb strings.Builder
	sb.WriteString(hdr)
	sb.WriteString("t := import(\"thrower\")\n")
	sb.WriteString("wrap := func(k) {\n  try {\n    return t.fail(\"boom \" + s, k)\n  } finally {\n    n += 1\n  }\n}\n")
	switch r.Intn(4) {
	case 0:
		sb.WriteString(fmt.Sprintf("return wrap(%d)\n", depth))
	case 1:
		sb.WriteString(fmt.Sprintf("try { wrap(%d) } catch e { return string(e) + string(n) }\n", depth))
	case 2:
		sb.WriteString("x := t.div(n, n - n)\nreturn x\n")
	default:
		sb.WriteString(fmt.Sprintf("f := func() { return wrap(%d) }\ntry { f() } catch e { throw e }\n", depth))
	}
	return &Case{Family: "errors-traces", Src: sb.String(), Mods: mods, Recover: r.Bool(), Decoded: r.Bool()}
}

func callbacks(r *gen.Rand) *Case {
	var sb strings.Builder
	sb.WriteString(hdr)
	sb.WriteString("strings := import(\"strings\")\n")
	sb.WriteString("k := n % 3\ncalls := 0\n")
	sb.WriteString("out := []\n")
	pool := []string{
		`strings.Map(func(c) { calls++; return c + k }, "abc" + s)`,
		`strings.IndexFunc("xyz" + s, func(c) { calls++; return c == 'v' })`,
		`strings.FieldsFunc("a1b2c3" + s, func(c) { calls++; return c >= '0' && c <= '9' })`,
		`strings.TrimFunc("11" + s + "11", func(c) { calls++; return c == '1' })`,
		`strings.LastIndexFunc(s + "q", func(c) { calls++; return c == 'v' })`,
		`strings.TrimLeftFunc(s + s, func(c) { calls++; return c == 'v' })`,
	}
	for i, cnt := 0, 1+r.Intn(4); i < cnt; i++ {
		sb.WriteString("out = append(out, " + pool[r.Intn(len(pool))] + ")\n")
	}
	if r.Intn(3) == 0 {
		// a callback that throws: the error crosses the child VM
		sb.WriteString("try { strings.Map(func(c) { throw error(\"cb \" + s) }, \"ab\") } catch e { out = append(out, string(e)) }\n")
	}
	if r.Intn(3) == 0 {
		// nested: a callback that itself uses a callback
		sb.WriteString("out = append(out, strings.Map(func(c) { return strings.IndexFunc(s, func(d) { calls++; return d == c }) + 'a' }, \"v0x\"))\n")
	}
	sb.WriteString("return [out, calls]\n")
	return &Case{Family: "callbacks", Src: sb.String(), Builtin: true}
}

func generated(r *gen.Rand) *Case {
	o := gen.DefaultProgOpts()
	o.Floats = false
	// gen.Program declares `param (a0, a1)`: the same two positional arguments
	src := gen.Program(r, o)
	return &Case{Family: "generated", Src: src, ModelOK: true, Recover: r.Bool()}
}

// Generate returns n cases drawn from all families.
func Generate(r *gen.Rand, n int) []*Case {
	fams := []func(*gen.Rand) *Case{closures, srcModules, builtinModules, builtinContainers, errorsTraces, callbacks, generated, generated, sharedLibraryState}
	var cs []*Case
	for i := 0; i < n; i++ {
		f := fams[i%len(fams)]
		cs = append(cs, f(r.Fork()))
	}
	return cs
}

// AbortIsolation: aborting ONE VM while it runs a callback through a pooled child VM
// (strings.Map -> Invoker.Acquire/Release) must not disturb other VMs, neither while they run at
// the same time nor afterwards, when their callbacks take child VMs from the same global pool.
func AbortIsolation(rounds int) (problem string) {
	c := &Case{Builtin: true, Src: `
param (n, s)
strings := import("strings")
return strings.Map(func(ch) {
	for i := 0; i < n; i++ { }
	return ch
}, s + "abc")
`}
	bc, _, err := c.CompileAny()
	if err != nil {
		return "compile: " + err.Error()
	}
	run := func(vm *ugo.VM, n int, s string) string {
		ret, err := vm.Run(ugo.Map{}, ugo.Int(n), ugo.String(s))
		if err != nil {
			return "error: " + err.Error()
		}
		return ret.String()
	}
	for round := 0; round < rounds; round++ {
		// victim: a long callback, aborted while it runs
		victim := ugo.NewVM(bc)
		started := make(chan struct{})
		done := make(chan string, 1)
		go func() { close(started); done <- run(victim, 50000000, "victim") }()
		<-started
		others := make(chan string, 4)
		for k := 0; k < 4; k++ {
			go func(k int) { others <- run(ugo.NewVM(bc), 10, fmt.Sprintf("o%d", k)) }(k)
		}
		time.Sleep(20 * time.Millisecond)
		victim.Abort()
		select {
		case <-done:
		case <-time.After(10 * time.Second):
			return "the aborted VM did not return within 10 s"
		}
		for k := 0; k < 4; k++ {
			if r := <-others; !strings.HasSuffix(r, "abc") || strings.HasPrefix(r, "error") {
				return "a VM running concurrently with the aborted one returned " + r
			}
		}
		// afterwards: callbacks of other VMs draw child VMs from the same pool.  A sync.Pool keeps a
		// released object in the private slot of the P that released it, so the later runs are spread
		// over many goroutines (all Ps) to find it.
		for k := 0; k < 8; k++ {
			if r := run(ugo.NewVM(bc), 3, "later"); r != "laterabc" {
				return fmt.Sprintf("after another VM was aborted, a new VM's callback run returned %q (want \"laterabc\")", r)
			}
		}
		workers := 4 * runtime.GOMAXPROCS(0)
		bad := make(chan string, workers)
		var wg sync.WaitGroup
		for w := 0; w < workers; w++ {
			wg.Add(1)
			go func() {
				defer wg.Done()
				for k := 0; k < 40; k++ {
					if r := run(ugo.NewVM(bc), 3, "later"); r != "laterabc" {
						select {
						case bad <- r:
						default:
						}
						return
					}
					runtime.Gosched()
				}
			}()
		}
		wg.Wait()
		select {
		case r := <-bad:
			return fmt.Sprintf("after another VM was aborted, a new VM's callback run returned %q (want \"laterabc\")", r)
		default:
		}
	}
	return ""
}

// HostArgsProbe: a host may pass the SAME argument slice to several VMs (vm.Run(globals, args...)); a
// script that updates its own variadic parameter array must not be seen by the other VMs or the host.
func HostArgsProbe() (problem string) {
	for _, src := range []string{
		"param ...xs\nxs[0] = xs[0] + \"!\"\nxs = append(xs, 1)\nreturn xs",
		"param (a, ...xs)\nxs[1] = a\nreturn [a, xs]",
		"param (a, b)\na = b\nb = 0\nreturn [a, b]",
	} {
		bc, err := ugo.Compile([]byte(src), ugo.CompilerOptions{})
		if err != nil {
			return "compile: " + err.Error()
		}
		mk := func() []ugo.Object {
			a := make([]ugo.Object, 3, 8) // spare capacity: append in the script must not write into it either
			a[0], a[1], a[2] = ugo.String("a"), ugo.String("b"), ugo.String("c")
			return a
		}
		solo, err := ugo.NewVM(bc).Run(nil, mk()...)
		if err != nil {
			return "solo run: " + err.Error()
		}
		args := mk()
		for i := 0; i < 3; i++ {
			got, err := ugo.NewVM(bc).Run(nil, args...)
			if err != nil {
				return "run: " + err.Error()
			}
			if got.String() != solo.String() {
				return fmt.Sprintf("VM #%d given the slice an earlier VM was given returns %s, alone it returns %s", i+1, got, solo)
			}
		}
		if fmt.Sprint(args[:cap(args)][:4]) != fmt.Sprint(mk()[:4]) {
			return fmt.Sprintf("the host's argument slice was modified by the runs: %v", args[:cap(args)][:4])
		}
	}
	return ""
}

// ColdStartProbe: VMs that use, at the same time and for the FIRST time in the process, library
// facilities with process-wide state (time zones, error values, formatting) - whatever the library caches
// lazily must be filled under a lock.  Meant to run first in a new process under the race detector; the
// results are also compared with what each VM gets alone afterwards.
func ColdStartProbe(vms int) *Diff {
	zones := []string{"Europe/Berlin", "Asia/Tokyo", "America/New_York", "Africa/Cairo", "Australia/Sydney", "Asia/Kolkata", "America/Sao_Paulo", "Pacific/Auckland",
		"Europe/London", "Asia/Shanghai", "America/Chicago", "Africa/Lagos", "Europe/Moscow", "Asia/Dubai", "America/Denver", "Pacific/Honolulu"}
	c := &Case{Family: "cold-start", Builtin: true, Src: `param (n, s)
time := import("time")
strings := import("strings")
zones := ` + fmt.Sprintf("%q", zones) + `
out := []
for r := 0; r < 2; r++ {
	loc := time.LoadLocation(zones[(n + r * 8) % len(zones)])
	t := time.Date(2020, 2, 29, 12, 0, 0, 0, loc)
	out = append(out, string(loc), time.Format(t, "2006-01-02 15:04 MST"), sprintf("%05d|%-4s|%x", n, s, n * 255))
}
try { x := n / (n - n) } catch e { out = append(out, string(e)) }
out = append(out, strings.Title(s), strings.Repeat(s, 2))
return out
`}
	src := strings.Replace(c.Src, "[\"", "[\"", 1)
	src = strings.ReplaceAll(src, "\" \"", "\", \"") // %q of a []string prints no commas
	c.Src = src
	bc, _, err := c.CompileAny()
	if err != nil {
		return &Diff{Family: c.Family, Src: c.Src, Solo: "compile", Conc: err.Error()}
	}
	// stored version-1 files decoded for the first time in the process, concurrently (the converter's
	// tables): the container is the current one with the old version number in the header
	var v1data []byte
	if enc, err := (*encoder.Bytecode)(bc).MarshalBinary(); err == nil && len(enc) > 6 {
		v1data = enc
		v1data[4], v1data[5] = 0, byte(encoder.BytecodeVersion1)
	}
	res := make([]string, vms)
	var wg sync.WaitGroup
	start := make(chan struct{})
	for i := 0; i < vms; i++ {
		wg.Add(1)
		go func(i int) {
			defer wg.Done()
			defer func() { _ = recover() }()
			<-start
			if v1data != nil {
				var dec encoder.Bytecode
				_ = dec.UnmarshalBinary(append([]byte{}, v1data...))
			}
			res[i] = RunOne(bc, false, i)
		}(i)
	}
	close(start)
	wg.Wait()
	for i := 0; i < vms; i++ {
		if solo := RunOne(bc, false, i); solo != res[i] {
			return &Diff{Family: c.Family, Src: c.Src, ID: i, Solo: solo, Conc: res[i]}
		}
	}
	return nil
}

// NilGlobalsProbe: a run that is given no globals map gets an EMPTY one of its own: what a script
// assigns to a `global` variable is neither seen by the next run on the same VM (after SetBytecode or
// Clear) nor by another VM.
func NilGlobalsProbe() (problem string) {
	bc, err := ugo.Compile([]byte("global g\nold := g\ng = (g || 0) + 1\nreturn [old, g]"), ugo.CompilerOptions{})
	if err != nil {
		return "compile: " + err.Error()
	}
	want := "[undefined, 1]"
	vm := ugo.NewVM(bc)
	for i, reset := range []string{"new", "SetBytecode", "Clear+SetBytecode", "SetBytecode"} {
		switch reset {
		case "SetBytecode":
			vm.SetBytecode(bc)
		case "Clear+SetBytecode":
			vm.Clear().SetBytecode(bc)
		}
		ret, err := vm.Run(nil)
		if err != nil || ret.String() != want {
			return fmt.Sprintf("run #%d on one VM (%s) with nil globals returns %v %v, want %s", i+1, reset, ret, err, want)
		}
	}
	var wg sync.WaitGroup
	bad := make(chan string, 16)
	for i := 0; i < 8; i++ {
		wg.Add(1)
		go func() {
			defer wg.Done()
			for k := 0; k < 20; k++ {
				ret, err := ugo.NewVM(bc).Run(nil)
				if err != nil || ret.String() != want {
					select {
					case bad <- fmt.Sprintf("a new VM run with nil globals returns %v %v, want %s", ret, err, want):
					default:
					}
					return
				}
			}
		}()
	}
	wg.Wait()
	select {
	case b := <-bad:
		return b
	default:
	}
	return ""
}
