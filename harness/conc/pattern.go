package conc

import (
	"fmt"

	"github.com/ozanh/ugo"
)

// ModulePattern checks the bytecode hypothesis of the Lean theorems C08_shared /
// no_write_below_shared (`ModulePattern` in lean/UgoVerif/Proofs/C08World.lean) on real
// compiler output, at instruction boundaries:
//   - CONSTANT never loads a constant that is a mutable container (only LOADMODULE may
//     name the Map of a builtin module);
//   - LOADMODULE c m whose constant is not a *CompiledFunction is followed by
//     JUMPFALSY _ ; STOREMODULE m  (the object is replaced by its Copy() before any other
//     instruction can touch it).
//
// It returns "" when the pattern holds, a description of the first violation otherwise.
func ModulePattern(bc *ugo.Bytecode) string {
	type ins struct {
		pos      int
		op       ugo.Opcode
		operands []int
	}
	immutable := func(o ugo.Object) bool {
		switch o.(type) {
		case ugo.Int, ugo.Uint, ugo.Float, ugo.Char, ugo.Bool, ugo.String, *ugo.UndefinedType, *ugo.CompiledFunction:
			return true
		}
		return false
	}
	check := func(name string, insts []byte) string {
		var list []ins
		ugo.IterateInstructions(insts, func(pos int, op ugo.Opcode, operands []int, _ int) bool {
			list = append(list, ins{pos, op, append([]int(nil), operands...)})
			return true
		})
		for i, in := range list {
			switch in.op {
			case ugo.OpConstant:
				if in.operands[0] >= len(bc.Constants) {
					return fmt.Sprintf("%s@%d: CONSTANT %d out of range", name, in.pos, in.operands[0])
				}
				if c := bc.Constants[in.operands[0]]; !immutable(c) {
					return fmt.Sprintf("%s@%d: CONSTANT %d loads a %s", name, in.pos, in.operands[0], c.TypeName())
				}
			case ugo.OpLoadModule:
				if in.operands[0] >= len(bc.Constants) {
					return fmt.Sprintf("%s@%d: LOADMODULE constant %d out of range", name, in.pos, in.operands[0])
				}
				if _, ok := bc.Constants[in.operands[0]].(*ugo.CompiledFunction); ok {
					continue
				}
				if i+2 >= len(list) || list[i+1].op != ugo.OpJumpFalsy || list[i+2].op != ugo.OpStoreModule ||
					list[i+2].operands[0] != in.operands[1] {
					return fmt.Sprintf("%s@%d: LOADMODULE of a %s is not followed by JUMPFALSY; STOREMODULE %d",
						name, in.pos, bc.Constants[in.operands[0]].TypeName(), in.operands[1])
				}
			}
		}
		return ""
	}
	if bc.Main != nil {
		if s := check("main", bc.Main.Instructions); s != "" {
			return s
		}
	}
	for i, c := range bc.Constants {
		if f, ok := c.(*ugo.CompiledFunction); ok {
			if s := check(fmt.Sprintf("const%d", i), f.Instructions); s != "" {
				return s
			}
		}
	}
	return ""
}
