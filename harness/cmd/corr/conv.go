package main

// stream `conv` (C20): ugo.ToObject, ugo.ToObjectAlt, ugo.ToInterface on nested
// values over every accepted Go type (all integer/float widths, nil and empty
// slices/maps, []Object, map[string]Object, CallableFunc, errors, the registry types
// of stdlib/time and stdlib/json, unsupported types) and every kind of Object
// (plain values, SyncMap, functions, errors, typed nil pointers of the registry
// object types, fmt's scanArg).  Each case is compared with the Lean model; the
// property's own oracle (round trips, numeric value of other widths, errors for
// unsupported types, recover() for panics) runs directly on the implementation.
//
// Value syntax (shared with lean/Driver/Conv.lean): `tag[:payload[:payload]]` or
// `tag(items)`; byte strings and type names are hex.  Identities (functions,
// errors, locations, times, scanArgs, other objects) are indices into fixed pools.

import (
	"bytes"
	"encoding/hex"
	"encoding/json"
	"errors"
	"fmt"
	"math"
	"os"
	"reflect"
	"sort"
	"strconv"
	"strings"
	"time"
	fakejson "verifharness/fake/json"
	faketime "verifharness/fake/time"

	"github.com/ozanh/ugo"
	ufmt "github.com/ozanh/ugo/stdlib/fmt"
	ujson "github.com/ozanh/ugo/stdlib/json"
	utime "github.com/ozanh/ugo/stdlib/time"

	"verifharness/gen"
)

const cvCanonNaN = 0x7FF8000000000001

func cvF1(args ...ugo.Object) (ugo.Object, error) { return ugo.Undefined, nil }
func cvF2(args ...ugo.Object) (ugo.Object, error) { return ugo.True, nil }

type cvStruct struct{ A int }

var (
	cvFuncs = []ugo.CallableFunc{cvF1, cvF2}
	cvErrs  = []error{errors.New("boom"), errors.New(""), &os.PathError{Op: "open", Path: "/x", Err: errors.New("nope")},
		// non-nil errors whose dynamic type is a slice, map or func type holding nil: they are errors, not nil
		cvMultiErr(nil), cvMultiErr{errors.New("a"), nil}, cvMapErr(nil), cvMapErr{"k": "v"}, cvFuncErr(nil)}
	cvNilErrs = []error{(*os.PathError)(nil), (*os.SyscallError)(nil), (*json.SyntaxError)(nil)}
	cvLocs    = []*time.Location{time.UTC, time.FixedZone("X", 3600)}
	cvTimes   = []time.Time{{}, time.Unix(0, 0).UTC(), time.Unix(1700000000, 123456789).In(cvLocs[1]), time.Unix(1<<40, 999999999).UTC(),
		// the zero instant in a zone that is not UTC: IsZero() is true, the location is part of the value
		time.Time{}.In(cvLocs[1]), time.Time{}.In(time.FixedZone("W", -7200))}
	cvScan      []ugo.Object // one scanArg per scannable type
	cvScanNil   ugo.Object   // (*scanArg)(nil)
	cvScanNoArg ugo.Object   // &scanArg{} (argValue == nil)
	cvScanType  reflect.Type
	cvOthers    []ugo.Object
	cvUnsupp    []any
)

func init() {
	saf := ufmt.Module["ScanArg"].(*ugo.Function)
	for _, tn := range []string{"string", "int", "uint", "float", "bool", "char", "bytes"} {
		sa, err := saf.Value(ugo.String(tn))
		if err != nil {
			panic(err)
		}
		cvScan = append(cvScan, sa)
	}
	cvScanType = reflect.TypeOf(cvScan[0])
	cvScanNil = reflect.Zero(cvScanType).Interface().(ugo.Object)
	cvScanNoArg = reflect.New(cvScanType.Elem()).Interface().(ugo.Object)
	cvOthers = []ugo.Object{
		&ugo.BuiltinFunction{Name: "bf"},
		(*ujson.EncoderOptions)(nil),
		&ujson.EncoderOptions{Value: ugo.Int(1)},
		(*ugo.Error)(nil),
		(*ugo.Function)(nil),
		(*ugo.RuntimeError)(nil),
		&ugo.ObjectPtr{},
	}
	ch := make(chan int)
	n := 5
	cvUnsupp = []any{
		struct{}{}, cvStruct{1}, []int{1}, []string{"a"}, map[string]int{"a": 1}, map[int]any{}, ch,
		(*int)(nil), &n, func() {}, complex(1, 2), [2]int{1, 2}, time.Month(3),
		[]float64(nil), map[string]string(nil), &cvStruct{2},
		// pointers (typed nil and non-nil) to types that DO have converters, and double pointers:
		// unsupported, must be an error and never a panic
		(*time.Duration)(nil), &cvDur, (*json.RawMessage)(nil), &cvRaw, (**utime.Time)(nil), (**utime.Location)(nil),
		// types of OTHER packages that are also called time / json and have the registered types' names
		faketime.Duration(5), faketime.Time{Sec: 1}, &faketime.Time{}, (*faketime.Location)(nil), &faketime.Location{Name: "x"}, faketime.Month(2),
		fakejson.RawMessage("{}"), fakejson.RawMessage(nil), fakejson.Number("1"),
		(*string)(nil), (*[]byte)(nil), (*[]any)(nil), (*map[string]any)(nil), (*bool)(nil), (*float64)(nil),
	}
}

var (
	cvDur = time.Duration(7)
	cvRaw = json.RawMessage(`{"a":1}`)
)

func cvHexS(s string) string { return hex.EncodeToString([]byte(s)) }

func cvIsNilPtr(v any) bool {
	rv := reflect.ValueOf(v)
	return rv.Kind() == reflect.Ptr && rv.IsNil()
}

func cvFuncID(f ugo.CallableFunc) int {
	if f == nil {
		return 0
	}
	p := reflect.ValueOf(f).Pointer()
	for i, g := range cvFuncs {
		if reflect.ValueOf(g).Pointer() == p {
			return i + 1
		}
	}
	return 0
}

type cvMultiErr []error

func (m cvMultiErr) Error() string { return fmt.Sprintf("multi(%d)", len(m)) }

type cvMapErr map[string]string

func (m cvMapErr) Error() string { return fmt.Sprintf("maperr(%d)", len(m)) }

type cvFuncErr func() string

func (f cvFuncErr) Error() string {
	if f == nil {
		return "nilfunc"
	}
	return f()
}

func cvErrID(e error) (id int) {
	defer func() { recover() }()
	for i, g := range cvErrs {
		if g == e {
			return i + 1
		}
	}
	return 0
}

func cvLocID(l *time.Location) int {
	for i, g := range cvLocs {
		if g == l {
			return i + 1
		}
	}
	return 0
}

func cvTimeID(t time.Time) int {
	for i, g := range cvTimes {
		if g.Equal(t) && g.Location() == t.Location() {
			return i + 1
		}
	}
	return 0
}

func cvScanArgOf(p any) (int, bool) {
	for i, sa := range cvScan {
		if a := sa.(ufmt.ScanArg).Arg(); a == p {
			return i + 1, true
		}
	}
	return 0, false
}

func cvOtherID(o ugo.Object) int {
	for i, g := range cvOthers {
		if reflect.TypeOf(g) == reflect.TypeOf(o) && g == o {
			return i + 1
		}
	}
	return 0
}

func cvSortedKeys[V any](m map[string]V) []string {
	ks := make([]string, 0, len(m))
	for k := range m {
		ks = append(ks, k)
	}
	sort.Strings(ks)
	return ks
}

func cvEncObj(sb *strings.Builder, o ugo.Object) {
	kv := func(tag string, m map[string]ugo.Object) {
		sb.WriteString(tag + "(")
		for i, k := range cvSortedKeys(m) {
			if i > 0 {
				sb.WriteByte(' ')
			}
			sb.WriteString(cvHexS(k) + "=")
			cvEncObj(sb, m[k])
		}
		sb.WriteString(")")
	}
	other := func() {
		fmt.Fprintf(sb, "ot:%s:%d", cvHexS(fmt.Sprintf("%T", o)), cvOtherID(o))
	}
	switch v := o.(type) {
	case nil:
		sb.WriteString("gonil")
	case *ugo.UndefinedType:
		sb.WriteString("u")
	case ugo.Int:
		fmt.Fprintf(sb, "i:%016x", uint64(v))
	case ugo.Uint:
		fmt.Fprintf(sb, "n:%016x", uint64(v))
	case ugo.Float:
		b := math.Float64bits(float64(v))
		if v != v {
			b = cvCanonNaN
		}
		fmt.Fprintf(sb, "f:%016x", b)
	case ugo.Char:
		fmt.Fprintf(sb, "c:%08x", uint32(v))
	case ugo.Bool:
		if v {
			sb.WriteString("b:1")
		} else {
			sb.WriteString("b:0")
		}
	case ugo.String:
		sb.WriteString("s:" + cvHexS(string(v)))
	case ugo.Bytes:
		if v == nil {
			sb.WriteString("yN")
		} else {
			sb.WriteString("y:" + hex.EncodeToString(v))
		}
	case ugo.Array:
		sb.WriteString("a(")
		for i, x := range v {
			if i > 0 {
				sb.WriteByte(' ')
			}
			cvEncObj(sb, x)
		}
		sb.WriteString(")")
	case ugo.Map:
		kv("m", v)
	case *ugo.SyncMap:
		if v == nil {
			sb.WriteString("smN")
		} else {
			kv("sm", v.Value)
		}
	case *ugo.Function:
		if v == nil {
			other()
		} else {
			fmt.Fprintf(sb, "fn:%d", cvFuncID(v.Value))
		}
	case *ugo.Error:
		if v == nil {
			other()
		} else {
			fmt.Fprintf(sb, "er:%s:%d", cvHexS(v.Message), cvErrID(v.Cause))
		}
	case *utime.Time:
		if v == nil {
			sb.WriteString("tmN")
		} else {
			fmt.Fprintf(sb, "tm:%d", cvTimeID(v.Value))
		}
	case *utime.Location:
		switch {
		case v == nil:
			sb.WriteString("locN")
		case v.Value == nil:
			sb.WriteString("loc:N")
		default:
			fmt.Fprintf(sb, "loc:%d", cvLocID(v.Value))
		}
	case *ujson.RawMessage:
		switch {
		case v == nil:
			sb.WriteString("rawN")
		case v.Value == nil:
			sb.WriteString("raw:N")
		default:
			sb.WriteString("raw:" + hex.EncodeToString(v.Value))
		}
	default:
		if reflect.TypeOf(o) == cvScanType {
			switch {
			case reflect.ValueOf(o).IsNil():
				sb.WriteString("saN")
			case o == cvScanNoArg:
				sb.WriteString("sa:N")
			default:
				a := o.(ufmt.ScanArg).Arg()
				id, _ := cvScanArgOf(a)
				fmt.Fprintf(sb, "sa:%s:%d", cvHexS(fmt.Sprintf("%T", a)), id)
			}
			return
		}
		other()
	}
}

func cvObjStr(o ugo.Object) string {
	var sb strings.Builder
	cvEncObj(&sb, o)
	return sb.String()
}

func cvEncGo(sb *strings.Builder, g any) {
	switch v := g.(type) {
	case nil:
		sb.WriteString("N")
	case int64:
		fmt.Fprintf(sb, "i64:%016x", uint64(v))
	case int:
		fmt.Fprintf(sb, "i:%016x", uint64(v))
	case int32:
		fmt.Fprintf(sb, "i32:%08x", uint32(v))
	case int16:
		fmt.Fprintf(sb, "i16:%04x", uint16(v))
	case int8:
		fmt.Fprintf(sb, "i8:%02x", uint8(v))
	case uint64:
		fmt.Fprintf(sb, "u64:%016x", v)
	case uint:
		fmt.Fprintf(sb, "u:%016x", uint64(v))
	case uintptr:
		fmt.Fprintf(sb, "up:%016x", uint64(v))
	case uint32:
		fmt.Fprintf(sb, "u32:%08x", v)
	case uint16:
		fmt.Fprintf(sb, "u16:%04x", v)
	case uint8:
		fmt.Fprintf(sb, "u8:%02x", v)
	case float64:
		b := math.Float64bits(v)
		if v != v {
			b = cvCanonNaN
		}
		fmt.Fprintf(sb, "f64:%016x", b)
	case float32:
		fmt.Fprintf(sb, "f32:%08x", math.Float32bits(v))
	case bool:
		if v {
			sb.WriteString("b:1")
		} else {
			sb.WriteString("b:0")
		}
	case string:
		sb.WriteString("s:" + cvHexS(v))
	case []byte:
		if v == nil {
			sb.WriteString("yN")
		} else {
			sb.WriteString("y:" + hex.EncodeToString(v))
		}
	case []any:
		if v == nil {
			sb.WriteString("AN")
			return
		}
		sb.WriteString("A(")
		for i, x := range v {
			if i > 0 {
				sb.WriteByte(' ')
			}
			cvEncGo(sb, x)
		}
		sb.WriteString(")")
	case map[string]any:
		if v == nil {
			sb.WriteString("MN")
			return
		}
		sb.WriteString("M(")
		for i, k := range cvSortedKeys(v) {
			if i > 0 {
				sb.WriteByte(' ')
			}
			sb.WriteString(cvHexS(k) + "=")
			cvEncGo(sb, v[k])
		}
		sb.WriteString(")")
	case []ugo.Object:
		if v == nil {
			sb.WriteString("OAN")
			return
		}
		sb.WriteString("OA(")
		for i, x := range v {
			if i > 0 {
				sb.WriteByte(' ')
			}
			cvEncObj(sb, x)
		}
		sb.WriteString(")")
	case map[string]ugo.Object:
		if v == nil {
			sb.WriteString("OMN")
			return
		}
		sb.WriteString("OM(")
		for i, k := range cvSortedKeys(v) {
			if i > 0 {
				sb.WriteByte(' ')
			}
			sb.WriteString(cvHexS(k) + "=")
			cvEncObj(sb, v[k])
		}
		sb.WriteString(")")
	case ugo.CallableFunc:
		if v == nil {
			sb.WriteString("cN")
		} else {
			fmt.Fprintf(sb, "c:%d", cvFuncID(v))
		}
	case time.Duration:
		fmt.Fprintf(sb, "d:%016x", uint64(v))
	case time.Time:
		fmt.Fprintf(sb, "t:%d", cvTimeID(v))
	case *time.Time:
		if v == nil {
			sb.WriteString("tpN")
		} else {
			fmt.Fprintf(sb, "tp:%d", cvTimeID(*v))
		}
	case *time.Location:
		if v == nil {
			sb.WriteString("lN")
		} else {
			fmt.Fprintf(sb, "l:%d", cvLocID(v))
		}
	case json.RawMessage:
		if v == nil {
			sb.WriteString("rN")
		} else {
			sb.WriteString("r:" + hex.EncodeToString(v))
		}
	case ugo.Object:
		sb.WriteString("O(")
		cvEncObj(sb, v)
		sb.WriteString(")")
	case error:
		if cvIsNilPtr(v) {
			sb.WriteString("eN:" + cvHexS(fmt.Sprintf("%T", v)))
		} else {
			fmt.Fprintf(sb, "e:%s:%d", cvHexS(v.Error()), cvErrID(v))
		}
	default:
		if id, ok := cvScanArgOf(g); ok {
			fmt.Fprintf(sb, "p:%s:%d", cvHexS(fmt.Sprintf("%T", g)), id)
			return
		}
		sb.WriteString("x:" + cvHexS(fmt.Sprintf("%T", g)))
	}
}

func cvGoStr(g any) string {
	var sb strings.Builder
	cvEncGo(&sb, g)
	return sb.String()
}

// ---------------------------------------------------------------------------
// decoding (replay)

type cvParser struct {
	s string
	i int
}

func (p *cvParser) tag() []string {
	j := p.i
	for j < len(p.s) && !strings.ContainsRune(" ()=", rune(p.s[j])) {
		j++
	}
	t := p.s[p.i:j]
	p.i = j
	return strings.Split(t, ":")
}

func (p *cvParser) open() bool {
	if p.i < len(p.s) && p.s[p.i] == '(' {
		p.i++
		return true
	}
	return false
}

// items calls f for every element until the closing parenthesis; withKey parses `hexkey=` first.
func (p *cvParser) items(withKey bool, f func(key string) error) error {
	for {
		if p.i >= len(p.s) {
			return fmt.Errorf("unterminated container")
		}
		switch p.s[p.i] {
		case ')':
			p.i++
			return nil
		case ' ':
			p.i++
			continue
		}
		key := ""
		if withKey {
			j := strings.IndexByte(p.s[p.i:], '=')
			if j < 0 {
				return fmt.Errorf("map entry without =")
			}
			b, err := hex.DecodeString(p.s[p.i : p.i+j])
			if err != nil {
				return err
			}
			key = string(b)
			p.i += j + 1
		}
		if err := f(key); err != nil {
			return err
		}
	}
}

func cvUnhex(s string) string {
	b, _ := hex.DecodeString(s)
	return string(b)
}

func cvU64(s string) uint64 {
	n, _ := strconv.ParseUint(s, 16, 64)
	return n
}

func cvAtoi(s string) int {
	n, _ := strconv.Atoi(s)
	return n
}

func (p *cvParser) obj() (ugo.Object, error) {
	t := p.tag()
	if p.open() {
		switch t[0] {
		case "a":
			arr := ugo.Array{}
			err := p.items(false, func(string) error {
				v, err := p.obj()
				arr = append(arr, v)
				return err
			})
			return arr, err
		case "m", "sm":
			m := ugo.Map{}
			err := p.items(true, func(k string) error {
				v, err := p.obj()
				m[k] = v
				return err
			})
			if t[0] == "sm" {
				return &ugo.SyncMap{Value: m}, err
			}
			return m, err
		}
		return nil, fmt.Errorf("bad object container %q", t[0])
	}
	arg := func(i int) string {
		if i < len(t) {
			return t[i]
		}
		return ""
	}
	switch t[0] {
	case "gonil":
		return nil, nil
	case "u":
		return ugo.Undefined, nil
	case "i":
		return ugo.Int(int64(cvU64(arg(1)))), nil
	case "n":
		return ugo.Uint(cvU64(arg(1))), nil
	case "f":
		return ugo.Float(math.Float64frombits(cvU64(arg(1)))), nil
	case "c":
		return ugo.Char(int32(uint32(cvU64(arg(1))))), nil
	case "b":
		return ugo.Bool(arg(1) == "1"), nil
	case "s":
		return ugo.String(cvUnhex(arg(1))), nil
	case "yN":
		return ugo.Bytes(nil), nil
	case "y":
		return ugo.Bytes([]byte(cvUnhex(arg(1)))), nil
	case "smN":
		return (*ugo.SyncMap)(nil), nil
	case "fn":
		if id := cvAtoi(arg(1)); id >= 1 && id <= len(cvFuncs) {
			return &ugo.Function{Value: cvFuncs[id-1]}, nil
		}
		return &ugo.Function{Value: func(...ugo.Object) (ugo.Object, error) { return nil, nil }}, nil
	case "er":
		e := &ugo.Error{Message: cvUnhex(arg(1))}
		if id := cvAtoi(arg(2)); id >= 1 && id <= len(cvErrs) {
			e.Cause = cvErrs[id-1]
		}
		return e, nil
	case "tmN":
		return (*utime.Time)(nil), nil
	case "tm":
		if id := cvAtoi(arg(1)); id >= 1 && id <= len(cvTimes) {
			return &utime.Time{Value: cvTimes[id-1]}, nil
		}
	case "locN":
		return (*utime.Location)(nil), nil
	case "loc":
		if arg(1) == "N" {
			return &utime.Location{}, nil
		}
		if id := cvAtoi(arg(1)); id >= 1 && id <= len(cvLocs) {
			return &utime.Location{Value: cvLocs[id-1]}, nil
		}
	case "rawN":
		return (*ujson.RawMessage)(nil), nil
	case "raw":
		if arg(1) == "N" {
			return &ujson.RawMessage{}, nil
		}
		return &ujson.RawMessage{Value: []byte(cvUnhex(arg(1)))}, nil
	case "saN":
		return cvScanNil, nil
	case "sa":
		if arg(1) == "N" {
			return cvScanNoArg, nil
		}
		if id := cvAtoi(arg(2)); id >= 1 && id <= len(cvScan) {
			return cvScan[id-1], nil
		}
	case "ot":
		if id := cvAtoi(arg(2)); id >= 1 && id <= len(cvOthers) {
			return cvOthers[id-1], nil
		}
	}
	return nil, fmt.Errorf("cannot rebuild object %q", strings.Join(t, ":"))
}

func (p *cvParser) goval() (any, error) {
	t := p.tag()
	if p.open() {
		switch t[0] {
		case "A":
			arr := []any{}
			err := p.items(false, func(string) error {
				v, err := p.goval()
				arr = append(arr, v)
				return err
			})
			return arr, err
		case "M":
			m := map[string]any{}
			err := p.items(true, func(k string) error {
				v, err := p.goval()
				m[k] = v
				return err
			})
			return m, err
		case "OA":
			arr := []ugo.Object{}
			err := p.items(false, func(string) error {
				v, err := p.obj()
				arr = append(arr, v)
				return err
			})
			return arr, err
		case "OM":
			m := map[string]ugo.Object{}
			err := p.items(true, func(k string) error {
				v, err := p.obj()
				m[k] = v
				return err
			})
			return m, err
		case "O":
			var o ugo.Object
			err := p.items(false, func(string) error {
				v, err := p.obj()
				o = v
				return err
			})
			return o, err
		}
		return nil, fmt.Errorf("bad container %q", t[0])
	}
	arg := func(i int) string {
		if i < len(t) {
			return t[i]
		}
		return ""
	}
	n := cvU64(arg(1))
	switch t[0] {
	case "N":
		return nil, nil
	case "i64":
		return int64(n), nil
	case "i":
		return int(n), nil
	case "i32":
		return int32(uint32(n)), nil
	case "i16":
		return int16(uint16(n)), nil
	case "i8":
		return int8(uint8(n)), nil
	case "u64":
		return n, nil
	case "u":
		return uint(n), nil
	case "up":
		return uintptr(n), nil
	case "u32":
		return uint32(n), nil
	case "u16":
		return uint16(n), nil
	case "u8":
		return uint8(n), nil
	case "f64":
		return math.Float64frombits(n), nil
	case "f32":
		return math.Float32frombits(uint32(n)), nil
	case "b":
		return arg(1) == "1", nil
	case "s":
		return cvUnhex(arg(1)), nil
	case "yN":
		return []byte(nil), nil
	case "y":
		return []byte(cvUnhex(arg(1))), nil
	case "AN":
		return []any(nil), nil
	case "MN":
		return map[string]any(nil), nil
	case "OAN":
		return []ugo.Object(nil), nil
	case "OMN":
		return map[string]ugo.Object(nil), nil
	case "cN":
		return ugo.CallableFunc(nil), nil
	case "c":
		if id := cvAtoi(arg(1)); id >= 1 && id <= len(cvFuncs) {
			return cvFuncs[id-1], nil
		}
	case "eN":
		for _, e := range cvNilErrs {
			if fmt.Sprintf("%T", e) == cvUnhex(arg(1)) {
				return e, nil
			}
		}
	case "e":
		if id := cvAtoi(arg(2)); id >= 1 && id <= len(cvErrs) {
			return cvErrs[id-1], nil
		}
		return errors.New(cvUnhex(arg(1))), nil
	case "d":
		return time.Duration(n), nil
	case "t", "tp":
		if id := cvAtoi(arg(1)); id >= 1 && id <= len(cvTimes) {
			if t[0] == "t" {
				return cvTimes[id-1], nil
			}
			tt := cvTimes[id-1]
			return &tt, nil
		}
	case "tpN":
		return (*time.Time)(nil), nil
	case "lN":
		return (*time.Location)(nil), nil
	case "l":
		if id := cvAtoi(arg(1)); id >= 1 && id <= len(cvLocs) {
			return cvLocs[id-1], nil
		}
	case "rN":
		return json.RawMessage(nil), nil
	case "r":
		return json.RawMessage(cvUnhex(arg(1))), nil
	case "p":
		if id := cvAtoi(arg(2)); id >= 1 && id <= len(cvScan) {
			return cvScan[id-1].(ufmt.ScanArg).Arg(), nil
		}
	case "x":
		for _, u := range cvUnsupp {
			if fmt.Sprintf("%T", u) == cvUnhex(arg(1)) {
				return u, nil
			}
		}
	}
	return nil, fmt.Errorf("cannot rebuild Go value %q", strings.Join(t, ":"))
}

func cvDecObj(s string) (ugo.Object, error) {
	p := &cvParser{s: s}
	v, err := p.obj()
	if err == nil && p.i != len(s) {
		err = fmt.Errorf("trailing input")
	}
	return v, err
}

func cvDecGo(s string) (any, error) {
	p := &cvParser{s: s}
	v, err := p.goval()
	if err == nil && p.i != len(s) {
		err = fmt.Errorf("trailing input")
	}
	return v, err
}

// ---------------------------------------------------------------------------
// the implementation's answers

func cvToObj(fn func(any) (ugo.Object, error), g any) (res string) {
	defer func() {
		if r := recover(); r != nil {
			res = fmt.Sprintf("panic %v", r)
		}
	}()
	o, err := fn(g)
	if err != nil {
		if o != nil {
			return "err-with-value " + err.Error()
		}
		return "err error " + err.Error()
	}
	return "ok " + cvObjStr(o)
}

func cvToIface(o ugo.Object) (res string) {
	defer func() {
		if r := recover(); r != nil {
			res = fmt.Sprintf("panic %v", r)
		}
	}()
	return "ok " + cvGoStr(ugo.ToInterface(o))
}

func cvRtObj(fn func(any) (ugo.Object, error), o ugo.Object) (res string) {
	defer func() {
		if r := recover(); r != nil {
			res = fmt.Sprintf("panic %v", r)
		}
	}()
	return cvToObj(fn, ugo.ToInterface(o))
}

func cvRtGo(fn func(any) (ugo.Object, error), g any) (res string) {
	defer func() {
		if r := recover(); r != nil {
			res = fmt.Sprintf("panic %v", r)
		}
	}()
	o, err := fn(g)
	if err != nil {
		return "err error " + err.Error()
	}
	return "ok " + cvGoStr(ugo.ToInterface(o))
}

func cvImpl(op, val string) (string, error) {
	switch op {
	case "toobj", "toalt", "rtgo", "rtgoalt":
		g, err := cvDecGo(val)
		if err != nil {
			return "", err
		}
		switch op {
		case "toobj":
			return cvToObj(ugo.ToObject, g), nil
		case "toalt":
			return cvToObj(ugo.ToObjectAlt, g), nil
		case "rtgo":
			return cvRtGo(ugo.ToObject, g), nil
		}
		return cvRtGo(ugo.ToObjectAlt, g), nil
	case "toiface", "rtobj", "rtalt":
		o, err := cvDecObj(val)
		if err != nil {
			return "", err
		}
		switch op {
		case "toiface":
			return cvToIface(o), nil
		case "rtobj":
			return cvRtObj(ugo.ToObject, o), nil
		}
		return cvRtObj(ugo.ToObjectAlt, o), nil
	}
	return "", fmt.Errorf("unknown conv op %q", op)
}

// ---------------------------------------------------------------------------
// generators

var cvIntBounds = []int64{0, 1, -1, 2, 97, 127, 128, 255, 256, -128, -129, 32767, 32768, -32768, 65535, 65536,
	1<<31 - 1, 1 << 31, -(1 << 31), 1<<32 - 1, 1 << 32, 1<<53 + 1, math.MaxInt64, math.MinInt64, 0x110000, 0xD800}

func cvGoInts(x int64) []any {
	return []any{x, int(x), int32(x), int16(x), int8(x), uint64(x), uint(x), uintptr(x), uint32(x), uint16(x), uint8(x)}
}

func cvGoScalars() []any {
	var p []any
	for _, x := range cvIntBounds {
		p = append(p, cvGoInts(x)...)
	}
	for _, f := range []float64{0, math.Copysign(0, -1), 1, -1, 0.1, 1 << 53, math.MaxFloat64, math.SmallestNonzeroFloat64,
		math.Inf(1), math.Inf(-1), math.NaN(), math.Float64frombits(0x7FF0000000000001), math.Float64frombits(0xFFF8000000000123)} {
		p = append(p, f)
	}
	for _, b := range []uint32{0, 0x80000000, 0x3F800000, 0x3DCCCCCD, 0x7F7FFFFF, 0x00000001, 0x007FFFFF, 0x00800000,
		0x7F800000, 0xFF800000, 0x7FC00000, 0x7FA00000, 0xC0490FDB} {
		p = append(p, math.Float32frombits(b))
	}
	p = append(p, true, false, nil)
	for _, s := range []string{"", "a", "\x00", "\xff", "é", "hello"} {
		p = append(p, s, []byte(s))
	}
	return p
}

func cvCanonScalars(alt bool) []any {
	var p []any
	for _, g := range cvGoScalars() {
		switch g.(type) {
		case nil, int64, uint64, float64, bool, string, []byte:
			p = append(p, g)
		case int32:
			if !alt {
				p = append(p, g)
			}
		}
	}
	return append(p, []byte(nil), []any(nil), map[string]any(nil), []any{}, map[string]any{})
}

func cvGoSpecials() []any {
	t2 := cvTimes[2]
	p := []any{
		[]byte(nil), []any(nil), map[string]any(nil), []any{}, map[string]any{},
		[]ugo.Object(nil), []ugo.Object{}, []ugo.Object{ugo.Int(1), nil, ugo.Bytes(nil)},
		map[string]ugo.Object(nil), map[string]ugo.Object{}, map[string]ugo.Object{"a": ugo.Char('x'), "": ugo.Undefined},
		ugo.CallableFunc(nil), ugo.CallableFunc(cvF1), ugo.CallableFunc(cvF2),
		time.Duration(0), time.Duration(-5), time.Duration(math.MaxInt64),
		(*time.Time)(nil), &t2, (*time.Location)(nil), json.RawMessage(nil), json.RawMessage{}, json.RawMessage(`{"a":1}`),
	}
	for _, t := range cvTimes {
		p = append(p, t)
	}
	for i := range cvTimes {
		// pointers to every time of the pool, the zero time included (a non-nil pointer is a value)
		tp := cvTimes[i]
		p = append(p, &tp)
	}
	for _, l := range cvLocs {
		p = append(p, l)
	}
	for _, e := range cvErrs {
		p = append(p, e)
	}
	for _, e := range cvNilErrs {
		p = append(p, e)
	}
	for _, o := range cvObjSpecials() {
		if o != nil {
			p = append(p, o)
		}
	}
	p = append(p, ugo.Int(3), ugo.Array{ugo.Int(1)}, ugo.Undefined, ugo.Bytes(nil))
	p = append(p, cvUnsupp...)
	p = append(p, cvScan[1].(ufmt.ScanArg).Arg())
	return p
}

func cvObjSpecials() []ugo.Object {
	p := []ugo.Object{
		nil, ugo.Bytes(nil), ugo.Array(nil), ugo.Map(nil),
		(*ugo.SyncMap)(nil), &ugo.SyncMap{}, &ugo.SyncMap{Value: ugo.Map{}}, &ugo.SyncMap{Value: ugo.Map{"a": ugo.Int(1), "b": ugo.Array{ugo.Bytes(nil)}}},
		&ugo.Function{Value: cvF1}, &ugo.Function{Value: cvF2},
		&ugo.Error{Message: "m", Cause: cvErrs[0]}, &ugo.Error{Name: "x", Message: ""},
		(*utime.Time)(nil), (*utime.Location)(nil), &utime.Location{}, (*ujson.RawMessage)(nil), &ujson.RawMessage{},
		&ujson.RawMessage{Value: []byte{}}, &ujson.RawMessage{Value: []byte("null")},
		cvScanNil, cvScanNoArg,
	}
	for _, t := range cvTimes {
		p = append(p, &utime.Time{Value: t})
	}
	for _, l := range cvLocs {
		p = append(p, &utime.Location{Value: l})
	}
	p = append(p, cvScan...)
	p = append(p, cvOthers...)
	return p
}

func cvPlainScalars(alt bool) []ugo.Object {
	var p []ugo.Object
	for _, o := range gen.ScalarPool() {
		if _, isChar := o.(ugo.Char); isChar && alt {
			continue
		}
		p = append(p, o)
	}
	return append(p, ugo.Bytes(nil), ugo.Float(math.Float64frombits(0x7FF0000000000001)))
}

func cvRandPlain(r *gen.Rand, depth int, alt bool, pool []ugo.Object) ugo.Object {
	if depth <= 0 || r.Intn(3) > 0 {
		return pool[r.Intn(len(pool))]
	}
	n := r.Intn(4)
	if r.Bool() {
		if n == 0 && r.Bool() {
			return ugo.Array(nil)
		}
		a := make(ugo.Array, n)
		for i := range a {
			a[i] = cvRandPlain(r, depth-1, alt, pool)
		}
		return a
	}
	if n == 0 && r.Bool() {
		return ugo.Map(nil)
	}
	m := ugo.Map{}
	keys := []string{"", "a", "b", "k", "\xff"}
	for i := 0; i < n; i++ {
		m[keys[r.Intn(len(keys))]] = cvRandPlain(r, depth-1, alt, pool)
	}
	return m
}

func cvRandObj(r *gen.Rand, depth int, plain, special []ugo.Object) ugo.Object {
	if depth <= 0 || r.Intn(3) > 0 {
		if r.Intn(3) == 0 {
			return special[r.Intn(len(special))]
		}
		return plain[r.Intn(len(plain))]
	}
	n := r.Intn(4)
	keys := []string{"", "a", "b", "k", "\xff"}
	switch r.Intn(5) {
	case 0, 1:
		a := make(ugo.Array, n)
		for i := range a {
			a[i] = cvRandObj(r, depth-1, plain, special)
		}
		return a
	case 2, 3:
		m := ugo.Map{}
		for i := 0; i < n; i++ {
			m[keys[r.Intn(len(keys))]] = cvRandObj(r, depth-1, plain, special)
		}
		return m
	}
	m := ugo.Map{}
	for i := 0; i < n; i++ {
		m[keys[r.Intn(len(keys))]] = cvRandObj(r, depth-1, plain, special)
	}
	return &ugo.SyncMap{Value: m}
}

func cvRandCanon(r *gen.Rand, depth int, pool []any) any {
	if depth <= 0 || r.Intn(3) > 0 {
		return pool[r.Intn(len(pool))]
	}
	n := r.Intn(4)
	keys := []string{"", "a", "b", "k", "\xff"}
	if r.Bool() {
		a := make([]any, n)
		for i := range a {
			a[i] = cvRandCanon(r, depth-1, pool)
		}
		return a
	}
	m := map[string]any{}
	for i := 0; i < n; i++ {
		m[keys[r.Intn(len(keys))]] = cvRandCanon(r, depth-1, pool)
	}
	return m
}

// cvFails reports whether converting g fails (error or panic) in either function.
func cvFails(g any) bool {
	return !strings.HasPrefix(cvToObj(ugo.ToObject, g), "ok ") || !strings.HasPrefix(cvToObj(ugo.ToObjectAlt, g), "ok ")
}

// cvRandGo builds a nested Go value over all accepted (and some unsupported) types.  A
// map[string]any keeps at most one entry whose conversion fails: with two, which error
// ToObject returns depends on Go's map iteration order.
func cvRandGo(r *gen.Rand, depth int, scalars, specials []any) any {
	if depth <= 0 || r.Intn(3) > 0 {
		if r.Intn(3) == 0 {
			return specials[r.Intn(len(specials))]
		}
		return scalars[r.Intn(len(scalars))]
	}
	n := r.Intn(4)
	keys := []string{"", "a", "b", "k", "\xff"}
	if r.Bool() {
		a := make([]any, n)
		for i := range a {
			a[i] = cvRandGo(r, depth-1, scalars, specials)
		}
		return a
	}
	m := map[string]any{}
	failing := false
	for i := 0; i < n; i++ {
		v := cvRandGo(r, depth-1, scalars, specials)
		if cvFails(v) {
			if failing {
				continue
			}
			failing = true
		}
		k := keys[r.Intn(len(keys))]
		if old, had := m[k]; had && cvFails(old) {
			continue
		}
		m[k] = v
	}
	return m
}

// ---------------------------------------------------------------------------
// the property's oracle on the implementation

// cvSameObj: equal uGO values of the same types at every position (nil and empty Bytes,
// Array, Map are the same uGO value; floats compare by bits so that NaN equals itself).
func cvSameObj(a, b ugo.Object) bool {
	switch x := a.(type) {
	case ugo.Float:
		y, ok := b.(ugo.Float)
		return ok && (math.Float64bits(float64(x)) == math.Float64bits(float64(y)))
	case ugo.Bytes:
		y, ok := b.(ugo.Bytes)
		return ok && bytes.Equal(x, y)
	case ugo.Array:
		y, ok := b.(ugo.Array)
		if !ok || len(x) != len(y) {
			return false
		}
		for i := range x {
			if !cvSameObj(x[i], y[i]) {
				return false
			}
		}
		return true
	case ugo.Map:
		y, ok := b.(ugo.Map)
		if !ok || len(x) != len(y) {
			return false
		}
		for k, v := range x {
			w, ok := y[k]
			if !ok || !cvSameObj(v, w) {
				return false
			}
		}
		return true
	case ugo.Int, ugo.Uint, ugo.Char, ugo.Bool, ugo.String, *ugo.UndefinedType:
		return reflect.TypeOf(a) == reflect.TypeOf(b) && a == b
	}
	return false
}

// cvSimGo: the same Go value, nil and empty []byte / []any / map[string]any being interchangeable.
func cvSimGo(a, b any) bool {
	switch x := a.(type) {
	case nil:
		return b == nil
	case float64:
		y, ok := b.(float64)
		return ok && math.Float64bits(x) == math.Float64bits(y)
	case []byte:
		y, ok := b.([]byte)
		return ok && bytes.Equal(x, y)
	case []any:
		y, ok := b.([]any)
		if !ok || len(x) != len(y) {
			return false
		}
		for i := range x {
			if !cvSimGo(x[i], y[i]) {
				return false
			}
		}
		return true
	case map[string]any:
		y, ok := b.(map[string]any)
		if !ok || len(x) != len(y) {
			return false
		}
		for k, v := range x {
			w, ok := y[k]
			if !ok || !cvSimGo(v, w) {
				return false
			}
		}
		return true
	case int64, uint64, bool, int32, string:
		return reflect.TypeOf(a) == reflect.TypeOf(b) && a == b
	}
	return false
}

func cvHead(s string) string {
	i := strings.IndexAny(s, ":(")
	if i < 0 {
		return s
	}
	return s[:i]
}

type cvFn struct {
	name string
	fn   func(any) (ugo.Object, error)
}

var cvFns = []cvFn{{"ToObject", ugo.ToObject}, {"ToObjectAlt", ugo.ToObjectAlt}}

func cvOracleUgo(c *Ctx, f cvFn, o ugo.Object) {
	in := cvObjStr(o)
	var g any
	var o2 ugo.Object
	var err error
	func() {
		defer func() {
			if r := recover(); r != nil {
				c.Violation(PropViolation{"C20", fmt.Sprintf("%s(ToInterface(o)) panics: %v", f.name, r), in, "C20:panic:rt-ugo:" + f.name + ":" + cvHead(in)})
				err = fmt.Errorf("panic")
			}
		}()
		g = ugo.ToInterface(o)
		o2, err = f.fn(g)
	}()
	if err != nil {
		if err.Error() != "panic" {
			c.Violation(PropViolation{"C20", fmt.Sprintf("%s(ToInterface(o)) fails: %v", f.name, err), in, "C20:rt-ugo:" + f.name + ":" + cvHead(in)})
		}
		return
	}
	if !cvSameObj(o, o2) {
		c.Violation(PropViolation{"C20", fmt.Sprintf("%s(ToInterface(o)) = %s is not o (via Go value %s)", f.name, cvObjStr(o2), cvGoStr(g)), in, "C20:rt-ugo:" + f.name + ":" + cvHead(in)})
	}
}

func cvOracleGo(c *Ctx, f cvFn, g any) {
	in := cvGoStr(g)
	var g2 any
	var o ugo.Object
	var err error
	func() {
		defer func() {
			if r := recover(); r != nil {
				c.Violation(PropViolation{"C20", fmt.Sprintf("ToInterface(%s(g)) panics: %v", f.name, r), in, "C20:panic:rt-go:" + f.name + ":" + cvHead(in)})
				err = fmt.Errorf("panic")
			}
		}()
		o, err = f.fn(g)
		if err == nil {
			g2 = ugo.ToInterface(o)
		}
	}()
	if err != nil {
		if err.Error() != "panic" {
			c.Violation(PropViolation{"C20", fmt.Sprintf("%s(g) fails on a canonical Go value: %v", f.name, err), in, "C20:rt-go:" + f.name + ":" + cvHead(in)})
		}
		return
	}
	if !cvSimGo(g, g2) {
		c.Violation(PropViolation{"C20", fmt.Sprintf("ToInterface(%s(g)) = %s is not g (via %s)", f.name, cvGoStr(g2), cvObjStr(o)), in, "C20:rt-go:" + f.name + ":" + cvHead(in)})
	}
}

// cvIntVal: the mathematical value of a Go integer of any width as (negative, magnitude).
func cvIntVal(g any) (neg bool, mag uint64, signed bool, ok bool) {
	rv := reflect.ValueOf(g)
	switch rv.Kind() {
	case reflect.Int, reflect.Int8, reflect.Int16, reflect.Int32, reflect.Int64:
		x := rv.Int()
		if x < 0 {
			return true, uint64(-(x + 1)) + 1, true, true
		}
		return false, uint64(x), true, true
	case reflect.Uint, reflect.Uint8, reflect.Uint16, reflect.Uint32, reflect.Uint64, reflect.Uintptr:
		return false, rv.Uint(), false, true
	}
	return false, 0, false, false
}

func cvObjIntVal(o ugo.Object) (neg bool, mag uint64, ok bool) {
	switch x := o.(type) {
	case ugo.Int:
		n, m, _, _ := cvIntVal(int64(x))
		return n, m, true
	case ugo.Char:
		n, m, _, _ := cvIntVal(int32(x))
		return n, m, true
	case ugo.Uint:
		return false, uint64(x), true
	}
	return false, 0, false
}

// widths ToObject has a case for
var cvToObjectWidths = map[string]bool{"int64": true, "int": true, "int32": true, "uint64": true, "uint": true, "uintptr": true, "uint8": true}

func cvOracleWidth(c *Ctx, g any) {
	tn := fmt.Sprintf("%T", g)
	in := cvGoStr(g)
	neg, mag, signed, isInt := cvIntVal(g)
	for _, f := range cvFns {
		res := cvToObj(f.fn, g)
		if strings.HasPrefix(res, "panic") {
			c.Violation(PropViolation{"C20", f.name + " panics: " + res, in, "C20:panic:" + f.name + ":" + tn})
			continue
		}
		supported := f.name == "ToObjectAlt" || cvToObjectWidths[tn] || !isInt
		o, err := f.fn(g)
		if !supported {
			if err == nil {
				c.Violation(PropViolation{"C20", f.name + " accepts " + tn + " without a case for it", in, "C20:width:" + f.name + ":" + tn})
			}
			continue
		}
		if err != nil {
			c.Violation(PropViolation{"C20", fmt.Sprintf("%s rejects the supported type %s: %v", f.name, tn, err), in, "C20:width:" + f.name + ":" + tn})
			continue
		}
		if isInt {
			n2, m2, ok := cvObjIntVal(o)
			if !ok || n2 != neg || m2 != mag {
				c.Violation(PropViolation{"C20", fmt.Sprintf("%s(%s %v) = %s has a different numeric value", f.name, tn, g, cvObjStr(o)), in, "C20:width:" + f.name + ":" + tn})
			}
			if f.name == "ToObjectAlt" {
				_, isI := o.(ugo.Int)
				_, isU := o.(ugo.Uint)
				if (signed && !isI) || (!signed && !isU) {
					c.Violation(PropViolation{"C20", fmt.Sprintf("ToObjectAlt(%s) = %s: signed integers must become int, unsigned uint", tn, cvObjStr(o)), in, "C20:width:" + f.name + ":" + tn})
				}
			}
		}
		// the same conversion applies to elements of []any and map[string]any
		for _, w := range []any{[]any{g}, map[string]any{"k": g}} {
			var elem ugo.Object
			if wo, err := f.fn(w); err == nil {
				switch c := wo.(type) {
				case ugo.Array:
					if len(c) == 1 {
						elem = c[0]
					}
				case ugo.Map:
					elem = c["k"]
				}
			}
			if elem == nil || cvObjStr(elem) != cvObjStr(o) {
				c.Violation(PropViolation{"C20", fmt.Sprintf("%s converts %s %v to %s on its own but differently inside %T", f.name, tn, g, cvObjStr(o), w), in, "C20:nested:" + f.name + ":" + tn})
			}
		}
		if x, isF32 := g.(float32); isF32 {
			fo, ok := o.(ugo.Float)
			want := float64(x)
			if !ok || !(float64(fo) == want || (want != want && fo != fo)) {
				c.Violation(PropViolation{"C20", fmt.Sprintf("%s(float32 %v) = %s has a different numeric value", f.name, x, cvObjStr(o)), in, "C20:width:" + f.name + ":" + tn})
			}
		}
	}
}

func cvOracleUnsupported(c *Ctx, u any, wrap string, g any) {
	tn := fmt.Sprintf("%T", u)
	in := cvGoStr(g)
	for _, f := range cvFns {
		res := cvToObj(f.fn, g)
		switch {
		case strings.HasPrefix(res, "panic"):
			c.Violation(PropViolation{"C20", f.name + " panics on an unsupported type: " + res, in, "C20:panic:" + f.name + ":" + tn})
		case !strings.HasPrefix(res, "err error "):
			c.Violation(PropViolation{"C20", f.name + " does not report the unsupported type " + tn + " (" + wrap + "): " + res, in, "C20:unsupported:" + f.name + ":" + tn})
		}
	}
}

func cvNoPanicGo(c *Ctx, g any) {
	for _, f := range cvFns {
		if res := cvToObj(f.fn, g); strings.HasPrefix(res, "panic") {
			c.Violation(PropViolation{"C20", f.name + " panics: " + res, cvGoStr(g), "C20:panic:" + f.name + ":" + fmt.Sprintf("%T", g)})
		}
	}
}

// cvErrorOracle: an error value that is not a nil pointer crosses the boundary as an error object
// carrying its message and itself as the cause - also inside containers - never as undefined.
func cvErrorOracle(c *Ctx) {
	for _, f := range cvFns {
		for _, e := range cvErrs {
			for _, wrap := range []string{"", "slice", "map"} {
				var in any = e
				switch wrap {
				case "slice":
					in = []any{e}
				case "map":
					in = map[string]any{"k": e}
				}
				var o ugo.Object
				var err error
				func() {
					defer func() {
						if r := recover(); r != nil {
							err = fmt.Errorf("panic: %v", r)
						}
					}()
					o, err = f.fn(in)
				}()
				c.dist["oracle:error-crossing"]++
				if err != nil {
					continue // reported by the panic / unsupported oracles
				}
				elem := o
				switch x := o.(type) {
				case ugo.Array:
					if len(x) == 1 {
						elem = x[0]
					}
				case ugo.Map:
					elem = x["k"]
				}
				eo, ok := elem.(*ugo.Error)
				if !ok || eo.Message != e.Error() {
					c.Violation(PropViolation{"C20", fmt.Sprintf("%s of the non-nil error %T (%q)%s gives %s, want an error object with that message",
						f.name, e, e.Error(), map[string]string{"": "", "slice": " inside []any", "map": " inside map[string]any"}[wrap], cvObjStr(o)),
						cvGoStr(in), "C20:error-lost:" + f.name + ":" + fmt.Sprintf("%T", e)})
				}
			}
		}
	}
}

func cvNoPanicObj(c *Ctx, o ugo.Object) {
	if res := cvToIface(o); strings.HasPrefix(res, "panic") {
		c.Violation(PropViolation{"C20", "ToInterface panics: " + res, cvObjStr(o), "C20:panic:ToInterface:" + fmt.Sprintf("%T", o)})
	}
}

func cvIsPlainNoChar(o ugo.Object) bool {
	switch x := o.(type) {
	case ugo.Char:
		return false
	case ugo.Array:
		for _, e := range x {
			if !cvIsPlainNoChar(e) {
				return false
			}
		}
	case ugo.Map:
		for _, e := range x {
			if !cvIsPlainNoChar(e) {
				return false
			}
		}
	}
	return true
}

func cvHasRune(g any) bool {
	switch x := g.(type) {
	case int32:
		return true
	case []any:
		for _, e := range x {
			if cvHasRune(e) {
				return true
			}
		}
	case map[string]any:
		for _, e := range x {
			if cvHasRune(e) {
				return true
			}
		}
	}
	return false
}

func init() {
	register(&Stream{
		Name: "conv",
		Run: func(c *Ctx) {
			c.Rule("ToObject/ToObjectAlt on every Go integer width x 26 boundary values, float64/float32 boundary patterns, nil/empty slices and maps, []Object, map[string]Object, CallableFunc, errors (incl. nil pointers), time/json registry types (incl. nil pointers), 16 unsupported types, and random nested []any/map[string]any over all of them; ToInterface on the plain value pool, SyncMap, functions, errors, registry objects (incl. nil pointers), scanArg, other objects and random nestings; both round trips on random plain / canonical values; distinct = distinct (operation, head type, outcome class)")
			add := func(op, val, impl string) {
				cls := strings.SplitN(impl, " ", 2)[0]
				c.Count(op + ":" + cls)
				c.Add(Case{Line: "conv\t" + op + "\t" + val, Impl: impl, Key: op + "/" + cvHead(val) + "/" + cls})
			}
			goCase := func(g any) {
				s := cvGoStr(g)
				add("toobj", s, cvToObj(ugo.ToObject, g))
				add("toalt", s, cvToObj(ugo.ToObjectAlt, g))
				cvNoPanicGo(c, g)
			}
			objCase := func(o ugo.Object) {
				add("toiface", cvObjStr(o), cvToIface(o))
				cvNoPanicObj(c, o)
			}
			scalars, specials := cvGoScalars(), cvGoSpecials()
			for _, g := range scalars {
				goCase(g)
				cvOracleWidth(c, g)
			}
			for _, g := range specials {
				goCase(g)
			}
			for _, u := range cvUnsupp {
				cvOracleUnsupported(c, u, "bare", u)
				cvOracleUnsupported(c, u, "in []any", []any{int64(1), u})
				cvOracleUnsupported(c, u, "in map[string]any", map[string]any{"k": []any{u}})
			}
			plainAll, plainAlt, objSpecials := cvPlainScalars(false), cvPlainScalars(true), cvObjSpecials()
			for _, o := range plainAll {
				objCase(o)
			}
			for _, o := range gen.ValuePool() {
				objCase(o)
			}
			for _, o := range objSpecials {
				objCase(o)
				if o != nil {
					goCase(o) // an Object passed as `any`
				}
			}
			n := 600 * c.Scale
			for i := 0; i < n; i++ {
				goCase(cvRandGo(c.R, 3, scalars, specials))
				objCase(cvRandObj(c.R, 3, plainAll, objSpecials))
			}
			// round trips: model comparison and the property's oracle
			canonAll, canonAlt := cvCanonScalars(false), cvCanonScalars(true)
			for _, o := range plainAll {
				cvOracleUgo(c, cvFns[0], o)
				if cvIsPlainNoChar(o) {
					cvOracleUgo(c, cvFns[1], o)
				}
			}
			for _, g := range canonAll {
				cvOracleGo(c, cvFns[0], g)
				if !cvHasRune(g) {
					cvOracleGo(c, cvFns[1], g)
				}
			}
			cvRegistryRoundTrip(c)
			cvErrorOracle(c)
			m := 300 * c.Scale
			for i := 0; i < m; i++ {
				o := cvRandPlain(c.R, 4, false, plainAll)
				add("rtobj", cvObjStr(o), cvRtObj(ugo.ToObject, o))
				cvOracleUgo(c, cvFns[0], o)
				oa := cvRandPlain(c.R, 4, true, plainAlt)
				add("rtalt", cvObjStr(oa), cvRtObj(ugo.ToObjectAlt, oa))
				cvOracleUgo(c, cvFns[1], oa)
				g := cvRandCanon(c.R, 4, canonAll)
				add("rtgo", cvGoStr(g), cvRtGo(ugo.ToObject, g))
				cvOracleGo(c, cvFns[0], g)
				ga := cvRandCanon(c.R, 4, canonAlt)
				add("rtgoalt", cvGoStr(ga), cvRtGo(ugo.ToObjectAlt, ga))
				cvOracleGo(c, cvFns[1], ga)
			}
		},
		Replay: func(line string) (string, error) {
			f := strings.Split(line, "\t")
			if len(f) != 3 {
				return "", fmt.Errorf("bad conv line")
			}
			return cvImpl(f[1], f[2])
		},
	})
}

// cvRegistryRoundTrip: Go values of the registered types (time.Time by value and by non-nil pointer,
// the zero time included; *time.Location; json.RawMessage) cross the boundary and come back as the
// same value: ToInterface(ToObject(g)) == g, bare and nested in []any / map[string]any.
func cvRegistryRoundTrip(c *Ctx) {
	same := func(want, got any) bool {
		switch w := want.(type) {
		case time.Time:
			g, ok := got.(time.Time)
			return ok && g.Equal(w) && g.Location().String() == w.Location().String()
		case *time.Location:
			g, ok := got.(*time.Location)
			return ok && g != nil && g.String() == w.String()
		case json.RawMessage:
			g, ok := got.(json.RawMessage)
			return ok && string(g) == string(w)
		}
		return false
	}
	var cases []struct {
		in   any
		want any
	}
	for i := range cvTimes {
		t := cvTimes[i]
		tp := t
		cases = append(cases, struct{ in, want any }{t, t}, struct{ in, want any }{&tp, t})
	}
	for _, l := range cvLocs {
		cases = append(cases, struct{ in, want any }{l, l})
	}
	for _, raw := range []json.RawMessage{json.RawMessage("{\"a\":1}"), json.RawMessage("[]"), json.RawMessage("0"),
		// a raw message is bytes: leading and trailing JSON whitespace (what json.Encoder writes) is part of it
		json.RawMessage("{\"a\":1}\n"), json.RawMessage(" [1, 2] "), json.RawMessage("\t"), json.RawMessage("\n\n"), json.RawMessage("null ")} {
		r := raw
		cases = append(cases, struct{ in, want any }{r, r}) // (*json.RawMessage is not a registered type)
	}
	for _, f := range cvFns {
		for _, cs := range cases {
			for _, wrap := range []string{"bare", "slice", "map"} {
				in := cs.in
				switch wrap {
				case "slice":
					in = []any{cs.in}
				case "map":
					in = map[string]any{"k": cs.in}
				}
				desc := fmt.Sprintf("%T (%s)", cs.in, wrap)
				func() {
					defer func() {
						if r := recover(); r != nil {
							c.Violation(PropViolation{"C20", fmt.Sprintf("ToInterface(%s(g)) panics for g of type %s: %v", f.name, desc, r), cvGoStr(in), "C20:panic:rt-registry:" + f.name + ":" + fmt.Sprintf("%T", cs.in)})
						}
					}()
					o, err := f.fn(in)
					if err != nil {
						c.Violation(PropViolation{"C20", fmt.Sprintf("%s rejects a value of the registered type %s: %v", f.name, desc, err), cvGoStr(in), "C20:rt-registry:" + f.name + ":" + fmt.Sprintf("%T", cs.in)})
						return
					}
					back := ugo.ToInterface(o)
					switch wrap {
					case "slice":
						if a, ok := back.([]any); ok && len(a) == 1 {
							back = a[0]
						}
					case "map":
						if m, ok := back.(map[string]any); ok {
							back = m["k"]
						}
					}
					c.dist["oracle:registry-roundtrip"]++
					if !same(cs.want, back) {
						c.Violation(PropViolation{"C20", fmt.Sprintf("ToInterface(%s(g)) for g of type %s gives %T %v, want the same value back (via %s)", f.name, desc, back, back, cvObjStr(o)),
							cvGoStr(in), "C20:rt-registry:" + f.name + ":" + fmt.Sprintf("%T", cs.in)})
					}
				}()
			}
		}
	}
}
