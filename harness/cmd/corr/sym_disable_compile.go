package main

// Stream `disablecompile` (C13): the tie of the compiler model's DISABLED-set argument.
//
// `no_getbuiltin_compiled` (Props/C13.lean) is a theorem about `compileFile builtins D file` of
// Model/Compile.lean.  Stream `compile` ties that model with an empty D only; here the real
// compiler gets a symbol table with DisableBuiltin(D...) (NoOptimize, no imports: the subset
// the model covers) and the model gets the same D: byte-identical Bytecode or the same error
// position.  The property's oracle (no GETBUILTIN of a member of D in any CompiledFunction)
// runs on every Bytecode the implementation produces.

import (
	"encoding/hex"
	"fmt"
	"strings"

	"verifharness/codec"
	"verifharness/gen"

	"github.com/ozanh/ugo"
)

func disCompileImpl(src string, D []string) (res string, bc *ugo.Bytecode) {
	defer func() {
		if r := recover(); r != nil {
			res, bc = "panic", nil
		}
	}()
	st := ugo.NewSymbolTable()
	st.DisableBuiltin(D...)
	bc, err := ugo.Compile([]byte(src), ugo.CompilerOptions{NoOptimize: true, SymbolTable: st})
	if err != nil {
		if ce, ok := err.(*ugo.CompilerError); ok {
			msg := ce.Err.Error()
			if e, ok := ce.Err.(*ugo.Error); ok {
				msg = e.Name + ": " + e.Message
			}
			return fmt.Sprintf("err %d %s", int(ce.Node.Pos()), msg), nil
		}
		if e, ok := err.(*ugo.Error); ok {
			return "err - " + e.Name + ": " + e.Message, nil
		}
		return "err - " + err.Error(), nil
	}
	return showBytecode(bc), bc
}

func disCompileLine(D []string, ast, src string) string {
	hx := make([]string, len(D))
	for i, d := range D {
		hx[i] = codec.Hex([]byte(d))
	}
	ds := strings.Join(hx, ",")
	if ds == "" {
		ds = "-"
	}
	return "compiled\t" + ds + "\t" + ast + "\t#" + codec.Hex([]byte(src))
}

func disCompileReplay(line string) (string, error) {
	f := strings.Split(line, "\t")
	if len(f) != 4 || f[0] != "compiled" || !strings.HasPrefix(f[3], "#") {
		return "", fmt.Errorf("bad compiled line")
	}
	var D []string
	if f[1] != "-" && f[1] != "" {
		for _, h := range strings.Split(f[1], ",") {
			b, err := hex.DecodeString(h)
			if err != nil {
				return "", err
			}
			D = append(D, string(b))
		}
	}
	src, err := hex.DecodeString(f[3][1:])
	if err != nil {
		return "", err
	}
	res, _ := disCompileImpl(string(src), D)
	return res, nil
}

func disCompileCase(c *Ctx, kind, src string, D []string) {
	ast, err := parseToAst(src)
	if err != nil {
		c.Count("parse-error")
		return
	}
	impl, bc := disCompileImpl(src, D)
	key := ""
	switch {
	case strings.HasPrefix(impl, "ok"):
		c.Count(kind + ":ok")
		if len(impl) > 100 {
			key = fmt.Sprintf("%x", hashStr(impl))
		}
	case strings.Contains(impl, "unresolved reference"):
		c.Count(kind + ":unresolved")
		key = fmt.Sprintf("u%x", hashStr(impl+strings.Join(D, ",")))
	default:
		c.Count(kind + ":" + strings.Fields(impl)[0])
	}
	if l := disScan(bc, D); len(l) > 0 {
		c.Violation(PropViolation{"C13", "bytecode contains GETBUILTIN of disabled " + strings.Join(l, ","),
			fmt.Sprintf("{\"D\":%q,\"src\":%q}", strings.Join(D, ","), src), "C13:getbuiltin:main:noopt"})
	}
	c.Add(Case{Line: disCompileLine(D, ast, src), Impl: impl, Key: key})
}

func init() {
	register(&Stream{
		Name: "disablecompile",
		Skip: func(m string) bool { return strings.HasPrefix(m, "unsupported") },
		Same: compileSame,
		Run: func(c *Ctx) {
			c.Rule("the compiler model's disabled-set argument: (a) random programs of stream `compile` (they call len / typeName / append) with a random D of 0..4 names drawn from those and other builtins; (b) the main-file scripts of stream `disable` (reference to a target in D at top level, in functions, closures, blocks, loops, try/catch/finally, with and without declarations of the name) with their D. Real compiler: Compile(NoOptimize, SymbolTable with DisableBuiltin(D...)); model: compileFile builtinsMap D. Compared: byte-identical instructions / constants / NumLocals / NumParams / source maps, or the same error position and kind. Oracle on the implementation: no GETBUILTIN of a member of D in any CompiledFunction.")
			names := disNames()
			root := c.R.Fork()
			progNames := []string{"len", "typeName", "append", "len", "int", "string", "cap", "error"}
			n := 700 * c.Scale
			for i := 0; i < n; i++ {
				r := root.Fork()
				o := gen.DefaultProgOpts()
				o.Floats = r.Bool()
				o.Decls = true
				src := gen.Program(r, o)
				var D []string
				if r.Intn(4) > 0 {
					D = disSubset(r, progNames, 1+r.Intn(3))
				}
				if r.Intn(5) == 0 {
					D = append(D, disSubset(r, names, 1+r.Intn(3))...)
				}
				disCompileCase(c, "prog", src, D)
			}
			m := 1200 * c.Scale
			for i := 0; i < m; i++ {
				g := disGenerate(root.Fork(), names)
				if g.filePl != "main" || len(g.Modules) != 0 || len(g.Fragments) != 1 {
					continue
				}
				disCompileCase(c, "tmpl", g.Fragments[0], g.D)
			}
		},
		Replay: disCompileReplay,
	})
}

// disDeadBranchOracle: "every reference to the name is a compile error unless the script itself declared
// a variable of that name" also for references in code that can never run (constant conditions that
// the optimizer removes before the compiler resolves the names); and in no case may the bytecode
// contain the builtin.
func disDeadBranchOracle(c *Ctx) {
	forms := []struct{ name, src string }{
		{"if-const-false", "if 1 > 2 { T(\"a\") }\nreturn 1"},
		{"if-false-else", "if false { return T } else { return 2 }"},
		{"cond-expr", "return 1 > 2 ? T(\"a\") : 7"},
		{"and-false", "return false && T(1)"},
		{"or-true", "return true || T(1)"},
		{"for-false", "for false { T() }\nreturn 1"},
		{"func-never-called", "f := func() { return T(\"a\") }\nreturn 1"},
		{"after-return", "return 1\nT(\"a\")"},
	}
	for _, t := range []string{"len", "string", "typeName", "println", "append"} {
		for _, f := range forms {
			for _, noOpt := range []bool{false, true} {
				src := strings.ReplaceAll(f.src, "T", t)
				st := ugo.NewSymbolTable()
				st.DisableBuiltin(t)
				c.dist["oracle:disabled-dead-branch"]++
				bc, err := disCompile(src, ugo.CompilerOptions{SymbolTable: st, NoOptimize: noOpt})
				if err != nil {
					if !strings.Contains(err.Error(), "unresolved reference") {
						c.Violation(PropViolation{"C13", "a reference to the disabled builtin " + t + " in dead code fails with another error: " + disFirstLine(err.Error()), src, "C13:wrong-error:dead-branch:" + f.name})
					}
					continue
				}
				if l := disScan(bc, []string{t}); len(l) > 0 {
					c.Violation(PropViolation{"C13", "bytecode contains GETBUILTIN of disabled " + strings.Join(l, ","), src, "C13:getbuiltin:dead-branch:" + f.name})
					continue
				}
				opt := "opt"
				if noOpt {
					opt = "noopt"
				}
				c.Violation(PropViolation{"C13", fmt.Sprintf("a script referencing the disabled builtin %s (never declared by the script) in code that cannot run compiles (NoOptimize=%v); the bytecode does not contain the builtin", t, noOpt), src,
					"C13:ref-compiled:dead-branch:" + f.name + ":" + opt})
			}
		}
	}
}

// disRepeatOracle: a refused script does not weaken the table: the same symbol table (one-shot compiles
// and an Eval session) refuses the reference again after a compilation that failed - for the disabled
// name itself or for any other reason - and still reports the disabled set.
func disRepeatOracle(c *Ctx) {
	for _, t := range []string{"len", "string", "append"} {
		for _, first := range []string{"return T(\"ab\")", "x := 1\nreturn x +", "return undefinedName", "x := 1\nx := 2", "return T"} {
			for _, noOpt := range []bool{false, true} {
				c.dist["oracle:disabled-after-failed-compile"]++
				st := ugo.NewSymbolTable()
				st.DisableBuiltin(t, "cap")
				opts := ugo.CompilerOptions{SymbolTable: st, NoOptimize: noOpt}
				_, err1 := disCompile(strings.ReplaceAll(first, "T", t), opts)
				if err1 == nil {
					continue // reported by the other oracles
				}
				second := "v := [1, 2]\nreturn " + t + "(v)"
				bc, err2 := disCompile(second, opts)
				if err2 == nil {
					what := "compiles"
					if l := disScan(bc, []string{t}); len(l) > 0 {
						what = "compiles to bytecode with GETBUILTIN " + strings.Join(l, ",")
					}
					c.Violation(PropViolation{"C13", fmt.Sprintf("after a compilation with the same symbol table failed (%s), a script that references the disabled builtin %s %s (NoOptimize=%v)", disFirstLine(err1.Error()), t, what, noOpt),
						strings.ReplaceAll(first, "T", t) + "\n---\n" + second, "C13:ref-compiled:after-failed-compile"})
					continue
				}
				if got := fmt.Sprint(st.DisabledBuiltins()); !strings.Contains(got, t) {
					c.Violation(PropViolation{"C13", "after a failed compilation the symbol table no longer reports " + t + " as disabled: " + got, first, "C13:disabled-set-lost"})
				}
				// the same in a session
				st2 := ugo.NewSymbolTable()
				st2.DisableBuiltin(t, "cap")
				ev := ugo.NewEval(ugo.CompilerOptions{SymbolTable: st2, NoOptimize: noOpt}, nil)
				_, _ = disEvalRun(ev, "a := [1, 2, 3]")
				if _, err := disEvalRun(ev, strings.ReplaceAll(first, "T", t)); err == nil {
					continue
				}
				if bc, err := disEvalRun(ev, "return "+t+"(a)"); err == nil {
					_ = bc
					c.Violation(PropViolation{"C13", fmt.Sprintf("Eval session: after a fragment was refused, a later fragment that references the disabled builtin %s compiles and runs (NoOptimize=%v)", t, noOpt),
						strings.ReplaceAll(first, "T", t), "C13:ref-compiled:after-failed-fragment"})
				}
			}
		}
	}
}
