package main

import (
	"fmt"
	"strings"

	"verifharness/gen"
)

// Program generator of stream `v1` (C11): scripts whose bytecode is dense in
// jump-class instructions -- conditionals, C-style / conditional / for-in loops
// with break and continue, `&&` `||` `?:`, try/catch/finally with throws and
// returns at every position, function literals (constants holding their own
// jumps) that call each other, and an optional source module.  One statement per
// line so that a wrong source-map key shows as a wrong line in a stack trace.
// Every loop is bounded, so every program terminates.

type v1prog struct {
	r      *gen.Rand
	sb     strings.Builder
	indent int
	n      int // fresh-name counter
	marker int
	feat   map[string]int
}

type v1scope struct {
	ints   []string // assignable int variables in scope
	ro     []string // readable only (loop counters: assigning them could make a loop endless)
	funcs  []string // two-argument functions in scope
	loops  int      // enclosing loops inside the current function
	inFunc bool
	depth  int
}

func (s v1scope) child() v1scope {
	c := s
	c.ints = append([]string{}, s.ints...)
	c.funcs = append([]string{}, s.funcs...)
	c.ro = append([]string{}, s.ro...)
	c.depth++
	return c
}

func (p *v1prog) line(f string, a ...any) {
	p.sb.WriteString(strings.Repeat("\t", p.indent))
	fmt.Fprintf(&p.sb, f, a...)
	p.sb.WriteByte('\n')
}

func (p *v1prog) fresh(pfx string) string {
	p.n++
	return fmt.Sprintf("%s%d", pfx, p.n)
}

func (p *v1prog) pick(xs []string) string { return xs[p.r.Intn(len(xs))] }

// rd picks a readable variable
func (p *v1prog) rd(s v1scope) string {
	n := len(s.ints) + len(s.ro)
	k := p.r.Intn(n)
	if k < len(s.ints) {
		return s.ints[k]
	}
	return s.ro[k-len(s.ints)]
}

// intExpr: an int-valued expression (may raise ZeroDivisionError / IndexOutOfBounds at run time)
func (p *v1prog) intExpr(s v1scope, d int) string {
	if d <= 0 || p.r.Intn(3) == 0 {
		if p.r.Intn(3) == 0 {
			return fmt.Sprint(p.r.Intn(6))
		}
		return p.rd(s)
	}
	switch p.r.Intn(9) {
	case 0, 1:
		return fmt.Sprintf("(%s + %s)", p.intExpr(s, d-1), p.intExpr(s, d-1))
	case 2:
		return fmt.Sprintf("(%s - %s)", p.intExpr(s, d-1), p.intExpr(s, d-1))
	case 3:
		return fmt.Sprintf("(%s * %s)", p.intExpr(s, d-1), p.intExpr(s, d-1))
	case 4:
		p.feat["cond-expr"]++
		return fmt.Sprintf("(%s ? %s : %s)", p.cond(s, d-1), p.intExpr(s, d-1), p.intExpr(s, d-1))
	case 5:
		if len(s.funcs) > 0 {
			p.feat["call"]++
			return fmt.Sprintf("%s(%s, %s)", p.pick(s.funcs), p.intExpr(s, d-1), p.intExpr(s, d-1))
		}
		return p.rd(s)
	case 6:
		// possible run-time error: division by zero
		p.feat["div"]++
		return fmt.Sprintf("(%s / (%s - %d))", p.intExpr(s, d-1), p.rd(s), p.r.Intn(3))
	case 7:
		// possible run-time error: index out of range
		p.feat["index"]++
		return fmt.Sprintf("[1, 2, 3][%s %% 5]", p.rd(s))
	default:
		return fmt.Sprintf("(%s %% 7)", p.intExpr(s, d-1))
	}
}

func (p *v1prog) cond(s v1scope, d int) string {
	if d <= 0 || p.r.Intn(3) == 0 {
		ops := []string{"<", "<=", "==", "!=", ">", ">="}
		return fmt.Sprintf("%s %s %s", p.intExpr(s, 0), p.pick(ops), p.intExpr(s, 0))
	}
	switch p.r.Intn(5) {
	case 0, 1:
		p.feat["and"]++
		return fmt.Sprintf("(%s && %s)", p.cond(s, d-1), p.cond(s, d-1))
	case 2, 3:
		p.feat["or"]++
		return fmt.Sprintf("(%s || %s)", p.cond(s, d-1), p.cond(s, d-1))
	default:
		return fmt.Sprintf("!(%s)", p.cond(s, d-1))
	}
}

func (p *v1prog) mark() {
	p.marker++
	p.line("lg += \"%c\"", 'A'+rune(p.marker%26))
}

func (p *v1prog) block(s v1scope, n int) {
	p.indent++
	for i := 0; i < n; i++ {
		p.stmt(&s)
	}
	p.indent--
}

func (p *v1prog) blockLen() int { return 1 + p.r.Intn(3) }

func (p *v1prog) stmt(s *v1scope) {
	k := p.r.Intn(100)
	if s.depth >= 4 && k >= 30 {
		k = p.r.Intn(30)
	}
	switch {
	case k < 12:
		p.line("%s = %s", p.pick(s.ints), p.intExpr(*s, 2))
	case k < 20:
		p.line("%s += %s", p.pick(s.ints), p.intExpr(*s, 1))
	case k < 26:
		p.mark()
	case k < 30:
		v := p.fresh("v")
		p.line("%s := %s", v, p.intExpr(*s, 2))
		s.ints = append(s.ints, v)
	case k < 44: // if / else if / else
		p.feat["if"]++
		p.line("if %s {", p.cond(*s, 2))
		p.block(s.child(), p.blockLen())
		for p.r.Intn(3) == 0 {
			p.line("} else if %s {", p.cond(*s, 1))
			p.block(s.child(), p.blockLen())
		}
		if p.r.Bool() {
			p.line("} else {")
			p.block(s.child(), p.blockLen())
		}
		p.line("}")
	case k < 54: // C-style loop
		p.feat["for"]++
		i := p.fresh("i")
		p.line("for %s := 0; %s < %d; %s++ {", i, i, 1+p.r.Intn(4), i)
		c := s.child()
		c.loops++
		c.ro = append(c.ro, i)
		p.block(c, p.blockLen())
		p.line("}")
	case k < 59: // conditional loop
		p.feat["for-cond"]++
		w := p.fresh("w")
		p.line("%s := 0", w)
		p.line("for %s < %d {", w, 1+p.r.Intn(3))
		p.indent++
		p.line("%s++", w)
		p.indent--
		c := s.child()
		c.loops++
		p.block(c, p.blockLen())
		p.line("}")
	case k < 64: // for-in
		p.feat["for-in"]++
		kv, vv := p.fresh("k"), p.fresh("e")
		p.line("for %s, %s in [%d, %d, %d] {", kv, vv, p.r.Intn(5), p.r.Intn(5), p.r.Intn(5))
		c := s.child()
		c.loops++
		c.ints = append(c.ints, kv, vv)
		p.block(c, p.blockLen())
		p.line("}")
	case k < 70: // break / continue under a condition
		if s.loops == 0 {
			p.mark()
			return
		}
		p.line("if %s {", p.cond(*s, 1))
		p.indent++
		if p.r.Bool() {
			p.feat["break"]++
			p.line("break")
		} else {
			p.feat["continue"]++
			p.line("continue")
		}
		p.indent--
		p.line("}")
	case k < 84: // try
		p.feat["try"]++
		shape := p.r.Intn(3) // 0 catch, 1 finally, 2 both
		p.line("try {")
		p.block(s.child(), p.blockLen())
		if shape != 1 {
			e := p.fresh("err")
			p.line("} catch %s {", e)
			p.feat["catch"]++
			c := s.child()
			p.indent++
			p.line("lg += string(%s)", e)
			p.indent--
			p.block(c, p.blockLen())
		}
		if shape != 0 {
			p.feat["finally"]++
			p.line("} finally {")
			p.block(s.child(), p.blockLen())
		}
		p.line("}")
	case k < 89: // throw (possibly under a condition)
		p.feat["throw"]++
		p.marker++
		if p.r.Intn(3) == 0 {
			p.line("throw error(\"E%d\")", p.marker)
		} else {
			p.line("if %s {", p.cond(*s, 1))
			p.indent++
			p.line("throw error(\"E%d\")", p.marker)
			p.indent--
			p.line("}")
		}
	case k < 93: // early return
		p.feat["return"]++
		p.line("if %s {", p.cond(*s, 1))
		p.indent++
		if s.inFunc {
			p.line("return %s", p.intExpr(*s, 1))
		} else {
			p.line("return [%s, lg]", p.intExpr(*s, 1))
		}
		p.indent--
		p.line("}")
	default: // function literal
		p.feat["func"]++
		f := p.fresh("f")
		a, b := p.fresh("p"), p.fresh("q")
		p.line("%s := func(%s, %s) {", f, a, b)
		c := s.child()
		c.inFunc = true
		c.loops = 0
		c.ints = append(c.ints, a, b)
		if p.r.Bool() {
			// no captured variables besides lg: a plain constant function
			c.ints = []string{a, b}
			c.ro = nil
		}
		p.block(c, 1+p.r.Intn(4))
		p.indent++
		p.line("return %s", p.intExpr(c, 2))
		p.indent--
		p.line("}")
		s.funcs = append(s.funcs, f)
	}
}

type v1script struct {
	Main   string
	Module string // source of module "m1" ("" = none)
	Feat   map[string]int
}

// genV1Sparse builds scripts whose functions contain exactly ONE kind of widened instruction
// (only a try/finally, only a `&&`, only a ternary, …), in main or in nested functions that sit
// behind literal constants in the constant table: converter fast paths and per-constant loops
// are exercised in isolation.
func genV1Sparse(r *gen.Rand) v1script {
	feat := map[string]int{"sparse": 1}
	bodies := []string{
		"x := %d\n  try {\n    x = x + p\n  } finally {\n    x = x * 2\n  }\n  return x",
		"x := %d\n  try {\n    x = 10 / p\n  } catch e {\n    x = -1\n  }\n  return x",
		"x := %d\n  try {\n    x = 10 / p\n  } catch e {\n    x = -1\n  } finally {\n    x = x + 100\n  }\n  return x",
		"x := %d\n  return p && x",
		"x := %d\n  return p || x",
		"x := %d\n  return p ? x : 7",
		"x := %d\n  if p {\n    x = x + 1\n  }\n  return x",
		"x := %d\n  for i := 0; i < p; i++ {\n    x = x + i\n  }\n  return x",
		"x := %d\n  for _, e in [p, 2] {\n    x = x + e\n  }\n  return x",
	}
	var sb strings.Builder
	sb.WriteString("param (a, b)\n")
	nf := 1 + r.Intn(3)
	var calls []string
	for i := 0; i < nf; i++ {
		if r.Bool() {
			// a literal constant ahead of the function constant
			fmt.Fprintf(&sb, "s%d := \"lit%d\"\n", i, r.Intn(100))
		}
		b := bodies[r.Intn(len(bodies))]
		fmt.Fprintf(&sb, "f%d := func(p) {\n  "+b+"\n}\n", i, r.Intn(50)+1000*i)
		calls = append(calls, fmt.Sprintf("f%d(%s)", i, []string{"a", "b", "0", "3"}[r.Intn(4)]))
	}
	if r.Intn(3) == 0 {
		// the main function itself contains only a try/finally
		sb.WriteString("lg := \"\"\ntry {\n  lg = lg + \"t\"\n} finally {\n  lg = lg + \"f\"\n}\n")
		calls = append(calls, "lg")
	}
	sb.WriteString("return [" + strings.Join(calls, ", ") + "]\n")
	return v1script{Main: sb.String(), Feat: feat}
}

func genV1Script(r *gen.Rand) v1script {
	if r.Intn(4) == 0 {
		return genV1Sparse(r)
	}
	p := &v1prog{r: r, feat: map[string]int{}}
	out := v1script{Feat: p.feat}
	withMod := r.Intn(5) == 0
	if withMod {
		// module body: like a function body without parameters
		p.line("lg := \"\"")
		p.line("x := %d", r.Intn(4))
		p.line("y := %d", r.Intn(4))
		s := v1scope{ints: []string{"x", "y"}, inFunc: true}
		p.indent--
		p.block(s, 2+r.Intn(4))
		p.indent++
		p.line("return func(p, q) {")
		s2 := v1scope{ints: []string{"p", "q", "x"}, inFunc: true, depth: 1}
		p.block(s2, 1+r.Intn(3))
		p.indent++
		p.line("return %s", p.intExpr(s2, 2))
		p.indent--
		p.line("}")
		out.Module = p.sb.String()
		p.sb.Reset()
		p.feat["module"]++
	}
	p.line("param (a, b)")
	p.line("lg := \"\"")
	p.line("x := 0")
	p.line("y := 1")
	s := v1scope{ints: []string{"a", "b", "x", "y"}}
	if withMod {
		p.line("m1 := import(\"m1\")")
		s.funcs = append(s.funcs, "m1")
	}
	n := 3 + r.Intn(7)
	p.indent--
	p.block(s, n)
	p.indent++
	p.line("return [x, y, lg]")
	out.Main = p.sb.String()
	return out
}
