package main

import (
	"bytes"
	"encoding/hex"
	"encoding/json"
	"errors"
	"fmt"
	"math"
	"os"
	"regexp"
	"sort"
	"strconv"
	"strings"

	"github.com/ozanh/ugo"
	"github.com/ozanh/ugo/encoder"
	"github.com/ozanh/ugo/parser"
	"github.com/ozanh/ugo/token"

	"verifharness/gen"
)

// stream `pos` (C16).
//
// (a) correspondence: random file sets / line tables / positions through the
//     exported parser API, source maps through CompiledFunction.SourcePos, line
//     tables produced by the real scanner, addTrace/StackTrace (verif hook)
//     against the Lean model (lean/UgoVerif/Model/{SourceFile,Trace}.lean).
// (b) the property's own oracle on the implementation: generated scripts with one
//     statement per line in which an error escapes from call depth 0..N; the
//     generator computes the expected (file, line) list independently; compared
//     with StackTrace() and the %+v text x optimizer on/off x encode/decode
//     x k prepended blank lines; every offset is checked against the file text.

// ---------------------------------------------------------------------------
// (a) implementation side of the request lines

func recoverMsg(r any) string { return fmt.Sprintf("panic %v", r) }

func showFilePos(p parser.SourceFilePos) string {
	return fmt.Sprintf("%s,%d,%d,%d", p.Filename, p.Offset, p.Line, p.Column)
}

func showInts(a []int) string {
	s := make([]string, len(a))
	for i, v := range a {
		s[i] = strconv.Itoa(v)
	}
	return strings.Join(s, ",")
}

func parseInts(s string) ([]int, error) {
	if s == "" {
		return nil, nil
	}
	var out []int
	for _, f := range strings.Split(s, ",") {
		v, err := strconv.Atoi(f)
		if err != nil {
			return nil, err
		}
		out = append(out, v)
	}
	return out, nil
}

type fsState struct {
	set   *parser.SourceFileSet
	files []*parser.SourceFile
}

func (st *fsState) index(f *parser.SourceFile) int {
	for i, g := range st.files {
		if g == f {
			return i
		}
	}
	return -1
}

func (st *fsState) op(op string) (res string) {
	defer func() {
		if r := recover(); r != nil {
			res = op[:1] + "=" + recoverMsg(r)
		}
	}()
	f := strings.Split(op, ":")
	atoi := func(s string) int { v, _ := strconv.Atoi(s); return v }
	switch f[0] {
	case "L", "D", "S", "Q", "O", "C":
		if atoi(f[1]) >= len(st.files) {
			return "bad"
		}
	}
	switch f[0] {
	case "A":
		sf := st.set.AddFile(f[1], atoi(f[2]), atoi(f[3]))
		st.files = append(st.files, sf)
		return fmt.Sprintf("A=%d", len(st.files)-1)
	case "L":
		sf := st.files[atoi(f[1])]
		sf.AddLine(atoi(f[2]))
		return fmt.Sprintf("L=%d", sf.LineCount())
	case "D":
		ls, _ := parseInts(f[2])
		if ls == nil {
			ls = []int{}
		}
		st.files[atoi(f[1])].Lines = ls
		return "D"
	case "C":
		if i := atoi(f[1]); i < 0 {
			st.set.LastFile = nil
		} else {
			st.set.LastFile = st.files[i]
		}
		return "C"
	case "P":
		return "P=" + showFilePos(st.set.Position(parser.Pos(atoi(f[1]))))
	case "F":
		sf := st.set.File(parser.Pos(atoi(f[1])))
		if sf == nil {
			return "F=-1"
		}
		return fmt.Sprintf("F=%d", st.index(sf))
	case "S":
		return fmt.Sprintf("S=%d", int(st.files[atoi(f[1])].LineStart(atoi(f[2]))))
	case "Q":
		return "Q=" + showFilePos(st.files[atoi(f[1])].Position(parser.Pos(atoi(f[2]))))
	case "O":
		return fmt.Sprintf("O=%d", st.files[atoi(f[1])].Offset(parser.Pos(atoi(f[2]))))
	}
	return "bad"
}

func (st *fsState) dump() string {
	var fs []string
	for _, f := range st.set.Files {
		fs = append(fs, fmt.Sprintf("%s,%d,%d,[%s]", f.Name, f.Base, f.Size, showInts(f.Lines)))
	}
	return fmt.Sprintf("%d|%s|%d", st.set.Base, strings.Join(fs, ";"), st.index(st.set.LastFile))
}

func runFsOps(ops string) (*fsState, []string) {
	st := &fsState{set: parser.NewFileSet()}
	var rs []string
	for _, op := range strings.Fields(ops) {
		rs = append(rs, st.op(op))
	}
	return st, rs
}

func posImplFs(ops string) string {
	st, rs := runFsOps(ops)
	return strings.Join(rs, ";") + "#" + st.dump()
}

// posImplFp: getFrameSourcePos / getSourcePos through the verif hook
func posImplFp(sm, ips string) (string, error) {
	m := map[int]int{}
	if sm != "" {
		for _, kv := range strings.Split(sm, ",") {
			p := strings.Split(kv, ":")
			if len(p) != 2 {
				return "", fmt.Errorf("bad source map")
			}
			k, _ := strconv.Atoi(p[0])
			v, _ := strconv.Atoi(p[1])
			m[k] = v
		}
	}
	is, err := parseInts(ips)
	if err != nil {
		return "", err
	}
	fr := make([]int, len(is))
	cu := make([]int, len(is))
	for i, ip := range is {
		fr[i] = int(ugo.VerifFrameSourcePos(m, ip))
		cu[i] = int(ugo.VerifCurSourcePos(m, ip))
	}
	return showInts(fr) + "#" + showInts(cu), nil
}

func posImplSp(sm, ips string) (string, error) {
	m := map[int]int{}
	if sm != "" {
		for _, kv := range strings.Split(sm, ",") {
			p := strings.Split(kv, ":")
			if len(p) != 2 {
				return "", fmt.Errorf("bad source map")
			}
			k, _ := strconv.Atoi(p[0])
			v, _ := strconv.Atoi(p[1])
			m[k] = v
		}
	}
	cf := &ugo.CompiledFunction{SourceMap: m}
	is, err := parseInts(ips)
	if err != nil {
		return "", err
	}
	out := make([]int, len(is))
	for i, ip := range is {
		out[i] = int(cf.SourcePos(ip))
	}
	return showInts(out), nil
}

// posImplScan runs the real scanner over the text and returns the file's line table.
func posImplScan(hx string) (res string, err error) {
	src, err := hex.DecodeString(hx)
	if err != nil {
		return "", err
	}
	defer func() {
		if r := recover(); r != nil {
			res = recoverMsg(r)
		}
	}()
	fs := parser.NewFileSet()
	f := fs.AddFile("t", -1, len(src))
	sc := parser.NewScanner(f, src, nil, parser.ScanComments)
	for i := 0; i <= len(src)+2; i++ {
		tok, _, _ := sc.Scan()
		if tok == token.EOF {
			break
		}
	}
	return showInts(f.Lines), nil
}

func showStack(st ugo.StackTrace) string {
	s := make([]string, len(st))
	for i, p := range st {
		s[i] = showFilePos(p)
	}
	return strings.Join(s, ";")
}

func safeStack(e *ugo.RuntimeError) (res string) {
	defer func() {
		if r := recover(); r != nil {
			res = recoverMsg(r)
		}
	}()
	return showStack(e.StackTrace())
}

// posImplTr: addTrace sequence (through the verif hook), StackTrace without and with a file set.
func posImplTr(ops, adds string, useAdd bool) (string, error) {
	ps, err := parseInts(adds)
	if err != nil {
		return "", err
	}
	st, _ := runFsOps(ops)
	e := &ugo.RuntimeError{}
	for _, p := range ps {
		if useAdd {
			e.VerifAddTrace(parser.Pos(p))
		} else {
			e.Trace = append(e.Trace, parser.Pos(p))
		}
	}
	tr := make([]int, len(e.Trace))
	for i, p := range e.Trace {
		tr[i] = int(p)
	}
	raw := safeStack(e)
	e.VerifSetFileSet(st.set)
	with := safeStack(e)
	return showInts(tr) + "#" + raw + "#" + with, nil
}

func posReplay(line string) (string, error) {
	f := strings.Split(line, "\t")
	if len(f) < 3 || f[0] != "pos" {
		return "", fmt.Errorf("bad pos line")
	}
	switch {
	case f[1] == "fs" && len(f) == 3:
		return posImplFs(f[2]), nil
	case f[1] == "sp" && len(f) == 4:
		return posImplSp(f[2], f[3])
	case f[1] == "fp" && len(f) == 4:
		return posImplFp(f[2], f[3])
	case f[1] == "scan" && len(f) == 3:
		return posImplScan(f[2])
	case f[1] == "tr" && len(f) == 4:
		return posImplTr(f[2], f[3], true)
	case f[1] == "st" && len(f) == 4:
		return posImplTr(f[2], f[3], false)
	}
	return "", fmt.Errorf("bad pos line")
}

// ---------------------------------------------------------------------------
// (a) generators

func genFsOps(r *gen.Rand) string {
	var ops []string
	type fi struct{ base, size int }
	var files []fi
	base := 1
	nf := 1 + r.Intn(4)
	interesting := []int{0, -1, 1}
	for i := 0; i < nf; i++ {
		size := r.Intn(30)
		if r.Intn(6) == 0 {
			size = 0
		}
		b := -1
		switch r.Intn(12) {
		case 0:
			b = base + r.Intn(5) // explicit base, gap allowed
		case 1:
			b = base - 1 - r.Intn(3) // illegal (or -1.. => default when negative)
		case 2:
			size = -1 - r.Intn(2) // illegal size
		case 3:
			if r.Intn(4) == 0 {
				b = math.MaxInt64 - r.Intn(6) // offset overflow
				size = r.Intn(8)
			}
		}
		ops = append(ops, fmt.Sprintf("A:f%d:%d:%d", i, b, size))
		eb := b
		if eb < 0 {
			eb = base
		}
		if eb < base || size < 0 || eb > math.MaxInt64-size-1 {
			// rejected by AddFile: later ops must not refer to it; retry with a plain file
			size = r.Intn(20)
			ops = append(ops, fmt.Sprintf("A:f%d:-1:%d", i, size))
			eb = base
		}
		idx := len(files)
		files = append(files, fi{eb, size})
		base = eb + size + 1
		// line table
		off := 0
		for n := r.Intn(8); n > 0; n-- {
			switch r.Intn(10) {
			case 0:
				// repeated / decreasing / out of range offsets: rejected by the guards
				ops = append(ops, fmt.Sprintf("L:%d:%d", idx, off-r.Intn(3)))
			case 1:
				ops = append(ops, fmt.Sprintf("L:%d:%d", idx, size+r.Intn(3)))
			default:
				off += 1 + r.Intn(6)
				ops = append(ops, fmt.Sprintf("L:%d:%d", idx, off))
			}
		}
		if r.Intn(15) == 0 {
			// raw line table (exported field): possibly empty or unsorted
			var ls []int
			for n := r.Intn(5); n > 0; n-- {
				ls = append(ls, r.Intn(size+2)-1)
			}
			ops = append(ops, fmt.Sprintf("D:%d:%s", idx, showInts(ls)))
			if r.Bool() {
				ops = append(ops, fmt.Sprintf("L:%d:%d", idx, r.Intn(size+1)))
			}
		}
		interesting = append(interesting, eb-1, eb, eb+1, eb+size-1, eb+size, eb+size+1, eb+off, eb+off-1, eb+off+1)
	}
	nq := 6 + r.Intn(10)
	for q := 0; q < nq; q++ {
		p := interesting[r.Intn(len(interesting))]
		if r.Intn(4) == 0 {
			p = r.Intn(base+3) - 1
		}
		fidx := r.Intn(len(files))
		switch r.Intn(12) {
		case 0:
			ops = append(ops, fmt.Sprintf("C:%d", r.Intn(len(files)+1)-1))
		case 1, 2:
			ops = append(ops, fmt.Sprintf("F:%d", p))
		case 3:
			ops = append(ops, fmt.Sprintf("S:%d:%d", fidx, r.Intn(10)-1))
		case 4:
			ops = append(ops, fmt.Sprintf("Q:%d:%d", fidx, files[fidx].base+r.Intn(files[fidx].size+3)-1))
		case 5:
			ops = append(ops, fmt.Sprintf("O:%d:%d", fidx, files[fidx].base+r.Intn(files[fidx].size+3)-1))
		default:
			ops = append(ops, fmt.Sprintf("P:%d", p))
		}
	}
	return strings.Join(ops, " ")
}

func genSp(r *gen.Rand) (string, string) {
	n := r.Intn(9)
	keys := map[int]bool{}
	var kv []string
	var ips []int
	for i := 0; i < n; i++ {
		k := r.Intn(40)
		if r.Intn(12) == 0 {
			k = -1 - r.Intn(3)
		}
		if keys[k] {
			continue
		}
		keys[k] = true
		kv = append(kv, fmt.Sprintf("%d:%d", k, r.Intn(200)))
		ips = append(ips, k-1, k, k+1)
	}
	for i := 0; i < 4; i++ {
		ips = append(ips, r.Intn(60)-3)
	}
	return strings.Join(kv, ","), showInts(ips)
}

func genText(r *gen.Rand) []byte {
	alpha := []string{"a", "b", " ", "\n", "\n", "\n", "\r\n", "\"", "`", "/", "*", "//", "/*", "*/", "é", "\\", "x := 1", ";", "\xff", "'"}
	var b []byte
	for n := r.Intn(25); n > 0; n-- {
		b = append(b, alpha[r.Intn(len(alpha))]...)
	}
	if r.Intn(3) == 0 {
		b = append(bytes.Repeat([]byte("\n"), []int{1, 2, 7}[r.Intn(3)]), b...)
	}
	return b
}

func fsOpsOf(set *parser.SourceFileSet) string {
	var ops []string
	for i, f := range set.Files {
		ops = append(ops, fmt.Sprintf("A:%s:%d:%d", f.Name, f.Base, f.Size), fmt.Sprintf("D:%d:%s", i, showInts(f.Lines)))
	}
	return strings.Join(ops, " ")
}

// ---------------------------------------------------------------------------
// (b) script generator with independently computed expected lines

type pFile struct {
	name  string
	lines []string
}

func (f *pFile) add(s string) int { f.lines = append(f.lines, s); return len(f.lines) }
func (f *pFile) text() string     { return strings.Join(f.lines, "\n") + "\n" }

type pEntry struct {
	File string `json:"file"`
	Line int    `json:"line"`
}

type pProg struct {
	Files    map[string]string `json:"files"` // name -> text ("(main)" is the script)
	Expected []pEntry          `json:"expected"`
	Shape    []string          `json:"shape"`
}

type pLevel struct {
	file    *pFile
	name    string // function name ("" for a top level / module body)
	rec     int
	recTail bool
	inBody  bool // lives in a self-contained module (direct calls only, no fns array)
	tailLn  int  // line of the self tail call (recTail)
	entries []pEntry
}

type pGen struct {
	r     *gen.Rand
	shape map[string]bool
	uniq  int
}

func (g *pGen) mark(s string) { g.shape[s] = true }

// W is replaced by a fresh identifier
var fillerStmts = []string{
	"W := 1", "W := 1 + 2 * 3", "W := \"a\" + \"b\"", "// a comment line", "", "if false { W := 3 }",
	"const W = 5", "W := [1, 2, 3]", "W := {a: 1}", "W := 2 > 1 ? 10 : 20", "/* block comment */",
	"W := func(q) { return q }", "if true { W := 3 }", "W := len(\"abc\")", "for i := 0; i < 2; i++ { W := i }",
	"W := 1; W = W + 1",
}

func (g *pGen) fillers(f *pFile, ind string, max int) {
	for n := g.r.Intn(max + 1); n > 0; n-- {
		g.uniq++
		if g.r.Intn(6) == 0 {
			// a block comment (or a raw string) that spans several lines: every newline inside it counts
			k := 1 + g.r.Intn(3)
			if g.r.Bool() {
				f.add(ind + "/* a block comment")
				for i := 0; i < k; i++ {
					f.add(ind + " * over several lines")
				}
				f.add(ind + " */")
			} else {
				f.add(ind + fmt.Sprintf("w%d := `raw", g.uniq))
				for i := 0; i < k; i++ {
					f.add("string line")
				}
				// the closing back-quote on a line of its own (the body ends in a newline), or after text
				if g.r.Bool() {
					f.add("`")
				} else {
					f.add("end`")
				}
			}
			continue
		}
		f.add(ind + strings.ReplaceAll(fillerStmts[g.r.Intn(len(fillerStmts))], "W", fmt.Sprintf("w%d", g.uniq)))
	}
}

// wrap emits statement `stmt` (one line) inside a randomly chosen enclosing
// construct, every part on its own line; returns the line number of `stmt`.
func (g *pGen) wrap(f *pFile, ind string, stmt string, allowReturnless bool) int {
	var ln int
	kind := g.r.Intn(16)
	if v := os.Getenv("POS_WRAP"); v != "" && kind < 9 {
		kind, _ = strconv.Atoi(v)
	}
	switch kind {
	case 0:
		g.mark("try-fin")
		f.add(ind + "try {")
		ln = f.add(ind + "  " + stmt)
		f.add(ind + "} finally {")
		f.add(ind + "  wf := 1")
		f.add(ind + "}")
	case 1:
		g.mark("in-finally")
		f.add(ind + "try {")
		f.add(ind + "  wf := 1")
		f.add(ind + "} finally {")
		ln = f.add(ind + "  " + stmt)
		f.add(ind + "}")
	case 2:
		g.mark("in-catch")
		f.add(ind + "try {")
		f.add(ind + "  throw \"c\"")
		f.add(ind + "} catch e {")
		ln = f.add(ind + "  " + stmt)
		f.add(ind + "}")
	case 3:
		g.mark("in-for")
		f.add(ind + "for i := 0; i < 2; i++ {")
		ln = f.add(ind + "  " + stmt)
		f.add(ind + "}")
	case 4:
		g.mark("in-if")
		f.add(ind + "if z == 0 {")
		ln = f.add(ind + "  " + stmt)
		f.add(ind + "}")
	case 5:
		g.mark("in-catch-finally")
		f.add(ind + "try {")
		f.add(ind + "  throw \"c\"")
		f.add(ind + "} catch e {")
		f.add(ind + "  wf := 1")
		f.add(ind + "} finally {")
		ln = f.add(ind + "  " + stmt)
		f.add(ind + "}")
	case 6:
		g.mark("nested-try-fin")
		f.add(ind + "try {")
		f.add(ind + "  try {")
		ln = f.add(ind + "    " + stmt)
		f.add(ind + "  } finally {")
		f.add(ind + "    wf := 1")
		f.add(ind + "  }")
		f.add(ind + "} finally {")
		f.add(ind + "  wg := 1")
		f.add(ind + "}")
	case 7:
		g.mark("after-completed-try")
		f.add(ind + "try {")
		f.add(ind + "  wf := 1")
		f.add(ind + "} finally {")
		f.add(ind + "  wg := 1")
		f.add(ind + "}")
		ln = f.add(ind + stmt)
	case 8:
		g.mark("else-branch")
		f.add(ind + "if z != 0 {")
		f.add(ind + "  wf := 1")
		f.add(ind + "} else {")
		ln = f.add(ind + "  " + stmt)
		f.add(ind + "}")
	default:
		ln = f.add(ind + stmt)
	}
	return ln
}

// failStmt returns a single-line statement that raises a run-time error.
func (g *pGen) failStmt(topLevel bool) string {
	kinds := []struct{ key, s string }{
		{"throw-str", "throw \"boom\""},
		{"throw-err", "throw error(\"boom\")"},
		{"throw-typed", "throw TypeError.New(\"boom\")"},
		{"div0", "y := 1 / z"},
		{"div0-expr", "y := (1 + 2) / (z * 1) + 3"},
		{"rem0", "y := 10 % z"},
		{"div0-assign", "z /= z"},
		{"builtin", "y := int(fns)"},
		{"builtin2", "y := append(z, 1)"},
		{"not-callable", "y := z()"},
		{"index-oob", "y := [1, 2][z + 5]"},
		{"not-indexable", "y := z.a.b"},
		{"not-index-assignable", "z[0] = 1"},
		{"unary", "y := -[z]"},
		{"neg-shift", "y := 1 << (z - 1)"},
		{"not-iterable", "for x in z { }"},
		{"argc-few", "y := func(a, b) { return a }(z)"},
		{"argc-many", "y := func(a) { return a }(z, z)"},
		{"argc-builtin", "y := len(z, z)"},
		{"return-fail", "return 1 / z"},
		{"cond-fail", "if 1 / z > 0 { z = 1 }"},
		{"arg-fail", "y := len([1 / z])"},
		{"callname-fail", "y := z.foo(1)"},
		// the leftmost operand of the failing operator is a constant identifier: the optimizer replaces
		// it by a literal, which must keep the identifier's position
		{"const-left-div", "const pk = 7; y := pk / z"},
		{"const-left-sub", "const pk = 7; y := pk - fns"},
		{"const-left-index", "const pk = \"s\"; y := pk[z + 9]"},
		{"const-left-call", "const pk = 7; y := pk(z)"},
		{"const-left-cmp", "const pk = 7; if pk < fns { z = 1 }"},
		// the leftmost operand is an expression the optimizer folds into ONE literal, which must keep the
		// position of the expression it replaces
		{"fold-left-float", "y := 2.5 * 4.0 - fns"},
		{"fold-left-int", "y := (2 + 3) - fns"},
		{"fold-left-str", "y := (\"a\" + \"b\") - z"},
		{"fold-left-unary", "y := (-(3)) - fns"},
		{"fold-left-builtin", "y := len(\"ab\") - fns"},
		{"fold-left-cond", "y := (1 > 2 ? 3 : 4.5) / fns"},
		{"fold-left-uint-char", "y := (3u + 'a') - fns"},
	}
	k := kinds[g.r.Intn(len(kinds))]
	g.mark("fail:" + k.key)
	return k.s
}

// callStmt returns a single-line statement that calls `callee` with (z, fns, n);
// extra = number of additional frames whose call position is on the same line.
func (g *pGen) callStmt(callee string, n int) (stmt string, extra int) {
	args := fmt.Sprintf("(z, fns, %d)", n)
	switch g.r.Intn(8) {
	case 0:
		g.mark("spread")
		args = fmt.Sprintf("(...[z, fns, %d])", n)
	case 1:
		g.mark("spread")
		args = fmt.Sprintf("(z, ...[fns, %d])", n)
	}
	call := callee + args
	switch g.r.Intn(14) {
	case 0:
		g.mark("call:expr-stmt")
		return call, 0
	case 1:
		g.mark("call:return")
		return "return " + call, 0
	case 2:
		g.mark("call:in-expr")
		return "r := 1 + " + call + " * 2", 0
	case 3:
		g.mark("call:if-cond")
		return "if " + call + " { z = 1 }", 0
	case 4:
		g.mark("call:in-array")
		return "r := [0, " + call + "]", 0
	case 5:
		g.mark("call:in-map")
		return "r := {k: " + call + "}", 0
	case 6:
		g.mark("call:iife")
		return fmt.Sprintf("r := func(q) { return %s(q, fns, %d) }(z)", callee, n), 1
	case 7:
		g.mark("call:callname")
		return fmt.Sprintf("r := {f: %s}.f%s", callee, args), 0
	case 8:
		g.mark("call:as-arg")
		return "r := len([" + call + "])", 0
	case 9:
		g.mark("call:assign")
		return "z = " + call, 0
	case 10:
		g.mark("call:ternary")
		return "r := z == 0 ? " + call + " : 0", 0
	default:
		g.mark("call:define")
		return "r := " + call, 0
	}
}

func (g *pGen) build(depth, k int) *pProg {
	r := g.r
	main := &pFile{name: "(main)"}
	for i := 0; i < k; i++ {
		main.add("")
	}
	mods := map[string]*pFile{}
	modK := 0
	if r.Bool() {
		modK = k
	}
	getMod := func(name string) *pFile {
		if m, ok := mods[name]; ok {
			return m
		}
		m := &pFile{name: name}
		for i := 0; i < modK; i++ {
			m.add("")
		}
		mods[name] = m
		return m
	}
	// levels[0] = main top level; levels[i] = i-th function of the chain (or a module body)
	levels := make([]*pLevel, depth+1)
	levels[0] = &pLevel{file: main}
	bodyAt := -1 // level index that is a module body (levels > bodyAt live in that module)
	if depth >= 1 && r.Intn(5) == 0 {
		bodyAt = 1 + r.Intn(depth)
		g.mark("module-body")
	}
	for i := 1; i <= depth; i++ {
		lv := &pLevel{}
		switch {
		case bodyAt >= 0 && i >= bodyAt:
			lv.file = getMod("mb")
			lv.inBody = true
			if i > bodyAt {
				lv.name = fmt.Sprintf("g%d", i)
			}
		case r.Intn(10) < 3:
			lv.file = getMod(fmt.Sprintf("m%d", 1+r.Intn(2)))
			lv.name = fmt.Sprintf("f%d", i)
			g.mark("module-fn")
		default:
			lv.file = main
			lv.name = fmt.Sprintf("f%d", i)
		}
		if lv.name != "" && r.Intn(5) == 0 {
			lv.rec = 1 + r.Intn(3)
			lv.recTail = r.Intn(3) == 0
			if lv.recTail {
				g.mark("self-tail")
			} else {
				g.mark("recursion")
			}
		}
		levels[i] = lv
	}
	// expression that level i uses to reach level i+1's function
	calleeExpr := func(i int) string {
		nx := levels[i+1]
		cur := levels[i]
		if cur.inBody || (nx.file == cur.file && r.Intn(3) > 0) {
			if nx.file != cur.file {
				panic("generator: cross-file direct call")
			}
			return nx.name
		}
		if nx.file != main && nx.rec > 0 && nx.recTail {
			// The value reached through the imported module is a Copy() of the module's
			// function (OpStoreModule), so the first recursive call is not recognised as
			// a self call (cfunc != curFrame.fn): one frame stays active at the tail-call
			// line; the following calls re-use that frame.
			g.mark("self-tail-via-module-copy")
			nx.entries = append([]pEntry{{nx.file.name, nx.tailLn}}, nx.entries...)
		}
		return fmt.Sprintf("fns[%d]", i)
	}
	// action of level i: call the next level (or import the module body) or fail
	action := func(i int, f *pFile, ind string, top bool) {
		lv := levels[i]
		if i == depth {
			ln := g.wrap(f, ind, g.failStmt(top), true)
			lv.entries = append(lv.entries, pEntry{f.name, ln})
			return
		}
		if i+1 == bodyAt {
			stmt := []string{"mbv := import(\"mb\")", "return import(\"mb\")", "mbv := [import(\"mb\")]"}[r.Intn(3)]
			ln := g.wrap(f, ind, stmt, true)
			lv.entries = append(lv.entries, pEntry{f.name, ln})
			return
		}
		stmt, extra := g.callStmt(calleeExpr(i), levels[i+1].rec)
		ln := g.wrap(f, ind, stmt, true)
		for e := 0; e <= extra; e++ {
			lv.entries = append(lv.entries, pEntry{f.name, ln})
		}
	}
	// function definitions, innermost first
	for i := depth; i >= 1; i-- {
		lv := levels[i]
		f := lv.file
		if lv.name == "" {
			continue // module body: emitted below
		}
		if lv.rec > 0 || r.Intn(6) == 0 {
			f.add("var " + lv.name)
			f.add(lv.name + " = func(z, fns, n) {")
		} else {
			f.add(lv.name + " := func(z, fns, n) {")
		}
		g.fillers(f, "  ", 2)
		if lv.rec > 0 {
			f.add("  if n > 0 {")
			if lv.recTail {
				lv.tailLn = f.add(fmt.Sprintf("    return %s(z, fns, n - 1)", lv.name))
			} else {
				ln := f.add(fmt.Sprintf("    r := %s(z, fns, n - 1)", lv.name))
				f.add("    return r")
				for c := 0; c < lv.rec; c++ {
					lv.entries = append(lv.entries, pEntry{f.name, ln})
				}
			}
			f.add("  }")
		}
		g.fillers(f, "  ", 2)
		action(i, f, "  ", false)
		g.fillers(f, "  ", 2)
		if r.Bool() {
			f.add("  return 0")
		}
		f.add("}")
		g.fillers(f, "", 1)
	}
	// module body level
	if bodyAt >= 0 {
		f := getMod("mb")
		// the functions of deeper levels were emitted above (they precede the body statements)
		f.add("z := 0")
		f.add("fns := []")
		g.fillers(f, "", 2)
		action(bodyAt, f, "", true)
		g.fillers(f, "", 1)
		f.add("return 1")
	}
	// exporting modules
	for name, m := range mods {
		if name == "mb" {
			continue
		}
		var ex []string
		for i := 1; i <= depth; i++ {
			if levels[i].file == m {
				ex = append(ex, fmt.Sprintf("%s: %s", levels[i].name, levels[i].name))
			}
		}
		m.add("return {" + strings.Join(ex, ", ") + "}")
	}
	// main top level (the function definitions of main are already in place: imports must
	// come first, so they are spliced in after the k blank lines)
	var head []string
	names := make([]string, 0, len(mods))
	for name := range mods {
		if name != "mb" {
			names = append(names, name)
		}
	}
	sort.Strings(names)
	for _, name := range names {
		head = append(head, fmt.Sprintf("%s := import(\"%s\")", name, name))
	}
	head = append(head, "z := 0")
	shift := len(head)
	main.lines = append(append(append([]string{}, main.lines[:k]...), head...), main.lines[k:]...)
	for _, lv := range levels {
		for j := range lv.entries {
			if lv.entries[j].File == main.name {
				lv.entries[j].Line += shift
			}
		}
	}
	var arr []string
	lastFn := depth
	if bodyAt >= 0 {
		lastFn = bodyAt - 1
	}
	for i := 1; i <= lastFn; i++ {
		if levels[i].file == main {
			arr = append(arr, levels[i].name)
		} else {
			arr = append(arr, levels[i].file.name+"."+levels[i].name)
		}
	}
	main.add("fns := [" + strings.Join(arr, ", ") + "]")
	g.fillers(main, "", 2)
	action(0, main, "", true)
	g.fillers(main, "", 2)

	p := &pProg{Files: map[string]string{main.name: main.text()}}
	for name, m := range mods {
		p.Files[name] = m.text()
	}
	for _, lv := range levels {
		p.Expected = append(p.Expected, lv.entries...)
	}
	for s := range g.shape {
		p.Shape = append(p.Shape, s)
	}
	sort.Strings(p.Shape)
	return p
}

// blank lines prepended afterwards: the same program text with k more lines
func posFileStartProgs() []*pProg {
	return []*pProg{
		{Files: map[string]string{"(main)": "[1][import(\"ma\").k]\n", "ma": "return {k: 5}\n"},
			Expected: []pEntry{{"(main)", 1}}, Shape: []string{"file-start"}},
		{Files: map[string]string{"(main)": "x := import(\"mb\")\ny := import(\"ma\")\n", "ma": "[1][5]\nreturn 1\n", "mb": "return 2\n"},
			Expected: []pEntry{{"(main)", 2}, {"ma", 1}}, Shape: []string{"file-start"}},
		{Files: map[string]string{"(main)": "import(\"ma\").f(0)\n", "ma": "return {f: func(x) { return 1 / x }}\n"},
			Expected: []pEntry{{"(main)", 1}, {"ma", 1}}, Shape: []string{"file-start"}},
		{Files: map[string]string{"(main)": "a := import(\"mb\")\nb := import(\"ma\")\n", "mb": "[1][5]\nreturn 2\n", "ma": "return 1\n"},
			Expected: []pEntry{{"(main)", 1}, {"mb", 1}}, Shape: []string{"file-start"}},
		{Files: map[string]string{"(main)": "f := import(\"ma\")\nf(0)\n", "ma": "return func(x) {\n  return [x][1]\n}\n", "mz": "return 0\n"},
			Expected: []pEntry{{"(main)", 2}, {"ma", 2}}, Shape: []string{"file-start"}},
		{Files: map[string]string{"(main)": "s := `first\nsecond\n`\nt := `\n`\nf := func(x) {\n  return 1 / x\n}\nf(0)\n"},
			Expected: []pEntry{{"(main)", 9}, {"(main)", 7}}, Shape: []string{"raw-string-lines"}},
		// a literal constant referenced on several lines: every reference keeps its own position
		{Files: map[string]string{"(main)": "const k = 3\na := k + 1\nf := func(v) {\n  return k - v\n}\nb := k * 2\nf(\"s\")\n"},
			Expected: []pEntry{{"(main)", 7}, {"(main)", 4}}, Shape: []string{"const-refs"}},
		{Files: map[string]string{"(main)": "const (\n  k = 3\n  m = \"s\"\n)\nx := k + 1\ny := m + \"t\"\nz := k - y\n"},
			Expected: []pEntry{{"(main)", 7}}, Shape: []string{"const-refs"}},
		{Files: map[string]string{"(main)": "const k = 2.5\ng := func(v) {\n  return v\n}\ng(k)\nh := func(v) {\n  return k % v\n}\nh(\"x\")\n"},
			Expected: []pEntry{{"(main)", 9}, {"(main)", 7}}, Shape: []string{"const-refs"}},
	}
}

func shiftProg(p *pProg, k int) *pProg {
	q := &pProg{Files: map[string]string{}, Shape: p.Shape}
	for n, t := range p.Files {
		if n == "(main)" {
			t = strings.Repeat("\n", k) + t
		}
		q.Files[n] = t
	}
	for _, e := range p.Expected {
		if e.File == "(main)" {
			e.Line += k
		}
		q.Expected = append(q.Expected, e)
	}
	return q
}

type pRun struct {
	compileErr string
	noError    bool
	panicked   string
	notRuntime string
	stack      ugo.StackTrace
	formatted  string
	trace      []int
	fileSet    *parser.SourceFileSet
	bytecode   *ugo.Bytecode
}

func posRunProg(p *pProg, optimize, roundTrip bool) (res pRun) {
	defer func() {
		if r := recover(); r != nil {
			res.panicked = fmt.Sprint(r)
		}
	}()
	mm := ugo.NewModuleMap()
	for n, t := range p.Files {
		if n != "(main)" {
			mm.AddSourceModule(n, []byte(t))
		}
	}
	opts := ugo.CompilerOptions{ModuleMap: mm, NoOptimize: !optimize}
	bc, err := ugo.Compile([]byte(p.Files["(main)"]), opts)
	if err != nil {
		res.compileErr = err.Error()
		return
	}
	if roundTrip {
		var buf bytes.Buffer
		if err := (*encoder.Bytecode)(bc).Encode(&buf); err != nil {
			res.compileErr = "encode: " + err.Error()
			return
		}
		bc2, err := encoder.DecodeBytecodeFrom(&buf, mm)
		if err != nil {
			res.compileErr = "decode: " + err.Error()
			return
		}
		bc = bc2
	}
	res.bytecode = bc
	_, err = ugo.NewVM(bc).Run(nil)
	if err == nil {
		res.noError = true
		return
	}
	var re *ugo.RuntimeError
	if !errors.As(err, &re) {
		res.notRuntime = err.Error()
		return
	}
	res.stack = re.StackTrace()
	res.formatted = fmt.Sprintf("%+v", re)
	for _, t := range re.Trace {
		res.trace = append(res.trace, int(t))
	}
	res.fileSet = bc.FileSet
	return
}

var posLineRe = regexp.MustCompile(`(?m)^\s+(?:at )?(\S+):(\d+):(\d+)$`)

// independent line/column of a byte offset in a text
func lineColOf(text string, off int) (int, int) {
	line, last := 1, -1
	for i := 0; i < off && i < len(text); i++ {
		if text[i] == '\n' {
			line++
			last = i
		}
	}
	return line, off - last
}

func entriesString(es []pEntry) string {
	s := make([]string, len(es))
	for i, e := range es {
		s[i] = fmt.Sprintf("%s:%d", e.File, e.Line)
	}
	return strings.Join(s, " ")
}

// posJudge compares one run with the expected entries; returns "" when the property holds.
func posJudge(p *pProg, res pRun) (what, kind string) {
	switch {
	case res.compileErr != "":
		return "generator: script does not compile: " + res.compileErr, "generator"
	case res.panicked != "":
		return "", "go-panic" // not a C16 matter (C06)
	case res.noError:
		return "", "no-error" // control-flow defect elsewhere (C03): nothing to judge
	case res.notRuntime != "":
		return "uncaught error is not a *RuntimeError: " + res.notRuntime, "not-runtime-error"
	}
	var got []pEntry
	for _, sp := range res.stack {
		got = append(got, pEntry{sp.Filename, sp.Line})
	}
	if entriesString(got) != entriesString(p.Expected) {
		return fmt.Sprintf("stack trace lines [%s], expected [%s]", entriesString(got), entriesString(p.Expected)), "lines"
	}
	for _, sp := range res.stack {
		text, ok := p.Files[sp.Filename]
		if !ok {
			return "reported file " + sp.Filename + " is not part of the program", "file"
		}
		if sp.Offset < 0 || sp.Offset > len(text) {
			return fmt.Sprintf("offset %d outside the text of %s (len %d)", sp.Offset, sp.Filename, len(text)), "offset"
		}
		l, c := lineColOf(text, sp.Offset)
		if l != sp.Line || c != sp.Column {
			return fmt.Sprintf("offset %d of %s is line %d column %d, reported %d:%d", sp.Offset, sp.Filename, l, c, sp.Line, sp.Column), "linecol"
		}
	}
	// the %+v text carries the same positions in the same order
	ms := posLineRe.FindAllStringSubmatch(res.formatted, -1)
	var txt []string
	for _, m := range ms {
		txt = append(txt, m[1]+":"+m[2]+":"+m[3])
	}
	var want []string
	for _, sp := range res.stack {
		want = append(want, fmt.Sprintf("%s:%d:%d", sp.Filename, sp.Line, sp.Column))
	}
	if strings.Join(txt, " ") != strings.Join(want, " ") {
		return fmt.Sprintf("%%+v text lists [%s], StackTrace() [%s]", strings.Join(txt, " "), strings.Join(want, " ")), "format"
	}
	return "", ""
}

// posCovJudge checks on the bytecode the real compiler produced (optimizer on or off, functions
// of source modules included) what Props/C16 `compileFile_cov` proves of the compile model: every
// instruction start of every compiled function has its own source-map entry; a CALL / CALLNAME is
// followed by an instruction; and - the scripts have one statement per line - the entry of that
// instruction (what a caller frame reports: SourcePos(frame.ip+1) = SourcePos(p+3)) lies on the
// line of the entry of the call itself.  Returns "" when all of it holds.
func posCovJudge(bc *ugo.Bytecode) (what string) {
	defer func() {
		if r := recover(); r != nil {
			what = "panic while walking the bytecode: " + fmt.Sprint(r)
		}
	}()
	fns := []*ugo.CompiledFunction{bc.Main}
	for _, c := range bc.Constants {
		if f, ok := c.(*ugo.CompiledFunction); ok {
			fns = append(fns, f)
		}
	}
	lineOf := func(p int) string {
		if p == 0 {
			return "-"
		}
		fp := bc.FileSet.Position(parser.Pos(p))
		return fmt.Sprintf("%s:%d", fp.Filename, fp.Line)
	}
	for fi, f := range fns {
		starts := map[int]bool{}
		var calls []int
		ugo.IterateInstructions(f.Instructions, func(pos int, op ugo.Opcode, _ []int, _ int) bool {
			starts[pos] = true
			if op == ugo.OpCall || op == ugo.OpCallName {
				calls = append(calls, pos)
			}
			return true
		})
		for p := range starts {
			if _, ok := f.SourceMap[p]; !ok {
				return fmt.Sprintf("function %d: instruction at %d has no source-map entry", fi, p)
			}
		}
		for _, p := range calls {
			if !starts[p+3] {
				return fmt.Sprintf("function %d: no instruction after the call at %d", fi, p)
			}
			if a, b := lineOf(f.SourceMap[p]), lineOf(f.SourceMap[p+3]); a != b {
				return fmt.Sprintf("function %d: call at %d recorded at %s, the next instruction (reported for the caller frame) at %s", fi, p, a, b)
			}
		}
	}
	return ""
}

func shapeSig(p *pProg) string {
	// the features that select a code path in throw/addTrace (other features are folded)
	sel := map[string]bool{"recursion": true, "in-finally": true, "in-catch": true, "in-catch-finally": true,
		"self-tail": true, "self-tail-via-module-copy": true, "module-body": true}
	var keep []string
	for _, s := range p.Shape {
		if sel[s] {
			keep = append(keep, s)
		}
	}
	if len(keep) == 0 {
		return "plain"
	}
	return strings.Join(keep, "+")
}

func posOracle(c *Ctx, p0 *pProg) {
	for _, k := range []int{0, 1, 7} {
		p := shiftProg(p0, k)
		for _, optimize := range []bool{false, true} {
			for _, rt := range []bool{false, true} {
				res := posRunProg(p, optimize, rt)
				what, kind := posJudge(p, res)
				if what == "" && res.bytecode != nil && (kind == "" || kind == "no-error") {
					if cw := posCovJudge(res.bytecode); cw != "" {
						what, kind = cw, "cov"
					}
					c.Count("oracle:cov-checked")
				}
				c.Count("oracle:" + map[string]string{"": "agree"}[kind] + kind)
				if what == "" {
					continue
				}
				in, _ := json.Marshal(struct {
					Prog      *pProg `json:"prog"`
					Optimize  bool   `json:"optimize"`
					RoundTrip bool   `json:"encode_decode"`
					K         int    `json:"k"`
				}{p, optimize, rt, k})
				sig := "C16:" + kind
				if kind == "lines" {
					sig += ":" + shapeSig(p)
				}
				c.Violation(PropViolation{"C16", what, string(in), sig})
			}
		}
	}
}

func init() {
	register(&Stream{
		Name: "pos",
		Run: func(c *Ctx) {
			c.Rule("(a) random file sets (AddFile/AddLine/raw line tables/LastFile cache) queried through Position/File/LineStart/Offset at file and line boundaries +-1; source maps through CompiledFunction.SourcePos at keys +-1; line tables built by the real scanner over random texts; addTrace/StackTrace through the verif hook and on the traces of real runs: implementation vs Lean model. (b) oracle on the implementation: generated one-statement-per-line scripts, error escaping from call depth 0..N, expected (file,line) list computed by the generator, x optimizer on/off x encode/decode x k in {0,1,7} prepended blank lines; offsets checked against the file texts. distinct = distinct answers of (a) + distinct program shapes of (b)")
			r := c.R
			add := func(line string, key string) {
				impl, err := posReplay(line)
				if err != nil {
					impl = "harness-error " + err.Error()
				}
				c.Add(Case{Line: line, Impl: impl, Key: key})
			}
			n := 3000 * c.Scale
			for i := 0; i < n; i++ {
				ops := genFsOps(r)
				add("pos\tfs\t"+ops, fmt.Sprintf("fs%d", i%97))
				c.Count("fs")
			}
			for i := 0; i < n; i++ {
				sm, ips := genSp(r)
				add("pos\tsp\t"+sm+"\t"+ips, fmt.Sprintf("sp%d", i%53))
				add("pos\tfp\t"+sm+"\t"+ips, fmt.Sprintf("fp%d", i%53))
				c.Count("sp")
			}
			for i := 0; i < n; i++ {
				t := genText(r)
				add("pos\tscan\t"+hex.EncodeToString(t), fmt.Sprintf("scan%d", bytes.Count(t, []byte("\n"))))
				c.Count("scan")
			}
			for i := 0; i < n/2; i++ {
				ops := genFsOps(r)
				var ps []int
				for m := r.Intn(8); m > 0; m-- {
					p := r.Intn(60) - 2
					ps = append(ps, p)
					if r.Intn(3) == 0 {
						ps = append(ps, p)
					}
				}
				add("pos\ttr\t"+ops+"\t"+showInts(ps), fmt.Sprintf("tr%d", len(ps)))
				c.Count("tr")
			}
			// (b)
			maxDepth := 5
			if c.Scale > 1 {
				maxDepth = 8
			}
			// positions at the very first byte of a file that is not the last file of the set (the main
			// script with source modules, an earlier module): the file lookup boundary
			posFilesOracle(c)
			posDerivedErrorOracle(c)
			for _, p := range posFileStartProgs() {
				posOracle(c, p)
				c.Count("shape:file-start")
			}
			np := 1200 * c.Scale
			shapes := map[string]bool{}
			for i := 0; i < np; i++ {
				g := &pGen{r: r.Fork(), shape: map[string]bool{}}
				depth := i % (maxDepth + 1)
				p := g.build(depth, 0)
				posOracle(c, p)
				c.Count(fmt.Sprintf("depth:%d", depth))
				for _, s := range p.Shape {
					c.Count("shape:" + s)
					shapes[s] = true
				}
				// tie StackTrace()/Position of the real run to the model
				res := posRunProg(p, i%2 == 0, i%3 == 0)
				if res.fileSet != nil && len(res.trace) > 0 {
					line := "pos\tst\t" + fsOpsOf(res.fileSet) + "\t" + showInts(res.trace)
					c.Add(Case{Line: line, Impl: showInts(res.trace) + "#" + showStack(stackNoFs(res.trace)) + "#" + showStack(res.stack),
						Key: "st:" + strings.Join(p.Shape, ",")})
					c.Count("st")
				}
			}
		},
		Replay: posReplay,
	})
}

// StackTrace() of a RuntimeError without file set
func stackNoFs(tr []int) ugo.StackTrace {
	e := &ugo.RuntimeError{}
	for _, p := range tr {
		e.Trace = append(e.Trace, parser.Pos(p))
	}
	return e.StackTrace()
}
