// corr: correspondence check between the Lean model driver (ugomodel) and the
// implementation (/repo, linked in-process), plus the properties' own oracles on
// the implementation (the failing-input search).  One PRNG seed drives all
// random choices.  Output: one JSON report on stdout.
package main

import (
	"bufio"
	"bytes"
	"encoding/json"
	"flag"
	"fmt"
	"os"
	"os/exec"
	"path/filepath"
	"sort"
	"strings"
	"time"

	"verifharness/gen"
)

type Case struct {
	Line string // request line sent to the model (without the trailing newline)
	Impl string // implementation's canonical answer
	Key  string // class key for counting distinct non-trivial cases ("" = trivial)
	// Class names the enumerated input family of the case ("" for random inputs); a mismatch of a
	// reference-semantics stream is identified by it, so that a known finding can be told from a new one
	Class string
	// Prop is the property whose generator family produced the case ("" = the stream's own)
	Prop string
}

type Mismatch struct {
	Line  string `json:"line"`
	Impl  string `json:"impl"`
	Model string `json:"model"`
	// Class is the stable name of the enumerated input family the case belongs to ("" for random inputs)
	Class string `json:"class,omitempty"`
	Prop  string `json:"property,omitempty"`
}

type PropViolation struct {
	Property string `json:"property"`
	What     string `json:"what"`
	Input    string `json:"input"`
	Sig      string `json:"signature"` // matches known_findings signatures
}

type Report struct {
	Stream       string          `json:"stream"`
	Seed         uint64          `json:"seed"`
	Tier         string          `json:"tier"`
	Cases        int             `json:"cases"`
	Distinct     int             `json:"distinct_nontrivial"`
	Mismatches   []Mismatch      `json:"mismatches"`
	NMismatch    int             `json:"n_mismatches"`
	Skipped      int             `json:"model_skipped"`
	Violations   []PropViolation `json:"violations"`
	NViolations  int             `json:"n_violations"`
	Samples      []string        `json:"samples"`
	Distribution map[string]int  `json:"distribution"`
	Rule         string          `json:"rule"`
	WallS        float64         `json:"wall_s"`
	Error        string          `json:"error,omitempty"`
}

type Ctx struct {
	R     *gen.Rand
	Tier  string
	Scale int // 1 quick, 20 thorough
	cases []Case
	viol  []PropViolation
	nviol int
	sigs  map[string]bool
	dist  map[string]int
	rule  string
}

func (c *Ctx) Add(cs Case)        { c.cases = append(c.cases, cs) }
func (c *Ctx) Count(b string)     { c.dist[b]++ }
func (c *Ctx) Rule(s string)      { c.rule = s }
func (c *Ctx) Violation(v PropViolation) {
	c.nviol++
	if c.sigs == nil {
		c.sigs = map[string]bool{}
	}
	// keep the first failing input of every distinct signature
	if !c.sigs[v.Sig] && len(c.viol) < 400 {
		c.sigs[v.Sig] = true
		c.viol = append(c.viol, v)
	}
}

type Stream struct {
	Name string
	Run  func(c *Ctx)
	// Replay recomputes the implementation's answer for one request line.
	Replay func(line string) (string, error)
	// Skip reports model answers that mean "outside the modelled subset": such a
	// case is counted as skipped, not compared.
	Skip func(model string) bool
	// Same compares the two answers (default: string equality).
	Same func(impl, model string) bool
}

var streams = map[string]*Stream{}

func register(s *Stream) { streams[s.Name] = s }

func modelPath() string {
	if p := os.Getenv("UGOMODEL"); p != "" {
		return p
	}
	exe, _ := os.Executable()
	// <verif>/bin/corr -> <verif>/lean/.lake/build/bin/ugomodel
	return filepath.Join(filepath.Dir(filepath.Dir(exe)), "lean", ".lake", "build", "bin", "ugomodel")
}

func runModel(lines []string) ([]string, error) {
	cmd := exec.Command(modelPath())
	var in bytes.Buffer
	for _, l := range lines {
		in.WriteString(l)
		in.WriteByte('\n')
	}
	cmd.Stdin = &in
	var out bytes.Buffer
	cmd.Stdout = &out
	cmd.Stderr = os.Stderr
	if err := cmd.Run(); err != nil {
		return nil, fmt.Errorf("model driver: %w", err)
	}
	var res []string
	sc := bufio.NewScanner(&out)
	sc.Buffer(make([]byte, 1<<20), 1<<28)
	for sc.Scan() {
		res = append(res, sc.Text())
	}
	if len(res) != len(lines) {
		return nil, fmt.Errorf("model driver answered %d lines for %d requests", len(res), len(lines))
	}
	return res, nil
}

func main() {
	seed := flag.Uint64("seed", 1, "PRNG seed (VERIF_SEED)")
	tier := flag.String("tier", "quick", "quick|thorough")
	replay := flag.String("replay", "", "replay file")
	corpus := flag.String("corpus", "", "directory of corpus files (lines: stream<TAB>request) run first")
	nomodel := flag.Bool("nomodel", false, "skip the model comparison (only the properties' oracles on the implementation)")
	flag.Parse()
	if *replay != "" {
		os.Exit(doReplay(*replay))
	}
	if flag.NArg() != 1 {
		fmt.Fprintln(os.Stderr, "usage: corr [-seed n] [-tier t] <stream>")
		os.Exit(2)
	}
	st, ok := streams[flag.Arg(0)]
	if !ok {
		fmt.Fprintln(os.Stderr, "unknown stream", flag.Arg(0))
		os.Exit(2)
	}
	t0 := time.Now()
	ctx := &Ctx{R: gen.NewRand(*seed), Tier: *tier, Scale: 1, dist: map[string]int{}}
	if *tier == "thorough" {
		ctx.Scale = 20
	}
	rep := Report{Stream: st.Name, Seed: *seed, Tier: *tier}
	// corpus first
	if *corpus != "" && st.Replay != nil {
		files, _ := filepath.Glob(filepath.Join(*corpus, "*.txt"))
		sort.Strings(files)
		for _, f := range files {
			b, err := os.ReadFile(f)
			if err != nil {
				continue
			}
			for _, l := range strings.Split(string(b), "\n") {
				if !strings.HasPrefix(l, st.Name+"\t") {
					continue
				}
				impl, err := st.Replay(l)
				if err == nil {
					ctx.Add(Case{Line: l, Impl: impl, Key: "corpus"})
				}
			}
		}
	}
	st.Run(ctx)
	lines := make([]string, len(ctx.cases))
	for i, c := range ctx.cases {
		lines[i] = c.Line
	}
	var model []string
	var err error
	if *nomodel {
		model = make([]string, len(lines))
		for i, c := range ctx.cases {
			model[i] = c.Impl
		}
	} else {
		model, err = runModel(lines)
	}
	if err != nil {
		rep.Error = err.Error()
	} else {
		keys := map[string]bool{}
		classSeen := map[string]bool{}
		for i, c := range ctx.cases {
			if st.Skip != nil && !*nomodel && st.Skip(model[i]) {
				rep.Skipped++
				// why the model declined (first 60 bytes of its answer): part of the input distribution
				why := model[i]
				if len(why) > 60 {
					why = why[:60]
				}
				ctx.dist["model-skipped:"+why]++
				continue
			}
			same := model[i] == c.Impl
			if !same && st.Same != nil {
				same = st.Same(c.Impl, model[i])
			}
			if c.Key != "" {
				keys[c.Key] = true
			}
			if !same {
				rep.NMismatch++
				// keep the first 50, and beyond that the first of every named family
				if len(rep.Mismatches) < 50 || (c.Class != "" && !classSeen[c.Class]) {
					rep.Mismatches = append(rep.Mismatches, Mismatch{Line: c.Line, Impl: c.Impl, Model: model[i], Class: c.Class, Prop: c.Prop})
				}
				if c.Class != "" {
					classSeen[c.Class] = true
				}
			}
		}
		rep.Distinct = len(keys)
	}
	rep.Cases = len(ctx.cases)
	rep.Violations = ctx.viol
	rep.NViolations = ctx.nviol
	rep.Distribution = ctx.dist
	rep.Rule = ctx.rule
	for i := 0; i < len(ctx.cases) && len(rep.Samples) < 5; i += 1 + len(ctx.cases)/5 {
		rep.Samples = append(rep.Samples, ctx.cases[i].Line+" => "+ctx.cases[i].Impl)
	}
	rep.WallS = time.Since(t0).Seconds()
	enc := json.NewEncoder(os.Stdout)
	enc.SetIndent("", " ")
	enc.Encode(rep)
	if rep.Error != "" {
		os.Exit(3)
	}
	if rep.NMismatch > 0 || rep.NViolations > 0 {
		os.Exit(1)
	}
}

// doReplay re-runs the request lines of a replay file on the implementation and the model.
func doReplay(path string) int {
	b, err := os.ReadFile(path)
	if err != nil {
		fmt.Fprintln(os.Stderr, err)
		return 2
	}
	var rp struct {
		Stream string   `json:"stream"`
		Lines  []string `json:"lines"`
	}
	if err := json.Unmarshal(b, &rp); err != nil {
		fmt.Fprintln(os.Stderr, err)
		return 2
	}
	st, ok := streams[rp.Stream]
	if !ok || st.Replay == nil {
		fmt.Fprintln(os.Stderr, "stream cannot replay:", rp.Stream)
		return 2
	}
	model, err := runModel(rp.Lines)
	if err != nil {
		fmt.Fprintln(os.Stderr, err)
		return 2
	}
	rc := 0
	for i, l := range rp.Lines {
		impl, err := st.Replay(l)
		if err != nil {
			fmt.Printf("replay error: %v\n", err)
			rc = 2
			continue
		}
		status := "agree"
		if impl != model[i] {
			status = "DISAGREE"
			rc = 1
		}
		fmt.Printf("%s\n  request: %s\n  impl:  %s\n  model: %s\n", status, l, impl, model[i])
	}
	return rc
}
