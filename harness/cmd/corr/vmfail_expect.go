package main

import (
	"errors"
	"fmt"

	"github.com/ozanh/ugo"
	ujson "github.com/ozanh/ugo/stdlib/json"
	ustrings "github.com/ozanh/ugo/stdlib/strings"
)

// C06 with EXPECTED outcomes: a Go panic raised while a script function runs as a callback (through an
// Invoker, pooled or not, through stdlib/strings or stdlib/json) is delivered to the nearest enclosing
// catch of the code that is running - the callback's own first - and is never dropped: Run does not
// return a value as if nothing had happened.  Oracle only.

type hostMarsh struct {
	ugo.ObjectImpl
	v any
}

func (hostMarsh) TypeName() string { return "hostMarsh" }
func (hostMarsh) String() string   { return "<hostMarsh>" }
func (h hostMarsh) MarshalJSON() ([]byte, error) {
	panic(h.v)
}

type vmfailExpect struct {
	name, src, want string
	args            []ugo.Object
}

var vmfailExpects = []vmfailExpect{
	{"acquired-invoker-callee-catch", `global (invAcq, hostPanic)
return invAcq(func() { try { hostPanic() } catch e { return "inner" }; return "none" })`, `inner`, nil},
	{"plain-invoker-callee-catch", `global (invPlain, hostPanic)
return invPlain(func() { try { hostPanic() } catch e { return "inner" }; return "none" })`, `inner`, nil},
	{"acquired-invoker-caller-catch", `global (invAcq, hostPanic)
try { invAcq(func() { hostPanic(); return "none" }) } catch e { return "outer" }
return "not thrown"`, `outer`, nil},
	{"strings-map-callee-catch", `global hostPanic
strings := import("strings")
return strings.Map(func(c) { try { hostPanic() } catch e { return 'x' }; return c }, "ab")`, `xx`, nil},
	{"strings-map-caller-catch", `global hostPanic
strings := import("strings")
try { strings.Map(func(c) { if c == 'b' { hostPanic() }; return c }, "ab") } catch e { return "outer" }
return "not thrown"`, `outer`, nil},
	{"strings-trimfunc-panic-on-first-rune", `global hostPanic
strings := import("strings")
try { return strings.TrimFunc("x abc", func(c) { if c == 'x' { hostPanic() }; return false }) } catch e { return "outer" }`, `outer`, nil},
	{"strings-trimfunc-throw-on-first-rune", `strings := import("strings")
try { return strings.TrimFunc("x abc", func(c) { if c == 'x' { throw "t" }; return false }) } catch e { return "outer" }`, `outer`, nil},
	{"strings-trimleftfunc-panic", `global hostPanic
strings := import("strings")
try { return strings.TrimLeftFunc("x abc", func(c) { if c == 'x' { hostPanic() }; return false }) } catch e { return "outer" }`, `outer`, nil},
	{"strings-indexfunc-panic", `global hostPanic
strings := import("strings")
try { return strings.IndexFunc("abc", func(c) { if c == 'b' { hostPanic() }; return false }) } catch e { return "outer" }`, `outer`, nil},
	{"strings-fieldsfunc-panic", `global hostPanic
strings := import("strings")
try { return strings.FieldsFunc("a b", func(c) { if c == 'b' { hostPanic() }; return c == ' ' }) } catch e { return "outer" }`, `outer`, nil},
	{"json-marshaler-panics-string", `global mString
json := import("json")
try { return string(json.Marshal({a: 1, b: mString})) } catch e { return "outer" }`, `outer`, nil},
	{"json-marshaler-panics-error", `global mError
json := import("json")
try { return string(json.Marshal([1, mError])) } catch e { return "outer" }`, `outer`, nil},
	// a panic raised in a finally block after the try block completed normally is outside the statement's own
	// catch: it reaches the ENCLOSING handler, and the finally block runs once
	{"panic-in-finally-after-normal-try", `global hostPanic
log := []
try {
	try { log = append(log, "try") } catch e { log = append(log, "inner-catch") } finally { log = append(log, "finally"); hostPanic() }
} catch e2 { log = append(log, "outer-catch") }
return log`, `["try", "finally", "outer-catch"]`, nil},
	{"throw-in-finally-after-normal-try", `log := []
try {
	try { log = append(log, "try") } catch e { log = append(log, "inner-catch") } finally { log = append(log, "finally"); throw "f" }
} catch e2 { log = append(log, "outer-catch") }
return log`, `["try", "finally", "outer-catch"]`, nil},
	// main's parameters are bound leniently for every argument count, also below the number of fixed
	// parameters of a variadic main (the binding runs before the recover is armed)
	{"variadic-main-one-arg", "param (a, b, ...c)\nreturn [a, b, c]", `[1, undefined, []]`, []ugo.Object{ugo.Int(1)}},
	{"variadic-main-no-arg", "param (a, b, ...c)\nreturn [a, b, c]", `[undefined, undefined, []]`, []ugo.Object{}},
	{"variadic-main-exact", "param (a, b, ...c)\nreturn [a, b, c]", `[1, 2, []]`, []ugo.Object{ugo.Int(1), ugo.Int(2)}},
	{"variadic-main-more", "param (a, b, ...c)\nreturn [a, b, c]", `[1, 2, [3, 4]]`, []ugo.Object{ugo.Int(1), ugo.Int(2), ugo.Int(3), ugo.Int(4)}},
	{"variadic-main-three-fixed-two-args", "param (a, b, d, ...c)\nreturn [a, b, d, c]", `[1, 2, undefined, []]`, []ugo.Object{ugo.Int(1), ugo.Int(2)}},
	{"call-after-panic-unwound-discarded-tail", `global hostPanic
var f
f = func(n) { if n == 0 { hostPanic() }; f(n - 1) }
g := func() { return 42 }
r := "none"
try { f(2) } catch e { r = "caught" }
return [r, g(), g()]`, `["caught", 42, 42]`, nil},
	{"call-after-panic-unwound-discarded-tail-nested", `global hostPanic
var f
f = func(n) { if n == 0 { hostPanic() }; f(n - 1) }
h := func() { try { f(3) } catch e { return "c" } }
g := func(v) { return v * 2 }
return [h(), g(21), h(), g(4)]`, `["c", 42, "c", 8]`, nil},
	{"json-marshaler-panics-object", `global mObject
json := import("json")
try { return string(json.MarshalIndent(mObject, "", " ")) } catch e { return "outer" }`, `outer`, nil},
}

func vmfailExpectOracle(c *Ctx) {
	mm := ugo.NewModuleMap().AddBuiltinModule("strings", ustrings.Module).AddBuiltinModule("json", ujson.Module)
	inv := func(acquire bool) *ugo.Function {
		return &ugo.Function{Name: "inv", ValueEx: func(call ugo.Call) (ugo.Object, error) {
			iv := ugo.NewInvoker(call.VM(), call.Get(0))
			if acquire {
				iv.Acquire()
				defer iv.Release()
			}
			return iv.Invoke()
		}}
	}
	globals := func() ugo.Map {
		return ugo.Map{
			"hostPanic": &ugo.Function{Name: "hostPanic", Value: func(...ugo.Object) (ugo.Object, error) { panic("host boom") }},
			"invAcq":    inv(true), "invPlain": inv(false),
			"mString": hostMarsh{v: "marshal boom"}, "mError": hostMarsh{v: errors.New("marshal err")}, "mObject": hostMarsh{v: ugo.Int(7)},
		}
	}
	for _, p := range vmfailExpects {
		for _, noOpt := range []bool{true, false} {
			c.dist["oracle:panic-delivery-expected"]++
			bc, err := ugo.Compile([]byte(p.src), ugo.CompilerOptions{ModuleMap: mm, NoOptimize: noOpt})
			if err != nil {
				c.Violation(PropViolation{"C06", "expected-outcome program does not compile: " + err.Error(), p.src, "C06:expect-compile:" + p.name})
				continue
			}
			var got string
			func() {
				defer func() {
					if r := recover(); r != nil {
						got = fmt.Sprintf("ESCAPED PANIC: %v", r)
					}
				}()
				ret, err := ugo.NewVM(bc).SetRecover(true).Run(globals(), p.args...)
				if err != nil {
					got = "run error: " + semFirstLine(err.Error())
					return
				}
				got = ret.String()
			}()
			if got != p.want {
				c.Violation(PropViolation{"C06", fmt.Sprintf("`%s`: a Go panic in a callback must reach the nearest catch of the running code: got %s, want %s", p.name, got, p.want), p.src, "C06:panic-delivery:" + p.name})
			}
		}
	}
}
