package main

import (
	"errors"
	"fmt"

	"github.com/ozanh/ugo"
	ujson "github.com/ozanh/ugo/stdlib/json"
	ustrings "github.com/ozanh/ugo/stdlib/strings"
)

// C06 with EXPECTED outcomes: a Go panic raised while a script function runs as a callback (through an
// Invoker, pooled or not, through stdlib/strings or stdlib/json) is delivered to the nearest enclosing
// catch of the code that is running - the callback's own first - and is never dropped: Run does not
// return a value as if nothing had happened.  Oracle only.

type hostMarsh struct {
	ugo.ObjectImpl
	v any
}

func (hostMarsh) TypeName() string { return "hostMarsh" }
func (hostMarsh) String() string   { return "<hostMarsh>" }
func (h hostMarsh) MarshalJSON() ([]byte, error) {
	panic(h.v)
}

type vmfailExpect struct{ name, src, want string }

var vmfailExpects = []vmfailExpect{
	{"acquired-invoker-callee-catch", `global (invAcq, hostPanic)
return invAcq(func() { try { hostPanic() } catch e { return "inner" }; return "none" })`, `inner`},
	{"plain-invoker-callee-catch", `global (invPlain, hostPanic)
return invPlain(func() { try { hostPanic() } catch e { return "inner" }; return "none" })`, `inner`},
	{"acquired-invoker-caller-catch", `global (invAcq, hostPanic)
try { invAcq(func() { hostPanic(); return "none" }) } catch e { return "outer" }
return "not thrown"`, `outer`},
	{"strings-map-callee-catch", `global hostPanic
strings := import("strings")
return strings.Map(func(c) { try { hostPanic() } catch e { return 'x' }; return c }, "ab")`, `xx`},
	{"strings-map-caller-catch", `global hostPanic
strings := import("strings")
try { strings.Map(func(c) { if c == 'b' { hostPanic() }; return c }, "ab") } catch e { return "outer" }
return "not thrown"`, `outer`},
	{"strings-trimfunc-panic-on-first-rune", `global hostPanic
strings := import("strings")
try { return strings.TrimFunc("x abc", func(c) { if c == 'x' { hostPanic() }; return false }) } catch e { return "outer" }`, `outer`},
	{"strings-trimfunc-throw-on-first-rune", `strings := import("strings")
try { return strings.TrimFunc("x abc", func(c) { if c == 'x' { throw "t" }; return false }) } catch e { return "outer" }`, `outer`},
	{"strings-trimleftfunc-panic", `global hostPanic
strings := import("strings")
try { return strings.TrimLeftFunc("x abc", func(c) { if c == 'x' { hostPanic() }; return false }) } catch e { return "outer" }`, `outer`},
	{"strings-indexfunc-panic", `global hostPanic
strings := import("strings")
try { return strings.IndexFunc("abc", func(c) { if c == 'b' { hostPanic() }; return false }) } catch e { return "outer" }`, `outer`},
	{"strings-fieldsfunc-panic", `global hostPanic
strings := import("strings")
try { return strings.FieldsFunc("a b", func(c) { if c == 'b' { hostPanic() }; return c == ' ' }) } catch e { return "outer" }`, `outer`},
	{"json-marshaler-panics-string", `global mString
json := import("json")
try { return string(json.Marshal({a: 1, b: mString})) } catch e { return "outer" }`, `outer`},
	{"json-marshaler-panics-error", `global mError
json := import("json")
try { return string(json.Marshal([1, mError])) } catch e { return "outer" }`, `outer`},
	{"json-marshaler-panics-object", `global mObject
json := import("json")
try { return string(json.MarshalIndent(mObject, "", " ")) } catch e { return "outer" }`, `outer`},
}

func vmfailExpectOracle(c *Ctx) {
	mm := ugo.NewModuleMap().AddBuiltinModule("strings", ustrings.Module).AddBuiltinModule("json", ujson.Module)
	inv := func(acquire bool) *ugo.Function {
		return &ugo.Function{Name: "inv", ValueEx: func(call ugo.Call) (ugo.Object, error) {
			iv := ugo.NewInvoker(call.VM(), call.Get(0))
			if acquire {
				iv.Acquire()
				defer iv.Release()
			}
			return iv.Invoke()
		}}
	}
	globals := func() ugo.Map {
		return ugo.Map{
			"hostPanic": &ugo.Function{Name: "hostPanic", Value: func(...ugo.Object) (ugo.Object, error) { panic("host boom") }},
			"invAcq":    inv(true), "invPlain": inv(false),
			"mString": hostMarsh{v: "marshal boom"}, "mError": hostMarsh{v: errors.New("marshal err")}, "mObject": hostMarsh{v: ugo.Int(7)},
		}
	}
	for _, p := range vmfailExpects {
		for _, noOpt := range []bool{true, false} {
			c.dist["oracle:panic-delivery-expected"]++
			bc, err := ugo.Compile([]byte(p.src), ugo.CompilerOptions{ModuleMap: mm, NoOptimize: noOpt})
			if err != nil {
				c.Violation(PropViolation{"C06", "expected-outcome program does not compile: " + err.Error(), p.src, "C06:expect-compile:" + p.name})
				continue
			}
			var got string
			func() {
				defer func() {
					if r := recover(); r != nil {
						got = fmt.Sprintf("ESCAPED PANIC: %v", r)
					}
				}()
				ret, err := ugo.NewVM(bc).SetRecover(true).Run(globals())
				if err != nil {
					got = "run error: " + semFirstLine(err.Error())
					return
				}
				got = ret.String()
			}()
			if got != p.want {
				c.Violation(PropViolation{"C06", fmt.Sprintf("`%s`: a Go panic in a callback must reach the nearest catch of the running code: got %s, want %s", p.name, got, p.want), p.src, "C06:panic-delivery:" + p.name})
			}
		}
	}
}
