package main

import (
	"fmt"
	"math"
	"strings"

	"github.com/ozanh/ugo"
	"github.com/ozanh/ugo/token"

	"verifharness/codec"
	"verifharness/gen"
)

// stream `ops` (C15, also the value half of C01): every binary operator, == and !=
// on pairs of values, through Object.BinaryOp/Equal directly and through the VM.

var binToks = []struct {
	name string
	tok  token.Token
	src  string
}{
	{"Add", token.Add, "+"}, {"Sub", token.Sub, "-"}, {"Mul", token.Mul, "*"}, {"Quo", token.Quo, "/"},
	{"Rem", token.Rem, "%"}, {"And", token.And, "&"}, {"Or", token.Or, "|"}, {"Xor", token.Xor, "^"},
	{"Shl", token.Shl, "<<"}, {"Shr", token.Shr, ">>"}, {"AndNot", token.AndNot, "&^"},
	{"Less", token.Less, "<"}, {"Greater", token.Greater, ">"}, {"LessEq", token.LessEq, "<="},
	{"GreaterEq", token.GreaterEq, ">="},
}

func hasMultiKeyMap(o ugo.Object) bool {
	switch v := o.(type) {
	case ugo.Map:
		if len(v) > 1 {
			return true
		}
		for _, e := range v {
			if hasMultiKeyMap(e) {
				return true
			}
		}
	case ugo.Array:
		for _, e := range v {
			if hasMultiKeyMap(e) {
				return true
			}
		}
	}
	return false
}

// unordered reports cases whose result text depends on Go map iteration order
// (string + value-with-a-multi-key-map): excluded, see DESIGN.md §3.
func unordered(a ugo.Object, tok token.Token, b ugo.Object) bool {
	_, isStr := a.(ugo.String)
	return isStr && tok == token.Add && hasMultiKeyMap(b)
}

func safeBinop(a ugo.Object, tok token.Token, b ugo.Object, ids *codec.Ids) (res string) {
	defer func() {
		if r := recover(); r != nil {
			res = fmt.Sprintf("panic %v", r)
		}
	}()
	v, err := a.BinaryOp(tok, b)
	if err != nil {
		return codec.ErrString(err)
	}
	return "ok " + codec.Encode(v, ids)
}

func safeEqual(a, b ugo.Object) (eq bool, panicked bool) {
	defer func() {
		if r := recover(); r != nil {
			panicked = true
		}
	}()
	return a.Equal(b), false
}

var unToks = []struct {
	name string
	tok  token.Token
	src  string
}{{"Add", token.Add, "+"}, {"Sub", token.Sub, "-"}, {"Xor", token.Xor, "^"}, {"Not", token.Not, "!"}}

type vmOps struct {
	un  map[string]*ugo.Bytecode
	bin map[string]*ugo.Bytecode
	eq  *ugo.Bytecode
	ne  *ugo.Bytecode
}

func newVMOps() *vmOps {
	v := &vmOps{bin: map[string]*ugo.Bytecode{}, un: map[string]*ugo.Bytecode{}}
	opts := ugo.CompilerOptions{NoOptimize: true}
	mk := func(op string) *ugo.Bytecode {
		bc, err := ugo.Compile([]byte("param (a, b); return a "+op+" b"), opts)
		if err != nil {
			panic(err)
		}
		return bc
	}
	for _, t := range binToks {
		v.bin[t.name] = mk(t.src)
	}
	for _, u := range unToks {
		bc, err := ugo.Compile([]byte("param (a, b); return "+u.src+"a"), opts)
		if err != nil {
			panic(err)
		}
		v.un[u.name] = bc
	}
	v.eq = mk("==")
	v.ne = mk("!=")
	return v
}

func (v *vmOps) run(bc *ugo.Bytecode, a, b ugo.Object, ids *codec.Ids) (res string) {
	defer func() {
		if r := recover(); r != nil {
			res = fmt.Sprintf("panic %v", r)
		}
	}()
	ret, err := ugo.NewVM(bc).Run(nil, a, b)
	if err != nil {
		return codec.ErrString(err)
	}
	return "ok " + codec.Encode(ret, ids)
}

func opsLine(tokName string, a, b ugo.Object, ids *codec.Ids) string {
	return fmt.Sprintf("ops\t%s\t%s\t%s\t%s", tokName, codec.Encode(a, ids), codec.Encode(b, ids), codec.Hex([]byte(b.String())))
}

func opsImpl(tok token.Token, a, b ugo.Object, ids *codec.Ids) string {
	eq, _ := safeEqual(a, b)
	bi := func(x bool) int {
		if x {
			return 1
		}
		return 0
	}
	doc := "-"
	if d, ok := docArith(a, tok, b); ok {
		doc = d
	}
	return fmt.Sprintf("eq=%d ne=%d bin=%s doc=%s", bi(eq), bi(!eq), safeBinop(a, tok, b, ids), doc)
}

func isNaNVal(o ugo.Object) bool {
	f, ok := o.(ugo.Float)
	return ok && math.IsNaN(float64(f))
}

func kindOf(o ugo.Object) string { return o.TypeName() }

func isNumericKind(o ugo.Object) bool {
	switch o.(type) {
	case ugo.Int, ugo.Uint, ugo.Float, ugo.Char, ugo.Bool:
		return true
	}
	return false
}

// cmpImpl returns the boolean result of a relational operator, if defined.
func cmpImpl(a ugo.Object, tok token.Token, b ugo.Object) (r bool, ok bool) {
	defer func() {
		if recover() != nil {
			ok = false
		}
	}()
	v, err := a.BinaryOp(tok, b)
	if err != nil {
		return false, false
	}
	bv, isb := v.(ugo.Bool)
	return bool(bv), isb
}

// opsOracle checks the statement of C15 directly on the implementation.
func opsOracle(c *Ctx, vm *vmOps, a, b ugo.Object) {
	in := func() string { return codec.Encode(a, nil) + " , " + codec.Encode(b, nil) }
	ab, p1 := safeEqual(a, b)
	ba, p2 := safeEqual(b, a)
	if p1 || p2 {
		c.Violation(PropViolation{"C15", "Equal panics", in(), "C15:equal-panic:" + kindOf(a) + "," + kindOf(b)})
	}
	if ab != ba {
		c.Violation(PropViolation{"C15", fmt.Sprintf("a==b is %v but b==a is %v", ab, ba), in(), "C15:equal-asym:" + kindOf(a) + "," + kindOf(b)})
	}
	// through the VM: == and != are each other's negation and agree with Equal
	if got := vm.run(vm.eq, a, b, nil); got != "ok "+codec.Encode(ugo.Bool(ab), nil) {
		c.Violation(PropViolation{"C15", "VM a==b differs from Equal: " + got, in(), "C15:vm-eq"})
	}
	if got := vm.run(vm.ne, a, b, nil); got != "ok "+codec.Encode(ugo.Bool(!ab), nil) {
		c.Violation(PropViolation{"C15", "VM a!=b is not the negation of a==b: " + got, in(), "C15:vm-ne"})
	}
	for _, t := range binToks {
		if unordered(a, t.tok, b) {
			continue
		}
		direct := safeBinop(a, t.tok, b, nil)
		if strings.HasPrefix(direct, "panic") {
			c.Violation(PropViolation{"C15", "BinaryOp " + t.src + " panics: " + direct, in(), "C15:binop-panic:" + t.name + ":" + kindOf(a) + "," + kindOf(b)})
		}
		viaVM := vm.run(vm.bin[t.name], a, b, nil)
		if viaVM != direct && !(strings.HasPrefix(direct, "err InvalidOperatorError") && strings.HasPrefix(viaVM, "err InvalidOperatorError")) {
			c.Violation(PropViolation{"C15", "VM " + t.src + " gives " + viaVM + " but BinaryOp gives " + direct, in(), "C15:vm-binop:" + t.name})
		}
	}
	// documented numeric semantics (docs/operators.md, opsdoc.go): value after the documented operand
	// conversion, ZeroDivisionError / TypeError where the document has no result
	for _, t := range binToks[:11] {
		want, ok := docArith(a, t.tok, b)
		if !ok {
			continue
		}
		if got := docClass(safeBinop(a, t.tok, b, nil)); got != want {
			c.Violation(PropViolation{"C15", "a " + t.src + " b gives " + got + " but docs/operators.md (Go operation after the documented conversion) gives " + want, in(),
				"C15:doc:" + t.name + ":" + kindOf(a) + "," + kindOf(b)})
		}
	}
	// documented operand types (docs/operators.md): an arithmetic, bitwise or shift operator with a
	// numeric left operand and a right operand that is not int/uint/float/char/bool is unsupported
	// and must raise TypeError (char + string is the documented exception)
	if isNumericKind(a) && !isNumericKind(b) {
		for _, t := range binToks[:11] {
			if _, isChar := a.(ugo.Char); isChar && t.tok == token.Add {
				if _, isStr := b.(ugo.String); isStr {
					continue
				}
			}
			got := safeBinop(a, t.tok, b, nil)
			if !strings.HasPrefix(got, "err TypeError") {
				c.Violation(PropViolation{"C15", "unsupported operand types for " + t.src + " give " + got + " instead of TypeError", in(),
					"C15:unsupported-not-typeerror:" + t.name + ":" + kindOf(a) + "," + kindOf(b)})
			}
		}
	}
	lt, okLt := cmpImpl(a, token.Less, b)
	gt, okGt := cmpImpl(a, token.Greater, b)
	le, okLe := cmpImpl(a, token.LessEq, b)
	ge, okGe := cmpImpl(a, token.GreaterEq, b)
	nan := isNaNVal(a) || isNaNVal(b)
	if okLt && okGt && !nan {
		n := 0
		for _, x := range []bool{lt, ab, gt} {
			if x {
				n++
			}
		}
		if n != 1 {
			c.Violation(PropViolation{"C15", fmt.Sprintf("trichotomy fails: a<b=%v a==b=%v a>b=%v", lt, ab, gt), in(), "C15:trichotomy:" + kindOf(a) + "," + kindOf(b)})
		}
	}
	if okLe && okLt && le != (lt || ab) && !nan {
		c.Violation(PropViolation{"C15", fmt.Sprintf("a<=b=%v but a<b=%v a==b=%v", le, lt, ab), in(), "C15:le:" + kindOf(a) + "," + kindOf(b)})
	}
	if okGe && okGt && ge != (gt || ab) && !nan {
		c.Violation(PropViolation{"C15", fmt.Sprintf("a>=b=%v but a>b=%v a==b=%v", ge, gt, ab), in(), "C15:ge:" + kindOf(a) + "," + kindOf(b)})
	}
	if okLt {
		if g2, ok := cmpImpl(b, token.Greater, a); ok && g2 != lt {
			c.Violation(PropViolation{"C15", fmt.Sprintf("a<b=%v but b>a=%v", lt, g2), in(), "C15:flip:" + kindOf(a) + "," + kindOf(b)})
		}
	}
}

func init() {
	register(&Stream{
		Name: "ops",
		Run: func(c *Ctx) {
			c.Rule("pool x pool x 15 binary operators + == and != (exhaustive over the boundary pool), plus random nested values paired with numerically-similar variants; a case is non-trivial when the implementation's answer is not a TypeError; distinct = distinct (operator, left type, right type, outcome class)")
			vm := newVMOps()
			pool := gen.ValuePool()
			pairs := [][2]ugo.Object{}
			for _, a := range pool {
				for _, b := range pool {
					pairs = append(pairs, [2]ugo.Object{a, b})
				}
			}
			nr := 300 * c.Scale
			for i := 0; i < nr; i++ {
				a := gen.RandValue(c.R, 3)
				var b ugo.Object
				if c.R.Intn(3) > 0 {
					b = gen.Similar(c.R, a)
				} else {
					b = gen.RandValue(c.R, 3)
				}
				pairs = append(pairs, [2]ugo.Object{a, b})
			}
			// wrapper types: RuntimeError wraps an Error, SyncMap guards a Map — oracle only
			// (the model treats them as the wrapped value)
			e1 := &ugo.Error{Name: "E1"}
			wrappers := []ugo.Object{e1, &ugo.RuntimeError{Err: e1}, &ugo.RuntimeError{Err: e1}, &ugo.Error{Name: "E1"},
				&ugo.SyncMap{Value: ugo.Map{"a": ugo.Int(1)}}, &ugo.SyncMap{Value: ugo.Map{}}, ugo.Map{"a": ugo.Int(1)}, ugo.Map{},
				ugo.Array{&ugo.RuntimeError{Err: e1}}, ugo.Array{e1}, ugo.Undefined, ugo.Int(1),
				// errors derived from one another (e.New: a new error whose cause is the parent), library errors
				e1.NewError("derived"), e1.NewError("derived").NewError("twice"), ugo.ErrType, ugo.ErrType.NewError("x"),
				&ugo.Error{Name: "E1", Cause: e1}, ugo.Array{ugo.ErrType.NewError("x")}, ugo.Map{"k": e1.NewError("derived")}, ugo.Map{"k": e1}}
			for _, a := range wrappers {
				for _, b := range wrappers {
					opsOracle(c, vm, a, b)
				}
			}
			for _, a := range pool {
				for _, u := range unToks {
					got := vm.run(vm.un[u.name], a, ugo.Undefined, nil)
					if want, ok := docUnary(u.tok, a); ok && docClass(got) != want {
						c.Violation(PropViolation{"C15", "unary " + u.src + "a gives " + got + " but docs/operators.md gives " + want, codec.Encode(a, nil),
							"C15:doc-unary:" + u.name + ":" + kindOf(a)})
					}
					if strings.HasPrefix(got, "panic") {
						c.Violation(PropViolation{"C15", "unary " + u.src + " panics: " + got, codec.Encode(a, nil), "C15:unary-panic:" + u.name + ":" + kindOf(a)})
					}
					ids := codec.NewIds()
					falsy := "0"
					if a.IsFalsy() {
						falsy = "1"
					}
					line := fmt.Sprintf("unop\t%s\t%s\t%s", u.name, codec.Encode(a, ids), falsy)
					doc := "-"
					if d, ok := docUnary(u.tok, a); ok {
						doc = d
					}
					c.Count("un:" + strings.SplitN(got+" ", " ", 2)[0])
					c.Add(Case{Line: line, Impl: "un=" + vm.run(vm.un[u.name], a, ugo.Undefined, ids) + " doc=" + doc, Key: "un/" + u.name + "/" + kindOf(a)})
				}
			}
			for _, p := range pairs {
				a, b := p[0], p[1]
				opsOracle(c, vm, a, b)
				for _, t := range binToks {
					if unordered(a, t.tok, b) {
						continue
					}
					ids := codec.NewIds()
					line := opsLine(t.name, a, b, ids)
					impl := opsImpl(t.tok, a, b, ids)
					key := ""
					if !strings.Contains(impl, "bin=err TypeError unsupported") {
						cls := "ok"
						if i := strings.Index(impl, "bin=err "); i >= 0 {
							cls = strings.Fields(impl[i+8:])[0]
						}
						key = t.name + "/" + kindOf(a) + "/" + kindOf(b) + "/" + cls
					}
					c.Count("bin:" + strings.SplitN(impl[strings.Index(impl, "bin=")+4:]+" ", " ", 2)[0])
					c.Add(Case{Line: line, Impl: impl, Key: key})
				}
			}
		},
		Replay: func(line string) (string, error) {
			f := strings.Split(line, "\t")
			if len(f) == 4 && f[0] == "unop" {
				a, err := codec.Decode(f[2], func(tn string, id int) ugo.Object { return ugo.Undefined })
				if err != nil {
					return "", err
				}
				vm := newVMOps()
				for _, u := range unToks {
					if u.name == f[1] {
						doc := "-"
						if d, ok := docUnary(u.tok, a); ok {
							doc = d
						}
						return "un=" + vm.run(vm.un[u.name], a, ugo.Undefined, codec.NewIds()) + " doc=" + doc, nil
					}
				}
				return "", fmt.Errorf("unknown unary operator %s", f[1])
			}
			if len(f) != 5 {
				return "", fmt.Errorf("bad ops line")
			}
			fns := map[string]ugo.Object{}
			mk := func(tn string, id int) ugo.Object {
				k := fmt.Sprintf("%s:%d", tn, id)
				if o, ok := fns[k]; ok {
					return o
				}
				o := &ugo.Function{Name: k, Value: func(...ugo.Object) (ugo.Object, error) { return ugo.Undefined, nil }}
				fns[k] = o
				return o
			}
			a, err := codec.Decode(f[2], mk)
			if err != nil {
				return "", err
			}
			b, err := codec.Decode(f[3], mk)
			if err != nil {
				return "", err
			}
			for _, t := range binToks {
				if t.name == f[1] {
					ids := codec.NewIds()
					opsLine(t.name, a, b, ids)
					return opsImpl(t.tok, a, b, ids), nil
				}
			}
			return "", fmt.Errorf("unknown operator %s", f[1])
		},
	})
}
