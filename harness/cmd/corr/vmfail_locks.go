package main

import (
	"fmt"
	"time"

	"github.com/ozanh/ugo"
)

// Recovered panics must not leave library locks held (C06 "… and the VM can run further scripts
// correctly afterwards"): a Go method of a host object panics while library code holds a lock of a
// value the script shares with later runs (a syncMap in the globals).  The panic is recovered and
// delivered; a later run that touches the same value must not block.  Oracle only.

type hostBad struct{ ugo.ObjectImpl }

func (hostBad) TypeName() string                        { return "hostBad" }
func (hostBad) String() string                          { panic("hostBad.String") }
func (hostBad) Equal(ugo.Object) bool                   { panic("hostBad.Equal") }
func (hostBad) IsFalsy() bool                           { panic("hostBad.IsFalsy") }
func (hostBad) Copy() ugo.Object                        { panic("hostBad.Copy") }
func (hostBad) IndexGet(ugo.Object) (ugo.Object, error) { panic("hostBad.IndexGet") }

func lockOracle(c *Ctx) {
	ops := []struct{ name, stmt string }{
		{"syncmap-indexset-key", "sm[bad] = 1"},
		{"syncmap-indexget-key", "x := sm[bad]"},
		{"syncmap-selector-set", "sm.k = bad; y := string(sm)"},
		{"syncmap-delete-key", "delete(sm, bad)"},
		{"syncmap-contains-key", "contains(sm, bad)"},
		{"syncmap-equal", "sm.v = bad; z := (sm == {v: 1})"},
		{"syncmap-copy", "sm.w = bad; c := copy(sm)"},
		{"syncmap-len-iter", "sm.q = bad; for k, v in sm { s := string(v) }"},
		{"map-key", "m[bad] = 1"},
		// no hostile object at all: the sync-map is its own key / member (rendering the key locks the map
		// for reading while the operation holds it for writing)
		{"syncmap-self-key-set", "sm[sm] = 1"},
		{"syncmap-self-key-get", "x := sm[sm]"},
		{"syncmap-self-key-delete", "delete(sm, sm)"},
		{"syncmap-self-contains", "contains(sm, sm)"},
		{"syncmap-key-from-sibling", "sm[[sm.a, sm]] = 2"},
	}
	follow, err := ugo.Compile([]byte("global sm\nsm.after = 1\nn := 0\nfor k, v in sm { n++ }\nreturn [sm.after, n > 0, len(sm) > 0]"), ugo.CompilerOptions{})
	if err != nil {
		return
	}
	for _, op := range ops {
		src := "global (sm, bad, m)\ntry {\n  " + op.stmt + "\n} catch e {\n  return \"caught\"\n}\nreturn \"no error\"\n"
		bc, err := ugo.Compile([]byte(src), ugo.CompilerOptions{})
		if err != nil {
			c.Count("lock-oracle:compile-error")
			continue
		}
		globals := ugo.Map{"sm": &ugo.SyncMap{Value: ugo.Map{"a": ugo.Int(1)}}, "bad": hostBad{}, "m": ugo.Map{}}
		run := func(b *ugo.Bytecode) string {
			ch := make(chan string, 1)
			go func() {
				defer func() {
					if r := recover(); r != nil {
						ch <- fmt.Sprintf("escaped panic: %v", r)
					}
				}()
				ret, err := ugo.NewVM(b).SetRecover(true).Run(globals)
				if err != nil {
					ch <- "error: " + semFirstLine(err.Error())
					return
				}
				ch <- func() (s string) {
					defer func() {
						if recover() != nil {
							s = "value"
						}
					}()
					return ret.String()
				}()
			}()
			select {
			case s := <-ch:
				return s
			case <-time.After(3 * time.Second):
				return "BLOCKED (no answer within 3 s)"
			}
		}
		first := run(bc)
		c.dist["oracle:lock-cases"]++
		if len(first) >= 7 && first[:7] == "escaped" {
			c.Violation(PropViolation{"C06", "a panic in a host object's method escaped Run with SetRecover(true): " + first, src, "C06:escaped-panic:hostmethod:" + op.name})
			continue
		}
		if first == "BLOCKED (no answer within 3 s)" {
			c.Violation(PropViolation{"C06", "the run itself blocks: " + op.stmt, src, "C06:blocked:" + op.name})
			continue
		}
		// drop the bad member again (if the failing statement stored it) without touching it
		if sm, ok := globals["sm"].(*ugo.SyncMap); ok {
			done := make(chan struct{})
			go func() {
				defer func() { _ = recover(); close(done) }()
				sm.Lock()
				for _, k := range []string{"k", "v", "w", "q"} {
					delete(sm.Value, k)
				}
				sm.Unlock()
			}()
			select {
			case <-done:
			case <-time.After(3 * time.Second):
				c.Violation(PropViolation{"C06", "after the recovered panic of `" + op.stmt + "` (outcome: " + first + ") the syncMap's lock is still held: the host cannot lock it", src,
					"C06:lock-held-after-recovered-panic:" + op.name})
				continue
			}
		}
		if second := run(follow); second != "[1, true, true]" {
			c.Violation(PropViolation{"C06", "after the recovered panic of `" + op.stmt + "` (outcome: " + first + ") a later run using the same syncMap gives " + second, src,
				"C06:lock-held-after-recovered-panic:" + op.name})
		}
	}
}
