package main

import (
	"bytes"
	"fmt"

	"github.com/ozanh/ugo"
	"github.com/ozanh/ugo/encoder"
)

// C04, builtin modules by NAME: the decoder re-links the Go functions of a builtin module through the
// name recorded in the module constant.  Modules whose attribute maps were derived from one another
// (a host builds "shapes2" from the attributes "shapes" exported, which already carry a module name), the
// same attribute map registered under two names, and attribute names that are empty or look like the
// name key must all round-trip to programs that behave like the original.  Oracle only.
func encModuleNameOracle(c *Ctx) {
	mk := func(kind string, sides int) map[string]ugo.Object {
		return map[string]ugo.Object{
			"kind":  ugo.String(kind),
			"sides": ugo.Int(sides),
			"area":  &ugo.Function{Name: "area", Value: func(args ...ugo.Object) (ugo.Object, error) { return ugo.Int(sides * len(args)), nil }},
			"":      ugo.Int(sides + 100),
			"limit": ugo.Map{"": ugo.Int(1), "max": ugo.Int(sides)},
		}
	}
	base := mk("shapes.kind", 4)
	mm0 := ugo.NewModuleMap().AddBuiltinModule("shapes", base)
	imported, err := mm0.Get("shapes").Import("shapes") // what a host sees when it asks for the module value
	if err != nil {
		return
	}
	derived := map[string]ugo.Object{}
	for k, v := range imported.(ugo.Map) {
		derived[k] = v
	}
	derived["kind"] = ugo.String("shapes2.kind")
	derived["sides"] = ugo.Int(6)
	derived["area"] = &ugo.Function{Name: "area", Value: func(args ...ugo.Object) (ugo.Object, error) { return ugo.Int(6 * len(args)), nil }}
	mm := ugo.NewModuleMap().AddBuiltinModule("shapes", base).AddBuiltinModule("shapes2", derived).AddBuiltinModule("alias", base)
	for _, src := range []string{
		`s := import("shapes2"); return [s.kind, s.sides, s.area(1), s[""], s.limit.max]`,
		`a := import("shapes"); b := import("shapes2"); c := import("alias"); return [a.kind, a.area(1, 2), b.kind, b.area(1, 2), c.kind, c.area(1), b.limit[""]]`,
		`f := func() { return import("shapes2").area(1, 2, 3) }; return [f(), import("alias").sides]`,
	} {
		for _, noOpt := range []bool{true, false} {
			c.dist["oracle:enc-module-names"]++
			bc, err := ugo.Compile([]byte(src), ugo.CompilerOptions{ModuleMap: mm, NoOptimize: noOpt})
			if err != nil {
				c.Violation(PropViolation{"C04", "module-name program does not compile: " + err.Error(), src, "C04:modname-compile"})
				continue
			}
			want, werr := ugo.NewVM(bc).Run(nil)
			cur := bc
			for gen := 1; gen <= 2; gen++ {
				var buf bytes.Buffer
				if err := encoder.EncodeBytecodeTo(cur, &buf); err != nil {
					c.Violation(PropViolation{"C04", fmt.Sprintf("generation %d does not encode: %v", gen, err), src, "C04:modname-encode"})
					break
				}
				dec, err := encoder.DecodeBytecodeFrom(&buf, mm)
				if err != nil {
					c.Violation(PropViolation{"C04", fmt.Sprintf("generation %d does not decode: %v", gen, err), src, "C04:run-differs:module-name"})
					break
				}
				var got ugo.Object
				var gerr error
				func() {
					defer func() {
						if r := recover(); r != nil {
							gerr = fmt.Errorf("panic: %v", r)
						}
					}()
					got, gerr = ugo.NewVM(dec).Run(nil)
				}()
				if fmt.Sprint(got, gerr) != fmt.Sprint(want, werr) {
					c.Violation(PropViolation{"C04", fmt.Sprintf("after %d encode/decode round trip(s) the program gives %v %v, the original %v %v", gen, got, gerr, want, werr), src, "C04:run-differs:module-name"})
					break
				}
				cur = dec
			}
		}
	}
}
