package main

import (
	"bytes"
	"fmt"
	"os"
	"runtime/debug"
	"sort"
	"strconv"
	"strings"
	"time"

	"github.com/ozanh/ugo"
	"github.com/ozanh/ugo/encoder"

	"verifharness/codec"
	"verifharness/gen"
)

// stream `v1` (C11): bytecode in the version-1 format still runs the same program.
//
//  * generated scripts are compiled (version-2 layout), every function is
//    DOWN-converted to the version-1 layout by an independent relocator written
//    here (v1 widths are the frozen historical table below, not read from /repo),
//    the encoded bytes get a version-1 header and go through the implementation's
//    decoder (encoder.DecodeBytecodeFrom -> decodeBytecodeV1 -> converter);
//  * correspondence: for every function (and for malformed byte strings) the
//    implementation's converted (instructions, source map) is compared with the
//    Lean model `Model/V1.convFn` on the same input;
//  * property oracle on the implementation: the decoded program and the original
//    program run on the same inputs; value / error name+message / stack-trace
//    positions must be equal.

// v1Widths: operand widths of the version-1 format (frozen: jump-class operands
// were 2 bytes wide).  Indexed by opcode number of the version-1 enumeration.
var v1Widths = [][]int{
	0: {}, 1: {2}, 2: {1, 1}, 3: {2}, 4: {2}, 5: {1}, 6: {1}, 7: {1}, 8: {1}, 9: {1}, 10: {}, 11: {},
	12: {2}, 13: {2}, 14: {2}, 15: {2}, 16: {2}, 17: {2}, 18: {}, 19: {1}, 20: {}, 21: {}, 22: {},
	23: {1}, 24: {1}, 25: {1}, 26: {1}, 27: {2, 1}, 28: {}, 29: {}, 30: {}, 31: {}, 32: {2, 2}, 33: {2},
	34: {2, 2}, 35: {}, 36: {}, 37: {1}, 38: {1}, 39: {1}, 40: {1}, 41: {}, 42: {}, 43: {1, 1},
}

const (
	v1OpJump      = 12
	v1OpJumpFalsy = 13
	v1OpAndJump   = 14
	v1OpOrJump    = 15
	v1OpSetupTry  = 34
)

func v1IsJump(op byte) bool { return op >= v1OpJump && op <= v1OpOrJump }

type v1inst struct {
	off  int
	op   byte
	args []int
}

// walk decodes a whole instruction stream with the given width table.
func v1walk(ins []byte, widths [][]int) ([]v1inst, bool) {
	var out []v1inst
	for i := 0; i < len(ins); {
		op := ins[i]
		if int(op) >= len(widths) {
			return nil, false
		}
		it := v1inst{off: i, op: op}
		j := i + 1
		for _, w := range widths[op] {
			if j+w > len(ins) {
				return nil, false
			}
			v := 0
			for k := 0; k < w; k++ {
				v = v<<8 | int(ins[j+k])
			}
			it.args = append(it.args, v)
			j += w
		}
		out = append(out, it)
		i = j
	}
	return out, true
}

func v1emit(buf []byte, op byte, args []int, widths []int) []byte {
	buf = append(buf, op)
	for k, w := range widths {
		for s := w - 1; s >= 0; s-- {
			buf = append(buf, byte(args[k]>>(8*uint(s))))
		}
	}
	return buf
}

func v2Widths() [][]int {
	w := make([][]int, len(ugo.OpcodeOperands))
	for i := range ugo.OpcodeOperands {
		w[i] = ugo.OpcodeOperands[i]
	}
	return w
}

// downConvert re-encodes a version-2 function in the version-1 layout: v1 operand
// widths, every jump / try operand and source-map key mapped through the
// v2-boundary -> v1-boundary map.  ok=false when the function cannot be expressed
// in version 1 (a target is not a boundary or does not fit in 16 bits).
func downConvert(ins []byte, sm map[int]int) (v1 []byte, v1sm map[int]int, why string) {
	is, ok := v1walk(ins, v2Widths())
	if !ok {
		return nil, nil, "v2 stream does not decode"
	}
	oldToNew := map[int]int{}
	pos := 0
	for _, it := range is {
		oldToNew[it.off] = pos
		pos++
		for _, w := range v1Widths[it.op] {
			pos += w
		}
	}
	oldToNew[len(ins)] = pos
	mapT := func(t int) (int, bool) {
		n, ok := oldToNew[t]
		return n, ok && n < 1<<16
	}
	for _, it := range is {
		args := append([]int{}, it.args...)
		switch {
		case v1IsJump(it.op):
			n, ok := mapT(args[0])
			if !ok {
				return nil, nil, "jump target is not an instruction boundary"
			}
			args[0] = n
		case it.op == v1OpSetupTry:
			for k := 0; k < 2; k++ {
				if args[k] == 0 {
					continue // absent catch / finally
				}
				n, ok := mapT(args[k])
				if !ok {
					return nil, nil, "try target is not an instruction boundary"
				}
				args[k] = n
			}
		}
		v1 = v1emit(v1, it.op, args, v1Widths[it.op])
	}
	if sm != nil {
		v1sm = make(map[int]int, len(sm))
		for k, v := range sm {
			n, ok := oldToNew[k]
			if !ok {
				return nil, nil, "source-map key is not an instruction boundary"
			}
			v1sm[n] = v
		}
	}
	return v1, v1sm, ""
}

func smString(sm map[int]int) string {
	if len(sm) == 0 {
		return "-"
	}
	keys := make([]int, 0, len(sm))
	for k := range sm {
		keys = append(keys, k)
	}
	sort.Ints(keys)
	var sb strings.Builder
	for i, k := range keys {
		if i > 0 {
			sb.WriteByte(',')
		}
		fmt.Fprintf(&sb, "%d=%d", k, sm[k])
	}
	return sb.String()
}

func hexOrDash(b []byte) string {
	if len(b) == 0 {
		return "-"
	}
	return codec.Hex(b)
}

func v1ConvLine(ins []byte, sm map[int]int) string {
	return "v1\tconv\t" + hexOrDash(ins) + "\t" + smString(sm)
}

// asV1Bytes encodes bc with the version-1 header.
func asV1Bytes(bc *ugo.Bytecode) ([]byte, error) {
	data, err := (*encoder.Bytecode)(bc).MarshalBinary()
	if err != nil {
		return nil, err
	}
	if len(data) < 6 {
		return nil, fmt.Errorf("short encoding")
	}
	data[4], data[5] = 0, byte(encoder.BytecodeVersion1)
	return data, nil
}

// v1ConvImpl runs the implementation's converter on one function: the function is
// the Main of an otherwise empty Bytecode encoded with a version-1 header.
func v1ConvImpl(ins []byte, sm map[int]int) (res string) {
	defer func() {
		if r := recover(); r != nil {
			res = "panic"
		}
	}()
	cf := &ugo.CompiledFunction{Instructions: ins, SourceMap: sm}
	data, err := asV1Bytes(&ugo.Bytecode{Main: cf})
	if err != nil {
		return "encode-error " + err.Error()
	}
	var dec encoder.Bytecode
	if err := dec.UnmarshalBinary(data); err != nil {
		return "err"
	}
	if dec.Main == nil {
		return "ok - -"
	}
	return "ok " + hexOrDash(dec.Main.Instructions) + " " + smString(dec.Main.SourceMap)
}

type v1outcome struct {
	res   string
	trace string
}

func v1Run(bc *ugo.Bytecode, args []ugo.Object) (o v1outcome) {
	defer func() {
		if r := recover(); r != nil {
			o = v1outcome{res: fmt.Sprintf("panic %v", r)}
			if os.Getenv("V1DEBUG") != "" {
				os.Stderr.Write(debug.Stack())
			}
		}
	}()
	vm := ugo.NewVM(bc)
	t := time.AfterFunc(time.Second, vm.Abort)
	defer t.Stop()
	ret, err := vm.Run(nil, args...)
	if err != nil {
		o.res = codec.ErrString(err)
		if re, ok := err.(*ugo.RuntimeError); ok {
			var sb strings.Builder
			for _, p := range re.StackTrace() {
				fmt.Fprintf(&sb, "%s:%d:%d;", p.Filename, p.Line, p.Column)
			}
			o.trace = sb.String()
		}
		return o
	}
	o.res = "ok " + ret.TypeName() + " " + ret.String()
	return o
}

var v1ArgPool = [][]ugo.Object{
	{ugo.Int(0), ugo.Int(0)}, {ugo.Int(1), ugo.Int(0)}, {ugo.Int(0), ugo.Int(1)}, {ugo.Int(1), ugo.Int(2)},
	{ugo.Int(2), ugo.Int(1)}, {ugo.Int(3), ugo.Int(5)}, {ugo.Int(-1), ugo.Int(2)}, {ugo.Int(7), ugo.Int(-3)},
	{ugo.Int(2), ugo.Int(2)}, {ugo.Int(4), ugo.Int(1)},
}

func argsString(a []ugo.Object) string {
	var s []string
	for _, o := range a {
		s = append(s, o.String())
	}
	return "(" + strings.Join(s, ", ") + ")"
}

func opName(op byte) string {
	if int(op) < len(ugo.OpcodeNames) {
		return ugo.OpcodeNames[op]
	}
	return strconv.Itoa(int(op))
}

// firstDiff names the first instruction at which the decoded function differs from
// the original (for the violation signature).
func firstDiff(orig, dec *ugo.CompiledFunction) string {
	a, ok1 := v1walk(orig.Instructions, v2Widths())
	b, ok2 := v1walk(dec.Instructions, v2Widths())
	if !ok1 || !ok2 {
		return "undecodable"
	}
	for i := 0; i < len(a) && i < len(b); i++ {
		if a[i].op != b[i].op {
			return "opcode"
		}
		if a[i].off != b[i].off {
			return "layout"
		}
		for k := range a[i].args {
			if k < len(b[i].args) && a[i].args[k] != b[i].args[k] {
				return fmt.Sprintf("%s-operand%d", opName(a[i].op), k)
			}
		}
	}
	if len(a) != len(b) {
		return "length"
	}
	if smString(orig.SourceMap) != smString(dec.SourceMap) {
		return "sourcemap"
	}
	return "same"
}

type v1case struct {
	script v1script
	noOpt  bool
}

func v1Compile(cs v1case) (*ugo.Bytecode, error) {
	opts := ugo.CompilerOptions{NoOptimize: cs.noOpt}
	if cs.script.Module != "" {
		mm := ugo.NewModuleMap()
		mm.AddSourceModule("m1", []byte(cs.script.Module))
		opts.ModuleMap = mm
	}
	return ugo.Compile([]byte(cs.script.Main), opts)
}

func bcFuncs(bc *ugo.Bytecode) []*ugo.CompiledFunction {
	fs := []*ugo.CompiledFunction{bc.Main}
	for _, c := range bc.Constants {
		if cf, ok := c.(*ugo.CompiledFunction); ok {
			fs = append(fs, cf)
		}
	}
	return fs
}

// v1Program: the whole pipeline for one script.  Returns false when the script
// is not usable (does not compile / cannot be expressed in version 1).
func v1Program(c *Ctx, cs v1case, label string) bool {
	bc, err := v1Compile(cs)
	if err != nil {
		c.Count("compile-error")
		return false
	}
	// version-1 image of the program: same constants, every function down-converted
	v1bc := &ugo.Bytecode{FileSet: bc.FileSet, NumModules: bc.NumModules}
	conv := func(cf *ugo.CompiledFunction) (*ugo.CompiledFunction, bool) {
		ins, sm, why := downConvert(cf.Instructions, cf.SourceMap)
		if why != "" {
			c.Count("skip:" + why)
			return nil, false
		}
		cp := *cf
		cp.Instructions, cp.SourceMap = ins, sm
		return &cp, true
	}
	var ok bool
	if v1bc.Main, ok = conv(bc.Main); !ok {
		return false
	}
	v1bc.Constants = make([]ugo.Object, len(bc.Constants))
	for i, k := range bc.Constants {
		if cf, isf := k.(*ugo.CompiledFunction); isf {
			if v1bc.Constants[i], ok = conv(cf); !ok {
				return false
			}
		} else {
			v1bc.Constants[i] = k
		}
	}
	// correspondence lines: the converter on every function of the v1 image
	for _, cf := range bcFuncs(v1bc) {
		nj := 0
		if is, ok := v1walk(cf.Instructions, v1Widths); ok {
			for _, it := range is {
				if v1IsJump(it.op) || it.op == v1OpSetupTry {
					nj++
				}
			}
		}
		key := "fn:jumps=" + strconv.Itoa(imin(nj, 12)) + ":len=" + strconv.Itoa(imin(len(cf.Instructions)/16, 20))
		if nj == 0 {
			key = ""
		}
		c.Add(Case{Line: v1ConvLine(cf.Instructions, cf.SourceMap), Impl: v1ConvImpl(cf.Instructions, cf.SourceMap), Key: key})
	}
	data, err := asV1Bytes(v1bc)
	if err != nil {
		c.Count("encode-error")
		return false
	}
	input := func(args []ugo.Object) string {
		s := "script (NoOptimize=" + strconv.FormatBool(cs.noOpt) + "):\n" + cs.script.Main
		if cs.script.Module != "" {
			s += "\nmodule m1:\n" + cs.script.Module
		}
		if args != nil {
			s += "\nargs: " + argsString(args)
		}
		return s
	}
	dec, derr := func() (d *ugo.Bytecode, err error) {
		defer func() {
			if r := recover(); r != nil {
				err = fmt.Errorf("panic: %v", r)
			}
		}()
		return encoder.DecodeBytecodeFrom(bytes.NewReader(data), nil)
	}()
	if derr != nil {
		c.Violation(PropViolation{"C11", "version-1 bytes of a compiled script do not decode: " + derr.Error(), input(nil), "C11:decode-error"})
		return true
	}
	// where does the decoded program differ from the original (signature only)
	diff := "same"
	of, df := bcFuncs(bc), bcFuncs(dec)
	if len(of) != len(df) {
		diff = "functions"
	} else {
		for i := range of {
			if d := firstDiff(of[i], df[i]); d != "same" {
				diff = d
				break
			}
		}
	}
	c.Count("decoded:" + diff)
	// the property's oracle: run both on the same inputs
	nargs := 4
	if c.nviol >= 60 {
		return true // enough failing inputs collected; runs of broken programs may be slow (endless loops)
	}
	start := c.R.Intn(len(v1ArgPool))
	for k := 0; k < nargs; k++ {
		args := v1ArgPool[(start+k*3)%len(v1ArgPool)]
		want := v1Run(bc, args)
		got := v1Run(dec, args)
		if os.Getenv("V1DEBUG") != "" && (strings.HasPrefix(want.res, "panic") || strings.Contains(want.res, os.Getenv("V1DEBUG"))) {
			fmt.Fprintln(os.Stderr, want.res, want.trace, "\n", input(args))
		}
		cls := strings.SplitN(want.res, " ", 3)
		if cls[0] == "err" && len(cls) > 1 {
			c.Count("run:err:" + cls[1])
		} else {
			c.Count("run:" + cls[0])
		}
		if want.res != got.res {
			c.Violation(PropViolation{"C11",
				fmt.Sprintf("%s: original runs to `%s`, the program decoded from its version-1 bytes runs to `%s` (first difference after decoding: %s)", label, want.res, got.res, diff),
				input(args), "C11:outcome:" + diff})
		} else if want.trace != got.trace {
			c.Violation(PropViolation{"C11",
				fmt.Sprintf("%s: both fail with `%s` but the original reports positions %s and the decoded program %s (first difference after decoding: %s)", label, want.res, want.trace, got.trace, diff),
				input(args), "C11:position:" + diff})
		}
	}
	return true
}

// fixed scripts that always run first (the witness of DESIGN.md section 6 among them)
var v1Fixed = []string{
	"param a; if a {return 1}; x:=0; for i:=0;i<3;i++ {x+=i}; return x",
	"param (a, b)\nx := 0\ntry {\n\tx = 1 / a\n} catch e {\n\tx = 10\n} finally {\n\tx += 5\n}\nif a && b || x > 5 {\n\tx++\n}\nreturn x\n",
	"param (a, b)\nf := func(p) {\n\tfor i := 0; i < 3; i++ {\n\t\tif i == p {\n\t\t\treturn 1 / (p - 1)\n\t\t}\n\t}\n\treturn 0\n}\nx := a > 0 ? f(a) : f(b)\nreturn x\n",
	"param (a, b)\ntry {\n\tif a > b {\n\t\tthrow error(\"big\")\n\t}\n} finally {\n\ta = a + 1\n}\nreturn [a, b][a]\n",
	// selector calls with arguments (CALLNAME, the last opcode of the table) between jumps and try blocks
	"param (a, b)\nm := {double: func(x) { return x * 2 }, add: func(x, y) { return x + y }, zero: func() { return 0 }}\nx := m.zero()\nfor i := 0; i < 4; i++ {\n\tif i % 2 == 0 {\n\t\tx += m.double(i)\n\t} else {\n\t\tx = m.add(x, i)\n\t}\n}\ntry {\n\tx = m.add(x, 1 / a)\n} catch e {\n\tx = m.double(x)\n} finally {\n\tx = m.add(x, m.zero())\n}\nreturn a && b ? m.double(x) : m.add(x, 1)\n",
	"param (a, b)\nf := func(o, n) {\n\ts := 0\n\tfor i := 0; i < n; i++ {\n\t\ts = o.step(s, i)\n\t\tif s > 5 { break }\n\t}\n\treturn o.done(s)\n}\nreturn f({step: func(s, i) { return s + i }, done: func(s) { return [s] }}, 6)\n",
}

func init() {
	// a function longer than 32 KiB in the version-1 layout: jump and try targets at positions
	// >= 32768 (read back as 2-byte operands by the converter)
	var sb strings.Builder
	sb.WriteString("param (a, b)\nx := 0\n")
	for i := 0; i < 2100; i++ {
		fmt.Fprintf(&sb, "if a == %d { x += %d }\n", i%7, i%5)
	}
	sb.WriteString("try {\n\tx = x / (b - b)\n} catch e {\n\tx += 1000\n} finally {\n\tx += 1\n}\nfor i := 0; i < 3; i++ { if i == 1 { continue }; x += i }\nreturn x\n")
	v1Fixed = append(v1Fixed, sb.String())
	// a function that fits into 64 KiB in the version-1 layout (2-byte jump operands) but not after the
	// operands are widened: relocated targets beyond 65535
	sb.Reset()
	sb.WriteString("param (a, b)\nx := 0\n")
	for i := 0; i < 3400; i++ {
		fmt.Fprintf(&sb, "if a == %d { x += %d }\n", i%7, i%5)
	}
	sb.WriteString("try {\n\tx = x / (b - b)\n} catch e {\n\tx += 1000\n} finally {\n\tx += 1\n}\nfor i := 0; i < 3; i++ { if i == 1 { continue }; x += i }\nreturn a ? x : [x][b]\n")
	v1Fixed = append(v1Fixed, sb.String())
	// function literals with identical bodies at different places: equal instructions, different
	// source maps; an error in the later ones must be reported at their own lines
	v1Fixed = append(v1Fixed,
		"param (a, b)\nfirst := func(x) {\n\tif x { return 1 }\n\treturn 10 / x\n}\n\nsecond := func(x) {\n\tif x { return 1 }\n\treturn 10 / x\n}\n\n\nthird := func(x) {\n\tif x { return 1 }\n\treturn 10 / x\n}\nreturn a ? second(0) : (b ? third(0) : first(0))\n",
		"param (a, b)\nfs := [func(x) {\n\ttry { return x.k.j } finally { x = 1 }\n}, func(x) {\n\ttry { return x.k.j } finally { x = 1 }\n},\nfunc(x) {\n\ttry { return x.k.j } finally { x = 1 }\n}]\nreturn fs[a ? 2 : 1](b)\n")
}

// malformed inputs for the converter (model correspondence on the panic / error branches)
func v1Malformed(c *Ctx, pool [][]byte) {
	r := c.R
	n := 600 * c.Scale
	for i := 0; i < n; i++ {
		var ins []byte
		kind := r.Intn(5)
		switch {
		case kind == 0 || len(pool) == 0:
			ins = make([]byte, r.Intn(12))
			for j := range ins {
				if r.Intn(3) == 0 {
					ins[j] = byte([]int{12, 13, 14, 15, 34}[r.Intn(5)])
				} else {
					ins[j] = byte(r.Intn(50))
				}
			}
		case kind == 1: // truncation of a valid function
			p := pool[r.Intn(len(pool))]
			ins = append([]byte{}, p[:r.Intn(len(p)+1)]...)
		case kind == 2: // one byte changed
			p := pool[r.Intn(len(pool))]
			ins = append([]byte{}, p...)
			if len(ins) > 0 {
				ins[r.Intn(len(ins))] = byte(r.Intn(256))
			}
		case kind == 3: // jump targets that are not boundaries / beyond the end
			ins = []byte{}
			for k := 0; k < 1+r.Intn(5); k++ {
				switch r.Intn(4) {
				case 0:
					ins = v1emit(ins, byte(12+r.Intn(4)), []int{r.Intn(40)}, []int{2})
				case 1:
					ins = v1emit(ins, 34, []int{r.Intn(30), r.Intn(30)}, []int{2, 2})
				case 2:
					ins = v1emit(ins, 1, []int{r.Intn(300)}, []int{2})
				default:
					ins = append(ins, byte([]int{0, 10, 21, 22, 41}[r.Intn(5)]))
				}
			}
		default: // valid function, arbitrary source-map keys
			p := pool[r.Intn(len(pool))]
			ins = append([]byte{}, p...)
		}
		sm := map[int]int{}
		for k := r.Intn(4); k > 0; k-- {
			sm[r.Intn(len(ins)+3)] = r.Intn(100)
		}
		impl := v1ConvImpl(ins, sm)
		c.Count("malformed:" + strings.SplitN(impl, " ", 2)[0])
		c.Add(Case{Line: v1ConvLine(ins, sm), Impl: impl, Key: "malformed:" + strings.SplitN(impl, " ", 2)[0] + ":" + strconv.Itoa(kind)})
	}
}

func parseSm(s string) (map[int]int, error) {
	if s == "-" {
		return nil, nil
	}
	sm := map[int]int{}
	for _, kv := range strings.Split(s, ",") {
		p := strings.SplitN(kv, "=", 2)
		if len(p) != 2 {
			return nil, fmt.Errorf("bad source map")
		}
		k, err1 := strconv.Atoi(p[0])
		v, err2 := strconv.Atoi(p[1])
		if err1 != nil || err2 != nil {
			return nil, fmt.Errorf("bad source map")
		}
		sm[k] = v
	}
	return sm, nil
}

func init() {
	register(&Stream{
		Name: "v1",
		Run: func(c *Ctx) {
			c.Rule("generated scripts (if/else, three loop forms with break/continue, && || ?:, try/catch/finally with throw/return, function literals calling each other, source module) compiled with and without the optimizer; every function down-converted to the version-1 layout by an independent relocator; (a) converter output per function and on malformed byte strings vs Lean model convFn, (b) decoded-from-v1 program vs original on 4 argument pairs each: outcome and stack-trace positions; distinct = (jump count, length) classes of converted functions + malformed classes")
			v1GoldenOracle(c)
			for i, src := range v1Fixed {
				for _, no := range []bool{false, true} {
					v1Program(c, v1case{script: v1script{Main: src}, noOpt: no}, fmt.Sprintf("fixed#%d", i))
				}
			}
			n := 350 * c.Scale
			var pool [][]byte
			feat := map[string]int{}
			for i := 0; i < n; i++ {
				r := c.R.Fork()
				cs := v1case{script: genV1Script(r), noOpt: r.Intn(3) == 0}
				if v1Program(c, cs, fmt.Sprintf("program#%d", i)) {
					for k, v := range cs.script.Feat {
						feat[k] += v
					}
					if len(pool) < 200 {
						if bc, err := v1Compile(cs); err == nil {
							for _, cf := range bcFuncs(bc) {
								if ins, _, why := downConvert(cf.Instructions, cf.SourceMap); why == "" && len(ins) > 0 {
									pool = append(pool, ins)
								}
							}
						}
					}
				}
			}
			for k, v := range feat {
				c.dist["feature:"+k] += v
			}
			v1Malformed(c, pool)
		},
		Replay: func(line string) (string, error) {
			f := strings.Split(line, "\t")
			if len(f) != 4 || f[1] != "conv" {
				return "", fmt.Errorf("bad v1 line")
			}
			var ins []byte
			if f[2] != "-" {
				b, err := hexDecode(f[2])
				if err != nil {
					return "", err
				}
				ins = b
			}
			sm, err := parseSm(f[3])
			if err != nil {
				return "", err
			}
			return v1ConvImpl(ins, sm), nil
		},
	})
}

func hexDecode(s string) ([]byte, error) {
	if len(s)%2 != 0 {
		return nil, fmt.Errorf("odd hex")
	}
	out := make([]byte, len(s)/2)
	for i := range out {
		v, err := strconv.ParseUint(s[2*i:2*i+2], 16, 8)
		if err != nil {
			return nil, err
		}
		out[i] = byte(v)
	}
	return out, nil
}

var _ = gen.NewRand

func imin(a, b int) int {
	if a < b {
		return a
	}
	return b
}
