package main

import (
	"fmt"

	"github.com/ozanh/ugo"
)

// Bytecode whose Main is a closure (what an Invoker runs, or an embedder builds by hand from a
// function value a script returned): frame 0 is then subject to everything a called frame is —
// self tail calls (reusing frame 0, with or without discarding the value), free variables, try
// handlers.  C07: a sequence of runs on ONE VM (with and without Clear between them) gives, run by
// run, what a new VM gives.  Oracle only.
func mainClosureOracle(c *Ctx) {
	type fnCase struct {
		name, src string
		argSeqs   [][]int
	}
	cases := []fnCase{
		{"discarded-self-tail-call", `var f; f = func(n) { if n == 0 { return "done" }; f(n-1) }; return f`, [][]int{{3, 0}, {0, 3, 0}, {1, 1, 0}}},
		{"valued-self-tail-call", `var f; f = func(n) { if n == 0 { return "end" }; return f(n-1) }; return f`, [][]int{{3, 0}, {0, 2}}},
		{"captured-counter", `cnt := 0; var f; f = func(n) { cnt++; if n > 0 { f(n-1) }; return cnt }; return f`, [][]int{{2, 0}, {0, 0, 1}}},
		{"try-in-main", `var f; f = func(n) { try { if n > 1 { throw n }; return n } catch e { return [e.Message] } finally { n = 0 } }; return f`, [][]int{{5, 1}, {1, 5, 0}}},
		{"throwing-main", `var f; f = func(n) { if n > 1 { return 1 / (n - n) }; return n }; return f`, [][]int{{5, 1}, {1, 5, 1}}},
	}
	for _, fc := range cases {
		bc, err := ugo.Compile([]byte(fc.src), ugo.CompilerOptions{})
		if err != nil {
			continue
		}
		ret, err := ugo.NewVM(bc).Run(nil)
		fn, ok := ret.(*ugo.CompiledFunction)
		if err != nil || !ok {
			continue
		}
		bc2 := &ugo.Bytecode{FileSet: bc.FileSet, Main: fn, Constants: bc.Constants, NumModules: bc.NumModules}
		runOne := func(vm *ugo.VM, n int) (s string) {
			defer func() {
				if r := recover(); r != nil {
					s = fmt.Sprintf("panic %v", r)
				}
			}()
			ret, err := vm.Run(nil, ugo.Int(n))
			if err != nil {
				return "error " + semFirstLine(err.Error())
			}
			return "value " + ret.String()
		}
		for _, seq := range fc.argSeqs {
			for _, clear := range []bool{false, true} {
				// captured state (the counter) persists across runs by design: replay the same prefix
				// on new VMs to get the expected answers run by run
				used := ugo.NewVM(bc2).SetRecover(true)
				for i, n := range seq {
					if clear && i > 0 {
						used.Clear()
						used.SetBytecode(bc2)
					}
					got := runOne(used, n)
					c.dist["oracle:main-closure-runs"]++
					if fc.name == "captured-counter" {
						continue // the closure's own captured variable is shared state, not VM residue
					}
					want := runOne(ugo.NewVM(bc2).SetRecover(true), n)
					if got != want {
						c.Violation(PropViolation{"C07", fmt.Sprintf("Bytecode whose Main is the closure `%s`: run %d (argument %d, after runs with %v, clear=%v) on the used VM gives %s, a new VM gives %s",
							fc.name, i+1, n, seq[:i], clear, got, want), fc.src, "C07:history-dependent:main-closure:" + fc.name})
						break
					}
				}
			}
		}
	}
}
