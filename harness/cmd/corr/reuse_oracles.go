package main

import (
	"context"
	"errors"
	"fmt"
	"strings"

	"github.com/ozanh/ugo"
)

// Three small oracles over RE-USED compiler state (sixth seeded round); fixed expectations, implementation
// only.

// reusedTableGlobalsOracle (C02 under C05's "a re-used symbol table" configuration): a symbol table that
// went through a failed compilation and is then used with caller-supplied Constants still resolves every
// declared global by its NAME: the script returns the value stored under that name, whatever strings the
// supplied constant pool holds at the indexes the failed compilation used.
func reusedTableGlobalsOracle(c *Ctx) {
	pools := [][]ugo.Object{
		nil,
		{ugo.String("b"), ugo.String("a")},
		{ugo.String("a"), ugo.String("b")},
		{ugo.String("x"), ugo.String("y"), ugo.String("z")},
		{ugo.Int(7), ugo.String("c"), ugo.String("b"), ugo.String("a")},
		{ugo.String("c")},
	}
	firsts := []string{"a; b; undefinedName", "b; c; a; x :=", "return c + b + a + nope", "c; return a +"}
	g := ugo.Map{"a": ugo.Int(1), "b": ugo.Int(2), "c": ugo.Int(3), "x": ugo.Int(4), "y": ugo.Int(5), "z": ugo.Int(6)}
	for fi, first := range firsts {
		for pi, pool := range pools {
			for _, noOpt := range []bool{false, true} {
				c.dist["oracle:reused-table-globals"]++
				st := ugo.NewSymbolTable()
				for _, n := range []string{"a", "b", "c"} {
					if _, err := st.DefineGlobal(n); err != nil {
						return
					}
				}
				if _, err := ugo.Compile([]byte(first), ugo.CompilerOptions{SymbolTable: st, NoOptimize: noOpt}); err == nil {
					continue
				}
				src := "return [a, b, c]"
				bc, err := ugo.Compile([]byte(src), ugo.CompilerOptions{SymbolTable: st, NoOptimize: noOpt, Constants: append([]ugo.Object{}, pool...)})
				if err != nil {
					c.Violation(PropViolation{"C02", "a symbol table re-used after a failed compilation refuses `return [a, b, c]` over its declared globals: " + semFirstLine(err.Error()),
						first + "\n---\n" + src, fmt.Sprintf("C02:reused-table-globals:compile:%d:%d", fi, pi)})
					continue
				}
				ret, err := ugo.NewVM(bc).Run(g.Copy())
				got := ""
				if err != nil {
					got = "error: " + semFirstLine(err.Error())
				} else {
					got = ret.String()
				}
				if got != "[1, 2, 3]" {
					c.Violation(PropViolation{"C02", fmt.Sprintf("symbol table re-used after the failed compilation of `%s`, Constants=%v, NoOptimize=%v: `return [a, b, c]` over globals a=1 b=2 c=3 gives %s", first, pool, noOpt, got),
						first + "\n---\n" + src, fmt.Sprintf("C02:reused-table-globals:%d:%d", fi, pi)})
				}
			}
		}
	}
}

// evalDisableViaForkOracle (C10: "disabled builtins keep their meaning in every later fragment"): a
// builtin disabled between two fragments - on the session's table or through a scope forked from it;
// DisableBuiltin documents that it always acts on the root table - is refused by every later fragment
// exactly as by the one-script compilation, also when an earlier fragment already used it.
func evalDisableViaForkOracle(c *Ctx) {
	for _, name := range []string{"len", "append", "string"} {
		for _, via := range []string{"root", "fork-block", "fork-func", "fork-fork"} {
			for _, usedBefore := range []bool{true, false} {
				c.dist["oracle:eval-disable-between-fragments"]++
				disable := func(st *ugo.SymbolTable) {
					switch via {
					case "root":
						st.DisableBuiltin(name)
					case "fork-block":
						st.Fork(true).DisableBuiltin(name)
					case "fork-func":
						st.Fork(false).DisableBuiltin(name)
					default:
						st.Fork(true).Fork(false).DisableBuiltin(name)
					}
				}
				f1 := "x := [1, 2]\n"
				if usedBefore {
					f1 += name + "(x)\n"
				}
				f2 := "y := [1, 2, 3]\nreturn " + name + "(y)\n"
				ref := ugo.NewSymbolTable()
				disable(ref)
				if _, err := ugo.Compile([]byte("x := [1, 2]\n"+f2), ugo.CompilerOptions{SymbolTable: ref}); err == nil {
					continue // one script accepts it: C13's subject, reported there
				}
				ev := ugo.NewEval(ugo.CompilerOptions{}, nil)
				if _, _, err := ev.Run(context.Background(), []byte(f1)); err != nil {
					continue
				}
				disable(ev.Opts.SymbolTable)
				ret, _, err := ev.Run(context.Background(), []byte(f2))
				if err == nil {
					c.Violation(PropViolation{"C10", fmt.Sprintf("builtin %s disabled between two fragments (%s, used by the first fragment: %v): the one-script compilation refuses the reference, the later fragment runs and gives %v", name, via, usedBefore, ret),
						f1 + "---\n" + f2, fmt.Sprintf("C10:disabled-between-fragments:%s:%v", via, usedBefore)})
				}
			}
		}
	}
}

// posDerivedErrorOracle (C16): errors derived from one caught error (`e.New`) and thrown in turn each
// report their own history: the lines at which THAT error was thrown, never a line at which a sibling
// was thrown.  Expected lines are read off the text (k blank lines prepended move each by k).
func posDerivedErrorOracle(c *Ctx) {
	body := `g := func() {
	throw error("base")
}
f := func() {
	g()
}
var e
try {
	f()
} catch err {
	e = err
}
e2 := e.New("a")
e3 := e.New("b")
try {
	throw e2
} catch {
}
try {
	throw e3
} catch {
}
throw WHICH
`
	for _, which := range []struct {
		name string
		want []int
	}{{"e2", []int{23, 16, 9, 5, 2}}, {"e3", []int{23, 20, 9, 5, 2}}, {"e", []int{23, 9, 5, 2}}} {
		for _, k := range []int{0, 3} {
			for _, noOpt := range []bool{false, true} {
				c.dist["oracle:pos-derived-errors"]++
				src := strings.Repeat("\n", k) + strings.ReplaceAll(body, "WHICH", which.name)
				bc, err := ugo.Compile([]byte(src), ugo.CompilerOptions{NoOptimize: noOpt})
				if err != nil {
					c.Violation(PropViolation{"C16", "derived-error script does not compile: " + semFirstLine(err.Error()), src, "C16:derived-compile"})
					continue
				}
				_, err = ugo.NewVM(bc).Run(nil)
				var re *ugo.RuntimeError
				if !errors.As(err, &re) {
					c.Violation(PropViolation{"C16", fmt.Sprintf("expected a runtime error, got %v", err), src, "C16:derived-no-error"})
					continue
				}
				var got, want []int
				for _, p := range re.StackTrace() {
					got = append(got, p.Line)
				}
				for _, l := range which.want {
					want = append(want, l+k)
				}
				if fmt.Sprint(got) != fmt.Sprint(want) {
					c.Violation(PropViolation{"C16", fmt.Sprintf("uncaught `throw %s` (errors derived from one caught error, %d blank lines prepended, NoOptimize=%v): reported lines %v, the text says %v", which.name, k, noOpt, got, want),
						src, "C16:derived-error-trace:" + which.name})
				}
			}
		}
	}
}
