package main

// stream `json` (C17): the json module against (1) the Lean model (Marshal bytes,
// Valid verdicts, Compact, Indent, Unmarshal results; the line also carries the
// verdict of the RFC 8259 recogniser Spec/Json against encoding/json.Valid) and
// (2) encoding/json itself (the property's own oracle on the implementation).

import (
	"bytes"
	"encoding/hex"
	gojson "encoding/json"
	"fmt"
	"math"
	"sort"
	"strconv"
	"strings"

	"github.com/ozanh/ugo"
	ujson "github.com/ozanh/ugo/stdlib/json"

	"verifharness/gen"
)

// ---- line syntax of json values (superset of codec's) ---------------------------

type jfloats struct {
	seen map[uint64]bool
	list []uint64
}

func jenc(sb *strings.Builder, o ugo.Object, fl *jfloats) {
	switch v := o.(type) {
	case nil:
		sb.WriteString("z")
	case *ugo.UndefinedType:
		sb.WriteString("u")
	case ugo.Int:
		fmt.Fprintf(sb, "i%016x", uint64(v))
	case ugo.Uint:
		fmt.Fprintf(sb, "n%016x", uint64(v))
	case ugo.Float:
		b := math.Float64bits(float64(v))
		if v != v {
			b = 0x7FF8000000000001
		}
		if fl != nil && !fl.seen[b] {
			fl.seen[b] = true
			fl.list = append(fl.list, b)
		}
		fmt.Fprintf(sb, "f%016x", b)
	case ugo.Char:
		fmt.Fprintf(sb, "c%08x", uint32(v))
	case ugo.Bool:
		if v {
			sb.WriteString("b1")
		} else {
			sb.WriteString("b0")
		}
	case ugo.String:
		sb.WriteString("s" + hex.EncodeToString([]byte(v)))
	case ugo.Bytes:
		sb.WriteString("y" + hex.EncodeToString(v))
	case ugo.Array:
		sb.WriteString("a(")
		for i, x := range v {
			if i > 0 {
				sb.WriteByte(' ')
			}
			jenc(sb, x, fl)
		}
		sb.WriteString(")")
	case ugo.Map:
		jencMap(sb, "m(", v, fl)
	case *ugo.SyncMap:
		jencMap(sb, "S(", v.Value, fl)
	case *ujson.EncoderOptions:
		fmt.Fprintf(sb, "q%d%d(", b2i(v.Quote), b2i(v.EscapeHTML))
		jenc(sb, v.Value, fl)
		sb.WriteString(")")
	case *ugo.ObjectPtr:
		sb.WriteString("p(")
		if v.Value != nil {
			jenc(sb, *v.Value, fl)
		}
		sb.WriteString(")")
	case *ujson.RawMessage:
		if v.Value == nil {
			sb.WriteString("R")
		} else {
			sb.WriteString("r" + hex.EncodeToString(v.Value))
		}
	case *ugo.Error:
		sb.WriteString("e")
	default:
		sb.WriteString("o" + strings.Map(func(r rune) rune {
			if r == ':' || r == ' ' || r == '\t' || r == '(' || r == ')' {
				return '_'
			}
			return r
		}, o.TypeName()))
	}
}

func jencMap(sb *strings.Builder, open string, m ugo.Map, fl *jfloats) {
	keys := make([]string, 0, len(m))
	for k := range m {
		keys = append(keys, k)
	}
	sort.Strings(keys)
	sb.WriteString(open)
	for i, k := range keys {
		if i > 0 {
			sb.WriteByte(' ')
		}
		sb.WriteString(hex.EncodeToString([]byte(k)) + "=")
		jenc(sb, m[k], fl)
	}
	sb.WriteString(")")
}

func pfx(s string, n int) string {
	if len(s) > n {
		return s[:n]
	}
	return s
}

func b2i(b bool) int {
	if b {
		return 1
	}
	return 0
}

type jparser struct {
	s string
	i int
}

func (p *jparser) hexRun() string {
	j := p.i
	for j < len(p.s) && strings.IndexByte("0123456789abcdef", p.s[j]) >= 0 {
		j++
	}
	h := p.s[p.i:j]
	p.i = j
	return h
}

var opaqueFn = &ugo.Function{Name: "f", Value: func(...ugo.Object) (ugo.Object, error) { return ugo.Undefined, nil }}

func (p *jparser) val() (ugo.Object, error) {
	if p.i >= len(p.s) {
		return nil, fmt.Errorf("unexpected end")
	}
	c := p.s[p.i]
	p.i++
	switch c {
	case 'z':
		return nil, nil
	case 'u':
		return ugo.Undefined, nil
	case 'i', 'n', 'f', 'c':
		n, err := strconv.ParseUint(p.hexRun(), 16, 64)
		if err != nil {
			return nil, err
		}
		switch c {
		case 'i':
			return ugo.Int(int64(n)), nil
		case 'n':
			return ugo.Uint(n), nil
		case 'f':
			return ugo.Float(math.Float64frombits(n)), nil
		}
		return ugo.Char(int32(uint32(n))), nil
	case 'b':
		p.i++
		return ugo.Bool(p.s[p.i-1] == '1'), nil
	case 's', 'y', 'r':
		b, err := hex.DecodeString(p.hexRun())
		if err != nil {
			return nil, err
		}
		switch c {
		case 's':
			return ugo.String(b), nil
		case 'y':
			return ugo.Bytes(b), nil
		}
		return &ujson.RawMessage{Value: b}, nil
	case 'R':
		return &ujson.RawMessage{}, nil
	case 'e':
		return &ugo.Error{Name: "error", Message: "x"}, nil
	case 'o':
		j := p.i
		for j < len(p.s) && p.s[j] != ' ' && p.s[j] != ')' {
			j++
		}
		tn := p.s[p.i:j]
		p.i = j
		if tn == "error" {
			return &ugo.RuntimeError{Err: &ugo.Error{Name: "error", Message: "x"}}, nil
		}
		return opaqueFn, nil
	case 'a':
		p.i++
		arr := ugo.Array{}
		for {
			if p.i >= len(p.s) {
				return nil, fmt.Errorf("unterminated")
			}
			if p.s[p.i] == ')' {
				p.i++
				return arr, nil
			}
			if p.s[p.i] == ' ' {
				p.i++
				continue
			}
			v, err := p.val()
			if err != nil {
				return nil, err
			}
			arr = append(arr, v)
		}
	case 'm', 'S':
		p.i++
		m := ugo.Map{}
		for {
			if p.i >= len(p.s) {
				return nil, fmt.Errorf("unterminated")
			}
			if p.s[p.i] == ')' {
				p.i++
				if c == 'S' {
					return &ugo.SyncMap{Value: m}, nil
				}
				return m, nil
			}
			if p.s[p.i] == ' ' {
				p.i++
				continue
			}
			k, err := hex.DecodeString(p.hexRun())
			if err != nil {
				return nil, err
			}
			p.i++
			v, err := p.val()
			if err != nil {
				return nil, err
			}
			m[string(k)] = v
		}
	case 'q':
		q, e := p.s[p.i] == '1', p.s[p.i+1] == '1'
		p.i += 3
		v, err := p.val()
		if err != nil {
			return nil, err
		}
		p.i++
		return &ujson.EncoderOptions{Value: v, Quote: q, EscapeHTML: e}, nil
	case 'p':
		p.i++
		if p.s[p.i] == ')' {
			p.i++
			return &ugo.ObjectPtr{}, nil
		}
		v, err := p.val()
		if err != nil {
			return nil, err
		}
		p.i++
		return &ugo.ObjectPtr{Value: &v}, nil
	}
	return nil, fmt.Errorf("bad tag %q", c)
}

func jdecode(s string) (ugo.Object, error) {
	p := &jparser{s: s}
	v, err := p.val()
	if err != nil {
		return nil, err
	}
	if p.i != len(s) {
		return nil, fmt.Errorf("trailing input")
	}
	return v, nil
}

// ---- implementation answers -----------------------------------------------------

// floatTable gives the model strconv.AppendFloat's text for both formats (the
// model chooses the format itself): bits:hex('f'):hex('e'),...
func floatTable(fl *jfloats) string {
	var parts []string
	for _, b := range fl.list {
		f := math.Float64frombits(b)
		if math.IsNaN(f) || math.IsInf(f, 0) {
			continue
		}
		parts = append(parts, fmt.Sprintf("%016x:%s:%s", b,
			hex.EncodeToString(strconv.AppendFloat(nil, f, 'f', -1, 64)),
			hex.EncodeToString(strconv.AppendFloat(nil, f, 'e', -1, 64))))
	}
	return strings.Join(parts, ",")
}

func marshalLine(v ugo.Object) string {
	var sb strings.Builder
	fl := &jfloats{seen: map[uint64]bool{}}
	jenc(&sb, v, fl)
	return "json\tmarshal\t" + sb.String() + "\t" + floatTable(fl)
}

func safeMarshal(v ugo.Object) (b []byte, err error, pan string) {
	defer func() {
		if r := recover(); r != nil {
			pan = fmt.Sprint(r)
		}
	}()
	b, err = ujson.Marshal(v)
	return
}

func marshalImpl(v ugo.Object) string {
	b, err, pan := safeMarshal(v)
	if pan != "" {
		return "panic " + pan
	}
	if err != nil {
		switch e := err.(type) {
		case *ujson.UnsupportedValueError:
			return "err value " + e.Str
		case *ujson.MarshalerError:
			return "err marshaler"
		}
		if strings.HasPrefix(err.Error(), "json: unsupported type: ") {
			return "err type " + strings.TrimPrefix(err.Error(), "json: unsupported type: ")
		}
		return "err other " + err.Error()
	}
	return "ok " + hex.EncodeToString(b)
}

func modCall(name string, args ...ugo.Object) (res ugo.Object, pan string) {
	defer func() {
		if r := recover(); r != nil {
			pan = fmt.Sprint(r)
		}
	}()
	res, err := ujson.Module[name].(*ugo.Function).Value(args...)
	if err != nil {
		return &ugo.Error{Name: "callerr", Message: err.Error()}, ""
	}
	return res, ""
}

func bytesOrErr(res ugo.Object, pan string) string {
	if pan != "" {
		return "panic " + pan
	}
	switch r := res.(type) {
	case ugo.Bytes:
		return "ok " + hex.EncodeToString(r)
	case *ugo.Error:
		return "err"
	}
	return "bad " + res.TypeName()
}

func implValid(bs []byte) (bool, string) {
	res, pan := modCall("Valid", ugo.Bytes(bs))
	if pan != "" {
		return false, pan
	}
	return res == ugo.True, ""
}

func validImpl(bs []byte, withSpec bool) string {
	v, pan := implValid(bs)
	if pan != "" {
		return "panic " + pan
	}
	// specd: the depth-limited recogniser Spec/JsonDepth (isJsonD maxNestingDepth), compared with
	// encoding/json.Valid, which has the same nesting limit
	if !withSpec {
		return fmt.Sprintf("valid=%d specd=%d", b2i(v), b2i(gojson.Valid(bs)))
	}
	return fmt.Sprintf("valid=%d spec=%d specd=%d", b2i(v), b2i(gojson.Valid(bs)), b2i(gojson.Valid(bs)))
}

func compactImpl(bs []byte, esc bool) string {
	return bytesOrErr(modCall("Compact", ugo.Bytes(bs), ugo.Bool(esc)))
}

func indentImpl(bs []byte, prefix, indent string) string {
	return bytesOrErr(modCall("Indent", ugo.Bytes(bs), ugo.String(prefix), ugo.String(indent)))
}

func safeUnmarshal(bs []byte) (v ugo.Object, err error, pan string) {
	defer func() {
		if r := recover(); r != nil {
			pan = fmt.Sprint(r)
		}
	}()
	v, err = ujson.Unmarshal(bs)
	return
}

func unmarshalImpl(bs []byte) string {
	v, err, pan := safeUnmarshal(bs)
	if pan != "" {
		return "panic " + pan
	}
	if err != nil {
		if _, ok := err.(*ujson.SyntaxError); ok {
			return "err syntax"
		}
		return "err range"
	}
	var sb strings.Builder
	jenc(&sb, v, nil)
	return "ok " + sb.String()
}

// numTable: strconv.ParseFloat for every number token of a document that
// encoding/json accepts: token-hex:bits or token-hex:range
func numTable(bs []byte) string {
	dec := gojson.NewDecoder(bytes.NewReader(bs))
	dec.UseNumber()
	var x any
	if err := dec.Decode(&x); err != nil {
		return ""
	}
	seen := map[string]bool{}
	var parts []string
	var walk func(any)
	walk = func(x any) {
		switch v := x.(type) {
		case gojson.Number:
			if seen[string(v)] {
				return
			}
			seen[string(v)] = true
			f, err := strconv.ParseFloat(string(v), 64)
			if err != nil {
				parts = append(parts, hex.EncodeToString([]byte(v))+":range")
			} else {
				parts = append(parts, fmt.Sprintf("%s:%016x", hex.EncodeToString([]byte(v)), math.Float64bits(f)))
			}
		case []any:
			for _, e := range v {
				walk(e)
			}
		case map[string]any:
			for _, e := range v {
				walk(e)
			}
		}
	}
	walk(x)
	sort.Strings(parts)
	return strings.Join(parts, ",")
}

// ---- the property's own oracle: implementation vs encoding/json ----------------

func jsig(kind string, v ugo.Object) string {
	if v == nil {
		return kind + ":nil"
	}
	return kind + ":" + v.TypeName()
}

func isPlain(o ugo.Object) bool {
	switch v := o.(type) {
	case *ugo.UndefinedType, ugo.Int, ugo.Uint, ugo.Float, ugo.Char, ugo.Bool, ugo.String:
		return true
	case ugo.Bytes:
		return v != nil
	case ugo.Array:
		if v == nil {
			return false
		}
		for _, e := range v {
			if !isPlain(e) {
				return false
			}
		}
		return true
	case ugo.Map:
		if v == nil {
			return false
		}
		for _, e := range v {
			if !isPlain(e) {
				return false
			}
		}
		return true
	}
	return false
}

// representable: survives a round trip unchanged (maps, arrays, strings, bools, floats, undefined)
func representable(o ugo.Object) bool {
	switch v := o.(type) {
	case *ugo.UndefinedType, ugo.Bool:
		return true
	case ugo.Float:
		f := float64(v)
		return !math.IsNaN(f) && !math.IsInf(f, 0)
	case ugo.String:
		return strings.ToValidUTF8(string(v), "\uFFFD") == string(v)
	case ugo.Array:
		for _, e := range v {
			if !representable(e) {
				return false
			}
		}
		return v != nil
	case ugo.Map:
		for k, e := range v {
			if strings.ToValidUTF8(k, "\uFFFD") != k || !representable(e) {
				return false
			}
		}
		return v != nil
	}
	return false
}

// sameAsGo compares an unmarshalled uGO value with encoding/json's `any` result.
func sameAsGo(u ugo.Object, g any) bool {
	switch x := g.(type) {
	case nil:
		return u == ugo.Undefined
	case bool:
		b, ok := u.(ugo.Bool)
		return ok && bool(b) == x
	case float64:
		f, ok := u.(ugo.Float)
		return ok && math.Float64bits(float64(f)) == math.Float64bits(x)
	case string:
		s, ok := u.(ugo.String)
		return ok && string(s) == x
	case []any:
		a, ok := u.(ugo.Array)
		if !ok || len(a) != len(x) {
			return false
		}
		for i := range x {
			if !sameAsGo(a[i], x[i]) {
				return false
			}
		}
		return true
	case map[string]any:
		m, ok := u.(ugo.Map)
		if !ok || len(m) != len(x) {
			return false
		}
		for k, e := range x {
			ue, ok := m[k]
			if !ok || !sameAsGo(ue, e) {
				return false
			}
		}
		return true
	}
	return false
}

// unwrapJV strips the wrappers that write nothing themselves.
func unwrapJV(v ugo.Object) ugo.Object {
	for i := 0; i < 100; i++ {
		switch x := v.(type) {
		case *ujson.EncoderOptions:
			v = x.Value
		case *ugo.ObjectPtr:
			if x.Value == nil {
				return v
			}
			v = *x.Value
		default:
			return v
		}
	}
	return v
}

func clip(b []byte) string {
	if len(b) > 120 {
		return fmt.Sprintf("%q...(%d bytes)", b[:120], len(b))
	}
	return fmt.Sprintf("%q", b)
}

func marshalOracle(c *Ctx, v ugo.Object, line string) {
	b, err, pan := safeMarshal(v)
	if pan != "" {
		c.Violation(PropViolation{"C17", "Marshal panics: " + pan, line, jsig("C17:marshal-panic", v)})
		return
	}
	if err == nil && !gojson.Valid(b) {
		sig := jsig("C17:marshal-malformed", v)
		if _, ok := unwrapJV(v).(*ugo.Error); ok && len(b) == 0 {
			sig = "C17:marshal-empty:toplevel-error-value"
		}
		c.Violation(PropViolation{"C17", "Marshal returns nil error and the malformed document " + clip(b), line, sig})
		return
	}
	if !isPlain(v) {
		return
	}
	gb, gerr := gojson.Marshal(ugo.ToInterface(v))
	if (err == nil) != (gerr == nil) {
		c.Violation(PropViolation{"C17", fmt.Sprintf("Marshal error=%v but encoding/json error=%v", err, gerr), line, jsig("C17:marshal-err-differs", v)})
		return
	}
	if err == nil && !bytes.Equal(b, gb) {
		c.Violation(PropViolation{"C17", "Marshal gives " + clip(b) + " but encoding/json gives " + clip(gb), line, jsig("C17:marshal-bytes-differ", v)})
	}
	// the same without HTML escaping
	nb, nerr, _ := safeMarshal(&ujson.EncoderOptions{Value: v, EscapeHTML: false})
	var buf bytes.Buffer
	enc := gojson.NewEncoder(&buf)
	enc.SetEscapeHTML(false)
	gerr = enc.Encode(ugo.ToInterface(v))
	gb = bytes.TrimSuffix(buf.Bytes(), []byte("\n"))
	if (nerr == nil) != (gerr == nil) || (nerr == nil && !bytes.Equal(nb, gb)) {
		c.Violation(PropViolation{"C17", "Marshal(NoEscape) gives " + clip(nb) + " but encoding/json (SetEscapeHTML(false)) gives " + clip(gb), line, jsig("C17:marshal-noescape-differs", v)})
	}
	// round trip of representable values
	if err == nil && representable(v) {
		back, uerr, pan := safeUnmarshal(b)
		if pan != "" || uerr != nil || !back.Equal(v) || !v.Equal(back) {
			c.Violation(PropViolation{"C17", fmt.Sprintf("Unmarshal(Marshal(v)) = %v, %v %s, not v", back, uerr, pan), line, jsig("C17:roundtrip", v)})
		}
	}
}

func docOracle(c *Ctx, bs []byte, prefix, indent string) {
	in := "doc " + hex.EncodeToString(bs)
	gv := gojson.Valid(bs)
	uv, pan := implValid(bs)
	if pan != "" {
		c.Violation(PropViolation{"C17", "Valid panics: " + pan, in, "C17:valid-panic"})
	} else if uv != gv {
		c.Violation(PropViolation{"C17", fmt.Sprintf("Valid=%v but encoding/json.Valid=%v on %s", uv, gv, clip(bs)), in, "C17:valid-differs"})
	}
	// Unmarshal
	u, uerr, pan := safeUnmarshal(bs)
	var g any
	gerr := gojson.Unmarshal(bs, &g)
	if pan != "" {
		c.Violation(PropViolation{"C17", "Unmarshal panics: " + pan + " on " + clip(bs), in, "C17:unmarshal-panic"})
	} else if (uerr == nil) != (gerr == nil) {
		c.Violation(PropViolation{"C17", fmt.Sprintf("Unmarshal error=%v but encoding/json error=%v on %s", uerr, gerr, clip(bs)), in, "C17:unmarshal-accept-differs"})
	} else if uerr == nil && !sameAsGo(u, g) {
		c.Violation(PropViolation{"C17", fmt.Sprintf("Unmarshal gives %v but encoding/json gives %v on %s", u, g, clip(bs)), in, "C17:unmarshal-value-differs"})
	}
	// Compact (escape=false is encoding/json.Compact; escape=true is Compact then HTMLEscape)
	for _, esc := range []bool{false, true} {
		got := compactImpl(bs, esc)
		var buf bytes.Buffer
		want := "err"
		if err := gojson.Compact(&buf, bs); err == nil {
			out := buf.Bytes()
			if esc {
				var b2 bytes.Buffer
				gojson.HTMLEscape(&b2, out)
				out = b2.Bytes()
			}
			want = "ok " + hex.EncodeToString(out)
		}
		if got != want {
			c.Violation(PropViolation{"C17", fmt.Sprintf("Compact(escape=%v) gives %s but encoding/json gives %s on %s", esc, got, want, clip(bs)), in, fmt.Sprintf("C17:compact-differs:%v", esc)})
		}
		if strings.HasPrefix(got, "ok ") && gv {
			out, _ := hex.DecodeString(got[3:])
			if !gojson.Valid(out) {
				c.Violation(PropViolation{"C17", "Compact output is not valid JSON on " + clip(bs), in, "C17:compact-invalid"})
			}
		}
	}
	// Indent
	got := indentImpl(bs, prefix, indent)
	var buf bytes.Buffer
	want := "err"
	if err := gojson.Indent(&buf, bs, prefix, indent); err == nil {
		want = "ok " + hex.EncodeToString(buf.Bytes())
	}
	if got != want {
		c.Violation(PropViolation{"C17", fmt.Sprintf("Indent(%q,%q) gives %s but encoding/json gives %s on %s", prefix, indent, got, want, clip(bs)), in, "C17:indent-differs"})
	}
}

// ---- generators --------------------------------------------------------------------

var strPieces = []string{"", "a", "ab", "\x00", "\x1f", "\x7f", "\"", "\\", "/", "<", ">", "&", "'", "\n", "\r", "\t", "\b", "\f",
	"\u2028", "\u2029", "\u2027", "\u202a", "é", "€", "\U0001F600", "\ufffd", "\xff", "\xc0\xaf", "\xed\xa0\x80", "\xe2\x80", "\xe2", "\xf4\x90\x80\x80",
	"\xf0\x9f", "\xc2", "\x80", "\xbf", " ", "\\u0041", "\xe2\x80\xa8x", "\xef\xbf\xbd"}

func randStr(r *gen.Rand) string {
	var sb strings.Builder
	n := r.Intn(6)
	for i := 0; i < n; i++ {
		if r.Intn(4) == 0 {
			sb.WriteByte(byte(r.Intn(256)))
		} else {
			sb.WriteString(strPieces[r.Intn(len(strPieces))])
		}
	}
	return sb.String()
}

var floatPool = []float64{0, math.Copysign(0, -1), 1, -1, 0.5, 1.5, 97, 1e-6, 9.999999e-7, 1e-7, 1e-9, 1e-10, 1e20, 1e21, 9.999999999999999e20, 1.2345e22, 1e100, 1e-100,
	1 << 53, 1 << 63, math.MaxFloat64, math.SmallestNonzeroFloat64, -1e-7, -1e21, 3.4, 100, 123456789.125, math.Inf(1), math.Inf(-1), math.NaN(), 2.5e-8, 5e-324, 1.7976931348623157e308}

func randScalar(r *gen.Rand) ugo.Object {
	switch r.Intn(12) {
	case 0:
		return ugo.Undefined
	case 1:
		return ugo.Bool(r.Bool())
	case 2:
		if r.Bool() {
			return ugo.Int(int64(r.U64()))
		}
		return ugo.Int([]int64{0, 1, -1, 9, 10, -10, 99, 100, math.MinInt64, math.MaxInt64, 1 << 53}[r.Intn(11)])
	case 3:
		if r.Bool() {
			return ugo.Uint(r.U64())
		}
		return ugo.Uint([]uint64{0, 1, 10, math.MaxUint64, 1 << 63}[r.Intn(5)])
	case 4, 5:
		if r.Intn(3) == 0 {
			f := math.Float64frombits(r.U64())
			return ugo.Float(f)
		}
		return ugo.Float(floatPool[r.Intn(len(floatPool))])
	case 6:
		return ugo.Char([]int32{0, 1, 'a', 'x', 0x7f, 0x80, 0xd800, 0xfffd, 0x10ffff, 0x110000, -1, math.MinInt32, math.MaxInt32}[r.Intn(13)])
	case 7:
		b := []byte(randStr(r))
		if b == nil {
			b = []byte{}
		}
		if r.Intn(8) == 0 {
			b = bytes.Repeat([]byte{byte(r.Intn(256)), 0xfb, 0xff}, 1+r.Intn(400))
		}
		return ugo.Bytes(b)
	}
	return ugo.String(randStr(r))
}

func randJV(r *gen.Rand, depth int, exotic bool) ugo.Object {
	if depth <= 0 || r.Intn(3) == 0 {
		if exotic && r.Intn(5) == 0 {
			switch r.Intn(9) {
			case 0:
				return opaqueFn
			case 1:
				return &ugo.Error{Name: "error", Message: "x"}
			case 2:
				return &ugo.RuntimeError{Err: &ugo.Error{Name: "error", Message: "x"}}
			case 3:
				return &ujson.RawMessage{Value: []byte(randDoc(r, 2))}
			case 4:
				return &ujson.RawMessage{Value: mutate(r, []byte(randDoc(r, 2)))}
			case 5:
				return &ujson.RawMessage{}
			case 6:
				return &ugo.ObjectPtr{}
			case 7:
				return nil
			}
			return ugo.BuiltinObjects[ugo.BuiltinLen]
		}
		return randScalar(r)
	}
	n := r.Intn(4)
	switch k := r.Intn(8); {
	case k < 3:
		a := make(ugo.Array, n)
		for i := range a {
			a[i] = randJV(r, depth-1, exotic)
		}
		return a
	case k < 6:
		m := ugo.Map{}
		for i := 0; i < n; i++ {
			m[randStr(r)] = randJV(r, depth-1, exotic)
		}
		if exotic && r.Intn(4) == 0 {
			return &ugo.SyncMap{Value: m}
		}
		return m
	case exotic && k == 6:
		return &ujson.EncoderOptions{Value: randJV(r, depth-1, exotic), Quote: r.Bool(), EscapeHTML: r.Bool()}
	case exotic:
		v := randJV(r, depth-1, exotic)
		return &ugo.ObjectPtr{Value: &v}
	}
	return randScalar(r)
}

var wsPieces = []string{"", "", "", " ", "\n", "\t", "\r", "  ", " \n\t"}

func ws(r *gen.Rand) string { return wsPieces[r.Intn(len(wsPieces))] }

func randNumTok(r *gen.Rand) string {
	var sb strings.Builder
	if r.Intn(3) == 0 {
		sb.WriteByte('-')
	}
	if r.Intn(3) == 0 {
		sb.WriteByte('0')
	} else {
		sb.WriteByte(byte('1' + r.Intn(9)))
		for n := r.Intn(4); n > 0; n-- {
			sb.WriteByte(byte('0' + r.Intn(10)))
		}
		if r.Intn(12) == 0 {
			sb.WriteString(strings.Repeat("9", 20+r.Intn(300)))
		}
	}
	if r.Intn(3) == 0 {
		sb.WriteByte('.')
		for n := 1 + r.Intn(4); n > 0; n-- {
			sb.WriteByte(byte('0' + r.Intn(10)))
		}
	}
	if r.Intn(3) == 0 {
		sb.WriteByte("eE"[r.Intn(2)])
		sb.WriteString([]string{"", "+", "-"}[r.Intn(3)])
		sb.WriteString([]string{"0", "1", "7", "05", "10", "22", "308", "309", "400", "324", "999"}[r.Intn(11)])
	}
	return sb.String()
}

func randStrTok(r *gen.Rand) string {
	var sb strings.Builder
	sb.WriteByte('"')
	for n := r.Intn(6); n > 0; n-- {
		switch r.Intn(8) {
		case 0:
			sb.WriteString([]string{`\"`, `\\`, `\/`, `\b`, `\f`, `\n`, `\r`, `\t`}[r.Intn(8)])
		case 1:
			sb.WriteString([]string{`\u0041`, `\u00e9`, `\uD83D\uDE00`, `\ud800`, `\udc00`, `\ud800\u0041`, `\uDBFF\uDFFF`, `\u0000`, `\uFFFF`, `\u2028`, `\uaBcD`, `\ud800\ud800`}[r.Intn(12)])
		case 2:
			sb.WriteString([]string{"é", "€", "\U0001F600", "\u2028", "\xff", "\xc0\xaf", "\xe2\x80", "\x7f", "\x80", "\xed\xa0\x80"}[r.Intn(10)])
		default:
			sb.WriteByte(" aZ09<>&'/:,{}[]-.+e"[r.Intn(20)])
		}
	}
	sb.WriteByte('"')
	return sb.String()
}

func randDocVal(r *gen.Rand, depth int, sb *strings.Builder) {
	k := r.Intn(10)
	if depth <= 0 && k >= 6 {
		k = r.Intn(6)
	}
	switch k {
	case 0:
		sb.WriteString("null")
	case 1:
		sb.WriteString("true")
	case 2:
		sb.WriteString("false")
	case 3:
		sb.WriteString(randNumTok(r))
	case 4, 5:
		sb.WriteString(randStrTok(r))
	case 6, 7:
		sb.WriteString("[" + ws(r))
		n := r.Intn(4)
		for i := 0; i < n; i++ {
			if i > 0 {
				sb.WriteString(ws(r) + "," + ws(r))
			}
			randDocVal(r, depth-1, sb)
		}
		sb.WriteString(ws(r) + "]")
	default:
		sb.WriteString("{" + ws(r))
		n := r.Intn(4)
		for i := 0; i < n; i++ {
			if i > 0 {
				sb.WriteString(ws(r) + "," + ws(r))
			}
			if r.Intn(6) == 0 {
				sb.WriteString(`"a"`)
			} else {
				sb.WriteString(randStrTok(r))
			}
			sb.WriteString(ws(r) + ":" + ws(r))
			randDocVal(r, depth-1, sb)
		}
		sb.WriteString(ws(r) + "}")
	}
}

func randDoc(r *gen.Rand, depth int) string {
	var sb strings.Builder
	sb.WriteString(ws(r))
	randDocVal(r, depth, &sb)
	sb.WriteString(ws(r))
	return sb.String()
}

const mutAlphabet = "{}[],:\"\\ \n\t0123456789-+.eEtrufalsn/bx\x00\x1f\x7f\xff\xe2\x80\xa8"

func mutate(r *gen.Rand, b []byte) []byte {
	b = append([]byte(nil), b...)
	for n := 1 + r.Intn(2); n > 0; n-- {
		switch r.Intn(5) {
		case 0: // delete
			if len(b) > 0 {
				i := r.Intn(len(b))
				b = append(b[:i], b[i+1:]...)
			}
		case 1: // insert
			i := r.Intn(len(b) + 1)
			b = append(b[:i], append([]byte{mutAlphabet[r.Intn(len(mutAlphabet))]}, b[i:]...)...)
		case 2: // replace
			if len(b) > 0 {
				b[r.Intn(len(b))] = mutAlphabet[r.Intn(len(mutAlphabet))]
			}
		case 3: // truncate
			if len(b) > 0 {
				b = b[:r.Intn(len(b))]
			}
		case 4: // duplicate a byte
			if len(b) > 0 {
				i := r.Intn(len(b))
				b = append(b[:i+1], b[i:]...)
			}
		}
	}
	return b
}

var fixedDocs = []string{"", " ", "0", "-0", "01", "-01", "00", "1.", "1.e1", ".5", "-", "+1", "1e", "1e+", "1E-0", "1e400", "-1e400", "1e-400", "0x10", "1_0",
	"1 2", "[1,]", "[,1]", "[1 2]", "{\"a\":1,}", "{\"a\":1,\"a\":2}", "{\"a\"}", "{\"a\":}", "{a:1}", "{1:1}", "{\"a\":1 \"b\":2}", "[1]x", "[1] x", "[1]]", "{}}", "[}", "{]",
	"nul", "null", "nulll", "Null", "tru", "true", "TRUE", "fals", "false", "NaN", "Infinity", "-Infinity", "'a'", "\"\\'\"", "\"\\x41\"", "\"\\u12\"", "\"\\u12G4\"", "\"\\ud800\"", "\"\\udc00\\ud800\"",
	"\"\\ud83d\\ude00\"", "\"\t\"", "\"\n\"", "\"\x7f\"", "\"\xff\"", "\"\xe2\x80\xa8\"", "\"\xe2\x80\"", "\"", "\"a", "\"\\", "\"\\\"", "\ufeff1", "1\x00", "\x00", "\xef\xbb\xbf{}",
	"// c\n1", "/* c */1", "[1,2,3]", " [ 1 , 2 ] ", "{\"a\":{\"b\":[{}]}}", "[[[[[[[[[[]]]]]]]]]]", "[[[[[[[[[[", "]]]]", "{\"\":\"\"}", "\"<>&\"", "[\"<\",\">\",\"&\",\"\xe2\x80\xa8\",\"\xe2\x80\xa9\"]",
	"1.0e+5", "-0.0", "123456789012345678901234567890", "0.1e-1000", "1\n", "\n1", "\v1", "1\f", "\"\\u0000\"", "{\"\\u0061\":1,\"a\":2}", "[\"\\/\"]", "  ", "\t\r\n", "[\r\n]", "{\t}"}

// modelUnmarshal: the Unmarshal lines are compared with the Lean decoder model
const modelUnmarshal = false

var indentArgs = [][2]string{{"", ""}, {"", " "}, {"", "\t"}, {">", "  "}, {"pre", "ind"}, {" ", ""}, {"\"", "\\"}, {"\n", "\n"}, {"", "\xff"}}

func nest(open, close string, n int, mid string) string {
	return strings.Repeat(open, n) + mid + strings.Repeat(close, n)
}

func init() {
	register(&Stream{
		Name: "json",
		Run: func(c *Ctx) {
			c.Rule("generated uGO values (boundary scalars, strings built from escape-sensitive / invalid-UTF-8 pieces, nested arrays/maps, option wrappers, raw messages, unsupported objects) through Marshal; grammar-generated JSON documents, near-valid mutations, fixed edge documents and arbitrary bytes through Valid/Compact/Indent/Unmarshal; model vs implementation on every case (the valid line also compares the RFC 8259 recogniser and its depth-limited variant isJsonD with encoding/json.Valid); the oracle compares the implementation with encoding/json on the same input; distinct = distinct (operation, outcome class, top-level kind)")
			r := c.R
			addMarshal := func(v ugo.Object) {
				line := marshalLine(v)
				impl := marshalImpl(v)
				marshalOracle(c, v, line)
				cls := strings.SplitN(impl+" ", " ", 3)
				c.Count("marshal:" + cls[0] + ":" + pfx(cls[1], 6))
				key := ""
				if strings.HasPrefix(impl, "ok") {
					key = jsig("marshal-ok", v)
				} else if strings.HasPrefix(impl, "err") {
					key = "marshal-" + cls[1]
				}
				c.Add(Case{Line: line, Impl: impl, Key: key})
			}
			// the bytes a call returned stay what they were when later calls encode something else
			{
				vals := []ugo.Object{ugo.Map{"id": ugo.Int(100), "s": ugo.String("first")}, ugo.Array{ugo.Int(1), ugo.String(strings.Repeat("x", 200))}, ugo.String("zz"), ugo.Int(7)}
				var outs [][]byte
				var want []string
				for _, v := range vals {
					b, err, pan := safeMarshal(v)
					if err != nil || pan != "" {
						continue
					}
					outs = append(outs, b)
					want = append(want, string(b))
					ib, ierr := ujson.MarshalIndent(v, "", " ")
					if ierr == nil {
						outs = append(outs, ib)
						want = append(want, string(ib))
					}
				}
				for i := range outs {
					c.dist["oracle:marshal-result-stable"]++
					if string(outs[i]) != want[i] {
						c.Violation(PropViolation{"C17", fmt.Sprintf("the bytes returned by an earlier Marshal call changed after later calls: now %s, were %s", clip(outs[i]), want[i]), want[i], "C17:marshal-result-overwritten"})
						break
					}
				}
			}
			// deep nesting around the depth (1000) at which the encoder starts to look for cycles: values that
			// share storage without being cyclic (a slice of an array inside that array's own element, the same
			// map twice) are not cycles.  Oracle only (the model line would be megabytes).
			for _, depth := range []int{998, 999, 1000, 1001, 1002, 1100} {
				inner := ugo.Array{ugo.Int(5), nil}
				inner[1] = inner[:1]
				shared := ugo.Map{"k": ugo.Int(1)}
				for si, leaf := range []ugo.Object{inner, ugo.Array{shared, shared}, ugo.Map{"a": shared, "b": ugo.Array{shared}}, ugo.Array{ugo.Int(1)}} {
					var v ugo.Object = leaf
					for i := 0; i < depth; i++ {
						if si%2 == 0 {
							v = ugo.Array{v}
						} else {
							v = ugo.Map{"n": v}
						}
					}
					marshalOracle(c, v, fmt.Sprintf("deep-shared depth=%d shape=%d", depth, si))
					c.dist["oracle:marshal-deep-shared"]++
				}
			}
			// boundary pool
			for _, v := range gen.ValuePool() {
				addMarshal(v)
				addMarshal(ugo.Array{v, ugo.Int(1)})
				addMarshal(ugo.Map{"a": v, "b": ugo.Int(1)})
				addMarshal(&ujson.EncoderOptions{Value: v, Quote: true, EscapeHTML: true})
			}
			for _, f := range floatPool {
				addMarshal(ugo.Float(f))
				addMarshal(ugo.Float(-f))
			}
			// whole-valued floats above 2^53: the exact integer has more digits than the shortest text that
			// reads back as the same float (2^56 = 72057594037927936 is written 72057594037927940), and the
			// neighbours of the powers of ten where the notation changes
			for k := 50; k <= 64; k++ {
				p := math.Ldexp(1, k)
				for _, f := range []float64{p, math.Nextafter(p, math.Inf(1)), math.Nextafter(p, 0), 3 * p / 2, p + math.Ldexp(5, k-3)} {
					addMarshal(ugo.Float(f))
					addMarshal(ugo.Array{ugo.Float(-f)})
				}
			}
			for e := 14; e <= 22; e++ {
				p := math.Pow(10, float64(e))
				for _, f := range []float64{p, math.Nextafter(p, math.Inf(1)), math.Nextafter(p, 0), p - 128, 9 * p / 7} {
					addMarshal(ugo.Float(math.Trunc(f)))
				}
			}
			for _, s := range strPieces {
				addMarshal(ugo.String(s))
				addMarshal(ugo.String("x" + s + "y" + s))
				addMarshal(ugo.Map{s: ugo.String(s)})
				addMarshal(&ujson.EncoderOptions{Value: ugo.String(s), Quote: true, EscapeHTML: false})
				addMarshal(&ujson.EncoderOptions{Value: ugo.String(s), Quote: false, EscapeHTML: false})
			}
			for b := 0; b < 256; b++ {
				addMarshal(ugo.String([]byte{byte(b)}))
				addMarshal(&ujson.EncoderOptions{Value: ugo.String([]byte{'a', byte(b), 'b'}), EscapeHTML: false})
			}
			for _, n := range []int{0, 1, 2, 3, 4, 40, 45, 46, 47, 48, 49, 50, 51, 60, 63, 64, 65, 66, 70, 766, 767, 768, 769, 770, 1000} {
				addMarshal(ugo.Bytes(bytes.Repeat([]byte{0xfb, 0xef, 0xbe}, n)[:n]))
			}
			addMarshal(nil)
			addMarshal(&ugo.Error{Name: "error", Message: "test"})
			addMarshal(ugo.Array{nil, ugo.Int(1)})
			addMarshal(&ujson.EncoderOptions{Value: &ugo.Error{Name: "error", Message: "test"}, Quote: true})
			var deep ugo.Object = ugo.Array{}
			for i := 0; i < 1200; i++ {
				deep = ugo.Array{deep}
			}
			addMarshal(deep)
			for i := 0; i < 1200*c.Scale; i++ {
				addMarshal(randJV(r, 3, false))
			}
			for i := 0; i < 1500*c.Scale; i++ {
				addMarshal(randJV(r, 3, true))
			}

			addDoc := func(bs []byte, kind string) {
				pi := indentArgs[r.Intn(len(indentArgs))]
				docOracle(c, bs, pi[0], pi[1])
				h := hex.EncodeToString(bs)
				iv := validImpl(bs, true)
				c.Count("doc:" + kind + ":" + iv)
				c.Add(Case{Line: "json\tvalid\t" + h, Impl: iv, Key: "valid:" + kind + ":" + iv})
				for _, esc := range []bool{false, true} {
					ci := compactImpl(bs, esc)
					c.Add(Case{Line: fmt.Sprintf("json\tcompact\t%d\t%s", b2i(esc), h), Impl: ci, Key: "compact:" + kind + ":" + ci[:2]})
				}
				ii := indentImpl(bs, pi[0], pi[1])
				c.Add(Case{Line: "json\tindent\t" + hex.EncodeToString([]byte(pi[0])) + "\t" + hex.EncodeToString([]byte(pi[1])) + "\t" + h, Impl: ii, Key: "indent:" + kind + ":" + ii[:2]})
				ui := unmarshalImpl(bs)
				if modelUnmarshal {
					c.Add(Case{Line: "json\tunmarshal\t" + h + "\t" + numTable(bs), Impl: ui, Key: "unmarshal:" + kind + ":" + pfx(strings.SplitN(ui, "(", 2)[0], 6)})
				}
			}
			for _, d := range fixedDocs {
				addDoc([]byte(d), "fixed")
			}
			for b := 0; b < 256; b++ {
				addDoc([]byte{byte(b)}, "byte")
				addDoc([]byte{'"', byte(b), '"'}, "strbyte")
				addDoc([]byte{'"', '\\', byte(b), '"'}, "escbyte")
				addDoc([]byte{'1', byte(b), '1'}, "numbyte")
				addDoc([]byte{'[', byte(b), ']'}, "arrbyte")
				// runs of the byte inside a string and inside an object key: every invalid byte grows to a
				// 3-byte replacement character while the string is unquoted
				for _, n := range []int{2, 5, 6, 9, 40} {
					run := bytes.Repeat([]byte{byte(b)}, n)
					if b == '"' || b == '\\' || b < 0x20 {
						continue
					}
					addDoc(append(append([]byte{'"'}, run...), '"'), "strrun")
					if n <= 6 {
						addDoc(append(append([]byte("{\""), run...), []byte("\":1}")...), "keyrun")
					}
				}
			}
			for i := 0; i < 700*c.Scale; i++ {
				addDoc([]byte(randDoc(r, 4)), "valid")
			}
			for i := 0; i < 900*c.Scale; i++ {
				addDoc(mutate(r, []byte(randDoc(r, 3))), "mutated")
			}
			for i := 0; i < 200*c.Scale; i++ {
				n := r.Intn(8)
				b := make([]byte, n)
				for j := range b {
					b[j] = mutAlphabet[r.Intn(len(mutAlphabet))]
				}
				addDoc(b, "soup")
			}
			for i := 0; i < 100*c.Scale; i++ {
				n := r.Intn(6)
				b := make([]byte, n)
				for j := range b {
					b[j] = byte(r.U64())
				}
				addDoc(b, "arbitrary")
			}
			// marshalled values as documents (round trip through the model's decoder)
			for i := 0; i < 300*c.Scale; i++ {
				if b, err, _ := safeMarshal(randJV(r, 3, false)); err == nil {
					addDoc(b, "marshalled")
				}
			}
			// nesting limit (the recogniser of Spec/Json has no depth limit: compare Valid and the depth-limited recogniser isJsonD only)
			for _, d := range []string{nest("[", "]", 9999, ""), nest("[", "]", 10000, ""), nest("[", "]", 10001, ""), nest("{\"a\":", "}", 10000, "1"),
				nest("{\"a\":", "}", 10001, "1"), nest("[", "", 10001, ""), nest("[{\"a\":", "}]", 5000, "1"), nest("[{\"a\":", "}]", 5001, "1")} {
				bs := []byte(d)
				docOracle(c, bs, "", "")
				c.Add(Case{Line: "json\tvalidonly\t" + hex.EncodeToString(bs), Impl: validImpl(bs, false), Key: "deep:" + validImpl(bs, false)})
			}
		},
		Replay: func(line string) (string, error) {
			f := strings.Split(line, "\t")
			if len(f) < 3 {
				return "", fmt.Errorf("bad json line")
			}
			hx := func(s string) []byte { b, _ := hex.DecodeString(s); return b }
			switch f[1] {
			case "marshal":
				v, err := jdecode(f[2])
				if err != nil {
					return "", err
				}
				return marshalImpl(v), nil
			case "valid":
				return validImpl(hx(f[2]), true), nil
			case "validonly":
				return validImpl(hx(f[2]), false), nil
			case "compact":
				return compactImpl(hx(f[3]), f[2] == "1"), nil
			case "indent":
				return indentImpl(hx(f[4]), string(hx(f[2])), string(hx(f[3]))), nil
			case "unmarshal":
				return unmarshalImpl(hx(f[2])), nil
			}
			return "", fmt.Errorf("unknown json op %s", f[1])
		},
	})
}
