package main

import (
	"context"
	"encoding/hex"
	"errors"
	"fmt"
	"os"
	"regexp"
	"runtime"
	"runtime/debug"
	"strconv"
	"strings"
	"sync/atomic"
	"time"

	"github.com/ozanh/ugo"
	"github.com/ozanh/ugo/parser"
	"github.com/ozanh/ugo/token"

	"verifharness/codec"
	"verifharness/gen"
)

// stream `compilefuzz` (property C05): Compile is total.  Arbitrary byte strings,
// token-level mutations of valid scripts, valid scripts, deep nesting and mechanically
// generated scripts at / just beyond every operand-width limit go through ugo.Compile
// (option combinations), Eval sessions, re-used symbol tables and source modules.
// Oracle on the implementation: no panic, no hang, limit scripts accepted / rejected
// as the bytecode format requires, every returned Bytecode structurally well formed.
// Inputs of the modelled subset (single script, NoOptimize, no imports) are also
// compared with the Lean compiler model (`compile` request lines).

// ---------------------------------------------------------------------------
// guarded execution

// cfGuard runs fn in its own goroutine under recover with a watchdog.
func cfGuard(d time.Duration, fn func()) (pv any, stack string, hung bool) {
	type res struct {
		pv    any
		stack string
	}
	done := make(chan res, 1)
	go func() {
		var r res
		defer func() { done <- r }()
		defer func() {
			if x := recover(); x != nil {
				r.pv = x
				r.stack = string(debug.Stack())
			}
		}()
		fn()
	}()
	// the goroutine of a case that does not return cannot be killed; if it also allocates
	// (the parser loop of `var ( }` grew by 1 GB/s) the process must stop soon: besides the
	// time limit the heap is polled every 100 ms and 3 GB of growth during one case counts as a hang
	deadline := time.Now().Add(d)
	timer := time.NewTimer(100 * time.Millisecond)
	defer timer.Stop()
	var base uint64
	first := true
	for {
		select {
		case r := <-done:
			return r.pv, r.stack, false
		case <-timer.C:
		}
		if time.Now().After(deadline) {
			cfHangWhy = fmt.Sprintf("no return within %v", d)
			return nil, "", true
		}
		var ms runtime.MemStats
		runtime.ReadMemStats(&ms)
		if first {
			base, first = ms.HeapAlloc, false
		}
		if ms.HeapAlloc > base+(3<<30) || ms.HeapAlloc > 12<<30 {
			cfHangWhy = fmt.Sprintf("no return after %v and the heap grew from %d MB to %d MB", time.Since(deadline.Add(-d)).Round(100*time.Millisecond), base>>20, ms.HeapAlloc>>20)
			return nil, "", true
		}
		timer.Reset(100 * time.Millisecond)
	}
}

var cfHangWhy string

var cfClosureRe = regexp.MustCompile(`\.func[0-9]+(\.[0-9]+)*$`)

// cfPanicClass derives a stable short class of the panic site from the stack text:
// the first frame inside github.com/ozanh/ugo that is not a re-panicking deferred
// function; it returns the class and the function name.
func cfPanicClass(stack string) (class, fn string) {
	lines := strings.Split(stack, "\n")
	for i := 0; i < len(lines); i++ {
		l := lines[i]
		if strings.HasPrefix(l, "\t") || !strings.Contains(l, "github.com/ozanh/ugo") {
			continue
		}
		name := l
		if k := strings.LastIndex(name, "("); k > 0 {
			name = name[:k]
		}
		name = strings.TrimPrefix(name, "github.com/ozanh/ugo")
		name = strings.TrimPrefix(name, "/")
		name = strings.TrimPrefix(name, ".")
		// deferred closures that re-panic (compileScript.func1, compileFile.func1, ParseFile.func1):
		// a closure whose caller frame is panic() runs as a deferred call of the panic in flight
		if cfClosureRe.MatchString(name) {
			next := ""
			for j := i + 1; j < len(lines); j++ {
				if !strings.HasPrefix(lines[j], "\t") && lines[j] != "" {
					next = lines[j]
					break
				}
			}
			if strings.HasPrefix(next, "panic(") {
				continue
			}
		}
		file := ""
		if i+1 < len(lines) {
			file = strings.TrimSpace(lines[i+1])
			if k := strings.LastIndex(file, ":"); k > 0 {
				file = file[:k]
			}
		}
		base := file
		if k := strings.LastIndex(base, "/"); k >= 0 {
			base = base[k+1:]
		}
		short := name
		if k := strings.LastIndex(short, "."); k >= 0 {
			short = short[k+1:]
		}
		switch {
		case strings.HasSuffix(name, ").emit") && strings.Contains(name, "Compiler"),
			strings.Contains(name, "changeOperand"), strings.Contains(name, "MakeInstruction"):
			return "emit-operand", name
		case strings.Contains(name, "constLit"), strings.Contains(name, "constLiteral"):
			return "constlit", name
		case strings.Contains(strings.ToLower(short), "trace"):
			return "trace", name
		case strings.Contains(name, "compileModule"), strings.Contains(name, "compileImportExpr"), base == "modules.go":
			return "module", name
		case strings.Contains(file, "/parser/") && base == "scanner.go":
			return "scanner", name
		case strings.Contains(file, "/parser/"):
			return "parser", name
		case base == "optimizer.go":
			return "optimizer", name
		case base == "symbol_table.go":
			return "symtab", name
		case base == "eval.go":
			return "eval", name
		case base == "compiler.go" || base == "compiler_nodes.go":
			return "compiler:" + short, name
		case base == "vm.go":
			return "vm", name
		}
		return "other:" + base, name
	}
	return "outside-ugo", ""
}

func cfStackHead(stack string, n int) string {
	var out []string
	for _, l := range strings.Split(stack, "\n") {
		if strings.HasPrefix(l, "\t") || l == "" || strings.HasPrefix(l, "goroutine ") {
			continue
		}
		if strings.HasPrefix(l, "runtime/debug.Stack") || strings.HasPrefix(l, "main.cfGuard") {
			continue
		}
		if k := strings.LastIndex(l, "("); k > 0 {
			l = l[:k]
		}
		out = append(out, l)
		if len(out) >= n {
			break
		}
	}
	return strings.Join(out, " < ")
}

// ---------------------------------------------------------------------------
// options

type cfSink struct{ n atomic.Int64 }

func (s *cfSink) Write(p []byte) (int, error) { s.n.Add(int64(len(p))); return len(p), nil }

// cfOpt is one combination of compiler options.
type cfOpt struct {
	NoOpt bool
	Limit int // OptimizerLimit
	Trace int // 0 none, 1 all flags + sink, 2 all flags + Trace==nil, 3 parser, 4 compiler, 5 optimizer (sink)
	Mods  bool
	Sym   int // 0 nil, 1 fresh explicit, 2 DisableBuiltin, 3 predefined globals, 4 predefined params + local
}

func (o cfOpt) String() string {
	return fmt.Sprintf("NoOptimize=%v OptimizerLimit=%d trace=%d modules=%v symtab=%d", o.NoOpt, o.Limit, o.Trace, o.Mods, o.Sym)
}

func cfRandOpt(r *gen.Rand) cfOpt {
	return cfOpt{NoOpt: r.Bool(), Limit: r.Intn(3), Trace: r.Intn(6), Mods: r.Bool(), Sym: r.Intn(5)}
}

func cfAllOpts() []cfOpt {
	var out []cfOpt
	for _, no := range []bool{false, true} {
		for lim := 0; lim < 3; lim++ {
			for tr := 0; tr < 6; tr++ {
				for _, m := range []bool{false, true} {
					for sy := 0; sy < 5; sy++ {
						out = append(out, cfOpt{no, lim, tr, m, sy})
					}
				}
			}
		}
	}
	return out
}

func cfSymTab(kind int) *ugo.SymbolTable {
	switch kind {
	case 0:
		return nil
	case 1:
		return ugo.NewSymbolTable()
	case 2:
		st := ugo.NewSymbolTable()
		st.DisableBuiltin("len", "append", "int", "typeName", "error")
		return st
	case 3:
		st := ugo.NewSymbolTable()
		_, _ = st.DefineGlobal("G")
		_, _ = st.DefineGlobal("log")
		return st
	default:
		st := ugo.NewSymbolTable()
		_ = st.SetParams("P0", "P1")
		st.DefineLocal("L0")
		return st
	}
}

// cfImporter is an Importable returning a fixed value / error.
type cfImporter struct {
	v   any
	err error
}

func (m *cfImporter) Import(string) (any, error) { return m.v, m.err }

// cfExt is a small ExtImporter serving sources from a map under the name "ext:<name>".
type cfExt struct {
	srcs map[string]string
	name string
}

func (x *cfExt) Get(name string) ugo.ExtImporter {
	if _, ok := x.srcs[name]; !ok {
		return nil
	}
	return &cfExt{srcs: x.srcs, name: name}
}
func (x *cfExt) Name() string                { return "ext:" + x.name }
func (x *cfExt) Fork(string) ugo.ExtImporter { return &cfExt{srcs: x.srcs} }
func (x *cfExt) Import(string) (any, error) {
	s, ok := x.srcs[x.name]
	if !ok {
		return nil, errors.New("ext module not found")
	}
	return []byte(s), nil
}

func cfSeq(n int, sep string, f func(i int) string) string {
	var sb strings.Builder
	for i := 0; i < n; i++ {
		if i > 0 {
			sb.WriteString(sep)
		}
		sb.WriteString(f(i))
	}
	return sb.String()
}

// cfBaseModules builds the module map used by every case with modules=true.
func cfBaseModules() *ugo.ModuleMap {
	mm := ugo.NewModuleMap()
	mm.AddBuiltinModule("b1", map[string]ugo.Object{"x": ugo.Int(1), "fn": &ugo.Function{Name: "fn",
		Value: func(...ugo.Object) (ugo.Object, error) { return ugo.Int(7), nil }}})
	mm.AddBuiltinModule("b2", map[string]ugo.Object{})
	mm.AddBuiltinModule("noattrs", nil)
	mm.AddSourceModule("ok", []byte("return {v: 1, f: func(a) { return a + 1 }}"))
	mm.AddSourceModule("ok2", []byte("a := import(\"ok\"); b := import(\"b1\"); const k = 3\nreturn {a: a, b: b, k: k}"))
	mm.AddSourceModule("empty", nil)
	mm.AddSourceModule("comment", []byte("// nothing\n/* at all */"))
	mm.AddSourceModule("bom", []byte("\ufeffreturn 1"))
	mm.AddSourceModule("synerr", []byte("a := ("))
	mm.AddSourceModule("cmperr", []byte("return undefinedVar"))
	mm.AddSourceModule("limit", []byte(cfSeq(257, "\n", func(i int) string { return fmt.Sprintf("a%d := 0", i) })))
	mm.AddSourceModule("limitargs", []byte("f := func(...a) {}\nf("+cfSeq(256, ",", func(int) string { return "0" })+")"))
	mm.AddSourceModule("cycA", []byte(`return import("cycB")`))
	mm.AddSourceModule("cycB", []byte(`return import("cycA")`))
	mm.AddSourceModule("self", []byte(`return import("self")`))
	mm.AddSourceModule("missing", []byte(`return import("nope")`))
	for i := 0; i < 20; i++ {
		mm.AddSourceModule(fmt.Sprintf("deep%d", i), []byte(fmt.Sprintf("return import(\"deep%d\")", i+1)))
	}
	mm.AddSourceModule("deep20", []byte("return 20"))
	mm.AddSourceModule("params", []byte("param (a, ...b); global g; return [a, b, g]"))
	mm.AddSourceModule("forin3", []byte("for a, b, c in [1] {}"))
	mm.AddSourceModule("divzero", []byte("return 1 % 0"))
	mm.Add("badtype", &cfImporter{v: 42})
	mm.Add("nilmod", &cfImporter{})
	mm.Add("imperr", &cfImporter{err: errors.New("import failed")})
	mm.Add("objmod", &cfImporter{v: ugo.Map{"k": ugo.String("v")}})
	mm.SetExtImporter(&cfExt{srcs: map[string]string{
		"ext1": `return import("ext2")`,
		"ext2": `return 2`,
		"extc": `return import("extc")`,
		"exte": `return (`,
	}})
	return mm
}

func (o cfOpt) build(e *cfEnv) ugo.CompilerOptions {
	co := ugo.CompilerOptions{NoOptimize: o.NoOpt, OptimizerLimit: o.Limit, SymbolTable: cfSymTab(o.Sym)}
	switch o.Trace {
	case 1:
		co.Trace, co.TraceParser, co.TraceCompiler, co.TraceOptimizer = e.sink, true, true, true
	case 2:
		co.TraceParser, co.TraceCompiler, co.TraceOptimizer = true, true, true
	case 3:
		co.Trace, co.TraceParser = e.sink, true
	case 4:
		co.Trace, co.TraceCompiler = e.sink, true
	case 5:
		co.Trace, co.TraceOptimizer = e.sink, true
	}
	if o.Mods {
		co.ModuleMap = e.mods
	}
	return co
}

// ---------------------------------------------------------------------------
// structural scan of a Bytecode

// cfWalk decodes an instruction stream without trusting it; it returns the set of
// instruction boundaries (index len(ins) included) or the first defect.
func cfWalk(ins []byte, visit func(pos int, op byte, operands []int)) (bounds []bool, what, detail string) {
	bounds = make([]bool, len(ins)+1)
	operands := make([]int, 0, 4)
	i := 0
	for i < len(ins) {
		op := ins[i]
		if int(op) >= len(ugo.OpcodeOperands) || ugo.OpcodeOperands[op] == nil {
			return nil, "unknown-opcode", fmt.Sprintf("opcode %d at %d", op, i)
		}
		widths := ugo.OpcodeOperands[op]
		total := 0
		for _, w := range widths {
			total += w
		}
		if i+1+total > len(ins) {
			return nil, "truncated-instruction", fmt.Sprintf("%s at %d needs %d operand bytes, %d left", ugo.OpcodeNames[op], i, total, len(ins)-i-1)
		}
		operands, _ = ugo.ReadOperands(widths, ins[i+1:], operands)
		bounds[i] = true
		if visit != nil {
			visit(i, op, operands)
		}
		i += 1 + total
	}
	bounds[len(ins)] = true
	return bounds, "", ""
}

// cfScanBytecode checks the structural well-formedness of a Bytecode returned by a
// successful compile; it returns the first defect ("" = well formed).
func cfScanBytecode(bc *ugo.Bytecode) (what, detail string) {
	if bc == nil || bc.Main == nil {
		return "nil-main", ""
	}
	type fnRec struct {
		f    *ugo.CompiledFunction
		name string
	}
	fns := []fnRec{{bc.Main, "main"}}
	for i, c := range bc.Constants {
		if f, ok := c.(*ugo.CompiledFunction); ok && f != nil {
			fns = append(fns, fnRec{f, fmt.Sprintf("constant[%d]", i)})
		}
	}
	nconst := len(bc.Constants)
	// pass 1: decode every function, collect the sites that reference functions
	maxFree := map[*ugo.CompiledFunction]int{bc.Main: 0}
	allBounds := make([][]bool, len(fns))
	for k, fr := range fns {
		b, w, d := cfWalk(fr.f.Instructions, func(pos int, op byte, operands []int) {
			switch op {
			case ugo.OpClosure, ugo.OpConstant, ugo.OpLoadModule:
				if operands[0] < nconst {
					if g, ok := bc.Constants[operands[0]].(*ugo.CompiledFunction); ok {
						n := 0
						if op == ugo.OpClosure {
							n = operands[1]
						}
						if old, seen := maxFree[g]; !seen || n > old {
							maxFree[g] = n
						}
					}
				}
			}
		})
		if w != "" {
			return w, fr.name + ": " + d
		}
		allBounds[k] = b
		// cross-check with the package's own iterator
		cnt, ok := 0, true
		func() {
			defer func() {
				if recover() != nil {
					ok = false
				}
			}()
			ugo.IterateInstructions(fr.f.Instructions, func(pos int, _ ugo.Opcode, _ []int, _ int) bool {
				if pos >= len(b) || !b[pos] {
					ok = false
				}
				cnt++
				return true
			})
		}()
		if !ok {
			return "iterate-instructions", fr.name + ": IterateInstructions disagrees with the operand table walk"
		}
	}
	// functions reachable from main through CONSTANT / CLOSURE / LOADMODULE operands; the others
	// (functions of earlier fragments kept in a re-used constant pool) belong to another
	// Bytecode: their module and free-variable indices are not checked against this one
	reach := map[*ugo.CompiledFunction]bool{bc.Main: true}
	work := []*ugo.CompiledFunction{bc.Main}
	for len(work) > 0 {
		f := work[len(work)-1]
		work = work[:len(work)-1]
		cfWalk(f.Instructions, func(_ int, op byte, o []int) {
			switch op {
			case ugo.OpClosure, ugo.OpConstant, ugo.OpLoadModule:
				if o[0] < nconst {
					if g, ok := bc.Constants[o[0]].(*ugo.CompiledFunction); ok && g != nil && !reach[g] {
						reach[g] = true
						work = append(work, g)
					}
				}
			}
		})
	}
	nb := len(ugo.BuiltinObjects)
	for k, fr := range fns {
		f, bounds := fr.f, allBounds[k]
		n := len(f.Instructions)
		bad := func(w, d string) (string, string) { return w, fr.name + ": " + d }
		if f.NumLocals > 256 {
			return bad("numlocals-over-256", fmt.Sprintf("NumLocals=%d", f.NumLocals))
		}
		if f.NumParams > f.NumLocals || f.NumParams < 0 {
			return bad("numparams-over-numlocals", fmt.Sprintf("NumParams=%d NumLocals=%d", f.NumParams, f.NumLocals))
		}
		if n == 0 {
			return bad("empty-function", "no instructions")
		}
		free, freeKnown := maxFree[f]
		freeKnown = freeKnown && reach[f]
		reachable := reach[f]
		var w, d string
		lastOp := byte(0)
		set := func(w2 string, format string, a ...any) {
			if w == "" {
				w, d = w2, fmt.Sprintf(format, a...)
			}
		}
		isTarget := func(t int) bool { return t >= 0 && t < n && bounds[t] }
		cfWalk(f.Instructions, func(pos int, op byte, o []int) {
			lastOp = op
			name := ugo.OpcodeNames[op]
			switch op {
			case ugo.OpJump, ugo.OpJumpFalsy, ugo.OpAndJump, ugo.OpOrJump:
				if !isTarget(o[0]) {
					set("jump-target", "%s at %d targets %d (len %d), not an instruction boundary inside the function", name, pos, o[0], n)
				}
			case ugo.OpSetupTry:
				if o[0] != 0 && !isTarget(o[0]) {
					set("try-target", "SETUPTRY at %d: catch position %d is not an instruction boundary", pos, o[0])
				}
				if !isTarget(o[1]) || o[1] == 0 {
					set("try-target", "SETUPTRY at %d: finally position %d is not an instruction boundary", pos, o[1])
				}
			case ugo.OpConstant:
				if o[0] >= nconst {
					set("constant-index", "CONSTANT %d at %d with %d constants", o[0], pos, nconst)
				}
			case ugo.OpClosure:
				if o[0] >= nconst {
					set("constant-index", "CLOSURE %d at %d with %d constants", o[0], pos, nconst)
				} else if _, ok := bc.Constants[o[0]].(*ugo.CompiledFunction); !ok {
					set("closure-constant-type", "CLOSURE %d at %d: constant is %T", o[0], pos, bc.Constants[o[0]])
				}
			case ugo.OpLoadModule:
				if o[0] >= nconst {
					set("constant-index", "LOADMODULE constant %d at %d with %d constants", o[0], pos, nconst)
				}
				if reachable && o[1] >= bc.NumModules {
					set("module-index", "LOADMODULE module %d at %d with NumModules=%d", o[1], pos, bc.NumModules)
				}
			case ugo.OpStoreModule:
				if reachable && o[0] >= bc.NumModules {
					set("module-index", "STOREMODULE %d at %d with NumModules=%d", o[0], pos, bc.NumModules)
				}
			case ugo.OpGetGlobal, ugo.OpSetGlobal:
				if o[0] >= nconst {
					set("global-constant-index", "%s %d at %d with %d constants", name, o[0], pos, nconst)
				} else if _, ok := bc.Constants[o[0]].(ugo.String); !ok {
					set("global-constant-type", "%s %d at %d: constant is %T, not a String", name, o[0], pos, bc.Constants[o[0]])
				}
			case ugo.OpGetLocal, ugo.OpSetLocal, ugo.OpDefineLocal, ugo.OpGetLocalPtr:
				if o[0] >= f.NumLocals {
					set("local-index", "%s %d at %d with NumLocals=%d", name, o[0], pos, f.NumLocals)
				}
			case ugo.OpGetFree, ugo.OpSetFree, ugo.OpGetFreePtr:
				if freeKnown && o[0] >= free {
					set("free-index", "%s %d at %d in a function created with %d free variables", name, o[0], pos, free)
				}
			case ugo.OpGetBuiltin:
				if o[0] >= nb {
					set("builtin-index", "GETBUILTIN %d at %d with %d builtins", o[0], pos, nb)
				}
			case ugo.OpCall, ugo.OpCallName:
				if o[1] > 1 {
					set("call-flags", "%s at %d: flags operand %d", name, pos, o[1])
				}
			case ugo.OpReturn, ugo.OpThrow:
				if o[0] > 1 {
					set("return-throw-operand", "%s at %d: operand %d", name, pos, o[0])
				}
			case ugo.OpMap:
				if o[0]%2 != 0 {
					set("map-operand-odd", "MAP %d at %d", o[0], pos)
				}
			}
		})
		if w != "" {
			return bad(w, d)
		}
		if lastOp != ugo.OpReturn {
			return bad("last-not-return", "last instruction is "+ugo.OpcodeNames[lastOp])
		}
		badKey := -1
		for p := range f.SourceMap {
			if (p < 0 || p >= n || !bounds[p]) && (badKey == -1 || p < badKey) {
				badKey = p
			}
		}
		if badKey != -1 {
			return bad("sourcemap-key", fmt.Sprintf("source map key %d is not an instruction boundary (len %d)", badKey, n))
		}
	}
	return "", ""
}

// ---------------------------------------------------------------------------
// environment and runners

type cfEnv struct {
	c        *Ctx
	sink     *cfSink
	mods     *ugo.ModuleMap
	timeout  time.Duration
	hungCfg  map[string]bool
	hangs    int
	modelB   int // bytes of model request lines so far
	modelCap int
}

func cfShow(label, src string) string {
	printable := true
	for i := 0; i < len(src); i++ {
		if (src[i] < 0x20 && src[i] != '\n' && src[i] != '\t') || src[i] > 0x7e {
			printable = false
			break
		}
	}
	switch {
	case len(src) <= 600 && printable:
		return strconv.Quote(src)
	case len(src) <= 6000:
		return "hex:" + hex.EncodeToString([]byte(src))
	}
	return fmt.Sprintf("generated(%s) len=%d head=%q", label, len(src), src[:200])
}

func (e *cfEnv) input(kind, label string, o cfOpt, src string) string {
	return fmt.Sprintf("%s {%s} src=%s", kind, o, cfShow(label, src))
}

func (e *cfEnv) reportPanic(pv any, stack, input string) {
	class, fn := cfPanicClass(stack)
	e.c.Count("PANIC:" + class)
	e.c.Violation(PropViolation{"C05", fmt.Sprintf("panic: %v in %s; stack: %s", pv, fn, cfStackHead(stack, 8)), input, "C05:compile-panic:" + class})
}

func (e *cfEnv) reportHang(cfgKey, class, input string) {
	e.hangs++
	e.hungCfg[cfgKey] = true
	e.c.Count("HANG:" + class)
	e.c.Violation(PropViolation{"C05", "compilation did not return: " + cfHangWhy + " (the stream stops after the first hang: the goroutine cannot be killed)", input, "C05:compile-hang:" + class})
}

func (e *cfEnv) scan(bc *ugo.Bytecode, input string) {
	if w, d := cfScanBytecode(bc); w != "" {
		e.c.Count("MALFORMED:" + w)
		e.c.Violation(PropViolation{"C05", "malformed bytecode: " + d, input, "C05:malformed-bytecode:" + w})
	}
}

// compile runs ugo.Compile under the guard, reports panics / hangs and scans the result.
// done=false when the case was skipped (configuration already hung) or did not finish.
func (e *cfEnv) compile(class, label, src string, o cfOpt, co ugo.CompilerOptions) (bc *ugo.Bytecode, err error, done bool) {
	key := "compile|" + o.String()
	if e.hungCfg[key] || e.hangs >= 1 {
		e.c.Count("skipped-after-hang")
		return nil, nil, false
	}
	pv, stack, hung := cfGuard(e.timeout, func() { bc, err = ugo.Compile([]byte(src), co) })
	in := e.input("Compile", label, o, src)
	if hung {
		e.reportHang(key, class, in)
		return nil, nil, false
	}
	if pv != nil {
		e.reportPanic(pv, stack, in)
		return nil, nil, false
	}
	if err == nil {
		if bc == nil {
			e.c.Violation(PropViolation{"C05", "Compile returned neither Bytecode nor an error", in, "C05:malformed-bytecode:nil-result"})
			return nil, nil, false
		}
		e.scan(bc, in)
	}
	return bc, err, true
}

// cfNestProxy bounds the parser's recursion depth on src from above-ish: deepest bracket
// nesting + longest run of unary operators + number of '?'.
func cfNestProxy(src string) int {
	depth, maxDepth, run, maxRun, q := 0, 0, 0, 0, 0
	for i := 0; i < len(src); i++ {
		switch src[i] {
		case '(', '[', '{':
			depth++
			if depth > maxDepth {
				maxDepth = depth
			}
			run = 0
		case ')', ']', '}':
			if depth > 0 {
				depth--
			}
			run = 0
		case '-', '!', '^', '+':
			run++
			if run > maxRun {
				maxRun = run
			}
		case ' ', '\t', '\n':
		case '?':
			q++
			run = 0
		default:
			run = 0
		}
	}
	return maxDepth + maxRun + q
}

// safeOpt switches tracing off for sources that nest deeply: the trace output of the parser
// and the compiler grows faster than quadratically with the nesting depth (5000 nested
// parentheses take a minute), which is slowness, not a hang.
func (e *cfEnv) safeOpt(o cfOpt, srcs ...string) cfOpt {
	if o.Trace == 0 {
		return o
	}
	for _, s := range srcs {
		if cfNestProxy(s) > 150 {
			o.Trace = 0
			e.c.Count("trace-off-for-deep-nesting")
			break
		}
	}
	return o
}

// compileOpt = compile with the options built from o.
func (e *cfEnv) compileOpt(class, label, src string, o cfOpt) (*ugo.Bytecode, error, bool) {
	o = e.safeOpt(o, src)
	return e.compile(class, label, src, o, o.build(e))
}

// asModule compiles `return import("m")` with src as the source module m.
func (e *cfEnv) asModule(class, label, src string, o cfOpt) (*ugo.Bytecode, error, bool) {
	o = e.safeOpt(o, src)
	mm := e.mods.Copy()
	mm.AddSourceModule("m", []byte(src))
	co := o.build(e)
	co.ModuleMap = mm
	key := "module|" + o.String()
	if e.hungCfg[key] || e.hangs >= 1 {
		e.c.Count("skipped-after-hang")
		return nil, nil, false
	}
	var bc *ugo.Bytecode
	var err error
	pv, stack, hung := cfGuard(e.timeout, func() { bc, err = ugo.Compile([]byte(`x := import("m"); return x`), co) })
	in := e.input(`Compile(x := import("m"); return x) with module m`, label, o, src)
	if hung {
		e.reportHang(key, class, in)
		return nil, nil, false
	}
	if pv != nil {
		e.reportPanic(pv, stack, in)
		return nil, nil, false
	}
	if err == nil {
		e.scan(bc, in)
	}
	return bc, err, true
}

// cfFrag is one fragment of a session; run=false compiles only (Eval gets a cancelled context).
type cfFrag struct {
	src string
	run bool
}

func cfFragsInput(frags []cfFrag, upto int) string {
	var parts []string
	for i := 0; i <= upto && i < len(frags); i++ {
		parts = append(parts, fmt.Sprintf("fragment%d=%s", i+1, cfShow("session", frags[i].src)))
	}
	return strings.Join(parts, " ; ")
}

// evalSession feeds the fragments to one Eval; a panic escaping Run is a violation.
func (e *cfEnv) evalSession(class string, frags []cfFrag, o cfOpt) {
	for _, fr := range frags {
		o = e.safeOpt(o, fr.src)
	}
	key := "eval|" + o.String()
	if e.hungCfg[key] || e.hangs >= 1 {
		e.c.Count("skipped-after-hang")
		return
	}
	co := o.build(e)
	ev := ugo.NewEval(co, ugo.Map{"log": ugo.Array{}, "G": ugo.Int(1)}, ugo.Int(1), ugo.Int(2))
	for i, fr := range frags {
		in := fmt.Sprintf("Eval session {%s} %s", o, cfFragsInput(frags, i))
		var bc *ugo.Bytecode
		var err error
		var ctx context.Context
		var cancel context.CancelFunc
		if fr.run {
			ctx, cancel = context.WithTimeout(context.Background(), 50*time.Millisecond)
		} else {
			ctx, cancel = context.WithCancel(context.Background())
			cancel()
		}
		pv, stack, hung := cfGuard(e.timeout, func() { _, bc, err = ev.Run(ctx, []byte(fr.src)) })
		cancel()
		if hung {
			if fr.run {
				// compile and run cannot be told apart here: counted, not reported
				e.c.Count("eval-run-no-return")
				e.hungCfg[key] = true
			} else {
				e.reportHang(key, class, in)
			}
			return
		}
		if pv != nil {
			e.reportPanic(pv, stack, in)
			return
		}
		switch {
		case bc != nil:
			e.c.Count("eval-fragment:compiled")
			e.scan(bc, in)
		case err != nil:
			e.c.Count("eval-fragment:compile-error")
		}
	}
}

// reuseSession compiles the fragments with one SymbolTable and the Constants of the
// last successful compile, as an embedding REPL does.
func (e *cfEnv) reuseSession(class string, frags []cfFrag, o cfOpt) {
	for _, fr := range frags {
		o = e.safeOpt(o, fr.src)
	}
	st := cfSymTab(o.Sym)
	if st == nil {
		st = ugo.NewSymbolTable()
	}
	var consts []ugo.Object
	for i, fr := range frags {
		co := o.build(e)
		co.SymbolTable = st
		co.Constants = consts
		key := "reuse|" + o.String()
		if e.hungCfg[key] || e.hangs >= 1 {
			e.c.Count("skipped-after-hang")
			return
		}
		var bc *ugo.Bytecode
		var err error
		pv, stack, hung := cfGuard(e.timeout, func() { bc, err = ugo.Compile([]byte(fr.src), co) })
		in := fmt.Sprintf("Compile with re-used SymbolTable+Constants {%s} %s", o, cfFragsInput(frags, i))
		if hung {
			e.reportHang(key, class, in)
			return
		}
		if pv != nil {
			e.reportPanic(pv, stack, in)
			return
		}
		if err == nil {
			e.c.Count("reuse-fragment:compiled")
			e.scan(bc, in)
			consts = bc.Constants
		} else {
			e.c.Count("reuse-fragment:compile-error")
		}
	}
}

// cfParseToAst = parseToAst under recover (the encoder is not written for damaged ASTs).
func cfParseToAst(src string) (ast string, err error) {
	defer func() {
		if r := recover(); r != nil {
			ast, err = "", fmt.Errorf("astenc panic: %v", r)
		}
	}()
	return parseToAst(src)
}

// modelCase adds the correspondence case of stream `compile` for a script that parses.
func (e *cfEnv) modelCase(class, src string) {
	if e.modelB >= e.modelCap {
		e.c.Count("model:over-budget")
		return
	}
	ast, err := cfParseToAst(src)
	if err != nil {
		e.c.Count("model:" + class + ":no-ast")
		return
	}
	line := "compile\t-\t" + ast + "\t#" + codec.Hex([]byte(src))
	if len(line) > 900000 {
		e.c.Count("model:line-too-long")
		return
	}
	impl := compileImpl(src)
	key := ""
	if strings.HasPrefix(impl, "ok") {
		e.c.Count("model:" + class + ":ok")
		if len(impl) > 100 {
			key = fmt.Sprintf("%x", hashStr(impl))
		}
	} else {
		f := strings.Fields(impl)
		e.c.Count("model:" + class + ":" + f[0])
		if len(f) > 2 {
			key = "err:" + f[2]
		}
	}
	e.modelB += len(line)
	e.c.Add(Case{Line: line, Impl: impl, Key: key})
}

// ---------------------------------------------------------------------------
// input generators

var cfTokPool = []string{
	"break", "continue", "else", "for", "func", "if", "return", "true", "false", "in", "undefined", "import",
	"param", "global", "var", "const", "try", "catch", "finally", "throw", "iota", "len", "int", "append", "error",
	"a", "b", "x", "y", "_", "f", "log", "G", "é", "日本", "x1", "_9",
	"+", "-", "*", "/", "%", "&", "|", "^", "<<", ">>", "&^", "+=", "-=", "*=", "/=", "%=", "&=", "|=", "^=", "<<=", ">>=", "&^=",
	"&&", "||", "++", "--", "==", "!=", "<", "<=", ">", ">=", "=", ":=", "!", "...", "(", ")", "[", "]", "{", "}", ",", ";", ":", ".", "?",
	"\n", "\n", " ", "\t", "\r\n",
	"0", "1", "2", "255", "256", "65536", "1u", "0u", "1.5", ".5", "1.", "1e3", "1e", "1e+", "1e999999", "0x", "0x1F", "0xg", "0b101", "0b2", "0o17", "0o9", "017", "09",
	"1_000", "1__0", "_1", "9223372036854775807", "9223372036854775808", "18446744073709551615u", "18446744073709551616u",
	"99999999999999999999999999999999999999", "0.000000000000000000000000000000000000000000001", "1e-999999", "0x1p-2", "1i",
	`"`, `"s"`, `"a\nb"`, `"\q"`, `"\x"`, `"\u12"`, `"\U0010FFFF"`, `"\777"`, `"unterminated`, "`", "`raw`", "`unterminated",
	`'`, `'a'`, `''`, `'ab'`, `'\''`, `'\u`, `'A'`, `'\x`, `'\xff'`, `'\U00110000'`, `'\400'`, `'\`, `'日'`,
	"/*", "*/", "//", "/* c */", "// c\n", "/**/", "\\", "\x00", "\xff", "\xfe\xff", "\ufeff", "\xef\xbb", "\xc3", "\xe2\x82", " ", "#", "$", "@", "~",
	`import("ok")`, `import("synerr")`, `import("cycA")`, `import("nope")`, `import("")`, `import(`,
	"func(){", "func(a,...b){", "}()", "x:=", "a.b", "a[0]", "a[:", "{a:1}", "[1,2]", "f(...", "? 1 :", "try{", "}catch e{", "}finally{", "for k,v in", "const(", "var(", "param(", "global(",
}

func cfRandLen(r *gen.Rand) int {
	switch k := r.Intn(400); {
	case k == 0:
		return 2000 + r.Intn(63536) // a few up to 64 KiB
	case k < 40:
		return 200 + r.Intn(1800)
	case k < 60:
		return r.Intn(4)
	}
	return r.Intn(200)
}

func cfRandBytes(r *gen.Rand) string {
	n := cfRandLen(r)
	b := make([]byte, n)
	for i := range b {
		b[i] = byte(r.Intn(256))
	}
	return string(b)
}

func cfRandASCII(r *gen.Rand) string {
	n := cfRandLen(r)
	b := make([]byte, n)
	for i := range b {
		if r.Intn(12) == 0 {
			b[i] = "\n\t ;(){}[]\"'`"[r.Intn(13)]
		} else {
			b[i] = byte(0x20 + r.Intn(0x5f))
		}
	}
	return string(b)
}

func cfTokenSoup(r *gen.Rand) string {
	n := cfRandLen(r)
	var sb strings.Builder
	for sb.Len() < n {
		sb.WriteString(cfTokPool[r.Intn(len(cfTokPool))])
		switch r.Intn(4) {
		case 0:
		case 1:
			sb.WriteByte('\n')
		default:
			sb.WriteByte(' ')
		}
	}
	return sb.String()
}

// cfTokens splits src at the real scanner's token boundaries (whitespace splitter as fallback).
func cfTokens(src string) (segs []string) {
	defer func() {
		if recover() != nil || len(segs) == 0 {
			segs = strings.SplitAfter(src, " ")
		}
	}()
	fs := parser.NewFileSet()
	sf := fs.AddFile("(tok)", -1, len(src))
	sc := parser.NewScanner(sf, []byte(src), func(parser.SourceFilePos, string) {}, 0)
	var offs []int
	for i := 0; i < 100000; i++ {
		tok, _, pos := sc.Scan()
		if tok == token.EOF {
			break
		}
		off := int(pos) - sf.Base
		if off < 0 || off > len(src) {
			continue
		}
		if len(offs) == 0 || off > offs[len(offs)-1] {
			offs = append(offs, off)
		}
	}
	if len(offs) == 0 || offs[0] != 0 {
		offs = append([]int{0}, offs...)
	}
	for i, o := range offs {
		end := len(src)
		if i+1 < len(offs) {
			end = offs[i+1]
		}
		segs = append(segs, src[o:end])
	}
	return segs
}

// cfMutate applies 1-3 token-level mutations.
func cfMutate(r *gen.Rand, src, other string) (string, string) {
	segs := cfTokens(src)
	kind := ""
	nm := 1 + r.Intn(3)
	for m := 0; m < nm && len(segs) > 0; m++ {
		i := r.Intn(len(segs))
		j := r.Intn(len(segs))
		k := r.Intn(20)
		if k >= 11 {
			k = 11 + k%3
		}
		isIdent := func(t string) bool {
			t = strings.TrimSpace(t)
			return t != "" && (t[0] == '_' || (t[0] >= 'a' && t[0] <= 'z') || (t[0] >= 'A' && t[0] <= 'Z')) && token.Lookup(t) == token.Ident
		}
		trail := func(t string) string { return t[len(strings.TrimRight(t, " \t\n")):] }
		switch k {
		case 11: // an identifier replaced by another identifier of the program or a special name
			var ids []int
			for q, t := range segs {
				if isIdent(t) {
					ids = append(ids, q)
				}
			}
			if len(ids) > 0 {
				q := ids[r.Intn(len(ids))]
				var name string
				if r.Intn(3) == 0 {
					name = []string{"iota", "len", "_", "int", "append", "undefinedName", "log", "a0", "error", "G"}[r.Intn(10)]
				} else {
					name = strings.TrimSpace(segs[ids[r.Intn(len(ids))]])
				}
				segs[q] = name + trail(segs[q])
			}
			kind = "ident"
		case 12: // a literal replaced by another literal
			var lits []int
			for q, t := range segs {
				t = strings.TrimSpace(t)
				if t != "" && ((t[0] >= '0' && t[0] <= '9') || t[0] == '"' || t[0] == '\'' || t == "true" || t == "false" || t == "undefined") {
					lits = append(lits, q)
				}
			}
			if len(lits) > 0 {
				q := lits[r.Intn(len(lits))]
				segs[q] = []string{"0", "1", "-1", "0u", "1.5", "0.0", "\"s\"", "\"\"", "'c'", "true", "false", "undefined", "9223372036854775807", "256", "65536", "[]", "{}", "func() {}"}[r.Intn(18)] + trail(segs[q])
			}
			kind = "literal-swap"
		case 13: // an operator replaced by another operator of the same family
			bin := []string{"+", "-", "*", "/", "%", "&", "|", "^", "<<", ">>", "&^", "==", "!=", "<", "<=", ">", ">=", "&&", "||"}
			asg := []string{"=", ":=", "+=", "-=", "*=", "/=", "%=", "&=", "|=", "^=", "<<=", ">>=", "&^="}
			var ops []int
			fam := map[int][]string{}
			for q, t := range segs {
				t = strings.TrimSpace(t)
				for _, b := range bin {
					if t == b {
						ops = append(ops, q)
						fam[q] = bin
					}
				}
				for _, b := range asg {
					if t == b {
						ops = append(ops, q)
						fam[q] = asg
					}
				}
			}
			if len(ops) > 0 {
				q := ops[r.Intn(len(ops))]
				segs[q] = fam[q][r.Intn(len(fam[q]))] + " " + trail(segs[q])
			}
			kind = "operator"
		case 0: // delete
			segs = append(segs[:i:i], segs[i+1:]...)
			kind = "delete"
		case 1: // duplicate
			segs = append(segs[:i+1:i+1], segs[i:]...)
			kind = "duplicate"
		case 2: // swap
			segs[i], segs[j] = segs[j], segs[i]
			kind = "swap"
		case 3: // replace by a pool token
			segs[i] = cfTokPool[r.Intn(len(cfTokPool))] + " "
			kind = "replace"
		case 4: // unbalanced bracket
			segs = append(segs[:i:i], append([]string{[]string{"(", ")", "[", "]", "{", "}", "\"", "`", "'", "/*"}[r.Intn(10)]}, segs[i:]...)...)
			kind = "bracket"
		case 5: // truncate at a random byte (possibly inside a literal)
			s := strings.Join(segs, "")
			if len(s) > 0 {
				s = s[:r.Intn(len(s))]
			}
			segs = cfTokens(s)
			kind = "truncate"
		case 6: // splice with another program
			o := cfTokens(other)
			if len(o) > 0 {
				segs = append(segs[:i:i], o[r.Intn(len(o)):]...)
			}
			kind = "splice"
		case 7: // random bytes inserted
			segs = append(segs[:i:i], append([]string{cfRandBytes(gen.NewRand(r.U64()))[:0] + string([]byte{byte(r.Intn(256)), byte(r.Intn(256))})}, segs[i:]...)...)
			kind = "bytes"
		case 8: // huge number / odd literal in place of a token
			segs[i] = []string{"99999999999999999999", "1e999999", "0x", "1e", "'\\u", "\"\\", "18446744073709551616u", "1 % 0", "1 / 0", "1 << -1"}[r.Intn(10)] + " "
			kind = "literal"
		case 9: // repeat a run of tokens many times
			run := strings.Join(segs[i:imin(len(segs), i+1+r.Intn(4))], "")
			cnt := 2 + r.Intn(300)
			if len(run) > 0 && cnt*len(run) > 4000 {
				cnt = 4000 / len(run) // keeps the nesting a repetition can build below the caps of class d
			}
			if cnt >= 2 {
				segs = append(segs[:i:i], append([]string{strings.Repeat(run, cnt)}, segs[i:]...)...)
			}
			kind = "repeat"
		default: // keyword replaced by another keyword
			kw := []string{"for ", "if ", "try ", "func ", "return ", "const ", "var ", "param ", "global ", "in ", "catch ", "finally ", "else ", "import ", "break ", "continue ", "throw "}
			segs[i] = kw[r.Intn(len(kw))]
			kind = "keyword"
		}
	}
	return strings.Join(segs, ""), kind
}

func cfProgOpts(r *gen.Rand) gen.ProgOpts {
	o := gen.DefaultProgOpts()
	o.Floats = r.Bool()
	o.Decls = r.Intn(4) > 0
	o.TryHeavy = r.Intn(4) == 0
	o.CallHeavy = r.Intn(4) == 0
	o.FailOps = r.Intn(4) > 0
	o.MaxDepth = 2 + r.Intn(3)
	o.ExprDepth = 2 + r.Intn(3)
	o.Params = r.Intn(4)
	o.Log = r.Bool()
	return o
}

var cfIdentRe = regexp.MustCompile(`\b(v|f|p|i|k|e|err|c|rest)([0-9]+)\b`)

// cfRename makes the generated names of a program unique to fragment k of a session.
func cfRename(src string, k int) string {
	return cfIdentRe.ReplaceAllString(src, fmt.Sprintf("${1}${2}_%d", k))
}

// cfDeep returns the script of a nesting shape at depth n.
func cfDeep(kind string, n int) string {
	rep := strings.Repeat
	switch kind {
	case "paren":
		return "y := 1; x := " + rep("(", n) + "y" + rep(")", n)
	case "paren-lit":
		return "x := " + rep("(", n) + "1" + rep(")", n)
	case "unary":
		return "y := 1; x := " + rep("-!", n/2) + "y"
	case "unary-lit":
		return "x := " + rep("-^", n/2) + "1"
	case "not":
		return "y := 1; x := " + rep("!", n) + "y"
	case "array":
		return "x := " + rep("[", n) + "1" + rep("]", n)
	case "map":
		return "x := " + rep("{a:", n) + "1" + rep("}", n)
	case "func":
		return "y := 1; x := " + rep("func(){ return ", n) + "y" + rep("}", n)
	case "func-call":
		return "y := 1; x := " + rep("func(){ return ", n) + "y" + rep("}()", n)
	case "if":
		return "y := 1; " + rep("if y { ", n) + "y = 2" + rep("}", n)
	case "if-lit":
		return "y := 1; " + rep("if 1 { ", n) + "y = 2" + rep("}", n)
	case "for":
		return "y := 1; " + rep("for y { ", n) + "y = 2" + rep("}", n)
	case "forin":
		return "y := [1]; " + rep("for a, b in y { ", n) + "y = 2" + rep("}", n)
	case "try":
		return "y := 1; " + rep("try { ", n) + "y = 2" + rep("} finally {}", n)
	case "try-catch":
		return "y := 1; " + rep("try { ", n) + "throw y" + rep("} catch e { throw e }", n)
	case "elseif":
		return "y := 1; if y {}" + rep(" else if y {}", n)
	case "bin":
		return "y := 1; x := y" + rep("+y", n)
	case "bin-lit":
		return "x := 1" + rep("+1", n)
	case "bin-str":
		return `x := "a"` + rep(`+"b"`, n)
	case "bin-right":
		return "y := 1; x := " + rep("y+(", n) + "y" + rep(")", n)
	case "and":
		return "y := 1; x := y" + rep(" && y", n)
	case "or-lit":
		return "x := 0" + rep(" || 0", n)
	case "cond":
		return "y := 1; x := " + rep("y ? y : (", n) + "y" + rep(")", n)
	case "cond-lit":
		return "x := " + rep("true ? (", n) + "1" + rep(") : 2", n)
	case "selector":
		return "y := {}; x := y" + rep(".b", n)
	case "index":
		return "y := {}; x := y" + rep("[0]", n)
	case "call":
		return "y := 1; x := y" + rep("()", n)
	case "call-arg":
		return "y := 1; x := " + rep("y(", n) + "1" + rep(")", n)
	case "slice":
		return "y := []; x := y" + rep("[:]", n)
	case "const-chain":
		return "const c0 = 1\n" + cfSeq(n, "\n", func(i int) string { return fmt.Sprintf("const c%d = c%d", i+1, i) }) + "\nreturn c" + strconv.Itoa(n)
	case "closure-chain":
		return "y := 1; x := " + rep("func(){ return func(){ return ", n/2) + "y" + rep("}() }", n/2)
	}
	panic("cfDeep: " + kind)
}

// cfDeepShapes: shape, cap of the nesting depth, cap with the optimizer on.
// linear-time shapes go to 10000, shapes whose compile time is quadratic in the depth to
// 3000, function literals (optimizer re-evaluates every level) to 500.
var cfDeepShapes = []struct {
	kind     string
	cap, opt int
}{
	{"paren", 10000, 10000}, {"paren-lit", 10000, 10000}, {"unary", 3000, 3000}, {"unary-lit", 3000, 3000}, {"not", 3000, 3000},
	{"array", 3000, 3000}, {"map", 3000, 3000}, {"func", 1000, 500}, {"func-call", 1000, 500}, {"closure-chain", 1000, 500},
	{"if", 3000, 3000}, {"if-lit", 3000, 3000}, {"for", 3000, 3000}, {"forin", 80, 80}, {"try", 10000, 10000}, {"try-catch", 3000, 3000}, {"elseif", 3000, 3000},
	{"bin", 3000, 3000}, {"bin-lit", 3000, 3000}, {"bin-str", 3000, 3000}, {"bin-right", 10000, 10000}, {"and", 3000, 3000}, {"or-lit", 3000, 3000},
	{"cond", 10000, 10000}, {"cond-lit", 3000, 3000}, {"selector", 10000, 10000}, {"index", 10000, 10000}, {"call", 10000, 10000}, {"call-arg", 3000, 3000},
	{"slice", 10000, 10000}, {"const-chain", 3000, 3000},
}

// cfPool: hand-written scripts covering every statement / expression form, valid and invalid.
var cfPool = []string{
	``, `;`, "\n\n", `// c`, `/* c */`, "\ufeff1", "1\ufeff", "\x00", "\xff", "a\x00b",
	`1`, `1u`, `1.5`, `'a'`, `"s"`, "`raw`", `true`, `false`, `undefined`,
	`a := 1; a += 2; a -= 1; a *= 3; a /= 2; a %= 2; a &= 1; a |= 2; a ^= 3; a <<= 1; a >>= 1; a &^= 1; a++; a--; return a`,
	`const ( a = iota; b; c ); return [a, b, c]`,
	`const ( a = iota + 1; b; c = "x"; d ); return [a, b, c, d]`,
	`const x = 1; const y = x; const z = y; return z + x`,
	`const len = 5; return len`, `const int = 3; return int + 1`, `const len = 5; return len("abc")`,
	`return iota`, `iota := 3; const (a = iota; b); return [a, b, iota]`, `const iota = 1`, `const (a = iota; iota = 2)`, `const (_ = iota; a); return a`,
	`const (a = iota; b = iota * 2; c = func() { return iota }; d); return [a, b, c(), d()]`,
	`const f = func() { return 1 }; return f()`, `const ( f = func() { return iota }; g ); return [f(), g()]`,
	`const a = 1; a = 2`, `const a = 1; a := 2`, `const a = 1; a++`, `const a = 1; func() { a = 3 }()`, `const a = 1; a, b := [1, 2]`, `const a = 1; a.b = 1`,
	`const a = 1; if true { const a = 2; return a }; return a`, `const a = 1; f := func() { const a = "s"; return a }; return [a, f()]`,
	`const a = 1 + 2; const b = a * 2; return -b`, `const a = "x"; return a + a`, `const a = 1; return !a ? a : -a`, `const a = 1; return a % 0`, `const a = 0; return 1 / a`,
	`const a = undefined; const b = a; return b == undefined`, `const a = 'c'; const b = 1.5; const c = 2u; const d = true; return [a, b, c, d]`,
	`const a`, `const (a; b)`, `const ()`, `var ()`, `param ()`, `global ()`, `const a = b`, `const a = a`, `const (a = 1; b = a + c; c = 2)`,
	`var a; var b = 1; var (c = 2; d; e = "s"); return [a, b, c, d, e]`, `var a, b = 1`, `var a = 1, b = 2`, `var (a = 1, b = 2); return b`, `var a = a`, `var a; var a`,
	`a, b := [1, 2]; a, b = [b, a]; return [a, b]`, `a, b := 1`, `a, b := [1, 2]; a, b := [3, 4]`, `a, b, c := [1, 2]; return c`, `a, _ := [1, 2]; _, _ = [3, 4]; return a`,
	`var (a, b = [1, 2])`, `const (a, b = [1, 2])`, `a, b := f()`, `a, b = [1, 2]`, `x := {}; x.a, x.b = [1, 2]; return x`, `x := [0, 0]; x[0], x[1] = [1, 2]; return x`,
	`x := {a: {b: [1, 2, {c: 3}]}}; x.a.b[2].c = 4; x.a.b[2].c += 1; x["a"]["b"][0]++; return x.a.b[2].c`,
	`x := [1, 2, 3]; return [x[0], x[1:], x[:2], x[:], x[1:2][0]]`, `x := "abc"; return x[1] + x[1:][0]`, `x := [1]; return x[5]`, `x := 1; return x.a.b`,
	`param (a, b, ...c); return [a, b, c]`, `param a; param b`, `param ...a; return a`, `param (...a, b)`, `param (...a, ...b)`, `param a; a := 1`, `a := 1; param a`, `param (a, a)`, `param len; return len`,
	`global (g, h); g = 1; return h`, `global g; global g; return g`, `x := 1; global x`, `global x; x := 1`, `global x; param x`, `global G; return G`, `global log; log = append(log, 1)`, `global len; return len`,
	`func() { param a }()`, `func() { global a }()`, `if true { param a }`, `for { global g; break }`, `try { param x } finally {}`, `if 1 { global g }`,
	`try { throw "e" } catch err { return err } finally { x := 1 }`, `try { return 1 } finally { return 2 }`, `try { throw 1 } catch { throw 2 } finally { throw 3 }`,
	`for i := 0; i < 3; i++ { try { if i == 1 { continue }; if i == 2 { break } } catch e { break } finally { continue } }`,
	`f := func() { for { try { try { return 1 } finally { break } } catch { continue } finally { } } }; return f()`,
	`f := func() { try { return 1 } finally { try { return 2 } finally { return 3 } } }; return f()`,
	`for i in [1, 2] { try { for j in [3] { try { break } finally { continue } } } finally { break } }`,
	`try { } catch { }`, `try { } finally { }`, `try { }`, `try { } catch e { } catch f { }`, `try { const e = 1 } catch e { return e }`, `try { e := 1 } catch e { return e }`, `try { const e = f() } catch e { return e }`,
	`try { x := 1 } catch x { } finally { return x }`, `e := 1; try { throw 2 } catch e { e = 3 }; return e`, `try { try { throw 1 } finally { } } catch e { return e }`,
	`throw`, `throw 1`, `throw error("x")`, `throw throw 1`, `return return`, `return throw 1`,
	`for k, v in {a: 1} { return [k, v] }`, `for v in [1] { return v }`, `for _, _ in [1] {}`, `for _ in [1] {}`, `for a, b, c in [1] {}`, `for a, b, c, d in [1] { return a }`, `for a.b in [1] {}`, `for a[0], b in [1] {}`, `for 1 in [1] {}`,
	`for k, k in [1] {}`, `for i in 3 {}`, `for a, b in x {}`, `for a, b in [1] { a := 2; b := 3 }`, `for a in [1] { for a in [2] { return a } }`, `f := func() { for a, b, c in [1] {} }`,
	`for { break }`, `for true { break }`, `for ;; { break }`, `for i := 0; ; { break }`, `for ; ; i++ { break }`, `break`, `continue`, `for { func() { break }() }`, `for { break foo }`, `for i := 0; i < 2; i++ { continue bar }`,
	`for i := 0; i < 2; i++ { }; return i`, `for x := 1; x < 3; x *= 2 { x := 5; x++ }`, `for false { undefinedName }`, `for 0 { }`, `for "" { }`, `for a := 1; a { break }`, `for a = 1; false; { }`, `for a, b := [1, 2]; false; { }`,
	`return 1, 2, 3`, `return 1,`, `return ,`, `f := func() { return 1, 2 }; a, b := f(); return a + b`,
	`a := 1; f := func() { b := 2; return func() { c := 3; return func() { d := 4; return func() { a += b + c + d; return a } } } }; return f()()()()`,
	`a := 1; f := func() { return func() { return func() { a = 2 } } }; f()()(); return a`, `f := func() { return func() { return f } }`, `x := func() { return x }`, `var f; f = func(n) { return n <= 0 ? 0 : f(n - 1) }; return f(3)`,
	`f := func(...a) { return a }; return f(1, ...[2, 3])`, `f := func(a, ...b) { return b }; return [f(1), f(1, 2), f(...[1, 2, 3])]`, `func(a, a) {}`, `func(...a, b) {}`, `func(a, ...a) {}`, `f := func(len) { return len }; return f(1)`, `func(iota) {}`,
	`a := func() {}(); b := func(a) { return a }(1); return [a, b]`, `func() {}`, `func`, `func(`, `func() { return `, `return func(a, b`, `func() { func() { func() { return undefinedName }() }() }()`,
	`return true ? 1 : 2`, `return false ? 1 : 2`, `return 1 ? 2 : 3`, `return "" ? 1 : 0 ? 2 : 3`, `return undefined ? x : 1`, `return true ? 1 : undefinedName`, `return false ? undefinedName : 1`, `return 1 ? undefinedName : 1`,
	`if false { undefinedName }; return 1`, `if true { return 1 } else { undefinedName }`, `if 0 {} else if "" {} else if 1.0 { return 3 }`, `if x := 1; x { return x }`, `if x := 1; false { return x } else { return -x }`, `if ; {}`, `if {}`, `if x {`, `if true {} else`, `if true {} else 1`, `if x := 1 { }`, `if a := 1; b := 2 {}`,
	`if 1 - 1 { return 1 } else { return 2 }`, `if !0 { return 1 }`, `if len("") { return 1 }; return 2`, `x := 0; if x = 1 { }`,
	`return 1 / 0`, `return 1 % 0`, `return 1u / 0u`, `return 1u % 0u`, `return 1.0 / 0.0`, `return 1 << -1`, `return 1 >> -1`, `return 1 << 64`, `return 1 << 1000000`, `return 1u << 64u`, `return -9223372036854775808 / -1`,
	`return (-9223372036854775807 - 1) / -1`, `return (-9223372036854775807 - 1) % -1`, `return 9223372036854775807 + 1`, `return 'a' + 1`, `return "a" + 1`, `return "a" * 3`, `return [1] + [2]`, `return !undefined`, `return -"s"`, `return ^1.5`, `return +true`,
	`return 1 && 0 || "x"`, `return 1 == 1.0 != true`, `return 1 < "a"`, `return 1 &^ 3 | 4 ^ 5 & 6`, `return -(-9223372036854775807 - 1)`, `return 1.5 % 2.0`, `return 'a' / 0`, `return 1 / 0.0`, `return 0u - 1u`, `return 7 % -0`, `x := 1 % 0`, `[1 % 0]`, `f(1 % 0)`, `return {a: 1 / 0}`, `if 1 % 0 {}`, `x := [0]; return x[1 % 0]`, `return 1 % 0 ? 1 : 2`, `throw 1 % 0`, `const z = 1 % 0`, `var z = 1 / 0`,
	`return int("x")`, `return len(1, 2)`, `return sprintf("%d %s", 1)`, `return string(1) + char(65) + string(bytes("ab"))`, `return error("x").Message`, `return contains("abc", "b") && isInt(1) && isError(error("e"))`,
	`return typeName(undefined) + typeName(int)`, `return int("9999999999999999999999")`, `return uint(-1)`, `return float("1e999")`, `return char(-1)`, `return chars("\xff\xfe")`, `return bytes(1, 2, 300)`, `return len()`, `return bool()`, `return sprintf()`, `return sprintf("%v", [1, {a: 2}])`, `return int(int)`, `return string(error)`,
	`len := 1; return len`, `int := func(x) { return x }; return int("7")`, `len(1); len, x := [1, 2]; return len`, `f := func() { return len }; len := 2; return f()`, `x := 1; f := func() { x; x, y := [5, 6]; return x + y }; return [f(), x]`, `global g; g, y := [1, 2]; return g`,
	`x := 1; f := func() { x; x := 2; return x }; return f()`, `x := 1; f := func() { x; var x = 2; return x }`, `x := 1; f := func() { x; const x = 2; return x }`, `len(1); var len = 2`, `len(1); const len = 2; return len`, `len(1); for len in [1] { return len }`, `len(1); try { throw 1 } catch len { return len }`,
	`int(1); int, a := [1, 2]; return int`, `global g; for g, h in [1] { return g }`, `x := 1; func() { x; for x, y in [1] { return x } }()`, `x := 1; func() { x; try { throw 2 } catch x { return x } }()`,
	`return 99999999999999999999999999`, `return 0x`, `return 1e`, `return 1e999999`, `return 0b12`, `return 0o9`, `return 1_000`, `return 1.2.3`, `return 0xFFFFFFFFFFFFFFFFFu`, `return 18446744073709551615u + 1u`, `return 1e-999999`, `return 09`, `return 0x1p4`, `return 1i`, `return .5 + 5.`,
	`'\u'`, `'A'`, `''`, `'ab'`, `'\''`, `'\x'`, `'\xff'`, `'\U0010FFFF'`, `'\U00110000'`, `'\400'`, `'\ud800'`, "'\n'", `'`, `'\`,
	`"\q"`, `"abc`, "`abc", `"a\nb"`, "\"a\nb\"", `"é\U0001F600\xff\377"`, `"\ud800"`, `"\U00110000"`, `"\400"`, `"\x0"`, `"`, "`", `"\`,
	`/* unterminated`, `1 /* c */ + /* d */ 2 // e`, `/`, `/*/`, "1 //\r\n+ 2", "a := 1 /*\n*/ b := 2",
	`m := import("ok"); return m.v`, `return import("ok").f(1)`, `import("b1"); return import("b1").x`, `return import("synerr")`, `return import("cmperr")`, `return import("limit")`, `return import("limitargs")`, `return import("cycA")`, `return import("self")`, `return import("missing")`, `return import("nope")`,
	`return import("")`, `import(1)`, `import()`, `import`, `import("ok"`, `return import("deep0")`, `return import("params")`, `return import("noattrs")`, `return import("badtype")`, `return import("imperr")`, `return import("nilmod")`, `return import("objmod").k`, `return import("empty")`, `return import("comment")`, `return import("bom")`, `return import("forin3")`, `return import("divzero")`,
	`f := func() { return import("ok") }; return [f(), f(), import("ok")]`, `return [import("ok2"), import("ok"), import("b1"), import("b2")]`, `if false { import("synerr") }; return 1`, `return import("ext1")`, `return import("ext2") + import("ext1")`, `return import("extc")`, `return import("exte")`, `return import("extnone")`,
	`const m = import("ok"); return m.v`, `import("ok") = 1`, `import("ok").v = 1`, `x := import("ok") ? 1 : 2`, `try { import("cmperr") } catch e { return e }`, `for x in import("b1") { return x }`, `return import("ok")(1)`,
	`a: 1`, `x := {break: 1, for: 2, "k k": 3, func: 4}; return x.break`, `return {a: 1,}`, `return [1,]`, `return {1: 2}`, `return {a}`, `return {"a" 1}`, `return {a: 1, a: 2}`, `return {"": 1}.a`, `return [,]`, `return {,}`, `return [1 2]`, "return [1,\n2,\n]", "return {a: 1\n}",
	`f(`, `)`, `}`, `{`, `]`, `[`, `x = `, `:= 1`, `1 := 2`, `f() := 1`, `f() = 1`, `1++`, `a.b++`, `x := 1; x.y.z = 2`, `(a) = 1`, `x := [0]; (x)[0] = 1`, `x := [0]; x[0:1] = 2`, `a = 1, 2`, `a, b = 1, 2`, `a.b, c := [1, 2]`, `a.b := 1`, `var a.b`, `1 = 2`, `"s" += 1`, `undefined = 1`, `true := 1`, `x := 1; x++ ++`, `x := 1; x += `, `x := 1; (x)++`, `x := [1]; x[0]++; x[0] -= 2; return x`,
	`return x...`, `f(...)`, `f(...a, ...b)`, `f(...a, b)`, `f(a, ...)`, `x := 1; x()()()`, `x := 1; x.a.b.c.d`, `x := 1; x?.a`, `a ? b`, `a ? : c`, `? :`, `1 +`, `+ 1`, `* 1`, `& 1`, `- - - 1`, `!!!!true`, `^^^1`, `-(-(-(1)))`, `1 2`, `1; 2; 3`, `a b`, `. a`, `a .`, `a . 1`, `a..b`, `...`, `a := ...b`,
	`x := {f: func(a) { return a }}; return x.f(1) + x["f"](2)`, `x := {}; x.f()`, `x := {}; x.a.b()`, `x := []; x.y(...[1, 2])`, `"abc".len()`, `1.f()`, `f := func() {}; f.a.b.c(1, 2)`,
	"a := 1\nb := 2\nreturn a +\nb", "a := 1\n+ 2", "return\n1", "x := func() {\n}\n()", "if true\n{ }", "x := [\n1\n]",
}

// ---------------------------------------------------------------------------
// boundary scripts

type cfBoundary struct {
	name   string // limit name
	n      int
	src    string
	wantOK bool
	model  bool
	mods   *ugo.ModuleMap             // special module map (module count limit)
	check  func(*ugo.Bytecode) string // extra expectation on success
	// modOK overrides wantOK when the script is imported as a source module: the importing
	// script calls the module with one undefined per parameter (CALL operand <= 255) and
	// stores the module function as one more constant
	modOK *bool
}

func cfNames(p string, n int, sep string) string {
	return cfSeq(n, sep, func(i int) string { return p + strconv.Itoa(i) })
}

func cfBoundaries() []cfBoundary {
	var bs []cfBoundary
	add := func(name string, n int, ok, model bool, src string) {
		bs = append(bs, cfBoundary{name: name, n: n, src: src, wantOK: ok, model: model})
	}
	zeros := func(n int) string { return cfSeq(n, ",", func(int) string { return "0" }) }
	for _, n := range []int{255, 256, 257} {
		ok := n <= 256
		add("locals-top", n, ok, true, cfSeq(n, "\n", func(i int) string { return fmt.Sprintf("a%d := 0", i) }))
		// the function value itself is one more local of main, not of f
		add("locals-func", n, ok, true, "f := func() {\n"+cfSeq(n, "\n", func(i int) string { return fmt.Sprintf("a%d := 0", i) })+"\n}")
		add("locals-var-group", n, ok, true, "var (\n"+cfSeq(n, "\n", func(i int) string {
			if i%2 == 0 {
				return fmt.Sprintf("a%d = 0", i)
			}
			return fmt.Sprintf("a%d", i)
		})+"\n)")
		add("params-func", n, ok, true, "f := func("+cfNames("p", n, ", ")+") {}")
		add("params-func-variadic", n, ok, true, "f := func("+cfNames("p", n-1, ", ")+", ...rest) { return rest }")
		add("params-top", n, ok, true, "param ("+cfNames("p", n, ", ")+")")
		modOK := n <= 255
		bs[len(bs)-1].modOK = &modOK
		add("locals-mixed", n, ok, true, "param (p0, p1)\nglobal g\nconst k = 1\n"+cfSeq(n-2, "\n", func(i int) string { return fmt.Sprintf("a%d := k", i) }))
	}
	// block-scoped slot reuse: 100 sibling blocks x 5 locals = 500 names, 6 slots
	add("locals-sibling-blocks", 500, true, true, "y := 1\n"+cfSeq(100, "\n", func(i int) string {
		return fmt.Sprintf("if y { a%[1]d := 0; b%[1]d := 0; c%[1]d := 0; d%[1]d := 0; e%[1]d := 0 }", i)
	}))
	bs[len(bs)-1].check = func(bc *ugo.Bytecode) string {
		if bc.Main.NumLocals != 6 {
			return fmt.Sprintf("sibling blocks must share slots: NumLocals=%d, expected 6", bc.Main.NumLocals)
		}
		return ""
	}
	for _, n := range []int{254, 255, 256} { // y + n nested block locals
		add("locals-nested-blocks", n+1, n+1 <= 256, n <= 255, "y := 1\n"+cfSeq(n, "\n", func(i int) string { return fmt.Sprintf("if y { a%d := 0", i) })+strings.Repeat("}", n))
	}
	for _, n := range []int{253, 254} { // hidden locals: for-in takes :it, k, v ; destructuring takes :array
		add("locals-forin-hidden", n+3, n+3 <= 256, true, cfSeq(n, "\n", func(i int) string { return fmt.Sprintf("a%d := 0", i) })+"\nfor k, v in [1] { }")
		add("locals-destructuring-hidden", n+3, n+3 <= 256, true, cfSeq(n, "\n", func(i int) string { return fmt.Sprintf("a%d := 0", i) })+"\nx, y := [1, 2]")
	}
	for _, n := range []int{254, 255} { // catch identifier is one more local
		add("locals-catch-ident", n+2, n+2 <= 256, true, cfSeq(n, "\n", func(i int) string { return fmt.Sprintf("a%d := 0", i) })+"\ntry { b := 1 } catch e { }")
	}
	for _, n := range []int{255, 256, 257} {
		add("call-args", n, n <= 255, true, "f := func(...a) { return a }\nf("+zeros(n)+")")
		add("callname-args", n, n <= 255, true, "m := {f: func(...a) { return a }}\nm.f("+zeros(n)+")")
		add("call-args-spread", n, n <= 255, true, "f := func(...a) { return a }\nf("+zeros(n-1)+", ...[1])")
	}
	for _, n := range []int{65535, 65536} {
		add("array-elements", n, n <= 65535, false, "x := ["+zeros(n)+"]")
		add("return-list", n, n <= 65535, false, "return "+zeros(n))
	}
	for _, n := range []int{32767, 32768} {
		add("map-elements", n, n <= 32767, false, "x := {"+cfSeq(n, ",", func(int) string { return "a:0" })+"}")
	}
	for _, n := range []int{65535, 65536, 65537} {
		add("constants", n, n <= 65536, false, "x := 0\n"+cfSeq(n-1, "\n", func(i int) string { return "x = " + strconv.Itoa(i+1) }))
		modOK := n <= 65535
		bs[len(bs)-1].modOK = &modOK
	}
	add("constants-strings-and-funcs", 65537, false, false, "x := 0\n"+cfSeq(65534, "\n", func(i int) string { return "x = " + strconv.Itoa(i+1) })+"\nx = \"s\"\nx = func() { return 1.5 }")
	for _, n := range []int{255, 256} {
		add("free-variables", n, n <= 255, false, "f := func() {\n"+cfSeq(n, "\n", func(i int) string { return fmt.Sprintf("a%d := 0", i) })+
			"\nreturn func() { return "+cfNames("a", n, " + ")+" }\n}")
	}
	for _, nn := range [][2]int{{155, 100}, {156, 100}, {200, 100}} { // free count of the innermost function = sum, each function <= 256 locals
		n := nn[0] + nn[1]
		add("free-variables-two-levels", n, n <= 255, false, "f := func() {\n"+cfSeq(nn[0], "\n", func(i int) string { return fmt.Sprintf("a%d := 0", i) })+
			"\nreturn func() {\n"+cfSeq(nn[1], "\n", func(i int) string { return fmt.Sprintf("b%d := 0", i) })+
			"\nreturn func() { return "+cfNames("a", nn[0], " + ")+" + "+cfNames("b", nn[1], " + ")+" }\n}\n}")
	}
	for _, n := range []int{255, 256} {
		add("index-chain", n, n <= 255, true, "a := {}\nx := a"+strings.Repeat("[0]", n))
	}
	for _, n := range []int{256, 2000} { // selector chains on the right-hand side are emitted one GETINDEX per selector: no limit
		add("selector-chain-rhs", n, true, n <= 256, "a := {}\nx := a"+strings.Repeat(".b", n))
	}
	for _, n := range []int{256, 257} { // assignment emits GETINDEX n-1 then SETINDEX
		add("assign-selector-chain", n, n <= 256, true, "a := {}\na"+strings.Repeat(".b", n)+" = 1")
		add("assign-index-chain", n, n <= 256, true, "a := {}\na"+strings.Repeat("[0]", n)+" = 1")
	}
	for _, n := range []int{255, 256} { // a compound assignment first reads the whole chain: GETINDEX n
		add("compound-assign-index-chain", n, n <= 255, true, "a := {}\na"+strings.Repeat("[0]", n)+" += 1")
	}
	for _, n := range []int{256, 257} { // x++ reads the chain selector by selector, then assigns like a plain assignment
		add("incdec-selector-chain", n, n <= 256, true, "a := {}\na"+strings.Repeat(".b", n)+"++")
	}
	for _, n := range []int{255, 256} { // loop at try depth n: break inside one more try emits FINALIZER n
		add("try-depth-break", n, n <= 255, false, strings.Repeat("try {\n", n)+"for { try { break } finally { } }\n"+strings.Repeat("} finally { }\n", n))
		add("try-depth-continue", n, n <= 255, false, strings.Repeat("try {\n", n)+"for i := 0; i < 1; i++ { try { continue } catch { } }\n"+strings.Repeat("} catch { }\n", n))
	}
	for _, n := range []int{255, 256, 257} { // return always emits FINALIZER 0: try depth alone is not limited
		add("try-depth-return", n, true, false, "f := func() {\n"+strings.Repeat("try {\n", n)+"return 1\n"+strings.Repeat("} finally { }\n", n)+"}")
	}
	// forward jump over a body of more than 64 KiB of instructions
	add("far-jump", 14000, true, false, "param p\nx := 0\nif p {\n"+cfSeq(14000, "\n", func(int) string { return "x = 12345" })+"\n}\nfor p {\n"+cfSeq(14000, "\n", func(int) string { return "x = 12345" })+"\nif x { break } else { continue }\n}\nreturn x")
	bs[len(bs)-1].check = func(bc *ugo.Bytecode) string {
		far := 0
		cfWalk(bc.Main.Instructions, func(_ int, op byte, o []int) {
			switch op {
			case ugo.OpJump, ugo.OpJumpFalsy:
				if o[0] > 65535 {
					far++
				}
			}
		})
		if len(bc.Main.Instructions) < 140000 || far < 4 {
			return fmt.Sprintf("expected at least 4 jumps with a target beyond 65535 in %d bytes of instructions, found %d", len(bc.Main.Instructions), far)
		}
		return ""
	}
	// module count: every builtin module import adds one constant and one module slot (2-byte operands)
	for _, n := range []int{256, 257, 65536, 65537} {
		mm := ugo.NewModuleMap()
		attrs := map[string]ugo.Object{}
		for i := 0; i < n; i++ {
			mm.AddBuiltinModule("m"+strconv.Itoa(i), attrs)
		}
		bs = append(bs, cfBoundary{name: "module-imports", n: n, wantOK: n <= 65536, mods: mm,
			src: cfSeq(n, "\n", func(i int) string { return fmt.Sprintf("import(\"m%d\")", i) })})
	}
	return bs
}

// ---------------------------------------------------------------------------
// the stream

func cfErrKind(err error) string {
	switch {
	case err == nil:
		return "ok"
	case errors.Is(err, ugo.ErrSymbolLimit):
		return "symbol-limit"
	case strings.Contains(err.Error(), "MakeInstruction"):
		return "operand-range"
	case strings.Contains(err.Error(), "Parse Error"):
		return "parse-error"
	}
	return "other-error"
}

// evalOnce compiles src through a fresh Eval (cancelled context: Run compiles, does not execute).
func (e *cfEnv) evalOnce(class, label, src string, o cfOpt, co ugo.CompilerOptions) (bc *ugo.Bytecode, err error, done bool) {
	key := "eval1|" + o.String()
	if e.hungCfg[key] || e.hangs >= 1 {
		e.c.Count("skipped-after-hang")
		return nil, nil, false
	}
	ctx, cancel := context.WithCancel(context.Background())
	cancel()
	ev := ugo.NewEval(co, nil)
	pv, stack, hung := cfGuard(e.timeout, func() { _, bc, err = ev.Run(ctx, []byte(src)) })
	in := e.input("Eval.Run", label, o, src)
	if hung {
		e.reportHang(key, class, in)
		return nil, nil, false
	}
	if pv != nil {
		e.reportPanic(pv, stack, in)
		return nil, nil, false
	}
	if bc != nil {
		e.scan(bc, in)
		return bc, nil, true
	}
	return nil, err, true
}

func (e *cfEnv) expect(b *cfBoundary, via string, o cfOpt, bc *ugo.Bytecode, err error) {
	in := fmt.Sprintf("%s {%s} boundary script %s n=%d: %s", via, o, b.name, b.n, cfShow(fmt.Sprintf("%s n=%d", b.name, b.n), b.src))
	sig := "C05:limit:" + b.name
	wantOK := b.wantOK
	if via == "source module" && b.modOK != nil {
		wantOK = *b.modOK
	}
	var oe *ugo.OptimizerError
	if wantOK && err != nil && !o.NoOpt && (errors.As(err, &oe) || strings.Contains(err.Error(), "Optimizer Error")) {
		// the optimizer evaluates constant expressions on a VM (2048 stack slots): a literal with
		// more elements is refused with an Optimizer Error; an error is an allowed answer
		e.c.Count("limit-optimizer-refused:" + b.name)
		return
	}
	switch {
	case wantOK && err != nil:
		e.c.Count("LIMIT-VIOLATION:" + b.name)
		e.c.Violation(PropViolation{"C05", fmt.Sprintf("a script within the limit (%s = %d) is rejected: %s", b.name, b.n, firstLine(err.Error())), in, sig})
	case !wantOK && err == nil:
		e.c.Count("LIMIT-VIOLATION:" + b.name)
		e.c.Violation(PropViolation{"C05", fmt.Sprintf("a script beyond the limit (%s = %d) yields Bytecode (operand truncated or limit unchecked)", b.name, b.n), in, sig})
	case wantOK && b.check != nil && via != "source module":
		if msg := b.check(bc); msg != "" {
			e.c.Count("LIMIT-VIOLATION:" + b.name)
			e.c.Violation(PropViolation{"C05", msg, in, sig})
		}
	}
	if via == "Compile" && o.NoOpt {
		e.c.Count(fmt.Sprintf("limit:%s/%d:%s", b.name, b.n, cfErrKind(err)))
	}
}

func cfRunBoundaries(e *cfEnv) {
	saved := e.timeout
	e.timeout = 180 * time.Second
	defer func() { e.timeout = saved }()
	for _, b := range cfBoundaries() {
		b := b
		if e.hangs > 0 {
			return
		}
		label := fmt.Sprintf("%s n=%d", b.name, b.n)
		for _, no := range []bool{true, false} {
			o := cfOpt{NoOpt: no}
			co := o.build(e)
			co.ModuleMap = b.mods
			t0 := time.Now()
			if bc, err, done := e.compile("boundary", label, b.src, o, co); done {
				e.expect(&b, "Compile", o, bc, err)
			}
			if time.Since(t0) > 20*time.Second {
				e.c.Count("boundary-slow:" + label)
				continue // skip the other routes of a very slow script
			}
			co = o.build(e)
			co.ModuleMap = b.mods
			if bc, err, done := e.evalOnce("boundary", label, b.src, o, co); done {
				e.expect(&b, "Eval.Run", o, bc, err)
			}
			if b.mods == nil {
				if bc, err, done := e.asModule("boundary", label, b.src, o); done {
					e.expect(&b, "source module", o, bc, err)
				}
			}
			e.c.Count("class:boundary")
		}
		if b.model {
			e.modelCase("boundary", b.src)
		}
	}
}

const cfSetupOK = "x := 1; const c = 5; global g; f := func(a) { return a + x }; m := import(\"ok\"); k := import(\"b1\")\nreturn [x, c, f(1)]"
const cfSetupFail = "global gg; y := \"str\"; const cc = 7; mm := import(\"ok2\"); kk := import(\"b2\"); h := func() { return import(\"deep0\") }\nreturn undefinedName"
const cfFollowUp = "return [gg, g, import(\"ok2\"), import(\"ok\"), import(\"b2\"), import(\"deep0\")]"

func cfRunPool(e *cfEnv) {
	all := cfAllOpts()
	modOpts := []cfOpt{}
	for _, no := range []bool{false, true} {
		for _, tr := range []int{0, 1, 2} {
			for _, sy := range []int{0, 2} {
				modOpts = append(modOpts, cfOpt{NoOpt: no, Trace: tr, Sym: sy, Mods: true})
			}
		}
	}
	sessOpts := []cfOpt{{Mods: true}, {NoOpt: true, Mods: true}, {Limit: 1, Mods: true, Trace: 1}, {NoOpt: true, Sym: 3, Trace: 2}}
	for i, src := range cfPool {
		if e.hangs > 0 {
			return
		}
		label := fmt.Sprintf("pool[%d]", i)
		for _, o := range all {
			e.compileOpt("pool", label, src, o)
			e.c.Count("class:pool-compile")
		}
		for _, o := range modOpts {
			e.asModule("pool", label, src, o)
			e.c.Count("class:pool-as-module")
		}
		for _, o := range sessOpts {
			// after a successful fragment, twice; after a failed fragment; followed by uses of what the failed fragment declared
			e.evalSession("pool", []cfFrag{{cfSetupOK, true}, {src, true}, {src, true}, {cfFollowUp, true}}, o)
			e.evalSession("pool", []cfFrag{{cfSetupFail, true}, {src, true}, {cfFollowUp, true}}, o)
			e.reuseSession("pool", []cfFrag{{cfSetupOK, true}, {src, true}, {src, true}, {cfFollowUp, true}}, o)
			e.reuseSession("pool", []cfFrag{{cfSetupFail, true}, {src, true}, {cfFollowUp, true}}, o)
			e.c.Count("class:pool-sessions")
		}
		e.modelCase("pool", src)
	}
}

func cfRunRandom(e *cfEnv) {
	c := e.c
	n := 20000 * c.Scale
	prev := ""
	for i := 0; i < n; i++ {
		if e.hangs > 0 {
			return
		}
		r := c.R.Fork()
		var src, kind string
		switch r.Intn(4) {
		case 0:
			src, kind = cfRandBytes(r), "bytes"
		case 1:
			src, kind = cfRandASCII(r), "ascii"
		default:
			src, kind = cfTokenSoup(r), "tokens"
		}
		c.Count("class:a-" + kind)
		o := cfRandOpt(r)
		_, err, done := e.compileOpt("random-"+kind, kind, src, o)
		if done {
			c.Count("a-result:" + cfErrKind(err))
		}
		switch i % 6 {
		case 1, 4:
			e.asModule("random-"+kind, kind, src, cfRandOpt(r))
			c.Count("class:a-as-module")
		case 2:
			e.evalSession("random-"+kind, []cfFrag{{prev, false}, {src, false}, {cfFollowUp, false}}, cfRandOpt(r))
			c.Count("class:a-eval-session")
		case 3:
			e.reuseSession("random-"+kind, []cfFrag{{prev, false}, {src, false}, {cfFollowUp, false}}, cfRandOpt(r))
			c.Count("class:a-reuse-session")
		}
		prev = src
	}
}

func cfRunPrograms(e *cfEnv) {
	c := e.c
	n := 2000 * c.Scale
	prev := "x := 1"
	for i := 0; i < n; i++ {
		if e.hangs > 0 {
			return
		}
		r := c.R.Fork()
		src := gen.Program(r, cfProgOpts(r))
		c.Count("class:c-generated")
		_, err, done := e.compileOpt("generated", "gen.Program", src, cfRandOpt(r))
		if done {
			c.Count("c-result:" + cfErrKind(err))
		}
		e.modelCase("c", src)
		if i%4 == 0 {
			e.asModule("generated", "gen.Program", src, cfRandOpt(r))
			// a session of programs that build on each other's scope (names made unique per fragment)
			nf := 2 + r.Intn(3)
			frags := []cfFrag{{src, true}}
			for k := 1; k < nf; k++ {
				po := cfProgOpts(r)
				po.Params = 0
				frags = append(frags, cfFrag{cfRename(gen.Program(r, po), k), true})
			}
			o := cfRandOpt(r)
			e.evalSession("generated", frags, o)
			e.reuseSession("generated", frags, o)
			c.Count("class:c-sessions")
		}
		for m := 0; m < 2; m++ {
			mut, kind := cfMutate(r, src, prev)
			if cfNestProxy(mut) > 3000 {
				// beyond the nesting caps of class d (compile time is quadratic in the depth)
				c.Count("b-skipped-too-deep")
				continue
			}
			c.Count("class:b-mutated")
			c.Count("b-mutation:" + kind)
			_, err, done := e.compileOpt("mutated", "mutation of gen.Program", mut, cfRandOpt(r))
			if done {
				c.Count("b-result:" + cfErrKind(err))
				if cfErrKind(err) != "parse-error" {
					e.modelCase("b", mut)
				}
			}
			switch (i + m) % 4 {
			case 0:
				e.asModule("mutated", "mutation of gen.Program", mut, cfRandOpt(r))
				c.Count("class:b-as-module")
			case 1:
				e.evalSession("mutated", []cfFrag{{src, false}, {mut, false}, {cfRename(src, 9), false}, {cfFollowUp, false}}, cfRandOpt(r))
				c.Count("class:b-eval-session")
			case 2:
				e.reuseSession("mutated", []cfFrag{{mut, false}, {src, false}, {cfRename(mut, 9), false}}, cfRandOpt(r))
				c.Count("class:b-reuse-session")
			}
		}
		prev = src
	}
}

func cfRunDeep(e *cfEnv) {
	c := e.c
	saved := e.timeout
	e.timeout = 120 * time.Second
	defer func() { e.timeout = saved }()
	for _, sh := range cfDeepShapes {
		if e.hangs > 0 {
			return
		}
		depths := []int{1, 2, 10, 63, 64, 65, 100, 255, 256, 257, 1000, sh.cap / 2, sh.cap, sh.opt}
		r := c.R.Fork()
		for k := 0; k < 2*c.Scale; k++ {
			depths = append(depths, 1+r.Intn(sh.cap))
		}
		seen := map[int]bool{}
		for _, n := range depths {
			if n < 1 || n > sh.cap || seen[n] {
				continue
			}
			seen[n] = true
			src := cfDeep(sh.kind, n)
			label := fmt.Sprintf("deep %s depth=%d", sh.kind, n)
			c.Count("class:d-deep")
			e.compileOpt("deep", label, src, cfOpt{NoOpt: true})
			if n <= sh.opt {
				e.compileOpt("deep", label, src, cfOpt{})
				e.compileOpt("deep", label, src, cfOpt{Limit: 1})
				if n == sh.opt {
					e.asModule("deep", label, src, cfOpt{})
					e.evalOnce("deep", label, src, cfOpt{}, cfOpt{}.build(e))
				}
			}
			if n <= 60 {
				for tr := 1; tr < 6; tr++ {
					e.compileOpt("deep", label, src, cfOpt{Trace: tr})
					e.compileOpt("deep", label, src, cfOpt{Trace: tr, NoOpt: true})
				}
			}
			if n <= 200 {
				e.modelCase("d", src)
			}
		}
	}
}

func cfRunSessions(e *cfEnv) {
	c := e.c
	n := 600 * c.Scale
	locals := func(p string, k int) string {
		return cfSeq(k, "\n", func(i int) string { return fmt.Sprintf("%s%d := 0", p, i) })
	}
	for i := 0; i < n; i++ {
		if e.hangs > 0 {
			return
		}
		r := c.R.Fork()
		nf := 2 + r.Intn(3)
		var frags []cfFrag
		for k := 0; k < nf; k++ {
			switch r.Intn(7) {
			case 0, 1:
				frags = append(frags, cfFrag{cfPool[r.Intn(len(cfPool))], true})
			case 2:
				po := cfProgOpts(r)
				po.Params = 0
				frags = append(frags, cfFrag{cfRename(gen.Program(r, po), k), true})
			case 3:
				m, _ := cfMutate(r, gen.Program(r, cfProgOpts(r)), cfPool[r.Intn(len(cfPool))])
				if cfNestProxy(m) > 3000 {
					m = "x := 1"
				}
				frags = append(frags, cfFrag{m, false})
			case 4:
				frags = append(frags, cfFrag{cfTokenSoup(r), false})
			case 5: // locals accumulate over the fragments up to and beyond the limit
				frags = append(frags, cfFrag{locals(fmt.Sprintf("s%d_", k), 100+r.Intn(60)), true})
			default:
				frags = append(frags, cfFrag{[]string{cfSetupOK, cfSetupFail, cfFollowUp}[r.Intn(3)], true})
			}
		}
		o := cfRandOpt(r)
		e.evalSession("session", frags, o)
		e.reuseSession("session", frags, o)
		c.Count("class:sessions")
	}
	// fragments at the limit: 256 locals reached exactly across two fragments, then one more
	for _, no := range []bool{true, false} {
		o := cfOpt{NoOpt: no}
		fr := []cfFrag{{locals("a", 200), true}, {locals("b", 56), true}, {"return a0 + b55", true}, {"c0 := 1", true}, {"return a0", true}}
		e.evalSession("session-limit", fr, o)
		e.reuseSession("session-limit", fr, o)
	}
}

// cfRunRegressions: the exact inputs of the defects found by this stream (repaired in the ugo
// worktree); the inputs that used to hang run last.
func cfRunRegressions(e *cfEnv) {
	c := e.c
	opts := []cfOpt{{}, {NoOpt: true}, {Limit: 1, Trace: 1}, {Mods: true, Sym: 3}}
	sessions := [][]cfFrag{
		// stale global index after a failed fragment (re-used table, Eval)
		{{`a := "s1"; b := "s2"; global g; return undefinedName`, true}, {`return g`, true}},
		{{`global g; return undefinedName`, true}, {`x := "zzz"; y := "g2"; return g`, true}},
		// SetParams failing half-way left numParams > defined symbols
		{{`param (a, a)`, true}, {`return a`, true}},
		{{`param (p, q, p)`, true}, {`x := 1; return x`, true}},
		// stale module store after a failed fragment (Eval)
		{{`"pad"; x := import("ok"); return undefinedName`, true}, {`return import("ok")`, true}},
		{{`"pad"; x := import("b1"); y := import("ok2"); return undefinedName`, true}, {`return [import("b1"), import("ok2"), import("ok")]`, true}},
		{{`f := func() { return import("deep0") }; return undefinedName`, true}, {`return import("deep3")`, true}, {`return import("deep0")`, true}},
	}
	for _, fr := range sessions {
		for _, o := range opts {
			o.Mods = true
			e.evalSession("regression", fr, o)
			e.reuseSession("regression", fr, o)
			c.Count("class:regression-sessions")
		}
	}
	for _, src := range []string{
		"for a, b, c in [1] {}", "f := func() { for a, b, c in [1] {} }",
		"len(1); len, x := [1, 2]; return len", "int(1); var (int, y = [1, 2])", "len(1); try { throw 1 } catch len { return len }",
		"global g; g, y := [1, 2]; return g", `"p0"; "p1"; "p2"; global g; g, y := [1, 2]`, "global _; _, x := [1, 2]",
		// parser loops (run last)
		"var ( }", "const ( }", "param ( }", "global ( }", "var (a\n}", "var (a = 1; b\n}", "f := func() { var ( } }", "var ( ]", "const ( ) }", "var (a = 1, }",
	} {
		for _, o := range opts {
			e.compileOpt("regression", "regression", src, o)
			e.asModule("regression", "regression", src, o)
			c.Count("class:regression")
		}
		e.modelCase("regression", src)
	}
}

const cfRuleText = "inputs: (a) arbitrary byte strings: random bytes, random printable ASCII, random sequences over a pool of ~200 uGO tokens / literal fragments / unterminated things / NUL / 0xFF / BOM / multi-byte UTF-8 / huge numbers, length 0..2000 and a few up to 64 KiB; " +
	"(b) 1-3 token-level mutations (delete, duplicate, swap, replace, unbalanced bracket, truncation, splice, raw bytes, odd literal, repetition, keyword swap; token boundaries from the real scanner) of gen.Program scripts; " +
	"(c) gen.Program scripts under varied generator options and a hand-written pool of 460 scripts covering every statement / expression form, valid and invalid (const/iota, destructuring, param/global in wrong scopes, try/catch/finally exits, for-in, closures, imports of good / broken / cyclic / missing / limit-overflowing / non-source modules, selector and index chains, compound assignment, literal conditions, zero divisors, shadowed builtins); " +
	"(d) 31 nesting shapes at depths up to 10000 (parentheses, right-nested binary, try, ternary, selector, index, call, slice chains), 3000 (unary chains, arrays, maps, if / for / else-if, left-nested binary and logical chains, const chains, call arguments: compile time is quadratic in the depth) and 1000 / 500 with the optimizer (function literals); tracing only to depth 60. 200000 nested parentheses still compile, 1000000 overflow Go's 1 GB stack: a fatal stack overflow cannot be recovered and is outside the property, so the caps stay 20x below the last depth known to work. " +
	"Every input goes through ugo.Compile (random option combination per random input; the full cross product NoOptimize x OptimizerLimit{0,1,2} x trace{off, all+writer, all+nil writer, parser, compiler, optimizer} x ModuleMap{nil, 40 modules incl. an ExtImporter} x SymbolTable{nil, fresh, DisableBuiltin, predefined globals, predefined params} on the pool), as the source module of `import(\"m\")`, through Eval sessions of 2-5 fragments (after a successful and after a failed fragment; random / mutated fragments are compiled by Eval.Run under a cancelled context, runnable ones get a 50 ms deadline) and through ugo.Compile with a re-used SymbolTable + Constants; each call under recover with a watchdog (60 s, 120-180 s for the deep / boundary scripts): panic => C05:compile-panic:<class of the top ugo frame>, no return => C05:compile-hang. " +
	"Boundary scripts generated mechanically at and one beyond each operand width (locals at top level / in a function / var group / params / variadic / nested and sibling blocks / hidden for-in, destructuring and catch locals: 256; call, method-call and spread arguments: 255; array and return-list elements: 65535; map elements: 32767; constants: 65536; free variables: 255, also through two levels; index chains: 255, assignment chains: 256, right-hand selector chains: unlimited; break / continue under try depth: 255, return: unlimited; builtin module imports: 65536; a forward jump over 70 KB of instructions) with NoOptimize on and off, via Compile, Eval.Run and as a source module: at the limit Bytecode, beyond it an error (C05:limit:<what>). A jump distance of 2^31 cannot be reached (it needs a 2 GiB instruction stream). " +
	"Every Bytecode returned anywhere in the stream is scanned (main and every CompiledFunction constant): known opcodes, no truncated instruction, agreement with IterateInstructions, jump / try targets on instruction boundaries strictly inside the function, constant / closure / module / global (String constant) / local (< NumLocals <= 256, NumParams <= NumLocals) / builtin indices in range, free-variable indices below the free count of the CLOSURE sites that create the function (functions with no creating site in the scanned Bytecode, e.g. those of earlier fragments, are not checked), CALL flags and RETURN / THROW operands in {0,1}, even MAP operand, last instruction RETURN, source-map keys on boundaries (C05:malformed-bytecode:<what>). " +
	"Scripts that parse (classes b, c, d to depth 200, the pool and the small boundary scripts) are also sent to the Lean compiler model as `compile` requests (NoOptimize, no modules); distinct = distinct instruction-stream hash or error position. " +
	"The exact inputs of the defects this stream found (for-in with three variables, define of a cached builtin / global name, stale global and module indices after a failed fragment, the declaration-group parser loop) run as a last regression class. A case that does not return cannot be killed: the stream stops at the first hang (time limit, or 3 GB of heap growth during one case) and reports what it has. " +
	"Not covered: stack depth / operand-stack balance of the emitted code, FINALIZER operands, semantic correctness of the code, ExtImporter implementations that misbehave, concurrent use, Go stack exhaustion beyond the caps."

func init() {
	register(&Stream{
		Name: "compilefuzz",
		Skip: func(m string) bool { return strings.HasPrefix(m, "unsupported") },
		Same: compileSame,
		Run: func(c *Ctx) {
			c.Rule(cfRuleText)
			e := &cfEnv{c: c, sink: &cfSink{}, mods: cfBaseModules(), timeout: 60 * time.Second, hungCfg: map[string]bool{}, modelCap: 60 << 20}
			if c.Scale > 1 {
				e.modelCap = 200 << 20
			}
			for _, ph := range []struct {
				name string
				run  func(*cfEnv)
			}{{"pool", cfRunPool}, {"boundaries", cfRunBoundaries}, {"deep", cfRunDeep}, {"programs", cfRunPrograms}, {"random", cfRunRandom}, {"sessions", cfRunSessions}, {"scan-errors", cfRunScanErrors}, {"regressions", cfRunRegressions}} {
				t0 := time.Now()
				if e.hangs > 0 {
					break
				}
				ph.run(e)
				if os.Getenv("CF_TIMING") != "" {
					fmt.Fprintf(os.Stderr, "compilefuzz phase %s: %.1fs\n", ph.name, time.Since(t0).Seconds())
				}
			}
			c.dist["trace-bytes-written>0"] = b2i(e.sink.n.Load() > 0)
			if e.hangs > 0 {
				c.Count("aborted-after-hang")
			}
		},
		Replay: func(line string) (string, error) {
			i := strings.LastIndex(line, "\t#")
			if !strings.HasPrefix(line, "compile\t") || i < 0 {
				return "", fmt.Errorf("compilefuzz: not a compile request line")
			}
			src, err := hex.DecodeString(line[i+2:])
			if err != nil {
				return "", err
			}
			return compileImpl(string(src)), nil
		},
	})
}

// cfRunScanErrors: scanner-level errors (illegal bytes: NUL, invalid UTF-8, a BOM that is not at the
// start, characters that are no token) on N different lines, in the comments BEFORE the first token
// (the first token is scanned when the parser is constructed), in comments after the first statement,
// inside string literals and as tokens; N around the parser's error limit.  Compile, import as a
// module and Eval must each answer with an error or Bytecode.
func cfRunScanErrors(e *cfEnv) {
	bad := []string{"\x00", "\xff", "\xc0\xaf", "\xef\xbb\xbf", "\u2028", "`", "$", "#", "\\"}
	opts := []cfOpt{{}, {NoOpt: true}, {Limit: 1, Trace: 1, Mods: true}}
	for _, n := range []int{1, 5, 9, 10, 11, 12, 13, 20, 50} {
		for bi, b := range bad {
			lines := func(pre, post string) string {
				var sb strings.Builder
				for i := 0; i < n; i++ {
					sb.WriteString(pre + b + post + "\n")
				}
				return sb.String()
			}
			srcs := []string{
				lines("// c ", " c") + "return 1\n",
				"/*\n" + lines(" * ", "") + "*/\nreturn 1\n",
				lines("/* ", " */") + "x := 1\nreturn x\n",
				"x := 1\n" + lines("// c ", "") + "return x\n",
				"x := 1\n" + lines("x = ", "") + "return x\n",
				lines("", "") + "return 1\n",
				"x := \"\"\n" + lines("x += \"", "\"") + "return x\n",
				lines("// ", "") + lines("", " := 1"),
			}
			for si, src := range srcs {
				if e.hangs > 0 {
					return
				}
				label := fmt.Sprintf("scanerr[n=%d,bad=%d,form=%d]", n, bi, si)
				for _, o := range opts {
					e.compileOpt("scan-errors", label, src, o)
				}
				e.asModule("scan-errors", label, src, cfOpt{Mods: true})
				e.evalSession("scan-errors", []cfFrag{{cfSetupOK, true}, {src, true}, {cfFollowUp, true}}, cfOpt{Mods: true})
				e.c.Count("class:scan-errors")
			}
		}
	}
}
