package main

import (
	"fmt"
	"strings"

	"github.com/ozanh/ugo"

	"verifharness/codec"
)

// stream `optshadow` (C01): every binding form that can shadow a builtin name x every
// foldable builtin x constant / non-constant operands x optimizer budgets: the
// optimized and the unoptimized program must run to the same outcome.  Oracle on the
// implementation only (the generated programs use builtins the Lean models do not cover).

var foldableBuiltins = []string{"int", "uint", "float", "char", "string", "bool", "len", "typeName", "bytes",
	"chars", "contains", "error", "sprintf", "isInt", "isString", "isError", "isArray", "isUndefined"}

// shadowForms returns scripts in which NAME is bound to a user function `f` (passed as
// argument 0 / global) by each binding form, and then called like the builtin.
func shadowForms(name, call string) []string {
	cl := strings.ReplaceAll(call, "NAME", name)
	use := "return " + cl
	return []string{
		"param f; " + name + " := f; " + use,
		"param f; var " + name + " = f; " + use,
		"param f; var (" + name + " = f; z = 1); " + use,
		"param " + name + "; " + use,
		"param (a, ..." + name + "); " + name + " = a; " + use,
		"global " + name + "; " + use,
		"param f; return func(" + name + ") { " + use + " }(f)",
		"param f; return func(..." + name + ") { " + name + " = " + name + "[0]; " + use + " }(f)",
		"param f; for _, " + name + " in [f] { " + use + " }",
		"param f; for " + name + ", _ in [f] { " + use + " }",
		"param f; try { throw f } catch " + name + " { " + use + " }",
		"param f; " + name + ", z := [f, 1]; " + use,
		"param f; z, " + name + " := [1, f]; " + use,
		"param f; " + name + " := f; return func() { " + use + " }()",
		"param f; " + name + " := f; g := func() { return func() { " + use + " } }; return g()()",
		"param f; if " + name + " := f; true { " + use + " }",
		"param f; for " + name + " := f; true; { " + use + " }",
		"param f; const " + name + " = 5; return typeName(" + name + ")",
		"param f; x := 1; { " + name + " := f; x = 2 }; " + use, // block-scoped: after the block NAME is the builtin again
		"param f; if true { " + name + " := f }; " + use,
		"param f; g := func(" + name + ") { return 1 }; " + use,
		// a literal const in scope makes the compiler re-run the optimizer on each binary/unary
		// expression with the live symbol table (string + anything is always defined)
		"param f; const c = \"k\"; " + name + " := f; return c + " + cl,
		"param f; const c = \"k\"; " + name + " := f; g := func() { return c + " + cl + " }; return g()",
		"param f; const c = \"k\"; a := c + " + cl + "; if a { " + name + " := f; return c + " + cl + " }",
		"param f; const c = \"k\"; a := c + " + cl + "; for i := 0; i < 1; i++ { " + name + " := f; return c + " + cl + " }",
		"param f; const c = \"k\"; a := c + " + cl + "; try { " + name + " := f; return c + " + cl + " } finally { }",
		"param f; const c = \"k\"; g := func(" + name + ") { return func() { return c + " + cl + " } }; return g(f)()",
		"param f; const c = \"k\"; " + name + " := f; g := func() { y := 1; return func() { return c + " + cl + " } }; return g()()",
		"param f; const c = \"k\"; " + name + " := f; g := func() { y := " + cl + "; return func() { return c + " + cl + " } }; return g()()",
		"param f; const c = \"k\"; g := func() { return c + " + cl + " }; " + name + " := f; return [g(), c + " + cl + "]",
		// the try, catch and finally blocks of one try statement share ONE scope: a name bound in the
		// try block is still bound in its catch and finally blocks (and unbound again after the statement)
		"param f; try { " + name + " := f; throw 1 } catch { " + use + " }",
		"param f; try { " + name + " := f } finally { " + use + " }",
		"param f; try { " + name + " := f; throw 1 } catch e { x := " + cl + "; return x } finally { y := " + cl + " }",
		"param f; try { throw f } catch " + name + " { } finally { " + use + " }",
		"param f; try { try { " + name + " := f; throw 1 } finally { z := " + cl + " } } catch { " + use + " }",
		"param f; r := 0; try { " + name + " := f; r = " + cl + " } catch { }; return [r, " + cl + "]",
		"param f; try { var " + name + " = f; throw 1 } catch { if true { " + use + " } }",
		"param f; try { " + name + " := f; throw 1 } catch { return func() { " + use + " }() }",
	}
}

func init() {
	register(&Stream{
		Name: "optshadow",
		Run: func(c *Ctx) {
			c.Rule("constant conditions (37 values incl. NaN, -0.0, empty containers, folded builtin calls) x 10 control forms (if/else-if with init statement, ?:, &&, ||, for) x budgets; binding forms (38, incl. const-in-scope and fold-then-shadow sequences, names bound in a try block and used in its catch/finally blocks) x foldable builtins (18) x call shapes (constant and non-constant operands) x optimizer budgets {default,1,2,5}: optimized vs unoptimized outcome on the implementation; every case is non-trivial; distinct = (form, builtin, call shape)")
			f := &ugo.Function{Name: "f", Value: func(args ...ugo.Object) (ugo.Object, error) {
				return ugo.String(fmt.Sprintf("F%d", len(args))), nil
			}}
			optConst(c)
			optLiterals(c)
			calls := []string{`NAME("7")`, `NAME(1)`, `NAME([1,2])`, `NAME("a", 1)`, `NAME(1 + 2)`, `[NAME(3), 1 + 1]`, `NAME(NAME(1))`}
			n := 0
			for _, b := range foldableBuiltins {
				for ci, call := range calls {
					for fi, src := range shadowForms(b, call) {
						n++
						bc0, err0 := ugo.Compile([]byte(src), ugo.CompilerOptions{NoOptimize: true})
						var out0 string
						if err0 != nil {
							// the property quantifies over scripts that compile both ways
							c.Count("noopt:compile-error")
							continue
						}
						out0 = runPlain(bc0, ugo.Map{b: f}, []ugo.Object{f})
						c.Count("noopt:" + strings.SplitN(strings.TrimPrefix(out0, "out="), " ", 2)[0])
						for _, lim := range []int{0, 1, 2, 5} {
							bc1, err1 := ugo.Compile([]byte(src), ugo.CompilerOptions{OptimizerLimit: lim})
							var out1 string
							if err1 != nil {
								if err0 != nil {
									continue
								}
								if strings.Contains(err1.Error(), "Optimizer Error") {
									c.Count("opt-refused")
									continue
								}
								out1 = "compile-error: " + semFirstLine(err1.Error())
							} else {
								out1 = runPlain(bc1, ugo.Map{b: f}, []ugo.Object{f})
							}
							if out1 != out0 {
								c.Violation(PropViolation{"C01", fmt.Sprintf("optimizer (limit %d) changes the outcome: %s  vs unoptimized  %s", lim, out1, out0), src,
									fmt.Sprintf("C01:opt-differs:shadow:form%d:%s:call%d", fi, b, ci)})
							}
						}
					}
				}
			}
			c.Count("programs")
			c.dist["programs"] = n
			// a token case so that the stream has a model line (the driver echoes `noop`)
			c.Add(Case{Line: "noop\t" + codec.Hex([]byte("optshadow")), Impl: "ok", Key: "noop"})
		},
	})
}
