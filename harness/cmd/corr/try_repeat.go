package main

import (
	"fmt"

	"github.com/ozanh/ugo"
)

// C03 over HISTORIES inside one activation: "try statements that already completed have no influence
// on later ones" — also not through what they leave on the value stack.  Every exit kind of a try
// statement (pending return with and without a value, break, continue, thrown error; overridden by a
// jump, a return or a throw of the finally block, or not overridden) is repeated 3000 times in ONE
// function activation (the value stack has 2048 slots): the counter of executed finally blocks must
// come out as 3000.  Oracle only; the expected value is the same for every program by construction.

type tryRepeatProg struct{ name, src string }

func tryRepeatProgs() []tryRepeatProg {
	loop := func(body string) string {
		return "f := func() {\n\tn := 0\n\tfor i := 0; i < 3000; i++ {\n\t\t" + body + "\n\t}\n\treturn n\n}\nreturn f()\n"
	}
	return []tryRepeatProg{
		{"ret-val-continue", loop(`try { return "early" } finally { n++; continue }`)},
		{"ret-val-break-inner", loop(`for j := 0; j < 1; j++ { try { return "early" } finally { n++; break } }`)},
		{"ret-val-in-catch", loop(`try { throw 1 } catch e { return "c" } finally { n++; continue }`)},
		{"ret-val-nested", loop(`try { try { return "early" } finally { n++ } } finally { continue }`)},
		{"ret-val-throw-in-finally", loop(`try { try { return "early" } finally { throw "x" } } catch e { n++ }`)},
		{"ret-expr-continue", loop(`try { return [i, n] } finally { n++; continue }`)},
		{"ret-bare-continue", loop(`try { return } finally { n++; continue }`)},
		{"throw-continue", loop(`try { throw "x" } finally { n++; continue }`)},
		{"throw-caught", loop(`try { throw "x" } catch e { n++ } finally { n += 0 }`)},
		{"continue-in-try", loop(`try { n++; continue } finally { n += 0 }`)},
		{"break-inner-in-try", loop(`for j := 0; j < 2; j++ { try { n++; break } finally { n += 0 } }`)},
		{"ret-val-return-in-finally", "g := func(i) { try { return \"a\" } finally { return i } }\nn := 0\nfor i := 0; i < 3000; i++ { n += g(1) }\nreturn n\n"},
		{"main-ret-val-continue", "n := 0\nfor i := 0; i < 3000; i++ {\n\ttry { return \"early\" } finally { n++; continue }\n}\nreturn n\n"},
		{"callee-completes", loop(`x := [1, 2, func() { try { return 1 } finally { n++ } }()]`)},
		{"normal-completion", loop(`try { n += 0 } catch e { n = -1 } finally { n++ }`)},
		{"funclit-in-try-break", "f := func() {\n\tn := 0\n\ttry {\n\t\tg := func() { for i := 0; i < 3000; i++ { try { if i % 2 == 0 { continue }; if i == 2999 { break } } finally { n++ } } }\n\t\tg()\n\t} finally { n += 0 }\n\treturn n\n}\nreturn f()\n"},
		{"funclit-in-nested-try-return", "f := func() {\n\tn := 0\n\ttry { try {\n\t\tg := func(i) { try { if i % 3 == 0 { return 1 }; return 2 } finally { n++ } }\n\t\tfor i := 0; i < 3000; i++ { g(i) }\n\t} finally { n += 0 } } catch e { n = -1 }\n\treturn n\n}\nreturn f()\n"},
		{"funclit-in-catch-and-finally", "f := func() {\n\tn := 0\n\ttry { throw 1 } catch e {\n\t\tg := func() { for i := 0; i < 1500; i++ { try { continue } finally { n++ } } }\n\t\tg()\n\t} finally {\n\t\th := func() { for i := 0; i < 1500; i++ { try { if i == 1499 { break } } finally { n++ } } }\n\t\th()\n\t}\n\treturn n\n}\nreturn f()\n"},
		{"runtime-error-continue", loop(`try { n = n / (i - i) } finally { n++; continue }`)},
	}
}

func tryRepeatOracle(c *Ctx) {
	for _, p := range tryRepeatProgs() {
		for _, noOpt := range []bool{true, false} {
			c.dist["oracle:try-repeat"]++
			bc, err := ugo.Compile([]byte(p.src), ugo.CompilerOptions{NoOptimize: noOpt})
			if err != nil {
				c.Violation(PropViolation{"C03", "try-repeat program does not compile: " + err.Error(), p.src, "C03:repeat-compile:" + p.name})
				continue
			}
			var got string
			func() {
				defer func() {
					if r := recover(); r != nil {
						got = fmt.Sprintf("escaped panic: %v", r)
					}
				}()
				ret, err := ugo.NewVM(bc).SetRecover(true).Run(nil)
				if err != nil {
					got = "error: " + semFirstLine(err.Error())
					return
				}
				got = ret.String()
			}()
			if got != "3000" {
				c.Violation(PropViolation{"C03", fmt.Sprintf("3000 executions of the try statement `%s` in one activation give %s, want 3000 (every single execution is correct: earlier, completed try statements influence later ones)", p.name, got),
					p.src, "C03:repeat:" + p.name})
			}
		}
	}
}
