package main

import (
	"github.com/ozanh/ugo"
	"github.com/ozanh/ugo/token"

	"verifharness/codec"
)

// docs/operators.md "Binary Arithmetic Operators", written down independently of numeric.go /
// objects.go with Go's own operators: C15 "return the result of the corresponding Go operation
// after the documented operand conversion".  The same rules are Spec/OperatorsDoc.lean
// (theorem `arith_matches_doc`); field `doc=` of the `ops` lines compares the two statements.
//
//	bool: untyped 1 or 0 (takes the kind of the other operand; two bools are ints)
//	char with float: TypeError
//	either char -> both rune;  + and - with int/uint, every operator when both are char
//	either float -> both float64 (+ - * / only)
//	either uint -> both uint64
//	otherwise int64
//	x / 0, x % 0: ZeroDivisionError;  negative shift count: TypeError

type docKind int

const (
	dkBool docKind = iota
	dkInt
	dkUint
	dkFloat
	dkChar
	dkOther
)

func docKindOf(o ugo.Object) docKind {
	switch o.(type) {
	case ugo.Bool:
		return dkBool
	case ugo.Int:
		return dkInt
	case ugo.Uint:
		return dkUint
	case ugo.Float:
		return dkFloat
	case ugo.Char:
		return dkChar
	}
	return dkOther
}

func docI64(o ugo.Object) int64 {
	switch v := o.(type) {
	case ugo.Bool:
		if v {
			return 1
		}
		return 0
	case ugo.Int:
		return int64(v)
	case ugo.Uint:
		return int64(v)
	case ugo.Char:
		return int64(v)
	}
	return 0
}

func docF64(o ugo.Object) float64 {
	switch v := o.(type) {
	case ugo.Bool:
		if v {
			return 1
		}
		return 0
	case ugo.Int:
		return float64(v)
	case ugo.Uint:
		return float64(v)
	case ugo.Float:
		return float64(v)
	}
	return 0
}

func docRune(o ugo.Object) rune {
	switch v := o.(type) {
	case ugo.Bool:
		if v {
			return 1
		}
		return 0
	case ugo.Int:
		return rune(v)
	case ugo.Uint:
		return rune(v)
	case ugo.Char:
		return rune(v)
	}
	return 0
}

const (
	docTypeError = "err TypeError"
	docZeroDiv   = "err ZeroDivisionError"
)

// docArith returns "", false outside the documented table (non-numeric operand, relational operator)
func docArith(a ugo.Object, tok token.Token, b ugo.Object) (string, bool) {
	ka, kb := docKindOf(a), docKindOf(b)
	if ka == dkOther || kb == dkOther {
		return "", false
	}
	switch tok {
	case token.Add, token.Sub, token.Mul, token.Quo, token.Rem, token.And, token.Or, token.Xor,
		token.Shl, token.Shr, token.AndNot:
	default:
		return "", false
	}
	has := func(k docKind) bool { return ka == k || kb == k }
	ok := func(o ugo.Object) (string, bool) { return "ok " + codec.Encode(o, nil), true }
	switch {
	case has(dkChar) && has(dkFloat):
		return docTypeError, true
	case has(dkChar):
		x, y := docRune(a), docRune(b)
		bothChar := (ka == dkChar || ka == dkBool) && (kb == dkChar || kb == dkBool)
		if !bothChar && tok != token.Add && tok != token.Sub {
			return docTypeError, true
		}
		switch tok {
		case token.Add:
			return ok(ugo.Char(x + y))
		case token.Sub:
			return ok(ugo.Char(x - y))
		case token.Mul:
			return ok(ugo.Char(x * y))
		case token.Quo:
			if y == 0 {
				return docZeroDiv, true
			}
			return ok(ugo.Char(x / y))
		case token.Rem:
			if y == 0 {
				return docZeroDiv, true
			}
			return ok(ugo.Char(x % y))
		case token.And:
			return ok(ugo.Char(x & y))
		case token.Or:
			return ok(ugo.Char(x | y))
		case token.Xor:
			return ok(ugo.Char(x ^ y))
		case token.AndNot:
			return ok(ugo.Char(x &^ y))
		case token.Shl:
			if y < 0 {
				return docTypeError, true
			}
			return ok(ugo.Char(x << y))
		case token.Shr:
			if y < 0 {
				return docTypeError, true
			}
			return ok(ugo.Char(x >> y))
		}
	case has(dkFloat):
		x, y := docF64(a), docF64(b)
		switch tok {
		case token.Add:
			return ok(ugo.Float(x + y))
		case token.Sub:
			return ok(ugo.Float(x - y))
		case token.Mul:
			return ok(ugo.Float(x * y))
		case token.Quo:
			if y == 0 {
				return docZeroDiv, true
			}
			return ok(ugo.Float(x / y))
		}
		return docTypeError, true
	case has(dkUint):
		x, y := uint64(docI64(a)), uint64(docI64(b))
		switch tok {
		case token.Add:
			return ok(ugo.Uint(x + y))
		case token.Sub:
			return ok(ugo.Uint(x - y))
		case token.Mul:
			return ok(ugo.Uint(x * y))
		case token.Quo:
			if y == 0 {
				return docZeroDiv, true
			}
			return ok(ugo.Uint(x / y))
		case token.Rem:
			if y == 0 {
				return docZeroDiv, true
			}
			return ok(ugo.Uint(x % y))
		case token.And:
			return ok(ugo.Uint(x & y))
		case token.Or:
			return ok(ugo.Uint(x | y))
		case token.Xor:
			return ok(ugo.Uint(x ^ y))
		case token.AndNot:
			return ok(ugo.Uint(x &^ y))
		case token.Shl:
			return ok(ugo.Uint(x << y))
		case token.Shr:
			return ok(ugo.Uint(x >> y))
		}
	default:
		x, y := docI64(a), docI64(b)
		switch tok {
		case token.Add:
			return ok(ugo.Int(x + y))
		case token.Sub:
			return ok(ugo.Int(x - y))
		case token.Mul:
			return ok(ugo.Int(x * y))
		case token.Quo:
			if y == 0 {
				return docZeroDiv, true
			}
			return ok(ugo.Int(x / y))
		case token.Rem:
			if y == 0 {
				return docZeroDiv, true
			}
			return ok(ugo.Int(x % y))
		case token.And:
			return ok(ugo.Int(x & y))
		case token.Or:
			return ok(ugo.Int(x | y))
		case token.Xor:
			return ok(ugo.Int(x ^ y))
		case token.AndNot:
			return ok(ugo.Int(x &^ y))
		case token.Shl:
			if y < 0 {
				return docTypeError, true
			}
			return ok(ugo.Int(x << y))
		case token.Shr:
			if y < 0 {
				return docTypeError, true
			}
			return ok(ugo.Int(x >> y))
		}
	}
	return "", false
}

// docClass reduces an implementation result to what the document fixes: the value, or the error class
func docClass(res string) string {
	switch {
	case len(res) >= len(docTypeError) && res[:len(docTypeError)] == docTypeError:
		return docTypeError
	case len(res) >= len(docZeroDiv) && res[:len(docZeroDiv)] == docZeroDiv:
		return docZeroDiv
	}
	return res
}

// docUnary: docs/operators.md "Unary Operators" for + - ^ (`!` applies to all types):
// positive `0 + x`, negation `0 - x`, complement `m ^ x` with m all ones / -1; bool is int 1 or 0;
// the implementation widens a char operand of - and ^ to int (the document leaves the result type open).
func docUnary(tok token.Token, v ugo.Object) (string, bool) {
	ok := func(o ugo.Object) (string, bool) { return "ok " + codec.Encode(o, nil), true }
	switch tok {
	case token.Add, token.Sub, token.Xor:
	default:
		return "", false
	}
	switch x := v.(type) {
	case ugo.Int:
		switch tok {
		case token.Add:
			return ok(0 + x)
		case token.Sub:
			return ok(0 - x)
		default:
			return ok(ugo.Int(-1) ^ x)
		}
	case ugo.Uint:
		switch tok {
		case token.Add:
			return ok(0 + x)
		case token.Sub:
			return ok(0 - x)
		default:
			return ok(^ugo.Uint(0) ^ x)
		}
	case ugo.Float:
		switch tok {
		case token.Add:
			return ok(x)
		case token.Sub:
			return ok(-x)
		default:
			return docTypeError, true
		}
	case ugo.Char:
		switch tok {
		case token.Add:
			return ok(x)
		case token.Sub:
			return ok(ugo.Int(0 - x))
		default:
			return ok(ugo.Int(-1) ^ ugo.Int(x))
		}
	case ugo.Bool:
		i := ugo.Int(0)
		if x {
			i = 1
		}
		switch tok {
		case token.Add:
			return ok(0 + i)
		case token.Sub:
			return ok(0 - i)
		default:
			return ok(ugo.Int(-1) ^ i)
		}
	}
	return docTypeError, true
}
