package main

import (
	"fmt"
	"os"
	"os/exec"
	"strings"
	"time"

	"github.com/ozanh/ugo"
	ugofmt "github.com/ozanh/ugo/stdlib/fmt"
	ugojson "github.com/ozanh/ugo/stdlib/json"
	ugostrings "github.com/ozanh/ugo/stdlib/strings"
)

// Cyclic arguments (C19): an array or map that contains itself is a value of a built-in type
// that every script can build (`a := [0]; a[0] = a`).  A builtin given such an argument must
// return a value or an error; unbounded recursion in Go code ends in `fatal error: stack
// overflow`, which kills the host process and cannot be recovered.  Each call runs in a child
// process (this binary with CORR_CYCLIC=<script>).

var cyclicCalls = []struct{ name, call string }{
	{"string", "string(x)"},
	{"sprintf", "sprintf(\"%v\", x)"},
	{"copy", "copy(x)"},
	{"len", "len(x)"},
	{"typeName", "typeName(x)"},
	{"bool", "bool(x)"},
	{"isArray", "isArray(x)"},
	{"contains", "contains([x], x)"},
	{"append", "len(append(x, x))"},
	{"fmt.Sprint", "import(\"fmt\").Sprint(x)"},
	{"json.Marshal", "import(\"json\").Marshal(x)"},
	{"strings.Join", "import(\"strings\").Join([x], \",\")"},
}

var cyclicShapes = []struct{ name, setup string }{
	{"array", "x := [0]; x[0] = x"},
	{"map", "x := {}; x.a = x"},
	{"array-in-map", "x := [0]; x[0] = {k: x}"},
}

func init() {
	src := os.Getenv("CORR_CYCLIC")
	if src == "" {
		return
	}
	mm := ugo.NewModuleMap()
	mm.AddBuiltinModule("fmt", ugofmt.Module).AddBuiltinModule("json", ugojson.Module).AddBuiltinModule("strings", ugostrings.Module)
	bc, err := ugo.Compile([]byte(src), ugo.CompilerOptions{ModuleMap: mm})
	if err != nil {
		fmt.Println("CYCLIC-COMPILE-ERROR", err)
		os.Exit(0)
	}
	_, err = ugo.NewVM(bc).SetRecover(true).Run(nil)
	fmt.Println("CYCLIC-RETURNED", err != nil)
	os.Exit(0)
}

func cyclicOracle(c *Ctx) {
	exe, err := os.Executable()
	if err != nil {
		return
	}
	for _, sh := range cyclicShapes {
		for _, cl := range cyclicCalls {
			src := sh.setup + "; return " + cl.call
			cmd := exec.Command(exe)
			cmd.Env = append(os.Environ(), "CORR_CYCLIC="+src, "GOMEMLIMIT=2GiB")
			done := make(chan struct{})
			var out []byte
			go func() { out, _ = cmd.CombinedOutput(); close(done) }()
			select {
			case <-done:
			case <-time.After(60 * time.Second):
				if cmd.Process != nil {
					cmd.Process.Kill()
				}
				<-done
				out = append(out, []byte("\nCYCLIC-TIMEOUT")...)
			}
			s := string(out)
			c.dist["oracle:cyclic-calls"]++
			switch {
			case strings.Contains(s, "CYCLIC-RETURNED"), strings.Contains(s, "CYCLIC-COMPILE-ERROR"):
				c.dist["oracle:cyclic-returned"]++
			default:
				what := "host process dies"
				if strings.Contains(s, "fatal error: stack overflow") {
					what = "fatal error: stack overflow (unrecoverable, kills the host)"
				} else if strings.Contains(s, "CYCLIC-TIMEOUT") {
					what = "does not return"
				}
				c.Violation(PropViolation{"C19", cl.call + " on a value that contains itself (" + sh.name + "): " + what, src,
					"C19:cyclic-arg:" + cl.name + ":" + sh.name})
			}
		}
	}
}
