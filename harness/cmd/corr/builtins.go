package main

// stream `builtins` (C19): builtin and standard-library functions are total.
//
//  (b) property oracle on the implementation — EVERY exported callable
//      (ugo.BuiltinObjects, the fmt/json/strings/time module maps, the CallName
//      methods of time values, the `New` callable of error objects) x argument
//      tuples of length 0..4 from gen.ArgPool (exhaustive to length 2, core pool
//      exhaustive for 3, sampled for 3 and 4), called
//        - directly:  Object.Call (Value, nil VM), CallEx/CallName with a Call that
//          splits the arguments between args and vargs at every position,
//        - from scripts on a VM without recovery (positional, spread and mixed call
//          forms).
//      All calls run in worker child processes (this same binary, selected by the
//      environment variable CORR_BI_WORKER) under RLIMIT_AS with a per-call
//      watchdog, so that a runaway allocation or loop kills only the worker; the
//      parent learns the fatal call from a shared progress file and restarts the
//      worker behind it.
//  (a) correspondence of the hand models (lean/UgoVerif/Model/Builtins.lean) with
//      the implementation: see builtins_corr.go.

import (
	"bufio"
	"encoding/binary"
	"encoding/json"
	"fmt"
	"go/ast"
	"go/parser"
	"go/token"
	"io"
	"math"
	"os"
	"os/exec"
	"path/filepath"
	"runtime"
	"sort"
	"strconv"
	"strings"
	"sync"
	"sync/atomic"
	"syscall"
	"time"

	"github.com/ozanh/ugo"
	ugofmt "github.com/ozanh/ugo/stdlib/fmt"
	ugojson "github.com/ozanh/ugo/stdlib/json"
	ugostrings "github.com/ozanh/ugo/stdlib/strings"
	ugotime "github.com/ozanh/ugo/stdlib/time"

	"verifharness/codec"
	"verifharness/gen"
)

// ---------------------------------------------------------------- callables

type biCallable struct {
	Name   string     // repeat, strings.Repeat, time.Time#0.Add, TypeError.New
	Kind   string     // builtin | module | method | errnew
	Obj    ugo.Object // the function object (nil for methods)
	Recv   ugo.Object // receiver of a method
	Method string
	Expr   string // how a script reaches it ("" = not reachable by name)
	Module string // module to import in the script
	Base   string // name without receiver index (signature)
}

// fallback when the source of stdlib/time/time.go cannot be read
var timeMethodsFallback = []string{"Add", "Sub", "AddDate", "After", "Before", "Format", "AppendFormat", "In", "Round",
	"Truncate", "Equal", "Date", "Clock", "UTC", "Unix", "UnixNano", "Year", "Month", "Day", "Hour", "Minute", "Second",
	"Nanosecond", "IsZero", "Local", "Location", "YearDay", "Weekday", "ISOWeek", "Zone"}

func repoDir() string {
	if p := os.Getenv("UGO_REPO"); p != "" {
		return p
	}
	return "/repo"
}

// timeMethodNames reads the keys of `methodTable` from the working tree, so that a
// method added to the table is exercised without touching the harness.
func timeMethodNames() []string {
	set := map[string]bool{}
	for _, m := range timeMethodsFallback {
		set[m] = true
	}
	fset := token.NewFileSet()
	f, err := parser.ParseFile(fset, filepath.Join(repoDir(), "stdlib", "time", "time.go"), nil, 0)
	if err == nil {
		ast.Inspect(f, func(n ast.Node) bool {
			vs, ok := n.(*ast.ValueSpec)
			if !ok || len(vs.Names) != 1 || vs.Names[0].Name != "methodTable" || len(vs.Values) != 1 {
				return true
			}
			if cl, ok := vs.Values[0].(*ast.CompositeLit); ok {
				for _, e := range cl.Elts {
					if kv, ok := e.(*ast.KeyValueExpr); ok {
						if bl, ok := kv.Key.(*ast.BasicLit); ok {
							if s, err := strconv.Unquote(bl.Value); err == nil {
								set[s] = true
							}
						}
					}
				}
			}
			return false
		})
	}
	// a name that is not in the table: CallName must answer with an error
	set["NoSuchMethod"] = true
	var out []string
	for m := range set {
		out = append(out, m)
	}
	sort.Strings(out)
	return out
}

var biModules = []struct {
	name string
	m    map[string]ugo.Object
}{{"fmt", ugofmt.Module}, {"json", ugojson.Module}, {"strings", ugostrings.Module}, {"time", ugotime.Module}}

func biCallables() []*biCallable {
	var cs []*biCallable
	for i, o := range ugo.BuiltinObjects {
		if o == nil {
			continue
		}
		var name string
		for n, t := range ugo.BuiltinsMap {
			if int(t) == i {
				name = n
			}
		}
		switch v := o.(type) {
		case *ugo.BuiltinFunction:
			expr := v.Name
			if strings.HasPrefix(expr, ":") {
				expr = ""
			}
			cs = append(cs, &biCallable{Name: v.Name, Kind: "builtin", Obj: o, Expr: expr})
		case *ugo.Error:
			fn, err := v.IndexGet(ugo.String("New"))
			if err == nil && fn.CanCall() {
				cs = append(cs, &biCallable{Name: name + ".New", Kind: "errnew", Obj: fn, Expr: name + ".New"})
			}
		}
		if o.CanCall() {
			if _, isf := o.(*ugo.BuiltinFunction); !isf {
				cs = append(cs, &biCallable{Name: name, Kind: "builtin", Obj: o, Expr: name})
			}
		}
	}
	// error objects made by scripts / the VM
	e1, _ := (&ugo.Error{Name: "error", Message: "m"}).IndexGet(ugo.String("New"))
	cs = append(cs, &biCallable{Name: "error.New", Kind: "errnew", Obj: e1, Expr: `error("m").New`})
	e2, _ := (&ugo.RuntimeError{Err: ugo.ErrZeroDivision}).IndexGet(ugo.String("New"))
	cs = append(cs, &biCallable{Name: "runtimeError.New", Kind: "errnew", Obj: e2})
	for _, md := range biModules {
		for k, o := range md.m {
			if !o.CanCall() {
				continue
			}
			cs = append(cs, &biCallable{Name: md.name + "." + k, Kind: "module", Obj: o, Expr: "m." + k, Module: md.name})
		}
	}
	for ri, r := range gen.TimeReceivers() {
		for _, m := range timeMethodNames() {
			cs = append(cs, &biCallable{Name: fmt.Sprintf("time.Time#%d.%s", ri, m), Base: "time.Time." + m, Kind: "method", Recv: r, Method: m, Expr: "t." + m})
		}
	}
	for _, c := range cs {
		if c.Base == "" {
			c.Base = c.Name
		}
	}
	sort.Slice(cs, func(i, j int) bool { return cs[i].Name < cs[j].Name })
	return cs
}

// ---------------------------------------------------------------- jobs and tuples

type biJob struct {
	Callable int
	Arity    int
}

type biPools struct {
	full []ugo.Object
	core []ugo.Object
	// geo: short strings whose byte length, rune count and validity differ, with every small integer,
	// for the functions that compute widths, counts and offsets from both (Pad*, Repeat, SplitN, Index*,
	// Replace, substr-like slicing): encoded as geoBase+idx
	geo []ugo.Object
}

const geoBase = 1 << 20

func biGeo() []ugo.Object {
	g := []ugo.Object{}
	for _, s := range []string{"", "a", "ab", "xyz", "é", "éé", "aé", "日本", "é\xff", "a\xe2\x82", "\xff\xfe", "😀x", "%5d|%-3s", " a b "} {
		g = append(g, ugo.String(s))
	}
	for i := -2; i <= 9; i++ {
		g = append(g, ugo.Int(i))
	}
	g = append(g, ugo.Bytes("éa"), ugo.Char('é'), ugo.Uint(3))
	// containers with spare capacity (what append and slicing leave behind)
	g = append(g, append(make(ugo.Array, 0, 8), ugo.Int(1), ugo.Int(2)), append(make(ugo.Bytes, 0, 8), 'a', 'b'))
	return g
}

func newBiPools() *biPools { return &biPools{full: gen.ArgPool(), core: gen.ArgCore(), geo: biGeo()} }

func geoCount(scale int) int { return 700 * scale }

// tuple i of a job: indices into full (>=0) or core (encoded as -1-idx)
func (p *biPools) count(arity int, scale int) int {
	n, k := len(p.full), len(p.core)
	switch arity {
	case 0:
		return 1
	case 1:
		return n
	case 2:
		return n*n + geoCount(scale)
	case 3:
		return k*k*k + 400*scale + geoCount(scale)
	default:
		return 1500*scale + 300*scale + geoCount(scale)
	}
}

func (p *biPools) tuple(seed uint64, job biJob, i int, scale int) []int {
	n, k := len(p.full), len(p.core)
	if job.Arity >= 2 && i >= p.count(job.Arity, scale)-geoCount(scale) {
		r := gen.NewRand(seed ^ uint64(job.Callable)*1000003 ^ uint64(i)*7919 ^ 5)
		t := make([]int, job.Arity)
		for j := range t {
			t[j] = geoBase + r.Intn(len(p.geo))
		}
		return t
	}
	switch job.Arity {
	case 0:
		return nil
	case 1:
		return []int{i}
	case 2:
		return []int{i / n, i % n}
	case 3:
		if i < k*k*k {
			return []int{-1 - i/(k*k), -1 - (i/k)%k, -1 - i%k}
		}
		r := gen.NewRand(seed ^ uint64(job.Callable)*1000003 ^ uint64(i)*7919 ^ 3)
		return []int{r.Intn(n), r.Intn(n), r.Intn(n)}
	default:
		r := gen.NewRand(seed ^ uint64(job.Callable)*1000003 ^ uint64(i)*7919 ^ 4)
		t := make([]int, 4)
		for j := range t {
			if i < 1500*scale {
				t[j] = -1 - r.Intn(k)
			} else {
				t[j] = r.Intn(n)
			}
		}
		return t
	}
}

func (p *biPools) args(t []int) []ugo.Object {
	out := make([]ugo.Object, len(t))
	for i, x := range t {
		if x >= geoBase {
			out[i] = gen.Fresh(p.geo[x-geoBase])
		} else if x >= 0 {
			out[i] = gen.Fresh(p.full[x])
		} else {
			out[i] = gen.Fresh(p.core[-1-x])
		}
	}
	return out
}

// ---------------------------------------------------------------- calling

type biRoute struct {
	name  string
	split int // -1: Value (nil VM); k>=0: CallEx/CallName with args[:k] fixed and args[k:] variadic; -2..: scripts
	form  int // script form: 0 positional, 1 spread, 2 mixed
}

func biRoutes(arity int, c *biCallable) []biRoute {
	var rs []biRoute
	if c.Kind != "method" {
		rs = append(rs, biRoute{name: "Call", split: -1})
		// the documentation of Call allows a nil VM for callees that do not need one
		rs = append(rs, biRoute{name: "CallEx/nilvm", split: -3})
	} else {
		rs = append(rs, biRoute{name: "CallName/nilvm", split: -1})
	}
	for k := arity; k >= 0; k-- {
		rs = append(rs, biRoute{name: fmt.Sprintf("CallEx/%d+%d", k, arity-k), split: k})
	}
	if c.Expr != "" {
		rs = append(rs, biRoute{name: "script/positional", split: -2, form: 0}, biRoute{name: "script/spread", split: -2, form: 1})
		if arity >= 1 {
			rs = append(rs, biRoute{name: "script/mixed", split: -2, form: 2})
		}
	}
	return rs
}

type biEnv struct {
	vm      *ugo.VM
	scripts map[string]*ugo.Bytecode
	vms     map[string]*ugo.VM
	mm      *ugo.ModuleMap
}

func newBiEnv() *biEnv {
	bc, err := ugo.Compile([]byte(`return 0`), ugo.CompilerOptions{})
	if err != nil {
		panic(err)
	}
	mm := ugo.NewModuleMap()
	for _, md := range biModules {
		mm.AddBuiltinModule(md.name, md.m)
	}
	vm := ugo.NewVM(bc)
	if _, err := vm.Run(nil); err != nil { // a VM that has run has its globals
		panic(err)
	}
	return &biEnv{vm: vm, scripts: map[string]*ugo.Bytecode{}, vms: map[string]*ugo.VM{}, mm: mm}
}

func (e *biEnv) script(c *biCallable, arity, form int) (string, *ugo.Bytecode, error) {
	key := fmt.Sprintf("%s/%d/%d", c.Name, arity, form)
	if bc, ok := e.scripts[key]; ok {
		return key, bc, nil
	}
	var params, call []string
	if c.Kind == "method" {
		params = append(params, "t")
	}
	switch form {
	case 0:
		for i := 0; i < arity; i++ {
			params = append(params, fmt.Sprintf("a%d", i))
			call = append(call, fmt.Sprintf("a%d", i))
		}
	case 1:
		params = append(params, "...r")
		call = append(call, "...r")
	case 2:
		params = append(params, "a0", "...r")
		call = append(call, "a0", "...r")
	}
	src := ""
	if len(params) > 0 {
		src = "param (" + strings.Join(params, ", ") + ")\n"
	}
	if c.Module != "" {
		src += "m := import(\"" + c.Module + "\")\n"
	}
	src += "return " + c.Expr + "(" + strings.Join(call, ", ") + ")"
	bc, err := ugo.Compile([]byte(src), ugo.CompilerOptions{ModuleMap: e.mm, NoOptimize: true})
	if err != nil {
		return key, nil, fmt.Errorf("%s: %v", src, err)
	}
	e.scripts[key] = bc
	return key, bc, nil
}

type biOutcome struct {
	class string // ok | err:<Name> | nil-result | panic
	msg   string
}

func errClass(err error) string {
	switch e := err.(type) {
	case *ugo.Error:
		return "err:" + e.Name
	case *ugo.RuntimeError:
		if e.Err != nil {
			return "err:" + e.Err.Name
		}
		return "err:runtime"
	}
	return "err:go"
}

// call performs one call on one route; panics are recovered and reported.
func (e *biEnv) call(c *biCallable, args []ugo.Object, rt biRoute) (out biOutcome) {
	var vmKey string
	defer func() {
		if r := recover(); r != nil {
			out = biOutcome{class: "panic", msg: fmt.Sprint(r)}
			if vmKey != "" {
				delete(e.vms, vmKey) // state of a VM that panicked is undefined
			}
		}
	}()
	var ret ugo.Object
	var err error
	switch {
	case rt.split == -1 && c.Kind == "method":
		ret, err = c.Recv.(ugo.NameCallerObject).CallName(c.Method, ugo.NewCall(nil, args))
	case rt.split == -1:
		ret, err = c.Obj.Call(args...)
	case rt.split == -3:
		ex, ok := c.Obj.(ugo.ExCallerObject)
		if !ok {
			return biOutcome{class: "skip"}
		}
		ret, err = ex.CallEx(ugo.NewCall(nil, args))
	case rt.split >= 0:
		call := ugo.NewCall(e.vm, args[:rt.split:rt.split], args[rt.split:]...)
		if c.Kind == "method" {
			ret, err = c.Recv.(ugo.NameCallerObject).CallName(c.Method, call)
		} else if ex, ok := c.Obj.(ugo.ExCallerObject); ok {
			ret, err = ex.CallEx(call)
		} else {
			return biOutcome{class: "skip"}
		}
	default:
		key, bc, cerr := e.script(c, len(args), rt.form)
		if cerr != nil {
			return biOutcome{class: "compile-error", msg: cerr.Error()}
		}
		vm := e.vms[key]
		if vm == nil {
			vm = ugo.NewVM(bc)
			e.vms[key] = vm
		}
		vmKey = key
		if c.Kind == "method" {
			args = append([]ugo.Object{c.Recv}, args...)
		}
		ret, err = vm.Run(nil, args...)
		if err == nil && ret == nil {
			// the VM returns a nil Object only when a callee handed it one
			return biOutcome{class: "nil-result"}
		}
	}
	if err != nil {
		return biOutcome{class: errClass(err), msg: err.Error()}
	}
	if ret == nil {
		return biOutcome{class: "nil-result"}
	}
	// a Go nil INSIDE the returned value (an element of an array, a value of a map) is a nil result as
	// well: the next builtin that touches it dereferences nil
	if hasNilInside(ret, 0) {
		return biOutcome{class: "nil-result", msg: "a Go nil inside the returned " + ret.TypeName()}
	}
	return biOutcome{class: "ok"}
}

func hasNilInside(o ugo.Object, depth int) bool {
	if depth > 6 {
		return false
	}
	switch v := o.(type) {
	case ugo.Array:
		for _, e := range v {
			if e == nil || hasNilInside(e, depth+1) {
				return true
			}
		}
	case ugo.Map:
		for _, e := range v {
			if e == nil || hasNilInside(e, depth+1) {
				return true
			}
		}
	}
	return false
}

// ---------------------------------------------------------------- what the property allows us to skip

const biHonourable = 1 << 22 // sizes up to 4 Mi elements are always attempted

func intLike(o ugo.Object) (int64, bool) {
	switch v := o.(type) {
	case ugo.Int:
		return int64(v), true
	case ugo.Uint:
		if uint64(v) > math.MaxInt64 {
			return math.MaxInt64, true
		}
		return int64(v), true
	case ugo.Char:
		return int64(v), true
	case ugo.Float:
		f := float64(v)
		if f != f {
			return 0, true
		}
		if f > 9e18 {
			return math.MaxInt64, true
		}
		if f < -9e18 {
			return math.MinInt64, true
		}
		return int64(f), true
	case ugo.Bool:
		if v {
			return 1, true
		}
		return 0, true
	}
	return 0, false
}

func lenOf(o ugo.Object) int64 {
	if l, ok := o.(ugo.LengthGetter); ok {
		return int64(l.Len())
	}
	return int64(len(o.String()))
}

// biSkip: calls the oracle does not make.
//   - time.Sleep with more than 20ms: sleeping that long is what the call means;
//   - a size request between biHonourable and the largest size the runtime could
//     satisfy (2^47): the runtime may honour it on a big machine and dies with a
//     fatal out-of-memory error (not a panic, outside every model) on a small one.
//
// Requests above that can never be honoured: the property demands an error, so they
// are made.
func biSkip(c *biCallable, args []ugo.Object) string {
	const big = int64(1) << 47
	mid := func(n int64) bool { return n > biHonourable && n <= big }
	arg := func(i int) (int64, bool) {
		if i < len(args) {
			return intLike(args[i])
		}
		return 0, false
	}
	switch c.Base {
	case "time.Sleep":
		if d, ok := arg(0); ok && d > 20e6 {
			return "sleep>20ms"
		}
	case "repeat", "strings.Repeat":
		if n, ok := arg(1); ok && len(args) == 2 && n > 0 {
			l := lenOf(args[0])
			if c.Base == "strings.Repeat" {
				l = int64(len(args[0].String())) // the adapter converts with ToGoString
			}
			if l > 0 && (mid(n) || (n <= big && l <= big && mid(n*l))) {
				return "size-honourable"
			}
		}
	case "strings.PadLeft", "strings.PadRight":
		if n, ok := arg(1); ok && mid(n) {
			return "size-honourable"
		}
	case ":makeArray":
		if n, ok := arg(0); ok && mid(n) {
			return "size-honourable"
		}
	}
	return ""
}

// ---------------------------------------------------------------- classification

func biPanicClass(msg string) string {
	m := strings.ToLower(msg)
	switch {
	case strings.Contains(m, "repeat") && (strings.Contains(m, "overflow") || strings.Contains(m, "negative")),
		strings.Contains(m, "makeslice"), strings.Contains(m, "growslice"), strings.Contains(m, "out of memory"),
		strings.Contains(m, "cannot allocate"), strings.Contains(m, "grow: negative"), strings.Contains(m, "too large"),
		strings.Contains(m, "len out of range"), strings.Contains(m, "cap out of range"):
		return "count*len>limit"
	case strings.Contains(m, "index out of range"):
		return "index"
	case strings.Contains(m, "slice bounds"):
		return "slice"
	case strings.Contains(m, "nil pointer"), strings.Contains(m, "nil map"):
		return "nil-deref"
	case strings.Contains(m, "interface conversion"):
		return "type-assert"
	case strings.Contains(m, "divide by zero"):
		return "div-zero"
	}
	return "panic"
}

func renderArgs(args []ugo.Object) string {
	var parts []string
	for _, a := range args {
		s := func() (s string) {
			defer func() {
				if recover() != nil {
					s = "?"
				}
			}()
			return a.String()
		}()
		if len(s) > 40 {
			s = s[:40] + "…"
		}
		parts = append(parts, fmt.Sprintf("%s(%q)=%s", a.TypeName(), s, codec.Encode(a, nil)))
	}
	return "[" + strings.Join(parts, ", ") + "]"
}

// ---------------------------------------------------------------- worker (child process)

type biWorkerSpec struct {
	Seed        uint64
	Scale       int
	Jobs        []biJob
	ResumeJob   int // index into Jobs
	ResumeTuple int
	Dead        map[string]int // deaths (crash/timeout) per callable so far
	Progress    string
	TimeoutMs   int
	MemLimit    uint64
}

type biFinding struct {
	Callable string `json:"callable"`
	Base     string `json:"base"`
	Route    string `json:"route"`
	Arity    int    `json:"arity"`
	Tuple    []int  `json:"tuple"`
	Args     string `json:"args"`
	Class    string `json:"class"` // panic | nil-result | crash | timeout | compile-error
	Msg      string `json:"msg"`
}

type biStats struct {
	Calls    int            `json:"calls"`
	Tuples   int            `json:"tuples"`
	Skipped  map[string]int `json:"skipped"`
	Outcomes map[string]int `json:"outcomes"` // kind/outcome class
	PerCall  map[string]int `json:"per_callable_nonerror"`
}

const biDeathLimit = 2

func biWorkerMain() {
	var spec biWorkerSpec
	if err := json.NewDecoder(os.Stdin).Decode(&spec); err != nil {
		fmt.Fprintln(os.Stderr, "worker: bad spec:", err)
		os.Exit(2)
	}
	if spec.MemLimit > 0 {
		lim := syscall.Rlimit{Cur: spec.MemLimit, Max: spec.MemLimit}
		_ = syscall.Setrlimit(syscall.RLIMIT_AS, &lim)
	}
	out := bufio.NewWriter(os.Stdout)
	realOut := os.Stdout
	_ = realOut
	devnull, _ := os.OpenFile(os.DevNull, os.O_WRONLY, 0)
	os.Stdout = devnull // fmt.Print* of the fmt module
	ugo.PrintWriter = io.Discard
	// progress file, shared with the parent
	pf, err := os.OpenFile(spec.Progress, os.O_RDWR, 0o600)
	if err != nil {
		fmt.Fprintln(os.Stderr, "worker:", err)
		os.Exit(2)
	}
	prog, err := syscall.Mmap(int(pf.Fd()), 0, 32, syscall.PROT_READ|syscall.PROT_WRITE, syscall.MAP_SHARED)
	if err != nil {
		fmt.Fprintln(os.Stderr, "worker: mmap:", err)
		os.Exit(2)
	}
	var seq atomic.Uint64
	go biWatchdog(&seq, spec.TimeoutMs)
	cs := biCallables()
	pools := newBiPools()
	env := newBiEnv()
	st := biStats{Skipped: map[string]int{}, Outcomes: map[string]int{}, PerCall: map[string]int{}}
	enc := json.NewEncoder(out)
	dead := spec.Dead
	if dead == nil {
		dead = map[string]int{}
	}
	for ji := spec.ResumeJob; ji < len(spec.Jobs); ji++ {
		job := spec.Jobs[ji]
		c := cs[job.Callable]
		routes := biRoutes(job.Arity, c)
		n := pools.count(job.Arity, spec.Scale)
		start := 0
		if ji == spec.ResumeJob {
			start = spec.ResumeTuple
		}
		for ti := start; ti < n; ti++ {
			tup := pools.tuple(spec.Seed, job, ti, spec.Scale)
			probe := pools.args(tup)
			if why := biSkip(c, probe); why != "" {
				st.Skipped[why]++
				continue
			}
			if dead[c.Base] >= biDeathLimit {
				// the callable already killed workers: its remaining calls with a huge
				// numeric argument are not repeated (the finding is already recorded)
				huge := false
				for _, a := range probe {
					if v, ok := intLike(a); ok && (v > biHonourable || v < -biHonourable) {
						huge = true
					}
				}
				if huge {
					st.Skipped["after-death"]++
					continue
				}
			}
			st.Tuples++
			for ri, rt := range routes {
				binary.LittleEndian.PutUint64(prog[0:], uint64(ji))
				binary.LittleEndian.PutUint64(prog[8:], uint64(ti))
				binary.LittleEndian.PutUint64(prog[16:], uint64(ri))
				seq.Add(1)
				args := probe
				if ri > 0 {
					args = pools.args(tup)
				}
				o := env.call(c, args, rt)
				if o.class == "skip" {
					continue
				}
				st.Calls++
				st.Outcomes[c.Kind+"/"+o.class]++
				if o.class == "ok" || strings.HasPrefix(o.class, "err:go") {
					st.PerCall[c.Base]++
				}
				if o.class == "panic" || o.class == "nil-result" || o.class == "compile-error" {
					enc.Encode(biFinding{Callable: c.Name, Base: c.Base, Route: rt.name, Arity: job.Arity, Tuple: tup,
						Args: renderArgs(pools.args(tup)), Class: o.class, Msg: o.msg})
				}
			}
		}
		// statistics of the finished job (a later fatal call must not lose them)
		out.WriteString("STATS ")
		enc.Encode(st)
		out.Flush()
		st = biStats{Skipped: map[string]int{}, Outcomes: map[string]int{}, PerCall: map[string]int{}}
	}
	binary.LittleEndian.PutUint64(prog[24:], 1) // finished
	out.WriteString("DONE\n")
	out.Flush()
	os.Exit(0)
}

// biWatchdog ends the process when one call burns more CPU time than the limit (CPU
// time, not wall time: the machine may be busy) or blocks for 40 times as long.
func biWatchdog(seq *atomic.Uint64, timeoutMs int) {
	cpu := func() time.Duration {
		var ru syscall.Rusage
		if syscall.Getrusage(syscall.RUSAGE_SELF, &ru) != nil {
			return 0
		}
		return time.Duration(ru.Utime.Nano() + ru.Stime.Nano())
	}
	last, sinceCPU, sinceWall := uint64(0), cpu(), time.Now()
	for {
		time.Sleep(50 * time.Millisecond)
		cur := seq.Load()
		if cur != last {
			last, sinceCPU, sinceWall = cur, cpu(), time.Now()
			continue
		}
		if cpu()-sinceCPU > time.Duration(timeoutMs)*time.Millisecond || time.Since(sinceWall) > 40*time.Duration(timeoutMs)*time.Millisecond {
			fmt.Fprintln(os.Stderr, "WATCHDOG: call exceeded the time limit")
			os.Exit(4)
		}
	}
}

func init() {
	switch os.Getenv("CORR_BI_WORKER") {
	case "1":
		biWorkerMain()
	case "corr":
		biCorrWorkerMain()
	}
}

// ---------------------------------------------------------------- parent

func biRunWorkers(seed uint64, scale int, jobs []biJob, nworkers int, timeoutMs int) ([]biFinding, biStats, error) {
	total := biStats{Skipped: map[string]int{}, Outcomes: map[string]int{}, PerCall: map[string]int{}}
	var all []biFinding
	var mu sync.Mutex
	var firstErr error
	var wg sync.WaitGroup
	exe, err := os.Executable()
	if err != nil {
		return nil, total, err
	}
	cs := biCallables()
	pools := newBiPools()
	for w := 0; w < nworkers; w++ {
		var mine []biJob
		for i := w; i < len(jobs); i += nworkers {
			mine = append(mine, jobs[i])
		}
		if len(mine) == 0 {
			continue
		}
		wg.Add(1)
		go func(w int, mine []biJob) {
			defer wg.Done()
			pf, err := os.CreateTemp("", "corr-bi-progress-*")
			if err != nil {
				mu.Lock()
				firstErr = err
				mu.Unlock()
				return
			}
			pf.Write(make([]byte, 32))
			pf.Close()
			defer os.Remove(pf.Name())
			spec := biWorkerSpec{Seed: seed, Scale: scale, Jobs: mine, Progress: pf.Name(), TimeoutMs: timeoutMs,
				MemLimit: 6 << 30, Dead: map[string]int{}}
			for restarts := 0; restarts < 400; restarts++ {
				os.WriteFile(pf.Name(), make([]byte, 32), 0o600)
				cmd := exec.Command(exe)
				cmd.Env = append(os.Environ(), "CORR_BI_WORKER=1", "GOMEMLIMIT=4GiB", "GOMAXPROCS=2")
				in, _ := json.Marshal(spec)
				cmd.Stdin = strings.NewReader(string(in))
				var stderr strings.Builder
				cmd.Stderr = &stderr
				so, _ := cmd.StdoutPipe()
				if err := cmd.Start(); err != nil {
					mu.Lock()
					firstErr = err
					mu.Unlock()
					return
				}
				var fs []biFinding
				st := &biStats{Skipped: map[string]int{}, Outcomes: map[string]int{}, PerCall: map[string]int{}}
				done := false
				sc := bufio.NewScanner(so)
				sc.Buffer(make([]byte, 1<<20), 1<<26)
				for sc.Scan() {
					l := sc.Text()
					if l == "DONE" {
						done = true
						continue
					}
					if strings.HasPrefix(l, "STATS ") {
						var d biStats
						json.Unmarshal([]byte(l[6:]), &d)
						st.Calls += d.Calls
						st.Tuples += d.Tuples
						for k, v := range d.Skipped {
							st.Skipped[k] += v
						}
						for k, v := range d.Outcomes {
							st.Outcomes[k] += v
						}
						for k, v := range d.PerCall {
							st.PerCall[k] += v
						}
						continue
					}
					var f biFinding
					if json.Unmarshal([]byte(l), &f) == nil && f.Callable != "" {
						fs = append(fs, f)
					}
				}
				werr := cmd.Wait()
				mu.Lock()
				all = append(all, fs...)
				if st != nil {
					total.Calls += st.Calls
					total.Tuples += st.Tuples
					for k, v := range st.Skipped {
						total.Skipped[k] += v
					}
					for k, v := range st.Outcomes {
						total.Outcomes[k] += v
					}
					for k, v := range st.PerCall {
						total.PerCall[k] += v
					}
				}
				mu.Unlock()
				if werr == nil && done {
					return
				}
				// the worker died: the progress file names the call
				pb, _ := os.ReadFile(pf.Name())
				if len(pb) < 32 {
					mu.Lock()
					firstErr = fmt.Errorf("worker %d died without progress: %v %s", w, werr, tail(stderr.String(), 400))
					mu.Unlock()
					return
				}
				ji, ti, ri := int(binary.LittleEndian.Uint64(pb[0:])), int(binary.LittleEndian.Uint64(pb[8:])), int(binary.LittleEndian.Uint64(pb[16:]))
				if ji >= len(mine) {
					mu.Lock()
					firstErr = fmt.Errorf("worker %d: bad progress record", w)
					mu.Unlock()
					return
				}
				job := mine[ji]
				c := cs[job.Callable]
				tup := pools.tuple(seed, job, ti, scale)
				routes := biRoutes(job.Arity, c)
				rname := "?"
				if ri < len(routes) {
					rname = routes[ri].name
				}
				class := "crash"
				se := stderr.String()
				if strings.Contains(se, "WATCHDOG") {
					class = "timeout"
				}
				msg := firstLine(se, "fatal error", "WATCHDOG", "panic:", "runtime:")
				mu.Lock()
				all = append(all, biFinding{Callable: c.Name, Base: c.Base, Route: rname, Arity: job.Arity, Tuple: tup,
					Args: renderArgs(pools.args(tup)), Class: class, Msg: msg})
				total.Outcomes[c.Kind+"/"+class]++
				total.Outcomes["death/"+c.Base+"/"+class+"/"+biPanicClass(msg)]++
				mu.Unlock()
				spec.Dead[c.Base]++
				spec.ResumeJob, spec.ResumeTuple = ji, ti+1
			}
			mu.Lock()
			firstErr = fmt.Errorf("worker %d: too many restarts", w)
			mu.Unlock()
		}(w, mine)
	}
	wg.Wait()
	sort.SliceStable(all, func(i, j int) bool {
		a, b := all[i], all[j]
		if a.Callable != b.Callable {
			return a.Callable < b.Callable
		}
		if a.Arity != b.Arity {
			return a.Arity < b.Arity
		}
		if fmt.Sprint(a.Tuple) != fmt.Sprint(b.Tuple) {
			return fmt.Sprint(a.Tuple) < fmt.Sprint(b.Tuple)
		}
		return a.Route < b.Route
	})
	return all, total, firstErr
}

func tail(s string, n int) string {
	if len(s) > n {
		return s[len(s)-n:]
	}
	return s
}

func firstLine(s string, keys ...string) string {
	for _, l := range strings.Split(s, "\n") {
		for _, k := range keys {
			if strings.Contains(l, k) {
				return strings.TrimSpace(l)
			}
		}
	}
	return tail(strings.TrimSpace(s), 200)
}

func biSignature(f biFinding) string {
	switch f.Class {
	case "panic":
		return "C19:" + f.Base + ":" + biPanicClass(f.Msg)
	case "crash":
		if biPanicClass(f.Msg) == "count*len>limit" {
			return "C19:" + f.Base + ":count*len>limit"
		}
		return "C19:" + f.Base + ":crash"
	case "timeout":
		return "C19:" + f.Base + ":runaway"
	}
	return "C19:" + f.Base + ":" + f.Class
}

func biOracle(c *Ctx) {
	cs := biCallables()
	var jobs []biJob
	for i := range cs {
		for a := 0; a <= 4; a++ {
			jobs = append(jobs, biJob{Callable: i, Arity: a})
		}
	}
	// heavy jobs (arity 2) first in every worker's list is not needed: round-robin balances
	nw := runtime.NumCPU()
	if nw > 12 {
		nw = 12
	}
	if nw < 1 {
		nw = 1
	}
	timeout := 2500
	if c.Tier == "thorough" {
		timeout = 6000
	}
	seed := c.R.U64()
	fs, st, err := biRunWorkers(seed, c.Scale, jobs, nw, timeout)
	if err != nil {
		c.Violation(PropViolation{"C19", "oracle workers failed: " + err.Error(), "", "C19:harness"})
	}
	for _, f := range fs {
		what := fmt.Sprintf("%s(%d args) via %s: %s %s", f.Callable, f.Arity, f.Route, f.Class, f.Msg)
		c.Violation(PropViolation{"C19", what, fmt.Sprintf("callable=%s route=%s args=%s pool-tuple=%v", f.Callable, f.Route, f.Args, f.Tuple), biSignature(f)})
	}
	c.dist["oracle:callables"] = len(cs)
	c.dist["oracle:calls"] = st.Calls
	c.dist["oracle:tuples"] = st.Tuples
	for k, v := range st.Skipped {
		c.dist["oracle:skipped:"+k] = v
	}
	for k, v := range st.Outcomes {
		c.dist["oracle:"+k] = v
	}
	never := 0
	for _, cl := range cs {
		if st.PerCall[cl.Base] == 0 {
			never++
			c.dist["oracle:never-succeeded:"+cl.Base] = 1
		}
	}
	c.dist["oracle:callables-never-succeeded"] = never
}

func init() {
	register(&Stream{
		Name: "builtins",
		Run: func(c *Ctx) {
			c.Rule("oracle: every exported callable (BuiltinObjects, fmt/json/strings/time module functions, time methods via CallName, error New) x argument tuples of length 0..4 from the C19 pool (exhaustive to length 2; core pool^3 exhaustive; length 3/4 sampled) on every call route (Call, CallEx/CallName with each args|vargs split, three script call forms on a VM without recovery): no panic, no nil result, no crash or runaway for sizes that cannot be honoured. correspondence: hand models of the variadic bodies vs implementation (outcome class and value); distinct = distinct (function, outcome class, argument kinds)")
			biCorr(c)
			biOracle(c)
			cyclicOracle(c)
		},
		Replay: biReplay,
	})
}
