package main

// Reference encoder with a deterministic entry order (map keys and source-map
// keys sorted).  The implementation's encoder iterates Go maps, so its output
// differs from run to run; the `dec` stream needs byte-stable bases for a seed.
// The reference bytes are only used as *inputs*: every base is checked to decode
// (on the implementation) to the same canonical text as the value it was made
// from, otherwise the implementation's own encoding is used instead.
// Tag bytes are probed from the implementation so that a renumbering follows.

import (
	"bytes"
	"encoding"
	"encoding/binary"
	"encoding/gob"
	"fmt"
	"math"
	"sort"

	"github.com/ozanh/ugo"
	"github.com/ozanh/ugo/encoder"
	"github.com/ozanh/ugo/parser"
)

type refTags struct {
	undef, tru, fals, int_, uint_, char, float, str, byts, arr, map_, smap, cfn, fn, bfn, unknown byte
}

func probeTag(m encoding.BinaryMarshaler) byte {
	d, err := m.MarshalBinary()
	if err != nil || len(d) == 0 {
		return 0xfe
	}
	return d[0]
}

var rt = func() refTags {
	t := refTags{
		undef:   probeTag((*encoder.UndefinedType)(ugo.Undefined.(*ugo.UndefinedType))),
		tru:     probeTag(encoder.Bool(true)),
		fals:    probeTag(encoder.Bool(false)),
		int_:    probeTag(encoder.Int(0)),
		uint_:   probeTag(encoder.Uint(0)),
		char:    probeTag(encoder.Char(0)),
		float:   probeTag(encoder.Float(0)),
		str:     probeTag(encoder.String("")),
		byts:    probeTag(encoder.Bytes(nil)),
		arr:     probeTag(encoder.Array(nil)),
		map_:    probeTag(encoder.Map(nil)),
		smap:    probeTag(&encoder.SyncMap{}),
		cfn:     probeTag(&encoder.CompiledFunction{}),
		fn:      probeTag(&encoder.Function{Name: "x"}),
		bfn:     probeTag(&encoder.BuiltinFunction{Name: "x"}),
		unknown: 255,
	}
	// the gob tag: encode an array holding an object without a marshaler
	if d, err := (encoder.Array{&ugo.Error{}}).MarshalBinary(); err == nil {
		// [arr] vi(size) vi(len=1) [tag] gob...
		if len(d) > 2 {
			off := 2 + int(d[1]) // start of vi(len)
			if off < len(d) {
				off += 1 + int(d[off])
				if off < len(d) {
					t.unknown = d[off]
				}
			}
		}
	}
	return t
}()

func vi(v int64) []byte {
	var b [1 + binary.MaxVarintLen64]byte
	n := binary.PutVarint(b[1:], v)
	b[0] = byte(n)
	return append([]byte(nil), b[:n+1]...)
}

func refNum(tag byte, zero bool, put func([]byte) int) []byte {
	if zero {
		return []byte{tag, 0}
	}
	var b [binary.MaxVarintLen64]byte
	n := put(b[:])
	return append([]byte{tag, byte(n)}, b[:n]...)
}

func refSized(tag byte, payload []byte) []byte {
	out := []byte{tag}
	out = append(out, vi(int64(len(payload)))...)
	return append(out, payload...)
}

func refStr(tag byte, s []byte) []byte {
	if len(s) == 0 {
		return []byte{tag, 0}
	}
	return refSized(tag, s)
}

func refMap(tag byte, m ugo.Map) ([]byte, error) {
	var p []byte
	for _, k := range sortedKeys(m) {
		p = append(p, vi(int64(len(k)))...)
		p = append(p, k...)
		d, err := refEncodeObject(m[k])
		if err != nil {
			return nil, err
		}
		p = append(p, d...)
	}
	return refSized(tag, p), nil
}

func refEncodeObject(o ugo.Object) ([]byte, error) {
	switch v := o.(type) {
	case *ugo.UndefinedType:
		return []byte{rt.undef}, nil
	case ugo.Bool:
		if v {
			return []byte{rt.tru}, nil
		}
		return []byte{rt.fals}, nil
	case ugo.Int:
		return refNum(rt.int_, v == 0, func(b []byte) int { return binary.PutVarint(b, int64(v)) }), nil
	case ugo.Uint:
		return refNum(rt.uint_, v == 0, func(b []byte) int { return binary.PutUvarint(b, uint64(v)) }), nil
	case ugo.Char:
		return refNum(rt.char, v == 0, func(b []byte) int { return binary.PutVarint(b, int64(v)) }), nil
	case ugo.Float:
		bits := math.Float64bits(float64(v))
		return refNum(rt.float, bits == 0, func(b []byte) int { return binary.PutUvarint(b, bits) }), nil
	case ugo.String:
		return refStr(rt.str, []byte(v)), nil
	case ugo.Bytes:
		return refStr(rt.byts, v), nil
	case ugo.Array:
		if len(v) == 0 {
			return []byte{rt.arr, 0}, nil
		}
		p := vi(int64(len(v)))
		for _, e := range v {
			d, err := refEncodeObject(e)
			if err != nil {
				return nil, err
			}
			p = append(p, d...)
		}
		return refSized(rt.arr, p), nil
	case ugo.Map:
		return refMap(rt.map_, v)
	case *ugo.SyncMap:
		if v.Value == nil {
			return []byte{rt.smap, 0}, nil
		}
		return refMap(rt.smap, v.Value)
	case *ugo.CompiledFunction:
		var p []byte
		if v.NumParams > 0 {
			p = append(p, 0)
			p = append(p, vi(int64(v.NumParams))...)
		}
		if v.NumLocals > 0 {
			p = append(p, 1)
			p = append(p, vi(int64(v.NumLocals))...)
		}
		if v.Instructions != nil {
			p = append(p, 2)
			p = append(p, refStr(rt.byts, v.Instructions)...)
		}
		if v.Variadic {
			p = append(p, 3)
		}
		if v.SourceMap != nil {
			p = append(p, 5)
			p = append(p, vi(int64(len(v.SourceMap)*2))...)
			ks := make([]int, 0, len(v.SourceMap))
			for k := range v.SourceMap {
				ks = append(ks, k)
			}
			sort.Ints(ks)
			for _, k := range ks {
				p = append(p, vi(int64(k))...)
				p = append(p, vi(int64(v.SourceMap[k]))...)
			}
		}
		return refSized(rt.cfn, p), nil
	case *ugo.Function:
		return refSized(rt.fn, refStr(rt.str, []byte(v.Name))), nil
	case *ugo.BuiltinFunction:
		return refSized(rt.bfn, refStr(rt.str, []byte(v.Name))), nil
	case nil:
		return nil, fmt.Errorf("nil object")
	}
	var buf bytes.Buffer
	buf.WriteByte(rt.unknown)
	if err := gob.NewEncoder(&buf).Encode(&o); err != nil {
		return nil, err
	}
	return buf.Bytes(), nil
}

func refFileSet(fs *parser.SourceFileSet) []byte {
	p := vi(int64(fs.Base))
	p = append(p, vi(int64(len(fs.Files)))...)
	for _, f := range fs.Files {
		if f == nil {
			continue
		}
		d := refStr(rt.str, []byte(f.Name))
		d = append(d, vi(int64(f.Base))...)
		d = append(d, vi(int64(f.Size))...)
		d = append(d, vi(int64(len(f.Lines)))...)
		for _, l := range f.Lines {
			d = append(d, vi(int64(l))...)
		}
		p = append(p, vi(int64(len(d)))...)
		p = append(p, d...)
	}
	return p
}

func bcHeader(version uint16) []byte {
	b := binary.BigEndian.AppendUint32(nil, encoder.BytecodeSignature)
	return binary.BigEndian.AppendUint16(b, version)
}

func refEncodeBytecode(bc *ugo.Bytecode) ([]byte, error) {
	out := bcHeader(encoder.BytecodeVersion2)
	if bc.FileSet != nil {
		data := refFileSet(bc.FileSet)
		out = append(out, 0)
		sz, _ := refEncodeObject(ugo.Int(len(data)))
		out = append(out, sz...)
		out = append(out, data...)
	}
	if bc.Main != nil {
		d, err := refEncodeObject(bc.Main)
		if err != nil {
			return nil, err
		}
		out = append(out, 1)
		out = append(out, d...)
	}
	if bc.Constants != nil {
		d, err := refEncodeObject(ugo.Array(bc.Constants))
		if err != nil {
			return nil, err
		}
		out = append(out, 2)
		out = append(out, d...)
	}
	if bc.NumModules > 0 {
		d, _ := refEncodeObject(ugo.Int(bc.NumModules))
		out = append(out, 3)
		out = append(out, d...)
	}
	return out, nil
}
