package main

// Canonical text of objects / bytecode / module maps for the `enc` and `dec`
// streams, exactly as specified in notes/enc-protocol.md, plus the parser used
// by Replay.  The renderer never panics on odd decoded values (nil interfaces,
// nil pointers, negative counts).

import (
	"encoding/hex"
	"fmt"
	"math"
	"sort"
	"strconv"
	"strings"

	"github.com/ozanh/ugo"
	"github.com/ozanh/ugo/parser"
)

func hx(b []byte) string { return hex.EncodeToString(b) }

func sanitizeTypeName(s string) string {
	r := []byte(s)
	for i, ch := range r {
		switch ch {
		case ':', ' ', '\t', '(', ')', '\n', '\r':
			r[i] = '_'
		}
	}
	return string(r)
}

func safeTypeName(o ugo.Object) (s string) {
	defer func() {
		if recover() != nil {
			s = fmt.Sprintf("%T", o)
		}
	}()
	return o.TypeName()
}

func sortedKeys(m map[string]ugo.Object) []string {
	ks := make([]string, 0, len(m))
	for k := range m {
		ks = append(ks, k)
	}
	sort.Strings(ks)
	return ks
}

func writeMapBody(b *strings.Builder, m map[string]ugo.Object, sep byte) {
	for i, k := range sortedKeys(m) {
		if i > 0 {
			b.WriteByte(sep)
		}
		b.WriteString(hx([]byte(k)))
		b.WriteByte('=')
		writeObj(b, m[k])
	}
}

func writeObj(b *strings.Builder, o ugo.Object) {
	switch v := o.(type) {
	case nil:
		b.WriteByte('N')
	case *ugo.UndefinedType:
		b.WriteByte('u')
	case ugo.Bool:
		if v {
			b.WriteString("b1")
		} else {
			b.WriteString("b0")
		}
	case ugo.Int:
		fmt.Fprintf(b, "i%016x", uint64(v))
	case ugo.Uint:
		fmt.Fprintf(b, "n%016x", uint64(v))
	case ugo.Char:
		fmt.Fprintf(b, "c%08x", uint32(v))
	case ugo.Float:
		fmt.Fprintf(b, "f%016x", math.Float64bits(float64(v)))
	case ugo.String:
		b.WriteByte('s')
		b.WriteString(hx([]byte(v)))
	case ugo.Bytes:
		b.WriteByte('y')
		b.WriteString(hx(v))
	case ugo.Array:
		b.WriteString("a(")
		for i, e := range v {
			if i > 0 {
				b.WriteByte(' ')
			}
			writeObj(b, e)
		}
		b.WriteByte(')')
	case ugo.Map:
		b.WriteString("m(")
		writeMapBody(b, v, ' ')
		b.WriteByte(')')
	case *ugo.SyncMap:
		if v == nil {
			b.WriteByte('N')
			return
		}
		if v.Value == nil {
			b.WriteString("S-")
			return
		}
		b.WriteString("S(")
		writeMapBody(b, v.Value, ' ')
		b.WriteByte(')')
	case *ugo.CompiledFunction:
		if v == nil {
			b.WriteByte('N')
			return
		}
		vr := 0
		if v.Variadic {
			vr = 1
		}
		fmt.Fprintf(b, "F[p=%d l=%d v=%d i=", v.NumParams, v.NumLocals, vr)
		if v.Instructions == nil {
			b.WriteByte('-')
		} else {
			b.WriteString(hx(v.Instructions))
		}
		b.WriteString(" m=")
		if v.SourceMap == nil {
			b.WriteByte('-')
		} else {
			ks := make([]int, 0, len(v.SourceMap))
			for k := range v.SourceMap {
				ks = append(ks, k)
			}
			sort.Ints(ks)
			b.WriteByte('(')
			for i, k := range ks {
				if i > 0 {
					b.WriteByte(',')
				}
				fmt.Fprintf(b, "%d:%d", k, v.SourceMap[k])
			}
			b.WriteByte(')')
		}
		b.WriteByte(']')
	case *ugo.Function:
		if v == nil {
			b.WriteByte('N')
			return
		}
		b.WriteByte('G')
		b.WriteString(hx([]byte(v.Name)))
	case *ugo.BuiltinFunction:
		if v == nil {
			b.WriteByte('N')
			return
		}
		b.WriteByte('B')
		b.WriteString(hx([]byte(v.Name)))
	default:
		b.WriteByte('o')
		b.WriteString(sanitizeTypeName(safeTypeName(o)))
	}
}

func objText(o ugo.Object) string {
	var b strings.Builder
	writeObj(&b, o)
	return b.String()
}

func fileSetText(fs *parser.SourceFileSet) string {
	if fs == nil {
		return "-"
	}
	var b strings.Builder
	fmt.Fprintf(&b, "FS[base=%d files=(", fs.Base)
	for i, f := range fs.Files {
		if i > 0 {
			b.WriteByte(';')
		}
		if f == nil {
			b.WriteByte('N')
			continue
		}
		fmt.Fprintf(&b, "SF[name=%s base=%d size=%d lines=(", hx([]byte(f.Name)), f.Base, f.Size)
		for j, l := range f.Lines {
			if j > 0 {
				b.WriteByte(',')
			}
			b.WriteString(strconv.Itoa(l))
		}
		b.WriteString(")]")
	}
	b.WriteString(")]")
	return b.String()
}

func bcText(bc *ugo.Bytecode) string {
	if bc == nil {
		return "N"
	}
	var b strings.Builder
	b.WriteString("BC{fs=")
	b.WriteString(fileSetText(bc.FileSet))
	b.WriteString(" main=")
	if bc.Main == nil {
		b.WriteByte('-')
	} else {
		writeObj(&b, bc.Main)
	}
	b.WriteString(" consts=")
	if bc.Constants == nil {
		b.WriteByte('-')
	} else {
		writeObj(&b, ugo.Array(bc.Constants))
	}
	fmt.Fprintf(&b, " nm=%d}", bc.NumModules)
	return b.String()
}

// modsText renders the builtin modules of a module list (name -> Attrs).
func modsText(mods map[string]map[string]ugo.Object) string {
	if len(mods) == 0 {
		return "-"
	}
	names := make([]string, 0, len(mods))
	for n := range mods {
		names = append(names, n)
	}
	sort.Strings(names)
	var b strings.Builder
	for i, n := range names {
		if i > 0 {
			b.WriteByte(';')
		}
		b.WriteString(hx([]byte(n)))
		b.WriteByte(':')
		writeMapBody(&b, mods[n], ',')
	}
	return b.String()
}

// ---- parser (Replay) ----

type textParser struct {
	s string
	i int
}

func (p *textParser) peek() byte {
	if p.i < len(p.s) {
		return p.s[p.i]
	}
	return 0
}

func (p *textParser) expect(lit string) error {
	if !strings.HasPrefix(p.s[p.i:], lit) {
		return fmt.Errorf("expected %q at offset %d", lit, p.i)
	}
	p.i += len(lit)
	return nil
}

func isHexDigit(c byte) bool { return c >= '0' && c <= '9' || c >= 'a' && c <= 'f' }

func (p *textParser) hexRun() ([]byte, error) {
	j := p.i
	for j < len(p.s) && isHexDigit(p.s[j]) {
		j++
	}
	b, err := hex.DecodeString(p.s[p.i:j])
	if err != nil {
		return nil, err
	}
	p.i = j
	return b, nil
}

func (p *textParser) fixedHex(n int) (uint64, error) {
	if p.i+n > len(p.s) {
		return 0, fmt.Errorf("short number at offset %d", p.i)
	}
	v, err := strconv.ParseUint(p.s[p.i:p.i+n], 16, 64)
	p.i += n
	return v, err
}

func (p *textParser) decimal() (int, error) {
	j := p.i
	if j < len(p.s) && p.s[j] == '-' {
		j++
	}
	for j < len(p.s) && p.s[j] >= '0' && p.s[j] <= '9' {
		j++
	}
	v, err := strconv.ParseInt(p.s[p.i:j], 10, 64)
	p.i = j
	return int(v), err
}

// opaqueStub stands in for `o<TypeName>` objects other than error on replay.
type opaqueStub struct {
	ugo.ObjectImpl
	name string
}

func (o *opaqueStub) TypeName() string { return o.name }
func (o *opaqueStub) String() string   { return "<" + o.name + ">" }

func stubFn(args ...ugo.Object) (ugo.Object, error) { return ugo.Undefined, nil }

func (p *textParser) mapBody(sep, end byte) (ugo.Map, error) {
	m := ugo.Map{}
	for p.i < len(p.s) && p.peek() != end && (end != 0 || p.peek() != ';') {
		if len(m) > 0 {
			if p.peek() != sep {
				return nil, fmt.Errorf("expected separator at offset %d", p.i)
			}
			p.i++
		}
		k, err := p.hexRun()
		if err != nil {
			return nil, err
		}
		if err := p.expect("="); err != nil {
			return nil, err
		}
		v, err := p.obj()
		if err != nil {
			return nil, err
		}
		if _, dup := m[string(k)]; dup {
			return nil, fmt.Errorf("duplicate key")
		}
		m[string(k)] = v
	}
	return m, nil
}

func (p *textParser) obj() (ugo.Object, error) {
	if p.i >= len(p.s) {
		return nil, fmt.Errorf("unexpected end of text")
	}
	c := p.s[p.i]
	p.i++
	switch c {
	case 'N':
		return nil, nil
	case 'u':
		return ugo.Undefined, nil
	case 'b':
		switch p.peek() {
		case '0':
			p.i++
			return ugo.False, nil
		case '1':
			p.i++
			return ugo.True, nil
		}
		return nil, fmt.Errorf("bad bool")
	case 'i':
		v, err := p.fixedHex(16)
		return ugo.Int(int64(v)), err
	case 'n':
		v, err := p.fixedHex(16)
		return ugo.Uint(v), err
	case 'c':
		v, err := p.fixedHex(8)
		return ugo.Char(int32(uint32(v))), err
	case 'f':
		v, err := p.fixedHex(16)
		return ugo.Float(math.Float64frombits(v)), err
	case 's':
		b, err := p.hexRun()
		return ugo.String(b), err
	case 'y':
		b, err := p.hexRun()
		return ugo.Bytes(b), err
	case 'G':
		b, err := p.hexRun()
		return &ugo.Function{Name: string(b), Value: stubFn}, err
	case 'B':
		b, err := p.hexRun()
		if err != nil {
			return nil, err
		}
		if idx, ok := ugo.BuiltinsMap[string(b)]; ok {
			if f, ok := ugo.BuiltinObjects[idx].(*ugo.BuiltinFunction); ok {
				return f, nil
			}
		}
		return &ugo.BuiltinFunction{Name: string(b), Value: stubFn}, nil
	case 'a':
		if err := p.expect("("); err != nil {
			return nil, err
		}
		arr := ugo.Array{}
		for p.peek() != ')' {
			if len(arr) > 0 {
				if err := p.expect(" "); err != nil {
					return nil, err
				}
			}
			e, err := p.obj()
			if err != nil {
				return nil, err
			}
			arr = append(arr, e)
		}
		p.i++
		return arr, nil
	case 'm':
		if err := p.expect("("); err != nil {
			return nil, err
		}
		m, err := p.mapBody(' ', ')')
		if err != nil {
			return nil, err
		}
		return m, p.expect(")")
	case 'S':
		if p.peek() == '-' {
			p.i++
			return &ugo.SyncMap{}, nil
		}
		if err := p.expect("("); err != nil {
			return nil, err
		}
		m, err := p.mapBody(' ', ')')
		if err != nil {
			return nil, err
		}
		return &ugo.SyncMap{Value: m}, p.expect(")")
	case 'F':
		cf := &ugo.CompiledFunction{}
		var err error
		if err = p.expect("[p="); err != nil {
			return nil, err
		}
		if cf.NumParams, err = p.decimal(); err != nil {
			return nil, err
		}
		if err = p.expect(" l="); err != nil {
			return nil, err
		}
		if cf.NumLocals, err = p.decimal(); err != nil {
			return nil, err
		}
		if err = p.expect(" v="); err != nil {
			return nil, err
		}
		switch p.peek() {
		case '0':
		case '1':
			cf.Variadic = true
		default:
			return nil, fmt.Errorf("bad variadic flag")
		}
		p.i++
		if err = p.expect(" i="); err != nil {
			return nil, err
		}
		if p.peek() == '-' {
			p.i++
		} else {
			b, err := p.hexRun()
			if err != nil {
				return nil, err
			}
			if b == nil {
				b = []byte{}
			}
			cf.Instructions = b
		}
		if err = p.expect(" m="); err != nil {
			return nil, err
		}
		if p.peek() == '-' {
			p.i++
		} else {
			if err = p.expect("("); err != nil {
				return nil, err
			}
			cf.SourceMap = map[int]int{}
			for p.peek() != ')' {
				if len(cf.SourceMap) > 0 {
					if err = p.expect(","); err != nil {
						return nil, err
					}
				}
				k, err := p.decimal()
				if err != nil {
					return nil, err
				}
				if err = p.expect(":"); err != nil {
					return nil, err
				}
				v, err := p.decimal()
				if err != nil {
					return nil, err
				}
				cf.SourceMap[k] = v
			}
			p.i++
		}
		return cf, p.expect("]")
	case 'o':
		j := p.i
		for j < len(p.s) && !strings.ContainsRune(" ),;]", rune(p.s[j])) {
			j++
		}
		name := p.s[p.i:j]
		p.i = j
		if name == "error" {
			return &ugo.Error{Name: "replay", Message: "replay"}, nil
		}
		return &opaqueStub{name: name}, nil
	}
	return nil, fmt.Errorf("unknown object text %q at offset %d", c, p.i-1)
}

// parseMods parses a `mods` field back into builtin module attribute maps.
func parseMods(s string) (map[string]map[string]ugo.Object, error) {
	mods := map[string]map[string]ugo.Object{}
	if s == "-" {
		return mods, nil
	}
	p := &textParser{s: s}
	for {
		name, err := p.hexRun()
		if err != nil {
			return nil, err
		}
		if err := p.expect(":"); err != nil {
			return nil, err
		}
		m, err := p.mapBody(',', 0)
		if err != nil {
			return nil, err
		}
		mods[string(name)] = m
		if p.i >= len(p.s) {
			return mods, nil
		}
		if err := p.expect(";"); err != nil {
			return nil, err
		}
	}
}

func moduleMapOf(mods map[string]map[string]ugo.Object) *ugo.ModuleMap {
	mm := ugo.NewModuleMap()
	for n, attrs := range mods {
		mm.AddBuiltinModule(n, attrs)
	}
	return mm
}
