package main

import (
	"bytes"
	"encoding/json"
	"fmt"
	"regexp"
	"sort"
	"strings"
	"time"

	"github.com/ozanh/ugo"
	"github.com/ozanh/ugo/encoder"

	"verifharness/codec"
	"verifharness/gen"
)

// stream `modules` (property C12): generated import graphs over source and builtin
// modules x optimizer on/off x encode/decode round trip.
//
// Oracle on the implementation (independent reference semantics carried by the
// generator, gen/modgraph.go): every body is logged at most once per run and in the
// order of first import; state changed through one import site is seen through every
// other site (expected `out`); the main script's variables named like module
// variables are untouched and cross-scope names do not resolve; builtin module
// values are private per VM (the same Bytecode is run on two VMs, the Go-side Attrs
// and the Bytecode constants are compared before/after); cycles and unknown modules
// are compile errors (with a timeout: a hang is a violation).
// Lock-step: every run is also executed by the Lean VM model (`vm` request).

func buildModuleMap(c *gen.ModCase) (*ugo.ModuleMap, []map[string]ugo.Object) {
	mm := ugo.NewModuleMap()
	for name, src := range c.Mods {
		mm.AddSourceModule(name, []byte(src))
	}
	var attrs []map[string]ugo.Object
	for _, b := range c.Builtins {
		a := map[string]ugo.Object{
			"x":      ugo.Int(b.X),
			"arr":    ugo.Array{ugo.Int(1), ugo.Int(2), ugo.Int(3)},
			"nested": ugo.Map{"k": ugo.Int(0)},
			"s":      ugo.String(b.Name),
		}
		if b.Fn {
			a["fn"] = &ugo.Function{Name: "fn", Value: func(...ugo.Object) (ugo.Object, error) { return ugo.Int(77), nil }}
		}
		mm.AddBuiltinModule(b.Name, a)
		attrs = append(attrs, a)
	}
	return mm, attrs
}

func attrsImage(attrs []map[string]ugo.Object) string {
	var parts []string
	for _, a := range attrs {
		parts = append(parts, codec.Encode(ugo.Map(a), nil))
	}
	return strings.Join(parts, "|")
}

func constsImage(bc *ugo.Bytecode) string {
	var parts []string
	for _, c := range bc.Constants {
		switch c.(type) {
		case ugo.Map, ugo.Array, ugo.Bytes:
			parts = append(parts, codec.Encode(c, nil))
		}
	}
	return strings.Join(parts, "|")
}

// compileTimed runs ugo.Compile with a watchdog: a hang is reported as such.
func compileTimed(src string, opts ugo.CompilerOptions) (bc *ugo.Bytecode, err error, hung bool, panicked any) {
	done := make(chan struct{})
	go func() {
		defer close(done)
		defer func() { panicked = recover() }()
		bc, err = ugo.Compile([]byte(src), opts)
	}()
	select {
	case <-done:
		return
	case <-time.After(10 * time.Second):
		return nil, nil, true, nil
	}
}

func roundTrip(bc *ugo.Bytecode, mm *ugo.ModuleMap) (*ugo.Bytecode, error) {
	var buf bytes.Buffer
	if err := encoder.EncodeBytecodeTo(bc, &buf); err != nil {
		return nil, err
	}
	return encoder.DecodeBytecodeFrom(&buf, mm)
}

// classifyLog checks "each body at most once" on the start/end/abort markers.
func classifyLog(log []string) (sig, what string) {
	open := map[string]int{}
	completed := map[string]int{}
	aborted := map[string]int{}
	for _, e := range log {
		switch {
		case strings.HasPrefix(e, "/"):
			open[e[1:]]--
			completed[e[1:]]++
		case strings.HasPrefix(e, "!"):
			open[e[1:]]--
			aborted[e[1:]]++
		default:
			if open[e] > 0 {
				return "C12:body-reentered-via-global", "the body of module " + e + " was started again while it was running"
			}
			if completed[e] > 0 {
				return "C12:body-twice", "the body of module " + e + " ran again after it had completed"
			}
			if aborted[e] > 0 {
				return "C12:body-rerun-after-throw", "the body of module " + e + " ran again after an earlier execution ended in an error"
			}
			open[e]++
		}
	}
	return "", ""
}

func logStrings(g ugo.Object) []string {
	m, ok := g.(ugo.Map)
	if !ok {
		return nil
	}
	arr, _ := m["log"].(ugo.Array)
	var out []string
	for _, x := range arr {
		out = append(out, x.String())
	}
	return out
}

func intsImage(xs []int) string {
	arr := make(ugo.Array, len(xs))
	for i, x := range xs {
		arr[i] = ugo.Int(x)
	}
	return codec.Encode(arr, nil)
}

type modRun struct {
	NoOpt bool `json:"noopt"`
	Enc   bool `json:"enc"`
}

type modReplay struct {
	Case gen.ModCase `json:"case"`
	Run  modRun      `json:"run"`
}

func modCompile(c *gen.ModCase, run modRun) (*ugo.Bytecode, *ugo.ModuleMap, []map[string]ugo.Object, error, bool, any) {
	mm, attrs := buildModuleMap(c)
	bc, err, hung, pv := compileTimed(c.Main, ugo.CompilerOptions{ModuleMap: mm, NoOptimize: run.NoOpt})
	if err != nil || hung || pv != nil {
		return nil, mm, attrs, err, hung, pv
	}
	if run.Enc {
		bc2, err := roundTrip(bc, mm)
		if err != nil {
			return nil, mm, attrs, fmt.Errorf("encode/decode: %w", err), false, nil
		}
		bc = bc2
	}
	return bc, mm, attrs, nil, false, nil
}

func modGlobals() ugo.Map { return ugo.Map{"log": ugo.Array{}} }

// modOracle runs one configuration of a case and reports violations; it returns the
// lock-step request (line, impl) when the bytecode can be shipped to the model.
func modOracle(c *Ctx, mc *gen.ModCase, run modRun) (line, impl string, ok bool) {
	spec, _ := json.Marshal(modReplay{*mc, run})
	in := string(spec)
	viol := func(sig, what string) {
		c.Violation(PropViolation{"C12", what, in, sig})
	}
	bc, _, attrs, err, hung, pv := modCompile(mc, run)
	if hung {
		viol("C12:compile-hang:"+mc.Kind, "Compile did not return within 10s")
		return
	}
	if pv != nil {
		viol("C12:compile-panic:"+mc.Kind, fmt.Sprintf("Compile panicked: %v", pv))
		return
	}
	if strings.HasPrefix(mc.Expect, "compile-error:") {
		want := strings.TrimPrefix(mc.Expect, "compile-error:")
		if err == nil {
			// not reported at compile time: does it hang or fail at run time?
			res, _ := runTraced(nil, bc, true, modGlobals(), nil, false)
			viol("C12:"+mc.Kind+"-not-rejected", "Compile accepted the program; run gives "+res)
		} else if !strings.Contains(err.Error(), want) {
			viol("C12:"+mc.Kind+"-wrong-error", "Compile error is not the expected one: "+err.Error())
		}
		c.Count("compile-error-as-expected")
		return
	}
	if err != nil {
		viol("C12:unexpected-compile-error", "Compile failed: "+err.Error())
		return
	}
	before := attrsImage(attrs)
	cbefore := constsImage(bc)
	g := modGlobals()
	line, ok = vmLine("R", 400000, bc, g, nil)
	impl, _ = runTraced(nil, bc, true, g, nil, false)
	// second VM on the same Bytecode: builtin-module state changed by the first run must be invisible
	g2 := modGlobals()
	impl2, _ := runTraced(nil, bc, true, g2, nil, false)
	logS := logStrings(g)
	if sig, what := classifyLog(logS); sig != "" {
		viol(sig, what+"; log="+strings.Join(logS, " "))
	} else if mc.ExpLog != nil && strings.Join(logS, " ") != strings.Join(mc.ExpLog, " ") {
		viol("C12:log-differs", "bodies ran in the order ["+strings.Join(logS, " ")+"], the import graph requires ["+strings.Join(mc.ExpLog, " ")+"]")
	}
	wantOut := "out=val " + intsImage(mc.ExpOut)
	gotOut := strings.SplitN(impl, "\t", 2)[0]
	if gotOut != wantOut {
		switch mc.Kind {
		case "reenter":
			viol("C12:body-reentered-via-global", "re-entered import: "+gotOut+" expected "+wantOut)
		default:
			viol("C12:state-not-shared", "observed values differ from the one-instance-per-module reference: "+gotOut+" expected "+wantOut)
		}
	}
	if impl2 != impl {
		viol("C12:builtin-not-private", "a second VM on the same Bytecode behaves differently: "+strings.SplitN(impl2, "\t", 2)[0]+" vs "+gotOut)
	}
	if after := attrsImage(attrs); after != before {
		viol("C12:builtin-attrs-mutated", "the Go-side module attributes changed: "+after+" was "+before)
	}
	if after := constsImage(bc); after != cbefore {
		viol("C12:builtin-constant-mutated", "a Bytecode constant changed during the run: "+after+" was "+cbefore)
	}
	if ok {
		line += "\t#" + codec.Hex(spec)
	}
	return
}

var importRe = regexp.MustCompile(`import\("([^"]+)"\)`)

// importsOf lists the import expressions of a module text in the order the compiler meets them
// (a statement `if false { … }` is dead code the compiler skips).
func importsOf(src string) []string {
	var out []string
	for _, line := range strings.Split(src, "\n") {
		if strings.HasPrefix(line, "if false ") {
			continue
		}
		for _, m := range importRe.FindAllStringSubmatch(line, -1) {
			out = append(out, m[1])
		}
	}
	return out
}

// msCase renders the `ms` request (module-store model) of a case and the compiler's answer.
func msCase(mc *gen.ModCase) (line, impl string) {
	var mods []string
	names := make([]string, 0, len(mc.Mods))
	for n := range mc.Mods {
		names = append(names, n)
	}
	sort.Strings(names)
	for _, n := range names {
		mods = append(mods, n+"=S:"+strings.Join(importsOf(mc.Mods[n]), ","))
	}
	for _, b := range mc.Builtins {
		mods = append(mods, b.Name+"=B")
	}
	line = fmt.Sprintf("ms\t1000\t%s\t%s", strings.Join(importsOf(mc.Main), ","), strings.Join(mods, ";"))
	bc, _, _, err, hung, pv := modCompile(mc, modRun{})
	switch {
	case hung || pv != nil:
		impl = "hang-or-panic"
	case err == nil:
		impl = fmt.Sprintf("ok %d", bc.NumModules)
	case strings.Contains(err.Error(), "cyclic module import: "):
		impl = "err cyclic " + strings.TrimSpace(strings.SplitN(strings.SplitN(err.Error(), "cyclic module import: ", 2)[1], "\n", 2)[0])
	case strings.Contains(err.Error(), "module '"):
		impl = "err notfound " + strings.SplitN(strings.SplitN(err.Error(), "module '", 2)[1], "'", 2)[0]
	default:
		impl = "err other " + err.Error()
	}
	return
}

func init() {
	register(&Stream{
		Name: "modules",
		Skip: vmSkip,
		Run: func(c *Ctx) {
			c.Rule("generated import graphs (gen/modgraph.go: 1-6 source modules in a DAG with top-level, conditional, in-loop and in-closure imports, 0-2 builtin modules, import sites in variables, functions, loops and conditions; cycles of length 1-5; unknown modules; cross-scope names; throwing and re-entered bodies) x optimizer on/off x encode/decode; oracle = one-instance-per-module reference semantics (expected body log and observed values), two VMs per Bytecode for builtin privacy; every run is also executed by the Lean VM model in lock-step; distinct = distinct (kind, shape, configuration)")
			var cases []gen.ModCase
			n := 120 * c.Scale
			for i := 0; i < n; i++ {
				cases = append(cases, gen.ModGraphCase(c.R.Fork()))
			}
			for rep := 0; rep < 2*c.Scale; rep++ {
				for L := 1; L <= 5; L++ {
					cases = append(cases, gen.ModCycleCase(c.R.Fork(), L))
				}
				for k := 0; k < 3; k++ {
					cases = append(cases, gen.ModUnknownCase(c.R.Fork()))
				}
				cases = append(cases, gen.ModScopeCase(c.R.Fork()), gen.ModScopeCase(c.R.Fork()))
				cases = append(cases, gen.ModThrowCase(c.R.Fork()), gen.ModReenterCase(c.R.Fork()), gen.ModReenterCase(c.R.Fork()))
			}
			modInvokerScenarios(c)
			modFileOracle(c)
			modulePrivacyOracle(c)
			evalFailedImportOracle(c, "C12")
			for i := range cases {
				mc := &cases[i]
				if mc.Kind != "scope" {
					// compile side: the module-store model predicts NumModules or the error and the module it names
					line, impl := msCase(mc)
					spec, _ := json.Marshal(modReplay{*mc, modRun{}})
					c.Add(Case{Line: line + "\t#" + codec.Hex(spec), Impl: impl, Key: "ms/" + mc.Kind + "/" + mc.Shape + "/" + strings.SplitN(impl, " ", 3)[0]})
				}
				for _, run := range []modRun{{false, false}, {true, false}, {false, true}, {true, true}} {
					c.Count("kind:" + mc.Kind)
					line, impl, ok := modOracle(c, mc, run)
					if !ok {
						if line == "" && mc.Expect == "ok" {
							c.Count("not-shipped-to-model")
						}
						continue
					}
					cls := strings.SplitN(strings.TrimPrefix(impl, "out="), " ", 2)[0]
					c.Add(Case{Line: line, Impl: impl, Key: fmt.Sprintf("%s/%s/%v/%v/%s", mc.Kind, mc.Shape, run.NoOpt, run.Enc, cls)})
				}
			}
		},
		Replay: func(line string) (string, error) {
			i := strings.LastIndex(line, "\t#")
			if i < 0 {
				return "", fmt.Errorf("modules line without case spec")
			}
			var raw []byte
			if _, err := fmt.Sscanf(line[i+2:], "%x", &raw); err != nil {
				return "", err
			}
			var rp modReplay
			if err := json.Unmarshal(raw, &rp); err != nil {
				return "", err
			}
			if strings.HasPrefix(line, "ms\t") {
				_, impl := msCase(&rp.Case)
				return impl, nil
			}
			bc, _, _, err, hung, pv := modCompile(&rp.Case, rp.Run)
			if err != nil || hung || pv != nil {
				return fmt.Sprintf("compile: err=%v hung=%v panic=%v", err, hung, pv), nil
			}
			impl, _ := runTraced(nil, bc, true, modGlobals(), nil, false)
			return impl, nil
		},
	})
}

// modInvokerScenarios: the FIRST import of a module happens inside a function that Go calls back
// through an Invoker (pooled / unpooled / strings.Map-style); later imports in the main script and
// in later callbacks must see the same object and the body must have run once (oracle only).
func modInvokerScenarios(c *Ctx) {
	mods := map[string]string{
		"cnt": "global log\nlog = append(log, \"cnt\")\nn := 0\nreturn {inc: func() { n++; return n }, get: func() { return n }}",
	}
	scripts := []string{
		"global (log, call)\nf := func() { return import(\"cnt\").inc() }\na := call(f)\nb := call(f)\nm := import(\"cnt\")\nreturn [a, b, m.inc(), m.get(), log]",
		"global (log, call)\nf := func(x) { m := import(\"cnt\"); m.inc(); return m }\na := call(f, 1)\nb := import(\"cnt\")\nreturn [a == b, b.get(), call(f, 2) == b, b.get(), log]",
		"global (log, call)\ng := func() { return call(func() { return import(\"cnt\").inc() }) }\nreturn [g(), g(), import(\"cnt\").get(), log]",
		"global (log, call)\nfor i := 0; i < 3; i++ { call(func() { import(\"cnt\").inc() }) }\nreturn [import(\"cnt\").get(), log]",
	}
	expect := []string{
		`[1, 2, 3, 3, ["cnt"]]`, `[true, 1, true, 2, ["cnt"]]`, `[1, 2, 2, ["cnt"]]`, `[3, ["cnt"]]`,
	}
	for _, pooled := range []bool{false, true} {
		for _, noopt := range []bool{false, true} {
			for i, src := range scripts {
				mm := ugo.NewModuleMap()
				for n, m := range mods {
					mm.AddSourceModule(n, []byte(m))
				}
				bc, err := ugo.Compile([]byte(src), ugo.CompilerOptions{ModuleMap: mm, NoOptimize: noopt})
				if err != nil {
					c.Violation(PropViolation{"C12", "invoker scenario does not compile: " + err.Error(), src, "C12:invoker-scenario-compile"})
					continue
				}
				call := &ugo.Function{Name: "call", ValueEx: func(cl ugo.Call) (ugo.Object, error) {
					inv := ugo.NewInvoker(cl.VM(), cl.Get(0))
					if pooled {
						inv.Acquire()
						defer inv.Release()
					}
					var as []ugo.Object
					for k := 1; k < cl.Len(); k++ {
						as = append(as, cl.Get(k))
					}
					return inv.Invoke(as...)
				}}
				ret, err := ugo.NewVM(bc).Run(ugo.Map{"log": ugo.Array{}, "call": call})
				got := ""
				if err != nil {
					got = "error: " + err.Error()
				} else {
					got = ret.String()
				}
				c.Count("invoker-scenario")
				if got != expect[i] {
					c.Violation(PropViolation{"C12", fmt.Sprintf("first import inside a Go-invoked function (pooled=%v, noopt=%v): got %s, want %s", pooled, noopt, got, expect[i]), src,
						fmt.Sprintf("C12:invoked-import:scenario%d", i)})
				}
			}
		}
	}
}
