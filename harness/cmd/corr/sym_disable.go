package main

import (
	"context"
	"encoding/hex"
	"encoding/json"
	"fmt"
	"sort"
	"strconv"
	"strings"
	"sync/atomic"

	"github.com/ozanh/ugo"

	"verifharness/codec"
	"verifharness/gen"
)

// stream `disable` (C13): a builtin disabled in the symbol table handed to the
// compiler cannot be reached by any script compiled with it.
//
// Part A (model-tied): `return <n>` compiled with a set D of disabled builtins.
// Part B (oracle on the implementation): generated scripts that reference a
// disabled builtin t at many syntactic placements, optionally declaring t
// themselves (in or out of scope of the reference), compiled with and without
// the optimizer, through Compile, source modules and Eval sessions.

const disPrivate = ":makeArray"

// disNames returns the builtin names that may be disabled (sorted).
func disNames() []string {
	var ns []string
	for n := range ugo.BuiltinsMap {
		if n != disPrivate {
			ns = append(ns, n)
		}
	}
	sort.Strings(ns)
	return ns
}

// ---------------------------------------------------------------------------
// Part A: model-tied cases

var disOtherIdents = []string{"foo", "bar", "x", "lenx", "Len", "_len", "in_t", "makeArray", "typename"}

func disLine(D []string, n string) string {
	hx := make([]string, len(D))
	for i, d := range D {
		hx[i] = codec.Hex([]byte(d))
	}
	return "disable\t" + strings.Join(hx, ",") + "\t" + codec.Hex([]byte(n))
}

func disFirstLine(s string) string {
	if i := strings.IndexByte(s, '\n'); i >= 0 {
		return s[:i]
	}
	return s
}

// disImpl is the implementation's answer for one model-tied request.
func disImpl(D []string, n string) (res string) {
	defer func() {
		if r := recover(); r != nil {
			res = fmt.Sprintf("other panic %v", r)
		}
	}()
	st := ugo.NewSymbolTable()
	st.DisableBuiltin(D...)
	bc, err := ugo.Compile([]byte("return "+n), ugo.CompilerOptions{SymbolTable: st, NoOptimize: true})
	if err != nil {
		if strings.Contains(err.Error(), `unresolved reference "`+n+`"`) {
			return "unresolved"
		}
		return "other " + disFirstLine(err.Error())
	}
	idx := -1
	ugo.IterateInstructions(bc.Main.Instructions, func(_ int, op ugo.Opcode, operands []int, _ int) bool {
		if op == ugo.OpGetBuiltin && idx < 0 {
			idx = operands[0]
		}
		return true
	})
	if idx >= 0 {
		return "builtin " + strconv.Itoa(idx)
	}
	return "other compiled without GETBUILTIN"
}

func disReplay(line string) (string, error) {
	f := strings.Split(line, "\t")
	if len(f) != 3 || f[0] != "disable" {
		return "", fmt.Errorf("bad disable line")
	}
	var D []string
	if f[1] != "" {
		for _, h := range strings.Split(f[1], ",") {
			b, err := hex.DecodeString(h)
			if err != nil {
				return "", err
			}
			D = append(D, string(b))
		}
	}
	nb, err := hex.DecodeString(f[2])
	if err != nil {
		return "", err
	}
	return disImpl(D, string(nb)), nil
}

func disSubset(r *gen.Rand, names []string, k int) []string {
	set := map[string]bool{}
	for len(set) < k && len(set) < len(names) {
		set[names[r.Intn(len(names))]] = true
	}
	var D []string
	for n := range set {
		D = append(D, n)
	}
	sort.Strings(D)
	return D
}

func disModelCases(c *Ctx, rnd *gen.Rand, names []string) {
	n := 300 * c.Scale
	for i := 0; i < n; i++ {
		D := disSubset(c.R, names, rnd.Intn(7))
		var name string
		inD := false
		switch k := rnd.Intn(3); {
		case k == 0 && len(D) > 0:
			name = D[rnd.Intn(len(D))]
			inD = true
		case k == 1:
			name = disOtherIdents[rnd.Intn(len(disOtherIdents))]
		default:
			name = names[rnd.Intn(len(names))]
			for _, d := range D {
				if d == name {
					inD = true
				}
			}
		}
		impl := disImpl(D, name)
		key := ""
		switch {
		case strings.HasPrefix(impl, "builtin "):
			key = "builtin"
		case impl == "unresolved" && inD:
			key = "unresolved-disabled"
		case impl == "unresolved":
			key = "unresolved-unknown"
		}
		c.Count("model:" + strings.SplitN(impl, " ", 2)[0])
		c.Add(Case{Line: disLine(D, name), Impl: impl, Key: key})
	}
}

// ---------------------------------------------------------------------------
// Part B: script generator

// names the templates know a sensible call expression for
var disFavoured = []string{
	"len", "int", "string", "append", "typeName", "error", "isInt", "sprintf", "bool", "char", "copy",
	"TypeError", "uint", "float", "bytes", "chars", "contains", "isString", "isError", "cap",
}

var disCallForms = map[string][]string{
	"len":         {`len([1,2])`, `len("abc")`},
	"int":         {`int("1")`, `int(2.5)`},
	"string":      {`string(1)`, `string('a')`},
	"append":      {`append([], 1)`, `append([1], 2, 3)`},
	"typeName":    {`typeName(1)`, `typeName("a")`},
	"error":       {`error("x")`},
	"isInt":       {`isInt(1)`, `isInt("a")`},
	"sprintf":     {`sprintf("%d", 1)`, `sprintf("a")`},
	"bool":        {`bool(0)`, `bool("a")`},
	"char":        {`char(65)`},
	"copy":        {`copy([1])`, `copy(1)`},
	"uint":        {`uint(1)`, `uint("2")`},
	"float":       {`float(1)`, `float("1.5")`},
	"bytes":       {`bytes("a")`, `bytes(1, 2)`},
	"chars":       {`chars("ab")`},
	"contains":    {`contains("abc", "b")`, `contains([1, 2], 2)`},
	"cap":         {`cap([1])`},
	"repeat":      {`repeat("a", 2)`, `repeat([1], 2)`},
	"sort":        {`sort([2, 1])`},
	"sortReverse": {`sortReverse([1, 2])`},
	"delete":      {`delete({a: 1}, "a")`},
	"globals":     {`globals()`},
	"isError":     {`isError(1)`},
	"isUint":      {`isUint(1u)`},
	"isFloat":     {`isFloat(1.0)`},
	"isChar":      {`isChar('a')`},
	"isBool":      {`isBool(true)`},
	"isString":    {`isString("a")`},
	"isBytes":     {`isBytes("a")`},
	"isMap":       {`isMap({})`},
	"isSyncMap":   {`isSyncMap({})`},
	"isArray":     {`isArray([])`},
	"isUndefined": {`isUndefined(undefined)`},
	"isFunction":  {`isFunction(1)`},
	"isCallable":  {`isCallable(1)`},
	"isIterable":  {`isIterable([1])`},
}

// builtins whose result is a string (so that `+ "a"` stays well typed and foldable)
var disStringy = map[string]bool{"string": true, "sprintf": true, "typeName": true}

func disIsErrorType(t string) bool {
	_, ok := ugo.BuiltinObjects[ugo.BuiltinsMap[t]].(*ugo.Error)
	return ok
}

func disPick(r *gen.Rand, xs []string) string { return xs[r.Intn(len(xs))] }

// disCallExpr returns an expression that calls (uses) t, "" if there is no call form.
func disCallExpr(r *gen.Rand, t string) string {
	var e string
	if fs, ok := disCallForms[t]; ok {
		e = disPick(r, fs)
	} else if disIsErrorType(t) {
		e = t + `.New("x")`
	} else {
		return "" // printf, println: never actually print
	}
	switch r.Intn(8) {
	case 0:
		e = "(" + e + ") == 1"
	case 1:
		e = "(" + e + ") || false"
	case 2:
		e = "!(" + e + ")"
	case 3:
		e = "[" + e + "][0]"
	case 4:
		if disStringy[t] {
			e = e + ` + "a"`
		}
	}
	return e
}

// disBareExpr returns an expression that only reads t as a value.
func disBareExpr(r *gen.Rand, t string) string {
	switch r.Intn(9) {
	case 0:
		return "(" + t + ")"
	case 1:
		return "[" + t + "]"
	case 2:
		return "{a: " + t + "}"
	case 3:
		return t + " == 1"
	case 4:
		return t + " ? 1 : 2"
	case 5:
		return "!" + t
	case 6:
		return "id(" + t + ")"
	}
	return t
}

// disRefStmt embeds expression e in a statement.
func disRefStmt(r *gen.Rand, e string, allowReturn bool) (stmt, kind string) {
	switch r.Intn(11) {
	case 0:
		return "x1 := " + e, "define"
	case 1:
		return "var y1 = " + e, "var"
	case 2:
		return "const c1 = " + e, "const"
	case 3:
		if allowReturn {
			return "return " + e, "return"
		}
	case 4:
		return "r = id(" + e + ")", "arg"
	case 5:
		return "r = [" + e + ", 1]", "array"
	case 6:
		return "r = {k: " + e + "}", "map"
	case 7:
		if r.Bool() {
			return "r = v ? " + e + " : 3", "cond"
		}
		return "r = v ? 3 : " + e, "cond"
	case 8:
		return "if (" + e + ") {\nr = 1\n}", "ifcond"
	}
	return "r = " + e, "assign"
}

var disInner = []string{
	"top", "func", "closure2", "funcif", "if", "else", "elseif", "for", "forin",
	"try", "catch", "finally", "cond", "fold", "const", "funcarg",
}

// disPlace wraps statement s at the inner placement; call != "" when the
// reference sits in a function literal that is called by a later statement.
func disPlace(inner, s string) (def, call string) {
	switch inner {
	case "func":
		return "fn := func() {\n" + s + "\nreturn r\n}", "r = fn()"
	case "closure2":
		return "o := 7\nfn := func() {\np := o\nreturn func() {\nr = o + p\n" + s + "\nreturn r\n}\n}", "r = fn()()"
	case "funcif":
		return "fn := func(a) {\nif a {\n" + s + "\n}\nreturn r\n}", "r = fn(v)"
	case "if":
		return "if v {\n" + s + "\n}", ""
	case "else":
		return "if !v {\nr = 1\n} else {\n" + s + "\n}", ""
	case "elseif":
		return "if !v {\nr = 1\n} else if v {\n" + s + "\n}", ""
	case "for":
		return "for i := 0; i < 2; i++ {\n" + s + "\n}", ""
	case "forin":
		return "for k1, e1 in [1, 2] {\n" + s + "\n}", ""
	case "try":
		return "try {\n" + s + "\n} catch e1 {\nr = 1\n} finally {\nr = 2\n}", ""
	case "catch":
		return "try {\nthrow \"e\"\n} catch e1 {\n" + s + "\n}", ""
	case "finally":
		return "try {\nr = 1\n} finally {\n" + s + "\n}", ""
	}
	return s, ""
}

var disDeclKinds = []string{"local", "var", "const", "destruct", "param", "global", "fparam", "forkey", "forval", "catch"}

// disPlainDecl is a declaration statement of t in the current scope.
func disPlainDecl(r *gen.Rand, kind, t string) string {
	switch kind {
	case "local":
		return t + " := 5"
	case "var":
		if r.Bool() {
			return "var " + t
		}
		return "var " + t + " = 2"
	case "const":
		return "const " + t + " = 1"
	case "destruct":
		if r.Bool() {
			return t + ", zz := [1, 2]"
		}
		return "zz, " + t + " := [1, 2]"
	case "param":
		if r.Bool() {
			return "param " + t
		}
		return "param (pz, " + t + ")"
	case "global":
		return "global " + t
	}
	return ""
}

// disClosedDecl declares t in a scope that has ended when the statement ends
// (self-contained, usable in any file).
func disClosedDecl(r *gen.Rand, kind, t string) string {
	switch kind {
	case "local", "var", "const", "destruct":
		d := disPlainDecl(r, kind, t)
		switch r.Intn(3) {
		case 0:
			return "if true {\n" + d + "\n}"
		case 1:
			return "func() {\n" + d + "\nreturn " + t + "\n}()"
		}
		return "fz := func() {\n" + d + "\nreturn " + t + "\n}"
	case "fparam":
		if r.Bool() {
			return "fz := func(" + t + ") {\nreturn " + t + "\n}\nfz(1)"
		}
		return "fz := func(az, ..." + t + ") {\nreturn " + t + "\n}"
	case "forkey":
		return "for " + t + ", ez in [1] {\nez = " + t + "\n}"
	case "forval":
		return "for kz, " + t + " in [1] {\nkz = " + t + "\n}"
	case "catch":
		return "try {\nthrow \"e\"\n} catch " + t + " {\n}"
	}
	return ""
}

// disWrapDecl puts body w inside a construct that declares t.
func disWrapDecl(kind, t, w string) string {
	switch kind {
	case "fparam":
		return "fw := func(" + t + ") {\n" + w + "\nreturn r\n}\nr = fw(1)"
	case "forkey":
		return "for " + t + ", e9 in [1] {\n" + w + "\n}"
	case "forval":
		return "for k9, " + t + " in [1] {\n" + w + "\n}"
	case "catch":
		return "try {\nthrow \"e\"\n} catch " + t + " {\n" + w + "\n}"
	}
	return w
}

// disGen is one generated case (exported fields form the replayable input).
type disGen struct {
	D         []string          `json:"D"`
	T         string            `json:"t"`
	Mode      string            `json:"mode"` // compile | eval
	NoOpt     bool              `json:"noopt"`
	Modules   map[string]string `json:"modules,omitempty"`
	Fragments []string          `json:"fragments"` // compile mode: the main script only
	RefFrag   int               `json:"ref_fragment"`
	Placement string            `json:"placement"`
	Decl      string            `json:"decl"`
	Scope     string            `json:"decl_scope"`
	Declared  bool              `json:"declared"`

	filePl, inner, stmtKind, exprKind string
}

func (g *disGen) input() string {
	b, _ := json.Marshal(g)
	return string(b)
}

func (g *disGen) opt() string {
	if g.NoOpt {
		return "noopt"
	}
	return "opt"
}

var disFilePl = []string{"main", "main", "main", "mod1", "mod2", "eval2", "eval3", "evalmod"}

func disChooseD(r *gen.Rand, names []string) (D []string, t string) {
	if r.Intn(10) < 7 {
		t = disPick(r, disFavoured)
	} else {
		t = disPick(r, names)
	}
	set := map[string]bool{t: true}
	k := 1 + r.Intn(5)
	for tries := 0; len(set) < k && tries < 50; tries++ {
		if r.Bool() {
			set[disPick(r, disFavoured)] = true
		} else {
			set[disPick(r, names)] = true
		}
	}
	for n := range set {
		D = append(D, n)
	}
	sort.Strings(D)
	return D, t
}

func disGenerate(r *gen.Rand, names []string) *disGen {
	g := &disGen{Modules: map[string]string{}}
	g.D, g.T = disChooseD(r, names)
	t := g.T
	g.NoOpt = r.Bool()
	g.filePl = disPick(r, disFilePl)
	g.inner = disPick(r, disInner)
	isEval := strings.HasPrefix(g.filePl, "eval")
	bodyInModule := g.filePl == "mod1" || g.filePl == "mod2" || g.filePl == "evalmod"

	// declaration of t by the script
	g.Decl, g.Scope = "", "none"
	if r.Intn(10) < 4 {
		g.Decl = disPick(r, disDeclKinds)
		g.Declared = true
		var scopes []string
		switch g.Decl {
		case "local", "var", "const", "destruct":
			scopes = []string{"in-head", "in-inner", "out-block", "out-after", "out-between", "out-otherfile"}
			if isEval {
				scopes = append(scopes, "out-prevfrag", "out-laterfrag")
				if !bodyInModule {
					scopes = append(scopes, "in-prevfrag")
				}
			}
		case "param", "global":
			scopes = []string{"in-head", "out-otherfile"}
			if isEval && !bodyInModule {
				scopes = append(scopes, "in-prevfrag")
			}
		default: // fparam forkey forval catch
			scopes = []string{"in-wrap", "out-block", "out-after", "out-between", "out-otherfile"}
			if isEval {
				scopes = append(scopes, "out-prevfrag")
			}
		}
		g.Scope = disPick(r, scopes)
	}
	shadowed := strings.HasPrefix(g.Scope, "in-")

	// reference expression
	call := disCallExpr(r, t)
	var e string
	switch {
	case g.inner == "funcarg":
		e, g.exprKind = "id("+t+")", "bare"
	case g.inner == "fold" && call != "":
		e, g.exprKind = call, "call"
	case call != "" && ((!shadowed && r.Intn(10) < 6) || (shadowed && r.Intn(4) == 0)):
		e, g.exprKind = call, "call"
	default:
		e, g.exprKind = disBareExpr(r, t), "bare"
	}

	// reference statement
	var s string
	switch g.inner {
	case "cond":
		if r.Bool() {
			s = "r = v ? " + e + " : 3"
		} else {
			s = "r = v ? 3 : (" + e + ")"
		}
		g.stmtKind = "cond"
	case "const":
		s, g.stmtKind = "const c1 = "+e, "const"
	case "fold":
		if r.Bool() {
			s, g.stmtKind = "const c1 = "+e, "const"
		} else {
			s, g.stmtKind = "r = "+e, "assign"
		}
	case "funcarg":
		s, g.stmtKind = "r = "+e, "assign"
	default:
		allowRet := g.inner != "try" && g.inner != "catch" && g.inner != "finally"
		s, g.stmtKind = disRefStmt(r, e, allowRet)
	}
	if g.Scope == "in-inner" {
		s = disPlainDecl(r, g.Decl, t) + "\n" + s
	}
	def, callStmt := disPlace(g.inner, s)

	// the body: the file (or fragment) that contains the reference
	var pre, head, mid, tail []string
	head = append(head, "r := 0", "v := [1, 0][0]", "id := func(x) {\nreturn x\n}")
	if len(g.D) > 1 && r.Intn(5) == 0 {
		// decoy: the script declares another disabled name, never t
		for _, u := range g.D {
			if u != t {
				head = append(head, u+" := 1")
				break
			}
		}
	}
	if r.Intn(5) == 0 && g.Scope != "in-inner" && g.Scope != "in-head" {
		// a literal const in scope and the reference inside a binary expression with it: the compiler
		// then re-runs the optimizer on that expression with its live symbol table
		head = append(head, "const k9 = 1")
		s = "r = (" + e + ") == k9"
		g.stmtKind = "assign-constbin"
		def, callStmt = disPlace(g.inner, s)
	}
	if r.Intn(3) == 0 {
		// the script shadows some OTHER builtin that is not disabled (the optimizer then takes the
		// path that merges shadowed names and host-disabled names into the evaluator's table)
		for _, u := range []string{"error", "cap", "chars", "isMap", "sortReverse", "copy"} {
			inD := u == t
			for _, d := range g.D {
				if d == u {
					inD = true
				}
			}
			if !inD {
				head = append(head, u+" := 1")
				break
			}
		}
	}
	if isEval && r.Bool() {
		head = append(head, "r = g0(a0)")
	}
	switch g.Scope {
	case "in-head":
		d := disPlainDecl(r, g.Decl, t)
		if g.Decl == "param" || g.Decl == "global" {
			pre = append(pre, d)
		} else {
			head = append(head, d)
		}
	case "out-block":
		head = append(head, disClosedDecl(r, g.Decl, t))
	}
	switch {
	case g.Scope == "in-wrap":
		w := def
		if callStmt != "" {
			w += "\n" + callStmt
		}
		mid = append(mid, disWrapDecl(g.Decl, t, w))
	case g.Scope == "out-between" || g.Scope == "out-after":
		if g.Scope == "out-between" && callStmt == "" {
			g.Scope = "out-after"
		}
		// A plain declaration after the reference cannot sit in the root scope
		// of a file: with nothing disabled the reference caches the builtin
		// symbol there and the declaration is a redeclaration error.  So the
		// reference and the later declaration share a block or function scope.
		d := disOutDecl(r, g.Decl, t)
		l := []string{def}
		if g.Scope == "out-between" {
			l = append(l, d, callStmt)
		} else {
			if callStmt != "" {
				l = append(l, callStmt)
			}
			l = append(l, d)
		}
		w := strings.Join(l, "\n")
		switch r.Intn(3) {
		case 0:
			mid = append(mid, "if id(1) {\n"+w+"\n}")
		case 1:
			mid = append(mid, "fa := func() {\n"+w+"\nreturn r\n}\nr = fa()")
		default:
			mid = append(mid, "for ka, ea in [1] {\n"+w+"\n}")
		}
	default:
		mid = append(mid, def)
		if callStmt != "" {
			mid = append(mid, callStmt)
		}
	}

	// the other files / fragments
	var mainPre, mainHead []string // only used when the body is inside a module
	frag0 := []string{"a0 := 1", "g0 := func(x) {\nreturn x + 1\n}"}
	frag1 := []string{"a1 := g0(a0)", "g1 := func() {\nreturn a1\n}"}
	var fragLast []string
	switch g.Scope {
	case "out-otherfile":
		if bodyInModule {
			d := disPlainDecl(r, g.Decl, t)
			switch {
			case g.Decl == "param" || g.Decl == "global":
				mainPre = append(mainPre, d)
			case d != "" && r.Bool():
				mainHead = append(mainHead, d)
			default:
				mainHead = append(mainHead, disClosedDecl(r, g.Decl, t))
			}
		} else {
			d := disPlainDecl(r, g.Decl, t)
			if d == "" || r.Intn(3) == 0 && g.Decl != "param" && g.Decl != "global" {
				d = disClosedDecl(r, g.Decl, t)
			}
			g.Modules["m9"] = d + "\nreturn 1"
			head = append(head, `mz := import("m9")`)
		}
	case "in-prevfrag":
		d := disPlainDecl(r, g.Decl, t)
		if g.Decl == "param" || g.Decl == "global" {
			frag0 = append([]string{d}, frag0...)
		} else {
			frag0 = append(frag0, d)
		}
	case "out-prevfrag":
		frag0 = append(frag0, disClosedDecl(r, g.Decl, t))
	case "out-laterfrag":
		// (in a block: at the root scope it would be a redeclaration of the
		// builtin symbol cached by the reference when nothing is disabled)
		fragLast = append(fragLast, "a9 := 1", "if a9 {\n"+disPlainDecl(r, g.Decl, t)+"\n}")
	}

	body := strings.Join(pre, "\n")
	if body != "" {
		body += "\n"
	}
	body += strings.Join(head, "\n") + "\n" + strings.Join(mid, "\n") + "\n"
	if len(tail) > 0 {
		body += strings.Join(tail, "\n") + "\n"
	}
	body += "return r"

	importer := func(mod string) string {
		var l []string
		l = append(l, mainPre...)
		l = append(l, mainHead...)
		// the import expression at the top level, or inside a function / block / loop (the compiler is
		// then in a nested scope when it creates the module's symbol table)
		switch r.Intn(6) {
		case 0:
			l = append(l, `mm := import("`+mod+`")`, "return mm")
		case 1:
			l = append(l, `return import("`+mod+`")`)
		case 2:
			l = append(l, `imp9 := func() {`, `  return import("`+mod+`")`, `}`, "return imp9()")
		case 3:
			l = append(l, "c9 := 1", "if c9 {", `  return import("`+mod+`")`, "}", "return 0")
		case 4:
			l = append(l, "for i9 := 0; i9 < 1; i9++ {", `  return import("`+mod+`")`, "}", "return 0")
		default:
			l = append(l, `imp9 := func() {`, `  return func() { return import("`+mod+`") }`, `}`, "return imp9()()")
		}
		return strings.Join(l, "\n")
	}

	switch g.filePl {
	case "main":
		g.Mode = "compile"
		g.Fragments = []string{body}
	case "mod1":
		g.Mode = "compile"
		g.Modules["m1"] = body
		g.Fragments = []string{importer("m1")}
	case "mod2":
		g.Mode = "compile"
		g.Modules["m2"] = body
		if r.Bool() {
			g.Modules["m1"] = "q := 1\nm2v := import(\"m2\")\nreturn [q, m2v]"
		} else {
			g.Modules["m1"] = "q := 1\nlazy := func() {\n  return import(\"m2\")\n}\nreturn [q, lazy()]"
		}
		g.Fragments = []string{importer("m1")}
	case "eval2":
		g.Mode = "eval"
		g.Fragments = []string{strings.Join(frag0, "\n"), body}
		g.RefFrag = 1
	case "eval3":
		g.Mode = "eval"
		g.Fragments = []string{strings.Join(frag0, "\n"), strings.Join(frag1, "\n"), body}
		g.RefFrag = 2
	case "evalmod":
		g.Mode = "eval"
		// the module body cannot see the session's g0/a0
		g.Modules["m1"] = strings.Replace(body, "r = g0(a0)\n", "", 1)
		g.Fragments = []string{strings.Join(frag0, "\n"), importer("m1")}
		g.RefFrag = 1
	}
	if len(fragLast) > 0 {
		g.Fragments = append(g.Fragments, strings.Join(fragLast, "\n"))
	}
	g.Placement = g.filePl + "/" + g.inner
	return g
}

// disOutDecl is a declaration placed after (or between definition and call of)
// the reference, at the top level of the body.
func disOutDecl(r *gen.Rand, kind, t string) string {
	if d := disPlainDecl(r, kind, t); d != "" && kind != "param" && kind != "global" {
		return d
	}
	return disClosedDecl(r, kind, t)
}

// ---------------------------------------------------------------------------
// Part B: oracle

// disCounter records calls of wrapped (disabled) builtins.
type disCounter struct {
	n     int64
	names [4]atomic.Value
}

func (dc *disCounter) hit(name string) {
	i := atomic.AddInt64(&dc.n, 1)
	if i <= int64(len(dc.names)) {
		dc.names[i-1].Store(name)
	}
}

func (dc *disCounter) count() int64 { return atomic.LoadInt64(&dc.n) }

func (dc *disCounter) who() string {
	var l []string
	for i := range dc.names {
		if s, ok := dc.names[i].Load().(string); ok {
			l = append(l, s)
		}
	}
	return strings.Join(l, ",")
}

// disInstall replaces the BuiltinObjects entries of D by recording wrappers
// and returns the function that restores the original entries.
func disInstall(D []string, dc *disCounter) (restore func()) {
	type saved struct {
		idx ugo.BuiltinType
		obj ugo.Object
	}
	var sv []saved
	for _, name := range D {
		idx, ok := ugo.BuiltinsMap[name]
		if !ok || name == disPrivate {
			continue
		}
		orig, ok := ugo.BuiltinObjects[idx].(*ugo.BuiltinFunction)
		if !ok {
			continue
		}
		nm := name
		w := &ugo.BuiltinFunction{Name: orig.Name}
		if orig.Value != nil {
			w.Value = func(args ...ugo.Object) (ugo.Object, error) {
				dc.hit(nm)
				return orig.Value(args...)
			}
		}
		if orig.ValueEx != nil {
			w.ValueEx = func(cl ugo.Call) (ugo.Object, error) {
				dc.hit(nm)
				return orig.ValueEx(cl)
			}
		}
		sv = append(sv, saved{idx, orig})
		ugo.BuiltinObjects[idx] = w
	}
	return func() {
		for _, s := range sv {
			ugo.BuiltinObjects[s.idx] = s.obj
		}
	}
}

// disScan returns the names of D for which bc contains a GETBUILTIN.
func disScan(bc *ugo.Bytecode, D []string) []string {
	if bc == nil {
		return nil
	}
	byIdx := map[int]string{}
	for _, d := range D {
		if idx, ok := ugo.BuiltinsMap[d]; ok {
			byIdx[int(idx)] = d
		}
	}
	found := map[string]bool{}
	scan := func(cf *ugo.CompiledFunction) {
		if cf == nil {
			return
		}
		ugo.IterateInstructions(cf.Instructions, func(_ int, op ugo.Opcode, operands []int, _ int) bool {
			if op == ugo.OpGetBuiltin {
				if n, ok := byIdx[operands[0]]; ok {
					found[n] = true
				}
			}
			return true
		})
	}
	scan(bc.Main)
	for _, k := range bc.Constants {
		if cf, ok := k.(*ugo.CompiledFunction); ok {
			scan(cf)
		}
	}
	var l []string
	for n := range found {
		l = append(l, n)
	}
	sort.Strings(l)
	return l
}

func disModuleMap(mods map[string]string) *ugo.ModuleMap {
	mm := ugo.NewModuleMap()
	var ks []string
	for k := range mods {
		ks = append(ks, k)
	}
	sort.Strings(ks)
	for _, k := range ks {
		mm.AddSourceModule(k, []byte(mods[k]))
	}
	return mm
}

func disCompile(src string, opts ugo.CompilerOptions) (bc *ugo.Bytecode, err error) {
	defer func() {
		if r := recover(); r != nil {
			bc, err = nil, fmt.Errorf("panic in Compile: %v", r)
		}
	}()
	return ugo.Compile([]byte(src), opts)
}

func disRunVM(bc *ugo.Bytecode) (err error) {
	defer func() {
		if r := recover(); r != nil {
			err = fmt.Errorf("panic in VM: %v", r)
		}
	}()
	_, err = ugo.NewVM(bc).Run(nil)
	return err
}

func disEvalRun(ev *ugo.Eval, src string) (bc *ugo.Bytecode, err error) {
	defer func() {
		if r := recover(); r != nil {
			bc, err = nil, fmt.Errorf("panic in Eval.Run: %v", r)
		}
	}()
	_, bc, err = ev.Run(context.Background(), []byte(src))
	return bc, err
}

// disFragResult is the outcome of one fragment: compiled (bc != nil) or the
// compile error.
type disFragResult struct {
	bc  *ugo.Bytecode
	err error // compile error when bc == nil, run error otherwise
}

// disExec compiles (and runs) the case with `disabled` disabled.
func disExec(g *disGen, disabled []string, run bool) []disFragResult {
	st := ugo.NewSymbolTable()
	st.DisableBuiltin(disabled...)
	opts := ugo.CompilerOptions{SymbolTable: st, NoOptimize: g.NoOpt, ModuleMap: disModuleMap(g.Modules)}
	var res []disFragResult
	if g.Mode == "compile" {
		bc, err := disCompile(g.Fragments[0], opts)
		if err == nil && bc != nil && run {
			err = disRunVM(bc)
		}
		return append(res, disFragResult{bc, err})
	}
	ev := ugo.NewEval(opts, nil)
	for _, f := range g.Fragments {
		bc, err := disEvalRun(ev, f)
		res = append(res, disFragResult{bc, err})
	}
	return res
}

func disCheck(c *Ctx, g *disGen) {
	// generator self-check: with nothing disabled every fragment compiles
	for _, fr := range disExec(g, nil, false) {
		if fr.bc == nil {
			c.Count("gen-invalid")
			c.Count("gen-invalid:" + g.Placement + ":" + g.Decl + ":" + g.Scope)
			return
		}
	}
	c.Count("file:" + g.filePl)
	c.Count("inner:" + g.inner)
	c.Count("stmt:" + g.stmtKind)
	c.Count("expr:" + g.exprKind)
	c.Count("decl:" + g.Decl + "/" + g.Scope)
	c.Count("mode:" + g.opt())

	dc := &disCounter{}
	restore := disInstall(g.D, dc)
	defer restore()

	// compile mode: split compile and run so that compile-time calls are told apart
	var res []disFragResult
	var atCompile int64
	if g.Mode == "compile" {
		res = disExec(g, g.D, false)
		atCompile = dc.count()
		if res[0].bc != nil {
			res[0].err = disRunVM(res[0].bc)
		}
	} else {
		res = disExec(g, g.D, true)
	}
	restore()

	sfx := ":" + g.Placement + ":" + g.opt()
	for i := 0; i < g.RefFrag && i < len(res); i++ {
		if res[i].bc == nil {
			c.Count("outcome:prefix-fragment-failed")
			c.Violation(PropViolation{"C13", "a fragment before the reference does not compile once D is disabled: " + disFirstLine(fmt.Sprint(res[i].err)), g.input(), "C13:prefix-failed" + sfx})
			return
		}
	}
	ref := res[g.RefFrag]
	want := `unresolved reference "` + g.T + `"`
	switch {
	case ref.bc == nil && strings.Contains(fmt.Sprint(ref.err), want):
		if g.Declared {
			c.Count("outcome:compile-error-declared-" + strings.SplitN(g.Scope, "-", 2)[0])
		} else {
			c.Count("outcome:compile-error")
		}
	case ref.bc == nil:
		c.Count("outcome:other-compile-error")
		c.Violation(PropViolation{"C13", "compilation fails with another error: " + disFirstLine(fmt.Sprint(ref.err)), g.input(), "C13:wrong-error" + sfx})
	case g.Declared:
		if ref.err != nil {
			c.Count("outcome:ok-declared-" + strings.SplitN(g.Scope, "-", 2)[0] + "-runerr")
		} else {
			c.Count("outcome:ok-declared-" + strings.SplitN(g.Scope, "-", 2)[0])
		}
	default:
		c.Count("outcome:ref-compiled")
		c.Violation(PropViolation{"C13", "script referencing disabled builtin " + g.T + " (never declared by the script) compiles", g.input(), "C13:ref-compiled" + sfx})
	}
	for _, fr := range res {
		if l := disScan(fr.bc, g.D); len(l) > 0 {
			c.Violation(PropViolation{"C13", "bytecode contains GETBUILTIN of disabled " + strings.Join(l, ","), g.input(), "C13:getbuiltin" + sfx})
			break
		}
	}
	if atCompile > 0 {
		c.Violation(PropViolation{"C13", fmt.Sprintf("disabled builtin called %d time(s) during compilation: %s", atCompile, dc.who()), g.input(), "C13:called-at-compile" + sfx})
	}
	if n := dc.count() - atCompile; n > 0 {
		c.Violation(PropViolation{"C13", fmt.Sprintf("disabled builtin called %d time(s): %s", n, dc.who()), g.input(), "C13:called" + sfx})
	}
}

// ---------------------------------------------------------------------------
// Part B (4): disable after use

type disAfterUse struct {
	T        string            `json:"t"`
	Mode     string            `json:"mode"` // eval | compile-twice
	NoOpt    bool              `json:"noopt"`
	Modules  map[string]string `json:"modules,omitempty"`
	First    string            `json:"first"`
	Second   string            `json:"second"` // compiled after DisableBuiltin(t)
	UseKind  string            `json:"use"`
	RefKind  string            `json:"ref"`
	Disabled []string          `json:"disabled_before"`
}

func disAfterUseCase(c *Ctx, r *gen.Rand, names []string) {
	g := &disAfterUse{Modules: map[string]string{}, NoOpt: r.Bool()}
	if r.Intn(10) < 8 {
		g.T = disPick(r, disFavoured)
	} else {
		g.T = disPick(r, names)
	}
	t := g.T
	g.Mode = "eval"
	if r.Bool() {
		g.Mode = "compile-twice"
	}
	if r.Intn(3) == 0 {
		// some other names already disabled from the start
		for _, n := range disSubset(r, names, 1+r.Intn(3)) {
			if n != t {
				g.Disabled = append(g.Disabled, n)
			}
		}
	}
	use := disCallExpr(r, t)
	if use == "" || r.Intn(4) == 0 {
		use = disBareExpr(r, t)
	}
	head := "id := func(x) {\nreturn x\n}\n"
	switch r.Intn(4) {
	case 0:
		g.UseKind = "top"
		g.First = head + "u1 := " + use
	case 1:
		g.UseKind = "func"
		g.First = head + "uf := func() {\nreturn " + use + "\n}\nu1 := uf()"
	case 2:
		g.UseKind = "closure2"
		g.First = head + "uo := 1\nuf := func() {\nreturn func() {\nreturn [uo, " + use + "]\n}\n}\nu1 := uf()()"
	default:
		g.UseKind = "block"
		g.First = head + "u1 := 0\nif id(1) {\nu1 = " + use + "\n}"
	}
	ref := disCallExpr(r, t)
	if ref == "" || r.Intn(3) == 0 {
		ref = disBareExpr(r, t)
	}
	head2 := ""
	if g.Mode == "compile-twice" {
		head2 = "id2 := func(x) {\nreturn x\n}\n"
		ref = strings.Replace(ref, "id(", "id2(", 1)
	}
	switch r.Intn(5) {
	case 0:
		g.RefKind = "top"
		g.Second = head2 + "w1 := " + ref
	case 1:
		g.RefKind = "func"
		g.Second = head2 + "wf := func() {\nreturn " + ref + "\n}\nw1 := wf()"
	case 2:
		g.RefKind = "closure2"
		g.Second = head2 + "wo := 1\nwf := func() {\nreturn func() {\nreturn [wo, " + ref + "]\n}\n}\nw1 := wf()()"
	case 3:
		g.RefKind = "module"
		g.Modules["m1"] = "id := func(x) {\nreturn x\n}\nreturn " + strings.Replace(ref, "id2(", "id(", 1)
		g.Second = "w1 := import(\"m1\")"
	default:
		g.RefKind = "const"
		g.Second = head2 + "const w1 = " + ref
	}
	opt := "opt"
	if g.NoOpt {
		opt = "noopt"
	}
	input := func() string { b, _ := json.Marshal(g); return string(b) }

	dc := &disCounter{}
	st := ugo.NewSymbolTable()
	st.DisableBuiltin(g.Disabled...)
	opts := ugo.CompilerOptions{SymbolTable: st, NoOptimize: g.NoOpt, ModuleMap: disModuleMap(g.Modules)}
	var bc2 *ugo.Bytecode
	var err2 error
	if g.Mode == "eval" {
		ev := ugo.NewEval(opts, nil)
		bc1, _ := disEvalRun(ev, g.First)
		if bc1 == nil {
			c.Count("gen-invalid")
			c.Count("gen-invalid:after-use:" + g.UseKind)
			return
		}
		st.DisableBuiltin(t)
		restore := disInstall([]string{t}, dc)
		defer restore()
		bc2, err2 = disEvalRun(ev, g.Second)
	} else {
		bc1, err := disCompile(g.First, opts)
		if err != nil || bc1 == nil {
			c.Count("gen-invalid")
			c.Count("gen-invalid:after-use:" + g.UseKind)
			return
		}
		st.DisableBuiltin(t)
		restore := disInstall([]string{t}, dc)
		defer restore()
		bc2, err2 = disCompile(g.Second, opts)
		if bc2 != nil {
			disRunVM(bc2)
		}
	}
	c.Count("after-use:" + g.Mode + ":" + g.UseKind + ">" + g.RefKind)
	c.Count("after-use:" + opt)
	sig := "C13:disable-after-use:" + opt
	switch {
	case bc2 == nil && strings.Contains(fmt.Sprint(err2), `unresolved reference "`+t+`"`):
		c.Count("outcome:after-use-compile-error")
	case bc2 == nil:
		c.Count("outcome:after-use-other-error")
		c.Violation(PropViolation{"C13", "after DisableBuiltin the second script fails with another error: " + disFirstLine(fmt.Sprint(err2)), input(), sig})
	default:
		c.Count("outcome:after-use-compiled")
		what := "script referencing " + t + " compiles after DisableBuiltin(" + t + ") on the reused symbol table"
		if l := disScan(bc2, []string{t}); len(l) > 0 {
			what += "; bytecode contains GETBUILTIN " + t
		}
		c.Violation(PropViolation{"C13", what, input(), sig})
	}
	if dc.count() > 0 {
		c.Violation(PropViolation{"C13", "disabled builtin called while compiling the second script: " + dc.who(), input(), sig})
	}
}

func init() {
	register(&Stream{
		Name: "disable",
		Run: func(c *Ctx) {
			c.Rule("A (model-tied): random D (0..6 builtin names, never :makeArray) and a name n (member of D / other builtin / non-builtin identifier); the answer is how `return n` compiles with D disabled (GETBUILTIN index, unresolved reference, other). " +
				"B (oracle, independent PRNG fork per case): D of 1..5 names biased to the names the templates can call, a target t in D, a reference expression (call of t with constant arguments, possibly inside a foldable constant expression, or a bare read / argument pass), a statement form (assign, define, var, const, return, argument, array/map element, conditional-expression branch with a runtime condition, if condition), an inner placement (top level, called function, closure two levels deep capturing an outer local, if/else/for/for-in/try/catch/finally body, const initializer, folded constant) and a file placement (main script, imported source module, module imported by a module, 2nd/3rd fragment of an Eval session, module imported by a later fragment); in 40% of the cases the script also declares t (:=, var, const, destructuring, param, global, function parameter, for-in key/value, catch identifier) either in scope of the reference or out of scope (ended block/function, after the reference, between function definition and call, other file, other fragment); optimizer on/off at random. Every script is first compiled with nothing disabled (must compile, else counted gen-invalid and skipped). Checked: never-declared => compile error `unresolved reference \"t\"`; any produced bytecode (Main and every CompiledFunction constant, every fragment) has no GETBUILTIN of a name in D; BuiltinObjects entries of D are replaced by counting wrappers before compilation and no wrapper is called during compilation or the run. Plus disable-after-use: one symbol table, first script/fragment uses t, host disables t, second script/fragment must not compile.")
			names := disNames()
			// gen.NewRand(seed+1) is gen.NewRand(seed) advanced by one step, so
			// consecutive seeds would replay the same forks shifted by one case;
			// a forked root (state = a mixed output) decorrelates the seeds.
			root := c.R.Fork()
			disModelCases(c, root.Fork(), names)
			disDeadBranchOracle(c)
			disRepeatOracle(c)
			n := 1500 * c.Scale
			for i := 0; i < n; i++ {
				disCheck(c, disGenerate(root.Fork(), names))
			}
			m := 200 * c.Scale
			for i := 0; i < m; i++ {
				disAfterUseCase(c, root.Fork(), names)
			}
		},
		Replay: disReplay,
	})
}
