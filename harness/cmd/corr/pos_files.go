package main

import (
	"errors"
	"fmt"
	"os"
	"path/filepath"
	"regexp"
	"strings"

	"github.com/ozanh/ugo"
	"github.com/ozanh/ugo/importers"
)

// C16 for source modules read from disk (importers.FileImporter with the documented ShebangReadFile
// reader): a file that starts with an interpreter line keeps its line numbering, with and without CRLF
// line ends, with the optimizer on and off.  The expected lines are the lines of the statements in the
// text as written.  Oracle only.
func posFilesOracle(c *Ctx) {
	root, err := os.MkdirTemp("", "corr-posfiles-")
	if err != nil {
		return
	}
	defer os.RemoveAll(root)
	lineRe := regexp.MustCompile(`([A-Za-z0-9_./()-]+):(\d+):(\d+)`)
	type fcase struct {
		name, calc string
		want       []string // file:line, outermost first
	}
	calcBody := "ratio := func(a, b) {\n  x := 1\n  return a / b\n}\n\nreturn {ratio: ratio}\n"
	cases := []fcase{
		{"shebang", "#!/usr/bin/env ugo\n" + calcBody, []string{"(main):3", "calc.ugo:4"}},
		{"shebang-two-comment-lines", "#!/usr/bin/env ugo\n// second line\n" + calcBody, []string{"(main):3", "calc.ugo:5"}},
		{"no-shebang", calcBody, []string{"(main):3", "calc.ugo:3"}},
		{"shebang-crlf", strings.ReplaceAll("#!/usr/bin/env ugo\n"+calcBody, "\n", "\r\n"), []string{"(main):3", "calc.ugo:4"}},
		{"shebang-only-then-code-on-line-2", "#!x\nreturn {ratio: func(a, b) { return a / b }}\n", []string{"(main):3", "calc.ugo:2"}},
	}
	for _, fc := range cases {
		for _, noOpt := range []bool{true, false} {
			c.dist["oracle:pos-files"]++
			if err := os.WriteFile(filepath.Join(root, "calc.ugo"), []byte(fc.calc), 0o644); err != nil {
				return
			}
			mm := ugo.NewModuleMap().SetExtImporter(&importers.FileImporter{WorkDir: root, FileReader: importers.ShebangReadFile})
			src := "calc := import(\"calc.ugo\")\nn := 0\nr := calc.ratio(1, n)\nreturn r\n"
			bc, err := ugo.Compile([]byte(src), ugo.CompilerOptions{ModuleMap: mm, NoOptimize: noOpt})
			if err != nil {
				c.Violation(PropViolation{"C16", "file-module script does not compile: " + semFirstLine(err.Error()), fc.calc, "C16:files-compile:" + fc.name})
				continue
			}
			_, err = ugo.NewVM(bc).Run(nil)
			var re *ugo.RuntimeError
			if !errors.As(err, &re) {
				c.Violation(PropViolation{"C16", fmt.Sprintf("expected a runtime error, got %v", err), fc.calc, "C16:files-no-error:" + fc.name})
				continue
			}
			var got []string
			for _, m := range lineRe.FindAllStringSubmatch(fmt.Sprintf("%+v", re), -1) {
				got = append(got, filepath.Base(m[1])+":"+m[2])
			}
			if strings.Join(got, " ") != strings.Join(fc.want, " ") {
				c.Violation(PropViolation{"C16", fmt.Sprintf("module read from disk (%s, NoOptimize=%v): the trace lists lines [%s], the statements are at [%s]", fc.name, noOpt, strings.Join(got, " "), strings.Join(fc.want, " ")),
					fc.calc, "C16:lines:file-module:" + fc.name})
			}
		}
	}
}
