package main

import (
	"fmt"
	"strings"

	"github.com/ozanh/ugo"
)

// optconst (C01): constant conditions.  The optimizer rewrites a condition whose value it can
// compute into a BoolLit and the compiler then drops the untaken branch; both must agree with what
// the VM does for the same value at run time: every literal kind, values that are only falsy or
// truthy after folding (NaN, -0.0, "" + "", [] …), in every position where a condition is
// evaluated (if / else-if with and without init statement and else, ?:, && and ||, for),
// at every optimizer budget.

var optConstConds = []string{
	"0", "1", "0.0", "-0.0", "0.5", "(1e308 * 10.0 - 1e308 * 10.0)", "(0.0 / 1.0)", "1e308 * 10.0",
	"\"\"", "\"a\"", "(\"\" + \"\")", "''", "'a'", "0u", "3u", "true", "false", "undefined",
	"(1 > 2)", "(2 > 1)", "(1 == 1.0)", "len(\"\")", "len(\"ab\")", "string(0)", "int(\"0\")", "float(\"0\")",
	"bool(0)", "!0", "!\"\"", "(0 || \"\")", "(1 && 0.0)", "char(0)", "bytes(\"\")", "typeName(1)", "[]", "{}", "[0]",
}

func optConstForms(cond string) []string {
	return []string{
		// init statement + condition, no else: the init statement runs whatever the condition is
		fmt.Sprintf("x := 1\nif x = 2; %s { x = 3 }\nreturn x", cond),
		fmt.Sprintf("x := 1\nif x = 2; %s { x = 3 } else { x += 10 }\nreturn x", cond),
		fmt.Sprintf("x := 1\nif x > 5 { x = 0 } else if x = 7; %s { x += 3 }\nreturn x", cond),
		fmt.Sprintf("x := 1\nif x > 5 { x = 0 } else if y := x + 1; %s { x = y + 3 } else { x = y * 10 }\nreturn x", cond),
		fmt.Sprintf("if %s { return \"then\" }\nreturn \"else\"", cond),
		fmt.Sprintf("return %s ? \"then\" : \"else\"", cond),
		fmt.Sprintf("param a\nreturn [%s && a, %s || a, a && %s, a || %s]", cond, cond, cond, cond),
		fmt.Sprintf("n := 0\nfor i := 0; %s && i < 3; i++ { n++ }\nreturn n", cond),
		fmt.Sprintf("f := func() { if %s { return 1 }; return 2 }\nreturn [f(), !%s, !!%s]", cond, cond, cond),
		fmt.Sprintf("const k = 1\nx := 0\nif x = k; %s { x += k } \nreturn x + k", cond),
	}
}

func optConst(c *Ctx) {
	args := []ugo.Object{ugo.Int(5)}
	for _, cond := range optConstConds {
		for fi, src := range optConstForms(cond) {
			bc0, err0 := ugo.Compile([]byte(src), ugo.CompilerOptions{NoOptimize: true})
			if err0 != nil {
				c.Count("optconst:noopt-compile-error")
				continue
			}
			out0 := runPlain(bc0, ugo.Map{}, args)
			c.Count("optconst:" + strings.SplitN(strings.TrimPrefix(out0, "out="), " ", 2)[0])
			for _, lim := range []int{0, 1, 2, 5} {
				bc1, err1 := ugo.Compile([]byte(src), ugo.CompilerOptions{OptimizerLimit: lim})
				if err1 != nil {
					if !strings.Contains(err1.Error(), "Optimizer Error") {
						c.Violation(PropViolation{"C01", "optimizer on: compile fails with a non-optimizer error: " + semFirstLine(err1.Error()), src, fmt.Sprintf("C01:optconst-compile-error:form%d", fi)})
					}
					c.Count("optconst:opt-refused")
					continue
				}
				if out1 := runPlain(bc1, ugo.Map{}, args); out1 != out0 {
					c.Violation(PropViolation{"C01", fmt.Sprintf("constant condition %s: optimized (limit %d) and unoptimized runs differ: %s  vs  %s", cond, lim, out1, out0),
						src, fmt.Sprintf("C01:opt-differs:const-cond:form%d", fi)})
				}
			}
		}
	}
}

// optLiterals: constant tables - literals whose constants are equal as map keys or as values but not
// the same constant (0.0 and -0.0, 1 and 1u and 1.0 and '\x01', "" and empty bytes), folded and unfolded
// ones side by side in one constant table, uint literals with the top bit set.  Optimized vs unoptimized.
func optLiterals(c *Ctx) {
	progs := []string{
		"x := 0.0\nreturn [x, -0.0]",
		"return [0.0, -1 * 0.0, 0.0 * -1, -0.0, 0.0]",
		"a := -0.0\nb := 0.0\nreturn [a, b, 1 / a, 1 / b]",
		"f := func() { return 0.0 }\ng := func() { return -0.0 }\nreturn [f(), g(), -f(), -g()]",
		"return [1, 1u, 1.0, '\\x01', true, 1 == 1u, 1 + 0u, 1 + 0.0]",
		"return [18446744073709551615u / 2u, 18446744073709551615u % 10u, 9223372036854775808u >> 63u, 9223372036854775808u >> 1u, 18446744073709551615u * 2u]",
		"return [9223372036854775808u / 3u, 9223372036854775809u % 2u, 18446744073709551615u - 1u, 18446744073709551615u + 1u, 1u << 63u, (1u << 63u) >> 62u]",
		"return [9223372036854775807 + 1, -9223372036854775807 - 2, 9223372036854775807 * 2, 1 << 63, 1 << 64, -1 >> 70, 5 / -2, -5 % 3]",
		"return ['a' + 1, 'a' - 'b', 'a' * 2u, 1u - 2u, 'z' - 200, 2.5 % 2.0 == 0.5]",
		"const k = 0.0\nreturn [k, -k, k * -1, -0.0 == k, string(-k)]",
		// const groups with implicit repetition: every spec re-evaluates the repeated expression with its own iota
		"const k = 10\nconst (a = (1 << iota) + k; b; c; d)\nreturn [a, b, c, d]",
		"const k = 100\nconst (a = k + iota * 2; b; c)\nreturn [a, b, c]",
		"const (a = 1 << (10 * (iota + 1)); b; c)\nreturn [a, b, c]",
		"const k = 1\nf := func() { const (a = iota + k; b; c = \"s\" + iota; d); return [a, b, c, d] }\nreturn f()",
		"const (x = iota; y; z)\nconst (p = -iota; q; r = iota % 2 == 0; s)\nreturn [x, y, z, p, q, r, s]",
	}
	for pi, src := range progs {
		bc0, err0 := ugo.Compile([]byte(src), ugo.CompilerOptions{NoOptimize: true})
		if err0 != nil {
			c.Count("optliterals:noopt-compile-error")
			continue
		}
		out0 := runPlain(bc0, ugo.Map{}, nil)
		c.Count("optliterals:" + strings.SplitN(strings.TrimPrefix(out0, "out="), " ", 2)[0])
		for _, lim := range []int{0, 1, 2, 5} {
			bc1, err1 := ugo.Compile([]byte(src), ugo.CompilerOptions{OptimizerLimit: lim})
			if err1 != nil {
				if !strings.Contains(err1.Error(), "Optimizer Error") {
					c.Violation(PropViolation{"C01", "optimizer on: compile fails with a non-optimizer error: " + semFirstLine(err1.Error()), src, fmt.Sprintf("C01:optliterals-compile-error:%d", pi)})
				}
				continue
			}
			if out1 := runPlain(bc1, ugo.Map{}, nil); out1 != out0 {
				c.Violation(PropViolation{"C01", fmt.Sprintf("literal constants: optimized (limit %d) and unoptimized runs differ: %s  vs  %s", lim, out1, out0), src, fmt.Sprintf("C01:opt-differs:literals:%d", pi)})
			}
		}
	}
}
