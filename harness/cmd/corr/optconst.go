package main

import (
	"fmt"
	"strings"

	"github.com/ozanh/ugo"
)

// optconst (C01): constant conditions.  The optimizer rewrites a condition whose value it can
// compute into a BoolLit and the compiler then drops the untaken branch; both must agree with what
// the VM does for the same value at run time: every literal kind, values that are only falsy or
// truthy after folding (NaN, -0.0, "" + "", [] …), in every position where a condition is
// evaluated (if / else-if with and without init statement and else, ?:, && and ||, for),
// at every optimizer budget.

var optConstConds = []string{
	"0", "1", "0.0", "-0.0", "0.5", "(1e308 * 10.0 - 1e308 * 10.0)", "(0.0 / 1.0)", "1e308 * 10.0",
	"\"\"", "\"a\"", "(\"\" + \"\")", "''", "'a'", "0u", "3u", "true", "false", "undefined",
	"(1 > 2)", "(2 > 1)", "(1 == 1.0)", "len(\"\")", "len(\"ab\")", "string(0)", "int(\"0\")", "float(\"0\")",
	"bool(0)", "!0", "!\"\"", "(0 || \"\")", "(1 && 0.0)", "char(0)", "bytes(\"\")", "typeName(1)", "[]", "{}", "[0]",
}

func optConstForms(cond string) []string {
	return []string{
		// init statement + condition, no else: the init statement runs whatever the condition is
		fmt.Sprintf("x := 1\nif x = 2; %s { x = 3 }\nreturn x", cond),
		fmt.Sprintf("x := 1\nif x = 2; %s { x = 3 } else { x += 10 }\nreturn x", cond),
		fmt.Sprintf("x := 1\nif x > 5 { x = 0 } else if x = 7; %s { x += 3 }\nreturn x", cond),
		fmt.Sprintf("x := 1\nif x > 5 { x = 0 } else if y := x + 1; %s { x = y + 3 } else { x = y * 10 }\nreturn x", cond),
		fmt.Sprintf("if %s { return \"then\" }\nreturn \"else\"", cond),
		fmt.Sprintf("return %s ? \"then\" : \"else\"", cond),
		fmt.Sprintf("param a\nreturn [%s && a, %s || a, a && %s, a || %s]", cond, cond, cond, cond),
		fmt.Sprintf("n := 0\nfor i := 0; %s && i < 3; i++ { n++ }\nreturn n", cond),
		fmt.Sprintf("f := func() { if %s { return 1 }; return 2 }\nreturn [f(), !%s, !!%s]", cond, cond, cond),
		fmt.Sprintf("const k = 1\nx := 0\nif x = k; %s { x += k } \nreturn x + k", cond),
	}
}

func optConst(c *Ctx) {
	args := []ugo.Object{ugo.Int(5)}
	for _, cond := range optConstConds {
		for fi, src := range optConstForms(cond) {
			bc0, err0 := ugo.Compile([]byte(src), ugo.CompilerOptions{NoOptimize: true})
			if err0 != nil {
				c.Count("optconst:noopt-compile-error")
				continue
			}
			out0 := runPlain(bc0, ugo.Map{}, args)
			c.Count("optconst:" + strings.SplitN(strings.TrimPrefix(out0, "out="), " ", 2)[0])
			for _, lim := range []int{0, 1, 2, 5} {
				bc1, err1 := ugo.Compile([]byte(src), ugo.CompilerOptions{OptimizerLimit: lim})
				if err1 != nil {
					if !strings.Contains(err1.Error(), "Optimizer Error") {
						c.Violation(PropViolation{"C01", "optimizer on: compile fails with a non-optimizer error: " + semFirstLine(err1.Error()), src, fmt.Sprintf("C01:optconst-compile-error:form%d", fi)})
					}
					c.Count("optconst:opt-refused")
					continue
				}
				if out1 := runPlain(bc1, ugo.Map{}, args); out1 != out0 {
					c.Violation(PropViolation{"C01", fmt.Sprintf("constant condition %s: optimized (limit %d) and unoptimized runs differ: %s  vs  %s", cond, lim, out1, out0),
						src, fmt.Sprintf("C01:opt-differs:const-cond:form%d", fi)})
				}
			}
		}
	}
}
