package main

import (
	"bytes"
	"encoding/hex"
	"encoding/json"
	"fmt"
	"os"
	"sort"
	"strings"
	"time"

	"github.com/ozanh/ugo"
	"github.com/ozanh/ugo/encoder"
	"github.com/ozanh/ugo/parser"
	ugostrings "github.com/ozanh/ugo/stdlib/strings"
	ugotime "github.com/ozanh/ugo/stdlib/time"

	"verifharness/codec"
	"verifharness/conc"
	"verifharness/gen"
)

// stream `history` (C07): a sequence of up to 7 earlier runs (script, arguments,
// termination kind: return / uncaught error / recovered panic / Go panic escaping Run /
// frame overflow / stack-slot overflow / abort) is executed on ONE real VM; the VM is then
// cleared and/or given new bytecode and runs the script under observation.  Oracle on the
// implementation: the observed run (outcome, instruction count, H1 trace hash, final
// globals) equals the run on a new VM, and neither the encoder bytes nor a structural dump
// of any Bytecode involved changed.  Correspondence: the same history is replayed on the
// Lean model by chaining `runFrom` on ONE model state through `clear`/`setBytecode`
// (driver request `vmhist`).

const histStepLimit = 60000

// hRun is one run of a history (JSON: carried in the request line for replays).
type hRun struct {
	Src     string   `json:"src"`
	Raw     string   `json:"raw,omitempty"` // hex instructions of a hand-made Main (NumLocals 0) instead of Src
	NoOpt   bool     `json:"noopt"`
	Rec     bool     `json:"rec"`
	AbortAt int      `json:"abort_at"` // the trace hook calls vm.Abort() while fetching this instruction (0 = never)
	Clear   bool     `json:"clear"`    // vm.Clear() before this run
	SetBC   bool     `json:"setbc"`    // vm.SetBytecode(bc) before this run
	Same    bool     `json:"same"`     // uses the Bytecode object of the previous run
	Args    []string `json:"args"`
	Kind    string   `json:"kind"`
	Host    bool     `json:"host"`  // needs host callbacks or modules: not expressible in the model
	Strip   bool     `json:"strip"` // source maps removed (the encoder supports such Bytecode): impl-only

	bc   *ugo.Bytecode
	args []ugo.Object
}

func histModuleMap() *ugo.ModuleMap {
	mm := ugo.NewModuleMap()
	mm.AddSourceModule("cnt", []byte(`
state := {n: 0, log: []}
return {
	state: state,
	inc: func(d) { state.n += d; state.log = append(state.log, d); return state.n },
	get: func() { return state.n },
}`))
	mm.AddSourceModule("mid", []byte(`
cnt := import("cnt")
cnt.inc(100)
return {bump: func(x) { return cnt.inc(x) + 1 }, cnt: cnt}`))
	mm.AddSourceModule("half", []byte(`
cnt := import("cnt")
cnt.inc(7)
// fails half-way (cnt is loaded and changed, half is not cached) unless the importing
// script changed cnt before
x := 1 / (cnt.get() - 7)
return {ok: cnt.get(), x: x}`))
	mm.AddBuiltinModule("strings", ugostrings.Module)
	mm.AddBuiltinModule("time", ugotime.Module)
	mm.AddBuiltinModule("vmod", conc.VMod())
	conc.AddObjMods(mm)
	return mm
}

func (h *hRun) compile() error {
	h.args = nil
	for _, a := range h.Args {
		o, err := codec.Decode(a, nil)
		if err != nil {
			return err
		}
		h.args = append(h.args, o)
	}
	if h.bc != nil {
		return nil
	}
	if h.Raw != "" {
		// bytecode the compiler never emits but the decoder accepts: it reads stack slots
		// above its own (zero) locals
		insts, err := hex.DecodeString(h.Raw)
		if err != nil {
			return err
		}
		h.bc = &ugo.Bytecode{FileSet: parser.NewFileSet(), Main: &ugo.CompiledFunction{Instructions: insts}}
		return nil
	}
	opts := ugo.CompilerOptions{NoOptimize: h.NoOpt}
	if h.Host {
		opts.ModuleMap = histModuleMap()
	}
	bc, err := ugo.Compile([]byte(h.Src), opts)
	if err != nil && !h.NoOpt {
		h.NoOpt = true
		opts.NoOptimize = true
		bc, err = ugo.Compile([]byte(h.Src), opts)
	}
	if err != nil {
		return err
	}
	if h.Strip {
		bc.Main.SourceMap = nil
		for _, k := range bc.Constants {
			if f, ok := k.(*ugo.CompiledFunction); ok {
				f.SourceMap = nil
			}
		}
	}
	h.bc = bc
	return nil
}

// hostGlobals: the globals of a run in an impl-only history (host callbacks).
func histHostGlobals(vm *ugo.VM) ugo.Map {
	return ugo.Map{
		"pan": &ugo.Function{Name: "pan", Value: func(args ...ugo.Object) (ugo.Object, error) { panic("host panic") }},
		"idx": &ugo.Function{Name: "idx", Value: func(args ...ugo.Object) (ugo.Object, error) {
			var a []ugo.Object
			return a[len(args)+3], nil
		}},
		"abort": &ugo.Function{Name: "abort", Value: func(args ...ugo.Object) (ugo.Object, error) { vm.Abort(); return ugo.Undefined, nil }},
		"hosterr": &ugo.Function{Name: "hosterr", Value: func(args ...ugo.Object) (ugo.Object, error) {
			return nil, ugo.ErrType.NewError("from host")
		}},
	}
}

// runHist executes one run on vm (already reset as the run demands) with the H1 hook:
// instruction count, trace hash, abort at a chosen instruction, deterministic step limit.
func runHist(vm *ugo.VM, h *hRun) string {
	tr := &traceRec{hash: 7}
	ugo.VerifTraceHook = func(fi, ip, sp, nh int, op byte) {
		tr.hook(fi, ip, sp, nh, op)
		if tr.steps == h.AbortAt || tr.steps == histStepLimit {
			vm.Abort()
		}
	}
	defer func() { ugo.VerifTraceHook = nil }()
	vm.SetRecover(h.Rec)
	var globals ugo.Object = ugo.Map{}
	if h.Host {
		globals = histHostGlobals(vm)
	}
	done := make(chan struct{})
	var ret ugo.Object
	var err error
	var pv any
	go func() {
		defer close(done)
		defer func() { pv = recover() }()
		ret, err = vm.Run(globals, h.args...)
	}()
	select {
	case <-done:
	case <-time.After(30 * time.Second):
		vm.Abort()
		<-done
		return "hang"
	}
	g := vm.GetGlobals()
	gs := "onil:0"
	if g != nil {
		if m, ok := g.(ugo.Map); ok && h.Host {
			// host callbacks are not part of the comparison
			m2 := ugo.Map{}
			for k, v := range m {
				if _, isFn := v.(*ugo.Function); !isFn {
					m2[k] = v
				}
			}
			g = m2
		}
		gs = codec.Encode(g, nil)
	}
	return fmt.Sprintf("out=%s\tsteps=%d\tth=%d\tglobals=%s", histOutcome(ret, err, pv), tr.steps, tr.hash, gs)
}

// histOutcome: outcomeString, with Go stack text (goroutine ids, addresses) cut out of
// messages that embed a recovered panic of a child VM.
func histOutcome(ret ugo.Object, err error, pv any) string {
	cut := func(m string) string {
		if i := strings.Index(m, "\nGo Stack:"); i >= 0 {
			return m[:i]
		}
		return m
	}
	switch e := err.(type) {
	case *ugo.RuntimeError:
		if e.Err != nil && strings.Contains(e.Err.Message, "Go Stack:") {
			return "err " + codec.Hex([]byte(e.Err.Name)) + " " + codec.Hex([]byte(cut(e.Err.Message)))
		}
	case *ugo.Error:
		if strings.Contains(e.Message, "Go Stack:") {
			return "err " + codec.Hex([]byte(e.Name)) + " " + codec.Hex([]byte(cut(e.Message)))
		}
	}
	return outcomeString(ret, err, pv)
}

// dumpFn / dumpBC: structural image of everything reachable from a Bytecode, with the
// identities of the reference objects (same process before/after, so pointers compare).
func dumpFn(sb *strings.Builder, f *ugo.CompiledFunction, ids bool) {
	if f == nil {
		sb.WriteString("fn:nil")
		return
	}
	if ids {
		fmt.Fprintf(sb, "fn@%p insts@%p", f, f.Instructions)
	}
	fmt.Fprintf(sb, "{np=%d nl=%d va=%v insts=%x free=", f.NumParams, f.NumLocals, f.Variadic, f.Instructions)
	if f.Free == nil {
		sb.WriteString("nil")
	} else {
		fmt.Fprintf(sb, "%d", len(f.Free))
	}
	keys := make([]int, 0, len(f.SourceMap))
	for k := range f.SourceMap {
		keys = append(keys, k)
	}
	sort.Ints(keys)
	sb.WriteString(" sm=")
	for _, k := range keys {
		fmt.Fprintf(sb, "%d:%d,", k, f.SourceMap[k])
	}
	sb.WriteString("}")
}

func dumpObj(sb *strings.Builder, o ugo.Object, depth int, ids bool) {
	switch v := o.(type) {
	case *ugo.CompiledFunction:
		dumpFn(sb, v, ids)
	case ugo.Map:
		keys := make([]string, 0, len(v))
		for k := range v {
			keys = append(keys, k)
		}
		sort.Strings(keys)
		fmt.Fprintf(sb, "map[%d]{", len(v))
		for _, k := range keys {
			sb.WriteString(k + "=")
			if depth > 0 {
				dumpObj(sb, v[k], depth-1, ids)
			}
			sb.WriteString(";")
		}
		sb.WriteString("}")
	case ugo.Array:
		fmt.Fprintf(sb, "arr[%d]{", len(v))
		for _, x := range v {
			if depth > 0 {
				dumpObj(sb, x, depth-1, ids)
			}
			sb.WriteString(";")
		}
		sb.WriteString("}")
	case *ugo.SyncMap:
		// (String() of a map with several keys follows Go's map order: render the guarded map canonically)
		sb.WriteString("syncMap:")
		if v == nil {
			sb.WriteString("nil")
		} else {
			v.RLock()
			m := v.Value
			v.RUnlock()
			dumpObj(sb, m, depth, ids)
		}
	case *ugo.Function:
		if ids {
			fmt.Fprintf(sb, "@%p", v)
		}
		sb.WriteString("gofn:" + v.Name)
	case *ugo.BuiltinFunction:
		if ids {
			fmt.Fprintf(sb, "@%p", v)
		}
		sb.WriteString("builtin:" + v.Name)
	case nil:
		sb.WriteString("nil")
	default:
		sb.WriteString(o.TypeName() + ":" + o.String())
	}
}

func dumpBC(bc *ugo.Bytecode, ids bool) string {
	var sb strings.Builder
	fmt.Fprintf(&sb, "nm=%d main=", bc.NumModules)
	dumpFn(&sb, bc.Main, ids)
	fmt.Fprintf(&sb, " consts[%d]:", len(bc.Constants))
	for _, c := range bc.Constants {
		dumpObj(&sb, c, 4, ids)
		sb.WriteString("|")
	}
	if bc.FileSet != nil {
		fmt.Fprintf(&sb, " fileset base=%d files=%d", bc.FileSet.Base, len(bc.FileSet.Files))
		for _, f := range bc.FileSet.Files {
			fmt.Fprintf(&sb, " %s:%d:%d:%v", f.Name, f.Base, f.Size, f.Lines)
		}
	}
	return sb.String()
}

// encImage: what the encoder writes for the Bytecode, canonicalised by decoding it again
// (two encodings of one Bytecode differ in their bytes because source maps and Map
// constants are written in Go map iteration order).  "" when encoding/decoding fails.
func encImage(bc *ugo.Bytecode, host bool) string {
	var buf bytes.Buffer
	if err := encoder.EncodeBytecodeTo(bc, &buf); err != nil {
		return ""
	}
	var mm *ugo.ModuleMap
	if host {
		mm = histModuleMap()
	}
	dec, err := encoder.DecodeBytecodeFrom(&buf, mm)
	if err != nil {
		return ""
	}
	return dumpBC(dec, false)
}

// ---------------------------------------------------------------------------
// script families

const hhdr = "param (a0, a1)\n"

func histArgs(r *gen.Rand) []string {
	pool := argPool()
	return []string{codec.Encode(pool[r.Intn(len(pool))], nil), codec.Encode(pool[r.Intn(len(pool))], nil)}
}

// priorRun draws one earlier run.  model=true restricts it to the modelled subset.
func priorRun(r *gen.Rand, model bool) *hRun {
	h := &hRun{Args: histArgs(r), Rec: r.Bool()}
	kinds := []string{"gen", "gen", "error-deep", "frame-overflow", "slot-overflow", "abort", "stack-junk", "caught-overflow"}
	if !model {
		kinds = append(kinds, "host-panic", "host-panic", "host-index-panic", "host-abort", "host-abort", "import-mutate", "import-mutate",
			"half-import", "callback-throw", "host-error", "container-mutate", "container-mutate")
	}
	h.Kind = kinds[r.Intn(len(kinds))]
	d := 1 + r.Intn(30)
	switch h.Kind {
	case "gen":
		o := gen.DefaultProgOpts()
		o.Floats = false
		h.Src = gen.Program(r, o)
	case "error-deep":
		fail := []string{`throw "deep"`, `return 1 / (k - k)`, `return [][k + 3]`, `return k()`}[r.Intn(4)]
		h.Src = hhdr + fmt.Sprintf(`var f
f = func(k, acc) {
  x := [k, acc, a0]
  try {
    if k == 0 { %s }
    return f(k-1, x) + 1
  } finally {
    acc = func() { return x }
  }
}
return f(%d, a1)
`, fail, d)
	case "frame-overflow":
		ar := r.Intn(3)
		ps := []string{"", "p", "p, q"}[ar]
		as := []string{"", "a0", "a0, a1"}[ar]
		h.Src = hhdr + fmt.Sprintf("var f\nf = func(%s) { f(%s); return 1 }\nreturn f(%s)\n", ps, as, as)
	case "slot-overflow":
		h.Src = hhdr + "var f\nf = func(p, q, s) { t := [p]; return p + f(t, q, s) }\nreturn f(a0, a1, 3)\n"
		if r.Bool() {
			h.Src = hhdr + "var f\nf = func(p, q, s) { try { return [f([p], q, s)] } finally { q = s } }\nreturn f(a0, a1, 3)\n"
		}
	case "caught-overflow":
		// the overflow (frames or slots) is caught inside the recursion and execution goes on
		body := []string{
			"var f\nf = func() { try { f() } catch { return 1 }; return 2 }\nreturn f()\n",
			"var f\nf = func(p) { try { return f(p) + 1 } catch e { return 0 } }\nreturn f(a0)\n",
			"var f\nf = func(p, q, s) { return [f(p, q, s)] }\ntry { return f(1, 2, 3) } catch e { return typeName(e) } finally { a0 = a1 }\n",
		}[r.Intn(3)]
		h.Src = hhdr + body
		h.Rec = r.Intn(4) > 0
	case "abort":
		h.Src = hhdr + `x := []
g := func(i) { try { x = append(x, i); return i } finally { x = [i, x] } }
for i := 0; i < 1000000; i++ {
  g(i)
  var h
  h = func(j) { if j > 0 { return h(j - 1) + i }; return i }
  try { h(i % 7) } catch e { x = e }
}
return x
`
		h.AbortAt = 3 + r.Intn(600)
	case "stack-junk":
		n := 5 + r.Intn(60)
		var el []string
		for i := 0; i < n; i++ {
			el = append(el, fmt.Sprintf("[%d, a0, [a1]]", i))
		}
		h.Src = hhdr + "f := func(...xs) { return len(xs) }\nreturn [f(" + strings.Join(el, ", ") + "), " + strings.Join(el[:n/2], ", ") + "]\n"
	case "host-panic", "host-index-panic", "host-error":
		h.Host = true
		fn := map[string]string{"host-panic": "pan", "host-index-panic": "idx", "host-error": "hosterr"}[h.Kind]
		h.Src = hhdr + fmt.Sprintf(`global %s
var f
f = func(k, acc) {
  x := [k, acc]
  try {
    if k == 0 { %s(1, 2) }
    return f(k-1, x) + 1
  } finally {
    acc = func() { return x }
  }
}
%s
`, fn, fn, []string{fmt.Sprintf("return f(%d, a1)", d), fmt.Sprintf("try { return f(%d, a1) } catch e { return 7 }", d)}[r.Intn(2)])
	case "host-abort":
		h.Host = true
		h.Src = hhdr + fmt.Sprintf(`global abort
cnt := import("cnt")
var f
f = func(k) { try { if k == 0 { abort(); cnt.inc(1) }; return f(k-1) + 1 } finally { cnt.inc(k) } }
return f(%d)
`, d)
	case "import-mutate":
		h.Host = true
		h.Src = hhdr + fmt.Sprintf(`cnt := import("cnt")
mid := import("mid")
s := import("strings")
s.mark = a0
s.ToUpper = undefined
for i := 0; i < %d; i++ { cnt.inc(i) }
cnt.state.extra = [a1]
%s
`, 1+r.Intn(5), []string{"return cnt.state", "throw error(\"after import\")", "return mid.bump(3) / (a0 - a0)"}[r.Intn(3)])
	case "container-mutate":
		// in-place updates of the container attributes of a builtin module: they must stay in this VM's
		// copy and never reach the module constant of the Bytecode
		h.Host = true
		h.Src = hhdr + `v := import("vmod")
v.arr[0] += 5
v.arr[2] = a0
v.m.k += 3
v.m.added = a1
v.by[0] = 9
v.deep.a[0].x = 4
v.deep.a[1][0] = 8
v.sm.k = 2
v.esm.z = 3
v.n += 1
oa := import("objarr")
oa[0] += 10
ob := import("objbytes")
ob[1] = 77
os := import("objsync")
os.k = a0
os.added = 1
os.nest[0] += 1
os.nest[1].x = 7
os.by[0] = 6
return [v.n, v.arr, v.m.k, v.by, v.deep.a[0].x, v.deep.a[1], v.sm.k, len(v.esm), oa, ob, os.k]
`
	case "half-import":
		h.Host = true
		h.Src = hhdr + "x := import(\"half\")\nreturn x\n"
	case "callback-throw":
		h.Host = true
		h.Src = hhdr + `global pan
s := import("strings")
return s.Map(func(c) { if c == 'b' { ` + []string{"throw error(\"cb\")", "pan()", "return 1/0"}[r.Intn(3)] + ` }; return c }, "abc")
`
	}
	return h
}

// observedRun draws the script under observation.
func observedRun(r *gen.Rand, model bool) *hRun {
	h := &hRun{Args: histArgs(r), Rec: r.Bool()}
	kinds := []string{"gen", "gen", "gen", "locals", "recurse", "closures", "try", "raw-getlocal"}
	if !model {
		kinds = []string{"gen", "locals", "mod-state", "mod-state", "builtin-mod", "builtin-mod", "container-mod", "container-mod", "callbacks", "half-import", "recurse"}
	}
	h.Kind = kinds[r.Intn(len(kinds))]
	switch h.Kind {
	case "gen":
		o := gen.DefaultProgOpts()
		o.Floats = false
		h.Src = gen.Program(r, o)
	case "raw-getlocal":
		// GETLOCAL k; RETURN 1 in a Main without locals: reads what earlier runs left on the stack
		// unless Clear/SetBytecode removed it
		h.Raw = fmt.Sprintf("%02x%02x%02x01", byte(ugo.OpGetLocal), r.Intn(12), byte(ugo.OpReturn))
		h.Src = "// hand-made: GETLOCAL k; RETURN 1"
	case "locals":
		// slots that are read before anything in this run wrote them
		h.Src = hhdr + `out := []
try {
  if a1 { throw "early" }
  total := 5
  more := [total]
} catch err {
  out = [1]
} finally {
  // variables defined in the try or catch block are visible here, defined or not
  out = append(out, total, more, err)
}
g := func(x) {
  try { if x { throw "early" }; t2 := [x]; t3 := t2 } catch e2 { x = 0 } finally { return [t2, t3, e2] }
}
var (p, q)
f := func(x) { var (u, v, w); if x { u = 1 }; return [u, v, w, x] }
return [out, p, q, f(false), f(a0), g(false), g(true)]
`
	case "recurse":
		h.Src = hhdr + fmt.Sprintf("var f\nf = func(k, a) { if k == 0 { return [a] }; r := f(k-1, a); return r }\nreturn f(%d, a0)\n", 1+r.Intn(400))
	case "closures":
		h.Src = hhdr + `mk := func(k) { c := k; return func(d) { c += d; return c } }
a := mk(1)
b := mk(10)
a(1)
b(2)
return [a(3), b(4), a0]
`
	case "try":
		h.Src = hhdr + `out := []
f := func(k) { try { if k > 1 { throw "t" }; return k } catch e { out = append(out, k); return -k } finally { out = append(out, 0) } }
for i := 0; i < 4; i++ { out = append(out, f(i)) }
try { out = append(out, 1 / (a0 - a0)) } catch e { out = append(out, typeName(e)) }
return out
`
	case "mod-state":
		h.Host = true
		h.Src = hhdr + `cnt := import("cnt")
before := cnt.get()
mid := import("mid")
cnt.inc(1)
return [before, cnt.get(), cnt.state, mid.bump(1)]
`
	case "builtin-mod":
		h.Host = true
		h.Src = hhdr + `s := import("strings")
t := import("time")
old := s.mark
s.mark = "observed"
return [old, typeName(s.ToUpper), s.Repeat("ab", 2), t.Second, s.__module_name__]
`
	case "container-mod":
		h.Host = true
		h.Src = hhdr + `v := import("vmod")
oa := import("objarr")
ob := import("objbytes")
os := import("objsync")
before := [v.n, v.arr[0], v.arr[2], v.m.k, v.m.added, v.by[0], v.deep.a[0].x, v.deep.a[1][0], v.sm.k, len(v.esm), v.esm.z, oa, ob, os.k, os.added, string(os.nest), string(os.by)]
oa[1] += 1
v.arr[1] += 1
v.by[1] = 3
v.m.k += 1
return [before, v.arr, v.by, v.m.k]
`
	case "callbacks":
		h.Host = true
		h.Src = hhdr + `s := import("strings")
calls := 0
r := s.Map(func(c) { calls++; return c + 1 }, "abc")
i := s.IndexFunc("xyz", func(c) { calls++; return c == 'z' })
return [r, i, calls]
`
	case "half-import":
		h.Host = true
		h.Src = hhdr + "cnt := import(\"cnt\")\ncnt.inc(a0 ? 1 : 0)\nx := import(\"half\")\nreturn [x, cnt.get()]\n"
	}
	return h
}

type history struct {
	Runs  []*hRun `json:"runs"` // the last one is the run under observation
	Model bool    `json:"model"`
}

func genHistory(r *gen.Rand, model bool) *history {
	hs := &history{Model: model}
	k := r.Intn(8)
	for i := 0; i < k; i++ {
		h := priorRun(r, model)
		if i > 0 {
			if r.Intn(6) == 0 {
				// run the previous Bytecode again, with or without a reset
				p := hs.Runs[i-1]
				h.Src, h.NoOpt, h.Kind, h.Host, h.Same = p.Src, p.NoOpt, p.Kind, p.Host, true
				h.Clear = r.Bool()
				h.SetBC = r.Intn(4) == 0
			} else {
				h.SetBC = true
				h.Clear = r.Intn(3) == 0
			}
		}
		hs.Runs = append(hs.Runs, h)
	}
	obs := observedRun(r, model)
	switch {
	case k == 0 && r.Bool():
		// no history: the observed run on a new VM (rerun_same base case)
	case r.Intn(4) == 0:
		// the observed script ran before (stopped early, or with other arguments); Clear() only
		prev := *obs
		prev.Args = histArgs(r)
		prev.Rec = r.Bool()
		if r.Bool() {
			prev.AbortAt = 1 + r.Intn(40)
		}
		prev.SetBC = true
		prev.Clear = r.Bool()
		hs.Runs = append(hs.Runs, &prev)
		obs.Same = true
		switch r.Intn(4) {
		case 0:
			// SetBytecode with the very Bytecode the VM already holds, without Clear: a reset like any other
			obs.Clear, obs.SetBC = false, true
		case 1:
			obs.Clear, obs.SetBC = true, true
		default:
			obs.Clear, obs.SetBC = true, false
		}
	default:
		obs.SetBC = true
		obs.Clear = r.Bool()
	}
	hs.Runs = append(hs.Runs, obs)
	if !model {
		strip := r.Intn(4) == 0 // a quarter of the impl-only histories run Bytecode without source maps
		for _, h := range hs.Runs {
			h.Host = true // one module map / host globals for the whole history
			if strip && !h.Same {
				h.Strip = true
			}
		}
	}
	return hs
}

// compileAll compiles every run; runs marked Same share the previous Bytecode object.
func (hs *history) compileAll() error {
	for i, h := range hs.Runs {
		if h.Same && i > 0 {
			h.bc = hs.Runs[i-1].bc
			h.NoOpt = hs.Runs[i-1].NoOpt
		}
		if err := h.compile(); err != nil {
			return err
		}
	}
	return nil
}

// exec runs the history on one VM; returns one answer per run and the answer of the
// observed script on a new VM.
func (hs *history) exec() (answers []string, fresh string) {
	var vm *ugo.VM
	for i, h := range hs.Runs {
		if i == 0 {
			vm = ugo.NewVM(h.bc)
		} else {
			if h.Clear {
				vm.Clear()
			}
			if h.SetBC {
				vm.SetBytecode(h.bc)
			}
		}
		answers = append(answers, runHist(vm, h))
	}
	obs := hs.Runs[len(hs.Runs)-1]
	fresh = runHist(ugo.NewVM(obs.bc), obs)
	return
}

func (hs *history) line() (string, bool) {
	if !hs.Model {
		return skipLine, false
	}
	var fields []string
	for _, h := range hs.Runs {
		opts := ""
		if h.Rec {
			opts += "R"
		}
		if h.Clear {
			opts += "C"
		}
		if h.SetBC {
			opts += "S"
		}
		if opts == "" {
			opts = "-"
		}
		l, ok := vmLine(fmt.Sprintf("%s:%d", opts, h.AbortAt), histStepLimit, h.bc, ugo.Map{}, h.args)
		if !ok {
			return skipLine, false
		}
		fields = append(fields, strings.ReplaceAll(strings.TrimPrefix(l, "vm\t"), "\t", "|"))
	}
	js, _ := json.Marshal(hs)
	return fmt.Sprintf("vmhist\t%d\t%s\t#%s", len(fields), strings.Join(fields, "\t"), hex.EncodeToString(js)), true
}

func histAnswer(answers []string, fresh string) string {
	return strings.Join(answers, " || ") + " || fresh: " + fresh
}

func histSkip(model string) bool {
	return os.Getenv("VERIF_NOSKIP") == "" && (strings.Contains(model, "out=unsupported") || strings.Contains(model, "out=fuel"))
}

func (hs *history) describe() string {
	var sb strings.Builder
	for i, h := range hs.Runs {
		role := "earlier run"
		if i == len(hs.Runs)-1 {
			role = "OBSERVED run"
		}
		fmt.Fprintf(&sb, "--- %s %d: kind=%s recover=%v abortAt=%d clear=%v setBytecode=%v sameBytecode=%v args=%v\n%s\n", role, i, h.Kind, h.Rec, h.AbortAt, h.Clear, h.SetBC, h.Same, h.Args, h.Src)
	}
	return sb.String()
}

func runHistoryCase(c *Ctx, hs *history) {
	if err := hs.compileAll(); err != nil {
		c.Count("compile-error")
		return
	}
	type snap struct {
		bc   *ugo.Bytecode
		host bool
		enc  string
		dump string
	}
	var snaps []snap
	seen := map[*ugo.Bytecode]bool{}
	for _, h := range hs.Runs {
		if !seen[h.bc] {
			seen[h.bc] = true
			snaps = append(snaps, snap{h.bc, h.Host, encImage(h.bc, h.Host), dumpBC(h.bc, true)})
		}
	}
	answers, fresh := hs.exec()
	obs := hs.Runs[len(hs.Runs)-1]
	used := answers[len(answers)-1]
	last := "none"
	if len(hs.Runs) > 1 {
		last = hs.Runs[len(hs.Runs)-2].Kind
	}
	reset := ""
	if obs.Clear {
		reset += "clear"
	}
	if obs.SetBC {
		reset += "setbytecode"
	}
	for _, h := range hs.Runs[:len(hs.Runs)-1] {
		c.Count("earlier:" + h.Kind)
	}
	for _, a := range answers[:len(answers)-1] {
		c.Count("earlier-outcome:" + outClass(a))
	}
	c.Count("observed:" + obs.Kind)
	c.Count("reset:" + reset)
	c.Count(fmt.Sprintf("length:%d", len(hs.Runs)-1))
	if used != fresh {
		c.Violation(PropViolation{Property: "C07",
			What:  fmt.Sprintf("after this history and %s the script runs to\n  %s\non a new VM it runs to\n  %s", reset, used, fresh),
			Input: hs.describe(), Sig: "C07:history-dependent:" + reset + ":" + last})
	}
	if again := runHist(ugo.NewVM(obs.bc), obs); again != fresh {
		c.Violation(PropViolation{Property: "C07", What: "two runs of one Bytecode on new VMs differ: " + fresh + " vs " + again,
			Input: hs.describe(), Sig: "C07:rerun-differs"})
	}
	for _, s := range snaps {
		if d := dumpBC(s.bc, true); d != s.dump {
			c.Violation(PropViolation{Property: "C07", What: "executing the Bytecode modified it:\n before " + s.dump + "\n after  " + d,
				Input: hs.describe(), Sig: "C07:bytecode-modified"})
		}
		if s.enc != "" {
			if e := encImage(s.bc, s.host); e != s.enc {
				c.Violation(PropViolation{Property: "C07", What: "the encoder's image of the Bytecode differs before and after the runs:\n before " + s.enc + "\n after  " + e,
					Input: hs.describe(), Sig: "C07:bytecode-modified"})
			}
			c.Count("encoder-image-compared")
		}
	}
	line, ok := hs.line()
	impl := histAnswer(answers, fresh)
	key := ""
	if ok {
		f := strings.Split(used, "\t")
		key = fmt.Sprintf("%s/%s/%s/%d", last, reset, strings.SplitN(strings.TrimPrefix(f[0], "out="), " ", 2)[0], len(hs.Runs))
		if len(f) > 2 {
			key += "/" + f[2]
		}
	}
	c.Add(Case{Line: line, Impl: impl, Key: key})
}

// outClass: val | err <Name> | goerr panic | panic | hang
func outClass(answer string) string {
	o := strings.SplitN(strings.TrimPrefix(answer, "out="), "\t", 2)[0]
	f := strings.Fields(o)
	switch {
	case len(f) == 0:
		return "?"
	case f[0] == "err" && len(f) > 1:
		if b, err := hex.DecodeString(f[1]); err == nil {
			return "err:" + string(b)
		}
		return "err"
	case f[0] == "goerr" && len(f) > 1:
		return "goerr:" + f[1]
	}
	return f[0]
}

func init() {
	register(&Stream{
		Name: "history",
		Skip: histSkip,
		Run: func(c *Ctx) {
			mainClosureOracle(c)
			// a run on a NEW VM must not depend on another VM having been aborted while it held a pooled
			// child VM (strings.Map -> Invoker.Acquire/Release -> sync.Pool)
			if pr := conc.AbortIsolation(1 + c.Scale/10); pr != "" {
				c.Violation(PropViolation{Property: "C07", What: "a run's outcome depends on the history of OTHER VMs: " + pr,
					Input: "strings.Map(func(ch) { for i := 0; i < n; i++ {}; return ch }, s) on several VMs, one aborted (conc.AbortIsolation)", Sig: "C07:abort-leaks-to-later-run"})
			}
			c.dist["oracle:abort-isolation"]++
			// a run's outcome depends on ITS arguments only: not on what an earlier run on another VM did to
			// the argument slice the host passes to both
			if pr := conc.NilGlobalsProbe(); pr != "" {
				c.Violation(PropViolation{Property: "C07", What: "a run's outcome depends on earlier runs through the globals it was NOT given: " + pr,
					Input: "global g; old := g; g = (g || 0) + 1; return [old, g]   run with nil globals (conc.NilGlobalsProbe)", Sig: "C07:nil-globals-shared"})
			}
			if pr := conc.HostArgsProbe(); pr != "" {
				c.Violation(PropViolation{Property: "C07", What: "a run's outcome depends on an earlier run that was given the same argument slice: " + pr,
					Input: "param ...xs; xs[0] = xs[0] + \"!\"; xs = append(xs, 1); return xs   (conc.HostArgsProbe)", Sig: "C07:host-args-shared"})
			}
			c.Rule("C07: histories of 0..8 earlier runs on ONE VM (gen.Program scripts; uncaught errors thrown under nested try/finally frames; frame overflow; stack-slot overflow = Go index panic, escaping or recovered; overflow caught inside the recursion; abort at a chosen instruction through the H1 hook; large stack residue; impl-only histories add host callbacks that panic / index out of range / return errors / call vm.Abort(), source modules with mutable state incl. a module whose body fails half-way, builtin modules strings/time mutated by the script, callbacks through pooled child VMs) each optionally preceded by Clear()/SetBytecode or re-running the same Bytecode; then Clear() and/or SetBytecode and the observed script (gen.Program, uninitialised locals, deep recursion, closures, try/catch/finally, module state, builtin-module keys, callbacks). Oracle: observed run on the used VM == on a new VM (outcome, instruction count, H1 trace hash, final globals); two new-VM runs equal; encoder bytes and a structural dump (incl. object identities) of every Bytecode unchanged. Model: the same history chained on one Lean model state through clear/setBytecode/runFrom (every run's outcome, count, trace hash, globals + the model's own new-VM run); distinct = (kind of last earlier run, reset, outcome class, length, trace hash) of model-compared histories")
			n := 260 * c.Scale
			for i := 0; i < n; i++ {
				r := c.R.Fork()
				runHistoryCase(c, genHistory(r, i%5 < 3))
			}
		},
		Replay: func(line string) (string, error) {
			f := strings.Split(line, "\t")
			last := f[len(f)-1]
			if !strings.HasPrefix(last, "#") {
				return "", fmt.Errorf("line carries no history")
			}
			js, err := hex.DecodeString(last[1:])
			if err != nil {
				return "", err
			}
			hs := &history{}
			if err := json.Unmarshal(js, hs); err != nil {
				return "", err
			}
			if err := hs.compileAll(); err != nil {
				return "", err
			}
			answers, fresh := hs.exec()
			return histAnswer(answers, fresh), nil
		},
	})
}
