package main

import (
	"encoding/json"
	"fmt"
	"strings"

	"github.com/ozanh/ugo"

	"verifharness/codec"
	"verifharness/gen"
)

// stream `invoke` (property C14): the same script body is run twice — variant A calls
// script functions inside the script (`call := func(f, ...args) { return f(...args) }`),
// variant B calls them from Go: `call`/`calln` are host functions in the globals that use
// ugo.NewInvoker(c.VM(), f) (unpooled / pooled via Acquire+Release / one Invoker reused
// for repeated Invoke calls), also nested (an invoked function calls `call` again, on the
// child VM).  Oracle: result or error, final globals, captured-variable state (returned
// by the script) must be equal.  Lock-step: variant A and variant B
// through the `inv` request of the Lean model of Invoker/_acquire/_release (the request carries
// no globals: the model builds them itself, host function 0 = call, 1 = calln, 2 = gopanic).

// invokeScribble passes the arguments in a buffer of its own and overwrites the buffer after the
// call returned, as a Go caller that re-uses an argument slice does: what the callee keeps (a
// variadic parameter's array, captured arguments) must not be that buffer.
func invokeScribble(inv *ugo.Invoker, args []ugo.Object) (ugo.Object, error) {
	buf := make([]ugo.Object, len(args))
	copy(buf, args)
	r, err := inv.Invoke(buf...)
	for i := range buf {
		buf[i] = ugo.String("<caller re-used its argument buffer>")
	}
	return r, err
}

func invHost(mode string) (call, calln *ugo.Function) {
	pooled := strings.HasSuffix(mode, "pooled") && !strings.HasSuffix(mode, "unpooled")
	reuse := strings.HasPrefix(mode, "reuse")
	rest := func(c ugo.Call, from int) []ugo.Object {
		var as []ugo.Object
		for i := from; i < c.Len(); i++ {
			as = append(as, c.Get(i))
		}
		return as
	}
	one := func(vm *ugo.VM, f ugo.Object, args []ugo.Object) (ugo.Object, error) {
		inv := ugo.NewInvoker(vm, f)
		if pooled {
			inv.Acquire()
			defer inv.Release()
		}
		return invokeScribble(inv, args)
	}
	call = &ugo.Function{Name: "call", ValueEx: func(c ugo.Call) (ugo.Object, error) {
		if c.Len() < 1 {
			return ugo.Undefined, ugo.ErrWrongNumArguments.NewError("want>=1 got=0")
		}
		return one(c.VM(), c.Get(0), rest(c, 1))
	}}
	calln = &ugo.Function{Name: "calln", ValueEx: func(c ugo.Call) (ugo.Object, error) {
		if c.Len() < 2 {
			return ugo.Undefined, ugo.ErrWrongNumArguments.NewError("want>=2 got=" + fmt.Sprint(c.Len()))
		}
		n, _ := ugo.ToGoInt(c.Get(0))
		f := c.Get(1)
		args := rest(c, 2)
		out := ugo.Array{}
		if reuse {
			inv := ugo.NewInvoker(c.VM(), f)
			if pooled {
				inv.Acquire()
				defer inv.Release()
			}
			for i := 0; i < n; i++ {
				r, err := invokeScribble(inv, args)
				if err != nil {
					return ugo.Undefined, err
				}
				out = append(out, r)
			}
			return out, nil
		}
		for i := 0; i < n; i++ {
			r, err := one(c.VM(), f, args)
			if err != nil {
				return ugo.Undefined, err
			}
			out = append(out, r)
		}
		return out, nil
	}}
	return
}

func invCompile(ic *gen.InvCase, host bool, noopt bool) (*ugo.Bytecode, error) {
	mm := ugo.NewModuleMap()
	for name, src := range ic.Mods {
		mm.AddSourceModule(name, []byte(src))
	}
	pre := gen.InvPrefixScript
	if host {
		pre = gen.InvPrefixHost
	}
	return ugo.Compile([]byte(pre+ic.Body), ugo.CompilerOptions{ModuleMap: mm, NoOptimize: noopt})
}

// stripHost removes the host functions from the printed globals (variant B only has them)
func stripHost(g ugo.Map) ugo.Map {
	out := ugo.Map{}
	for k, v := range g {
		if k != "call" && k != "calln" && k != "gopanic" {
			out[k] = v
		}
	}
	return out
}

type invReplay struct {
	Case  gen.InvCase `json:"case"`
	NoOpt bool        `json:"noopt"`
	Host  bool        `json:"host"`
}

// invRun runs one variant; the answer has the same layout as runTraced's.
func invRun(ic *gen.InvCase, host, noopt bool) (answer string, bc *ugo.Bytecode, err error) {
	bc, err = invCompile(ic, host, noopt)
	if err != nil {
		return "", nil, err
	}
	g := ugo.Map{"gopanic": &ugo.Function{Name: "gopanic", Value: func(...ugo.Object) (ugo.Object, error) { panic("gopanic") }}}
	if host {
		g["call"], g["calln"] = invHost(ic.Mode)
	}
	res, _ := runTraced(nil, bc, true, g, nil, false)
	// replace the globals image by one without the host functions
	f := strings.Split(res, "\t")
	for i := range f {
		if strings.HasPrefix(f[i], "globals=") {
			f[i] = "globals=" + codec.Encode(stripHost(g), nil)
		}
	}
	return strings.Join(f, "\t"), bc, nil
}

func field(ans, name string) string {
	for _, f := range strings.Split(ans, "\t") {
		if strings.HasPrefix(f, name+"=") {
			return f[len(name)+1:]
		}
	}
	return ""
}

func invModeCode(mode string) string {
	switch mode {
	case "unpooled":
		return "u"
	case "pooled":
		return "p"
	case "reuse-unpooled":
		return "U"
	}
	return "P"
}

// poolResidue: a pooled child that was aborted while it ran must not come back from the
// pool in that state: after Release + Acquire a child behaves like a new one.
func poolResidue(c *Ctx) {
	mm := ugo.NewModuleMap()
	bc1, err1 := ugo.Compile([]byte("global (call, doabort)\nf := func() { doabort(); return 1 }\nreturn call(f)\n"), ugo.CompilerOptions{ModuleMap: mm})
	bc2, err2 := ugo.Compile([]byte("global call\nf := func(x) { return x + 1 }\nreturn [call(f, 41), call(f, 1)]\n"), ugo.CompilerOptions{ModuleMap: mm})
	if err1 != nil || err2 != nil {
		c.Violation(PropViolation{"C14", fmt.Sprintf("pool scenario does not compile: %v %v", err1, err2), "", "C14:generator"})
		return
	}
	call, _ := invHost("pooled")
	root := ugo.NewVM(bc1)
	g1 := ugo.Map{"call": call, "doabort": &ugo.Function{Name: "doabort", Value: func(...ugo.Object) (ugo.Object, error) {
		root.Abort()
		return ugo.Undefined, nil
	}}}
	r1, _ := runTraced(root, bc1, true, g1, nil, false)
	r2, _ := runTraced(nil, bc2, true, ugo.Map{"call": call}, nil, false)
	c.Count("pool-residue-scenario")
	want := "val " + codec.Encode(ugo.Array{ugo.Int(42), ugo.Int(2)}, nil)
	if field(r2, "out") != want {
		c.Violation(PropViolation{"C14", "after a pooled child was aborted (" + field(r1, "out") + ") and released, a later pooled invocation on a new VM gives " + field(r2, "out") + " instead of " + want,
			"run 1: root.Abort() from inside a pooled invocation; run 2: call(f, 41), call(f, 1) pooled on a new VM", "C14:pool-residue"})
	}
}

func init() {
	register(&Stream{
		Name: "invoke",
		Skip: vmSkip,
		Run: func(c *Ctx) {
			stringsFuncOracle(c)
			invSeqOracle(c)
			c.Rule("generated scripts (gen/invoke.go: fixed/variadic functions, closures over a counter, global updaters, recursion, nested invocation, throwing and failing functions, functions importing modules, try/finally bodies, closures made in loops; accepted arities only) run twice: in-script calls vs Go-side ugo.Invoker calls (unpooled, pooled, one Invoker reused) x optimizer on/off; oracle: equal result/error, globals, captured state; lock-step of both variants with the Lean model (`vm` / `inv` requests); distinct = distinct (mode, shape, outcome class)")
			n := 250 * c.Scale
			for i := 0; i < 5; i++ {
				poolResidue(c)
			}
			for i := 0; i < n; i++ {
				ic := gen.InvokeCase(c.R.Fork())
				noopt := c.R.Bool()
				c.Count("mode:" + ic.Mode)
				spec, _ := json.Marshal(invReplay{ic, noopt, true})
				a, bcA, errA := invRun(&ic, false, noopt)
				b, bcB, errB := invRun(&ic, true, noopt)
				if errA != nil || errB != nil {
					c.Count("generator-compile-error")
					c.Violation(PropViolation{"C14", fmt.Sprintf("generated script does not compile: %v / %v", errA, errB), string(spec), "C14:generator"})
					continue
				}
				cls := strings.SplitN(field(b, "out"), " ", 2)[0]
				c.Count("outcome:" + cls)
				if field(a, "out") != field(b, "out") {
					c.Violation(PropViolation{"C14", "Go-side invocation gives " + field(b, "out") + ", the in-script call gives " + field(a, "out"), string(spec), "C14:result-differs:" + ic.Mode})
				} else if field(a, "globals") != field(b, "globals") {
					c.Violation(PropViolation{"C14", "globals after Go-side invocation " + field(b, "globals") + ", after in-script calls " + field(a, "globals"), string(spec), "C14:globals-differ:" + ic.Mode})
				}
				key := ic.Mode + "/" + ic.Shape + "/" + cls
				// lock-step, variant A: a plain script
				if line, ok := vmLine("RA", 400000, bcA, ugo.Map{}, nil); ok {
					specA, _ := json.Marshal(invReplay{ic, noopt, false})
					line = "inv" + strings.TrimPrefix(line, "vm")
					c.Add(Case{Line: line + "\t#" + codec.Hex(specA), Impl: a, Key: "A/" + key})
				}
				// lock-step, variant B: host functions 0 (`call`) and 1 (`calln`) in the model
				if line, ok := vmLine("RB"+invModeCode(ic.Mode), 400000, bcB, ugo.Map{}, nil); ok {
					line = "inv" + strings.TrimPrefix(line, "vm")
					c.Add(Case{Line: line + "\t#" + codec.Hex(spec), Impl: b, Key: "B/" + key})
				}
			}
		},
		Replay: func(line string) (string, error) {
			i := strings.LastIndex(line, "\t#")
			if i < 0 {
				return "", fmt.Errorf("invoke line without case spec")
			}
			var raw []byte
			if _, err := fmt.Sscanf(line[i+2:], "%x", &raw); err != nil {
				return "", err
			}
			var rp invReplay
			if err := json.Unmarshal(raw, &rp); err != nil {
				return "", err
			}
			ans, _, err := invRun(&rp.Case, rp.Host, rp.NoOpt)
			if err != nil {
				return "compile: " + err.Error(), nil
			}
			return ans, nil
		},
	})
}
