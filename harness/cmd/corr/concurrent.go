package main

import (
	"bytes"
	"encoding/hex"
	"encoding/json"
	"fmt"
	"os"
	"os/exec"
	"path/filepath"
	"regexp"
	"strings"
	"time"

	"github.com/ozanh/ugo"

	"verifharness/codec"
	"verifharness/conc"
)

// stream `concurrent` (C08): N goroutines, each with its own VMs and globals, run ONE
// compiled Bytecode at the same time; every run must return what the solo run with the
// same arguments returns (value / error incl. the %+v stack-trace text / final globals).
// Builtin-module privacy probe: a key assigned by one VM in an imported builtin module is
// never seen by another VM.  The same workload is run as a child process built with
// `go build -race`; a race report is a violation.  For scripts inside the modelled subset
// the solo run is also compared with the Lean VM model (lock-step trace), so the
// concurrent runs are tied to the model through the solo run.

func verifDir() string {
	exe, _ := os.Executable()
	return filepath.Dir(filepath.Dir(exe))
}

var raceLoc = regexp.MustCompile(`([A-Za-z0-9_]+\.go):(\d+) \+0x`)

// raceChild builds cmd/racechild with -race against the same ugo tree and runs it.
// available=false: the race build cannot be made here (reported, not a failure).
func raceChild(seed uint64, n int) (available bool, note string, races []string, rep map[string]any) {
	vd := verifDir()
	mod := filepath.Join(vd, "work", "harness.mod")
	if _, err := os.Stat(mod); err != nil {
		return false, "no work/harness.mod (run through bin/check or bin/setup.sh)", nil, nil
	}
	out := filepath.Join(vd, "work", "racechild-race")
	env := append(os.Environ(), "CGO_ENABLED=1", "GOFLAGS=-mod=mod", "GOPROXY=off", "GOSUMDB=off", "GOTOOLCHAIN=local")
	build := exec.Command("go", "build", "-race", "-modfile", mod, "-tags", "verif", "-o", out, "./cmd/racechild")
	build.Dir = filepath.Join(vd, "harness")
	build.Env = env
	if b, err := build.CombinedOutput(); err != nil {
		msg := string(b)
		if len(msg) > 300 {
			msg = msg[:300]
		}
		return false, "go build -race failed: " + strings.TrimSpace(msg), nil, nil
	}
	cmd := exec.Command(out, "-seed", fmt.Sprint(seed), "-n", fmt.Sprint(n))
	var so, se bytes.Buffer
	cmd.Stdout, cmd.Stderr = &so, &se
	cmd.Env = append(os.Environ(), "GORACE=halt_on_error=0 exitcode=0")
	done := make(chan error, 1)
	if err := cmd.Start(); err != nil {
		return false, "race child does not start: " + err.Error(), nil, nil
	}
	go func() { done <- cmd.Wait() }()
	select {
	case <-done:
	case <-time.After(5 * time.Minute):
		cmd.Process.Kill()
		return true, "race child timed out", []string{"timeout"}, nil
	}
	for _, blk := range strings.Split(se.String(), "==================") {
		if strings.Contains(blk, "DATA RACE") {
			races = append(races, strings.TrimSpace(blk))
		}
	}
	rep = map[string]any{}
	if err := json.Unmarshal(bytes.TrimSpace(so.Bytes()), &rep); err != nil {
		msg := tailStr(se.String(), 600)
		for _, l := range strings.Split(se.String(), "\n") {
			if strings.HasPrefix(l, "fatal error:") || strings.HasPrefix(l, "panic:") {
				msg = l + " … " + tail2(se.String()[strings.Index(se.String(), l):], 900)
				break
			}
		}
		return true, "race child crashed: " + msg, races, nil
	}
	return true, "", races, rep
}

func tailStr(s string, n int) string {
	if len(s) > n {
		return s[len(s)-n:]
	}
	return s
}

const skipLine = "skip\timpl-only"

func concLine(c *conc.Case, bc *ugo.Bytecode, noOpt bool) (line, impl string, ok bool) {
	if !c.ModelOK {
		return "", "", false
	}
	optS := "-"
	if c.Recover {
		optS = "R"
	}
	line, ok = vmLine(optS, 200000, bc, ugo.Map{}, conc.Args(0))
	if !ok {
		return "", "", false
	}
	impl, _ = runTraced(nil, bc, c.Recover, ugo.Map{}, conc.Args(0), false)
	o := 0
	if noOpt {
		o = 1
	}
	return line + fmt.Sprintf("\t#o%d:%s", o, codec.Hex([]byte(c.Src))), impl, true
}

// replayVMLine recomputes the implementation's answer for a `vm` line that carries its
// source in the trailing `#o<noopt>:<hex>` field (arguments: conc.Args(0), globals {}).
func replayVMLine(line string) (string, error) {
	f := strings.Split(line, "\t")
	last := f[len(f)-1]
	if len(f) < 3 || !strings.HasPrefix(last, "#o") || len(last) < 4 {
		return "", fmt.Errorf("line carries no source")
	}
	src, err := hex.DecodeString(last[4:])
	if err != nil {
		return "", err
	}
	bc, err := ugo.Compile(src, ugo.CompilerOptions{NoOptimize: last[2] == '1'})
	if err != nil {
		return "", err
	}
	impl, _ := runTraced(nil, bc, strings.Contains(f[1], "R"), ugo.Map{}, conc.Args(0), false)
	return impl, nil
}

func init() {
	register(&Stream{
		Name:   "concurrent",
		Skip:   vmSkip,
		Replay: replayVMLine,
		Run: func(c *Ctx) {
			c.Rule("C08: programs of six families (closures; source-module imports with mutable module state; builtin modules strings/time incl. a script changing its own copy; errors thrown through modules and formatted with %+v stack traces; callbacks through pooled child VMs via strings.Map/IndexFunc/FieldsFunc/TrimFunc, nested and throwing; gen.Program scripts) compiled once; 8 goroutines x 3 runs on the one Bytecode, each VM with its own globals and arguments: every result (value | error name+message+%+v text, final globals) must equal the solo result for the same arguments, also after the concurrent phase; builtin-module privacy probe (sequential and concurrent); the same workload in a child process built with `go build -race` (a race report = violation); solo runs of scripts in the modelled subset are compared with the Lean VM model in lock-step (outcome, instruction count, trace hash, globals); distinct = (family, outcome class, trace-hash class) of model-compared cases")
			// the race detector
			rn := 42
			if c.Scale > 1 {
				rn = 420
			}
			avail, note, races, rep := raceChild(c.R.Fork().U64(), rn)
			unsafe := false
			switch {
			case !avail:
				c.Count("race-build-unavailable: " + note)
			default:
				c.Count("race-child-ran")
				if note != "" {
					unsafe = true
					sig := "C08:race-child-failed"
					if strings.Contains(note, "concurrent map") {
						sig = "C08:fatal-concurrent-map-access"
					}
					c.Violation(PropViolation{Property: "C08", What: "the workload crashed in the child process: " + note,
						Input: "harness/cmd/racechild (go build -race), workload harness/conc", Sig: sig})
				}
				if len(races) > 0 {
					unsafe = true
				}
				for _, rc := range races {
					loc := "?"
					if m := raceLoc.FindStringSubmatch(rc); m != nil {
						loc = m[1] + ":" + m[2]
					}
					c.Violation(PropViolation{Property: "C08", What: "the Go race detector reports a data race between VMs sharing one Bytecode:\n" + tail2(rc, 1500),
						Input: "harness/cmd/racechild (go build -race), workload harness/conc", Sig: "C08:data-race:" + loc})
				}
				if rep != nil {
					if ds, _ := rep["diffs"].([]any); len(ds) > 0 {
						b, _ := json.Marshal(ds[0])
						c.Violation(PropViolation{Property: "C08", What: "race child: concurrent result differs from solo: " + string(b),
							Input: "cmd/racechild", Sig: "C08:concurrent-differs:racechild"})
					}
					if leak, _ := rep["leak"].(string); leak != "" {
						c.Violation(PropViolation{Property: "C08", What: "race child: " + leak, Input: "cmd/racechild", Sig: "C08:builtin-module-shared"})
					}
					if runs, ok := rep["runs"].(float64); ok {
						c.dist["race-child-runs"] += int(runs)
					}
				}
			}
			n := 140 * c.Scale
			vms, k := 8, 3
			for _, cs := range conc.Generate(c.R.Fork(), n) {
				// watchdog: a case takes milliseconds; a compile or run that does not come back within two
				// minutes (state shared by the VMs was corrupted into something cyclic, a lock is held for
				// ever) is a failure of the property, and nothing after it in this process can be trusted
				if hung := concHangs(cs, vms, k, unsafe); hung != "" {
					c.Violation(PropViolation{Property: "C08", What: "after earlier VMs ran, " + hung + " does not terminate (120 s): the runs left process-wide state of the library changed",
						Input: cs.Src, Sig: "C08:hang:" + cs.Family})
					return
				}
				bc, noOpt, err := cs.CompileAny()
				if err != nil {
					c.Count("compile-error:" + cs.Family)
					continue
				}
				if !conc.Bounded(bc, cs.Recover, vms) {
					c.Count("too-long:" + cs.Family)
					continue
				}
				c.Count("family:" + cs.Family)
				// the bytecode hypothesis of the Lean theorems (ModulePattern), on the real compiler output
				if v := conc.ModulePattern(bc); v != "" {
					c.Violation(PropViolation{Property: "C08", What: "compiled bytecode violates the module-load pattern assumed by C08_shared (a shared module object could reach the stack uncopied): " + v,
						Input: cs.Src, Sig: "C08:module-pattern"})
				}
				c.Count("module-pattern-scanned")
				var solo []string
				var diffs []conc.Diff
				if unsafe {
					// the child process already showed unsynchronised sharing: running the
					// goroutines in this process could kill it (Go fatal error); solo runs only
					c.Count("in-process-concurrency-skipped")
					solo = []string{conc.RunOne(bc, cs.Recover, 0)}
				} else {
					solo, diffs = conc.RunConcurrent(cs, bc, vms, k)
				}
				cls := strings.SplitN(solo[0], " ", 2)[0]
				c.Count("outcome:" + cls)
				for _, d := range diffs {
					c.Violation(PropViolation{Property: "C08",
						What:  fmt.Sprintf("VM %d running concurrently with %d others on one Bytecode returned %s; alone it returns %s", d.ID, vms-1, d.Conc, d.Solo),
						Input: cs.Src, Sig: "C08:concurrent-differs:" + d.Family})
				}
				line, impl, ok := concLine(cs, bc, noOpt)
				if !ok {
					c.Add(Case{Line: skipLine, Impl: "unsupported impl-only"})
					continue
				}
				key := ""
				if f := strings.Split(impl, "\t"); len(f) > 2 {
					key = cs.Family + "/" + cls + "/" + f[2]
				}
				c.Add(Case{Line: line, Impl: impl, Key: key})
			}
			// builtin-module privacy
			for _, concurrent := range []bool{false, true} {
				if concurrent && unsafe {
					continue
				}
				if !concurrent {
					if pr := conc.AbortIsolation(3); pr != "" {
						c.Violation(PropViolation{Property: "C08", What: "aborting one VM disturbs another VM: " + pr,
							Input: "strings.Map(func(ch) { for i := 0; i < n; i++ {}; return ch }, s) on several VMs, one aborted (conc.AbortIsolation)", Sig: "C08:abort-leaks-to-other-vm"})
					}
					c.Count("abort-isolation-probe")
					if pr := conc.HostArgsProbe(); pr != "" {
						c.Violation(PropViolation{Property: "C08", What: "VMs that are handed the same argument slice influence each other: " + pr,
							Input: "param ...xs; xs[0] = xs[0] + \"!\"; xs = append(xs, 1); return xs   (conc.HostArgsProbe)", Sig: "C08:host-args-shared"})
					}
					c.Count("host-args-probe")
					if pr := conc.NilGlobalsProbe(); pr != "" {
						c.Violation(PropViolation{Property: "C08", What: "VMs that are run without a globals map share one: " + pr,
							Input: "global g; old := g; g = (g || 0) + 1; return [old, g]   run with nil globals (conc.NilGlobalsProbe)", Sig: "C08:nil-globals-shared"})
					}
				}
				if leak := conc.PrivacyProbe("strings", concurrent); leak != "" {
					c.Violation(PropViolation{Property: "C08", What: "a builtin module value is shared between VMs: " + leak,
						Input: "m := import(\"strings\"); m.verifMark = …  (conc.PrivacyProbe)", Sig: "C08:builtin-module-shared"})
				}
				c.Count("privacy-probe")
			}
		},
	})
}

func tail2(s string, n int) string {
	if len(s) > n {
		return s[:n]
	}
	return s
}

// concHangs runs the case once under a watchdog (the real run of the case follows and repeats the
// work; a case costs milliseconds) and names the phase that did not return.
func concHangs(cs *conc.Case, vms, k int, solo bool) string {
	phase := make(chan string, 4)
	done := make(chan struct{})
	go func() {
		defer close(done)
		defer func() { _ = recover() }()
		phase <- "compiling the script"
		bc, _, err := cs.CompileAny()
		if err != nil || !conc.Bounded(bc, cs.Recover, vms) {
			return
		}
		phase <- "running the script"
		if solo {
			conc.RunOne(bc, cs.Recover, 0)
		} else {
			conc.RunConcurrent(cs, bc, vms, 1)
		}
	}()
	last := "starting"
	timeout := time.After(120 * time.Second)
	for {
		select {
		case p := <-phase:
			last = p
		case <-done:
			return ""
		case <-timeout:
			return last
		}
	}
}
