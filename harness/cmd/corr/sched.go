package main

// stream `sched` (C09): every schedule of the abstract abort protocol is forced on the
// real code through the named sync points (hook H2, build tag verif): goroutines are
// parked at the sync points and released one at a time as the schedule says.  The
// observed sync-point trace of every thread, the result of every Run and the number of
// instructions executed after a completed Abort are compared with the prediction of
// the Lean model (Model/Conc.lean) for the same schedule.
//
// Property oracle (independent of the model): a schedule in which an Abort that
// completed after Run was entered is followed by more than one further instruction is
// a lost abort; its signature names the window it fell into.  A Run during which no
// abort store happened must complete normally and see no aborted Invoke.

import (
	"bytes"
	"context"
	"errors"
	"fmt"
	"os"
	"runtime"
	"strconv"
	"strings"
	"sync"
	"sync/atomic"
	"time"

	"github.com/ozanh/ugo"
)

func goid() uint64 {
	var buf [64]byte
	n := runtime.Stack(buf[:], false)
	f := bytes.Fields(buf[:n]) // "goroutine 123 [running]:"
	if len(f) < 2 {
		return 0
	}
	id, _ := strconv.ParseUint(string(f[1]), 10, 64)
	return id
}

func goroutineAlive(id uint64) bool {
	buf := make([]byte, 1<<16)
	for {
		n := runtime.Stack(buf, true)
		if n < len(buf) {
			buf = buf[:n]
			break
		}
		buf = make([]byte, 2*len(buf))
	}
	return bytes.Contains(buf, []byte(fmt.Sprintf("goroutine %d [", id)))
}

type schedThr struct {
	name     string
	gate     chan struct{}
	ev       chan string
	released bool // released and not parked again yet
	fin      bool
	last     string // sync point the thread is parked at ("end" = idle)
	gid      uint64
	adopted  bool   // goroutine created inside ugo (Eval.run): it ends without an "end" park
	arrived  string // probing schedules: sync point reached while nobody was waiting for it
}

type schedEngine struct {
	mu       sync.Mutex
	byGid    map[uint64]*schedThr
	adopt    *schedThr // an unknown goroutine reaching Run.enter becomes this thread
	free     atomic.Bool
	tearing  atomic.Bool
	rec      func(t *schedThr, name string)
	watchdog time.Duration
	family   string
	R, ab    *schedThr
	inChild  atomic.Bool // R is inside inv.Invoke
	// oracle state
	cDepth      int    // nesting of Abort calls of the aborting thread (1 root, 2 child)
	armed       bool   // a root store happened while R was inside Run (this Run)
	rootWin     bool   // … while R was between Run entry and the root reset
	rootAt      string // where R was at that store
	childWin    bool   // a child store happened while R was between Aborted() and the child's reset
	late        bool   // a child was registered after the abort's pool snapshot
	extra       int    // instructions executed while armed (this Run)
	totalExtra  int
	storeInRun  bool
	invokeErrs  int
	nRuns       int
	bad         []PropViolation
	probe       bool
	timerBlocks int // steps that ended because the watchdog fired (not because blocking was predicted)
}

func (e *schedEngine) lookup(gid uint64) *schedThr {
	e.mu.Lock()
	defer e.mu.Unlock()
	return e.byGid[gid]
}

func (e *schedEngine) register(t *schedThr) {
	e.mu.Lock()
	t.gid = goid()
	e.byGid[t.gid] = t
	e.mu.Unlock()
}

func (e *schedEngine) hook(name string) {
	gid := goid()
	t := e.lookup(gid)
	if t == nil {
		e.mu.Lock()
		if e.adopt != nil && name == "Run.enter" && e.adopt.gid == 0 && !e.adopt.fin {
			t = e.adopt
			t.gid = gid
			t.adopted = true
			e.byGid[gid] = t
		}
		e.mu.Unlock()
		if t == nil {
			return
		}
	}
	e.park(t, name)
}

func (e *schedEngine) park(t *schedThr, name string) {
	if e.free.Load() {
		if e.rec != nil {
			e.rec(t, name)
		}
		return
	}
	t.ev <- name
	<-t.gate
}

func rWindowRoot(h string) bool { return h == "Run.enter" || h == "Run.beforeReset" }

func (e *schedEngine) rActive() bool {
	return e.R.last != "end" && !e.R.fin
}

func (e *schedEngine) lostSig() string {
	switch {
	case e.rootWin && e.family == "eval":
		return "C09:abort-before-reset@Eval-run"
	case e.rootWin:
		return "C09:abort-before-reset@Run-entry"
	case e.childWin:
		return "C09:abort-before-reset@Invoke"
	case e.late:
		return "C09:abort-before-acquire@Invoke"
	}
	return "C09:abort-lost:" + e.family + ":" + e.rootAt
}

// runEnded is called when a Run of the root VM has returned
func (e *schedEngine) runEnded(err error, known bool, input string) {
	if e.tearing.Load() {
		return
	}
	e.nRuns++
	if e.armed && e.extra > 1 {
		e.bad = append(e.bad, PropViolation{Property: "C09", Sig: e.lostSig(), Input: input,
			What: fmt.Sprintf("Abort completed while Run was at %s; %d further instructions were executed (result %s)", e.rootAt, e.extra, outcomeChar(err))})
	}
	if known && !e.storeInRun {
		if err != nil {
			e.bad = append(e.bad, PropViolation{Property: "C09", Sig: "C09:rerun-not-normal", Input: input,
				What: fmt.Sprintf("run %d returned %v although no abort store happened during it", e.nRuns, err)})
		} else if e.invokeErrs > 0 {
			e.bad = append(e.bad, PropViolation{Property: "C09", Sig: "C09:rerun-not-normal:invoke", Input: input,
				What: fmt.Sprintf("run %d: %d Invoke calls returned an error although no abort store happened during it", e.nRuns, e.invokeErrs)})
		}
	}
	e.armed, e.rootWin, e.childWin, e.late = false, false, false, false
	e.storeInRun, e.invokeErrs, e.extra = false, 0, 0
}

// beforeRelease: bookkeeping for the segment thread t is about to execute
func (e *schedEngine) beforeRelease(t *schedThr) {
	if t == e.ab {
		if t.last == "Abort.between" {
			if e.cDepth >= 2 { // child store
				if e.rActive() {
					e.storeInRun = true
				}
				if e.R.last == "Invoke.afterCheck" || (e.inChild.Load() && rWindowRoot(e.R.last)) {
					e.childWin = true
				}
			} else if e.rActive() { // root store
				e.storeInRun = true
				if !e.armed {
					e.armed = true
					e.rootAt = e.R.last
					if e.inChild.Load() {
						e.rootAt = "child:" + e.R.last
					}
					e.rootWin = !e.inChild.Load() && rWindowRoot(e.R.last)
				}
			}
			e.cDepth--
		}
		return
	}
	if t == e.R {
		if t.last == "loop.body" && e.armed {
			e.extra++
			e.totalExtra++
		}
		if t.last == "_acquire.inside" && (e.armed || (e.ab.last == "Abort.between" && e.cDepth == 1)) {
			e.late = true
		}
	}
}

func (e *schedEngine) afterPark(t *schedThr, name string) {
	if t == e.ab && name == "Abort.enter" {
		e.cDepth++
		if e.cDepth == 1 && !e.armed {
			e.childWin = false
		}
	}
}

func (e *schedEngine) release(t *schedThr) {
	e.beforeRelease(t)
	t.released = true
	t.gate <- struct{}{}
}

// step releases t and waits until it parks again: the sync point reached, "fin" when the
// goroutine ended, "!blocked" when it did not arrive within the watchdog.
func (e *schedEngine) step(t *schedThr, predictBlocked bool) string {
	if t.fin {
		return "fin"
	}
	if t.arrived != "" {
		n := t.arrived
		t.arrived = ""
		return n
	}
	if !t.released {
		if predictBlocked && !e.probe {
			// the other thread is parked inside pool.mu and t's next operation is Lock.  Only
			// probing schedules (leading directive P) release t to test the real mutex (each
			// probe costs a watchdog period); t then proceeds as soon as the lock is free.
			return "!blocked"
		}
		e.release(t)
	}
	tm := time.NewTimer(e.watchdog)
	defer tm.Stop()
	var poll <-chan time.Time
	if t.adopted {
		tick := time.NewTicker(100 * time.Microsecond)
		defer tick.Stop()
		poll = tick.C
	}
	for {
		select {
		case n := <-t.ev:
			t.released = false
			if n == "fin" {
				t.fin = true
				return "fin"
			}
			t.last = n
			e.afterPark(t, n)
			return n
		case <-poll:
			if !goroutineAlive(t.gid) {
				// the Run goroutine of Eval.run returned
				t.released, t.adopted, t.fin, t.last = false, false, true, "end"
				return "end"
			}
		case <-tm.C:
			e.timerBlocks++
			return "!blocked"
		}
	}
}

type schedScenario struct {
	name   string
	family string // run | eval
	script string
	cbOps  string // operations of the Go callback `cb`
	runs   int
	// filled by calibration
	prog string
	k    int
	rLen int // R steps of one undisturbed Run, including the final "end"
}

func schedScenarioList(thorough bool) []*schedScenario {
	l := []*schedScenario{
		{name: "loop", family: "run", script: "x := 0; x = x + 1; x = x + 2; return x", runs: 1},
		{name: "invoke-pooled", family: "run", script: "f := func() { return 1 }; cb(f); return 2", cbOps: "aiir", runs: 1},
		{name: "invoke-nopool", family: "run", script: "f := func() { return 1 }; cb(f); return 2", cbOps: "ii", runs: 1},
		{name: "rerun", family: "run", script: "f := func() { return 1 }; cb(f); return 2", cbOps: "air", runs: 2},
		{name: "eval", family: "eval", script: "x := 0; x = x + 1; return x", runs: 1},
	}
	if thorough {
		l = append(l,
			&schedScenario{name: "invoke-3", family: "run", script: "f := func() { return 1 }; cb(f); return 2", cbOps: "aiiir", runs: 1},
			&schedScenario{name: "invoke-reacquire", family: "run", script: "f := func() { x := 1; return x }; cb(f); return 2", cbOps: "airair", runs: 1},
			// (at most one child is registered at any time: with two, the order in which
			// `range v.vms` visits them is Go map order and the trace is not determined)
			&schedScenario{name: "invoke-twice", family: "run", script: "f := func() { return 1 }; cb(f); cb(f); return 2", cbOps: "air", runs: 1},
			&schedScenario{name: "eval-long", family: "eval", script: "x := 0; x = x + 1; x = x + 1; x = x + 1; return x", runs: 1},
		)
	}
	return l
}

func outcomeChar(err error) string {
	switch {
	case err == nil:
		return "c"
	case errors.Is(err, ugo.ErrVMAborted):
		return "a"
	default:
		return "e"
	}
}

func (sc *schedScenario) line(dirs []string) string {
	return fmt.Sprintf("sched\t%s\t%s\t%s\t%d\t%s", sc.name, sc.family, sc.prog, sc.k, strings.Join(dirs, " "))
}

// execute forces the directives on the real code.  With calibrate=true R runs freely and
// only its sync points are recorded.
func (sc *schedScenario) execute(dirs []string, watchdog time.Duration, calibrate bool) (string, *schedEngine, []string) {
	mk := func(n string) *schedThr {
		return &schedThr{name: n, gate: make(chan struct{}), ev: make(chan string, 1), last: "end"}
	}
	R, C, E := mk("R"), mk("C"), mk("E")
	e := &schedEngine{byGid: map[uint64]*schedThr{}, watchdog: watchdog, family: sc.family, R: R, probe: len(dirs) > 0 && dirs[0] == "P"}
	input := sc.line(dirs)
	var calib []string
	if calibrate {
		e.free.Store(true)
		e.rec = func(t *schedThr, name string) {
			if t == R && name != "end" {
				if e.inChild.Load() && !strings.HasPrefix(name, "Invoke.") {
					name = "child:" + name
				}
				calib = append(calib, name)
			}
		}
	}
	if sc.family == "run" {
		e.ab = C
	} else {
		e.adopt, e.ab = R, E
	}
	ugo.VerifSetSyncHook(e.hook)
	defer ugo.VerifSetSyncHook(nil)

	var quit atomic.Bool
	var results []string
	evalRes := "-"
	opts := ugo.CompilerOptions{NoOptimize: true, SymbolTable: ugo.NewSymbolTable()}
	if _, err := opts.SymbolTable.DefineGlobal("cb"); err != nil {
		panic(err)
	}
	globals := ugo.Map{"cb": &ugo.Function{Name: "cb", ValueEx: func(c ugo.Call) (ugo.Object, error) {
		// the callback drives an Invoker through sc.cbOps; Invoke errors are swallowed (the
		// model's callbacks are linear) but counted
		inv := ugo.NewInvoker(c.VM(), c.Get(0))
		for _, op := range sc.cbOps {
			switch op {
			case 'a':
				inv.Acquire()
			case 'i':
				e.inChild.Store(true)
				_, err := inv.Invoke()
				e.inChild.Store(false)
				if err != nil {
					e.invokeErrs++
				}
			case 'r':
				inv.Release()
			}
		}
		return ugo.Undefined, nil
	}}}
	cancel := func() {}
	vmAborted := func() bool { return true }
	var startup []*schedThr
	if sc.family == "run" {
		bc, err := ugo.Compile([]byte(sc.script), opts)
		if err != nil {
			panic(err)
		}
		vm := ugo.NewVM(bc)
		go func() {
			e.register(R)
			e.park(R, "end")
			for i := 0; i < sc.runs; i++ {
				_, err := vm.Run(globals)
				if !e.tearing.Load() {
					results = append(results, outcomeChar(err))
				}
				e.runEnded(err, true, input)
				e.park(R, "end")
			}
			R.ev <- "fin"
		}()
		startup = append(startup, R)
		if !calibrate {
			go func() {
				e.register(C)
				e.park(C, "end")
				for !quit.Load() {
					vm.Abort()
					e.park(C, "end")
				}
				C.ev <- "fin"
			}()
			startup = append(startup, C)
		}
	} else {
		ev := ugo.NewEval(opts, globals)
		ctx, cf := context.WithCancel(context.Background())
		defer cf()
		cancel = cf
		vmAborted = ev.VM.Aborted
		go func() {
			e.register(E)
			_, _, err := ev.Run(ctx, []byte(sc.script))
			if !e.tearing.Load() {
				evalRes = "ok"
				if err != nil {
					evalRes = "err"
				}
			}
			if (R.gid != 0 || R.fin || calibrate) && !e.tearing.Load() {
				// the result of the inner Run as far as Eval.run lets it through
				if errors.Is(err, ugo.ErrVMAborted) {
					results = append(results, "a")
				} else {
					results = append(results, "c")
				}
			}
			e.park(E, "end")
			E.ev <- "fin"
		}()
		startup = append(startup, E)
	}
	if calibrate {
		if sc.family == "run" {
			<-R.ev
		} else {
			<-E.ev
		}
		return "", e, calib
	}
	for _, t := range startup {
		t.last = <-t.ev
	}
	threads := map[byte]*schedThr{'R': R, 'C': C, 'E': E}
	holdsLock := func(t *schedThr) bool {
		if t == R {
			return R.last == "_acquire.inside" || R.last == "_release.inside"
		}
		return e.cDepth >= 2
	}
	wantsLock := func(t *schedThr) bool {
		if t == R {
			return R.last == "_acquire.outside" || R.last == "_release.outside"
		}
		return t.last == "Abort.enter" && e.cDepth == 1
	}
	var obs []string
	for _, d := range dirs {
		if d == "P" {
			continue
		}
		if d == "X" {
			cancel()
			obs = append(obs, "X")
			continue
		}
		t := threads[d[0]]
		toEnd := d[1:] == "x"
		n := 100000
		if !toEnd {
			n, _ = strconv.Atoi(d[1:])
		}
		var names []string
		for i := 0; i < n; i++ {
			other := e.ab
			if t == e.ab {
				other = R
			}
			var name string
			spawned := R.gid != 0 || R.fin
			switch {
			case t == R && sc.family == "eval" && !spawned:
				name = "!blocked" // the Run goroutine does not exist yet
			case t == E && !t.released && t.last == "Abort.between" && e.cDepth == 1 && spawned:
				// second select: after the store E waits on doneCh without reaching a sync
				// point: release it, wait until the store is visible, report "wait"
				e.release(t)
				dl := time.Now().Add(2 * time.Second)
				for !vmAborted() && time.Now().Before(dl) {
					runtime.Gosched()
				}
				name, t.last = "wait", "wait"
			case t == E && t.last == "wait" && !R.fin:
				name = "!blocked" // doneCh is not closed yet
			default:
				name = e.step(t, !t.released && wantsLock(t) && holdsLock(other))
			}
			if t == R && name == "end" && sc.family == "eval" {
				e.runEnded(nil, false, input)
			}
			if e.probe && name != "!blocked" && other.released && !other.fin && other.last != "wait" && !holdsLock(t) {
				// probing schedule: `other` was released against pool.mu, which is free now: it
				// proceeds to its next sync point (the model advances it at the same moment)
				select {
				case h := <-other.ev:
					other.released = false
					if h == "fin" {
						other.fin = true
					} else {
						other.last = h
						e.afterPark(other, h)
					}
					other.arrived = h
				case <-time.After(2 * time.Second):
				}
			}
			names = append(names, name)
			if t == E && name == "Eval.run.beforeSelect2" {
				// `go` started the Run goroutine: it parks at Run.enter
				select {
				case h := <-R.ev:
					R.last = h
				case <-time.After(2 * time.Second):
					names = append(names, "!no-run-goroutine")
				}
			}
			if name == "fin" || name == "!blocked" || (toEnd && name == "end") {
				break
			}
		}
		obs = append(obs, string(d[0])+":"+strings.Join(names, ","))
	}
	resStr := fmt.Sprintf("%s;res=%s;eval=%s;extra=%d", strings.Join(obs, "|"), strings.Join(results, ""), evalRes, e.totalExtra)
	// teardown: let whatever is still parked run to its end (no longer observed)
	e.tearing.Store(true)
	quit.Store(true)
	e.free.Store(true)
	cancel()
	for _, t := range startup {
		if !t.fin && !t.released {
			select {
			case t.gate <- struct{}{}:
			case <-time.After(time.Millisecond):
			}
		}
	}
	if R.adopted && !R.released {
		select {
		case R.gate <- struct{}{}:
		case <-time.After(time.Millisecond):
		}
	}
	// wait until the harness' own goroutines are gone, so that none of them reaches a sync
	// point of the next schedule's engine
	for _, t := range startup {
		dl := time.After(2 * time.Second)
		for !t.fin {
			select {
			case h := <-t.ev:
				if h == "fin" {
					t.fin = true
				} else {
					select {
					case t.gate <- struct{}{}:
					default:
					}
				}
			case <-dl:
				t.fin = true
			}
		}
	}
	return resStr, e, nil
}

// calibrate derives the abstract instruction stream of the scenario from an undisturbed run
func (sc *schedScenario) calibrate() error {
	one := *sc
	one.runs = 1
	_, _, calib := one.execute(nil, time.Second, true)
	var instrs []string
	childBodies, k := 0, -1
	inFirstChild := false
	for _, h := range calib {
		switch {
		case h == "loop.body":
			instrs = append(instrs, "p")
		case h == "child:Run.enter":
			if k < 0 && !inFirstChild {
				inFirstChild, childBodies = true, 0
			}
		case h == "child:loop.body":
			if inFirstChild {
				childBodies++
			}
		default:
			if inFirstChild && !strings.HasPrefix(h, "child:") {
				inFirstChild, k = false, childBodies-1
			}
		}
	}
	if len(instrs) == 0 {
		return fmt.Errorf("scenario %s: calibration saw no instruction (%v)", sc.name, calib)
	}
	if k < 0 {
		k = 0
	}
	// callback instructions: the root loop.body entries followed by Invoker sync points
	idx := -1
	for _, h := range calib {
		if h == "loop.body" {
			idx++
		} else if idx >= 0 && (strings.HasPrefix(h, "_acquire") || strings.HasPrefix(h, "Invoke.") || strings.HasPrefix(h, "_release")) {
			instrs[idx] = "c:" + sc.cbOps
		}
	}
	instrs[len(instrs)-1] = "t"
	run := strings.Join(instrs, ",")
	progs := make([]string, sc.runs)
	for i := range progs {
		progs[i] = run
	}
	sc.prog, sc.k, sc.rLen = strings.Join(progs, "/"), k, len(calib)+1
	return nil
}

func dirN(t string, n int) []string {
	if n <= 0 {
		return nil
	}
	return []string{t + strconv.Itoa(n)}
}

func cat(parts ...[]string) []string {
	var out []string
	for _, p := range parts {
		out = append(out, p...)
	}
	return out
}

// schedules enumerates the product of the sync points of R with those of the aborting thread
func (sc *schedScenario) schedules(c *Ctx) [][]string {
	var out [][]string
	N := sc.rLen
	switch {
	case sc.family == "eval":
		N-- // the arrival of the Run goroutine at Run.enter belongs to E's `go` step
		out = append(out, []string{"X", "Ex"})
		out = append(out, []string{"E1", "X", "Ex"})
		for _, pre := range [][]string{{"E2", "X"}, {"E1", "X", "E1"}} {
			for i := 0; i < N; i++ { // i = N would make both select cases ready
				for j := i; j <= N; j++ {
					for k := j; k <= N; k++ {
						if len(pre) == 3 && !(i == j || j == k) {
							continue
						}
						out = append(out, cat(pre, dirN("R", i), []string{"E1"}, dirN("R", j-i), []string{"E1"}, dirN("R", k-j), []string{"E1", "Rx", "Ex"}))
					}
				}
			}
		}
		// no cancellation at all, and cancellation after the script finished
		out = append(out, []string{"E2", "Rx", "Ex"})
		out = append(out, []string{"E2", "Rx", "Ex", "X"})
	case sc.runs > 1:
		for i := 0; i <= N; i++ {
			out = append(out, cat(dirN("R", i), []string{"Cx", "Rx", "Rx", "Rx"}))
			out = append(out, cat([]string{"Rx", "C1"}, dirN("R", i), []string{"Cx", "Rx", "Rx"}))
			out = append(out, cat([]string{"Rx", "C2"}, dirN("R", i), []string{"Cx", "Rx", "Rx"}))
			out = append(out, cat(dirN("R", i), []string{"Cx", "Cx", "Rx", "Cx", "Rx", "Rx"}))
		}
	case sc.cbOps == "":
		for i := 0; i <= N; i++ {
			for j := i; j <= N; j++ {
				for k := j; k <= N; k++ {
					out = append(out, cat(dirN("R", i), []string{"C1"}, dirN("R", j-i), []string{"C1"}, dirN("R", k-j), []string{"Cx", "Rx"}))
				}
			}
		}
	default:
		for _, cn := range []int{2, 3, 4} {
			for i := 0; i <= N; i++ {
				for j := i; j <= N; j++ {
					out = append(out, cat(dirN("R", i), dirN("C", cn), dirN("R", j-i), []string{"Cx", "Rx"}))
				}
			}
		}
		// random triples: positions of pool.abort's lock, the child store and the root store
		for n := 0; n < 150*c.Scale; n++ {
			i := c.R.Intn(N + 1)
			j := i + c.R.Intn(N+1-i)
			k := j + c.R.Intn(N+1-j)
			out = append(out, cat(dirN("R", i), []string{"C2"}, dirN("R", j-i), []string{"C2"}, dirN("R", k-j), []string{"Cx", "Rx"}))
		}
	}
	return out
}

func runSched(c *Ctx) {
	c.Rule("sched: every schedule (product of the sync points of Run/Invoke/Eval.run with those of Abort) forced on the real code via verifSync; sync-point traces, Run results and the number of instructions after a completed Abort equal the model's; oracle: more than one instruction after an Abort that completed after Run entry = lost abort")
	wd := schedWatchdog()
	nBlocked := 0
	for _, sc := range schedScenarioList(c.Tier == "thorough") {
		if err := sc.calibrate(); err != nil {
			c.Violation(PropViolation{Property: "C09", What: err.Error(), Input: sc.name, Sig: "C09:harness-calibration"})
			continue
		}
		for si, dirs := range sc.schedules(c) {
			if si%200 == 0 {
				// scheduling latency of this machine right now: a goroutine woken by a 1 ms timer that
				// takes more than 8 ms to run means the watchdog period must be stretched
				wd = schedWatchdog()
				t0 := time.Now()
				done := make(chan struct{})
				go func() { time.Sleep(time.Millisecond); close(done) }()
				<-done
				if lat := time.Since(t0); lat > 8*time.Millisecond {
					wd *= 10
					c.Count("watchdog-stretched")
				}
			}
			res, e, _ := sc.execute(dirs, wd, false)
			if e.timerBlocks > 0 && !(len(dirs) > 0 && dirs[0] == "P") {
				// the watchdog fired in a schedule that does not probe a real mutex: on a loaded machine a
				// runnable goroutine may simply not have been scheduled within the period.  The schedule is
				// executed again with a ten times longer period, and that run is the one recorded.
				c.Count("watchdog-retry")
				res, e, _ = sc.execute(dirs, wd*10, false)
			}
			if strings.Contains(res, "!blocked") && sc.family == "run" {
				// every 6th schedule in which a thread would block on pool.mu is run a second
				// time as a probing schedule: the thread is really released against the mutex
				nBlocked++
				if nBlocked%6 == 0 {
					pd := append([]string{"P"}, dirs...)
					pres, pe, _ := sc.execute(pd, wd, false)
					c.Add(Case{Line: sc.line(pd), Impl: pres, Key: sc.name + ":" + strings.Join(pd, " ")})
					c.Count("probing-schedule")
					for _, v := range pe.bad {
						c.Violation(v)
					}
				}
			}
			key := ""
			if e.totalExtra > 0 || strings.Contains(res, "!blocked") {
				key = sc.name + ":" + strings.Join(dirs, " ")
			}
			c.Add(Case{Line: sc.line(dirs), Impl: res, Key: key})
			c.Count("scenario:" + sc.name)
			switch {
			case len(e.bad) > 0:
				c.Count("outcome:violation")
			case strings.Contains(res, "res=a"):
				c.Count("outcome:aborted")
			default:
				c.Count("outcome:completed")
			}
			if strings.Contains(res, "!blocked") {
				c.Count("blocked-probe")
			}
			for _, v := range e.bad {
				c.Violation(v)
			}
		}
	}
}

func replaySched(line string) (string, error) {
	f := strings.Split(line, "\t")
	if len(f) != 6 {
		return "", fmt.Errorf("bad sched line")
	}
	for _, sc := range schedScenarioList(true) {
		if sc.name == f[1] {
			if err := sc.calibrate(); err != nil {
				return "", err
			}
			res, e, _ := sc.execute(strings.Fields(f[5]), schedWatchdog(), false)
			for _, v := range e.bad {
				fmt.Printf("PROPERTY VIOLATED on the implementation: %s: %s\n", v.Sig, v.What)
			}
			return res, nil
		}
	}
	return "", fmt.Errorf("unknown scenario %s", f[1])
}

func init() {
	register(&Stream{Name: "sched", Run: func(c *Ctx) { timingOracles(c); runSched(c) }, Replay: replaySched})
}

func schedWatchdog() time.Duration {
	if s := os.Getenv("VERIF_SCHED_WATCHDOG_MS"); s != "" {
		if n, err := strconv.Atoi(s); err == nil {
			return time.Duration(n) * time.Millisecond
		}
	}
	return 40 * time.Millisecond
}
