package main

import (
	"fmt"

	"github.com/ozanh/ugo"

	"verifharness/conc"
)

// C12, "Builtin (Go) module values are private per VM": every VM that imports a Go module - a map of
// attributes with nested arrays, maps, bytes and sync-maps, or a module whose value is itself an array, a
// byte string or a sync-map - works on its own deep copy.  Two VMs run the same Bytecode one after the
// other; each reads everything first and then updates everything in place; both must read the pristine
// values, and the host's attribute map must be untouched.  Oracle only.
func modulePrivacyOracle(c *Ctx) {
	attrs := conc.VMod()
	mm := ugo.NewModuleMap().AddBuiltinModule("vmod", attrs)
	conc.AddObjMods(mm)
	src := `v := import("vmod")
oa := import("objarr")
ob := import("objbytes")
os := import("objsync")
before := [v.n, string(v.arr), v.m.k, string(v.by), v.deep.a[0].x, string(v.deep.a[1]), v.sm.k, len(v.em), len(v.ea), len(v.esm), len(v.wrap.inner), len(v.wrap.list[0]), string(oa), string(ob), os.k, string(os.nest), string(os.by)]
v.n += 1
v.arr[0] = 9
v.m.k = 9
v.m.added = 1
v.by[0] = 9
v.deep.a[0].x = 9
v.deep.a[1][0] = 9
v.sm.k = 9
v.em.z = 1
v.esm.z = 1
v.wrap.inner.z = 1
v.wrap.list[0].z = 1
oa[0] = 9
ob[0] = 9
os.k = 9
os.z = 1
os.nest[0] = 9
os.nest[1].x = 9
os.by[0] = 9
return before
`
	for _, noOpt := range []bool{true, false} {
		c.dist["oracle:module-privacy"]++
		bc, err := ugo.Compile([]byte(src), ugo.CompilerOptions{ModuleMap: mm, NoOptimize: noOpt})
		if err != nil {
			c.Violation(PropViolation{"C12", "module-privacy script does not compile: " + err.Error(), src, "C12:privacy-compile"})
			continue
		}
		want := `[1, "[0, 0, 0]", 0, "\x00\x00\x00\x00", 0, "\a", 0, 0, 0, 0, 0, 0, "[1, 2, 3]", "\x01\x02\x03", 0, "[1, {\"x\": 0}]", "\x05"]`
		for i := 1; i <= 3; i++ {
			ret, err := ugo.NewVM(bc).Run(nil)
			got := fmt.Sprint(ret)
			if err != nil {
				got = "error: " + semFirstLine(err.Error())
			}
			if got != want {
				c.Violation(PropViolation{"C12", fmt.Sprintf("VM #%d on the same Bytecode reads %s from the Go modules before it changed anything, want the pristine %s: an earlier VM's in-place updates reached the shared module value", i, got, want),
					src, "C12:go-module-not-private"})
				break
			}
		}
		if got := fmt.Sprint(ugo.Map(attrs)["deep"], ugo.Map(attrs)["arr"], ugo.Map(attrs)["n"]); got != fmt.Sprint(ugo.Map(conc.VMod())["deep"], ugo.Map(conc.VMod())["arr"], ugo.Map(conc.VMod())["n"]) {
			c.Violation(PropViolation{"C12", "the host's attribute map of the Go module was modified by the runs: " + got, src, "C12:go-module-host-attrs-modified"})
		}
	}
}
