package main

import (
	"errors"
	"fmt"
	"math"
	"regexp"
	"strconv"
	"strings"

	"github.com/ozanh/ugo"
	"github.com/ozanh/ugo/parser"

	"verifharness/astenc"
	"verifharness/codec"
	"verifharness/gen"
)

// stream `optast` (C01): the real optimizer, called through its exported API
// (ugo.NewOptimizer(file, symtab, opts).Optimize(file)) on generated expression programs at
// random OptimizerLimits, against the Lean model of transform/evalExpr (Model/Optim) on the
// same input AST: the optimized AST (every node with its Pos()), Total() and the list of
// optimizer errors (node position, error name, message).  The model is the object of the
// theorems optExpr_sound / opt_error_is_const_error / budget_prefix in Props/C01.lean, so a
// mismatch is a broken correspondence.
//
// The stream's own oracle on the implementation: the same program compiled with the optimizer at
// that limit and without it must give the same outcome for the same arguments, and the optimizer
// may refuse only with an "Optimizer Error".

type oaGen struct {
	r    *gen.Rand
	mode int // 0: operands of every kind (mostly type errors); 1: ints; 2: floats; 3: strings; 4: ints and bools
}

func (g *oaGen) pick(xs []string) string { return xs[g.r.Intn(len(xs))] }

var oaInts = []string{"0", "1", "2", "3", "7", "10", "63", "64", "65", "255", "9223372036854775807", "4611686018427387904"}
var oaUints = []string{"0u", "1u", "2u", "5u", "64u", "18446744073709551615u"}
var oaFloats = []string{"0.0", "1.0", "1.5", "2.0", "0.5", "1e308", "3.25"}
var oaChars = []string{"'a'", "'b'", "'0'", "'\\x00'", "'é'"}
var oaStrs = []string{"\"\"", "\"a\"", "\"bc\"", "\"é\"", "\"0\"", "`r`"}
var oaBinOps = []string{"+", "-", "*", "/", "%", "&", "|", "^", "&^", "<<", ">>", "<", "<=", ">", ">=", "==", "!=", "&&", "||",
	"+", "-", "*", "/", "&&", "||", "=="}
var oaUnOps = []string{"-", "!", "^", "+"}

func (g *oaGen) lit() string {
	switch g.mode {
	case 1:
		if g.r.Intn(6) == 0 {
			return g.pick([]string{"x", "y"})
		}
		return g.pick(oaInts)
	case 2:
		return g.pick(oaFloats)
	case 3:
		return g.pick(oaStrs)
	case 4:
		if g.r.Intn(3) == 0 {
			return g.pick([]string{"true", "false", "undefined", "x"})
		}
		return g.pick(oaInts)
	}
	switch g.r.Intn(14) {
	case 0, 1, 2, 3:
		return g.pick(oaInts)
	case 4, 5:
		return g.pick(oaUints)
	case 6, 7:
		return g.pick(oaFloats)
	case 8:
		return g.pick(oaChars)
	case 9, 10:
		return g.pick(oaStrs)
	case 11:
		return g.pick([]string{"true", "false"})
	case 12:
		return "undefined"
	default:
		return g.pick([]string{"x", "y"})
	}
}

// same-kind operand pairs make the table folds (int op int, float op float, string + string) frequent
func (g *oaGen) sameKind() (string, string) {
	switch g.r.Intn(4) {
	case 0, 1:
		return g.pick(oaInts), g.pick(oaInts)
	case 2:
		return g.pick(oaFloats), g.pick(oaFloats)
	default:
		return g.pick(oaStrs), g.pick(oaStrs)
	}
}

var oaCmpOps = []string{"<", "<=", ">", ">=", "==", "!=", "&&", "||"}

func (g *oaGen) binOp() string {
	switch g.mode {
	case 2:
		if g.r.Intn(3) == 0 {
			return g.pick(oaCmpOps)
		}
		return g.pick([]string{"+", "-", "*", "/"})
	case 3:
		if g.r.Intn(2) == 0 {
			return g.pick(oaCmpOps)
		}
		return "+"
	}
	return g.pick(oaBinOps)
}

func (g *oaGen) unOp() string {
	switch g.mode {
	case 2:
		return g.pick([]string{"-", "!", "+"})
	case 3:
		return "!"
	}
	return g.pick(oaUnOps)
}

func (g *oaGen) sep() string {
	// a line break after a binary operator continues the expression
	if g.r.Intn(8) == 0 {
		return "\n  "
	}
	return " "
}

func (g *oaGen) expr(d int) string {
	if d <= 0 {
		return g.lit()
	}
	switch g.r.Intn(12) {
	case 0, 1:
		return g.lit()
	case 2:
		a, b := g.sameKind()
		if g.mode != 0 {
			a, b = g.lit(), g.lit()
		}
		return a + " " + g.binOp() + g.sep() + b
	case 3, 4, 5, 6:
		return g.expr(d-1) + " " + g.binOp() + g.sep() + g.expr(d-1)
	case 7:
		return g.unOp() + g.expr(d-1)
	case 8, 9:
		return "(" + g.expr(d-1) + ")"
	case 10:
		return g.expr(d-1) + " ? " + g.expr(d-1) + " : " + g.expr(d-1)
	default:
		return "(" + g.expr(d-1) + " ? " + g.expr(d-1) + " :" + g.sep() + g.expr(d-1) + ")"
	}
}

func (g *oaGen) program() string {
	var sb strings.Builder
	sb.WriteString("param (x, y)\n")
	n := 1 + g.r.Intn(4)
	for i := 0; i < n; i++ {
		g.mode = g.r.Intn(6) % 5
		sb.WriteString(g.expr(1 + g.r.Intn(4)))
		if g.r.Intn(4) == 0 {
			sb.WriteString("; ")
		} else {
			sb.WriteString("\n")
		}
	}
	g.mode = g.r.Intn(6) % 5
	sb.WriteString("return " + g.expr(1+g.r.Intn(4)) + "\n")
	return sb.String()
}

var oaFloatRe = regexp.MustCompile(`\(float (\d+) ([0-9a-f]{16})\)`)

// NaN payloads are not compared
func oaCanonNaN(ast string) string {
	return oaFloatRe.ReplaceAllStringFunc(ast, func(m string) string {
		sm := oaFloatRe.FindStringSubmatch(m)
		bits, err := strconv.ParseUint(sm[2], 16, 64)
		if err == nil && math.IsNaN(math.Float64frombits(bits)) {
			return fmt.Sprintf("(float %s 7ff8000000000001)", sm[1])
		}
		return m
	})
}

func oaErrNameMsg(err error) (string, string) {
	var re *ugo.RuntimeError
	if errors.As(err, &re) && re.Err != nil {
		return re.Err.Name, re.Err.Message
	}
	var e *ugo.Error
	if errors.As(err, &e) {
		return e.Name, e.Message
	}
	return "?", err.Error()
}

func oaHx(s string) string {
	if s == "" {
		return "-"
	}
	return codec.Hex([]byte(s))
}

// optAstImpl parses src, returns the request line and the implementation's answer.
func optAstImpl(src string, limit int) (line, impl string, err error) {
	defer func() {
		if r := recover(); r != nil {
			impl = fmt.Sprintf("panic %v", r)
		}
	}()
	fs := parser.NewFileSet()
	sf := fs.AddFile("(main)", -1, len(src))
	p := parser.NewParser(sf, []byte(src), nil)
	f, err := p.ParseFile()
	if err != nil {
		return "", "", err
	}
	in, err := astenc.File(f)
	if err != nil {
		return "", "", err
	}
	var starts []string
	for i := 1; i <= sf.LineCount(); i++ {
		starts = append(starts, strconv.Itoa(int(sf.LineStart(i))))
	}
	line = fmt.Sprintf("optast\t%d\t%s\t%s\t#%s", limit, strings.Join(starts, ","), oaCanonNaN(in), codec.Hex([]byte(src)))
	opt := ugo.NewOptimizer(sf, ugo.NewSymbolTable(), ugo.CompilerOptions{OptimizerLimit: limit})
	oerr := opt.Optimize(f)
	out, err := astenc.File(f)
	if err != nil {
		return "", "", err
	}
	var errs []string
	if oerr != nil {
		list := []error{oerr}
		if m, ok := oerr.(interface{ Errors() []error }); ok {
			list = m.Errors()
		}
		for _, e := range list {
			pos := 0
			var oe *ugo.OptimizerError
			if errors.As(e, &oe) && oe.Node != nil {
				pos = int(oe.Node.Pos())
			}
			var inner error = e
			if oe != nil {
				inner = oe.Err
			}
			n, m := oaErrNameMsg(inner)
			errs = append(errs, fmt.Sprintf("%d:%s:%s", pos, oaHx(n), oaHx(m)))
		}
	}
	impl = fmt.Sprintf("ast=%s\ttotal=%d\terrs=%s", oaCanonNaN(out), opt.Total(), strings.Join(errs, ";"))
	return line, impl, nil
}

var oaLimits = []int{1, 1, 2, 3, 5, 8, 100, 1000, 0}

func optAstRun(c *Ctx, n int) {
	pool := argPool()
	for i := 0; i < n; i++ {
		r := c.R.Fork()
		g := &oaGen{r: r}
		src := g.program()
		lim := oaLimits[r.Intn(len(oaLimits))]
		line, impl, err := optAstImpl(src, lim)
		if err != nil {
			c.Count("parse-error")
			continue
		}
		if strings.HasPrefix(impl, "panic") {
			c.Violation(PropViolation{"C01", "the optimizer panics: " + impl, src, "C01:optast-panic"})
			continue
		}
		total := ""
		nerr := 0
		for _, f := range strings.Split(impl, "\t") {
			if strings.HasPrefix(f, "total=") {
				total = f
			}
			if strings.HasPrefix(f, "errs=") && f != "errs=" {
				nerr = 1 + strings.Count(f, ";")
			}
		}
		c.Count(fmt.Sprintf("limit=%d", lim))
		c.Count(fmt.Sprintf("errors=%d", nerr))
		c.Add(Case{Line: line, Impl: impl, Key: fmt.Sprintf("%s/e%d/%x", total, nerr, hashStr(impl)%509)})

		// the property's own oracle: optimizer at this limit vs optimizer off, same arguments
		args := []ugo.Object{pool[r.Intn(len(pool))], pool[r.Intn(len(pool))]}
		bc0, err0 := ugo.Compile([]byte(src), ugo.CompilerOptions{NoOptimize: true})
		if err0 != nil {
			c.Count("oracle:noopt-compile-error")
			continue
		}
		out0 := runPlain(bc0, ugo.Map{}, args)
		bc1, err1 := ugo.Compile([]byte(src), ugo.CompilerOptions{OptimizerLimit: lim})
		if err1 != nil {
			if !strings.Contains(err1.Error(), "Optimizer Error") {
				c.Violation(PropViolation{"C01", "optimizer on: compile fails with a non-optimizer error: " + semFirstLine(err1.Error()), src, "C01:optast-compile-error"})
			}
			c.Count("oracle:opt-refused")
			continue
		}
		if out1 := runPlain(bc1, ugo.Map{}, args); out1 != out0 {
			c.Violation(PropViolation{"C01", fmt.Sprintf("optimized (limit %d) and unoptimized runs differ: %s  vs  %s", lim, out1, out0),
				src + "\nargs: " + strings.Join(encodeAll(args), ";"), "C01:opt-differs:expr"})
		}
		c.Count("oracle:compared")
	}
}

func init() {
	register(&Stream{
		Name: "optast",
		Skip: vmSkip,
		Replay: func(line string) (string, error) {
			// optast <limit> <line starts> <ast> #<hex of the source>
			f := strings.Split(line, "\t")
			if len(f) < 5 || !strings.HasPrefix(f[len(f)-1], "#") {
				return "", fmt.Errorf("bad optast line")
			}
			src, err := semHexDecode(strings.TrimPrefix(f[len(f)-1], "#"))
			if err != nil {
				return "", err
			}
			lim, err := strconv.Atoi(f[1])
			if err != nil {
				return "", err
			}
			_, impl, err := optAstImpl(string(src), lim)
			return impl, err
		},
		Run: func(c *Ctx) {
			c.Rule("random expression programs (param x, y; 1-4 expression statements, some sharing a line, some spanning lines; return expr) over literals of every kind, unresolved identifiers, unary - ! ^ +, every binary operator incl. && || == !=, parentheses and ?: (depth <= 4), OptimizerLimit in {0,1,2,3,5,8,100,1000}: the real ugo.NewOptimizer(...).Optimize() vs the Lean model Model/Optim on the same AST: optimized AST with every Pos(), Total(), optimizer errors (position, name, message); oracle: optimizer at that limit vs off, same arguments; distinct = distinct (total, #errors, answer hash)")
			optAstRun(c, 4000*c.Scale)
		},
	})
}
