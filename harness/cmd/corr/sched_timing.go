package main

import (
	"context"
	"fmt"
	"time"

	"github.com/ozanh/ugo"
	ugotime "github.com/ozanh/ugo/stdlib/time"
)

// Wall-clock oracles of C09 for the parts the forced schedules do not reach (generous margins: a
// pass needs an answer within seconds where the unchanged tree answers within milliseconds).
//   * time.Sleep polls the abort flag: an Abort that arrives late in a long sleep is honoured promptly;
//   * Abort may be called any number of times: a host that keeps calling Abort stops a callback that
//     started its child VM only after the first Abort;
//   * a context that expires WHILE the script is being compiled (slow import) is not missed.

type slowImport struct{ ctx context.Context }

func (s slowImport) Import(string) (any, error) {
	<-s.ctx.Done()
	time.Sleep(5 * time.Millisecond)
	return []byte("return 1"), nil
}

func timingOracles(c *Ctx) {
	// 1. Abort late in a long sleep
	for _, at := range []time.Duration{30 * time.Millisecond, 1500 * time.Millisecond} {
		mm := ugo.NewModuleMap().AddBuiltinModule("time", ugotime.Module)
		bc, err := ugo.Compile([]byte("time := import(\"time\")\ntime.Sleep(time.Hour)\nreturn 1"), ugo.CompilerOptions{ModuleMap: mm})
		if err != nil {
			break
		}
		vm := ugo.NewVM(bc)
		done := make(chan error, 1)
		go func() { _, err := vm.Run(nil); done <- err }()
		time.Sleep(at)
		t0 := time.Now()
		vm.Abort()
		select {
		case <-done:
			c.dist["oracle:sleep-abort"]++
			if d := time.Since(t0); d > 700*time.Millisecond {
				c.Violation(PropViolation{"C09", fmt.Sprintf("time.Sleep(time.Hour) aborted after %v returned only %v after Abort", at, d), "time.Sleep(time.Hour); Abort", "C09:sleep-abort-late"})
			}
		case <-time.After(3 * time.Second):
			c.Violation(PropViolation{"C09", fmt.Sprintf("time.Sleep(time.Hour) aborted after %v: Run still sleeping 3 s after Abort", at), "time.Sleep(time.Hour); Abort", "C09:sleep-abort-late"})
			go func() { vm.Abort(); <-done }()
		}
	}
	// 2. repeated Abort while a callback starts its child VM late
	{
		src := "global cb\nf := func() { for { } }\ncb(f)\nreturn 1"
		bc, err := ugo.Compile([]byte(src), ugo.CompilerOptions{})
		if err == nil {
			entered := make(chan struct{})
			cb := &ugo.Function{Name: "cb", ValueEx: func(call ugo.Call) (ugo.Object, error) {
				close(entered)
				time.Sleep(150 * time.Millisecond) // the first Abort arrives now: no child VM exists yet
				return ugo.NewInvoker(call.VM(), call.Get(0)).Invoke()
			}}
			vm := ugo.NewVM(bc)
			done := make(chan error, 1)
			go func() { _, err := vm.Run(ugo.Map{"cb": cb}); done <- err }()
			<-entered
			stop := make(chan struct{})
			go func() {
				for {
					select {
					case <-stop:
						return
					default:
						vm.Abort()
						time.Sleep(10 * time.Millisecond)
					}
				}
			}()
			select {
			case <-done:
				c.dist["oracle:repeated-abort"]++
			case <-time.After(4 * time.Second):
				c.Violation(PropViolation{"C09", "a host calling Abort every 10 ms for 4 s does not stop a script whose Go callback started its child VM after the first Abort", src, "C09:repeated-abort-lost"})
			}
			close(stop)
		}
	}
	// 3. context expires during compilation
	for attempt := 0; attempt < 3; attempt++ {
		ctx, cancel := context.WithTimeout(context.Background(), 20*time.Millisecond)
		ev := ugo.NewEval(ugo.CompilerOptions{ModuleMap: ugo.NewModuleMap().Add("slow", slowImport{ctx})}, nil)
		done := make(chan error, 1)
		go func() {
			_, _, err := ev.Run(ctx, []byte("m := import(\"slow\")\nn := 0\nfor { n += m }\nreturn n"))
			done <- err
		}()
		select {
		case err := <-done:
			c.dist["oracle:cancel-during-compile"]++
			if err == nil {
				c.Violation(PropViolation{"C09", "Eval.Run under an expired context returned without an error", "import(slow); for {}", "C09:cancel-during-compile-lost"})
			}
		case <-time.After(4 * time.Second):
			c.Violation(PropViolation{"C09", "the context expired while the script was being compiled (slow import): Eval.Run still running 4 s later", "import(slow); for {}", "C09:cancel-during-compile-lost"})
		}
		cancel()
	}
	// 4. "an aborted VM runs later scripts normally", for a session: a fragment evaluated under a context
	// that is already done (or expires while it runs) returns the context's error, and the session then
	// continues with everything the earlier fragments defined
	for _, when := range []string{"before-start", "while-running"} {
		ev := ugo.NewEval(ugo.CompilerOptions{}, nil)
		c.dist["oracle:session-after-cancel"]++
		if _, _, err := ev.Run(context.Background(), []byte("a := 41\nf := func(x) { return a + x }\ng := [1, 2]")); err != nil {
			continue
		}
		ctx, cancel := context.WithCancel(context.Background())
		src := "b := 7\nb += 1"
		if when == "before-start" {
			cancel()
		} else {
			src = "b := 7\nfor { b = 8 }"
			go func() { time.Sleep(50 * time.Millisecond); cancel() }()
		}
		_, _, err := ev.Run(ctx, []byte(src))
		cancel()
		if err == nil {
			c.Violation(PropViolation{"C09", "a fragment evaluated under a cancelled context (" + when + ") returned no error", src, "C09:session-cancel-no-error:" + when})
			continue
		}
		var got string
		func() {
			defer func() {
				if r := recover(); r != nil {
					got = fmt.Sprintf("panic: %v", r)
				}
			}()
			ret, _, err := ev.Run(context.Background(), []byte("g[0] = 5\nreturn [f(1), a, g, b]"))
			if err != nil {
				got = "error: " + semFirstLine(err.Error())
				return
			}
			got = ret.String()
		}()
		// what the cancelled fragment assigned before it was stopped stays (b = 8 in the loop); a fragment
		// that never started leaves its declared name undefined
		want := "[42, 41, [5, 2], undefined]"
		if when == "while-running" {
			want = "[42, 41, [5, 2], 8]"
		}
		if got != want {
			c.Violation(PropViolation{"C09", fmt.Sprintf("after a fragment was cancelled (%s) the session does not continue normally: the next fragment gives %s, want %s", when, got, want),
				"a := 41; f := func(x) { return a + x }; g := [1, 2] | <cancelled fragment> | g[0] = 5; return [f(1), a, g]", "C09:session-lost-after-cancel:" + when})
		}
	}
	// 5. a context that ends AFTER its fragment has finished has nothing to do with later fragments
	{
		c.dist["oracle:stale-context"]++
		ev := ugo.NewEval(ugo.CompilerOptions{}, nil)
		ctx1, cancel1 := context.WithCancel(context.Background())
		if _, _, err := ev.Run(ctx1, []byte("a := 1")); err == nil {
			go func() { time.Sleep(20 * time.Millisecond); cancel1() }()
			ret, _, err := ev.Run(context.Background(), []byte("n := 0\nfor i := 0; i < 4000000; i++ { n++ }\nreturn n + a"))
			if err != nil || fmt.Sprint(ret) != "4000001" {
				c.Violation(PropViolation{"C09", fmt.Sprintf("the context of an EARLIER, finished fragment was cancelled while a later fragment ran under context.Background(): the later fragment gives %v, %v, want 4000001", ret, err),
					"ev.Run(ctx1, `a := 1`); cancel1() during ev.Run(context.Background(), <loop>)", "C09:stale-context-aborts-later-fragment"})
			}
		}
		cancel1()
	}
	// 6. a Go callee that is called through an Invoker (here time.Sleep handed to a host callback) still knows
	// its VM: the abort reaches it
	{
		c.dist["oracle:invoker-go-callee-abort"]++
		mm := ugo.NewModuleMap().AddBuiltinModule("time", ugotime.Module)
		bc, err := ugo.Compile([]byte("global cb\ntime := import(\"time\")\ncb(time.Sleep, time.Hour)\nreturn 1"), ugo.CompilerOptions{ModuleMap: mm})
		if err == nil {
			cb := &ugo.Function{Name: "cb", ValueEx: func(call ugo.Call) (ugo.Object, error) {
				return ugo.NewInvoker(call.VM(), call.Get(0)).Invoke(call.Get(1))
			}}
			vm := ugo.NewVM(bc)
			done := make(chan error, 1)
			go func() { _, err := vm.Run(ugo.Map{"cb": cb}); done <- err }()
			time.Sleep(60 * time.Millisecond)
			vm.Abort()
			select {
			case <-done:
			case <-time.After(3 * time.Second):
				c.Violation(PropViolation{"C09", "time.Sleep(time.Hour) called through an Invoker from a host callback: Run still sleeping 3 s after Abort", "cb(time.Sleep, time.Hour) with cb = func(c) { return NewInvoker(c.VM(), c.Get(0)).Invoke(c.Get(1)) }", "C09:invoker-go-callee-abort-lost"})
				go func() { vm.Abort(); <-done }()
			}
		}
	}
}
