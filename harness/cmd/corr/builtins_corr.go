package main

// stream `builtins`, part (a): correspondence of the hand models of
// lean/UgoVerif/Model/Builtins.lean with the implementation.  Every case is one call
// `fn(args[:k], args[k:]...)` through CallEx (or Call for the error `New` closures);
// the model answers with the outcome (value where it computes one, `olib:0` where
// the value comes from a Go library call, the error name and message, or a panic).

import (
	"bufio"
	"encoding/json"
	"fmt"
	"io"
	"os"
	"os/exec"
	"sync/atomic"
	"syscall"
	"math"
	"strconv"
	"strings"

	"github.com/ozanh/ugo"
	ugofmt "github.com/ozanh/ugo/stdlib/fmt"
	ugostrings "github.com/ozanh/ugo/stdlib/strings"
	ugotime "github.com/ozanh/ugo/stdlib/time"

	"verifharness/codec"
	"verifharness/gen"
)

type biCorrFn struct {
	name  string
	obj   ugo.Object
	base  string                                                  // name used by biSkip
	known func(args []ugo.Object, hasVM bool) bool               // the model computes the value
	maxAr int
}

func always(args []ugo.Object, hasVM bool) bool { return true }
func never(args []ugo.Object, hasVM bool) bool  { return false }

func isGoError(o ugo.Object) bool { _, ok := o.(error); return ok }

func biCorrFns() []biCorrFn {
	b := func(t ugo.BuiltinType) ugo.Object { return ugo.BuiltinObjects[t] }
	errNew, _ := (&ugo.Error{Name: "error", Message: "m"}).IndexGet(ugo.String("New"))
	return []biCorrFn{
		{"makeArray", b(ugo.BuiltinMakeArray), ":makeArray", always, 3},
		{"repeat", b(ugo.BuiltinRepeat), "repeat", always, 3},
		{"stringsRepeat", ugostrings.Module["Repeat"], "strings.Repeat", always, 3},
		{"padLeft", ugostrings.Module["PadLeft"], "strings.PadLeft", always, 4},
		{"padRight", ugostrings.Module["PadRight"], "strings.PadRight", always, 4},
		{"append", b(ugo.BuiltinAppend), "append", always, 4},
		{"bytes", b(ugo.BuiltinBytes), "bytes", always, 4},
		{"sprintf", b(ugo.BuiltinSprintf), "sprintf", func(a []ugo.Object, _ bool) bool { return len(a) == 1 }, 4},
		{"println", b(ugo.BuiltinPrintln), "println", always, 4},
		{"isError", b(ugo.BuiltinIsError), "isError", func(a []ugo.Object, _ bool) bool {
			return !(len(a) == 2 && isGoError(a[0]) && isGoError(a[1]))
		}, 3},
		{"globals", b(ugo.BuiltinGlobals), "globals", func(_ []ugo.Object, hasVM bool) bool { return !hasVM }, 1},
		{"errorNew", errNew, "error.New", never, 4},
		{"replace", ugostrings.Module["Replace"], "strings.Replace", never, 4},
		{"split", ugostrings.Module["Split"], "strings.Split", never, 4},
		{"toValidUTF8", ugostrings.Module["ToValidUTF8"], "strings.ToValidUTF8", never, 3},
		{"invoke01", ugostrings.Module["TrimFunc"], "strings.TrimFunc", never, 3},
		{"invoke10", ugostrings.Module["Map"], "strings.Map", never, 3},
		{"fmtPrint", ugofmt.Module["Sprint"], "fmt.Sprint", never, 4},
		{"fmtPrintf", ugofmt.Module["Sprintf"], "fmt.Sprintf", never, 4},
		{"unix", ugotime.Module["Unix"], "time.Unix", never, 3},
		{"date", ugotime.Module["Date"], "time.Date", never, 4},
	}
}

// biCorrPool: the modelled value set (no sync maps: the model cannot see that they
// implement LengthGetter; no multi-key maps: String() depends on map order; callbacks
// that never fail, because the outcome of a callback is a library result for the model).
func biCorrPool() []ugo.Object {
	cf := gen.CompiledFuncs()
	return []ugo.Object{
		ugo.Int(0), ugo.Int(1), ugo.Int(2), ugo.Int(3), ugo.Int(7), ugo.Int(-1), ugo.Int(300), ugo.Int(1 << 16),
		ugo.Int(math.MaxInt32), ugo.Int(math.MaxInt32 + 1), ugo.Int(math.MaxInt32 / 2), ugo.Int(math.MaxInt32/2 + 1),
		ugo.Int(1 << 62), ugo.Int(math.MinInt64), ugo.Int(math.MaxInt64),
		ugo.Uint(2), ugo.Uint(math.MaxUint64), ugo.Float(2.5), ugo.Float(-1e300), ugo.Char('a'), ugo.Char(-1), ugo.True, ugo.Undefined,
		ugo.String(""), ugo.String("ab"), ugo.String("3"), ugo.String("%v %d"), ugo.String("é\xff"), ugo.String("abc"),
		ugo.Bytes(""), ugo.Bytes("ab"),
		ugo.Array{}, ugo.Array{ugo.Int(1), ugo.String("a")}, ugo.Array{ugo.Int(1), ugo.Int(2), ugo.Int(3), ugo.Int(4)},
		ugo.Map{}, ugo.Map{"a": ugo.Int(1)},
		ugo.ErrType, &ugo.RuntimeError{Err: ugo.ErrZeroDivision},
		ugo.BuiltinObjects[ugo.BuiltinLen], cf[0], gen.TimeReceivers()[0], &ugotime.Location{Value: gen.TimeReceivers()[0].(*ugotime.Time).Value.Location()},
	}
}

func biCorrTooBig(f biCorrFn, args []ugo.Object) bool {
	const lo, hi = int64(1) << 16, int64(1) << 47
	mid := func(n int64) bool { return n > lo && n <= hi }
	iv := func(i int) (int64, bool) {
		if i >= len(args) {
			return 0, false
		}
		v, ok := ugo.ToGoInt(args[i])
		return int64(v), ok
	}
	switch f.name {
	case "makeArray":
		n, ok := iv(0)
		return ok && mid(n)
	case "padLeft", "padRight":
		n, ok := iv(1)
		return ok && mid(n)
	case "repeat", "stringsRepeat":
		n, ok := iv(1)
		if !ok || n <= 0 || len(args) != 2 {
			return false
		}
		l := lenOf(args[0])
		if f.name == "stringsRepeat" {
			l = int64(len(args[0].String()))
		}
		if l <= 0 {
			return false
		}
		if n > hi/l {
			return false // cannot be honoured: must be an error
		}
		return mid(n * l)
	}
	return false
}

func biCorrLine(f biCorrFn, args []ugo.Object, k int, hasVM bool, ids *codec.Ids) string {
	var sb strings.Builder
	vm := 0
	if hasVM {
		vm = 1
	}
	fmt.Fprintf(&sb, "bi\t%s\t%d\t%d", f.name, k, vm)
	for _, a := range args {
		iv := "-"
		if v, ok := ugo.ToGoInt(a); ok {
			iv = strconv.Itoa(v)
		}
		flags := 0
		if isGoError(a) {
			flags |= 1
		}
		if a.CanCall() {
			flags |= 2
		}
		if _, ok := a.(*ugo.CompiledFunction); ok {
			flags |= 4
		}
		if _, ok := a.(*ugotime.Location); ok {
			flags |= 8
		}
		fmt.Fprintf(&sb, "\t%s|%s|%s|%d", codec.Encode(a, ids), iv, codec.Hex([]byte(a.String())), flags)
	}
	return sb.String()
}

var biCorrVM *ugo.VM

func biCorrImpl(f biCorrFn, args []ugo.Object, k int, hasVM bool, ids *codec.Ids) (res string) {
	defer func() {
		if r := recover(); r != nil {
			res = fmt.Sprintf("panic %v", r)
		}
	}()
	if biCorrVM == nil {
		bc, err := ugo.Compile([]byte("return 0"), ugo.CompilerOptions{})
		if err != nil {
			panic(err)
		}
		biCorrVM = ugo.NewVM(bc)
		biCorrVM.Run(nil)
		ugo.PrintWriter = io.Discard
	}
	var vm *ugo.VM
	if hasVM {
		vm = biCorrVM
	}
	known := f.known(args, hasVM)
	var ret ugo.Object
	var err error
	if ex, ok := f.obj.(ugo.ExCallerObject); ok {
		ret, err = ex.CallEx(ugo.NewCall(vm, args[:k:k], args[k:]...))
	} else {
		ret, err = f.obj.Call(args...)
	}
	if err != nil {
		return codec.ErrString(err)
	}
	if ret == nil {
		return "nil-result"
	}
	if !known {
		return "ok olib:0"
	}
	return "ok " + codec.Encode(ret, ids)
}

func biKinds(args []ugo.Object) string {
	var ks []string
	for _, a := range args {
		ks = append(ks, a.TypeName())
	}
	return strings.Join(ks, ",")
}

// biCorrGen produces the cases (request line, implementation answer, class key).
// before is called with the request line before the implementation is called.
func biCorrGen(seed uint64, scale int, before func(line string), emit func(line, impl, key string), skipped func()) {
	fns := biCorrFns()
	pool := biCorrPool()
	n := len(pool)
	r := gen.NewRand(seed)
	add := func(f biCorrFn, idx []int, k int, hasVM bool) {
		args := make([]ugo.Object, len(idx))
		for i, x := range idx {
			args[i] = gen.Fresh(pool[x])
		}
		if biCorrTooBig(f, args) {
			skipped()
			return
		}
		ids := codec.NewIds()
		line := biCorrLine(f, args, k, hasVM, ids)
		before(line)
		// the call may mutate its arguments (append on bytes): the line is rendered first
		impl := biCorrImpl(f, args, k, hasVM, ids)
		cls := strings.SplitN(impl+" ", " ", 3)
		key := f.name + "/" + cls[0]
		if cls[0] == "err" {
			key += ":" + cls[1]
		}
		emit(line, impl, key+"/"+biKinds(args))
	}
	for _, f := range fns {
		for ar := 0; ar <= f.maxAr; ar++ {
			total := 1
			for i := 0; i < ar; i++ {
				total *= n
			}
			exhaustive := ar <= 2
			cnt := total
			if !exhaustive {
				cnt = 250 * scale
			}
			for t := 0; t < cnt; t++ {
				idx := make([]int, ar)
				if exhaustive {
					x := t
					for i := ar - 1; i >= 0; i-- {
						idx[i] = x % n
						x /= n
					}
				} else {
					for i := range idx {
						idx[i] = r.Intn(n)
					}
				}
				if exhaustive {
					for k := 0; k <= ar; k++ {
						add(f, idx, k, true)
					}
				} else {
					add(f, idx, r.Intn(ar+1), true)
				}
				if f.name == "globals" || strings.HasPrefix(f.name, "invoke") {
					add(f, idx, ar, false)
				}
			}
		}
	}
}

// biCorrWorkerMain: the implementation side of the correspondence runs in a child
// process too (a defect may allocate without bound or loop).
func biCorrWorkerMain() {
	var spec biWorkerSpec
	if err := json.NewDecoder(os.Stdin).Decode(&spec); err != nil {
		fmt.Fprintln(os.Stderr, "corr worker: bad spec:", err)
		os.Exit(2)
	}
	if spec.MemLimit > 0 {
		lim := syscall.Rlimit{Cur: spec.MemLimit, Max: spec.MemLimit}
		_ = syscall.Setrlimit(syscall.RLIMIT_AS, &lim)
	}
	out := bufio.NewWriterSize(os.Stdout, 1<<20)
	devnull, _ := os.OpenFile(os.DevNull, os.O_WRONLY, 0)
	os.Stdout = devnull
	pf, err := os.OpenFile(spec.Progress, os.O_WRONLY|os.O_TRUNC, 0o600)
	if err != nil {
		fmt.Fprintln(os.Stderr, "corr worker:", err)
		os.Exit(2)
	}
	var seq atomic.Uint64
	go biWatchdog(&seq, spec.TimeoutMs)
	biCorrGen(spec.Seed, spec.Scale,
		func(line string) {
			seq.Add(1)
			pf.WriteAt([]byte(fmt.Sprintf("%08d%s", len(line), line)), 0)
		},
		func(line, impl, key string) { out.WriteString(line + "\x1f" + impl + "\x1f" + key + "\n") },
		func() { out.WriteString("SKIPPED\n") })
	out.WriteString("DONE\n")
	out.Flush()
	os.Exit(0)
}

func biCorr(c *Ctx) {
	exe, err := os.Executable()
	if err != nil {
		c.Violation(PropViolation{"C19", "cannot start the correspondence worker: " + err.Error(), "", "C19:harness"})
		return
	}
	pf, err := os.CreateTemp("", "corr-bi-corr-*")
	if err != nil {
		c.Violation(PropViolation{"C19", "cannot start the correspondence worker: " + err.Error(), "", "C19:harness"})
		return
	}
	pf.Close()
	defer os.Remove(pf.Name())
	timeout := 2500
	if c.Tier == "thorough" {
		timeout = 6000
	}
	spec := biWorkerSpec{Seed: c.R.U64(), Scale: c.Scale, Progress: pf.Name(), TimeoutMs: timeout, MemLimit: 6 << 30}
	cmd := exec.Command(exe)
	cmd.Env = append(os.Environ(), "CORR_BI_WORKER=corr", "GOMEMLIMIT=4GiB")
	in, _ := json.Marshal(spec)
	cmd.Stdin = strings.NewReader(string(in))
	var stderr strings.Builder
	cmd.Stderr = &stderr
	so, _ := cmd.StdoutPipe()
	if err := cmd.Start(); err != nil {
		c.Violation(PropViolation{"C19", "cannot start the correspondence worker: " + err.Error(), "", "C19:harness"})
		return
	}
	done := false
	sc := bufio.NewScanner(so)
	sc.Buffer(make([]byte, 1<<20), 1<<28)
	for sc.Scan() {
		l := sc.Text()
		switch {
		case l == "DONE":
			done = true
		case l == "SKIPPED":
			c.Count("corr:skipped-size")
		default:
			f := strings.Split(l, "\x1f")
			if len(f) != 3 {
				continue
			}
			c.Count("corr:" + strings.SplitN(f[1]+" ", " ", 2)[0])
			c.Add(Case{Line: f[0], Impl: f[1], Key: f[2]})
		}
	}
	werr := cmd.Wait()
	if werr == nil && done {
		return
	}
	// the worker died inside a call: the progress file holds its request line
	last := ""
	if b, err := os.ReadFile(pf.Name()); err == nil && len(b) >= 8 {
		if n, err := strconv.Atoi(string(b[:8])); err == nil && 8+n <= len(b) {
			last = string(b[8 : 8+n])
		}
	}
	se := stderr.String()
	msg := firstLine(se, "fatal error", "WATCHDOG", "panic:", "runtime:")
	fn := "?"
	if f := strings.Split(last, "\t"); len(f) > 1 {
		fn = f[1]
		for _, x := range biCorrFns() {
			if x.name == fn {
				fn = x.base
			}
		}
	}
	class := "crash"
	if strings.Contains(se, "WATCHDOG") {
		class = "runaway"
	} else if biPanicClass(msg) == "count*len>limit" {
		class = "count*len>limit"
	}
	c.Violation(PropViolation{"C19", "the implementation died (" + msg + ") in a call of the correspondence stream", last, "C19:" + fn + ":" + class})
}

func biReplay(line string) (string, error) {
	f := strings.Split(line, "\t")
	if len(f) < 4 || f[0] != "bi" {
		return "", fmt.Errorf("bad bi line")
	}
	var fn *biCorrFn
	for _, x := range biCorrFns() {
		if x.name == f[1] {
			x := x
			fn = &x
		}
	}
	if fn == nil {
		return "", fmt.Errorf("unknown function %s", f[1])
	}
	k, err := strconv.Atoi(f[2])
	if err != nil {
		return "", err
	}
	pool := biCorrPool()
	var args []ugo.Object
	for _, a := range f[4:] {
		enc := strings.SplitN(a, "|", 2)[0]
		var found ugo.Object
		// values are looked up in the pool by their encoding (opaque objects cannot be rebuilt)
		for _, p := range pool {
			if codec.Encode(p, nil) == stripIds(enc) {
				found = gen.Fresh(p)
				break
			}
		}
		if found == nil {
			v, err := codec.Decode(enc, nil)
			if err != nil {
				return "", err
			}
			found = v
		}
		args = append(args, found)
	}
	ids := codec.NewIds()
	biCorrLine(*fn, args, k, f[3] == "1", ids)
	return biCorrImpl(*fn, args, k, f[3] == "1", ids), nil
}

// stripIds rewrites `otype:<id>` to `otype:0` (codec.Encode without an Ids table)
func stripIds(s string) string {
	var sb strings.Builder
	for i := 0; i < len(s); i++ {
		sb.WriteByte(s[i])
		if s[i] == ':' {
			j := i + 1
			for j < len(s) && s[j] >= '0' && s[j] <= '9' {
				j++
			}
			if j > i+1 {
				sb.WriteByte('0')
				i = j - 1
			}
		}
	}
	return sb.String()
}
