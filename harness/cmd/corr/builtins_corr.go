package main

func biCorr(c *Ctx) {}

func biReplay(line string) (string, error) { return "", nil }
