package main

import (
	_ "embed"
	"encoding/hex"
	"fmt"
	"os"
	"strings"

	"github.com/ozanh/ugo"
	"github.com/ozanh/ugo/encoder"

	"verifharness/gen"
)

// Stored version-1 files.  The lock-step part of this stream builds its version-1 input with the
// library's CURRENT encoder (the container format did not change between the versions), so a change
// that re-defines the stored format consistently in encoder and decoder is invisible to it.  This
// corpus was written ONCE by the unchanged tree (CORR_V1GOLDEN_OUT=<file> corr v1) and is committed:
// a line `B <hex of the version-1 bytes>` is followed by lines `R <args index> <outcome> <trace>`.  On every run
// the stored bytes are decoded by the current library and run; outcome and reported positions must be
// the stored ones (C11: "error positions still map to the same source lines").

//go:embed testdata/v1golden.txt
var v1GoldenText string

func v1GoldenScripts() []v1case {
	var cs []v1case
	for i, src := range v1Fixed {
		if len(src) > 4000 {
			continue // the two size-boundary programs are covered by the lock-step part
		}
		cs = append(cs, v1case{script: v1script{Main: src}, noOpt: i%2 == 0})
	}
	r := gen.NewRand(20260925)
	for i := 0; i < 40; i++ {
		cs = append(cs, v1case{script: genV1Script(r.Fork()), noOpt: i%3 == 0})
	}
	return cs
}

// v1Image builds the version-1 bytes of a compiled script (every function down-converted).
func v1Image(cs v1case) ([]byte, bool) {
	bc, err := v1Compile(cs)
	if err != nil {
		return nil, false
	}
	v1bc := &ugo.Bytecode{FileSet: bc.FileSet, NumModules: bc.NumModules}
	conv := func(cf *ugo.CompiledFunction) (*ugo.CompiledFunction, bool) {
		ins, sm, why := downConvert(cf.Instructions, cf.SourceMap)
		if why != "" {
			return nil, false
		}
		cp := *cf
		cp.Instructions, cp.SourceMap = ins, sm
		return &cp, true
	}
	var ok bool
	if v1bc.Main, ok = conv(bc.Main); !ok {
		return nil, false
	}
	v1bc.Constants = make([]ugo.Object, len(bc.Constants))
	for i, k := range bc.Constants {
		if cf, isf := k.(*ugo.CompiledFunction); isf {
			if v1bc.Constants[i], ok = conv(cf); !ok {
				return nil, false
			}
		} else {
			v1bc.Constants[i] = k
		}
	}
	data, err := asV1Bytes(v1bc)
	return data, err == nil
}

func v1GoldenWrite(path string) error {
	var sb strings.Builder
	for _, cs := range v1GoldenScripts() {
		data, ok := v1Image(cs)
		if !ok {
			continue
		}
		var dec encoder.Bytecode
		if err := dec.UnmarshalBinary(data); err != nil {
			continue
		}
		fmt.Fprintf(&sb, "B\t%s\n", hex.EncodeToString(data))
		for ai, args := range v1ArgPool {
			if ai%3 != 0 && ai != 1 {
				continue
			}
			o := v1Run((*ugo.Bytecode)(&dec), args)
			if strings.HasPrefix(o.res, "panic") || strings.Contains(o.res, "VMAborted") {
				continue
			}
			fmt.Fprintf(&sb, "R\t%d\t%s\t%s\n", ai, hex.EncodeToString([]byte(o.res)), o.trace)
		}
	}
	return os.WriteFile(path, []byte(sb.String()), 0o644)
}

func v1GoldenOracle(c *Ctx) {
	if out := os.Getenv("CORR_V1GOLDEN_OUT"); out != "" {
		if err := v1GoldenWrite(out); err != nil {
			fmt.Fprintln(os.Stderr, "v1golden:", err)
		}
	}
	n := 0
	var data []byte
	var dataHex string
	for _, line := range strings.Split(v1GoldenText, "\n") {
		f := strings.Split(line, "\t")
		if len(f) == 2 && f[0] == "B" {
			dataHex = f[1]
			data, _ = hex.DecodeString(f[1])
			continue
		}
		if len(f) != 4 || f[0] != "R" || data == nil {
			continue
		}
		want, err2 := hex.DecodeString(f[2])
		var ai int
		fmt.Sscanf(f[1], "%d", &ai)
		if err2 != nil || ai < 0 || ai >= len(v1ArgPool) {
			continue
		}
		n++
		c.dist["oracle:v1-stored-files"]++
		var dec encoder.Bytecode
		var got v1outcome
		func() {
			defer func() {
				if r := recover(); r != nil {
					got = v1outcome{res: fmt.Sprintf("decode panic %v", r)}
				}
			}()
			if err := dec.UnmarshalBinary(data); err != nil {
				got = v1outcome{res: "decode error " + err.Error()}
				return
			}
			got = v1Run((*ugo.Bytecode)(&dec), v1ArgPool[ai])
		}()
		if got.res != string(want) {
			c.Violation(PropViolation{"C11", fmt.Sprintf("a stored version-1 file (args %s) runs to %s, when it was written it ran to %s", argsString(v1ArgPool[ai]), got.res, want), "v1 bytes: " + dataHex, "C11:stored-file:outcome"})
			continue
		}
		if got.trace != f[3] {
			c.Violation(PropViolation{"C11", fmt.Sprintf("a stored version-1 file (args %s) reports the error at [%s], when it was written at [%s]", argsString(v1ArgPool[ai]), got.trace, f[3]), "v1 bytes: " + dataHex, "C11:stored-file:position"})
		}
	}
	if n == 0 {
		c.Violation(PropViolation{"C11", "the corpus of stored version-1 files is empty", "harness/cmd/corr/testdata/v1golden.txt", "C11:stored-file:corpus-missing"})
	}
}
