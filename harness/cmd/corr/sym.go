package main

import (
	"encoding/hex"
	"fmt"
	"sort"
	"strconv"
	"strings"

	"github.com/ozanh/ugo"

	"verifharness/gen"
)

// stream `symops` (C13): random sequences of calls on the ugo.SymbolTable API
// (and, through the verif hooks, on the two places outside symbol_table.go that
// build tables: compileModule's module table and the optimizer's evaluator
// table), compared call by call with the Lean model Model/Sym.lean.
//
// Line format: see lean/Driver/Sym.lean.

var symNames = []string{
	"len", "int", "string", "append", "error", "TypeError", "isInt", "cap", ":makeArray",
	"a", "b", "c", "x", "_", "iota", ":array", "foo",
}

type symopsMachine struct {
	tabs []*ugo.SymbolTable
	ids  map[*ugo.SymbolTable]int
}

func (m *symopsMachine) alloc(st *ugo.SymbolTable) int {
	if id, ok := m.ids[st]; ok {
		return id
	}
	m.tabs = append(m.tabs, st)
	m.ids[st] = len(m.tabs) - 1
	return len(m.tabs) - 1
}

func (m *symopsMachine) handle(s string) (*ugo.SymbolTable, error) {
	if s == "-" {
		return nil, nil
	}
	i, err := strconv.Atoi(s)
	if err != nil || i < 0 || i >= len(m.tabs) {
		return nil, fmt.Errorf("bad handle %q", s)
	}
	return m.tabs[i], nil
}

func (m *symopsMachine) showHandle(st *ugo.SymbolTable) string {
	if st == nil {
		return "h-"
	}
	id, ok := m.ids[st]
	if !ok {
		return "h?"
	}
	return fmt.Sprintf("h%d", id)
}

func symHexNames(s string) ([]string, error) {
	if s == "" {
		return nil, nil
	}
	var r []string
	for _, h := range strings.Split(s, ".") {
		b, err := hex.DecodeString(h)
		if err != nil {
			return nil, err
		}
		r = append(r, string(b))
	}
	return r, nil
}

func symB01(b bool) string {
	if b {
		return "1"
	}
	return "0"
}

func symShowSym(name string, index int, scope ugo.SymbolScope, assigned, constant bool) string {
	return fmt.Sprintf("%s,%d,%d,%s,%s", hex.EncodeToString([]byte(name)), index, int(scope), symB01(assigned), symB01(constant))
}

func symShowVS(s ugo.VerifSymbol) string {
	return symShowSym(s.Name, s.Index, s.Scope, s.Assigned, s.Constant)
}

func symShowNames(ns []string) string {
	hs := make([]string, len(ns))
	for i, n := range ns {
		hs[i] = hex.EncodeToString([]byte(n))
	}
	return strings.Join(hs, ".")
}

func symShowState(s ugo.VerifSymbolTableState) string {
	store := make([]string, len(s.Store))
	for i, x := range s.Store {
		store[i] = symShowVS(x)
	}
	frees := make([]string, len(s.Frees))
	for i, x := range s.Frees {
		frees[i] = symShowVS(x)
	}
	return fmt.Sprintf("t%s,%d,%d,%d,[%s],%s,%s,[%s],%s,%s,%s,%s,%s",
		symB01(s.HasParent), s.MaxDefinition, s.NumDefinition, s.NumParams, strings.Join(store, ";"),
		symB01(s.DisabledNil), symShowNames(s.Disabled), strings.Join(frees, ";"), symShowNames(s.Shadowed),
		symB01(s.Block), symB01(s.DisableParams), symB01(s.HasConstLit), symB01(s.HasParentConstLit))
}

// symopsOracle is called after every Resolve: the API-level statement of C13.
type symopsOracle func(st *ugo.SymbolTable, name string, sym *ugo.Symbol)

// exec runs one op; a Go panic is reported as "p".
func (m *symopsMachine) exec(op string, oracle symopsOracle) (out string, err error) {
	defer func() {
		if r := recover(); r != nil {
			out = "p"
		}
	}()
	if op == "" {
		return "", fmt.Errorf("empty op")
	}
	args := strings.Split(op[1:], ",")
	need := func(n int) error {
		if len(args) != n {
			return fmt.Errorf("op %q: want %d args", op, n)
		}
		return nil
	}
	name := func(i int) (string, error) {
		b, err := hex.DecodeString(args[i])
		return string(b), err
	}
	switch op[0] {
	case 'N':
		return fmt.Sprintf("h%d", m.alloc(ugo.NewSymbolTable())), nil
	case 'F', 'P', 'E':
		if err := need(2); err != nil {
			return "", err
		}
		st, err := m.handle(args[0])
		if err != nil {
			return "", err
		}
		b := args[1] == "1"
		switch op[0] {
		case 'F':
			return fmt.Sprintf("h%d", m.alloc(st.Fork(b))), nil
		case 'P':
			return m.showHandle(st.Parent(b)), nil
		default:
			st.EnableParams(b)
			return "u", nil
		}
	case 'L', 'G', 'C', 'R':
		if err := need(2); err != nil {
			return "", err
		}
		st, err := m.handle(args[0])
		if err != nil {
			return "", err
		}
		n, err := name(1)
		if err != nil {
			return "", err
		}
		switch op[0] {
		case 'L':
			s, ex := st.DefineLocal(n)
			return "s" + symB01(ex) + ":" + symShowSym(s.Name, s.Index, s.Scope, s.Assigned, s.Constant), nil
		case 'C':
			s, ex := st.VerifDefineConstLit(n)
			return "s" + symB01(ex) + ":" + symShowVS(s), nil
		case 'G':
			s, e := st.DefineGlobal(n)
			if e != nil {
				return "e" + e.Error(), nil
			}
			return "s1:" + symShowSym(s.Name, s.Index, s.Scope, s.Assigned, s.Constant), nil
		default:
			s, ok := st.Resolve(n)
			if oracle != nil {
				oracle(st, n, s)
			}
			if !ok || s == nil {
				return "s" + symB01(ok) + ":none", nil
			}
			return "s" + symB01(ok) + ":" + symShowSym(s.Name, s.Index, s.Scope, s.Assigned, s.Constant), nil
		}
	case 'S', 'D':
		if err := need(2); err != nil {
			return "", err
		}
		st, err := m.handle(args[0])
		if err != nil {
			return "", err
		}
		ns, err := symHexNames(args[1])
		if err != nil {
			return "", err
		}
		if op[0] == 'S' {
			if e := st.SetParams(ns...); e != nil {
				return "e" + e.Error(), nil
			}
			return "u", nil
		}
		st.DisableBuiltin(ns...)
		return "u", nil
	case 'Q', 'X', 'T', 'M':
		if err := need(1); err != nil {
			return "", err
		}
		st, err := m.handle(args[0])
		if err != nil {
			return "", err
		}
		switch op[0] {
		case 'Q':
			ns := append([]string(nil), st.DisabledBuiltins()...)
			sort.Strings(ns)
			return "n" + symShowNames(ns), nil
		case 'X':
			return fmt.Sprintf("i%d", st.VerifNextIndex()), nil
		case 'T':
			return symShowState(st.VerifState()), nil
		default:
			return fmt.Sprintf("h%d", m.alloc(ugo.VerifNewModuleTable(st))), nil
		}
	case 'V':
		if err := need(3); err != nil {
			return "", err
		}
		ev, err := m.handle(args[0])
		if err != nil {
			return "", err
		}
		comp, err := m.handle(args[1])
		if err != nil {
			return "", err
		}
		var scopes [][]string
		if args[2] != "~" {
			for _, sc := range strings.Split(args[2], "/") {
				ns, err := symHexNames(sc)
				if err != nil {
					return "", err
				}
				scopes = append(scopes, ns)
			}
		}
		return fmt.Sprintf("h%d", m.alloc(ugo.VerifEvalResetCompiler(ev, comp, scopes))), nil
	}
	return "", fmt.Errorf("unknown op %q", op)
}

func symopsRun(line string, oracle symopsOracle) (string, error) {
	f := strings.Split(line, "\t")
	if len(f) != 2 || f[0] != "symops" {
		return "", fmt.Errorf("bad symops line")
	}
	m := &symopsMachine{ids: map[*ugo.SymbolTable]int{}}
	var outs []string
	for _, op := range strings.Fields(f[1]) {
		o, err := m.exec(op, oracle)
		if err != nil {
			return "", err
		}
		outs = append(outs, o)
	}
	return strings.Join(outs, "|"), nil
}

// symopsGen generates one op sequence.  It tracks only how many tables exist
// (handles are allocation numbers) and stops after an op on the nil handle.
func symopsGen(r *gen.Rand, maxLen int) string {
	hx := func(s string) string { return hex.EncodeToString([]byte(s)) }
	nm := func() string { return hx(symNames[r.Intn(len(symNames))]) }
	nms := func(max int) string {
		k := r.Intn(max + 1)
		xs := make([]string, k)
		for i := range xs {
			xs[i] = nm()
		}
		return strings.Join(xs, ".")
	}
	n := 1
	ops := []string{"N"}
	if r.Intn(3) == 0 {
		// the configuration of the property: names disabled on the fresh root
		ops = append(ops, "D0,"+nms(4))
	}
	steps := 5 + r.Intn(maxLen)
	for i := 0; i < steps; i++ {
		h := strconv.Itoa(r.Intn(n))
		if r.Intn(3) > 0 {
			k := n
			if k > 3 {
				k = 3
			}
			h = strconv.Itoa(n - 1 - r.Intn(k)) // prefer recent tables
		}
		isNil := false
		if r.Intn(150) == 0 {
			h, isNil = "-", true
		}
		b := symB01(r.Bool())
		var op string
		switch k := r.Intn(100); {
		case k < 3:
			op = "N"
			n++
		case k < 15:
			op = "F" + h + "," + b
			if !isNil {
				n++
			}
		case k < 19:
			op = "P" + h + "," + b
		case k < 37:
			op = "L" + h + "," + nm()
		case k < 42:
			op = "G" + h + "," + nm()
		case k < 46:
			op = "C" + h + "," + nm()
		case k < 50:
			op = "S" + h + "," + nms(3)
		case k < 52:
			op = "E" + h + "," + b
		case k < 74:
			op = "R" + h + "," + nm()
		case k < 80:
			op = "D" + h + "," + nms(3)
		case k < 84:
			op = "Q" + h
		case k < 87:
			op = "X" + h
		case k < 93:
			op = "T" + h
		case k < 95:
			op = "M" + h
			n++
		default:
			ev := "-"
			if r.Intn(2) == 0 {
				ev = strconv.Itoa(r.Intn(n))
			}
			k := 1 + r.Intn(3)
			sc := make([]string, k)
			for j := range sc {
				sc[j] = nms(2)
			}
			op = "V" + ev + "," + h + "," + strings.Join(sc, "/")
			if ev == "-" {
				n++
			}
		}
		ops = append(ops, op)
		if isNil {
			break
		}
	}
	// final dump of every table
	if r.Intn(2) == 0 {
		for i := 0; i < n && i < 8; i++ {
			ops = append(ops, "T"+strconv.Itoa(i))
		}
	}
	return "symops\t" + strings.Join(ops, " ")
}

func init() {
	register(&Stream{
		Name: "symops",
		Run: func(c *Ctx) {
			c.Rule("random sequences (6..65 calls) over NewSymbolTable, Fork, Parent, DefineLocal, DefineGlobal, defineConstLit, SetParams, EnableParams, Resolve, DisableBuiltin, DisabledBuiltins, nextIndex, the module-table construction of compileModule and optimizerEval.resetCompiler, on aliased tables, with full state dumps; every call's result is compared with the Lean model; oracle: Resolve never returns a BUILTIN symbol for a name in DisabledBuiltins(); distinct = distinct answers of sequences that disable a name and resolve")
			n := 2500 * c.Scale
			for i := 0; i < n; i++ {
				r := c.R.Fork()
				line := symopsGen(r, 60)
				oracle := func(st *ugo.SymbolTable, name string, sym *ugo.Symbol) {
					if sym == nil || sym.Scope != ugo.ScopeBuiltin {
						return
					}
					for _, d := range st.DisabledBuiltins() {
						if d == name {
							c.Violation(PropViolation{"C13", "SymbolTable.Resolve(" + strconv.Quote(name) + ") returned a BUILTIN symbol although the name is in DisabledBuiltins()", line, "C13:resolve-returns-disabled-builtin"})
						}
					}
				}
				impl, err := symopsRun(line, oracle)
				if err != nil {
					panic(err)
				}
				for _, op := range strings.Fields(strings.SplitN(line, "\t", 2)[1]) {
					c.Count("op:" + op[:1])
				}
				key := ""
				if strings.Contains(line, " D") && strings.Contains(line, " R") {
					key = impl
				}
				if strings.Contains(impl, "p") && strings.HasSuffix(impl, "p") {
					c.Count("ends-in-panic")
				}
				c.Add(Case{Line: line, Impl: impl, Key: key})
			}
		},
		Replay: func(line string) (string, error) { return symopsRun(line, nil) },
	})
}
