package main

import (
	"fmt"

	"github.com/ozanh/ugo"
	ugostrings "github.com/ozanh/ugo/stdlib/strings"
)

// stdlib/strings functions that call a script function through an Invoker (C14 "errors thrown by the
// function propagate to the Go caller"): the predicate throws at its K-th call, for every K up to the
// number of calls a non-throwing run makes; the error must reach the script (message and call count),
// and no further call may be made after the throw.  Oracle only.
func stringsFuncOracle(c *Ctx) {
	fns := []struct{ name, call string }{
		{"TrimFunc", "strings.TrimFunc(s, f)"}, {"TrimLeftFunc", "strings.TrimLeftFunc(s, f)"}, {"TrimRightFunc", "strings.TrimRightFunc(s, f)"},
		{"IndexFunc", "strings.IndexFunc(s, f)"}, {"LastIndexFunc", "strings.LastIndexFunc(s, f)"}, {"FieldsFunc", "strings.FieldsFunc(s, f)"},
		{"Map", "strings.Map(f, s)"},
	}
	inputs := []string{"  !abc  ", "ab", " a b ", "", "   ", "x"}
	mm := ugo.NewModuleMap().AddBuiltinModule("strings", ugostrings.Module)
	run := func(fn, s string, k int) (kind string, msg string, cnt int64, ok bool) {
		pred := "return c == ' '"
		if fn == "Map" {
			pred = "return c"
		}
		src := fmt.Sprintf("strings := import(\"strings\")\ns := %q\ncnt := 0\nf := func(c) {\n  cnt++\n  if cnt == %d { throw \"bang\" + string(cnt) }\n  %s\n}\ntry {\n  r := %s\n  return [\"ok\", string(r), cnt]\n} catch e {\n  return [\"err\", e.Message, cnt]\n}\n", s, k, pred, fn)
		bc, err := ugo.Compile([]byte(src), ugo.CompilerOptions{ModuleMap: mm})
		if err != nil {
			return "", "", 0, false
		}
		ret, err := ugo.NewVM(bc).SetRecover(true).Run(nil)
		arr, isArr := ret.(ugo.Array)
		if err != nil || !isArr || len(arr) != 3 {
			return "run-error", fmt.Sprint(err), 0, true
		}
		n, _ := arr[2].(ugo.Int)
		return arr[0].String(), arr[1].String(), int64(n), true
	}
	for _, f := range fns {
		for _, s := range inputs {
			_, _, total, ok := run(f.call, s, 0)
			if !ok {
				continue
			}
			for k := 1; k <= int(total); k++ {
				kind, msg, cnt, ok := run(f.call, s, k)
				if !ok {
					continue
				}
				c.dist["oracle:strings-func-throws"]++
				want := fmt.Sprintf("bang%d", k)
				if kind != "err" || msg != want || cnt != int64(k) {
					c.Violation(PropViolation{"C14", fmt.Sprintf("strings.%s(%q, f) with f throwing %q at its call %d of %d: got (%s, %s, calls=%d); the error must propagate and no call may follow it",
						f.name, s, want, k, total, kind, msg, cnt), fmt.Sprintf("strings.%s(%q, f)", f.name, s), "C14:error-not-propagated:strings." + f.name})
					break
				}
			}
		}
	}
	stringsStatefulOracle(c)
}

// stringsStatefulOracle: the callback is invoked once for EVERY character, in order, also for repeated
// characters: a stateful closure sees exactly the calls the same loop written in the script makes.
func stringsStatefulOracle(c *Ctx) {
	mm := ugo.NewModuleMap().AddBuiltinModule("strings", ugostrings.Module)
	// every character of the subject reaches the callback, also U+FFFD (valid, or standing for an invalid byte)
	for _, fx := range []struct{ src, want string }{
		{`strings := import("strings"); n := 0; i := strings.IndexFunc("ab\ufffdcd", func(c) { n++; return c == '\ufffd' }); return [i, n]`, "[2, 3]"},
		{`strings := import("strings"); n := 0; i := strings.LastIndexFunc("ab\ufffdcd", func(c) { n++; return c == '\ufffd' }); return [i, n]`, "[2, 3]"},
		{`strings := import("strings"); seen := []; i := strings.IndexFunc("a\xffb", func(c) { seen = append(seen, int(c)); return false }); return [i, seen]`, "[-1, [97, 65533, 98]]"},
		{`strings := import("strings"); n := 0; r := strings.Map(func(c) { n++; return c }, "x\ufffdy"); return [len(r), n]`, "[5, 3]"},
		{`strings := import("strings"); n := 0; r := strings.TrimFunc("\ufffdab\ufffd", func(c) { n++; return c == '\ufffd' }); return [r, n]`, `["ab", 4]`},
		// the callback's result is used as a truth value, as `if f(c)` in a script would use it
		{`strings := import("strings"); return strings.FieldsFunc("a,b,c", func(c) { return c == ',' ? 1 : 0 })`, `["a", "b", "c"]`},
		{`strings := import("strings"); return strings.FieldsFunc("a b", func(c) { return c == ' ' ? "sep" : "" })`, `["a", "b"]`},
		{`strings := import("strings"); return strings.TrimFunc("xxabxx", func(c) { return c == 'x' ? [0] : undefined })`, `ab`},
		{`strings := import("strings"); return [strings.IndexFunc("abc", func(c) { return c == 'c' ? 2.5 : 0 }), strings.LastIndexFunc("abca", func(c) { return c == 'a' ? "y" : "" })]`, `[2, 3]`},
	} {
		c.dist["oracle:strings-stateful"]++
		bc, err := ugo.Compile([]byte(fx.src), ugo.CompilerOptions{ModuleMap: mm})
		if err != nil {
			c.Violation(PropViolation{"C14", "U+FFFD callback script does not compile: " + err.Error(), fx.src, "C14:stateful-compile"})
			continue
		}
		ret, err := ugo.NewVM(bc).SetRecover(true).Run(nil)
		got := fmt.Sprint(ret)
		if err != nil {
			got = "error: " + semFirstLine(err.Error())
		}
		if got != fx.want {
			c.Violation(PropViolation{"C14", fmt.Sprintf("a strings.*Func builtin does not hand every character to its script callback: got %s, want %s", got, fx.want), fx.src, "C14:callback-calls-differ:replacement-char"})
		}
	}
	for _, in := range []string{"aabbb  cc", "zzzz", "abab", "", "ééa", "a"} {
		src := fmt.Sprintf(`strings := import("strings")
s := %q
cnt := 0
r := strings.Map(func(c) { cnt++; return c + cnt }, s)
out := ""
n := 0
for _, c in s { n++; out += char(c + n) }
seen := []
i := strings.IndexFunc(s, func(c) { seen = append(seen, c); return false })
t := strings.TrimFunc(s, func(c) { seen = append(seen, c); return false })
return [r == out, cnt == n, len(seen) >= (len(s) > 0 ? 2 : 0)]
`, in)
		c.dist["oracle:strings-stateful"]++
		bc, err := ugo.Compile([]byte(src), ugo.CompilerOptions{ModuleMap: mm})
		if err != nil {
			c.Violation(PropViolation{"C14", "stateful-callback script does not compile: " + err.Error(), src, "C14:stateful-compile"})
			continue
		}
		ret, err := ugo.NewVM(bc).SetRecover(true).Run(nil)
		got := fmt.Sprint(ret)
		if err != nil {
			got = "error: " + semFirstLine(err.Error())
		}
		if got != "[true, true, true]" {
			c.Violation(PropViolation{"C14", fmt.Sprintf("strings.Map(f, %q) with a stateful closure does not make the calls the same loop in the script makes: [result equal, call count equal, scans called] = %s", in, got), src, "C14:callback-calls-differ:strings.Map"})
		}
	}
}
