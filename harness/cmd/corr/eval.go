package main

import (
	"bytes"
	"context"
	"fmt"
	"math"
	"regexp"
	"sort"
	"strings"
	"time"

	"github.com/ozanh/ugo"
	"github.com/ozanh/ugo/parser"

	"verifharness/astenc"
	"verifharness/codec"
	"verifharness/gen"
)

// stream `eval` (C10): generated top-level scripts x ways of cutting them into
// consecutive fragments.
//
//  (a) property oracle on the implementation: a real ugo.NewEval session evaluating the
//      fragments one by one against a real single Eval.Run of the concatenation of the
//      fragments so far, up to and including the first fragment that fails: result value
//      or error (Name, Message), printed output, Locals image, globals, and the value of
//      every declared name (probe fragments).
//  (b) correspondence of the real session with Model/Eval (lock-step per fragment):
//      compiled bytes after fixOpPop, NumParams/NumLocals, constants, result, Locals image.

// ---- canonical rendering shared with lean/Driver/EvalDrv.lean ---------------------------

func evalImage(sb *strings.Builder, o ugo.Object, depth int) {
	if depth > 24 {
		sb.WriteString("deep")
		return
	}
	switch v := o.(type) {
	case nil:
		sb.WriteString("nil")
	case *ugo.UndefinedType:
		sb.WriteString("u")
	case ugo.Int:
		fmt.Fprintf(sb, "i%016x", uint64(v))
	case ugo.Uint:
		fmt.Fprintf(sb, "n%016x", uint64(v))
	case ugo.Float:
		b := math.Float64bits(float64(v))
		if v != v {
			b = 0x7FF8000000000001
		}
		fmt.Fprintf(sb, "f%016x", b)
	case ugo.Char:
		fmt.Fprintf(sb, "c%08x", uint32(v))
	case ugo.Bool:
		if v {
			sb.WriteString("b1")
		} else {
			sb.WriteString("b0")
		}
	case ugo.String:
		sb.WriteString("s" + codec.Hex([]byte(v)))
	case ugo.Bytes:
		sb.WriteString("y" + codec.Hex(v))
	case ugo.Array:
		sb.WriteString("a(")
		for i, x := range v {
			if i > 0 {
				sb.WriteByte(' ')
			}
			evalImage(sb, x, depth+1)
		}
		sb.WriteString(")")
	case ugo.Map:
		keys := make([]string, 0, len(v))
		for k := range v {
			keys = append(keys, k)
		}
		sort.Strings(keys)
		sb.WriteString("m(")
		for i, k := range keys {
			if i > 0 {
				sb.WriteByte(' ')
			}
			sb.WriteString(codec.Hex([]byte(k)) + "=")
			evalImage(sb, v[k], depth+1)
		}
		sb.WriteString(")")
	case *ugo.ObjectPtr:
		// a captured variable: the box is part of the image, its address is not
		sb.WriteString("p(")
		if v.Value == nil {
			sb.WriteString("nil")
		} else {
			evalImage(sb, *v.Value, depth+1)
		}
		sb.WriteString(")")
	case *ugo.CompiledFunction:
		fmt.Fprintf(sb, "F%d", len(v.Free))
	case *ugo.BuiltinFunction:
		sb.WriteString("B")
	case *ugo.Function:
		sb.WriteString("G")
	case *ugo.Error:
		sb.WriteString("E(" + codec.Hex([]byte(v.Name)) + "," + codec.Hex([]byte(v.Message)) + ")")
	case *ugo.RuntimeError:
		if v.Err == nil {
			sb.WriteString("E()")
		} else {
			sb.WriteString("E(" + codec.Hex([]byte(v.Err.Name)) + "," + codec.Hex([]byte(v.Err.Message)) + ")")
		}
	default:
		// iterators and other internal objects (some panic in TypeName): Go type name
		sb.WriteString("o" + fmt.Sprintf("%T", o))
	}
}

func evalImg(o ugo.Object) string {
	var sb strings.Builder
	evalImage(&sb, o, 0)
	return sb.String()
}

func evalImgs(os []ugo.Object) string {
	var ss []string
	for _, o := range os {
		ss = append(ss, evalImg(o))
	}
	return "[" + strings.Join(ss, " ") + "]"
}

// ---- running real sessions --------------------------------------------------------------

type evalCfg struct {
	noOpt    bool
	limit    int
	args     []ugo.Object
	disabled []string // builtins disabled in the session's (and the batch run's) root symbol table
	nilGlob  bool     // the session is created with NewEval(opts, nil): Eval supplies the globals map
}

func (c evalCfg) String() string {
	if len(c.disabled) > 0 {
		return fmt.Sprintf("noopt=%v limit=%d args=%s disabled=%v", c.noOpt, c.limit, evalImgs(c.args), c.disabled)
	}
	return fmt.Sprintf("noopt=%v limit=%d args=%s", c.noOpt, c.limit, evalImgs(c.args))
}

func evalBuiltinModule() map[string]ugo.Object {
	return map[string]ugo.Object{
		"n":   ugo.Int(5),
		"arr": ugo.Array{ugo.Int(1), ugo.Int(2)},
		"twice": &ugo.Function{Name: "twice", Value: func(args ...ugo.Object) (ugo.Object, error) {
			if len(args) != 1 {
				return nil, ugo.ErrWrongNumArguments.NewError("want=1")
			}
			if i, ok := args[0].(ugo.Int); ok {
				return i * 2, nil
			}
			return ugo.Undefined, nil
		}},
	}
}

func newEvalSession(cfg evalCfg) *ugo.Eval {
	mm := ugo.NewModuleMap()
	for n, src := range gen.EvalSourceModules() {
		mm.AddSourceModule(n, []byte(src))
	}
	mm.AddBuiltinModule("bm", evalBuiltinModule())
	opts := ugo.CompilerOptions{ModuleMap: mm, NoOptimize: cfg.noOpt, OptimizerLimit: cfg.limit}
	if len(cfg.disabled) > 0 {
		st := ugo.NewSymbolTable()
		st.DisableBuiltin(cfg.disabled...)
		opts.SymbolTable = st
	}
	args := append([]ugo.Object{}, cfg.args...)
	if cfg.nilGlob {
		return ugo.NewEval(opts, nil, args...)
	}
	return ugo.NewEval(opts, ugo.Map{}, args...)
}

// fragOut is what one Eval.Run shows.
type fragOut struct {
	kind    string // ok | rterr | cerr | perr | goerr | panic
	res     string // value image, or error (Name, Message), or error text without positions
	out     string // printed output of this run
	locals  string
	globals string
	bc      *ugo.Bytecode
	err     error
}

func (f fragOut) failed() bool { return f.kind != "ok" }

func evalErrText(err error) (kind, text string) {
	switch e := err.(type) {
	case *ugo.RuntimeError:
		if e.Err != nil {
			return "rterr", e.Err.Name + ": " + e.Err.Message
		}
		return "rterr", "nil"
	case *ugo.Error:
		return "rterr", e.Name + ": " + e.Message
	case *ugo.CompilerError:
		msg := e.Err.Error()
		if x, ok := e.Err.(*ugo.Error); ok {
			msg = x.Name + ": " + x.Message
		}
		return "cerr", msg
	case parser.ErrorList:
		var ms []string
		for _, x := range e {
			ms = append(ms, x.Msg)
		}
		return "perr", strings.Join(ms, "; ")
	}
	if strings.HasPrefix(err.Error(), "panic:") {
		// a recovered Go panic (VM.SetRecover): the text carries a Go stack with addresses
		return "goerr", strings.SplitN(err.Error(), "\n", 2)[0]
	}
	// optimizer errors (single or a multi-error list): drop the position lines
	var ls []string
	for _, l := range strings.Split(err.Error(), "\n") {
		if strings.HasPrefix(l, "\tat ") || l == "" {
			continue
		}
		l = strings.TrimPrefix(strings.TrimSpace(l), "* ")
		if strings.HasSuffix(l, "errors occurred:") {
			continue
		}
		// the optimizer reports an error once per pass: the number of repetitions depends
		// on how many passes the rest of the script needs
		dup := false
		for _, x := range ls {
			dup = dup || x == l
		}
		if !dup {
			ls = append(ls, l)
		}
	}
	return "goerr", strings.Join(ls, " | ")
}

// runFragment runs one script on the session; panics are recovered and reported.
func runFragment(ev *ugo.Eval, src string) (fo fragOut) {
	var buf bytes.Buffer
	old := ugo.PrintWriter
	ugo.PrintWriter = &buf
	defer func() {
		ugo.PrintWriter = old
		if r := recover(); r != nil {
			fo = fragOut{kind: "panic", res: fmt.Sprint(r), out: buf.String()}
		}
	}()
	ctx, cancel := context.WithTimeout(context.Background(), 1*time.Second)
	defer cancel()
	ret, bc, err := ev.Run(ctx, []byte(src))
	fo.out = buf.String()
	fo.bc = bc
	fo.locals = evalImgs(ev.Locals)
	fo.globals = evalImg(ev.Globals)
	if err != nil {
		fo.err = err
		fo.kind, fo.res = evalErrText(err)
		if err == context.DeadlineExceeded || err == ugo.ErrVMAborted {
			// a script that does not end: where the abort lands is a matter of timing
			fo.kind = "timeout"
		}
		return
	}
	fo.kind = "ok"
	fo.res = evalImg(ret)
	return
}

// runProbes evaluates each probe expression as a further fragment.
func runProbes(ev *ugo.Eval, probes []string) []string {
	var rs []string
	for _, p := range probes {
		fo := runFragment(ev, p)
		rs = append(rs, fo.kind+" "+fo.res+" out="+codec.Hex([]byte(fo.out)))
	}
	return rs
}

type batchRes struct {
	fo     fragOut
	probes []string // probe fragments evaluated after the batch run on the same Eval
	pure   string   // single run of script + "\n[p1, p2, ...]" on a fresh Eval (only when fo is ok)
}

func joinStmts(ss []string) string { return strings.Join(ss, "\n") }

func arrayProbe(ps []string) string { return "[" + strings.Join(ps, ", ") + "]" }

// batch evaluates Stmts[0:j] as one script.
func evalBatch(cfg evalCfg, es *gen.EvalScript, j int) batchRes {
	src := joinStmts(es.Stmts[:j])
	ev := newEvalSession(cfg)
	br := batchRes{fo: runFragment(ev, src)}
	if br.fo.kind == "ok" || br.fo.kind == "rterr" {
		ps := es.ProbeUpTo(j)
		br.probes = runProbes(ev, append([]string{arrayProbe(ps)}, ps...))
	}
	if br.fo.kind == "ok" {
		lastIsReturn := strings.HasPrefix(es.Stmts[j-1], "return")
		if !lastIsReturn {
			fo := runFragment(newEvalSession(cfg), src+"\n"+arrayProbe(es.ProbeUpTo(j)))
			br.pure = fo.kind + " " + fo.res
		}
	}
	return br
}

// cutsOf enumerates the cut sets of n statements as bit masks over the n-1 gaps.
func fragmentsOf(stmts []string, mask uint64) (frags []string, ends []int) {
	start := 0
	for i := 1; i <= len(stmts); i++ {
		if i == len(stmts) || mask&(1<<uint(i-1)) != 0 {
			frags = append(frags, joinStmts(stmts[start:i]))
			ends = append(ends, i)
			start = i
		}
	}
	return
}

func evalInput(cfg evalCfg, frags []string) string {
	var qs []string
	for _, f := range frags {
		qs = append(qs, fmt.Sprintf("%q", f))
	}
	return cfg.String() + " fragments=[" + strings.Join(qs, ", ") + "]"
}

// classify names the failing-input class of a disagreement (the signature).
func evalSig(what string, frags []string, codeless, optTiming bool) string {
	cls := "general"
	all := strings.Join(frags, "\n")
	switch {
	case codeless:
		// the fragment compiled to no instruction but the final RETURN 0: the session
		// answers undefined, the single script the value of the preceding expression statement
		cls = "codeless-fragment"
	case optTiming:
		// the optimizer reports a failing constant expression at compile time when its budget
		// reaches it, the VM at run time otherwise; every fragment gets a fresh budget
		cls = "optimizer-error-timing"
	case variadicParamRe.MatchString(all):
		cls = "variadic-param"
	case strings.Contains(all, "param"):
		cls = "param"
	case strings.Contains(all, "import("):
		cls = "import"
	}
	return "C10:" + cls + ":" + what
}

var variadicParamRe = regexp.MustCompile(`param[^\n]*\.\.\.`)

// checkCut runs the session for one cut and compares it with the batch runs.
func checkCut(c *Ctx, cfg evalCfg, es *gen.EvalScript, mask uint64, batch map[int]*batchRes) {
	frags, ends := fragmentsOf(es.Stmts, mask)
	ev := newEvalSession(cfg)
	cumOut := ""
	codeless, optTiming := false, false
	viol := func(what, detail string, k int) {
		c.Violation(PropViolation{Property: "C10", What: what + ": " + detail, Input: evalInput(cfg, frags[:k+1]),
			Sig: evalSig(what, frags[:k+1], codeless && what == "result", optTiming && what == "result")})
	}
	for k, f := range frags {
		so := runFragment(ev, f)
		cumOut += so.out
		b, ok := batch[ends[k]]
		if !ok {
			br := evalBatch(cfg, es, ends[k])
			b = &br
			batch[ends[k]] = b
		}
		c.Count("fragment:" + so.kind)
		codeless = so.kind == "ok" && so.res == "u" && so.bc != nil && len(so.bc.Main.Instructions) == 2 &&
			so.bc.Main.Instructions[0] == ugo.OpReturn && b.fo.kind == "ok"
		if so.kind == "timeout" || b.fo.kind == "timeout" {
			c.Count("timeout")
			return
		}
		optErr := func(kind, res string) string {
			if kind == "goerr" && strings.HasPrefix(res, "Optimizer Error: ") {
				return strings.TrimSpace(strings.TrimPrefix(res, "Optimizer Error: "))
			}
			if kind == "rterr" {
				return strings.TrimSpace(res)
			}
			return "\x00" + kind
		}
		optTiming = so.kind != b.fo.kind && optErr(so.kind, so.res) == optErr(b.fo.kind, b.fo.res)
		if so.kind == "panic" || b.fo.kind == "panic" {
			viol("panic", fmt.Sprintf("fragment %d: session %s %s, batch %s %s", k, so.kind, so.res, b.fo.kind, b.fo.res), k)
			return
		}
		if so.kind != b.fo.kind || so.res != b.fo.res {
			viol("result", fmt.Sprintf("fragment %d: session %s %s, batch %s %s", k, so.kind, so.res, b.fo.kind, b.fo.res), k)
			if !codeless {
				return
			}
			// known class: keep comparing everything else of this cut
		}
		if so.kind == "cerr" || so.kind == "perr" || so.kind == "goerr" {
			// the batch script did not run at all: nothing else to compare
			return
		}
		if cumOut != b.fo.out {
			viol("output", fmt.Sprintf("fragment %d: session printed %q, batch %q", k, cumOut, b.fo.out), k)
			return
		}
		if so.locals != b.fo.locals {
			viol("locals", fmt.Sprintf("fragment %d: session %s, batch %s", k, so.locals, b.fo.locals), k)
			return
		}
		if so.globals != b.fo.globals {
			viol("globals", fmt.Sprintf("fragment %d: session %s, batch %s", k, so.globals, b.fo.globals), k)
			return
		}
		if so.failed() || k == len(frags)-1 {
			ps := es.ProbeUpTo(ends[k])
			sp := runProbes(ev, append([]string{arrayProbe(ps)}, ps...))
			for i := range sp {
				if i < len(b.probes) && sp[i] != b.probes[i] {
					name := arrayProbe(ps)
					if i > 0 {
						name = ps[i-1]
					}
					viol("probe", fmt.Sprintf("after fragment %d probe %s: session %s, batch %s", k, name, sp[i], b.probes[i]), k)
					return
				}
			}
			if !so.failed() && b.pure != "" && len(sp) > 0 {
				got := strings.SplitN(sp[0], " out=", 2)[0]
				if got != b.pure {
					viol("probe", fmt.Sprintf("after fragment %d probe array: session %s, single script with the probe appended %s", k, got, b.pure), k)
				}
			}
			return
		}
	}
}

// ---- correspondence with Model/Eval -----------------------------------------------------

func showConsts(cs []ugo.Object, from int) string {
	var ss []string
	for i := from; i < len(cs); i++ {
		if f, ok := cs[i].(*ugo.CompiledFunction); ok {
			ss = append(ss, showFn(f))
		} else {
			ss = append(ss, codec.Encode(cs[i], nil))
		}
	}
	return strings.Join(ss, " ")
}

// evalModelLine renders the request and the implementation's answer for one cut.
// Answer: one record per fragment, joined by " ;; ".
func evalModelCase(es *gen.EvalScript, frags []string, args []ugo.Object) (line, impl string, ok bool) {
	var asts []string
	for _, f := range frags {
		a, err := parseToAst(f)
		if err != nil {
			// a parse error ends the compared prefix: the model starts at the AST
			break
		}
		asts = append(asts, a)
	}
	if len(asts) == 0 {
		return "", "", false
	}
	var as []string
	for _, a := range args {
		as = append(as, codec.Encode(a, nil))
	}
	line = "eval\t200000\t" + strings.Join(as, ";") + "\t" + strings.Join(asts, "\t")
	impl = evalImplAnswer(frags[:len(asts)], args)
	line += "\t#" + codec.Hex([]byte(strings.Join(frags[:len(asts)], "\n;;\n")))
	return line, impl, true
}

func evalImplAnswer(frags []string, args []ugo.Object) string {
	ev := newEvalSession(evalCfg{noOpt: true, args: args})
	var recs []string
	nconst := 0
	for _, f := range frags {
		fo := runFragment(ev, f)
		switch fo.kind {
		case "cerr":
			pos := "-"
			if ce, ok := fo.err.(*ugo.CompilerError); ok && ce.Node != nil {
				pos = fmt.Sprint(int(ce.Node.Pos()))
			}
			recs = append(recs, "cerr "+pos)
		case "perr":
			recs = append(recs, "cerr -")
		case "panic":
			recs = append(recs, "panic")
		case "timeout":
			recs = append(recs, "unsupported timeout")
		default:
			if fo.bc == nil {
				recs = append(recs, "cerr -")
				continue
			}
			outS := "val " + fo.res
			if fo.err != nil {
				outS = outcomeString(nil, fo.err, nil)
			}
			rec := fmt.Sprintf("run %s consts=%s out=%s locals=%s globals=%s", showFn(fo.bc.Main),
				showConsts(fo.bc.Constants, nconst), outS, fo.locals, fo.globals)
			nconst = len(fo.bc.Constants)
			recs = append(recs, rec)
		}
		if fo.kind != "ok" {
			// the property compares nothing after the first failing fragment; neither does the lock-step
			// (a failed fragment can leave declared-but-unassigned names on stale slots, e.g. an iterator)
			break
		}
	}
	return strings.Join(recs, " ;; ")
}

// evalSame: the model may stop with `unsupported …` (imports, opaque builtins): the
// records before it must agree.
func evalSame(impl, model string) bool {
	ri, rm := strings.Split(impl, " ;; "), strings.Split(model, " ;; ")
	for i := range rm {
		if strings.HasPrefix(rm[i], "unsupported") || (i < len(ri) && strings.HasPrefix(ri[i], "unsupported")) {
			return true
		}
		if i >= len(ri) || ri[i] != rm[i] {
			return false
		}
	}
	return len(ri) == len(rm)
}

func evalReplay(line string) (string, error) {
	fs := strings.Split(line, "\t")
	src := ""
	for _, f := range fs {
		if strings.HasPrefix(f, "#") {
			b, err := hexDecode(f[1:])
			if err != nil {
				return "", err
			}
			src = string(b)
		}
	}
	if src == "" || len(fs) < 4 {
		return "", fmt.Errorf("eval replay: no source in line")
	}
	var args []ugo.Object
	for _, w := range strings.Split(fs[2], ";") {
		if w == "" {
			continue
		}
		o, err := codec.Decode(w, nil)
		if err != nil {
			return "", err
		}
		args = append(args, o)
	}
	return evalImplAnswer(strings.Split(src, "\n;;\n"), args), nil
}

var _ = astenc.File

func init() {
	register(&Stream{
		Name:   "eval",
		Replay: evalReplay,
		Same:   evalSame,
		Skip:   func(m string) bool { return strings.HasPrefix(m, "unsupported") },
		Run: func(c *Ctx) {
			c.Rule("generated top-level scripts (declarations := / var / const incl. iota groups, destructuring, assignments, compound assignments, function literals capturing top-level and block variables and called in later fragments, if/for/for-in/try blocks re-using local slots, global declarations, imports of source and builtin modules, println/printf, expression statements, param declarations, one failing statement - runtime, compile or parse error - at a random position) x every way (<= 10 statements) or 12 sampled ways (longer) of cutting them into consecutive fragments x optimizer off / default / limit 1; (a) oracle: real Eval session fragment by fragment vs one real Eval.Run of the concatenation so far: result or error (Name, Message), cumulative printed output, Locals image (boxes kept), globals, and the values of all declared names probed by trailing fragments, up to and including the first failing fragment; (b) lock-step of the real session (NoOptimize) with Model/Eval: main function bytes after fixOpPop, NumParams/NumLocals, source map, new constants, result, Locals image, globals; distinct = distinct (statement count, cut mask, script hash); non-trivial = at least two fragments")
			nSmall := 260 * c.Scale
			nLarge := 120 * c.Scale
			pool := argPool()
			run := func(maxStmts int, exhaustive bool) {
				r := c.R.Fork()
				eo := gen.EvalOpts{MaxStmts: maxStmts, Imports: r.Intn(3) == 0, Prints: r.Intn(3) == 0, Fail: true,
					Params: r.Intn(4) == 0, Floats: r.Intn(4) == 0}
				es := gen.EvalProgram(r, eo)
				n := len(es.Stmts)
				cfg := evalCfg{noOpt: r.Intn(3) == 0}
				if !cfg.noOpt && r.Intn(3) == 0 {
					cfg.limit = 1 + r.Intn(3)
				}
				if es.Params || r.Intn(6) == 0 {
					cfg.args = []ugo.Object{pool[r.Intn(len(pool))], pool[r.Intn(len(pool))], pool[r.Intn(len(pool))]}[:1+r.Intn(3)]
				}
				c.Count(fmt.Sprintf("stmts:%d", n))
				if es.FailAt >= 0 {
					c.Count("fail:" + es.FailKnd)
				}
				var masks []uint64
				if exhaustive && n <= 10 {
					for m := uint64(0); m < 1<<uint(n-1); m++ {
						masks = append(masks, m)
					}
				} else {
					masks = append(masks, 0, (1<<uint(n-1))-1)
					for i := 0; i < 10; i++ {
						masks = append(masks, r.U64()&((1<<uint(n-1))-1))
					}
				}
				batch := map[int]*batchRes{}
				t0 := time.Now()
				for _, m := range masks {
					checkCut(c, cfg, es, m, batch)
					if time.Since(t0) > 5*time.Second {
						c.Count("script-cut-short")
						break
					}
				}
				c.Count("cuts")
				// (b) two cuts per script go to the model: all single statements, and a random one
				for i, m := range []uint64{(1 << uint(n-1)) - 1, masks[r.Intn(len(masks))]} {
					if i == 1 && m == (1<<uint(n-1))-1 {
						continue
					}
					frags, _ := fragmentsOf(es.Stmts, m)
					line, impl, ok := evalModelCase(es, frags, cfg.args)
					if !ok {
						continue
					}
					key := ""
					if len(frags) > 1 {
						key = fmt.Sprintf("%d/%x/%x", n, m, hashStr(line)%100003)
					}
					c.Add(Case{Line: line, Impl: impl, Key: key})
				}
			}
			evalFailedImportOracle(c, "C10")
			evalDisableViaForkOracle(c)
			// fixed witnesses first: the two open findings (reported every run while they
			// reproduce) and the repaired defect (must stay silent)
			for _, w := range []struct {
				stmts  []string
				probes []string
				args   []ugo.Object
			}{
				{[]string{"param ...x", "y := 2", "x"}, []string{"x", "y"}, []ugo.Object{ugo.Int(1), ugo.Int(2), ugo.Int(3)}},
				{[]string{"1 + 1", "const c = 5"}, []string{"c"}, nil},
				{[]string{"global g", "param (a, b)", "a"}, []string{"a", "b"}, []ugo.Object{ugo.Int(1), ugo.Int(2)}},
				{[]string{"x := 1", "f := func() { x++; return x }", "x = 10", "f()"}, []string{"x", "f()"}, nil},
				// a module is initialised once per session: importing it again in a later fragment gives the
				// instance (and the state) the earlier fragments hold
				{[]string{"m1 := import(\"src1\")", "m1.inc()", "m2 := import(\"src1\")", "m2.inc()", "m1.get()"}, []string{"m1.get()", "m2.get()", "m1 == m2"}, nil},
				{[]string{"a := import(\"src2\")", "a.bump()", "b := import(\"src1\")", "b.get()", "n := import(\"src2\").add(9)", "a.base"}, []string{"a.base", "b.get()", "n"}, nil},
				{[]string{"f := func() { return import(\"src1\").inc() }", "f()", "f()", "import(\"src1\").get()"}, []string{"f()"}, nil},
				{[]string{"b1 := import(\"bm\")", "b1.n", "b2 := import(\"bm\")", "b2.twice(4)"}, []string{"b1.n", "b2.n"}, nil},
				{[]string{"c := import(\"src1\")", "c.k = 5", "import(\"src1\").k"}, []string{"c.k", "import(\"src1\").k"}, nil},
				// a module initialised by an earlier fragment survives the first import of ANOTHER module later
				{[]string{"a := import(\"src1\")", "a.inc()", "a.k = 9", "b := import(\"bm\")", "import(\"src1\").get()", "c := import(\"src2\")", "import(\"src1\").k"}, []string{"a.get()", "import(\"src1\").k", "b.n"}, nil},
				// a builtin used (not foldably) by an earlier fragment and then redefined at top level keeps
				// its new meaning in later fragments, also where the optimizer could fold the call
				{[]string{"arr := [1, 2]", "n := len(arr)", "len := func(x) { return 100 }", "len(\"abc\")", "m := len(\"ab\") + 1"}, []string{"n", "m", "len(\"abcd\")"}, nil},
				{[]string{"s := string(1)", "string := func(x) { return \"S\" }", "string(2) + \"!\"", "t := [string(3)]"}, []string{"s", "t"}, nil},
				{[]string{"i := int(\"4\")", "var int = func(x) { return -1 }", "int(\"5\")", "j := int(\"6\") * 2"}, []string{"i", "j"}, nil},
			} {
				es := &gen.EvalScript{Stmts: w.stmts, FailAt: -1, Probes: make([][]string, len(w.stmts))}
				es.Probes[len(w.stmts)-1] = w.probes
				batch := map[int]*batchRes{}
				for m := uint64(0); m < 1<<uint(len(w.stmts)-1); m++ {
					checkCut(c, evalCfg{noOpt: true, args: w.args}, es, m, batch)
					checkCut(c, evalCfg{args: w.args}, es, m, batch)
				}
			}
			// the sign of a float zero constant left by an earlier fragment (the constant cache is rebuilt from
			// the session's constants for every fragment), and globals of a session created without a map
			for _, w := range []struct {
				stmts  []string
				probes []string
				cfg    evalCfg
			}{
				{[]string{"a := -0.0", "b := 0.0", "string(b)"}, []string{"string(a)", "string(b)", "string(0.0)", "string(-0.0)"}, evalCfg{}},
				{[]string{"a := 0.0", "b := -0.0", "string(b)", "c := 0.0 * -1", "d := 0.0"}, []string{"string(a)", "string(b)", "string(c)", "string(d)"}, evalCfg{}},
				{[]string{"x := 1 - 1.0", "y := -x", "z := -0.0", "w := 0.0", "string(w)"}, []string{"string(y)", "string(z)", "string(w)"}, evalCfg{}},
				{[]string{"const ( bool = iota; char; len )", "x := 1", "char(65)"}, []string{"char", "len", "typeName(bool)"}, evalCfg{}},
				{[]string{"const len = 7", "y := len + 1", "z := len(\"abc\")"}, []string{"y", "len"}, evalCfg{}},
				{[]string{"const string = \"s\"", "t := [string(3), string]"}, []string{"string"}, evalCfg{}},
				{[]string{"\"start\"", "param (a, b)", "a + b"}, []string{"a", "b"}, evalCfg{args: []ugo.Object{ugo.Int(10), ugo.Int(20)}}},
				{[]string{"1 + 1", "2", "param (a, b)", "[a, b]"}, []string{"a", "b"}, evalCfg{args: []ugo.Object{ugo.Int(10), ugo.Int(20), ugo.Int(30)}}},
				{[]string{"global counter", "counter = 41", "counter + 1", "counter += 1", "counter"}, []string{"counter"}, evalCfg{nilGlob: true}},
				{[]string{"global (g1, g2)", "g1 = [1]", "g2 = g1", "g1[0] = 7", "g2"}, []string{"g1", "g2"}, evalCfg{nilGlob: true}},
			} {
				es := &gen.EvalScript{Stmts: w.stmts, FailAt: -1, Probes: make([][]string, len(w.stmts))}
				es.Probes[len(w.stmts)-1] = w.probes
				for _, noOpt := range []bool{true, false} {
					batch := map[int]*batchRes{}
					cfg := w.cfg
					cfg.noOpt = noOpt
					for m := uint64(0); m < 1<<uint(len(w.stmts)-1); m++ {
						checkCut(c, cfg, es, m, batch)
					}
				}
			}
			// disabled builtins keep their meaning (unresolved) in every later fragment, also after a fragment
			// declared a variable named like ANOTHER builtin, with the optimizer on and off (oracle only)
			for _, st := range [][]string{
				{"x := 1", "int := 2", "len(\"abc\")"},
				{"string := func(v) { return \"s\" }", "y := len(\"ab\") + 1"},
				{"len(\"a\")", "z := 3", "len(\"abc\") * 2"},
				{"const k = 2", "char := 1", "w := k + len(\"abc\")"},
			} {
				es := &gen.EvalScript{Stmts: st, FailAt: -1, Probes: make([][]string, len(st))}
				batch := map[int]*batchRes{}
				for m := uint64(0); m < 1<<uint(len(st)-1); m++ {
					checkCut(c, evalCfg{noOpt: true, disabled: []string{"len", "cap"}}, es, m, batch)
				}
				batch = map[int]*batchRes{}
				for m := uint64(0); m < 1<<uint(len(st)-1); m++ {
					checkCut(c, evalCfg{disabled: []string{"len", "cap"}}, es, m, batch)
				}
			}
			{
				// open finding C10:optimizer-error-timing (found by the thorough tier, seed 7920)
				st := []string{"global log", "log = []", "log = append(log, 1)", "typeName := func(...a) { return \"shadow\" }",
					"(3 ^ len([]))", "(2 == (2 ^ 7))", "((\"k\" + \"ab\") + (\"ab\" + \"k\"))", "({a: 2})", "v1 := 3",
					"try {\n  throw v1\n} catch e {\n  v1 = [e.Message]\n} finally {\n  v1\n}", "const c2 = undefined",
					"v3 := [(7 / 0), [100, 100][1]][0]"}
				es := &gen.EvalScript{Stmts: st, FailAt: -1, Probes: make([][]string, len(st))}
				checkCut(c, evalCfg{limit: 1}, es, (1<<uint(len(st)-1))-1, map[int]*batchRes{})
			}
			for i := 0; i < nSmall; i++ {
				run(8, true)
			}
			for i := 0; i < nLarge; i++ {
				run(22, false)
			}
		},
	})
}
