package main

import (
	"fmt"
	"strings"

	"github.com/ozanh/ugo"

	"verifharness/codec"
	"verifharness/gen"
)

// stream `sem`: the implementation (real compiler + real VM, optimizer off and on) against
// the reference semantics Spec/Sem run by the Lean driver on the real parser's AST:
// returned value or error (Name, Message) and the final globals (the side-effect log).
// This is the independent oracle of C01 (with/without optimizer), C02 and C03.

func semOutcome(impl string) string {
	// keep `out=` and `globals=` fields only
	var out, g string
	for _, f := range strings.Split(impl, "\t") {
		if strings.HasPrefix(f, "out=") {
			out = f
		}
		if strings.HasPrefix(f, "globals=") {
			g = f
		}
	}
	return out + "\t" + g
}

func runPlain(bc *ugo.Bytecode, globals ugo.Object, args []ugo.Object) string {
	impl, _ := runTraced(nil, bc, false, globals, args, false)
	return semOutcome(impl)
}

func semLine(fuel int, ast string, globals ugo.Object, args []ugo.Object, src string) string {
	g := "-"
	if globals != nil {
		g = codec.Encode(globals, nil)
	}
	var as []string
	for _, a := range args {
		as = append(as, codec.Encode(a, nil))
	}
	return fmt.Sprintf("sem\t%d\t%s\t%s\t%s\t#%s", fuel, ast, g, strings.Join(as, ";"), codec.Hex([]byte(src)))
}

// semProgOpts returns generator options per flavour.
func semProgOpts(r *gen.Rand, flavour string) gen.ProgOpts {
	o := gen.DefaultProgOpts()
	o.Floats = false
	o.Decls = true
	switch flavour {
	case "try":
		o.TryHeavy = true
		o.MaxDepth = 4
	case "calls":
		o.CallHeavy = true
	}
	return o
}

func semRun(c *Ctx, flavour string, n int, prop string) {
	pool := argPool()
	for i := 0; i < n; i++ {
		r := c.R.Fork()
		var src, class string
		switch flavour {
		case "tryenum":
			src = gen.TryProgram(r)
		case "tailcall":
			src = gen.TailCallProgram(r)
		case "callbind":
			src = gen.CallBindProgram(i)
		case "closures":
			src = gen.ClosureChainProgram(r)
		case "destruct":
			src = gen.DestructProgram(i)
		case "freshvar":
			src = gen.FreshVarProgram(i)
			class = "freshvar"
		default:
			src = gen.Program(r, semProgOpts(r, flavour))
		}
		ast, err := parseToAst(src)
		if err != nil {
			c.Count("parse-error")
			continue
		}
		args := []ugo.Object{pool[r.Intn(len(pool))], pool[r.Intn(len(pool))]}
		bcNo, err := ugo.Compile([]byte(src), ugo.CompilerOptions{NoOptimize: true})
		if err != nil {
			c.Count("compile-error")
			continue
		}
		implNo := runPlain(bcNo, ugo.Map{}, args)
		cls := strings.SplitN(strings.TrimPrefix(implNo, "out="), " ", 2)[0]
		c.Count("outcome:" + cls)
		if strings.HasPrefix(implNo, "out=timeout") {
			c.Count("skipped:step-limit")
			continue
		}
		if strings.Contains(implNo, codec.Cyclic) {
			c.Count("skipped:cyclic-value")
			continue
		}
		if mapOrderSensitive(implNo) {
			// text derived from Go map iteration order (String() of a map with several keys)
			c.Count("skipped:map-order")
			continue
		}
		if strings.Contains(implNo, "StackOverflow") || (strings.HasPrefix(implNo, "out=panic") && strings.Contains(implNo, "with length 2048")) {
			// value-stack exhaustion is a VM limit the reference semantics does not have
			c.Count("skipped:vm-limit")
			continue
		}
		line := semLine(200000, ast, ugo.Map{}, args, src)
		if class == "freshvar" {
			// family name: declaring form, context, update, what the implementation answered — a known
			// finding pins all four, so the same form in another context or with another wrong answer is
			// a new violation
			d, cx, after := gen.FreshVarParts(i)
			class = fmt.Sprintf("freshvar:%s:%s:a%d:i%06x", d, cx, after, hashStr(implNo)&0xffffff)
		}
		c.Add(Case{Line: line, Impl: implNo, Key: fmt.Sprintf("%s/%x", cls, hashStr(implNo)%4093), Class: class, Prop: prop})
		// C01: the optimized program must behave like the unoptimized one (same oracle, other compile path)
		for _, lim := range []int{0, 1, 3} {
			bcOpt, err := ugo.Compile([]byte(src), ugo.CompilerOptions{OptimizerLimit: lim})
			if err != nil {
				// the optimizer may only refuse with the runtime error of a constant sub-expression
				if !strings.Contains(err.Error(), "Optimizer Error") {
					c.Violation(PropViolation{"C01", "optimizer on: compile fails with a non-optimizer error: " + semFirstLine(err.Error()), src, "C01:opt-compile-error"})
				}
				c.Count("opt-refused")
				continue
			}
			implOpt := runPlain(bcOpt, ugo.Map{}, args)
			if strings.HasPrefix(implOpt, "out=timeout") {
				// the step bound counts VM instructions; an optimized program executes fewer, so
				// only the unoptimized run decides whether the case is within the bound
				c.Count("skipped:step-limit-opt")
				continue
			}
			if implOpt != implNo {
				c.Violation(PropViolation{"C01", fmt.Sprintf("optimized (limit %d) and unoptimized runs differ: %s  vs  %s", lim, implOpt, implNo), src + "\nargs: " + strings.Join(encodeAll(args), ";"), "C01:opt-differs"})
			}
		}
	}
}

// mapOrderSensitive reports outcomes whose text embeds the String() of a map with
// several keys (its order is Go's map iteration order).
func mapOrderSensitive(outcome string) bool {
	for _, f := range strings.Fields(strings.ReplaceAll(outcome, "\t", " ")) {
		for _, h := range strings.FieldsFunc(f, func(r rune) bool { return !strings.ContainsRune("0123456789abcdef", r) }) {
			if len(h) < 8 || len(h)%2 != 0 {
				continue
			}
			b, err := semHexDecode(h)
			if err != nil {
				continue
			}
			t := string(b)
			if strings.Contains(t, "{") && strings.Count(t, "\": ") >= 2 {
				return true
			}
		}
	}
	return false
}

func semHexDecode(h string) ([]byte, error) {
	b := make([]byte, len(h)/2)
	for i := 0; i < len(b); i++ {
		var x byte
		for j := 0; j < 2; j++ {
			c := h[2*i+j]
			switch {
			case c >= '0' && c <= '9':
				x = x<<4 | (c - '0')
			case c >= 'a' && c <= 'f':
				x = x<<4 | (c - 'a' + 10)
			default:
				return nil, fmt.Errorf("bad hex")
			}
		}
		b[i] = x
	}
	return b, nil
}

func encodeAll(xs []ugo.Object) []string {
	var r []string
	for _, x := range xs {
		r = append(r, codec.Encode(x, nil))
	}
	return r
}

func semFirstLine(s string) string { return strings.SplitN(s, "\n", 2)[0] }

func init() {
	register(&Stream{
		Name: "sem",
		Skip: vmSkip,
		Replay: func(line string) (string, error) {
			// sem <fuel> <ast> <globals> <args;...> #<hex of the source>
			f := strings.Split(line, "\t")
			if len(f) < 6 || !strings.HasPrefix(f[len(f)-1], "#") {
				return "", fmt.Errorf("bad sem line")
			}
			src, err := semHexDecode(strings.TrimPrefix(f[len(f)-1], "#"))
			if err != nil {
				return "", err
			}
			var args []ugo.Object
			if f[4] != "" {
				for _, a := range strings.Split(f[4], ";") {
					o, err := codec.Decode(a, func(tn string, id int) ugo.Object { return ugo.Undefined })
					if err != nil {
						return "", err
					}
					args = append(args, o)
				}
			}
			bc, err := ugo.Compile(src, ugo.CompilerOptions{NoOptimize: true})
			if err != nil {
				return "", err
			}
			return runPlain(bc, ugo.Map{}, args), nil
		},
		Run: func(c *Ctx) {
			c.Rule("random scripts (gen.Program; flavours: general, try-heavy, call-heavy, try enumeration, self tail calls, the complete call-binding enumeration (params 0..3 x variadic x explicit args 0..4 x spread none/0..4 x 5 call positions), chains of sibling closures, the destructuring enumeration over slices of a live array, the fresh-variable enumeration (17 declaring forms incl. the catch identifier x 8 re-execution contexts x 3 updates after capture)) run by the implementation (compiler+VM, optimizer off) vs the reference semantics Spec/Sem on the same AST: outcome and final globals (side-effect log); also optimizer on at limits {default,1,3} vs off (C01); distinct = distinct (outcome class, outcome hash)")
			tryRepeatOracle(c)
			valueSemOracle(c)
			reusedTableGlobalsOracle(c)
			constAssignOracle(c)
			semRun(c, "general", 700*c.Scale, "C02")
			semRun(c, "try", 500*c.Scale, "C03")
			semRun(c, "calls", 300*c.Scale, "C02")
			semRun(c, "tryenum", 1500*c.Scale, "C03")
			semRun(c, "tailcall", 300*c.Scale, "C02")
			semRun(c, "callbind", gen.NumCallBindPrograms, "C02")
			semRun(c, "closures", 200*c.Scale, "C02")
			semRun(c, "destruct", gen.NumDestructPrograms, "C02")
			semRun(c, "freshvar", gen.NumFreshVarPrograms, "C02")
		},
	})
}
