package main

import (
	"context"
	"fmt"

	"github.com/ozanh/ugo"

	"verifharness/gen"
)

// Sessions in which a fragment that imports a NEW module fails to compile: the modules of the failed
// fragment are forgotten (their constants were discarded with the bytecode), so a later fragment that
// imports them compiles them again, modules imported in between get their own slots, nothing panics, and
// the session continues as if the failed fragment had never been entered (except for the names it declared:
// the symbol table keeps them, so the later fragments use other names).  Reference: the same session
// without the failed fragment.  Reported for the property of the calling stream (C10 session equivalence,
// C12 one object per module, and C05 through `also`: Compile must not panic).
func evalFailedImportOracle(c *Ctx, prop string) {
	run := func(frags []string, noOpt bool) (out []string) {
		mm := ugo.NewModuleMap()
		for n, src := range gen.EvalSourceModules() {
			mm.AddSourceModule(n, []byte(src))
		}
		mm.AddBuiltinModule("bm", evalBuiltinModule())
		ev := ugo.NewEval(ugo.CompilerOptions{ModuleMap: mm, NoOptimize: noOpt}, ugo.Map{})
		for _, f := range frags {
			func() {
				defer func() {
					if r := recover(); r != nil {
						out = append(out, fmt.Sprintf("PANIC %v", r))
					}
				}()
				ret, _, err := ev.Run(context.Background(), []byte(f))
				if err != nil {
					k, t := evalErrText(err)
					out = append(out, "error "+k+" "+t)
					return
				}
				out = append(out, "ok "+fmt.Sprint(ret))
			}()
		}
		return out
	}
	type sess struct {
		name   string
		before []string
		failed string
		after  []string
	}
	for _, s := range []sess{
		{"source-module", []string{`a := import("src1")`, `a.inc()`}, "b := import(\"src2\")\nx := 1\nx := 2", []string{`c := import("bm")`, `d := import("src2")`, `d.bump()`, `[a.get(), c.n, d.base, import("src1").get()]`}},
		{"builtin-module", []string{`a := import("src1")`}, "b := import(\"bm\")\nreturn b +", []string{`c := import("src2")`, `d := import("bm")`, `[d.n, c.base, a.get()]`}},
		{"two-new-modules", []string{`k := 1`}, "p := import(\"src1\")\nq := import(\"src2\")\nundefinedName", []string{`q2 := import("src2")`, `p2 := import("src1")`, `p2.inc()`, `[p2.get(), q2.base]`}},
		{"failed-twice", []string{`a := import("src2")`}, "b := import(\"src1\")\nb := 3", []string{"b := import(\"src1\")\nb := 3", `c := import("src1")`, `c.inc()`, `[c.get(), a.base]`}},
		{"import-in-function", []string{`a := import("bm")`}, "f := func() { return import(\"src1\") }\nf := 2", []string{`g := func() { return import("src1") }`, `g().inc()`, `[g().get(), a.n]`}},
	} {
		for _, noOpt := range []bool{true, false} {
			c.dist["oracle:session-failed-import"]++
			with := run(append(append(append([]string{}, s.before...), s.failed), s.after...), noOpt)
			without := run(append(append([]string{}, s.before...), s.after...), noOpt)
			// drop the answer of the failed fragment itself; it must be an error, not a panic
			fi := len(s.before)
			if fi < len(with) {
				if len(with[fi]) >= 5 && with[fi][:5] == "PANIC" {
					c.Violation(PropViolation{prop, fmt.Sprintf("session %s: the fragment that must fail to compile panics: %s", s.name, with[fi]), s.failed, prop + ":session-failed-import:" + s.name})
					continue
				}
				with = append(append([]string{}, with[:fi]...), with[fi+1:]...)
			}
			if fmt.Sprint(with) != fmt.Sprint(without) {
				c.Violation(PropViolation{prop, fmt.Sprintf("session %s (NoOptimize=%v): after a fragment failed to compile the session answers %v, without that fragment %v", s.name, noOpt, with, without),
					s.failed, prop + ":session-failed-import:" + s.name})
			}
		}
	}
}
