package main

import (
	"fmt"

	"github.com/ozanh/ugo"
)

// C02, value semantics of expressions: evaluating an operator, a slice expression, a call or a
// destructuring assignment yields a NEW value and leaves its operands - and every other variable that
// shares storage with them (a slice of a longer array or byte string with spare capacity) - unchanged.
// Fixed programs with hand-written expected results (what the documented rules give); oracle only.

type valueSemProg struct{ name, src, want string }

var valueSemProgs = []valueSemProg{
	{"bytes-plus-string-on-slice", `o := bytes("abcd"); x := o[:2]; y := x + "Z"; z := x + "Q"; return [string(o), string(x), string(y), string(z)]`, `["abcd", "ab", "abZ", "abQ"]`},
	{"bytes-plus-bytes-on-slice", `o := bytes("abcd"); x := o[:2]; y := x + bytes("Z"); z := x + bytes("QR"); return [string(o), string(x), string(y), string(z)]`, `["abcd", "ab", "abZ", "abQR"]`},
	{"bytes-compound-plus-on-slice", `o := bytes("abcd"); x := o[:2]; x += "Z"; return [string(o), string(x)]`, `["abcd", "abZ"]`},
	{"bytes-plus-twice", `a := bytes("ab") + "c"; b := a + "d"; c := a + "e"; return [string(a), string(b), string(c)]`, `["abc", "abcd", "abce"]`},
	{"array-plus-on-slice", `o := [1, 2, 3, 4]; x := o[:2]; y := x + [9]; z := x + [8]; return [o, x, y, z]`, `[[1, 2, 3, 4], [1, 2], [1, 2, 9], [1, 2, 8]]`},
	{"array-compound-plus-on-slice", `o := [1, 2, 3, 4]; x := o[:2]; x += [9]; return [o, x]`, `[[1, 2, 3, 4], [1, 2, 9]]`},
	{"array-plus-scalar-on-slice", `o := [1, 2, 3, 4]; x := o[:2]; y := x + 9; return [o, x, y]`, `[[1, 2, 3, 4], [1, 2], [1, 2, 9]]`},
	{"string-plus", `s := "ab"; t := s + "c"; u := s + 1; return [s, t, u]`, `["ab", "abc", "ab1"]`},
	{"destructure-short-slice", `o := [1, 2, 3, 4]; x := o[:1]; a, b, c := x; return [o, x, a, b, c]`, `[[1, 2, 3, 4], [1], 1, undefined, undefined]`},
	{"variadic-rest-fresh", `f := func(a, ...r) { return r }; p := f(1, 2, 3); q := f(1, 2, 3); p[0] = 9; return [p, q]`, `[[9, 3], [2, 3]]`},
	{"map-literal-fresh", `f := func() { return {k: [1]} }; p := f(); q := f(); p.k[0] = 9; return [p, q]`, `[{"k": [9]}, {"k": [1]}]`},
	{"array-literal-fresh", `f := func() { return [1, [2]] }; p := f(); q := f(); p[1][0] = 9; p[0] = 8; return [p, q]`, `[[8, [9]], [1, [2]]]`},
	// constants: `const y = x` takes the x that is in scope at that place (a parameter, local or loop
	// variable shadows an outer literal constant), and iota
	{"const-alias-param-shadows", `const x = 42; f := func(x) { const y = x; return y }; return [f(1), x]`, `[1, 42]`},
	{"const-alias-local-shadows", `const x = 10; g := func() { x := 6; const y = x; return y }; return [g(), x]`, `[6, 10]`},
	{"const-alias-loop-shadows", `const x = "outer"; out := []; for x := 0; x < 3; x++ { const y = x; out = append(out, y) }; return out`, `[0, 1, 2]`},
	{"const-alias-forin-shadows", `const x = "outer"; out := []; for _, x in [7, 8] { const y = x; out = append(out, y) }; return out`, `[7, 8]`},
	{"const-alias-block", `const x = 1; out := []; if true { x := 2; const y = x; out = append(out, y) }; const z = x; return [out, z]`, `[[2], 1]`},
	{"const-alias-chain", `const a = 3; const b = a; f := func() { const c = b; return c + a }; return f()`, `6`},
	{"const-iota-group", `const (a = iota; b; c = iota * 10; d); return [a, b, c, d]`, `[0, 1, 20, 30]`},
	// calls after an exception unwound frames that were re-used by discarded self tail calls
	{"call-after-unwound-discarded-tail", "var f\nf = func(n) {\n if n == 0 { throw \"x\" }\n f(n - 1)\n}\ng := func() { return 42 }\nr := \"none\"\ntry { f(2) } catch e { r = \"done\" }\nreturn [r, g(), g()]", `["done", 42, 42]`},
	{"call-after-unwound-discarded-tail-nested", "var f\nf = func(n) {\n if n == 0 { throw \"x\" }\n f(n - 1)\n}\nh := func() { try { f(3) } catch e { return \"c\" } }\ng := func(v) { return v * 2 }\nreturn [h(), g(21), h(), g(4)]", `["c", 42, "c", 8]`},
	// the catch identifier takes the local slot of a variable whose block has ended; a closure that captured
	// that variable keeps its value (open finding: the catch block stores with SETLOCAL, which writes through
	// the pointer the closure left in the slot)
	{"catch-reuses-captured-slot", `f := undefined; if true { a := 1; f = func() { return a } }; try { throw "x" } catch e { }; return string(f())`, `1`},
	{"catch-reuses-captured-slot-in-function", `g := func() { f := undefined; if true { a := [7]; f = func() { return a } }; try { throw "x" } catch e { e = 0 }; return f() }; return g()`, `[7]`},
	// an array's elements end at its length, whatever capacity append left behind it
	{"slice-beyond-len-with-spare-capacity", `a := append([1, 2], 3); r := "no error"; try { b := a[2:len(a) + 1]; r = "sliced " + len(b) } catch e { r = e.Name }; return [r, len(a)]`, `["IndexOutOfBoundsError", 3]`},
	{"index-beyond-len-with-spare-capacity", `a := append([1, 2], 3); b := a[:2]; r := "no error"; try { r = b[2] } catch e { r = e.Name }; r2 := "no error"; try { r2 = b[:3] } catch e { r2 = e.Name }; return [r, len(b), r2]`, `["IndexOutOfBoundsError", 2, "IndexOutOfBoundsError"]`},
	{"slice-shares-by-reference", `o := [1, 2, 3]; x := o[1:]; x[0] = 9; return [o, x]`, `[[1, 9, 3], [9, 3]]`},
}

func valueSemOracle(c *Ctx) {
	for _, p := range valueSemProgs {
		for _, noOpt := range []bool{true, false} {
			c.dist["oracle:value-semantics"]++
			bc, err := ugo.Compile([]byte(p.src), ugo.CompilerOptions{NoOptimize: noOpt})
			if err != nil {
				c.Violation(PropViolation{"C02", "value-semantics program does not compile: " + err.Error(), p.src, "C02:valuesem-compile:" + p.name})
				continue
			}
			var got string
			func() {
				defer func() {
					if r := recover(); r != nil {
						got = fmt.Sprintf("escaped panic: %v", r)
					}
				}()
				ret, err := ugo.NewVM(bc).SetRecover(true).Run(nil)
				if err != nil {
					got = "error: " + semFirstLine(err.Error())
					return
				}
				got = ret.String()
			}()
			if got != p.want {
				c.Violation(PropViolation{"C02", fmt.Sprintf("`%s` gives %s, want %s: an operator or call changed a value it only reads", p.name, got, p.want), p.src, "C02:value-semantics:" + p.name})
			}
		}
	}
}

// constants cannot be assigned, from any nesting depth of function literals and blocks, whatever their
// initialiser: every such script is a compile error (C02: "constants and iota").
var constAssignProgs = []string{
	`const k = 1; k = 2; return k`,
	`const k = [10][0]; k = 2; return k`,
	`const k = 1; f := func() { k = 2 }; f(); return k`,
	`const k = [10][0]; f := func() { k = 99 }; f(); return k`,
	`const k = [10][0]; f := func() { return func() { k = 99 } }; f()(); return k`,
	`const k = [10][0]; f := func() { return func() { return func() { k += 1 } } }; f()()(); return k`,
	`const k = "s" + "t"; f := func() { return func() { k++ } }; f()(); return k`,
	`const (a = iota; b); g := func() { if true { for i := 0; i < 1; i++ { f := func() { return func() { b = 5 } }; f()() } } }; g(); return b`,
	`const k = [1][0]; f := func() { return func() { k, x := [1, 2]; return x } }; return [f()(), k]`,
}

func constAssignOracle(c *Ctx) {
	for i, src := range constAssignProgs {
		for _, noOpt := range []bool{true, false} {
			c.dist["oracle:const-assign"]++
			bc, err := ugo.Compile([]byte(src), ugo.CompilerOptions{NoOptimize: noOpt})
			if err != nil {
				continue
			}
			got := "?"
			func() {
				defer func() { _ = recover() }()
				ret, rerr := ugo.NewVM(bc).SetRecover(true).Run(nil)
				got = fmt.Sprint(ret, rerr)
			}()
			if i == len(constAssignProgs)-1 {
				// `k, x := …` inside a function literal DECLARES new variables k and x there: legal
				if got != "[2, 1] <nil>" {
					c.Violation(PropViolation{"C02", "a destructuring define inside a function literal must declare new variables and leave the outer constant alone: got " + got, src, "C02:const-assign:shadowing-define"})
				}
				continue
			}
			c.Violation(PropViolation{"C02", fmt.Sprintf("a script that assigns to a constant compiles (NoOptimize=%v) and gives %s", noOpt, got), src, fmt.Sprintf("C02:const-assign:compiles:%d", i)})
		}
	}
}
