package main

// stream `enc` (C04): encoding bytecode and decoding it again preserves behaviour.
//  a. constants: every constant kind through the encoder's exported wrapper types,
//     decoded again with DecodeObject;
//  b. programs: generated uGO scripts (with stdlib / source / custom builtin
//     modules) compiled, encoded, decoded, re-encoded, decoded again and run.
// Model cases: `enc obj <hexE> <claimed>` and `enc bc <mods> <hexE> <claimed>`
// (notes/enc-protocol.md).

import (
	"bytes"
	"encoding"
	"encoding/hex"
	"errors"
	"fmt"
	"os"
	"reflect"
	"runtime/debug"
	"strings"
	"time"

	"github.com/ozanh/ugo"
	"github.com/ozanh/ugo/encoder"

	"verifharness/gen"
)

// topMarshaler returns the exported wrapper of the encoder for o (nil: none).
func topMarshaler(o ugo.Object) encoding.BinaryMarshaler {
	switch v := o.(type) {
	case *ugo.UndefinedType:
		return (*encoder.UndefinedType)(v)
	case ugo.Bool:
		return encoder.Bool(v)
	case ugo.Int:
		return encoder.Int(v)
	case ugo.Uint:
		return encoder.Uint(v)
	case ugo.Char:
		return encoder.Char(v)
	case ugo.Float:
		return encoder.Float(v)
	case ugo.String:
		return encoder.String(v)
	case ugo.Bytes:
		return encoder.Bytes(v)
	case ugo.Array:
		return encoder.Array(v)
	case ugo.Map:
		return encoder.Map(v)
	case *ugo.SyncMap:
		return (*encoder.SyncMap)(v)
	case *ugo.CompiledFunction:
		return (*encoder.CompiledFunction)(v)
	case *ugo.Function:
		return (*encoder.Function)(v)
	case *ugo.BuiltinFunction:
		return (*encoder.BuiltinFunction)(v)
	}
	return nil
}

func encSafeMarshal(o ugo.Object) (b []byte, err error) {
	defer func() {
		if r := recover(); r != nil {
			err = fmt.Errorf("panic: %v", r)
		}
	}()
	m := topMarshaler(o)
	if m == nil {
		return nil, fmt.Errorf("no wrapper for %T", o)
	}
	return m.MarshalBinary()
}

type decRes struct {
	obj   ugo.Object
	bc    *ugo.Bytecode
	rest  int
	err   error
	pan   string // panic message ("" = none)
	stack string
}

func (d *decRes) class() string {
	switch {
	case d.pan != "":
		return "panic"
	case d.err != nil:
		return "err"
	}
	return "ok"
}

func rawDecodeObject(b []byte) (d decRes) {
	defer func() {
		if r := recover(); r != nil {
			d.pan = fmt.Sprint(r)
			d.stack = string(debug.Stack())
		}
	}()
	rd := bytes.NewReader(b)
	d.obj, d.err = encoder.DecodeObject(rd)
	d.rest = rd.Len()
	return
}

func rawDecodeBytecode(b []byte, mm *ugo.ModuleMap) (d decRes) {
	defer func() {
		if r := recover(); r != nil {
			d.pan = fmt.Sprint(r)
			d.stack = string(debug.Stack())
		}
	}()
	d.bc, d.err = encoder.DecodeBytecodeFrom(bytes.NewReader(b), mm)
	return
}

func safeEncodeBytecode(bc *ugo.Bytecode) (b []byte, err error) {
	defer func() {
		if r := recover(); r != nil {
			err = fmt.Errorf("panic: %v", r)
		}
	}()
	var buf bytes.Buffer
	err = encoder.EncodeBytecodeTo(bc, &buf)
	return buf.Bytes(), err
}

// implObj / implBC: the implementation's canonical answer for a decode.
func implObj(d *decRes, reenc string) string {
	switch d.class() {
	case "panic":
		return "panic"
	case "err":
		return "err"
	}
	s := fmt.Sprintf("ok %s rest=%d", objText(d.obj), d.rest)
	if reenc != "" {
		s += " reenc=" + reenc
	}
	return s
}

func implBC(d *decRes, reenc string) string {
	switch d.class() {
	case "panic":
		return "panic"
	case "err":
		return "err"
	}
	s := "ok " + bcText(d.bc)
	if reenc != "" {
		s += " reenc=" + reenc
	}
	return s
}

// normText identifies nil and empty containers (the property's equivalence).
var normRepl = strings.NewReplacer("i=- ", "i= ", "m=-]", "m=()]", "consts=- ", "consts=a() ", "S-", "S()")

func normText(s string) string { return normRepl.Replace(s) }

// opaqueLeaves lists, in canonical order, the objects rendered as `o…`.
func opaqueLeaves(o ugo.Object, out []ugo.Object) []ugo.Object {
	switch v := o.(type) {
	case nil, *ugo.UndefinedType, ugo.Bool, ugo.Int, ugo.Uint, ugo.Char, ugo.Float, ugo.String, ugo.Bytes,
		*ugo.CompiledFunction, *ugo.Function, *ugo.BuiltinFunction:
		return out
	case ugo.Array:
		for _, e := range v {
			out = opaqueLeaves(e, out)
		}
		return out
	case ugo.Map:
		for _, k := range sortedKeys(v) {
			out = opaqueLeaves(v[k], out)
		}
		return out
	case *ugo.SyncMap:
		if v == nil {
			return out
		}
		for _, k := range sortedKeys(v.Value) {
			out = opaqueLeaves(v.Value[k], out)
		}
		return out
	}
	return append(out, o)
}

func safeString(o ugo.Object) (s string) {
	defer func() {
		if r := recover(); r != nil {
			s = fmt.Sprintf("<String() panics: %v>", r)
		}
	}()
	return o.String()
}

func opaqueEqual(a, b ugo.Object) bool {
	if reflect.TypeOf(a) != reflect.TypeOf(b) {
		return false
	}
	if reflect.DeepEqual(a, b) {
		return true
	}
	if _, ok := a.(*ugo.ObjectPtr); ok {
		return false // String() shows an address
	}
	return safeString(a) == safeString(b)
}

// sameObject: equal canonical text (up to nil/empty containers) and equal opaque leaves.
func sameObject(a, b ugo.Object) (bool, string) {
	ta, tb := normText(objText(a)), normText(objText(b))
	if ta != tb {
		return false, "canonical text differs: " + encClip(tb, 300) + " vs original " + encClip(ta, 300)
	}
	la, lb := opaqueLeaves(a, nil), opaqueLeaves(b, nil)
	if len(la) != len(lb) {
		return false, "opaque leaf count differs"
	}
	for i := range la {
		if !opaqueEqual(la[i], lb[i]) {
			return false, fmt.Sprintf("gob object differs: %s vs original %s", safeString(lb[i]), safeString(la[i]))
		}
	}
	return true, ""
}

func encClip(s string, n int) string {
	if len(s) > n {
		return s[:n] + "…"
	}
	return s
}

func encConstant(c *Ctx, v ugo.Object) {
	tn := safeTypeName(v)
	text := objText(v)
	E, err := encSafeMarshal(v)
	if err != nil {
		c.Violation(PropViolation{"C04", "encoding fails: " + err.Error(), encClip(text, 2000), "C04:const-encode-error:" + tn})
		return
	}
	hexE := hx(E)
	in := func() string { return encClip(hexE, 4000) + " <- " + encClip(text, 2000) }
	d := rawDecodeObject(E)
	switch d.class() {
	case "panic":
		c.Violation(PropViolation{"C04", "decoding the encoder's output panics: " + d.pan, in(), "C04:const-roundtrip:" + tn})
	case "err":
		c.Violation(PropViolation{"C04", "decoding the encoder's output fails: " + d.err.Error(), in(), "C04:const-roundtrip:" + tn})
	default:
		if d.rest != 0 {
			c.Violation(PropViolation{"C04", fmt.Sprintf("%d unread bytes after decoding", d.rest), in(), "C04:const-roundtrip:" + tn})
		}
		if ok, why := sameObject(v, d.obj); !ok {
			c.Violation(PropViolation{"C04", "decoded constant differs from the original: " + why, in(), "C04:const-roundtrip:" + tn})
		} else if E2, err := encSafeMarshal(d.obj); err != nil {
			c.Violation(PropViolation{"C04", "re-encoding the decoded constant fails: " + err.Error(), in(), "C04:const-reencode:" + tn})
		} else {
			d2 := rawDecodeObject(E2)
			if d2.class() != "ok" || d2.rest != 0 {
				c.Violation(PropViolation{"C04", "decoding the re-encoded constant fails (" + d2.class() + ")", in(), "C04:const-reencode:" + tn})
			} else if ok, why := sameObject(d.obj, d2.obj); !ok {
				c.Violation(PropViolation{"C04", "decode-twice differs: " + why, in(), "C04:const-reencode:" + tn})
			}
		}
	}
	claimed := implObj(&d, hexE)
	if gen.ContainsGob(v) {
		c.Count("gob-echo")
	}
	c.Count("const:" + tn)
	c.Add(Case{Line: "enc\tobj\t" + hexE + "\t" + claimed, Impl: claimed, Key: "obj/" + tn + "/" + d.class()})
}

// ---- programs ----

type outcome struct {
	kind  string // value | error | panic | timeout
	val   string
	errNM string
	trace string
}

func leafDesc(o ugo.Object) string {
	switch v := o.(type) {
	case *ugo.Error:
		if v == nil {
			return "error:nil"
		}
		return "error:" + v.Name + "|" + v.Message
	case *ugo.RuntimeError:
		if v == nil || v.Err == nil {
			return "rterror:nil"
		}
		return "rterror:" + v.Err.Name + "|" + v.Err.Message
	}
	return safeTypeName(o)
}

func copyObj(o ugo.Object) ugo.Object {
	if o == nil {
		return nil
	}
	if cp, ok := o.(ugo.Copier); ok {
		return cp.Copy()
	}
	return o
}

func runProgram(bc *ugo.Bytecode, in gen.Input) (out outcome) {
	vm := ugo.NewVM(bc)
	timer := time.AfterFunc(10*time.Second, vm.Abort)
	defer timer.Stop()
	defer func() {
		if r := recover(); r != nil {
			out = outcome{kind: "panic", val: fmt.Sprint(r)}
		}
	}()
	args := make([]ugo.Object, len(in.Args))
	for i, a := range in.Args {
		args[i] = copyObj(a)
	}
	ret, err := vm.Run(copyObj(in.Globals), args...)
	if err != nil {
		if errors.Is(err, ugo.ErrVMAborted) {
			return outcome{kind: "timeout"}
		}
		out.kind = "error"
		var re *ugo.RuntimeError
		var ue *ugo.Error
		switch {
		case errors.As(err, &re) && re.Err != nil:
			out.errNM = re.Err.Name + "|" + re.Err.Message
		case errors.As(err, &ue):
			out.errNM = ue.Name + "|" + ue.Message
		default:
			out.errNM = "?|" + err.Error()
		}
		out.trace = fmt.Sprintf("%+v", err)
		return out
	}
	out.kind = "value"
	var sb strings.Builder
	sb.WriteString(objText(ret))
	for _, l := range opaqueLeaves(ret, nil) {
		sb.WriteString(" / ")
		sb.WriteString(leafDesc(l))
	}
	out.val = sb.String()
	return out
}

func safeCompile(src string, opts ugo.CompilerOptions) (bc *ugo.Bytecode, err error) {
	defer func() {
		if r := recover(); r != nil {
			err = fmt.Errorf("compiler panic: %v", r)
		}
	}()
	return ugo.Compile([]byte(src), opts)
}

func hasString(xs []string, s string) bool {
	for _, x := range xs {
		if x == s {
			return true
		}
	}
	return false
}

// encProgram runs the C04 oracles on one compiled program; it returns the model case.
func encProgram(c *Ctx, p *gen.EncProgram, bc *ugo.Bytecode, mm *ugo.ModuleMap, mods string, tag string) *Case {
	srcIn := func() string { return tag + " mods=" + strings.Join(p.Builtins, ",") + " src=" + encClip(p.Src, 3000) }
	E, err := safeEncodeBytecode(bc)
	if err != nil {
		c.Violation(PropViolation{"C04", "encoding fails: " + err.Error(), srcIn(), "C04:encode-error"})
		return nil
	}
	hexE := hx(E)
	d := rawDecodeBytecode(E, mm)
	claimed := implBC(&d, hexE)
	cs := &Case{Line: "enc\tbc\t" + mods + "\t" + hexE + "\t" + claimed, Impl: claimed, Key: "bc/" + d.class() + "/" + strings.Join(p.Feat, "+")}
	if d.class() != "ok" {
		what := "decoding the encoder's output fails: "
		if d.pan != "" {
			what += "panic: " + d.pan
		} else {
			what += d.err.Error()
		}
		c.Violation(PropViolation{"C04", what, srcIn() + " E=" + encClip(hexE, 4000), "C04:decode-error"})
		return cs
	}
	bc2 := d.bc
	t1, t2 := bcText(bc), bcText(bc2)
	if normText(t1) != normText(t2) {
		c.Violation(PropViolation{"C04", "decoded bytecode differs from the original: " + encFirstDiff(normText(t1), normText(t2)), srcIn(), "C04:structure"})
	}
	// decode twice: decoding E again, and decoding the re-encoding of bc2
	var bc3 *ugo.Bytecode
	if d1 := rawDecodeBytecode(E, mm); d1.class() != "ok" || bcText(d1.bc) != t2 {
		c.Violation(PropViolation{"C04", "decoding the same bytes twice gives different programs", srcIn(), "C04:decode-twice"})
	}
	E2, err := safeEncodeBytecode(bc2)
	if err != nil {
		c.Violation(PropViolation{"C04", "re-encoding the decoded bytecode fails: " + err.Error(), srcIn(), "C04:decode-twice"})
	} else {
		d3 := rawDecodeBytecode(E2, mm)
		if d3.class() != "ok" {
			c.Violation(PropViolation{"C04", "decoding the re-encoded bytecode fails (" + d3.class() + ")", srcIn(), "C04:decode-twice"})
		} else {
			bc3 = d3.bc
			if t3 := bcText(bc3); normText(t3) != normText(t2) {
				c.Violation(PropViolation{"C04", "decode(encode(decode(E))) differs from decode(E): " + encFirstDiff(normText(t2), normText(t3)), srcIn(), "C04:decode-twice"})
			}
		}
	}
	// behaviour
	for i, in := range p.Inputs {
		o1 := runProgram(bc, in)
		c.Count("run:" + o1.kind)
		if o1.kind == "timeout" {
			continue
		}
		for j, b := range []*ugo.Bytecode{bc2, bc3} {
			if b == nil {
				continue
			}
			o := runProgram(b, in)
			if o.kind == "timeout" {
				continue
			}
			which := []string{"decoded", "twice-decoded"}[j]
			inp := fmt.Sprintf("%s input#%d args=%s globals=%s", srcIn(), i, objText(ugo.Array(in.Args)), objText(in.Globals))
			switch {
			case o.kind != o1.kind || o.val != o1.val:
				c.Violation(PropViolation{"C04", fmt.Sprintf("%s program returns %s %s, original %s %s", which, o.kind, encClip(o.val+o.errNM, 300), o1.kind, encClip(o1.val+o1.errNM, 300)), inp, "C04:run-differs:value"})
			case o.errNM != o1.errNM:
				c.Violation(PropViolation{"C04", fmt.Sprintf("%s program fails with %s, original with %s", which, o.errNM, o1.errNM), inp, "C04:run-differs:error"})
			case o.trace != o1.trace:
				c.Violation(PropViolation{"C04", fmt.Sprintf("%s program's stack trace %q, original %q", which, o.trace, o1.trace), inp, "C04:run-differs:trace"})
			}
		}
	}
	return cs
}

func encFirstDiff(a, b string) string {
	i := 0
	for i < len(a) && i < len(b) && a[i] == b[i] {
		i++
	}
	lo := i - 40
	if lo < 0 {
		lo = 0
	}
	return fmt.Sprintf("at offset %d: original …%s vs …%s", i, encClip(a[lo:], 120), encClip(b[lo:], 120))
}

func runEnc(c *Ctx) {
	encModuleNameOracle(c)
	c.Rule("constants: fixed pool (every kind, extreme numbers, NaN payloads, -0, empty/non-UTF-8/70000-byte strings, nested containers, compiled functions with every zero/non-zero field combination, functions, builtin functions, sync maps, gob-fallback objects nested) plus 300*Scale random nested values, each encoded through the exported wrapper and decoded again; programs: 150*Scale generated uGO scripts (literals of every kind, closures, variadics, loops, try/catch/finally/throw, runtime errors inside functions and modules, stdlib / source / custom builtin modules), compiled with and without the optimizer, encoded, decoded, re-encoded, decoded again and run on 3 inputs each; a case is non-trivial when it decodes; distinct = distinct (kind, type or feature set, outcome class)")
	// gen.NewRand(seed) states of neighbouring seeds are one step apart on the same
	// splitmix sequence; forking first moves every seed to an unrelated offset.
	R := c.R.Fork()
	// a. constants
	pool := gen.EncConstPool()
	nr := 300 * c.Scale
	for i := 0; i < nr; i++ {
		pool = append(pool, gen.RandEncValue(R, 3, i%4 == 0))
	}
	for _, v := range pool {
		if topMarshaler(v) == nil {
			continue
		}
		encConstant(c, v)
	}
	// b. programs
	progs := gen.FixedPrograms()
	np := 150 * c.Scale
	for i := 0; i < np; i++ {
		progs = append(progs, gen.GenProgram(R.Fork(), false))
	}
	// model lines: all in the quick tier, an evenly spread sample of about 3000 otherwise
	stride := 1
	if 2*len(progs) > 3000 {
		stride = (2*len(progs) + 2999) / 3000
	}
	nbc := 0
	for pi, p := range progs {
		mm, attrs := p.ModuleMap()
		mods := modsText(attrs)
		compiled := false
		for _, noopt := range []bool{false, true} {
			bc, err := safeCompile(p.Src, ugo.CompilerOptions{ModuleMap: mm, NoOptimize: noopt})
			if err != nil {
				c.Count("compile-error")
				if os.Getenv("ENC_DEBUG") != "" {
					fmt.Fprintf(os.Stderr, "COMPILE ERROR %v\n%s\n-----\n", err, p.Src)
				}
				if strings.HasPrefix(err.Error(), "compiler panic") || pi < len(gen.FixedPrograms()) {
					c.Count("compile-error:" + encClip(err.Error(), 80))
				}
				continue
			}
			compiled = true
			tag := "opt"
			if noopt {
				tag = "noopt"
			}
			cs := encProgram(c, p, bc, mm, mods, tag)
			c.Count("prog:" + tag)
			if cs != nil {
				if nbc%stride == 0 || pi < len(gen.FixedPrograms()) {
					if hasString(p.Builtins, "custg") {
						c.Count("gob-echo")
					} else {
						c.Count("bc-model-checked")
					}
					c.Add(*cs)
				}
				nbc++
			}
		}
		if compiled {
			for _, f := range p.Feat {
				c.Count("feat:" + f)
			}
		}
	}
}

func replayEnc(line string) (string, error) {
	f := strings.Split(line, "\t")
	if len(f) < 2 {
		return "", fmt.Errorf("bad enc line")
	}
	switch f[1] {
	case "obj":
		if len(f) != 4 {
			return "", fmt.Errorf("bad enc obj line")
		}
		b, err := hex.DecodeString(f[2])
		if err != nil {
			return "", err
		}
		d := rawDecodeObject(b)
		return implObj(&d, f[2]), nil
	case "bc":
		if len(f) != 5 {
			return "", fmt.Errorf("bad enc bc line")
		}
		mods, err := parseMods(f[2])
		if err != nil {
			return "", err
		}
		b, err := hex.DecodeString(f[3])
		if err != nil {
			return "", err
		}
		d := rawDecodeBytecode(b, moduleMapOf(mods))
		return implBC(&d, f[3]), nil
	}
	return "", fmt.Errorf("unknown enc request %q", f[1])
}

func init() {
	register(&Stream{Name: "enc", Run: runEnc, Replay: replayEnc})
}
