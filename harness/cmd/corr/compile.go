package main

import (
	"fmt"
	"sort"
	"strings"

	"github.com/ozanh/ugo"
	"github.com/ozanh/ugo/parser"

	"verifharness/astenc"
	"verifharness/codec"
	"verifharness/gen"
)

// stream `compile`: the real parser's AST is compiled by the real compiler
// (NoOptimize) and by the Lean compiler model; instructions, NumParams/NumLocals/
// Variadic, source maps and the constant pool must be byte-identical.

func showFn(f *ugo.CompiledFunction) string {
	v := 0
	if f.Variadic {
		v = 1
	}
	keys := make([]int, 0, len(f.SourceMap))
	for k := range f.SourceMap {
		keys = append(keys, k)
	}
	sort.Ints(keys)
	var sm []string
	for _, k := range keys {
		sm = append(sm, fmt.Sprintf("%d:%d", k, f.SourceMap[k]))
	}
	return fmt.Sprintf("F%d,%d,%d,%s|%s", f.NumParams, f.NumLocals, v, codec.Hex(f.Instructions), strings.Join(sm, ","))
}

func showBytecode(bc *ugo.Bytecode) string {
	var cs []string
	for _, c := range bc.Constants {
		if f, ok := c.(*ugo.CompiledFunction); ok {
			cs = append(cs, showFn(f))
		} else {
			cs = append(cs, codec.Encode(c, nil))
		}
	}
	return "ok " + showFn(bc.Main) + " ; " + strings.Join(cs, " ")
}

// parseToAst parses src with the real parser and renders the AST for the model.
func parseToAst(src string) (string, error) {
	fs := parser.NewFileSet()
	sf := fs.AddFile("(main)", -1, len(src))
	p := parser.NewParser(sf, []byte(src), nil)
	f, err := p.ParseFile()
	if err != nil {
		return "", err
	}
	return astenc.File(f)
}

func compileImpl(src string) (res string) {
	defer func() {
		if r := recover(); r != nil {
			res = "panic"
		}
	}()
	bc, err := ugo.Compile([]byte(src), ugo.CompilerOptions{NoOptimize: true})
	if err != nil {
		if ce, ok := err.(*ugo.CompilerError); ok {
			msg := ce.Err.Error()
			if e, ok := ce.Err.(*ugo.Error); ok {
				msg = e.Name + ": " + e.Message
			}
			return fmt.Sprintf("err %d %s", int(ce.Node.Pos()), msg)
		}
		if e, ok := err.(*ugo.Error); ok {
			return "err - " + e.Name + ": " + e.Message
		}
		return "err - " + err.Error()
	}
	return showBytecode(bc)
}

func compileSame(impl, model string) bool {
	// error texts are compared on the position and the first word only
	if strings.HasPrefix(impl, "err ") && strings.HasPrefix(model, "err ") {
		fi, fm := strings.Fields(impl), strings.Fields(model)
		return len(fi) > 1 && len(fm) > 1 && fi[1] == fm[1]
	}
	return false
}

func init() {
	register(&Stream{
		Name: "compile",
		Skip: func(m string) bool { return strings.HasPrefix(m, "unsupported") },
		Same: compileSame,
		Run: func(c *Ctx) {
			c.Rule("random scripts (gen.Program, all statement and expression forms, plus const/iota, destructuring, var groups, nested closures) parsed by the real parser; Compile(NoOptimize) vs the Lean compiler model: byte-identical instructions, constants, NumLocals/NumParams/Variadic and source maps; distinct = distinct instruction-stream hash; non-trivial = compiles to more than 30 bytes")
			n := 1500 * c.Scale
			for i := 0; i < n; i++ {
				r := c.R.Fork()
				o := gen.DefaultProgOpts()
				o.Floats = r.Bool()
				o.Decls = true
				src := gen.Program(r, o)
				ast, err := parseToAst(src)
				if err != nil {
					c.Count("parse-error")
					continue
				}
				impl := compileImpl(src)
				key := ""
				if strings.HasPrefix(impl, "ok") {
					c.Count("ok")
					if len(impl) > 100 {
						key = fmt.Sprintf("%x", hashStr(impl))
					}
				} else {
					c.Count(strings.Fields(impl)[0])
				}
				c.Add(Case{Line: "compile\t-\t" + ast + "\t#" + codec.Hex([]byte(src)), Impl: impl, Key: key})
			}
		},
	})
}

func hashStr(s string) uint64 {
	h := uint64(1469598103934665603)
	for i := 0; i < len(s); i++ {
		h = (h ^ uint64(s[i])) * 1099511628211
	}
	return h
}
