package main

import (
	"fmt"
	"os"
	"path/filepath"
	"strings"
	"time"

	"github.com/ozanh/ugo"
	"github.com/ozanh/ugo/importers"
)

// File modules (C12, importers/importers.go): the module key of a file is its absolute path, so one
// file is ONE module however it is named (relative to the importing file's directory, relative to a
// relative WorkDir, absolute), from the main script, from modules in sub directories and from inside
// function literals of such modules; a cycle written with relative names is a compile error, not a
// hang.  Oracle only (real compiler + VM on a temporary directory tree).

type modFileScenario struct {
	name    string
	files   map[string]string // path relative to the root -> source; "%ROOT%" is replaced by the root
	script  string
	workDir string // "" = absolute root; otherwise relative to the root (the process chdir's there)
	want    string // expected result text; "compile-error:<substring>" for a rejected script
}

func modFileScenarios() []modFileScenario {
	state := "global hits\nhits.n++\nreturn {x: 0, bump: func() { hits.b++; return hits.b }}\n"
	return []modFileScenario{
		{name: "relative-and-absolute-name", workDir: ".",
			files:  map[string]string{"state.ugo": state, "lib/user.ugo": "s := import(\"%ROOT%/state.ugo\")\ns.x = 42\nreturn \"user\"\n"},
			script: "global hits\na := import(\"state.ugo\")\nimport(\"lib/user.ugo\")\nb := import(\"./state.ugo\")\nreturn [hits.n, a.x, b.x, a == b]",
			want:   "[1, 42, 42, true]"},
		{name: "relative-and-absolute-name-absdir",
			files:  map[string]string{"state.ugo": state, "lib/user.ugo": "s := import(\"../state.ugo\")\ns.x = 7\nreturn \"user\"\n"},
			script: "global hits\na := import(\"state.ugo\")\nimport(\"lib/user.ugo\")\nb := import(\"%ROOT%/state.ugo\")\nreturn [hits.n, a.x, b.x]",
			want:   "[1, 7, 7]"},
		{name: "absolute-name-not-clean",
			files:  map[string]string{"state.ugo": state, "sub/x.ugo": "return 1\n"},
			script: "global hits\na := import(\"state.ugo\")\nb := import(\"%ROOT%/sub/../state.ugo\")\nc := import(\"%ROOT%//state.ugo\")\nd := import(\"%ROOT%/./state.ugo\")\na.x = 9\nreturn [hits.n, b.x, c.x, d.x]",
			want:   "[1, 9, 9, 9]"},
		{name: "empty-workdir", workDir: "-empty-",
			files:  map[string]string{"state.ugo": state},
			script: "global hits\na := import(\"state.ugo\")\nb := import(\"%ROOT%/state.ugo\")\na.x = 3\nreturn [hits.n, b.x]",
			want:   "[1, 3]"},
		{name: "relative-import-in-function-literal",
			files: map[string]string{"cfg.ugo": "return {x: \"root\"}\n", "pkg/cfg.ugo": "global hits\nhits.n++\nreturn {x: \"pkg\"}\n",
				"pkg/mod.ugo": "top := import(\"./cfg.ugo\")\nreturn {set: func(v) { top.x = v }, get: func() { return import(\"./cfg.ugo\") }, deep: func() { return func() { c := import(\"cfg.ugo\"); return c.x }() }}\n"},
			// (a module's return value is copied when it is stored, so the test goes through functions, not
			// through a re-exported object)
			script: "global hits\nm := import(\"pkg/mod.ugo\")\nm.set(\"changed\")\nreturn [m.get().x, m.deep(), hits.n, import(\"cfg.ugo\").x]",
			want:   `["changed", "changed", 1, "root"]`},
		{name: "diamond-through-directories",
			files:  map[string]string{"state.ugo": state, "a/a.ugo": "return import(\"../state.ugo\").bump()\n", "b/c/b.ugo": "return import(\"../../state.ugo\").bump()\n"},
			script: "global hits\nx := import(\"a/a.ugo\")\ny := import(\"b/c/b.ugo\")\nz := import(\"state.ugo\").bump()\nreturn [x, y, z, hits.n]",
			want:   "[1, 2, 3, 1]"},
		{name: "relative-cycle",
			files:  map[string]string{"a.ugo": "return import(\"./b.ugo\")\n", "b.ugo": "return import(\"./a.ugo\")\n"},
			script: "return import(\"./a.ugo\")", want: "compile-error:cyclic"},
		{name: "relative-cycle-through-directory",
			files:  map[string]string{"p/a.ugo": "return import(\"../q/b.ugo\")\n", "q/b.ugo": "return import(\"../p/a.ugo\")\n"},
			script: "return import(\"p/a.ugo\")", want: "compile-error:cyclic"},
		{name: "self-import-by-other-name",
			files:  map[string]string{"s.ugo": "return import(\"./../" + "ROOTBASE" + "/s.ugo\")\n"},
			script: "return import(\"s.ugo\")", want: "compile-error:cyclic"},
	}
}

func modFileOracle(c *Ctx) {
	oldwd, err := os.Getwd()
	if err != nil {
		return
	}
	for _, sc := range modFileScenarios() {
		for _, noOpt := range []bool{false, true} {
			root, err := os.MkdirTemp("", "corr-modfiles-")
			if err != nil {
				continue
			}
			if r2, err := filepath.EvalSymlinks(root); err == nil {
				root = r2
			}
			sub := func(s string) string {
				return strings.ReplaceAll(strings.ReplaceAll(s, "%ROOT%", root), "ROOTBASE", filepath.Base(root))
			}
			nreads := 0
			for p, src := range sc.files {
				full := filepath.Join(root, p)
				_ = os.MkdirAll(filepath.Dir(full), 0o755)
				_ = os.WriteFile(full, []byte(sub(src)), 0o644)
			}
			wd := root
			switch sc.workDir {
			case "":
			case "-empty-":
				wd = ""
			default:
				wd = sc.workDir
			}
			_ = os.Chdir(root)
			fi := &importers.FileImporter{WorkDir: wd, FileReader: func(p string) ([]byte, error) {
				nreads++
				if nreads > 200 {
					return nil, fmt.Errorf("runaway import: more than 200 file reads")
				}
				return os.ReadFile(p)
			}}
			mm := ugo.NewModuleMap().SetExtImporter(fi)
			type res struct {
				out string
			}
			ch := make(chan res, 1)
			go func() {
				defer func() {
					if r := recover(); r != nil {
						ch <- res{fmt.Sprintf("panic: %v", r)}
					}
				}()
				bc, err := ugo.Compile([]byte(sub(sc.script)), ugo.CompilerOptions{ModuleMap: mm, NoOptimize: noOpt})
				if err != nil {
					ch <- res{"compile-error: " + semFirstLine(err.Error())}
					return
				}
				ret, err := ugo.NewVM(bc).Run(ugo.Map{"hits": ugo.Map{"n": ugo.Int(0), "b": ugo.Int(0)}})
				if err != nil {
					ch <- res{"run-error: " + semFirstLine(err.Error())}
					return
				}
				ch <- res{ret.String()}
			}()
			var got string
			select {
			case r := <-ch:
				got = r.out
			case <-time.After(20 * time.Second):
				got = "hang (no answer within 20 s)"
			}
			_ = os.Chdir(oldwd)
			_ = os.RemoveAll(root)
			c.dist["oracle:file-modules"]++
			ok := got == sc.want
			if strings.HasPrefix(sc.want, "compile-error:") {
				ok = strings.HasPrefix(got, "compile-error:") && strings.Contains(strings.ToLower(got), strings.TrimPrefix(sc.want, "compile-error:"))
			}
			if !ok {
				c.Violation(PropViolation{"C12", fmt.Sprintf("file modules, scenario %s (NoOptimize=%v): got %s, want %s", sc.name, noOpt, got, sc.want),
					sub(sc.script) + "\nfiles: " + fmt.Sprint(sc.files), "C12:file-module:" + sc.name})
			}
		}
	}
}
