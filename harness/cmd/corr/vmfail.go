package main

import (
	"errors"
	"fmt"
	"os"
	"os/exec"
	"runtime/debug"
	"strings"
	"time"

	"github.com/ozanh/ugo"

	"verifharness/codec"
	"verifharness/gen"
)

// stream `vmfail` (property C06): scripts BUILT TO FAIL are run with SetRecover(true)
// under recover() in the harness.  Oracle: no panic escapes VM.Run; the same VM then
// (a) re-runs the same bytecode with the same outcome and trace and (b) runs a known
// script (SetBytecode) with the known result.  Where the model supports the program
// the run is also compared in lock-step with the Lean VM model (as in `vmtrace`).

// hostObj is a callable that is not an ExCallerObject: xOpCallObject pops the arguments
// before Call, which panics.
type hostObj struct{ ugo.ObjectImpl }

func (hostObj) TypeName() string { return "hostObj" }
func (hostObj) String() string   { return "<hostObj>" }
func (hostObj) CanCall() bool    { return true }
func (hostObj) Call(args ...ugo.Object) (ugo.Object, error) {
	var a []int
	return ugo.Int(a[len(args)+3]), nil // index out of range
}

// hostNameCaller implements NameCallerObject; CallName panics.
type hostNameCaller struct{ ugo.ObjectImpl }

func (hostNameCaller) TypeName() string { return "hostNameCaller" }
func (hostNameCaller) String() string   { return "<hostNameCaller>" }
func (hostNameCaller) IndexGet(ugo.Object) (ugo.Object, error) {
	return ugo.Undefined, nil
}
func (hostNameCaller) CallName(name string, c ugo.Call) (ugo.Object, error) {
	var m map[string]int
	m[name] = c.Len() // assignment to entry in nil map
	return ugo.Undefined, nil
}

func hostGlobals() ugo.Map {
	return ugo.Map{
		"hostPanic": &ugo.Function{Name: "hostPanic", Value: func(args ...ugo.Object) (ugo.Object, error) {
			panic("host boom")
		}},
		"hostPanicEx": &ugo.Function{Name: "hostPanicEx", ValueEx: func(c ugo.Call) (ugo.Object, error) {
			panic(errors.New("host boom ex"))
		}},
		"hostObj": hostObj{},
		"hostNil": &ugo.Function{Name: "hostNil", Value: func(args ...ugo.Object) (ugo.Object, error) {
			return nil, nil // a nil Object result: later use dereferences nil
		}},
		"hostErr": &ugo.Function{Name: "hostErr", Value: func(args ...ugo.Object) (ugo.Object, error) {
			return nil, errors.New("plain go error")
		}},
		"hostInvoke": &ugo.Function{Name: "hostInvoke", ValueEx: func(c ugo.Call) (ugo.Object, error) {
			inv := ugo.NewInvoker(c.VM(), c.Get(0))
			return inv.Invoke()
		}},
		"hostNameCaller": hostNameCaller{},
		// panic VALUES that are themselves hostile: an error whose Error() panics (a typed nil pointer in an
		// error interface), a Stringer whose String() panics, a nil error, runtime.Error, a struct, a slice
		"hostPanicVal": &ugo.Function{Name: "hostPanicVal", Value: func(args ...ugo.Object) (ugo.Object, error) {
			k := 0
			if len(args) > 0 {
				if i, ok := args[0].(ugo.Int); ok {
					k = int(i)
				}
			}
			switch k {
			case 0:
				var e *badErr
				panic(error(e))
			case 1:
				panic(badStringer{})
			case 2:
				var e error
				panic(e)
			case 3:
				var a []int
				_ = a[k]
			case 4:
				panic(struct{ A int }{k}) // (no pointers: their text differs from run to run)
			default:
				panic([]string{"a", "b"})
			}
			return ugo.Undefined, nil
		}},
	}
}

type badErr struct{ msg string }

func (e *badErr) Error() string { return e.msg } // nil receiver: nil pointer dereference

type badStringer struct{}

func (badStringer) String() string { panic("badStringer.String") }

const knownScript = `
global log
param (a, b)
log = []
mk := func(k) { return func(x) { return x * k } }
dbl := mk(2)
acc := 0
for i := 0; i < 5; i++ {
	try {
		if i == 3 { throw "three" }
		acc += dbl(i)
	} catch e {
		log = append(log, e.Message)
	} finally {
		log = append(log, i)
	}
}
var fact
fact = func(n) { return n <= 1 ? 1 : n * fact(n - 1) }
return [acc, fact(10), a, b, log, len([1, 2, 3][1:])]
`

var (
	knownBc   *ugo.Bytecode
	knownWant string
)

func knownRun(vm *ugo.VM) (res string) {
	defer func() {
		if r := recover(); r != nil {
			res = fmt.Sprintf("panic %v", r)
		}
	}()
	ret, err := vm.Run(ugo.Map{}, ugo.Int(11), ugo.String("q"))
	if err != nil {
		return "err " + err.Error()
	}
	return "val " + codec.Encode(ret, nil) + " " + codec.Encode(vm.GetGlobals(), nil)
}

// runFail runs bc on vm with recovery enabled; pv is the escaped panic (nil = none).
func runFail(vm *ugo.VM, globals ugo.Object, args []ugo.Object) (string, *traceRec, any) {
	tr := &traceRec{hash: 7}
	ugo.VerifTraceHook = tr.hook
	defer func() { ugo.VerifTraceHook = nil }()
	vm.SetRecover(true)
	tr.abort = vm.Abort // deterministic step bound (stepLimit), as in runTraced
	done := make(chan struct{})
	var ret ugo.Object
	var err error
	var pv any
	go func() {
		defer close(done)
		defer func() { pv = recover() }()
		ret, err = vm.Run(globals, args...)
	}()
	select {
	case <-done:
	case <-time.After(20 * time.Second):
		tr.timedOut = true
		vm.Abort()
		<-done
	}
	if tr.timedOut {
		return fmt.Sprintf("out=timeout\tsteps=%d\tth=0\tglobals=-", tr.steps), tr, pv
	}
	g := vm.GetGlobals()
	gs := "onil:0"
	if g != nil {
		gs = codec.Encode(scrub(g), nil)
	}
	if ret != nil {
		ret = scrub(ret)
	}
	return fmt.Sprintf("out=%s\tsteps=%d\tth=%d\tglobals=%s", outcomeString(ret, err, pv), tr.steps, tr.hash, gs), tr, pv
}

// scrub cuts Go stack text out of every string of a value (see noStack).
func scrub(o ugo.Object) ugo.Object {
	switch v := o.(type) {
	case ugo.String:
		return ugo.String(noStack(string(v)))
	case ugo.Array:
		r := make(ugo.Array, len(v))
		for i, x := range v {
			r[i] = scrub(x)
		}
		return r
	case ugo.Map:
		r := make(ugo.Map, len(v))
		for k, x := range v {
			r[k] = scrub(x)
		}
		return r
	}
	return o
}

// ctlPart keeps the outcome class, the instruction count and the trace hash of an answer.
func ctlPart(impl string) string {
	f := strings.Split(impl, "\t")
	if len(f) < 3 {
		return impl
	}
	return strings.SplitN(f[0], " ", 2)[0] + "\t" + f[1] + "\t" + f[2]
}

func short(s string) string {
	if len(s) > 600 {
		return s[:300] + " …(" + fmt.Sprint(len(s)) + " bytes)… " + s[len(s)-200:]
	}
	return s
}

// failOne runs one failing script with the C06 oracle; returns the request line for the
// model ("" when the case is oracle-only) and the implementation's answer.
func failOne(c *Ctx, src string, class, wrap string, host bool, noOpt bool, args []ugo.Object) (line, impl string, steps int) {
	bc, err := ugo.Compile([]byte(src), ugo.CompilerOptions{NoOptimize: noOpt})
	if err != nil {
		if c != nil {
			c.Count("compile-error:" + class)
		}
		return "", "", 0
	}
	mkGlobals := func() ugo.Map {
		if host {
			return hostGlobals()
		}
		return ugo.Map{}
	}
	vm := ugo.NewVM(bc)
	impl, tr, pv := runFail(vm, mkGlobals(), args)
	viol := func(sig, what string) {
		if c != nil {
			c.Violation(PropViolation{Property: "C06", Sig: sig, What: what, Input: short(src)})
		}
	}
	if pv != nil {
		viol("C06:escaped-panic:"+class, fmt.Sprintf("with SetRecover(true) a Go panic escaped VM.Run: %v (failure class %s placed %s)", pv, class, wrap))
		impl += "\tescaped"
	}
	// (a) the same bytecode again on the same VM: same outcome, same trace
	impl2, _, pv2 := runFail(vm, mkGlobals(), args)
	if pv2 != nil {
		viol("C06:escaped-panic-rerun:"+class, fmt.Sprintf("second Run on the same VM panicked: %v", pv2))
	} else if pv == nil && impl2 != impl && ctlPart(impl2) != ctlPart(impl) && !strings.HasPrefix(impl, "out=timeout") && !strings.HasPrefix(impl2, "out=timeout") {
		// (texts may legitimately differ: String() of a multi-key map follows Go's map iteration order;
		// the outcome class, instruction count and trace hash must not)
		viol("C06:rerun-differs:"+class, fmt.Sprintf("second Run of the same bytecode on the same VM differs: first %s second %s", short(impl), short(impl2)))
	}
	// (b) a known script on the same VM
	vm.SetBytecode(knownBc)
	if got := knownRun(vm); got != knownWant {
		viol("C06:followup-differs:"+class, fmt.Sprintf("after the failing run the same VM ran the known script wrongly: got %s want %s", short(got), short(knownWant)))
	}
	if host {
		// the model does not run host callbacks: check delivery directly for the simplest placement
		if wrap == "try-catch" && pv == nil && !strings.HasPrefix(impl, "out=val i0000000000000002\t") &&
			!strings.HasPrefix(impl, "out=val i0000000000000001\t") {
			viol("C06:not-delivered:"+class, "a failure raised by a Go callback inside try { … } catch e { return 2 } was not delivered to the catch: "+short(impl))
		}
		return "", impl, tr.steps
	}
	l, ok := vmLine("R", 600000, bc, ugo.Map{}, args)
	if !ok {
		return "", impl, tr.steps
	}
	return l + "\t#" + codec.Hex([]byte(src)), impl, tr.steps
}

// cyclicWitness: String() of a container that contains itself recurses until the Go runtime
// aborts the process (fatal error: stack overflow) — not a panic, recover() cannot intercept it.
// Run in a child process (this binary re-executed with VMFAIL_CHILD=cyclic).
const cyclicWitness = `m := {}; m.a = m; try { throw m } catch e { return 1 }; return 2`

func cyclicChild() {
	debug.SetMaxStack(64 << 20) // fail fast instead of growing the stack to 1 GB
	bc, err := ugo.Compile([]byte(cyclicWitness), ugo.CompilerOptions{NoOptimize: true})
	if err != nil {
		os.Exit(0)
	}
	defer func() {
		if r := recover(); r != nil {
			os.Exit(3) // an ordinary panic escaped
		}
	}()
	ugo.NewVM(bc).SetRecover(true).Run(nil)
	os.Exit(0)
}

func init() {
	if os.Getenv("VMFAIL_CHILD") == "cyclic" {
		cyclicChild()
	}
	var err error
	// (no optimizer: it would run the VM under test at compile time)
	knownBc, err = ugo.Compile([]byte(knownScript), ugo.CompilerOptions{NoOptimize: true})
	if err != nil {
		panic(err)
	}
	// (a tree on which even this fails is caught by the model comparison; do not crash the harness)
	knownWant = knownRun(ugo.NewVM(knownBc))
	register(&Stream{
		Name: "vmfail",
		Skip: vmSkip,
		Replay: func(line string) (string, error) {
			// the source travels in the trailing #hex field
			i := strings.LastIndex(line, "\t#")
			if i < 0 {
				return "", fmt.Errorf("no source field")
			}
			srcObj, err := codec.Decode("s"+line[i+2:], nil)
			if err != nil {
				return "", err
			}
			f := strings.Split(line, "\t")
			var args []ugo.Object
			if len(f) > 7 && f[7] != "" {
				for _, a := range strings.Split(f[7], ";") {
					o, err := codec.Decode(a, nil)
					if err != nil {
						return "", err
					}
					args = append(args, o)
				}
			}
			src := string(srcObj.(ugo.String))
			for _, noOpt := range []bool{true, false} {
				bc, err := ugo.Compile([]byte(src), ugo.CompilerOptions{NoOptimize: noOpt})
				if err != nil {
					continue
				}
				if l, ok := vmLine("R", 600000, bc, ugo.Map{}, args); ok && strings.HasPrefix(line, l) {
					impl, _, _ := runFail(ugo.NewVM(bc), ugo.Map{}, args)
					return impl, nil
				}
			}
			return "", fmt.Errorf("request does not match the compiler's current output")
		},
		Run: func(c *Ctx) {
			lockOracle(c)
			vmfailExpectOracle(c)
			c.Rule("scripts built to fail (÷0 and %0 via variables, negative shifts, bad indexes/slices, calls of non-callables, wrong argument counts, bad spreads, throw of arbitrary values, not-iterable, frame-limit recursion 1019..1025 and unbounded, recursion with many locals and nested literals around the 2048-slot limit, failing self tail calls; each placed bare / in try / in catch / in finally / in a callee / unwinding through finally frames / in a loop; panicking Go callbacks: Function.Value, ValueEx, Call, CallName, nil results, Invoker) compiled by the real compiler, run with SetRecover(true) under recover(): oracle = no escaping panic, same VM re-runs the same bytecode identically and then runs a known script with the known result; plus lock-step comparison with the Lean VM model (outcome, instruction count, trace hash, globals) where the model supports the program; distinct = (class, placement, outcome class)")
			// the known open finding, replayed in a child process
			if exe, err := os.Executable(); err == nil {
				cmd := exec.Command(exe)
				cmd.Env = append(os.Environ(), "VMFAIL_CHILD=cyclic")
				if err := cmd.Run(); err != nil {
					c.Violation(PropViolation{Property: "C06", Sig: "C06:fatal-stack-overflow:cyclic-container",
						What:  "String() of a container that contains itself never returns: the Go runtime aborts the host process with `fatal error: stack overflow` (not a panic, recover() cannot intercept it) although SetRecover(true) is on: " + err.Error(),
						Input: cyclicWitness})
				} else {
					c.Count("cyclic-witness-survived")
				}
			}
			n := 2000 * c.Scale
			pool := argPool()
			for i := 0; i < n; i++ {
				r := c.R.Fork()
				var fc gen.FailCase
				if r.Intn(5) == 0 {
					o := gen.DefaultProgOpts()
					o.Floats = false
					o.NoCycles = true
					fc = gen.FailCase{Src: gen.Program(r, o), Class: "random-program", Wrap: "random"}
				} else {
					fc = gen.FailProgram(r)
				}
				var args []ugo.Object
				if fc.Class == "random-program" {
					args = []ugo.Object{argPool()[r.Intn(len(pool))], argPool()[r.Intn(len(pool))]}
				}
				line, impl, steps := failOne(c, fc.Src, fc.Class, fc.Wrap, fc.Host, r.Bool(), args)
				if impl == "" {
					continue
				}
				if strings.HasPrefix(impl, "out=timeout") {
					c.Count("skipped:step-limit")
					continue
				}
				if strings.Contains(impl, codec.Cyclic) {
					c.Count("skipped:cyclic-value")
					continue
				}
				cls := strings.SplitN(strings.TrimPrefix(impl, "out="), " ", 2)[0]
				cls = strings.SplitN(cls, "\t", 2)[0]
				c.Count("outcome:" + cls)
				c.Count("class:" + strings.SplitN(fc.Class, "-", 2)[0])
				c.Count("wrap:" + fc.Wrap)
				if line == "" {
					c.Count("oracle-only")
					continue
				}
				key := ""
				if steps > 10 {
					key = fc.Class + "/" + fc.Wrap + "/" + cls
				}
				c.Add(Case{Line: line, Impl: impl, Key: key})
			}
		},
	})
}
