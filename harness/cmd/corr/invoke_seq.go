package main

import (
	"fmt"

	"github.com/ozanh/ugo"
)

// C14, "a function invoked from Go behaves like the same call in the script" for SEQUENCES of
// invocations on one Invoker in which some invocations fail: what a failed invocation leaves behind in
// the (pooled or private) child VM must not change the following ones.  Every function is called with
// the same argument sequence (a) inside the script, under try, and (b) from Go through one Invoker;
// both answers are compared.  Only accepted argument lists (the property excludes Go-side calls with too
// few or too many arguments) and only failures a script can catch (a value-stack overflow ends the
// whole run in both variants and is C06's subject).  Oracle only (implementation against itself).

type invSeqFn struct {
	name, def string
	seq       string // array of argument arrays
}

var invSeqFns = []invSeqFn{
	{"discarded-tail-then-nested-throw", `var f
f = func(n, fail) {
	if n == 0 {
		if fail { boom() }
		return 42
	}
	f(n-1, fail)
}`, "[[1, true], [0, false], [2, false], [3, true], [1, false]]"},
	{"valued-tail-then-nested-throw", `var f
f = func(n, fail) {
	if n == 0 {
		if fail { boom() }
		return 42
	}
	return f(n-1, fail)
}`, "[[2, true], [0, false], [2, false]]"},
	{"discarded-tail-then-own-throw", `var f
f = func(n, fail) {
	if n == 0 {
		if fail { throw error("own") }
		return 7
	}
	f(n-1, fail)
}`, "[[2, true], [0, false], [1, false]]"},
	{"throw-under-try-finally-in-callee", `f := func(n, fail) {
	g := func() { try { if fail { boom() } } finally { n += 1 } }
	try { g() } finally { n += 10 }
	return n
}`, "[[1, true], [1, false], [2, true], [2, false]]"},
	{"go-panic-then-value", `f := func(n, fail) {
	if fail { gopanic() }
	return n * 2
}`, "[[1, true], [1, false], [5, false]]"},
	{"closure-state-and-throw", `cnt := 0
f := func(n, fail) {
	cnt++
	h := func() { if fail { boom() }; return cnt * 100 + n }
	return h()
}`, "[[1, false], [1, true], [1, false], [2, true], [2, false]]"},
	{"variadic-keeps-rest", `kept := []
f := func(n, ...rest) {
	if n == 0 { boom() }
	kept = append(kept, rest)
	return [len(kept), kept]
}`, "[[1, 2, 3], [0, 9], [1], [1, 4]]"},
}

func invSeqOracle(c *Ctx) {
	for _, fn := range invSeqFns {
		for _, mode := range []string{"acquired", "plain"} {
			src := "global (probe, gopanic)\nboom := func() { throw error(\"boom\") }\n" + fn.def + `
seq := ` + fn.seq + `
`
			// state captured by the function (cnt, kept) is shared by both variants: run them in two
			// separate VM runs of the same script, selected by the argument
			srcA := "param which\n" + src + `if which == 0 {
	inScript := []
	for _, a in seq {
		try { inScript = append(inScript, f(...a)) } catch e { inScript = append(inScript, ["error", e.Name]) }
	}
	return inScript
}
return probe(f, seq)
`
			c.dist["oracle:invoke-sequences"]++
			bc, err := ugo.Compile([]byte(srcA), ugo.CompilerOptions{})
			if err != nil {
				c.Violation(PropViolation{"C14", "invoke-sequence script does not compile: " + err.Error(), srcA, "C14:seq-compile:" + fn.name})
				continue
			}
			probe := &ugo.Function{Name: "probe", ValueEx: func(call ugo.Call) (ugo.Object, error) {
				inv := ugo.NewInvoker(call.VM(), call.Get(0))
				if mode == "acquired" {
					inv.Acquire()
					defer inv.Release()
				}
				out := ugo.Array{}
				seq, _ := call.Get(1).(ugo.Array)
				for _, a := range seq {
					args, _ := a.(ugo.Array)
					r, err := inv.Invoke(args...)
					if err != nil {
						name := ""
						if re, ok := err.(*ugo.RuntimeError); ok && re.Err != nil {
							name = re.Err.Name
						} else if e, ok := err.(*ugo.Error); ok {
							name = e.Name
						}
						out = append(out, ugo.Array{ugo.String("error"), ugo.String(name)})
						continue
					}
					out = append(out, r)
				}
				return out, nil
			}}
			gop := &ugo.Function{Name: "gopanic", Value: func(...ugo.Object) (ugo.Object, error) { panic("gopanic") }}
			run := func(which int) string {
				var res string
				func() {
					defer func() {
						if r := recover(); r != nil {
							res = fmt.Sprintf("escaped panic: %v", r)
						}
					}()
					ret, err := ugo.NewVM(bc).SetRecover(true).Run(ugo.Map{"probe": probe, "gopanic": gop}, ugo.Int(which))
					if err != nil {
						res = "run error: " + err.Error()
						return
					}
					res = ret.String()
				}()
				return res
			}
			a, b := run(0), run(1)
			if a != b {
				c.Violation(PropViolation{"C14", fmt.Sprintf("the call sequence %s of `%s` gives %s inside the script and %s through one %s Invoker", fn.seq, fn.name, a, b, mode),
					srcA, "C14:invoke-sequence:" + fn.name + ":" + mode})
			}
		}
	}
}
