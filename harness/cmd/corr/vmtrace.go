package main

import (
	"fmt"
	"strings"
	"time"

	"github.com/ozanh/ugo"

	"verifharness/codec"
	"verifharness/gen"
)

// stream `vmtrace`: the real compiler's bytecode is executed by the real VM (with the
// H1 per-instruction trace hook) and by the Lean VM model in lock-step: outcome,
// number of executed instructions, hash of the (frameIndex, ip, sp, #handlers, opcode)
// trace and the final globals must agree.

func encodeFn(f *ugo.CompiledFunction) string {
	v := 0
	if f.Variadic {
		v = 1
	}
	return fmt.Sprintf("F%d,%d,%d,%s", f.NumParams, f.NumLocals, v, codec.Hex(f.Instructions))
}

// vmLine renders the request for the model; ok=false when the bytecode uses something
// the line format cannot carry (host objects in constants).
func vmLine(opts string, fuel int, bc *ugo.Bytecode, globals ugo.Object, args []ugo.Object) (string, bool) {
	var cs []string
	for _, c := range bc.Constants {
		switch v := c.(type) {
		case *ugo.CompiledFunction:
			if v.Free != nil {
				return "", false
			}
			cs = append(cs, encodeFn(v))
		case ugo.Int, ugo.Uint, ugo.Float, ugo.Char, ugo.Bool, ugo.String, *ugo.UndefinedType:
			cs = append(cs, codec.Encode(c, nil))
		case ugo.Map, ugo.Array, ugo.Bytes:
			// builtin-module constants (C12): shipped when they are plain data
			if !dataOnly(c) {
				return "", false
			}
			cs = append(cs, codec.Encode(c, nil))
		default:
			return "", false
		}
	}
	g := "-"
	if globals != nil {
		g = codec.Encode(globals, nil)
	}
	var as []string
	for _, a := range args {
		as = append(as, codec.Encode(a, nil))
	}
	return fmt.Sprintf("vm\t%s\t%d\t%d\t%s\t%s\t%s\t%s", opts, fuel, bc.NumModules, encodeFn(bc.Main),
		strings.Join(cs, ";"), g, strings.Join(as, ";")), true
}

// dataOnly reports whether o is built from scalars, strings, bytes, arrays and maps only.
func dataOnly(o ugo.Object) bool {
	switch v := o.(type) {
	case ugo.Int, ugo.Uint, ugo.Float, ugo.Char, ugo.Bool, ugo.String, ugo.Bytes, *ugo.UndefinedType:
		return true
	case ugo.Array:
		for _, x := range v {
			if !dataOnly(x) {
				return false
			}
		}
		return true
	case ugo.Map:
		for _, x := range v {
			if !dataOnly(x) {
				return false
			}
		}
		return true
	}
	return false
}

// stepLimit bounds every traced run deterministically: a generated program that does not terminate
// (or runs longer than the models' fuel) is reported as `out=timeout` and skipped by every stream,
// instead of being cut off by a wall-clock watchdog at a timing-dependent point.
const stepLimit = 400000

type traceRec struct {
	abort    func()
	timedOut bool
	steps    int
	hash  uint64
	full  []string
	keep  bool
}

func (t *traceRec) hook(fi, ip, sp, nh int, op byte) {
	t.steps++
	if t.steps == stepLimit && t.abort != nil {
		t.timedOut = true
		t.abort()
	}
	st := func(h uint64, x int) uint64 { return (h*1000003 + uint64(x) + 1) % 2147483647 }
	h := t.hash
	h = st(h, fi)
	h = st(h, ip+2)
	h = st(h, sp+2)
	h = st(h, nh)
	h = st(h, int(op))
	t.hash = h
	if t.keep {
		t.full = append(t.full, fmt.Sprintf("%d,%d,%d,%d,%d", fi, ip, sp, nh, op))
	}
}

func outcomeString(ret ugo.Object, err error, panicked any) string {
	if panicked != nil {
		return "panic"
	}
	if err != nil {
		switch e := err.(type) {
		case *ugo.RuntimeError:
			if e.Err != nil {
				return "err " + codec.Hex([]byte(e.Err.Name)) + " " + codec.Hex([]byte(e.Err.Message))
			}
			return "err nil"
		case *ugo.Error:
			return "err " + codec.Hex([]byte(e.Name)) + " " + codec.Hex([]byte(e.Message))
		}
		if strings.HasPrefix(err.Error(), "panic:") {
			return "goerr panic"
		}
		return "goerr " + err.Error()
	}
	return "val " + codec.Encode(ret, nil)
}

// runTraced runs bc on a VM (fresh unless vm != nil) with the trace hook.
func runTraced(vm *ugo.VM, bc *ugo.Bytecode, recoverOn bool, globals ugo.Object, args []ugo.Object, keep bool) (string, *traceRec) {
	tr := &traceRec{hash: 7, keep: keep}
	ugo.VerifTraceHook = tr.hook
	defer func() { ugo.VerifTraceHook = nil }()
	if vm == nil {
		vm = ugo.NewVM(bc)
	}
	vm.SetRecover(recoverOn)
	tr.abort = vm.Abort
	done := make(chan struct{})
	var ret ugo.Object
	var err error
	var pv any
	go func() {
		defer close(done)
		defer func() { pv = recover() }()
		ret, err = vm.Run(globals, args...)
	}()
	select {
	case <-done:
	case <-time.After(5 * time.Second):
		tr.timedOut = true
		vm.Abort()
		<-done
	}
	if tr.timedOut {
		return fmt.Sprintf("out=timeout\tsteps=%d\tth=0\tglobals=-", tr.steps), tr
	}
	g := vm.GetGlobals()
	gs := "onil:0"
	if g != nil {
		gs = codec.Encode(g, nil)
	}
	return fmt.Sprintf("out=%s\tsteps=%d\tth=%d\tglobals=%s", outcomeString(ret, err, pv), tr.steps, tr.hash, gs), tr
}

func vmSkip(model string) bool {
	return strings.HasPrefix(model, "out=unsupported") || strings.HasPrefix(model, "out=fuel")
}

func argPool() []ugo.Object {
	return []ugo.Object{ugo.Int(0), ugo.Int(1), ugo.Int(-3), ugo.Int(7), ugo.Uint(2), ugo.True, ugo.False, ugo.Undefined,
		ugo.String("a"), ugo.String(""), ugo.Char('x'), ugo.Array{ugo.Int(1), ugo.Int(2)}, ugo.Array{}, ugo.Map{"a": ugo.Int(1)}}
}

func hasMapMulti(o ugo.Object) bool { return hasMultiKeyMap(o) }

func init() {
	register(&Stream{
		Name: "vmtrace",
		Skip: vmSkip,
		Run: func(c *Ctx) {
			c.Rule("random scripts (gen.Program: declarations, assignments, if/for/for-in, closures, variadic/spread calls, try/catch/finally/throw, containers, failing operators) compiled by the real compiler (optimizer off and on) and run on the real VM with the H1 trace hook vs the Lean VM model: outcome + instruction count + trace hash + final globals; distinct = distinct (opcode-set signature, outcome class); non-trivial = ran more than 10 instructions")
			n := 1500 * c.Scale
			pool := argPool()
			for i := 0; i < n; i++ {
				r := c.R.Fork()
				o := gen.DefaultProgOpts()
				o.Floats = false
				src := gen.Program(r, o)
				opts := ugo.CompilerOptions{NoOptimize: r.Bool()}
				bc, err := ugo.Compile([]byte(src), opts)
				if err != nil {
					c.Count("compile-error")
					continue
				}
				args := []ugo.Object{pool[r.Intn(len(pool))], pool[r.Intn(len(pool))]}
				rec := r.Bool()
				optS := "-"
				if rec {
					optS = "R"
				}
				line, ok := vmLine(optS, 200000, bc, ugo.Map{}, args)
				if !ok {
					c.Count("unencodable")
					continue
				}
				impl, tr := runTraced(nil, bc, rec, ugo.Map{}, args, false)
				cls := strings.SplitN(strings.TrimPrefix(impl, "out="), " ", 2)[0]
				c.Count("outcome:" + cls)
				if tr.timedOut {
					c.Count("skipped:step-limit")
					continue
				}
				if strings.Contains(impl, codec.Cyclic) {
					c.Count("skipped:cyclic-value")
					continue
				}
				key := ""
				if tr.steps > 10 {
					key = fmt.Sprintf("%s/%d", cls, tr.hash%997)
				}
				c.Add(Case{Line: line + "\t#" + codec.Hex([]byte(src)), Impl: impl, Key: key})
			}
		},
	})
}
