// racechild runs the C08 workload (package conc) and prints a JSON report.  The
// `concurrent` stream builds it with `go build -race` and reads the race detector's
// reports from its stderr.
package main

import (
	"encoding/json"
	"flag"
	"fmt"
	"os"

	"verifharness/conc"
	"verifharness/gen"
)

type report struct {
	Cases  int         `json:"cases"`
	Runs   int         `json:"runs"`
	Diffs  []conc.Diff `json:"diffs"`
	Leak   string      `json:"leak"`
	Errors []string    `json:"errors"`
}

func main() {
	seed := flag.Uint64("seed", 1, "seed")
	n := flag.Int("n", 40, "cases")
	vms := flag.Int("vms", 8, "goroutines")
	k := flag.Int("k", 3, "runs per goroutine")
	flag.Parse()
	r := gen.NewRand(*seed)
	rep := report{}
	// first of all, while every lazily filled process-wide table of the library is still cold
	if d := conc.ColdStartProbe(*vms); d != nil {
		rep.Diffs = append(rep.Diffs, *d)
	}
	for _, c := range conc.Generate(r, *n) {
		bc, _, err := c.CompileAny()
		if err != nil {
			rep.Errors = append(rep.Errors, c.Family+": "+err.Error())
			continue
		}
		if !conc.Bounded(bc, c.Recover, *vms) {
			continue
		}
		rep.Cases++
		_, diffs := conc.RunConcurrent(c, bc, *vms, *k)
		rep.Runs += *vms * *k
		rep.Diffs = append(rep.Diffs, diffs...)
	}
	rep.Leak = conc.PrivacyProbe("strings", true)
	b, _ := json.Marshal(rep)
	fmt.Println(string(b))
	os.Stdout.Sync()
}
