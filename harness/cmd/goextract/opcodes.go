package main

import (
	"fmt"
	"go/ast"
	"go/parser"
	"go/token"
	"os"
	"path/filepath"
	"sort"
	"strconv"
	"strings"
)

// Gen/Opcodes.lean: opcode numbers, names and operand-width tables of the current
// (version 2) format from opcodes.go and of the version-1 format from
// encoder/opv1/opcodes_v1.go; which opcodes the v1->v2 converter re-encodes
// (the case lists of the switches in convCompFuncV1ToV2 -- they must all agree)
// and which one keeps a zero operand (`op != opv1.OpSetupTry || pos != 0`);
// the operand limits and the byte layout of MakeInstruction; the operand widths
// ReadOperands understands.  Fails closed on anything outside these shapes.

type opTables struct {
	consts   []string       // names in iota order
	num      map[string]int // name -> number
	names    map[int]string // OpcodeNames (may be nil for opv1)
	operands map[int][]int
}

func parseOne(path string) (*ast.File, error) {
	return parser.ParseFile(token.NewFileSet(), path, nil, 0)
}

// opIotaConsts reads `const ( A T = iota; B; C ... )`.
func opIotaConsts(f *ast.File, first string) ([]string, error) {
	for _, d := range f.Decls {
		gd, ok := d.(*ast.GenDecl)
		if !ok || gd.Tok != token.CONST || len(gd.Specs) == 0 {
			continue
		}
		vs0 := gd.Specs[0].(*ast.ValueSpec)
		if len(vs0.Names) != 1 || vs0.Names[0].Name != first {
			continue
		}
		if len(vs0.Values) != 1 {
			return nil, fmt.Errorf("const %s: expected `= iota`", first)
		}
		if id, ok := vs0.Values[0].(*ast.Ident); !ok || id.Name != "iota" {
			return nil, fmt.Errorf("const %s: expected `= iota`", first)
		}
		var out []string
		for i, s := range gd.Specs {
			vs := s.(*ast.ValueSpec)
			if len(vs.Names) != 1 || (i > 0 && (len(vs.Values) != 0 || vs.Type != nil)) {
				return nil, fmt.Errorf("const block of %s: unsupported spec at %d", first, i)
			}
			out = append(out, vs.Names[0].Name)
		}
		return out, nil
	}
	return nil, fmt.Errorf("const block starting with %s not found", first)
}

func findVarLit(f *ast.File, name string) (*ast.CompositeLit, error) {
	for _, d := range f.Decls {
		gd, ok := d.(*ast.GenDecl)
		if !ok || gd.Tok != token.VAR {
			continue
		}
		for _, s := range gd.Specs {
			vs := s.(*ast.ValueSpec)
			if len(vs.Names) == 1 && vs.Names[0].Name == name && len(vs.Values) == 1 {
				if cl, ok := vs.Values[0].(*ast.CompositeLit); ok {
					return cl, nil
				}
			}
		}
	}
	return nil, fmt.Errorf("var %s = [...]T{...} not found", name)
}

func keyedTable(cl *ast.CompositeLit, num map[string]int, what string, val func(ast.Expr) (any, error)) (map[int]any, error) {
	out := map[int]any{}
	for _, e := range cl.Elts {
		kv, ok := e.(*ast.KeyValueExpr)
		if !ok {
			return nil, fmt.Errorf("%s: element without key", what)
		}
		id, ok := kv.Key.(*ast.Ident)
		if !ok {
			return nil, fmt.Errorf("%s: key is not an opcode name", what)
		}
		n, ok := num[id.Name]
		if !ok {
			return nil, fmt.Errorf("%s: unknown opcode %s", what, id.Name)
		}
		if _, dup := out[n]; dup {
			return nil, fmt.Errorf("%s: duplicate key %s", what, id.Name)
		}
		v, err := val(kv.Value)
		if err != nil {
			return nil, fmt.Errorf("%s[%s]: %v", what, id.Name, err)
		}
		out[n] = v
	}
	return out, nil
}

func opIntLit(e ast.Expr) (int, error) {
	bl, ok := e.(*ast.BasicLit)
	if !ok || bl.Kind != token.INT {
		return 0, fmt.Errorf("expected an integer literal")
	}
	return strconv.Atoi(bl.Value)
}

func readOpTables(path, first string, withNames bool) (*opTables, error) {
	f, err := parseOne(path)
	if err != nil {
		return nil, err
	}
	t := &opTables{num: map[string]int{}, operands: map[int][]int{}}
	if t.consts, err = opIotaConsts(f, first); err != nil {
		return nil, err
	}
	for i, n := range t.consts {
		t.num[n] = i
	}
	cl, err := findVarLit(f, "OpcodeOperands")
	if err != nil {
		return nil, err
	}
	ops, err := keyedTable(cl, t.num, "OpcodeOperands", func(e ast.Expr) (any, error) {
		c, ok := e.(*ast.CompositeLit)
		if !ok {
			return nil, fmt.Errorf("expected {w, ...}")
		}
		ws := []int{}
		for _, x := range c.Elts {
			w, err := opIntLit(x)
			if err != nil {
				return nil, err
			}
			ws = append(ws, w)
		}
		return ws, nil
	})
	if err != nil {
		return nil, err
	}
	for k, v := range ops {
		t.operands[k] = v.([]int)
	}
	for i, n := range t.consts {
		if _, ok := t.operands[i]; !ok {
			return nil, fmt.Errorf("OpcodeOperands has no entry for %s", n)
		}
	}
	if withNames {
		cl, err := findVarLit(f, "OpcodeNames")
		if err != nil {
			return nil, err
		}
		ns, err := keyedTable(cl, t.num, "OpcodeNames", func(e ast.Expr) (any, error) {
			bl, ok := e.(*ast.BasicLit)
			if !ok || bl.Kind != token.STRING {
				return nil, fmt.Errorf("expected a string")
			}
			return strconv.Unquote(bl.Value)
		})
		if err != nil {
			return nil, err
		}
		t.names = map[int]string{}
		for k, v := range ns {
			t.names[k] = v.(string)
		}
		for i, n := range t.consts {
			if _, ok := t.names[i]; !ok {
				return nil, fmt.Errorf("OpcodeNames has no entry for %s", n)
			}
		}
	}
	return t, nil
}

func opFindFunc(f *ast.File, name string) *ast.FuncDecl {
	for _, d := range f.Decls {
		if fd, ok := d.(*ast.FuncDecl); ok && fd.Recv == nil && fd.Name.Name == name {
			return fd
		}
	}
	return nil
}

// findFuncInDir looks for a top-level function in the non-test files of dir.
func findFuncInDir(dir, name string) (*ast.FuncDecl, string, error) {
	ents, err := os.ReadDir(dir)
	if err != nil {
		return nil, "", err
	}
	for _, e := range ents {
		n := e.Name()
		if e.IsDir() || !strings.HasSuffix(n, ".go") || strings.HasSuffix(n, "_test.go") {
			continue
		}
		f, err := parseOne(filepath.Join(dir, n))
		if err != nil {
			return nil, "", err
		}
		if fd := opFindFunc(f, name); fd != nil {
			return fd, n, nil
		}
	}
	return nil, "", fmt.Errorf("func %s not found in %s", name, dir)
}

// constExpr evaluates integer constant expressions built from literals, << + - and named constants.
func constExpr(e ast.Expr, env map[string]int64) (int64, error) {
	switch x := e.(type) {
	case *ast.BasicLit:
		if x.Kind == token.INT {
			return strconv.ParseInt(x.Value, 0, 64)
		}
	case *ast.ParenExpr:
		return constExpr(x.X, env)
	case *ast.Ident:
		if v, ok := env[x.Name]; ok {
			return v, nil
		}
	case *ast.BinaryExpr:
		a, err := constExpr(x.X, env)
		if err != nil {
			return 0, err
		}
		b, err := constExpr(x.Y, env)
		if err != nil {
			return 0, err
		}
		switch x.Op {
		case token.SHL:
			return a << uint(b), nil
		case token.SUB:
			return a - b, nil
		case token.ADD:
			return a + b, nil
		}
	}
	return 0, fmt.Errorf("unsupported constant expression")
}

func internalConsts(repo string) (map[string]int64, error) {
	f, err := parseOne(filepath.Join(repo, "internal", "constants.go"))
	if err != nil {
		return nil, err
	}
	env := map[string]int64{}
	for _, d := range f.Decls {
		gd, ok := d.(*ast.GenDecl)
		if !ok || gd.Tok != token.CONST {
			continue
		}
		for _, s := range gd.Specs {
			vs := s.(*ast.ValueSpec)
			if len(vs.Names) == 1 && len(vs.Values) == 1 {
				if v, err := constExpr(vs.Values[0], env); err == nil {
					env[vs.Names[0].Name] = v
				}
			}
		}
	}
	return env, nil
}

type byteExpr struct{ arg, shift int }

// makeInstructionFacts reads MakeInstruction: the per-width maxima and the byte
// layout of every case of `switch op`.
func makeInstructionFacts(repo string, num map[string]int) (limits map[int]int64, layout map[int][]byteExpr, file string, err error) {
	fd, file, err := findFuncInDir(repo, "MakeInstruction")
	if err != nil {
		return nil, nil, "", err
	}
	consts, err := internalConsts(repo)
	if err != nil {
		return nil, nil, "", err
	}
	limits = map[int]int64{}
	layout = map[int][]byteExpr{}
	var sawLower, sawUpper bool
	var ferr error
	fail := func(f string, a ...any) {
		if ferr == nil {
			ferr = fmt.Errorf("MakeInstruction: "+f, a...)
		}
	}
	ast.Inspect(fd.Body, func(n ast.Node) bool {
		switch x := n.(type) {
		case *ast.IfStmt:
			// `if arg > maxVal {...} else if arg < 0 {...}`
			if be, ok := x.Cond.(*ast.BinaryExpr); ok {
				l, lok := be.X.(*ast.Ident)
				if lok && l.Name == "arg" {
					if r, ok := be.Y.(*ast.Ident); ok && be.Op == token.GTR && r.Name == "maxVal" {
						sawUpper = true
					}
					if r, ok := be.Y.(*ast.BasicLit); ok && be.Op == token.LSS && r.Value == "0" {
						sawLower = true
					}
				}
			}
		case *ast.SwitchStmt:
			tag := exprString(x.Tag)
			switch tag {
			case "operands[i]":
				for _, c := range x.Body.List {
					cc := c.(*ast.CaseClause)
					if len(cc.List) != 1 || len(cc.Body) != 1 {
						fail("unsupported limit case")
						return false
					}
					w, err := opIntLit(cc.List[0])
					if err != nil {
						fail("limit case: %v", err)
						return false
					}
					as, ok := cc.Body[0].(*ast.AssignStmt)
					if !ok || len(as.Lhs) != 1 || exprString(as.Lhs[0]) != "maxVal" {
						fail("limit case %d: expected maxVal = ...", w)
						return false
					}
					sel, ok := as.Rhs[0].(*ast.SelectorExpr)
					if !ok || exprString(sel.X) != "internal" {
						fail("limit case %d: expected internal.X", w)
						return false
					}
					v, ok := consts[sel.Sel.Name]
					if !ok {
						fail("unknown constant internal.%s", sel.Sel.Name)
						return false
					}
					limits[w] = v
				}
				return false
			case "op":
				for _, c := range x.Body.List {
					cc := c.(*ast.CaseClause)
					if cc.List == nil {
						continue // default: unknown opcode -> error
					}
					var bytes []byteExpr
					var ret *ast.ReturnStmt
					for _, st := range cc.Body {
						switch s := st.(type) {
						case *ast.AssignStmt: // `_ = args[1]` bounds-check hint
							if len(s.Lhs) != 1 || exprString(s.Lhs[0]) != "_" {
								fail("unsupported statement in case")
								return false
							}
						case *ast.ReturnStmt:
							ret = s
						default:
							fail("unsupported statement in case")
							return false
						}
					}
					if ret == nil || len(ret.Results) != 2 || exprString(ret.Results[1]) != "nil" {
						fail("case must end in `return <bytes>, nil`")
						return false
					}
					switch r := ret.Results[0].(type) {
					case *ast.Ident:
						if r.Name != "buf" {
							fail("unexpected return value")
							return false
						}
					case *ast.CallExpr:
						if exprString(r.Fun) != "append" || len(r.Args) < 1 || exprString(r.Args[0]) != "buf" {
							fail("expected append(buf, ...)")
							return false
						}
						for _, a := range r.Args[1:] {
							be, err := parseByteExpr(a)
							if err != nil {
								fail("%v", err)
								return false
							}
							bytes = append(bytes, be)
						}
					default:
						fail("unexpected return value")
						return false
					}
					for _, k := range cc.List {
						id, ok := k.(*ast.Ident)
						if !ok {
							fail("case label is not an opcode name")
							return false
						}
						n, ok := num[id.Name]
						if !ok {
							fail("unknown opcode %s", id.Name)
							return false
						}
						if _, dup := layout[n]; dup {
							fail("opcode %s in two cases", id.Name)
							return false
						}
						layout[n] = bytes
					}
				}
				return false
			}
		}
		return true
	})
	if ferr != nil {
		return nil, nil, "", ferr
	}
	if !sawLower || !sawUpper {
		return nil, nil, "", fmt.Errorf("MakeInstruction: range checks `arg > maxVal` / `arg < 0` not found")
	}
	if len(limits) == 0 || len(layout) == 0 {
		return nil, nil, "", fmt.Errorf("MakeInstruction: limit switch or opcode switch not found")
	}
	// the prefix `buf = append(buf[:0], op)` must be there
	found := false
	ast.Inspect(fd.Body, func(n ast.Node) bool {
		if as, ok := n.(*ast.AssignStmt); ok && len(as.Lhs) == 1 && len(as.Rhs) == 1 &&
			exprString(as.Lhs[0]) == "buf" && exprString(as.Rhs[0]) == "append(buf[:0], op)" {
			found = true
		}
		return true
	})
	if !found {
		return nil, nil, "", fmt.Errorf("MakeInstruction: `buf = append(buf[:0], op)` not found")
	}
	return limits, layout, file, nil
}

// parseByteExpr: byte(args[K]) or byte(args[K]>>S)
func parseByteExpr(e ast.Expr) (byteExpr, error) {
	c, ok := e.(*ast.CallExpr)
	if !ok || exprString(c.Fun) != "byte" || len(c.Args) != 1 {
		return byteExpr{}, fmt.Errorf("expected byte(...)")
	}
	inner := c.Args[0]
	shift := 0
	if be, ok := inner.(*ast.BinaryExpr); ok {
		if be.Op != token.SHR {
			return byteExpr{}, fmt.Errorf("expected args[k]>>s")
		}
		s, err := opIntLit(be.Y)
		if err != nil {
			return byteExpr{}, err
		}
		shift = s
		inner = be.X
	}
	ix, ok := inner.(*ast.IndexExpr)
	if !ok || exprString(ix.X) != "args" {
		return byteExpr{}, fmt.Errorf("expected args[k]")
	}
	k, err := opIntLit(ix.Index)
	if err != nil {
		return byteExpr{}, err
	}
	return byteExpr{arg: k, shift: shift}, nil
}

func exprString(e ast.Expr) string {
	switch x := e.(type) {
	case nil:
		return ""
	case *ast.Ident:
		return x.Name
	case *ast.BasicLit:
		return x.Value
	case *ast.SelectorExpr:
		return exprString(x.X) + "." + x.Sel.Name
	case *ast.IndexExpr:
		return exprString(x.X) + "[" + exprString(x.Index) + "]"
	case *ast.SliceExpr:
		return exprString(x.X) + "[" + exprString(x.Low) + ":" + exprString(x.High) + "]"
	case *ast.CallExpr:
		var as []string
		for _, a := range x.Args {
			as = append(as, exprString(a))
		}
		return exprString(x.Fun) + "(" + strings.Join(as, ", ") + ")"
	case *ast.BinaryExpr:
		return exprString(x.X) + x.Op.String() + exprString(x.Y)
	case *ast.ParenExpr:
		return "(" + exprString(x.X) + ")"
	}
	return fmt.Sprintf("<%T>", e)
}

// readOperandsWidths: the case labels of `switch width` in ReadOperands.
func readOperandsWidths(repo string) ([]int, error) {
	fd, _, err := findFuncInDir(repo, "ReadOperands")
	if err != nil {
		return nil, err
	}
	var ws []int
	var ferr error
	ast.Inspect(fd.Body, func(n ast.Node) bool {
		if sw, ok := n.(*ast.SwitchStmt); ok && exprString(sw.Tag) == "width" {
			for _, c := range sw.Body.List {
				cc := c.(*ast.CaseClause)
				for _, l := range cc.List {
					w, err := opIntLit(l)
					if err != nil {
						ferr = err
						return false
					}
					// the body must read exactly w bytes big-endian: ins[offset] ... ins[offset+w-1]
					body := ""
					for _, st := range cc.Body {
						if es, ok := st.(*ast.AssignStmt); ok && len(es.Rhs) == 1 {
							body += exprString(es.Rhs[0])
						}
					}
					want := bigEndianReadText(w)
					if body != want {
						ferr = fmt.Errorf("ReadOperands case %d: body is %q, expected the big-endian read %q", w, body, want)
						return false
					}
					ws = append(ws, w)
				}
			}
			return false
		}
		return true
	})
	if ferr != nil {
		return nil, ferr
	}
	if len(ws) == 0 {
		return nil, fmt.Errorf("ReadOperands: `switch width` not found")
	}
	return ws, nil
}

// bigEndianReadText is the text of `append(operands, int(ins[offset+w-1])|int(ins[offset+w-2])<<8|...)`
// exactly as opcodes.go writes it (least significant byte first in the expression).
func bigEndianReadText(w int) string {
	var parts []string
	for k := w - 1; k >= 0; k-- {
		idx := "ins[offset]"
		if k > 0 {
			idx = fmt.Sprintf("ins[offset+%d]", k)
		}
		p := "int(" + idx + ")"
		if sh := 8 * (w - 1 - k); sh > 0 {
			p += "<<" + strconv.Itoa(sh)
		}
		parts = append(parts, p)
	}
	return "append(operands, " + strings.Join(parts, "|") + ")"
}

// converterFacts reads encoder/v1.go: the opcode lists of every `case opv1.X, ...`
// in convCompFuncV1ToV2 (must all be the same list) and the opcode of the
// `op != opv1.X || pos != 0` guard.
func converterFacts(repo string, v1 map[string]int) (jumpClass []int, keepZero int, err error) {
	f, err := parseOne(filepath.Join(repo, "encoder", "v1.go"))
	if err != nil {
		return nil, 0, err
	}
	fd := opFindFunc(f, "convCompFuncV1ToV2")
	if fd == nil {
		return nil, 0, fmt.Errorf("convCompFuncV1ToV2 not found")
	}
	var lists [][]int
	keepZero = -1
	var ferr error
	sel := func(e ast.Expr) (int, bool) {
		s, ok := e.(*ast.SelectorExpr)
		if !ok || exprString(s.X) != "opv1" {
			return 0, false
		}
		n, ok := v1[s.Sel.Name]
		return n, ok
	}
	ast.Inspect(fd.Body, func(n ast.Node) bool {
		switch x := n.(type) {
		case *ast.CaseClause:
			if len(x.List) == 0 {
				return true
			}
			var l []int
			for _, e := range x.List {
				v, ok := sel(e)
				if !ok {
					ferr = fmt.Errorf("convCompFuncV1ToV2: case label %s is not a version-1 opcode", exprString(e))
					return false
				}
				l = append(l, v)
			}
			sort.Ints(l)
			lists = append(lists, l)
		case *ast.BinaryExpr:
			if x.Op == token.NEQ && exprString(x.X) == "op" {
				if v, ok := sel(x.Y); ok {
					if keepZero >= 0 && keepZero != v {
						ferr = fmt.Errorf("convCompFuncV1ToV2: two different `op != opv1.X` guards")
						return false
					}
					keepZero = v
				}
			}
		}
		return true
	})
	if ferr != nil {
		return nil, 0, ferr
	}
	if len(lists) == 0 {
		return nil, 0, fmt.Errorf("convCompFuncV1ToV2: no `case opv1...` found")
	}
	for _, l := range lists[1:] {
		if fmt.Sprint(l) != fmt.Sprint(lists[0]) {
			return nil, 0, fmt.Errorf("convCompFuncV1ToV2: the switches disagree on the re-encoded opcodes: %v vs %v", lists[0], l)
		}
	}
	if keepZero < 0 {
		return nil, 0, fmt.Errorf("convCompFuncV1ToV2: guard `op != opv1.OpSetupTry || pos != 0` not found")
	}
	return lists[0], keepZero, nil
}

func leanNatList(xs []int) string {
	s := make([]string, len(xs))
	for i, x := range xs {
		s[i] = strconv.Itoa(x)
	}
	return "[" + strings.Join(s, ", ") + "]"
}

func genOpcodes(repo string) (string, error) {
	v2, err := readOpTables(filepath.Join(repo, "opcodes.go"), "OpNoOp", true)
	if err != nil {
		return "", fmt.Errorf("opcodes.go: %v", err)
	}
	v1, err := readOpTables(filepath.Join(repo, "encoder", "opv1", "opcodes_v1.go"), "OpNoOp", false)
	if err != nil {
		return "", fmt.Errorf("opcodes_v1.go: %v", err)
	}
	limits, layout, mkFile, err := makeInstructionFacts(repo, v2.num)
	if err != nil {
		return "", err
	}
	rw, err := readOperandsWidths(repo)
	if err != nil {
		return "", err
	}
	jc, keepZero, err := converterFacts(repo, v1.num)
	if err != nil {
		return "", err
	}
	var sb strings.Builder
	w := func(f string, a ...any) { fmt.Fprintf(&sb, f, a...) }
	w("-- GENERATED by /verif/harness/cmd/goextract from opcodes.go, encoder/opv1/opcodes_v1.go, %s (MakeInstruction), encoder/v1.go — DO NOT EDIT.\n", mkFile)
	w("-- Regenerated from /repo's working tree on every check run.  Core Lean only.\n")
	w("namespace UgoVerif.Gen.Opcodes\n\n")
	w("/-! ### current format (opcodes.go) -/\n")
	for i, n := range v2.consts {
		w("def %s : Nat := %d\n", n, i)
	}
	w("\ndef numOpcodes : Nat := %d\n\n", len(v2.consts))
	w("def opcodeNamesTable : List String :=\n  [")
	for i := range v2.consts {
		if i > 0 {
			w(", ")
		}
		w("%q", v2.names[i])
	}
	w("]\n\n")
	tbl := func(name string, t *opTables) {
		w("def %s : List (List Nat) :=\n  [", name)
		for i := range t.consts {
			if i > 0 {
				w(", ")
			}
			w("%s", leanNatList(t.operands[i]))
		}
		w("]\n\n")
	}
	tbl("opcodeOperandsTable", v2)
	w("/-- `OpcodeOperands[op]`; `none` = index out of range (a Go panic) -/\n")
	w("def opcodeOperands (op : Nat) : Option (List Nat) := opcodeOperandsTable[op]?\n")
	w("def opcodeName (op : Nat) : Option String := opcodeNamesTable[op]?\n\n")
	w("/-! ### version 1 (encoder/opv1/opcodes_v1.go) -/\nnamespace V1\n")
	for i, n := range v1.consts {
		w("def %s : Nat := %d\n", n, i)
	}
	w("\ndef numOpcodes : Nat := %d\n\n", len(v1.consts))
	tbl("opcodeOperandsTable", v1)
	w("def opcodeOperands (op : Nat) : Option (List Nat) := opcodeOperandsTable[op]?\n")
	w("end V1\n\n")
	w("/-! ### encoder/v1.go convCompFuncV1ToV2 -/\n")
	w("/-- the version-1 opcodes the converter re-encodes with MakeInstruction (every `case opv1...` list of the function) -/\n")
	w("def convJumpClass : List Nat := %s\n", leanNatList(jc))
	w("/-- the opcode whose zero operands are kept (`op != opv1.X || pos != 0`) -/\n")
	w("def convKeepZeroOp : Nat := %d\n\n", keepZero)
	w("/-! ### MakeInstruction (%s) -/\n", mkFile)
	w("/-- largest accepted operand per operand width (`arg > maxVal` is an error, `arg < 0` is an error) -/\n")
	w("def makeInstructionMax (width : Nat) : Nat :=\n  match width with\n")
	var lw []int
	for k := range limits {
		lw = append(lw, k)
	}
	sort.Ints(lw)
	for _, k := range lw {
		w("  | %d => %d\n", k, limits[k])
	}
	w("  | _ => 0\n\n")
	w("/-- byte layout after the opcode byte: `(k, s)` stands for `byte(args[k] >> s)`; `none` = the default case (error) -/\n")
	w("def makeInstructionLayout (op : Nat) : Option (List (Nat × Nat)) :=\n  match op with\n")
	var lo []int
	for k := range layout {
		lo = append(lo, k)
	}
	sort.Ints(lo)
	for _, k := range lo {
		var ps []string
		for _, b := range layout[k] {
			ps = append(ps, fmt.Sprintf("(%d, %d)", b.arg, b.shift))
		}
		w("  | %d => some [%s]\n", k, strings.Join(ps, ", "))
	}
	w("  | _ => none\n\n")
	w("/-! ### ReadOperands (opcodes.go) -/\n")
	w("/-- operand widths ReadOperands reads (big-endian); any other width reads nothing and still advances -/\n")
	w("def readOperandsWidths : List Nat := %s\n\n", leanNatList(rw))
	w("end UgoVerif.Gen.Opcodes\n")
	return sb.String(), nil
}
