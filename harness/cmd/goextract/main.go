// goextract regenerates /verif/lean/UgoVerif/Gen/*.lean from the Go sources of
// ozanh/ugo.  Usage: goextract <repo> <outdir>.  It fails closed (exit 2) on
// any construct outside the supported subset.
package main

import (
	"fmt"
	"os"
	"path/filepath"
)

type genFile struct {
	name string
	gen  func(repo string) (string, error)
}

var files = []genFile{
	{"Numeric.lean", genNumeric},
	{"NumericSimp.lean", genNumericSimp},
	{"Tokens.lean", genTokens},
	{"Fold.lean", genFold},
	{"Unary.lean", genUnary},
	{"JsonTables.lean", genJsonTables},
	{"SymFacts.lean", genSymFacts},
	{"ConvReg.lean", genConvReg},
	{"Conv.lean", genConv},
	{"Opcodes.lean", genOpcodes},
	{"AbortOps.lean", genAbortOps},
	{"VmFields.lean", genVmFields},
	{"Limits.lean", genLimits},
	{"Adapters.lean", genAdapters},
	{"EncTags.lean", genEncTags},
	{"EncBuiltins.lean", genEncBuiltins},
	{"EncDispatch.lean", genEncDispatch},
	{"VmWrites.lean", genVmWrites},
}

func main() {
	if len(os.Args) != 3 {
		fmt.Fprintln(os.Stderr, "usage: goextract <repo> <outdir>")
		os.Exit(2)
	}
	repo, out := os.Args[1], os.Args[2]
	if err := os.MkdirAll(out, 0o755); err != nil {
		fmt.Fprintln(os.Stderr, err)
		os.Exit(2)
	}
	want := map[string]bool{}
	rc := 0
	for _, f := range files {
		want[f.name] = true
		p := filepath.Join(out, f.name)
		s, err := f.gen(repo)
		if err != nil {
			// a generation failure is a broken obligation: leave a file that does not compile
			fmt.Fprintf(os.Stderr, "GENFAIL %s: %v\n", f.name, err)
			s = fmt.Sprintf("-- GENERATION FAILED: %v\n#exit_with_error_generation_failed\n", err)
			rc = 3
		}
		old, _ := os.ReadFile(p)
		if string(old) != s {
			if err := os.WriteFile(p, []byte(s), 0o644); err != nil {
				fmt.Fprintln(os.Stderr, err)
				os.Exit(2)
			}
			fmt.Printf("wrote %s\n", p)
		}
	}
	// remove stale generated files
	ents, _ := os.ReadDir(out)
	for _, e := range ents {
		if !want[e.Name()] && filepath.Ext(e.Name()) == ".lean" {
			os.Remove(filepath.Join(out, e.Name()))
		}
	}
	os.Exit(rc)
}
