package main

// limits.go regenerates Gen/Limits.lean: the capacity limits the compiler enforces and the
// mechanism that turns an out-of-range instruction operand into an error (C05).
//   * maxVal per operand width of MakeInstruction (internal.MaxUint8/16, MaxInt32),
//   * const maxNumLocals,
//   * the `bc.Main.NumLocals > N` checks of compileScript / compileModule / compileFuncLit
//     (each must return an error),
//   * emit / changeOperand panic only with `&operandError{…}`,
//   * compileScript defers a recover() that converts `*operandError` into the returned error
//     and re-panics anything else.
// Fails closed: a missing piece is a generation error.

import (
	"fmt"
	"go/ast"
	"go/token"
	"go/types"
	"path/filepath"
	"sort"
	"strings"
)

// funcOrMethod finds `func name(` or `func (c *Compiler) name(` in the files.
func funcOrMethod(fs []*ast.File, name string) *ast.FuncDecl {
	for _, f := range fs {
		for _, d := range f.Decls {
			if fd, ok := d.(*ast.FuncDecl); ok && fd.Name.Name == name && fd.Body != nil {
				return fd
			}
		}
	}
	return nil
}

// numLocalsCheck finds `if bc.Main.NumLocals > X { return …, <non-nil> }` in fd.
func numLocalsCheck(fd *ast.FuncDecl, consts map[string]int64) (int64, error) {
	var found []int64
	var ferr error
	ast.Inspect(fd.Body, func(n ast.Node) bool {
		is, ok := n.(*ast.IfStmt)
		if !ok {
			return true
		}
		be, ok := is.Cond.(*ast.BinaryExpr)
		if !ok || be.Op != token.GTR || exprString(be.X) != "bc.Main.NumLocals" {
			return true
		}
		v, err := constExpr(be.Y, consts)
		if err != nil {
			ferr = fmt.Errorf("%s: limit of the NumLocals check is not a constant: %s", fd.Name.Name, exprString(be.Y))
			return false
		}
		// the body must return with a last result that is not nil
		okRet := false
		for _, st := range is.Body.List {
			if rs, ok := st.(*ast.ReturnStmt); ok && len(rs.Results) > 0 {
				last := rs.Results[len(rs.Results)-1]
				if id, isID := last.(*ast.Ident); !isID || id.Name != "nil" {
					okRet = true
				}
			}
		}
		if !okRet {
			ferr = fmt.Errorf("%s: the NumLocals check does not return an error", fd.Name.Name)
			return false
		}
		found = append(found, v)
		return true
	})
	if ferr != nil {
		return 0, ferr
	}
	if len(found) != 1 {
		return 0, fmt.Errorf("%s: expected exactly one `bc.Main.NumLocals > N` check, found %d", fd.Name.Name, len(found))
	}
	return found[0], nil
}

// panicArgs lists the argument texts of every panic(...) call in fd.
func panicArgs(fd *ast.FuncDecl) []string {
	var out []string
	ast.Inspect(fd.Body, func(n ast.Node) bool {
		if ce, ok := n.(*ast.CallExpr); ok {
			if id, ok := ce.Fun.(*ast.Ident); ok && id.Name == "panic" && len(ce.Args) == 1 {
				out = append(out, types.ExprString(ce.Args[0]))
			}
		}
		return true
	})
	return out
}

func isOperandErrorLit(s string) bool { return strings.HasPrefix(s, "&operandError{") }

// recoverFacts inspects the deferred closures of compileScript.
func recoverFacts(fd *ast.FuncDecl) (recovers, repanicsOthers, assignsErr bool) {
	for _, st := range fd.Body.List {
		ds, ok := st.(*ast.DeferStmt)
		if !ok {
			continue
		}
		fl, ok := ds.Call.Fun.(*ast.FuncLit)
		if !ok {
			continue
		}
		var sawRecover, sawAssert, sawRepanic, sawAssign bool
		ast.Inspect(fl.Body, func(n ast.Node) bool {
			switch x := n.(type) {
			case *ast.CallExpr:
				if id, ok := x.Fun.(*ast.Ident); ok {
					if id.Name == "recover" {
						sawRecover = true
					}
					if id.Name == "panic" && len(x.Args) == 1 && exprString(x.Args[0]) == "r" {
						sawRepanic = true
					}
				}
			case *ast.TypeAssertExpr:
				if x.Type != nil && types.ExprString(x.Type) == "*operandError" {
					sawAssert = true
				}
			case *ast.AssignStmt:
				if x.Tok == token.ASSIGN && len(x.Lhs) == 2 && exprString(x.Lhs[1]) == "err" &&
					len(x.Rhs) == 2 && exprString(x.Rhs[0]) == "nil" && strings.HasSuffix(exprString(x.Rhs[1]), ".err") {
					sawAssign = true
				}
				if x.Tok == token.ASSIGN && len(x.Lhs) == 1 && exprString(x.Lhs[0]) == "err" &&
					len(x.Rhs) == 1 && strings.HasSuffix(exprString(x.Rhs[0]), ".err") {
					sawAssign = true
				}
			}
			return true
		})
		if sawRecover && sawAssert {
			return true, sawRepanic, sawAssign
		}
	}
	return false, false, false
}

func genLimits(repo string) (string, error) {
	_, fs, err := parseFiles(repo, "compiler.go", "compiler_nodes.go")
	if err != nil {
		return "", err
	}
	consts, err := internalConsts(repo)
	if err != nil {
		return "", err
	}
	env := map[string]int64{}
	for k, v := range consts {
		env[k] = v
		env["internal."+k] = v
	}
	// const maxNumLocals
	maxNumLocals := int64(-1)
	for _, d := range fs[0].Decls {
		gd, ok := d.(*ast.GenDecl)
		if !ok || gd.Tok != token.CONST {
			continue
		}
		for _, sp := range gd.Specs {
			vs := sp.(*ast.ValueSpec)
			for i, n := range vs.Names {
				if n.Name == "maxNumLocals" && i < len(vs.Values) {
					v, err := constExpr(vs.Values[i], env)
					if err != nil {
						return "", fmt.Errorf("maxNumLocals: %v", err)
					}
					maxNumLocals = v
				}
			}
		}
	}
	if maxNumLocals < 0 {
		return "", fmt.Errorf("const maxNumLocals not found in compiler.go")
	}
	env["maxNumLocals"] = maxNumLocals

	checks := map[string]int64{}
	for _, name := range []string{"compileScript", "compileModule", "compileFuncLit"} {
		fd := funcOrMethod(fs, name)
		if fd == nil {
			return "", fmt.Errorf("function %s not found", name)
		}
		v, err := numLocalsCheck(fd, env)
		if err != nil {
			return "", err
		}
		checks[name] = v
	}

	// emit / changeOperand
	type pf struct {
		operandErr int
		other      int
	}
	pfs := map[string]pf{}
	for _, name := range []string{"emit", "changeOperand"} {
		fd := funcOrMethod(fs, name)
		if fd == nil {
			return "", fmt.Errorf("method %s not found", name)
		}
		var p pf
		for _, a := range panicArgs(fd) {
			if isOperandErrorLit(a) {
				p.operandErr++
			} else {
				p.other++
			}
		}
		pfs[name] = p
	}
	cs := funcOrMethod(fs, "compileScript")
	recovers, repanics, assigns := recoverFacts(cs)
	// (*Compiler).compileFile: the same conversion for a Compiler that is used directly
	var fileRecovers, fileRepanics bool
	if cf := funcOrMethod(fs, "compileFile"); cf != nil {
		fileRecovers, fileRepanics, _ = recoverFacts(cf)
	}

	// maxVal per width (shared reader with Gen/Opcodes)
	v2, err := readOpTables(filepath.Join(repo, "opcodes.go"), "OpNoOp", true)
	if err != nil {
		return "", fmt.Errorf("opcodes.go: %v", err)
	}
	limits, _, mkFile, err := makeInstructionFacts(repo, v2.num)
	if err != nil {
		return "", err
	}

	b2s := func(b bool) string {
		if b {
			return "true"
		}
		return "false"
	}
	var sb strings.Builder
	w := func(f string, a ...any) { fmt.Fprintf(&sb, f, a...) }
	w("-- GENERATED by /verif/harness/cmd/goextract from compiler.go, compiler_nodes.go, internal/constants.go, %s (MakeInstruction) — DO NOT EDIT.\n", mkFile)
	w("-- Regenerated from /repo's working tree on every check run.  Core Lean only.\n")
	w("namespace UgoVerif.Gen.Limits\n\n")
	w("/-- `maxVal` of MakeInstruction per operand width (`arg > maxVal` is an error) -/\n")
	w("def maxVal (width : Nat) : Nat :=\n  match width with\n")
	var ws []int
	for k := range limits {
		ws = append(ws, k)
	}
	sort.Ints(ws)
	for _, k := range ws {
		w("  | %d => %d\n", k, limits[k])
	}
	w("  | _ => 0\n\n")
	w("/-- `const maxNumLocals` (compiler.go) -/\ndef maxNumLocals : Nat := %d\n\n", maxNumLocals)
	w("/-- limit `N` of the check `if bc.Main.NumLocals > N { return …error }` -/\n")
	w("def numLocalsCheck_compileScript : Nat := %d\n", checks["compileScript"])
	w("def numLocalsCheck_compileModule : Nat := %d\n", checks["compileModule"])
	w("def numLocalsCheck_compileFuncLit : Nat := %d\n\n", checks["compileFuncLit"])
	w("/-- panic calls of `emit` / `changeOperand`: with `&operandError{…}` and with anything else -/\n")
	w("def emitOperandErrorPanics : Nat := %d\n", pfs["emit"].operandErr)
	w("def emitOtherPanics : Nat := %d\n", pfs["emit"].other)
	w("def changeOperandOperandErrorPanics : Nat := %d\n", pfs["changeOperand"].operandErr)
	w("def changeOperandOtherPanics : Nat := %d\n\n", pfs["changeOperand"].other)
	w("/-- compileScript defers `recover()` with the assertion `r.(*operandError)` -/\n")
	w("def compileScriptRecoversOperandError : Bool := %s\n", b2s(recovers))
	w("/-- … re-panics any other panic value (`panic(r)`) -/\n")
	w("def compileScriptRepanicsOthers : Bool := %s\n", b2s(repanics))
	w("/-- … and assigns `bc, err = nil, oe.err` -/\n")
	w("def compileScriptReturnsOperandError : Bool := %s\n", b2s(assigns))
	w("/-- (*Compiler).compileFile (the `*parser.File` case of Compile) recovers `*operandError` as well and re-panics others -/\n")
	w("def compileFileRecoversOperandError : Bool := %s\n\n", b2s(fileRecovers && fileRepanics))
	w("end UgoVerif.Gen.Limits\n")
	return sb.String(), nil
}
