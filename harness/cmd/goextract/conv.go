package main

// Generator for C20: the three conversion type switches of ugo.go (ToObject,
// ToObjectAlt, ToInterface) -> Gen/Conv.lean, and the table of converters that
// packages register with registry.Register{Object,Any}Converter -> Gen/ConvReg.lean.
//
// Scalar cases are translated expression by expression (which Go type maps to
// which uGO constructor through which width conversion).  The few statement
// idioms (element loops over []any / map[string]any / Array / Map / SyncMap,
// the registry fall-back in `default`) are recognised by comparing the printed
// source of the case body with a fixed template and rendered as the
// corresponding list recursion.  Everything else fails closed.

import (
	"bytes"
	"fmt"
	"go/ast"
	"go/parser"
	"go/printer"
	"go/token"
	"os"
	"path/filepath"
	"sort"
	"strings"
)

type cerr struct{ msg string }

func cfail(f string, a ...any) { panic(cerr{fmt.Sprintf(f, a...)}) }

func ccatch(f func()) (err error) {
	defer func() {
		if r := recover(); r != nil {
			if x, ok := r.(cerr); ok {
				err = fmt.Errorf("goextract: unsupported construct: %s", x.msg)
				return
			}
			panic(r)
		}
	}()
	f()
	return nil
}

func src(n any) string {
	var b bytes.Buffer
	if err := printer.Fprint(&b, token.NewFileSet(), n); err != nil {
		cfail("cannot print node: %v", err)
	}
	return b.String()
}

func srcStmts(ss []ast.Stmt) string {
	var out []string
	for _, s := range ss {
		out = append(out, src(s))
	}
	return strings.Join(out, "\n")
}

// typeString is the canonical spelling of a case type (aliases resolved).
func typeString(e ast.Expr) string {
	switch x := e.(type) {
	case *ast.Ident:
		switch x.Name {
		case "rune":
			return "int32"
		case "byte":
			return "uint8"
		}
		return x.Name
	case *ast.ArrayType:
		if x.Len == nil {
			return "[]" + typeString(x.Elt)
		}
	case *ast.MapType:
		return "map[" + typeString(x.Key) + "]" + typeString(x.Value)
	case *ast.StarExpr:
		return "*" + typeString(x.X)
	case *ast.InterfaceType:
		if x.Methods == nil || len(x.Methods.List) == 0 {
			return "any"
		}
	case *ast.SelectorExpr:
		return typeString(x.X) + "." + x.Sel.Name
	case *ast.ParenExpr:
		return typeString(x.X)
	}
	cfail("type expression %s", src(e))
	return ""
}

// ---------------------------------------------------------------------------
// payload kinds

type kind struct {
	name   string
	width  int  // integers
	signed bool // integers
}

var (
	kNone     = kind{name: "none"}
	kBool     = kind{name: "bool"}
	kString   = kind{name: "string"}
	kF64      = kind{name: "f64"}
	kF32      = kind{name: "f32"}
	kBytes    = kind{name: "bytes"}
	kSlice    = kind{name: "slice"}
	kMap      = kind{name: "map"}
	kObjSlice = kind{name: "objslice"}
	kObjMap   = kind{name: "objmap"}
	kObject   = kind{name: "object"}
	kCallable = kind{name: "callable"}
	kError    = kind{name: "error"}
	kSyncMap  = kind{name: "syncmap"}
)

func kInt(w int, signed bool) kind { return kind{name: "int", width: w, signed: signed} }

// variant of a case type: one constructor of the Lean inductive.
type variant struct {
	pat   string // Lean pattern, binding the payload as `v` (and `id` for errors)
	isNil bool   // the Go value is nil (nil slice / map / func / pointer)
}

type caseType struct {
	k        kind
	variants []variant
}

// Go types that may appear as cases of ToObject / ToObjectAlt -> GoVal constructors.
var goCaseTypes = map[string]caseType{
	"nil":               {kNone, []variant{{".nil", true}}},
	"string":            {kString, []variant{{".string v", false}}},
	"int64":             {kInt(64, true), []variant{{".int64 v", false}}},
	"int":               {kInt(64, true), []variant{{".int v", false}}},
	"int32":             {kInt(32, true), []variant{{".int32 v", false}}},
	"int16":             {kInt(16, true), []variant{{".int16 v", false}}},
	"int8":              {kInt(8, true), []variant{{".int8 v", false}}},
	"uint64":            {kInt(64, false), []variant{{".uint64 v", false}}},
	"uint":              {kInt(64, false), []variant{{".uint v", false}}},
	"uintptr":           {kInt(64, false), []variant{{".uintptr v", false}}},
	"uint32":            {kInt(32, false), []variant{{".uint32 v", false}}},
	"uint16":            {kInt(16, false), []variant{{".uint16 v", false}}},
	"uint8":             {kInt(8, false), []variant{{".uint8 v", false}}},
	"float64":           {kF64, []variant{{".float64 v", false}}},
	"float32":           {kF32, []variant{{".float32 v", false}}},
	"bool":              {kBool, []variant{{".bool v", false}}},
	"[]uint8":           {kBytes, []variant{{".bytesNil", true}, {".bytes v", false}}},
	"[]any":             {kSlice, []variant{{".sliceNil", true}, {".slice v", false}}},
	"map[string]any":    {kMap, []variant{{".mapNil", true}, {".map v", false}}},
	"[]Object":          {kObjSlice, []variant{{".objSliceNil", true}, {".objSlice v", false}}},
	"map[string]Object": {kObjMap, []variant{{".objMapNil", true}, {".objMap v", false}}},
	"Object":            {kObject, []variant{{".object v", false}}},
	"CallableFunc":      {kCallable, []variant{{".callableNil", true}, {".callable v", false}}},
	"error":             {kError, []variant{{".errorNilPtr v", true}, {".error v id", false}}},
}

// every constructor of GoVal (Go/GoVal.lean), in declaration order, as a pattern
var goValCtors = []string{
	".nil", ".int64 v", ".int v", ".int32 v", ".int16 v", ".int8 v", ".uint64 v", ".uint v", ".uintptr v",
	".uint32 v", ".uint16 v", ".uint8 v", ".float64 v", ".float32 v", ".bool v", ".string v",
	".bytesNil", ".bytes v", ".sliceNil", ".slice v", ".mapNil", ".map v", ".objSliceNil", ".objSlice v",
	".objMapNil", ".objMap v", ".object v", ".callableNil", ".callable v", ".errorNilPtr v", ".error v id",
	".duration v", ".time v", ".timePtrNil", ".timePtr v", ".locPtrNil", ".locPtr v", ".rawNil", ".raw v",
	".ptr v id", ".unsupported v",
}

// uGO types that may appear as cases of ToInterface -> Obj constructors.
var objCaseTypes = map[string]caseType{
	"Int":            {kInt(64, true), []variant{{".int v", false}}},
	"Uint":           {kInt(64, false), []variant{{".uint v", false}}},
	"Char":           {kInt(32, true), []variant{{".char v", false}}},
	"Float":          {kF64, []variant{{".float v", false}}},
	"Bool":           {kBool, []variant{{".bool v", false}}},
	"String":         {kString, []variant{{".str v", false}}},
	"Bytes":          {kBytes, []variant{{".bytesNil", true}, {".bytes v", false}}},
	"Array":          {kObjSlice, []variant{{".array v", false}}},
	"Map":            {kObjMap, []variant{{".map v", false}}},
	"*SyncMap":       {kSyncMap, []variant{{".syncMapNil", true}, {".syncMap v", false}}},
	"*UndefinedType": {kNone, []variant{{".undefined", false}}},
}

var objCtors = []string{
	".goNil", ".undefined", ".int v", ".uint v", ".float v", ".char v", ".bool v", ".str v", ".bytesNil",
	".bytes v", ".array v", ".map v", ".syncMapNil", ".syncMap v", ".func v", ".error v id", ".timeNil",
	".time v", ".locationNil", ".location v", ".rawMessageNil", ".rawMessage v", ".scanArgNil",
	".scanArg v", ".other v id",
}

func ctorName(pat string) string { return strings.Fields(pat)[0] }

// convInt renders the Go conversion between integer types on BitVec payloads.
func convInt(e string, from kind, toW int) string {
	switch {
	case from.width == toW:
		return e
	case from.width < toW && from.signed:
		return fmt.Sprintf("(BitVec.signExtend %d %s)", toW, e)
	default: // zero extension or truncation
		return fmt.Sprintf("(BitVec.setWidth %d %s)", toW, e)
	}
}

// ---------------------------------------------------------------------------
// ToObject / ToObjectAlt

type convFn struct {
	name  string // Go name
	lean  string // Lean name
	bound string // variable bound by the type switch
}

const loopSliceTmpl = `arr := make(Array, len(v))
for i, vv := range v {
	obj, err := FN(vv)
	if err != nil {
		return nil, err
	}
	arr[i] = obj
}
ret = arr`

const loopMapTmpl = `m := make(Map, len(v))
for vk, vv := range v {
	vo, err := FN(vv)
	if err != nil {
		return nil, err
	}
	m[vk] = vo
}
ret = m`

const defaultObjTmpl = `if out, ok := registry.ToObject(v); ok {
	ret, ok = out.(Object)
	if ok {
		return
	}
}
err = fmt.Errorf("cannot convert to object: %T", v)`

// uGO value expression assigned to `ret` in ToObject/ToObjectAlt.
func (f *convFn) objExpr(e ast.Expr, k kind, vr variant) string {
	text := src(e)
	switch text {
	case "Undefined":
		return ".undefined"
	case "True":
		return "(.bool true)"
	case "False":
		return "(.bool false)"
	case "Bytes{}":
		return "(.bytes [])"
	case "Array{}":
		return "(.array [])"
	case "Map{}":
		return "(.map [])"
	case f.bound:
		if k == kObject {
			return "v"
		}
		cfail("%s: `ret = %s` for a value that is not an Object", f.name, text)
	case "&Function{Value: " + f.bound + "}":
		if k == kCallable && !vr.isNil {
			return "(.func v)"
		}
		cfail("%s: function wrapper for %s (nil=%v)", f.name, k.name, vr.isNil)
	case "&Error{Message: " + f.bound + ".Error(), Cause: " + f.bound + "}":
		if k == kError && !vr.isNil {
			return "(.error v id)"
		}
		if k == kError && vr.isNil {
			// v.Error() on a nil pointer: the method dereferences its receiver
			return "PANIC"
		}
		cfail("%s: error wrapper for %s", f.name, k.name)
	}
	call, ok := e.(*ast.CallExpr)
	if ok && len(call.Args) == 1 && src(call.Args[0]) == f.bound {
		if id, ok := call.Fun.(*ast.Ident); ok {
			switch id.Name {
			case "String":
				if k == kString {
					return "(.str v)"
				}
			case "Int", "Uint":
				if k.name == "int" {
					c := ".int"
					if id.Name == "Uint" {
						c = ".uint"
					}
					return "(" + c + " " + convInt("v", k, 64) + ")"
				}
			case "Char":
				if k.name == "int" {
					return "(.char " + convInt("v", k, 32) + ")"
				}
			case "Float":
				if k == kF64 {
					return "(.float v)"
				}
				if k == kF32 {
					return "(.float (C.f32to64 v))"
				}
			case "Bytes":
				if k == kBytes {
					if vr.isNil {
						return ".bytesNil"
					}
					return "(.bytes v)"
				}
			case "Array":
				if k == kObjSlice && !vr.isNil {
					return "(.array v)"
				}
			case "Map":
				if k == kObjMap && !vr.isNil {
					return "(.map v)"
				}
			}
		}
	}
	cfail("%s: value expression `%s` for a %s (nil=%v)", f.name, text, k.name, vr.isNil)
	return ""
}

// objStmts renders the body of one case for one variant.
func (f *convFn) objStmts(ss []ast.Stmt, k kind, vr variant) string {
	text := srcStmts(ss)
	tm := func(t string) string { return strings.ReplaceAll(t, "FN", f.name) }
	arg := "v"
	if vr.isNil {
		arg = "[]" // len(nil) = 0 and ranging over nil does nothing
	}
	switch {
	case text == tm(loopSliceTmpl) && k == kSlice:
		return fmt.Sprintf("do let arr ← %s_list C %s; .ok (.array arr)", f.lean, arg)
	case text == tm(loopMapTmpl) && k == kMap:
		return fmt.Sprintf("do let m ← %s_kvs C %s; .ok (.map m)", f.lean, arg)
	}
	if len(ss) != 1 {
		cfail("%s: case body\n%s", f.name, text)
	}
	switch s := ss[0].(type) {
	case *ast.AssignStmt:
		if len(s.Lhs) == 1 && len(s.Rhs) == 1 && s.Tok == token.ASSIGN && src(s.Lhs[0]) == "ret" {
			e := f.objExpr(s.Rhs[0], k, vr)
			if e == "PANIC" {
				return `.panic "runtime error: invalid memory address or nil pointer dereference"`
			}
			return ".ok " + e
		}
	case *ast.IfStmt:
		if s.Init == nil && s.Else != nil {
			els, ok := s.Else.(*ast.BlockStmt)
			if !ok {
				cfail("%s: else-if", f.name)
			}
			cond := src(s.Cond)
			switch {
			case cond == f.bound && k == kBool:
				return fmt.Sprintf("if v then %s else %s", f.objStmts(s.Body.List, k, vr), f.objStmts(els.List, k, vr))
			case cond == f.bound+" != nil" && (k == kBytes || k == kSlice || k == kMap || k == kObjSlice || k == kObjMap || k == kCallable):
				if vr.isNil {
					return f.objStmts(els.List, k, vr)
				}
				return f.objStmts(s.Body.List, k, vr)
			case cond == "isNilPointer("+f.bound+")" && k == kError:
				if vr.isNil {
					return f.objStmts(s.Body.List, k, vr)
				}
				return f.objStmts(els.List, k, vr)
			}
		}
	}
	cfail("%s: case body\n%s", f.name, text)
	return ""
}

func findFunc(files []*ast.File, name string) *ast.FuncDecl {
	for _, f := range files {
		for _, d := range f.Decls {
			if fd, ok := d.(*ast.FuncDecl); ok && fd.Recv == nil && fd.Name.Name == name {
				return fd
			}
		}
	}
	cfail("function %s not found", name)
	return nil
}

// switchOf checks the shape `switch x := x.(type) { ... }; return` and returns the switch.
func switchOf(fd *ast.FuncDecl, param string, results string) (*ast.TypeSwitchStmt, string) {
	if got := src(&ast.FuncType{Params: fd.Type.Params, Results: fd.Type.Results}); got != results {
		cfail("%s: signature %s", fd.Name.Name, got)
	}
	if len(fd.Body.List) != 2 {
		cfail("%s: body is not `switch …; return`", fd.Name.Name)
	}
	ts, ok := fd.Body.List[0].(*ast.TypeSwitchStmt)
	ret, ok2 := fd.Body.List[1].(*ast.ReturnStmt)
	if !ok || !ok2 || len(ret.Results) != 0 || ts.Init != nil {
		cfail("%s: body is not `switch …; return`", fd.Name.Name)
	}
	as, ok := ts.Assign.(*ast.AssignStmt)
	if !ok || len(as.Lhs) != 1 || len(as.Rhs) != 1 {
		cfail("%s: type switch header", fd.Name.Name)
	}
	ta, ok := as.Rhs[0].(*ast.TypeAssertExpr)
	if !ok || ta.Type != nil || src(ta.X) != param {
		cfail("%s: type switch header", fd.Name.Name)
	}
	return ts, src(as.Lhs[0])
}

func genToObject(files []*ast.File, goName, leanName string) string {
	fd := findFunc(files, goName)
	ts, bound := switchOf(fd, "v", "func(v any) (ret Object, err error)")
	f := &convFn{name: goName, lean: leanName, bound: bound}
	if bound != "v" {
		cfail("%s: switch variable %s", goName, bound)
	}
	var arms []string
	seen := map[string]bool{}
	hasDefault := false
	posObject, posError := -1, -1
	for i, c := range ts.Body.List {
		cc := c.(*ast.CaseClause)
		if cc.List == nil {
			if got := srcStmts(cc.Body); got != defaultObjTmpl {
				cfail("%s: default case\n%s", goName, got)
			}
			hasDefault = true
			continue
		}
		if len(cc.List) != 1 {
			cfail("%s: case with several types", goName)
		}
		tn := typeString(cc.List[0])
		ct, ok := goCaseTypes[tn]
		if !ok {
			cfail("%s: case type %s", goName, tn)
		}
		if tn == "Object" {
			posObject = i
		}
		if tn == "error" {
			posError = i
		}
		for _, vr := range ct.variants {
			if seen[ctorName(vr.pat)] {
				cfail("%s: duplicate case %s", goName, tn)
			}
			seen[ctorName(vr.pat)] = true
			arms = append(arms, fmt.Sprintf("  | %s => %s   -- case %s", vr.pat, f.objStmts(cc.Body, ct.k, vr), tn))
		}
	}
	if !hasDefault {
		cfail("%s: no default case", goName)
	}
	// GoVal.error / errorNilPtr stand for errors that are not Objects, GoVal.object for
	// every Object (including *Error): that reading needs `case Object` before `case error`.
	if posObject >= 0 && posError >= 0 && posError < posObject {
		cfail("%s: `case error` precedes `case Object`", goName)
	}
	for _, p := range goValCtors {
		if !seen[ctorName(p)] {
			arms = append(arms, fmt.Sprintf("  | %s => Model.Conv.toObjectDefault (GoVal%s)   -- default", p, p))
		}
	}
	var sb strings.Builder
	fmt.Fprintf(&sb, "mutual\n/-- ugo.go `%s` -/\ndef %s (C : ConvOps) : GoVal → Res Obj\n", goName, leanName)
	for _, a := range arms {
		sb.WriteString(a + "\n")
	}
	fmt.Fprintf(&sb, `/-- the element loop over a []any: in order, the first failure is returned -/
def %[1]s_list (C : ConvOps) : List GoVal → Res (List Obj)
  | [] => .ok []
  | x :: xs => do
    let o ← %[1]s C x
    let os ← %[1]s_list C xs
    .ok (o :: os)
/-- the element loop over a map[string]any -/
def %[1]s_kvs (C : ConvOps) : List (Bytes × GoVal) → Res (List (Bytes × Obj))
  | [] => .ok []
  | (k, x) :: rest => do
    let o ← %[1]s C x
    let os ← %[1]s_kvs C rest
    .ok ((k, o) :: os)
end
`, leanName)
	return sb.String()
}

// ---------------------------------------------------------------------------
// ToInterface

const ifaceArrayTmpl = `arr := make([]any, len(o))
for i, val := range o {
	arr[i] = ToInterface(val)
}
ret = arr`

const ifaceMapTmpl = `m := make(map[string]any, len(o))
for key, v := range o {
	m[key] = ToInterface(v)
}
ret = m`

const ifaceSyncMapBody = `o.RLock()
defer o.RUnlock()
m := make(map[string]any, len(o.Value))
for key, v := range o.Value {
	m[key] = ToInterface(v)
}
ret = m`

const ifaceSyncMapGuard = `if o == nil {
	return map[string]any{}
}
`

const defaultIfaceTmpl = `if out, ok := registry.ToInterface(o); ok {
	ret = out
} else {
	ret = o
}`

var goScalarTargets = map[string]struct {
	ctor string
	k    kind
}{
	"int64": {".int64", kInt(64, true)}, "int": {".int", kInt(64, true)}, "int32": {".int32", kInt(32, true)},
	"int16": {".int16", kInt(16, true)}, "int8": {".int8", kInt(8, true)},
	"uint64": {".uint64", kInt(64, false)}, "uint": {".uint", kInt(64, false)}, "uintptr": {".uintptr", kInt(64, false)},
	"uint32": {".uint32", kInt(32, false)}, "uint16": {".uint16", kInt(16, false)}, "uint8": {".uint8", kInt(8, false)},
	"float64": {".float64", kF64}, "bool": {".bool", kBool}, "string": {".string", kString}, "[]uint8": {".bytes", kBytes},
}

func ifaceStmts(ss []ast.Stmt, k kind, vr variant) string {
	text := srcStmts(ss)
	switch {
	case text == ifaceArrayTmpl && k == kObjSlice:
		return "do let arr ← toInterface_list v; .ok (.slice arr)"
	case text == ifaceMapTmpl && k == kObjMap:
		return "do let m ← toInterface_kvs v; .ok (.map m)"
	case k == kSyncMap && text == ifaceSyncMapGuard+ifaceSyncMapBody:
		if vr.isNil {
			return ".ok (.map [])"
		}
		return "do let m ← toInterface_kvs v; .ok (.map m)"
	case k == kSyncMap && text == ifaceSyncMapBody:
		if vr.isNil {
			return `.panic "runtime error: invalid memory address or nil pointer dereference"`
		}
		return "do let m ← toInterface_kvs v; .ok (.map m)"
	}
	if len(ss) == 1 {
		if s, ok := ss[0].(*ast.AssignStmt); ok && len(s.Lhs) == 1 && len(s.Rhs) == 1 && s.Tok == token.ASSIGN && src(s.Lhs[0]) == "ret" {
			if src(s.Rhs[0]) == "nil" {
				return ".ok .nil"
			}
			if call, ok := s.Rhs[0].(*ast.CallExpr); ok && len(call.Args) == 1 && src(call.Args[0]) == "o" {
				tn := typeString(call.Fun)
				if tg, ok := goScalarTargets[tn]; ok {
					switch {
					case k.name == "int" && tg.k.name == "int":
						return fmt.Sprintf(".ok (%s %s)", tg.ctor, convInt("v", k, tg.k.width))
					case k == tg.k && k == kBytes:
						if vr.isNil {
							return ".ok .bytesNil"
						}
						return ".ok (.bytes v)"
					case k == tg.k && (k == kF64 || k == kBool || k == kString):
						return fmt.Sprintf(".ok (%s v)", tg.ctor)
					}
				}
			}
		}
	}
	cfail("ToInterface: case body for %s\n%s", k.name, text)
	return ""
}

func genToInterface(files []*ast.File) string {
	fd := findFunc(files, "ToInterface")
	ts, bound := switchOf(fd, "o", "func(o Object) (ret any)")
	if bound != "o" {
		cfail("ToInterface: switch variable %s", bound)
	}
	var arms []string
	seen := map[string]bool{}
	hasDefault := false
	for _, c := range ts.Body.List {
		cc := c.(*ast.CaseClause)
		if cc.List == nil {
			if got := srcStmts(cc.Body); got != defaultIfaceTmpl {
				cfail("ToInterface: default case\n%s", got)
			}
			hasDefault = true
			continue
		}
		if len(cc.List) != 1 {
			cfail("ToInterface: case with several types")
		}
		tn := typeString(cc.List[0])
		ct, ok := objCaseTypes[tn]
		if !ok {
			cfail("ToInterface: case type %s", tn)
		}
		for _, vr := range ct.variants {
			if seen[ctorName(vr.pat)] {
				cfail("ToInterface: duplicate case %s", tn)
			}
			seen[ctorName(vr.pat)] = true
			arms = append(arms, fmt.Sprintf("  | %s => %s   -- case %s", vr.pat, ifaceStmts(cc.Body, ct.k, vr), tn))
		}
	}
	if !hasDefault {
		cfail("ToInterface: no default case")
	}
	for _, p := range objCtors {
		if !seen[ctorName(p)] {
			arms = append(arms, fmt.Sprintf("  | %s => Model.Conv.toInterfaceDefault (Obj%s)   -- default", p, p))
		}
	}
	var sb strings.Builder
	sb.WriteString("mutual\n/-- ugo.go `ToInterface` -/\ndef toInterface : Obj → Res GoVal\n")
	for _, a := range arms {
		sb.WriteString(a + "\n")
	}
	sb.WriteString(`/-- the element loop over an Array -/
def toInterface_list : List Obj → Res (List GoVal)
  | [] => .ok []
  | x :: xs => do
    let g ← toInterface x
    let gs ← toInterface_list xs
    .ok (g :: gs)
/-- the element loop over a Map / SyncMap -/
def toInterface_kvs : List (Bytes × Obj) → Res (List (Bytes × GoVal))
  | [] => .ok []
  | (k, x) :: rest => do
    let g ← toInterface x
    let gs ← toInterface_kvs rest
    .ok ((k, g) :: gs)
end
`)
	return sb.String()
}

func genConv(repo string) (string, error) {
	_, fs, err := parseFiles(repo, "ugo.go")
	if err != nil {
		return "", err
	}
	var body string
	err = ccatch(func() {
		body = genToObject(fs, "ToObject", "toObject") + "\n" +
			genToObject(fs, "ToObjectAlt", "toObjectAlt") + "\n" +
			genToInterface(fs)
	})
	if err != nil {
		return "", err
	}
	hdr := `-- GENERATED by harness/cmd/goextract (conv.go) from ugo.go.  Do not edit.
import UgoVerif.Model.ConvReg
set_option linter.unusedVariables false
namespace UgoVerif.Gen.Conv
open UgoVerif UgoVerif.Go

`
	return hdr + body + "\nend UgoVerif.Gen.Conv\n", nil
}

// ---------------------------------------------------------------------------
// registry converters

type regEntry struct {
	file    string
	pos     token.Pos
	dir     string
	ty      string
	isPtr   bool
	nilSafe bool
}

// regTypeKey names the type of reflect.TypeOf's argument; types of the registering
// package itself are prefixed with "ugo" + package name (stdlib/time's Time -> ugotime.Time).
func regTypeKey(e ast.Expr, pkg string) string {
	q := func(t ast.Expr) string {
		switch x := t.(type) {
		case *ast.Ident:
			return "ugo" + pkg + "." + x.Name
		case *ast.SelectorExpr:
			return src(x)
		}
		cfail("registered type %s", src(t))
		return ""
	}
	var ty func(t ast.Expr) string
	ty = func(t ast.Expr) string {
		switch x := t.(type) {
		case *ast.ParenExpr:
			return ty(x.X)
		case *ast.StarExpr:
			return "*" + ty(x.X)
		}
		return q(t)
	}
	switch x := e.(type) {
	case *ast.CallExpr: // T(0), (*T)(nil), T(nil)
		if len(x.Args) == 1 {
			return ty(x.Fun)
		}
	case *ast.CompositeLit: // T{}
		if len(x.Elts) == 0 {
			return ty(x.Type)
		}
	}
	cfail("reflect.TypeOf argument %s", src(e))
	return ""
}

type derefScan struct {
	param, v string
	ptr      bool
	unsafe   bool
}

// expr records dereferences of the asserted pointer in e.
func (d *derefScan) expr(e ast.Node, guarded bool) {
	if e == nil {
		return
	}
	ast.Inspect(e, func(n ast.Node) bool {
		var x ast.Expr
		switch s := n.(type) {
		case *ast.SelectorExpr:
			x = s.X
		case *ast.StarExpr:
			x = s.X
		case *ast.FuncLit:
			cfail("converter: nested function literal")
		default:
			return true
		}
		for {
			p, ok := x.(*ast.ParenExpr)
			if !ok {
				break
			}
			x = p.X
		}
		if id, ok := x.(*ast.Ident); ok && d.v != "" && id.Name == d.v {
			if d.ptr && !guarded {
				d.unsafe = true
			}
		}
		if ta, ok := x.(*ast.TypeAssertExpr); ok && src(ta.X) == d.param {
			if _, isPtr := ta.Type.(*ast.StarExpr); isPtr {
				d.unsafe = true // in.(*T).F: nothing can guard it
			}
		}
		return true
	})
}

func (d *derefScan) stmts(ss []ast.Stmt, guarded bool) bool {
	for _, s := range ss {
		switch s := s.(type) {
		case *ast.AssignStmt:
			for _, r := range s.Rhs {
				d.expr(r, guarded)
			}
			for _, l := range s.Lhs {
				if id, ok := l.(*ast.Ident); ok && id.Name == d.v && s.Tok == token.ASSIGN {
					cfail("converter: asserted variable reassigned")
				}
				if _, ok := l.(*ast.Ident); !ok {
					d.expr(l, guarded)
				}
			}
		case *ast.ReturnStmt:
			for _, r := range s.Results {
				d.expr(r, guarded)
			}
		case *ast.IfStmt:
			if s.Init != nil {
				cfail("converter: if with init")
			}
			cond := src(s.Cond)
			switch {
			case d.v != "" && cond == d.v+" == nil":
				d.stmts(s.Body.List, false)
				last := s.Body.List[len(s.Body.List)-1]
				if _, ok := last.(*ast.ReturnStmt); !ok {
					cfail("converter: nil branch does not return")
				}
				if s.Else != nil {
					cfail("converter: else after nil guard")
				}
				guarded = true
			case d.v != "" && (cond == d.v+" != nil" || strings.HasPrefix(cond, d.v+" != nil && ")):
				if be, ok := s.Cond.(*ast.BinaryExpr); ok && be.Op == token.LAND {
					d.expr(be.Y, true)
				}
				d.stmts(s.Body.List, true)
				if s.Else != nil {
					eb, ok := s.Else.(*ast.BlockStmt)
					if !ok {
						cfail("converter: else-if")
					}
					d.stmts(eb.List, guarded)
				}
			default:
				d.expr(s.Cond, guarded)
				d.stmts(s.Body.List, guarded)
				if s.Else != nil {
					eb, ok := s.Else.(*ast.BlockStmt)
					if !ok {
						cfail("converter: else-if")
					}
					d.stmts(eb.List, guarded)
				}
			}
		default:
			cfail("converter: statement %s", src(s))
		}
	}
	return guarded
}

func scanConverter(fl *ast.FuncLit, want string, pkg string) (isPtr, nilSafe bool) {
	if len(fl.Type.Params.List) != 1 || len(fl.Type.Params.List[0].Names) != 1 {
		cfail("converter parameters")
	}
	d := &derefScan{param: fl.Type.Params.List[0].Names[0].Name}
	isPtr = strings.HasPrefix(want, "*")
	d.ptr = isPtr
	// the asserted type must be the registered type
	nAssert := 0
	ast.Inspect(fl.Body, func(n ast.Node) bool {
		if ta, ok := n.(*ast.TypeAssertExpr); ok && src(ta.X) == d.param {
			nAssert++
			got := regTypeKey(&ast.CallExpr{Fun: ta.Type, Args: []ast.Expr{ast.NewIdent("nil")}}, pkg)
			if got != want {
				cfail("converter registered for %s asserts %s", want, got)
			}
		}
		return true
	})
	if nAssert != 1 {
		cfail("converter for %s: %d type assertions on its argument", want, nAssert)
	}
	if len(fl.Body.List) > 0 {
		if as, ok := fl.Body.List[0].(*ast.AssignStmt); ok && as.Tok == token.DEFINE && len(as.Lhs) == 1 && len(as.Rhs) == 1 {
			if ta, ok := as.Rhs[0].(*ast.TypeAssertExpr); ok && src(ta.X) == d.param {
				d.v = src(as.Lhs[0])
			}
		}
	}
	d.stmts(fl.Body.List, false)
	return isPtr, !d.unsafe
}

func genConvReg(repo string) (string, error) {
	var entries []regEntry
	err := ccatch(func() {
		var paths []string
		filepath.Walk(repo, func(p string, info os.FileInfo, err error) error {
			if err != nil {
				return nil
			}
			if info.IsDir() {
				if n := info.Name(); n != "." && (strings.HasPrefix(n, ".") || n == "testdata") {
					return filepath.SkipDir
				}
				return nil
			}
			if strings.HasSuffix(p, ".go") && !strings.HasSuffix(p, "_test.go") {
				paths = append(paths, p)
			}
			return nil
		})
		sort.Strings(paths)
		for _, p := range paths {
			b, err := os.ReadFile(p)
			if err != nil || !bytes.Contains(b, []byte("Converter(")) {
				continue
			}
			fset := token.NewFileSet()
			f, err := parser.ParseFile(fset, p, b, 0)
			if err != nil {
				cfail("parse %s: %v", p, err)
			}
			rel, _ := filepath.Rel(repo, p)
			ast.Inspect(f, func(n ast.Node) bool {
				call, ok := n.(*ast.CallExpr)
				if !ok {
					return true
				}
				fn := src(call.Fun)
				var dir string
				switch fn {
				case "registry.RegisterObjectConverter":
					dir = "obj"
				case "registry.RegisterAnyConverter":
					dir = "any"
				default:
					return true
				}
				if len(call.Args) != 2 {
					cfail("%s: arity", fn)
				}
				tcall, ok := call.Args[0].(*ast.CallExpr)
				if !ok || src(tcall.Fun) != "reflect.TypeOf" || len(tcall.Args) != 1 {
					cfail("%s in %s: first argument is not reflect.TypeOf(…)", fn, rel)
				}
				ty := regTypeKey(tcall.Args[0], f.Name.Name)
				fl, ok := call.Args[1].(*ast.FuncLit)
				if !ok {
					cfail("%s in %s: converter is not a function literal", fn, rel)
				}
				isPtr, safe := scanConverter(fl, ty, f.Name.Name)
				entries = append(entries, regEntry{rel, call.Pos(), dir, ty, isPtr, safe})
				return true
			})
		}
	})
	if err != nil {
		return "", err
	}
	sort.SliceStable(entries, func(i, j int) bool {
		if entries[i].file != entries[j].file {
			return entries[i].file < entries[j].file
		}
		return entries[i].pos < entries[j].pos
	})
	var sb strings.Builder
	sb.WriteString(`-- GENERATED by harness/cmd/goextract (conv.go) from every registry.Register*Converter call of the repository.  Do not edit.
import UgoVerif.Go.GoVal
namespace UgoVerif.Gen.ConvReg
open UgoVerif.Go

/-- one entry per registered converter: direction, registered type, whether that type is
    a pointer, and whether every dereference of the asserted pointer is behind a nil guard -/
def registry : List RegEntry := [
`)
	for i, e := range entries {
		sep := ","
		if i == len(entries)-1 {
			sep = ""
		}
		fmt.Fprintf(&sb, "  { dir := %q, ty := %q, isPtr := %v, nilSafe := %v }%s   -- %s\n", e.dir, e.ty, e.isPtr, e.nilSafe, sep, e.file)
	}
	sb.WriteString("]\n\nend UgoVerif.Gen.ConvReg\n")
	return sb.String(), nil
}
