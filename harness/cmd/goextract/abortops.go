package main

// abortops.go regenerates Gen/AbortOps.lean: for every function of the abort /
// cancellation protocol (C09) the ordered list of synchronisation operations that
// occur in its body, read off the AST in source order:
//
//	X.mu.Lock() / X.mu.Unlock() / defer X.mu.Unlock()   lock, unlock, deferUnlock (+ unlock at every return)
//	X.abort.Store(n) / X.abort.Load()                   store, load
//	go func(){…}() / close(ch) / defer close(ch) / <-ch   goBegin…goEnd, close, recv
//	select { case <-e: … default: … }                   selectBegin, caseRecv e / caseDefault, …, selectEnd
//	for cond {…} / for … range X {…}                    loopBegin / rangeBegin X, …, loopEnd
//	if cond {…} else {…} (only when it contains ops)    ifBegin, …, elseBegin, …, ifEnd
//	return                                              (deferred unlocks / closes, LIFO), ret
//	calls of the protocol's own functions               call "recv.Method"
//	verifSync("name")                                   sync name
//	X.vms[vm] = …  /  delete(X.vms, vm)                  poolAdd, poolDel (pool membership)
//
// Everything else is dropped.  The generator fails closed: a protocol function that
// is missing, a Lock/Unlock/Store/Load in a syntactic position it does not
// understand (e.g. a method value, a Store with a non-literal argument) or a goto /
// labelled jump around a protocol operation aborts generation.

import (
	"fmt"
	"go/ast"
	"go/token"
	"sort"
	"strconv"
	"strings"
)

type aoFunc struct {
	key  string // "VM.Run" (receiver type . name) or plain function name
	lean string // Lean identifier
	file string
}

var aoFuncs = []aoFunc{
	{"VM.Abort", "VM_Abort", "vm.go"},
	{"VM.Aborted", "VM_Aborted", "vm.go"},
	{"VM.Run", "VM_Run", "vm.go"},
	{"VM.run", "VM_run", "vm.go"},
	{"VM.loop", "VM_loop", "vm.go"},
	{"Invoker.Acquire", "Invoker_Acquire", "vm.go"},
	{"Invoker.acquire", "Invoker_acquire", "vm.go"},
	{"Invoker.Release", "Invoker_Release", "vm.go"},
	{"Invoker.Invoke", "Invoker_Invoke", "vm.go"},
	{"vmPool.abort", "vmPool_abort", "vm.go"},
	{"vmPool.acquire", "vmPool_acquire", "vm.go"},
	{"vmPool._acquire", "vmPool__acquire", "vm.go"},
	{"vmPool.release", "vmPool_release", "vm.go"},
	{"vmPool._release", "vmPool__release", "vm.go"},
	{"Eval.run", "Eval_run", "eval.go"},
	{"executeScript", "executeScript", "cmd/ugo/main.go"},
}

// method names whose calls are protocol calls
var aoCallNames = map[string]bool{
	"Abort": true, "Aborted": true, "Run": true, "run": true, "loop": true,
	"Acquire": true, "acquire": true, "Release": true, "release": true, "Invoke": true,
	"abort": true, "_acquire": true, "_release": true,
}

type aoGen struct {
	ops      []string
	deferred [][]string // stack of deferred op groups per function literal level
	err      error
}

func (g *aoGen) emit(s string) { g.ops = append(g.ops, s) }
func (g *aoGen) fail(pos token.Pos, format string, a ...interface{}) {
	if g.err == nil {
		g.err = fmt.Errorf(format, a...)
	}
}

func exprText(e ast.Expr) string {
	switch x := e.(type) {
	case *ast.Ident:
		return x.Name
	case *ast.SelectorExpr:
		return exprText(x.X) + "." + x.Sel.Name
	case *ast.CallExpr:
		return exprText(x.Fun) + "()"
	case *ast.StarExpr:
		return "*" + exprText(x.X)
	case *ast.ParenExpr:
		return exprText(x.X)
	case *ast.UnaryExpr:
		return x.Op.String() + exprText(x.X)
	case *ast.IndexExpr:
		return exprText(x.X) + "[" + exprText(x.Index) + "]"
	case *ast.TypeAssertExpr:
		return exprText(x.X) + ".(T)"
	}
	return "?"
}

func q(s string) string { return strconv.Quote(s) }

// classify a call expression; returns the op string or "" when it is not a protocol op.
// recurse=false means the arguments/receiver still have to be visited by the caller.
func (g *aoGen) callOp(c *ast.CallExpr) string {
	switch f := c.Fun.(type) {
	case *ast.Ident:
		switch f.Name {
		case "verifSync":
			if len(c.Args) == 1 {
				if bl, ok := c.Args[0].(*ast.BasicLit); ok && bl.Kind == token.STRING {
					s, _ := strconv.Unquote(bl.Value)
					return ".sync " + q(s)
				}
			}
			g.fail(c.Pos(), "verifSync with a non-literal argument")
		case "close":
			if len(c.Args) == 1 {
				return ".close " + q(exprText(c.Args[0]))
			}
		case "delete":
			// removal of a child VM from the pool's membership map
			if len(c.Args) == 2 && strings.HasSuffix(exprText(c.Args[0]), ".vms") {
				return ".poolDel " + q(exprText(c.Args[0]))
			}
		}
	case *ast.SelectorExpr:
		name := f.Sel.Name
		recv := exprText(f.X)
		switch name {
		case "Lock", "Unlock":
			if strings.HasSuffix(recv, ".mu") || recv == "mu" {
				if name == "Lock" {
					return ".lock " + q(recv)
				}
				return ".unlock " + q(recv)
			}
		case "Store":
			if strings.HasSuffix(recv, ".abort") {
				if len(c.Args) == 1 {
					if bl, ok := c.Args[0].(*ast.BasicLit); ok && bl.Kind == token.INT {
						return ".store " + q(recv) + " " + bl.Value
					}
				}
				g.fail(c.Pos(), "abort.Store with a non-literal argument")
			}
		case "Load":
			if strings.HasSuffix(recv, ".abort") {
				return ".load " + q(recv)
			}
		case "Add", "Swap", "CompareAndSwap":
			if strings.HasSuffix(recv, ".abort") {
				g.fail(c.Pos(), "unsupported atomic operation %s on the abort flag", name)
			}
		default:
			if aoCallNames[name] {
				return ".call " + q(recv+"."+name)
			}
		}
	}
	return ""
}

// expr visits an expression in evaluation order and emits the ops it contains.
func (g *aoGen) expr(e ast.Expr) {
	if e == nil {
		return
	}
	switch x := e.(type) {
	case *ast.CallExpr:
		// receiver / function expression first, then arguments, then the call itself
		if se, ok := x.Fun.(*ast.SelectorExpr); ok {
			g.expr(se.X)
		} else if fl, ok := x.Fun.(*ast.FuncLit); ok {
			// immediately invoked literal: body inline
			g.pushDefer()
			g.block(fl.Body.List)
			g.popDefer()
			return
		}
		for _, a := range x.Args {
			g.expr(a)
		}
		if op := g.callOp(x); op != "" {
			g.emit(op)
		}
	case *ast.SelectorExpr:
		// a bare method value of a protocol operation is not understood
		if (x.Sel.Name == "Lock" || x.Sel.Name == "Unlock") && strings.HasSuffix(exprText(x.X), "mu") {
			g.fail(x.Pos(), "mutex method value")
		}
		if (x.Sel.Name == "Store" || x.Sel.Name == "Load") && strings.HasSuffix(exprText(x.X), ".abort") {
			g.fail(x.Pos(), "atomic method value")
		}
		g.expr(x.X)
	case *ast.UnaryExpr:
		if x.Op == token.ARROW {
			g.expr(x.X)
			g.emit(".recv " + q(exprText(x.X)))
			return
		}
		g.expr(x.X)
	case *ast.BinaryExpr:
		g.expr(x.X)
		g.expr(x.Y)
	case *ast.ParenExpr:
		g.expr(x.X)
	case *ast.StarExpr:
		g.expr(x.X)
	case *ast.IndexExpr:
		g.expr(x.X)
		g.expr(x.Index)
	case *ast.SliceExpr:
		g.expr(x.X)
		g.expr(x.Low)
		g.expr(x.High)
		g.expr(x.Max)
	case *ast.TypeAssertExpr:
		g.expr(x.X)
	case *ast.KeyValueExpr:
		g.expr(x.Key)
		g.expr(x.Value)
	case *ast.CompositeLit:
		for _, el := range x.Elts {
			g.expr(el)
		}
	case *ast.FuncLit:
		// a function literal that is not invoked here (callback): its body is a separate
		// piece of code; ops inside are recorded between funcBegin/funcEnd
		g.withMarkers(".funcBegin", ".funcEnd", func() {
			g.pushDefer()
			g.block(x.Body.List)
			g.flushDefer()
			g.popDefer()
		})
	}
}

// withMarkers emits begin, runs f, emits end; when f emitted nothing relevant the region is removed.
func (g *aoGen) withMarkers(begin, end string, f func()) {
	n := len(g.ops)
	g.emit(begin)
	f()
	// a region holding nothing but plain returns is not recorded (a `.ret` matters only
	// together with the deferred operations flushed in front of it)
	strong := false
	for _, o := range g.ops[n+1:] {
		if o != ".ret" {
			strong = true
		}
	}
	if !strong {
		g.ops = g.ops[:n]
		return
	}
	g.emit(end)
}

func (g *aoGen) pushDefer() { g.deferred = append(g.deferred, nil) }
func (g *aoGen) popDefer()  { g.deferred = g.deferred[:len(g.deferred)-1] }
func (g *aoGen) flushDefer() {
	d := g.deferred[len(g.deferred)-1]
	for i := len(d) - 1; i >= 0; i-- {
		g.emit(d[i])
	}
}

func (g *aoGen) block(list []ast.Stmt) {
	for _, s := range list {
		g.stmt(s)
	}
}

func (g *aoGen) stmt(s ast.Stmt) {
	switch x := s.(type) {
	case nil:
	case *ast.ExprStmt:
		g.expr(x.X)
	case *ast.AssignStmt:
		for _, r := range x.Rhs {
			g.expr(r)
		}
		for _, l := range x.Lhs {
			g.expr(l)
			// registration of a child VM in the pool's membership map
			if ix, ok := l.(*ast.IndexExpr); ok && strings.HasSuffix(exprText(ix.X), ".vms") {
				g.emit(".poolAdd " + q(exprText(ix.X)))
			}
		}
	case *ast.DeclStmt:
		if gd, ok := x.Decl.(*ast.GenDecl); ok {
			for _, sp := range gd.Specs {
				if vs, ok := sp.(*ast.ValueSpec); ok {
					for _, v := range vs.Values {
						g.expr(v)
					}
				}
			}
		}
	case *ast.IncDecStmt:
		g.expr(x.X)
	case *ast.SendStmt:
		g.expr(x.Chan)
		g.expr(x.Value)
		g.emit(".send " + q(exprText(x.Chan)))
	case *ast.DeferStmt:
		// deferred protocol op: marker now, effect at return
		if op := g.callOp(x.Call); op != "" {
			var d string
			switch {
			case strings.HasPrefix(op, ".unlock "):
				d = ".deferUnlock " + strings.TrimPrefix(op, ".unlock ")
			case strings.HasPrefix(op, ".close "):
				d = ".deferClose " + strings.TrimPrefix(op, ".close ")
			case strings.HasPrefix(op, ".call "):
				d = ".deferCall " + strings.TrimPrefix(op, ".call ")
			default:
				g.fail(x.Pos(), "unsupported deferred protocol operation %s", op)
				return
			}
			g.emit(d)
			g.deferred[len(g.deferred)-1] = append(g.deferred[len(g.deferred)-1], op)
			return
		}
		if fl, ok := x.Call.Fun.(*ast.FuncLit); ok {
			// deferred closure: record its ops (if any) as a deferred group executed at return
			sub := &aoGen{}
			sub.pushDefer()
			sub.block(fl.Body.List)
			sub.flushDefer()
			if sub.err != nil {
				g.err = sub.err
			}
			if len(sub.ops) > 0 {
				g.emit(".deferFunc")
				// kept as one string so that the LIFO flush does not reverse the group
				g.deferred[len(g.deferred)-1] = append(g.deferred[len(g.deferred)-1], strings.Join(sub.ops, ", "))
			}
			return
		}
		for _, a := range x.Call.Args {
			g.expr(a)
		}
	case *ast.GoStmt:
		if fl, ok := x.Call.Fun.(*ast.FuncLit); ok {
			g.emit(".goBegin")
			g.pushDefer()
			g.block(fl.Body.List)
			g.flushDefer()
			g.popDefer()
			g.emit(".goEnd")
			return
		}
		g.emit(".goBegin")
		g.expr(x.Call)
		g.emit(".goEnd")
	case *ast.ReturnStmt:
		for _, r := range x.Results {
			g.expr(r)
		}
		g.flushDefer()
		g.emit(".ret")
	case *ast.BlockStmt:
		g.block(x.List)
	case *ast.IfStmt:
		g.stmt(x.Init)
		g.expr(x.Cond)
		g.withMarkers(".ifBegin", ".ifEnd", func() {
			g.block(x.Body.List)
			if x.Else != nil {
				g.withMarkers(".elseBegin", ".elseEnd", func() { g.stmt(x.Else) })
			}
		})
	case *ast.ForStmt:
		g.stmt(x.Init)
		// a loop is recorded when its condition or body contains ops
		g.withMarkers(".loopBegin", ".loopEnd", func() {
			g.expr(x.Cond)
			g.block(x.Body.List)
			g.stmt(x.Post)
		})
	case *ast.RangeStmt:
		g.expr(x.X)
		g.withMarkers(".rangeBegin "+q(exprText(x.X)), ".loopEnd", func() {
			g.block(x.Body.List)
		})
	case *ast.SwitchStmt:
		g.stmt(x.Init)
		g.expr(x.Tag)
		for _, cc := range x.Body.List {
			cl := cc.(*ast.CaseClause)
			g.withMarkers(".caseBegin", ".caseEnd", func() {
				for _, e := range cl.List {
					g.expr(e)
				}
				g.block(cl.Body)
			})
		}
	case *ast.TypeSwitchStmt:
		g.stmt(x.Init)
		g.stmt(x.Assign)
		for _, cc := range x.Body.List {
			cl := cc.(*ast.CaseClause)
			g.withMarkers(".caseBegin", ".caseEnd", func() { g.block(cl.Body) })
		}
	case *ast.SelectStmt:
		g.emit(".selectBegin")
		for _, cc := range x.Body.List {
			cl := cc.(*ast.CommClause)
			switch c := cl.Comm.(type) {
			case nil:
				g.emit(".caseDefault")
			case *ast.ExprStmt:
				if u, ok := c.X.(*ast.UnaryExpr); ok && u.Op == token.ARROW {
					g.emit(".caseRecv " + q(exprText(u.X)))
				} else {
					g.fail(c.Pos(), "unsupported select case")
				}
			case *ast.AssignStmt:
				if len(c.Rhs) == 1 {
					if u, ok := c.Rhs[0].(*ast.UnaryExpr); ok && u.Op == token.ARROW {
						g.emit(".caseRecv " + q(exprText(u.X)))
						break
					}
				}
				g.fail(c.Pos(), "unsupported select case")
			case *ast.SendStmt:
				g.emit(".caseSend " + q(exprText(c.Chan)))
			}
			g.block(cl.Body)
		}
		g.emit(".selectEnd")
	case *ast.LabeledStmt:
		g.stmt(x.Stmt)
	case *ast.BranchStmt:
		// break/continue/goto: only relevant when they leave a region holding protocol ops;
		// goto is never understood inside a protocol function body that has ops
		if x.Tok == token.GOTO {
			g.emit(".goto")
		}
	case *ast.EmptyStmt:
	default:
		g.fail(s.Pos(), "unsupported statement %T", s)
	}
}

func genAbortOps(repo string) (string, error) {
	fileSet := map[string]bool{}
	var fileNames []string
	for _, f := range aoFuncs {
		if !fileSet[f.file] {
			fileSet[f.file] = true
			fileNames = append(fileNames, f.file)
		}
	}
	sort.Strings(fileNames)
	_, fs, err := parseFiles(repo, fileNames...)
	if err != nil {
		return "", err
	}
	decls := map[string]*ast.FuncDecl{}
	for _, m := range findMethods(fs) {
		decls[m.recv+"."+m.name] = m.decl
	}
	for _, f := range fs {
		for _, d := range f.Decls {
			if fd, ok := d.(*ast.FuncDecl); ok && fd.Recv == nil {
				decls[fd.Name.Name] = fd
			}
		}
	}
	var b strings.Builder
	b.WriteString("-- GENERATED by harness/cmd/goextract/abortops.go from vm.go, eval.go, cmd/ugo/main.go. DO NOT EDIT.\n")
	b.WriteString("-- Ordered synchronisation operations of the abort / cancellation protocol (C09).\n")
	b.WriteString("namespace UgoVerif.Gen.AbortOps\n\n")
	b.WriteString(`/-- one synchronisation-relevant operation, in source order -/
inductive SOp where
  | lock (m : String) | unlock (m : String) | deferUnlock (m : String)
  | store (x : String) (v : Nat) | load (x : String)
  | goBegin | goEnd | close (ch : String) | deferClose (ch : String) | recv (ch : String) | send (ch : String)
  | selectBegin | caseRecv (ch : String) | caseSend (ch : String) | caseDefault | selectEnd
  | loopBegin | rangeBegin (x : String) | loopEnd
  | ifBegin | elseBegin | elseEnd | ifEnd | caseBegin | caseEnd
  | funcBegin | funcEnd | deferFunc | deferCall (f : String) | goto
  | call (f : String) | sync (name : String) | ret
  | poolAdd (x : String) | poolDel (x : String)
  deriving DecidableEq, Repr

open SOp

`)
	var names []string
	for _, f := range aoFuncs {
		fd := decls[f.key]
		if fd == nil || fd.Body == nil {
			return "", fmt.Errorf("protocol function %s not found in %s", f.key, f.file)
		}
		g := &aoGen{}
		g.pushDefer()
		g.block(fd.Body.List)
		// fall off the end: deferred ops run
		if n := len(fd.Body.List); n == 0 || !isReturn(fd.Body.List[n-1]) {
			g.flushDefer()
			g.emit(".ret")
		}
		if g.err != nil {
			return "", fmt.Errorf("%s: %v", f.key, g.err)
		}
		for _, o := range g.ops {
			if o == ".goto" {
				return "", fmt.Errorf("%s: goto in a protocol function", f.key)
			}
		}
		fmt.Fprintf(&b, "/-- %s (%s) -/\ndef %s : List SOp := [\n", f.key, f.file, f.lean)
		var flat []string
		for _, o := range g.ops {
			// deferred closure groups were joined with ", "
			flat = append(flat, strings.Split(o, ", ")...)
		}
		for i, o := range flat {
			sep := ","
			if i == len(flat)-1 {
				sep = ""
			}
			fmt.Fprintf(&b, "  %s%s\n", o, sep)
		}
		b.WriteString("]\n\n")
		names = append(names, f.lean)
	}
	b.WriteString("def all : List (String × List SOp) := [\n")
	for i, n := range names {
		sep := ","
		if i == len(names)-1 {
			sep = ""
		}
		fmt.Fprintf(&b, "  (%s, %s)%s\n", q(n), n, sep)
	}
	b.WriteString("]\n\nend UgoVerif.Gen.AbortOps\n")
	return b.String(), nil
}

func isReturn(s ast.Stmt) bool {
	_, ok := s.(*ast.ReturnStmt)
	return ok
}
