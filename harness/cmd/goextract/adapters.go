package main

// Gen/Adapters.lean (C19): facts about every generated call adapter of
// zfuncs.go, stdlib/zfuncs.go, stdlib/time/zfuncs.go and every CallName method of
// stdlib/time/time.go (checked argument count, argument indices read, conversions),
// and the dispatch tables: every entry of ugo.BuiltinObjects, of the fmt / json /
// strings / time module maps, of the time method table and the `New` callables of
// error objects, with the adapter or hand-written body that implements it.
//
// Fails closed: an adapter whose argument list is used in any way other than
// CheckLen / Len / VM / len(args) / Get(<literal>) / args[<literal>] aborts generation.

import (
	"fmt"
	"go/ast"
	"go/token"
	"path/filepath"
	"sort"
	"strconv"
	"strings"
)

type adapterFact struct {
	name    string
	file    string
	ex      bool
	checked int // -1: no guard as first statement
	reads   []int
	convs   [][2]string // index, converter
	body    string
}

func exprName(e ast.Expr) string {
	switch v := e.(type) {
	case *ast.Ident:
		return v.Name
	case *ast.SelectorExpr:
		return exprName(v.X) + "." + v.Sel.Name
	case *ast.StarExpr:
		return exprName(v.X)
	case *ast.CallExpr:
		return exprName(v.Fun)
	case *ast.FuncLit:
		return "<closure>"
	case *ast.UnaryExpr:
		return exprName(v.X)
	case *ast.CompositeLit:
		return exprName(v.Type)
	}
	return fmt.Sprintf("<%T>", e)
}

func intLit(e ast.Expr) (int, bool) {
	bl, ok := e.(*ast.BasicLit)
	if !ok || bl.Kind != token.INT {
		return 0, false
	}
	n, err := strconv.Atoi(bl.Value)
	return n, err == nil
}

// guardOf recognises `if err := a.CheckLen(N); err != nil { ...; return }` and
// `if len(a) != N { ...; return }` as statement st.
func guardOf(st ast.Stmt, a string) int {
	is, ok := st.(*ast.IfStmt)
	if !ok || is.Else != nil || len(is.Body.List) == 0 {
		return -1
	}
	if _, ok := is.Body.List[len(is.Body.List)-1].(*ast.ReturnStmt); !ok {
		return -1
	}
	if is.Init != nil {
		as, ok := is.Init.(*ast.AssignStmt)
		if !ok || len(as.Lhs) != 1 || len(as.Rhs) != 1 {
			return -1
		}
		ce, ok := as.Rhs[0].(*ast.CallExpr)
		if !ok || exprName(ce.Fun) != a+".CheckLen" || len(ce.Args) != 1 {
			return -1
		}
		be, ok := is.Cond.(*ast.BinaryExpr)
		if !ok || be.Op != token.NEQ || exprName(be.X) != exprName(as.Lhs[0]) || exprName(be.Y) != "nil" {
			return -1
		}
		if n, ok := intLit(ce.Args[0]); ok {
			return n
		}
		return -1
	}
	be, ok := is.Cond.(*ast.BinaryExpr)
	if !ok || be.Op != token.NEQ {
		return -1
	}
	ce, ok := be.X.(*ast.CallExpr)
	if !ok || exprName(ce.Fun) != "len" || len(ce.Args) != 1 || exprName(ce.Args[0]) != a {
		return -1
	}
	if n, ok := intLit(be.Y); ok {
		return n
	}
	return -1
}

// argUses walks body and records every use of the argument-list variable a.
func argUses(fset *token.FileSet, body *ast.BlockStmt, a string, f *adapterFact) error {
	var stack []ast.Node
	var err error
	ast.Inspect(body, func(n ast.Node) bool {
		if n == nil {
			stack = stack[:len(stack)-1]
			return true
		}
		stack = append(stack, n)
		id, ok := n.(*ast.Ident)
		if !ok || id.Name != a || err != nil {
			return true
		}
		parent := func(k int) ast.Node {
			if len(stack)-1-k >= 0 {
				return stack[len(stack)-1-k]
			}
			return nil
		}
		fail := func(what string) {
			err = fmt.Errorf("%s: %s: argument list `%s` used outside the supported forms (%s)", fset.Position(id.Pos()), f.name, a, what)
		}
		read := func(idx ast.Expr, user ast.Node) {
			k, ok := intLit(idx)
			if !ok {
				fail("non-literal index")
				return
			}
			f.reads = append(f.reads, k)
			switch u := user.(type) {
			case *ast.CallExpr:
				f.convs = append(f.convs, [2]string{strconv.Itoa(k), exprName(u.Fun)})
			case *ast.AssignStmt, *ast.ValueSpec:
				f.convs = append(f.convs, [2]string{strconv.Itoa(k), "Object"})
			}
		}
		switch p := parent(1).(type) {
		case *ast.SelectorExpr:
			if p.X != ast.Expr(id) {
				return true // a field named like the variable
			}
			call, isCall := parent(2).(*ast.CallExpr)
			if !isCall || call.Fun != ast.Expr(p) {
				fail("method value")
				return true
			}
			switch p.Sel.Name {
			case "CheckLen", "Len", "VM":
			case "Get":
				if len(call.Args) != 1 {
					fail("Get arity")
					return true
				}
				read(call.Args[0], parent(3))
			default:
				fail("method " + p.Sel.Name)
			}
		case *ast.IndexExpr:
			if p.X != ast.Expr(id) {
				fail("used as an index")
				return true
			}
			read(p.Index, parent(2))
		case *ast.CallExpr:
			if exprName(p.Fun) == "len" && len(p.Args) == 1 {
				return true
			}
			fail("passed to " + exprName(p.Fun))
		case *ast.Field:
			// the parameter declaration itself
		default:
			fail(fmt.Sprintf("%T", p))
		}
		return true
	})
	return err
}

func lastCallName(body *ast.BlockStmt) string {
	name := "inline"
	for _, st := range body.List {
		switch s := st.(type) {
		case *ast.ReturnStmt:
			if len(s.Results) >= 1 {
				if ce, ok := s.Results[0].(*ast.CallExpr); ok {
					name = exprName(ce.Fun)
				}
			}
		}
	}
	return name
}

func extractAdapters(repo string) ([]*adapterFact, error) {
	var out []*adapterFact
	for _, fn := range []string{"zfuncs.go", "stdlib/zfuncs.go", "stdlib/time/zfuncs.go"} {
		fset, fs, err := parseFiles(repo, fn)
		if err != nil {
			return nil, err
		}
		pfx := ""
		if fn == "stdlib/zfuncs.go" {
			pfx = "stdlib."
		}
		if fn == "stdlib/time/zfuncs.go" {
			pfx = "time."
		}
		for _, d := range fs[0].Decls {
			fd, ok := d.(*ast.FuncDecl)
			if !ok || fd.Recv != nil {
				continue
			}
			if fd.Body == nil || len(fd.Body.List) != 1 {
				return nil, fmt.Errorf("%s: %s: adapter is not a single return of a closure", fn, fd.Name.Name)
			}
			rs, ok := fd.Body.List[0].(*ast.ReturnStmt)
			if !ok || len(rs.Results) != 1 {
				return nil, fmt.Errorf("%s: %s: adapter is not a single return of a closure", fn, fd.Name.Name)
			}
			fl, ok := rs.Results[0].(*ast.FuncLit)
			if !ok || len(fl.Type.Params.List) != 1 || len(fl.Type.Params.List[0].Names) != 1 {
				return nil, fmt.Errorf("%s: %s: adapter closure has an unexpected signature", fn, fd.Name.Name)
			}
			par := fl.Type.Params.List[0]
			a := par.Names[0].Name
			_, variadic := par.Type.(*ast.Ellipsis)
			f := &adapterFact{name: pfx + fd.Name.Name, file: fn, ex: !variadic, checked: -1, body: "fn"}
			if len(fl.Body.List) > 0 {
				f.checked = guardOf(fl.Body.List[0], a)
			}
			if err := argUses(fset, fl.Body, a, f); err != nil {
				return nil, err
			}
			out = append(out, f)
		}
	}
	// time methods: hand-written closures with the adapter shape
	fset, fs, err := parseFiles(repo, "stdlib/time/time.go")
	if err != nil {
		return nil, err
	}
	found := false
	var ferr error
	ast.Inspect(fs[0], func(n ast.Node) bool {
		vs, ok := n.(*ast.ValueSpec)
		if !ok || len(vs.Names) != 1 || vs.Names[0].Name != "methodTable" || len(vs.Values) != 1 {
			return true
		}
		cl, ok := vs.Values[0].(*ast.CompositeLit)
		if !ok {
			return true
		}
		found = true
		for _, e := range cl.Elts {
			kv, ok := e.(*ast.KeyValueExpr)
			if !ok {
				ferr = fmt.Errorf("methodTable: element without key")
				return false
			}
			key, err := strconv.Unquote(exprName2(kv.Key))
			fl, ok2 := kv.Value.(*ast.FuncLit)
			if err != nil || !ok2 || len(fl.Type.Params.List) != 2 || len(fl.Type.Params.List[1].Names) != 1 {
				ferr = fmt.Errorf("methodTable: entry %s is not a closure func(*Time, *ugo.Call)", exprName2(kv.Key))
				return false
			}
			a := fl.Type.Params.List[1].Names[0].Name
			f := &adapterFact{name: "time.Time." + key, file: "stdlib/time/time.go", ex: true, checked: -1, body: lastCallName(fl.Body)}
			if len(fl.Body.List) > 0 {
				f.checked = guardOf(fl.Body.List[0], a)
			}
			if err := argUses(fset, fl.Body, a, f); err != nil {
				ferr = err
				return false
			}
			out = append(out, f)
		}
		return false
	})
	if ferr != nil {
		return nil, ferr
	}
	if !found {
		return nil, fmt.Errorf("stdlib/time/time.go: methodTable not found")
	}
	return out, nil
}

func exprName2(e ast.Expr) string {
	if bl, ok := e.(*ast.BasicLit); ok {
		return bl.Value
	}
	return exprName(e)
}

type implRef struct {
	kind string // adapter | hand | value | absent
	name string // adapter name / hand body
	body string // body wrapped by an adapter
}

type dispatchEntry struct {
	table, name string
	value, ex   implRef
}

func classifyImpl(e ast.Expr, pkgPfx string, adapters map[string]bool) (implRef, error) {
	switch v := e.(type) {
	case nil:
		return implRef{kind: "absent"}, nil
	case *ast.Ident:
		return implRef{kind: "hand", name: v.Name}, nil
	case *ast.CallExpr:
		fn := exprName(v.Fun)
		for _, cand := range []string{fn, pkgPfx + fn} {
			if adapters[cand] {
				if len(v.Args) != 1 {
					return implRef{}, fmt.Errorf("adapter %s applied to %d arguments", fn, len(v.Args))
				}
				return implRef{kind: "adapter", name: cand, body: exprName(v.Args[0])}, nil
			}
		}
		if fn == "callExAdapter" && len(v.Args) == 1 {
			return implRef{kind: "hand", name: exprName(v.Args[0])}, nil
		}
		if strings.HasPrefix(fn, "func") || strings.HasPrefix(fn, "stdlib.Func") {
			// looks like a generated adapter that was not found in the zfuncs files
			return implRef{}, fmt.Errorf("unknown adapter %s", fn)
		}
		return implRef{kind: "hand", name: fn}, nil
	case *ast.FuncLit:
		// func(args ...Object) (Object, error) { return body(NewCall(nil, args)...) }
		if len(v.Body.List) != 1 {
			return implRef{}, fmt.Errorf("inline callable is not a single return statement")
		}
		rs, ok := v.Body.List[0].(*ast.ReturnStmt)
		if !ok || len(rs.Results) != 1 {
			return implRef{}, fmt.Errorf("inline callable is not a single return statement")
		}
		ce, ok := rs.Results[0].(*ast.CallExpr)
		if !ok {
			return implRef{}, fmt.Errorf("inline callable does not return a call")
		}
		return implRef{kind: "hand", name: exprName(ce.Fun)}, nil
	}
	return implRef{}, fmt.Errorf("unsupported callable expression %T", e)
}

func functionLit(e ast.Expr) (*ast.CompositeLit, bool) {
	if u, ok := e.(*ast.UnaryExpr); ok && u.Op == token.AND {
		if cl, ok := u.X.(*ast.CompositeLit); ok {
			tn := exprName(cl.Type)
			if tn == "BuiltinFunction" || tn == "ugo.Function" || tn == "Function" {
				return cl, true
			}
		}
	}
	return nil, false
}

func entryOf(table, key string, e ast.Expr, pkgPfx string, adapters map[string]bool) (dispatchEntry, error) {
	cl, ok := functionLit(e)
	if !ok {
		return dispatchEntry{table: table, name: key, value: implRef{kind: "value", name: exprName(e)}, ex: implRef{kind: "absent"}}, nil
	}
	var val, ex ast.Expr
	name := key
	for _, el := range cl.Elts {
		kv, ok := el.(*ast.KeyValueExpr)
		if !ok {
			return dispatchEntry{}, fmt.Errorf("%s.%s: positional function literal", table, key)
		}
		switch exprName(kv.Key) {
		case "Name":
			if s, err := strconv.Unquote(exprName2(kv.Value)); err == nil {
				name = s
			}
		case "Value":
			val = kv.Value
		case "ValueEx":
			ex = kv.Value
		}
	}
	if val == nil {
		return dispatchEntry{}, fmt.Errorf("%s.%s: function without Value", table, key)
	}
	v, err := classifyImpl(val, pkgPfx, adapters)
	if err != nil {
		return dispatchEntry{}, fmt.Errorf("%s.%s: %v", table, key, err)
	}
	x, err := classifyImpl(ex, pkgPfx, adapters)
	if err != nil {
		return dispatchEntry{}, fmt.Errorf("%s.%s: %v", table, key, err)
	}
	return dispatchEntry{table: table, name: name, value: v, ex: x}, nil
}

func extractDispatch(repo string, adapters map[string]bool) ([]dispatchEntry, error) {
	var out []dispatchEntry
	tables := []struct{ file, varName, table, pfx string }{
		{"builtins.go", "BuiltinObjects", "builtins", ""},
		{"stdlib/fmt/module.go", "Module", "fmt", ""},
		{"stdlib/json/module.go", "Module", "json", ""},
		{"stdlib/strings/module.go", "Module", "strings", ""},
		{"stdlib/time/module.go", "Module", "time", "time."},
	}
	for _, t := range tables {
		_, fs, err := parseFiles(repo, t.file)
		if err != nil {
			return nil, err
		}
		found := false
		var ferr error
		for _, d := range fs[0].Decls {
			gd, ok := d.(*ast.GenDecl)
			if !ok {
				continue
			}
			for _, sp := range gd.Specs {
				vs, ok := sp.(*ast.ValueSpec)
				if !ok || len(vs.Names) != 1 || vs.Names[0].Name != t.varName || len(vs.Values) != 1 {
					continue
				}
				cl, ok := vs.Values[0].(*ast.CompositeLit)
				if !ok {
					continue
				}
				found = true
				for _, el := range cl.Elts {
					kv, ok := el.(*ast.KeyValueExpr)
					if !ok {
						return nil, fmt.Errorf("%s: %s has an element without key", t.file, t.varName)
					}
					key := exprName2(kv.Key)
					if s, err := strconv.Unquote(key); err == nil {
						key = s
					}
					e, err := entryOf(t.table, key, kv.Value, t.pfx, adapters)
					if err != nil {
						ferr = err
						break
					}
					out = append(out, e)
				}
			}
		}
		if ferr != nil {
			return nil, ferr
		}
		if !found {
			return nil, fmt.Errorf("%s: table %s not found", t.file, t.varName)
		}
	}
	// `New` of error objects (objects.go): closures inside the IndexGet methods
	_, fs, err := parseFiles(repo, "objects.go")
	if err != nil {
		return nil, err
	}
	for _, d := range fs[0].Decls {
		fd, ok := d.(*ast.FuncDecl)
		if !ok || fd.Recv == nil || fd.Name.Name != "IndexGet" {
			continue
		}
		recv := exprName(fd.Recv.List[0].Type)
		ast.Inspect(fd.Body, func(n ast.Node) bool {
			if cl, ok := n.(*ast.CompositeLit); ok && exprName(cl.Type) == "Function" {
				name := ""
				for _, el := range cl.Elts {
					if kv, ok := el.(*ast.KeyValueExpr); ok && exprName(kv.Key) == "Name" {
						name, _ = strconv.Unquote(exprName2(kv.Value))
					}
				}
				out = append(out, dispatchEntry{table: recv, name: name, value: implRef{kind: "hand", name: recv + "." + name}, ex: implRef{kind: "absent"}})
			}
			return true
		})
	}
	return out, nil
}

func adLeanStr(s string) string { return strconv.Quote(s) }

func leanImpl(r implRef) string {
	switch r.kind {
	case "adapter":
		return fmt.Sprintf("(.adapter %s %s)", adLeanStr(r.name), adLeanStr(r.body))
	case "hand":
		return fmt.Sprintf("(.hand %s)", adLeanStr(r.name))
	case "value":
		return ".value"
	}
	return ".absent"
}

func genAdapters(repo string) (string, error) {
	ads, err := extractAdapters(repo)
	if err != nil {
		return "", err
	}
	set := map[string]bool{}
	for _, a := range ads {
		if set[a.name] {
			return "", fmt.Errorf("duplicate adapter %s", a.name)
		}
		set[a.name] = true
	}
	// the time module uses its own (unexported) adapters without a package prefix
	disp, err := extractDispatch(repo, set)
	if err != nil {
		return "", err
	}
	// time methods enter the dispatch table through methodTable
	for _, a := range ads {
		if strings.HasPrefix(a.name, "time.Time.") {
			disp = append(disp, dispatchEntry{table: "time.Time", name: strings.TrimPrefix(a.name, "time.Time."),
				value: implRef{kind: "absent"}, ex: implRef{kind: "adapter", name: a.name, body: a.body}})
		}
	}
	sort.SliceStable(ads, func(i, j int) bool { return ads[i].name < ads[j].name })
	var sb strings.Builder
	sb.WriteString("-- GENERATED by harness/cmd/goextract (adapters.go) from zfuncs.go, stdlib/zfuncs.go,\n")
	sb.WriteString("-- stdlib/time/zfuncs.go, stdlib/time/time.go, builtins.go, stdlib/*/module.go, objects.go.  DO NOT EDIT.\n")
	sb.WriteString("namespace UgoVerif.Gen.Adapters\n\n")
	sb.WriteString("/-- One generated call adapter (or CallName method closure): the argument count it\n    checks as its first statement (`none`: no such guard), the argument indices it reads\n    (`args[i]`, `args.Get(i)`) and the conversion applied at each read. -/\n")
	sb.WriteString("structure Adapter where\n  name : String\n  file : String\n  ex : Bool\n  checked : Option Nat\n  reads : List Nat\n  convs : List (Nat × String)\n  deriving Repr, DecidableEq\n\n")
	sb.WriteString("inductive Impl where\n  | adapter (name body : String)\n  | hand (body : String)\n  | value\n  | absent\n  deriving Repr, DecidableEq\n\n")
	sb.WriteString("structure Entry where\n  table : String\n  name : String\n  value : Impl\n  valueEx : Impl\n  deriving Repr, DecidableEq\n\n")
	sb.WriteString("def adapters : List Adapter := [\n")
	for i, a := range ads {
		chk := "none"
		if a.checked >= 0 {
			chk = fmt.Sprintf("(some %d)", a.checked)
		}
		var rs, cs []string
		for _, r := range a.reads {
			rs = append(rs, strconv.Itoa(r))
		}
		for _, c := range a.convs {
			cs = append(cs, fmt.Sprintf("(%s, %s)", c[0], adLeanStr(c[1])))
		}
		sep := ","
		if i == len(ads)-1 {
			sep = ""
		}
		fmt.Fprintf(&sb, "  ⟨%s, %s, %v, %s, [%s], [%s]⟩%s\n", adLeanStr(a.name), adLeanStr(a.file), a.ex, chk, strings.Join(rs, ", "), strings.Join(cs, ", "), sep)
	}
	sb.WriteString("]\n\n")
	sb.WriteString("def dispatch : List Entry := [\n")
	for i, d := range disp {
		sep := ","
		if i == len(disp)-1 {
			sep = ""
		}
		fmt.Fprintf(&sb, "  ⟨%s, %s, %s, %s⟩%s\n", adLeanStr(d.table), adLeanStr(d.name), leanImpl(d.value), leanImpl(d.ex), sep)
	}
	sb.WriteString("]\n\nend UgoVerif.Gen.Adapters\n")
	_ = filepath.Join
	return sb.String(), nil
}
