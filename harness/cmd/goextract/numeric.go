package main

import (
	"fmt"
	"go/ast"
	"go/parser"
	"go/token"
	"path/filepath"
	"sort"
	"strings"

	"verifharness/xlate"
)

type method struct {
	recv     string // Int, Uint, ... , UndefinedType
	recvVar  string
	name     string
	decl     *ast.FuncDecl
}

func parseFiles(repo string, names ...string) (*token.FileSet, []*ast.File, error) {
	fset := token.NewFileSet()
	var fs []*ast.File
	for _, n := range names {
		f, err := parser.ParseFile(fset, filepath.Join(repo, n), nil, 0)
		if err != nil {
			return nil, nil, err
		}
		fs = append(fs, f)
	}
	return fset, fs, nil
}

func findMethods(fs []*ast.File) map[string]*method {
	ms := map[string]*method{}
	for _, f := range fs {
		for _, d := range f.Decls {
			fd, ok := d.(*ast.FuncDecl)
			if !ok || fd.Recv == nil || len(fd.Recv.List) != 1 {
				continue
			}
			r := fd.Recv.List[0]
			var tn string
			switch t := r.Type.(type) {
			case *ast.Ident:
				tn = t.Name
			case *ast.StarExpr:
				if id, ok := t.X.(*ast.Ident); ok {
					tn = id.Name
				}
			}
			rv := "_"
			if len(r.Names) == 1 {
				rv = r.Names[0].Name
			}
			ms[tn+"."+fd.Name.Name] = &method{recv: tn, recvVar: rv, name: fd.Name.Name, decl: fd}
		}
	}
	return ms
}

var recvTy = map[string]xlate.Ty{
	"Int": xlate.TInt, "Uint": xlate.TUint, "Float": xlate.TFloat, "Char": xlate.TChar,
	"Bool": xlate.TBool, "String": xlate.TString, "Bytes": xlate.TBytes, "UndefinedType": xlate.TUndef,
}

func recvName(goName string) string {
	if goName == "UndefinedType" {
		return "Undefined"
	}
	return goName
}

type leanDef struct {
	name  string
	text  string
	calls []string
}

func topo(defs []*leanDef) ([]*leanDef, error) {
	byName := map[string]*leanDef{}
	for _, d := range defs {
		byName[d.name] = d
	}
	var out []*leanDef
	state := map[string]int{}
	var visit func(d *leanDef) error
	visit = func(d *leanDef) error {
		switch state[d.name] {
		case 1:
			return fmt.Errorf("delegation cycle through %s", d.name)
		case 2:
			return nil
		}
		state[d.name] = 1
		for _, c := range d.calls {
			cd, ok := byName[c]
			if !ok {
				return fmt.Errorf("%s delegates to %s which does not exist", d.name, c)
			}
			if err := visit(cd); err != nil {
				return err
			}
		}
		state[d.name] = 2
		out = append(out, d)
		return nil
	}
	for _, d := range defs {
		if err := visit(d); err != nil {
			return nil, err
		}
	}
	return out, nil
}

// splitBody finds prefix statements, the top-level type switch over `right`, and the tail.
func splitBody(body []ast.Stmt, valVar string) (prefix []ast.Stmt, ts *ast.TypeSwitchStmt, tail []ast.Stmt) {
	for i, s := range body {
		st := s
		if l, ok := st.(*ast.LabeledStmt); ok {
			st = l.Stmt
		}
		if x, ok := st.(*ast.TypeSwitchStmt); ok {
			src, _, _ := xlate.SplitTypeSwitch(x)
			if src == valVar {
				return body[:i], x, body[i+1:]
			}
		}
	}
	return body, nil, nil
}

func genBinaryOp(m *method) ([]*leanDef, error) {
	var defs []*leanDef
	rty := recvTy[m.recv]
	rn := recvName(m.recv)
	params := m.decl.Type.Params.List
	tokVar := params[0].Names[0].Name
	valVar := params[1].Names[0].Name
	mkTr := func() *xlate.Tr {
		return &xlate.Tr{Kind: xlate.KindBinop, Recv: rn, RecvTy: rty, FuncName: "BinaryOp",
			Calls: map[string]bool{}, TokVar: tokVar, ValVar: valVar, Monadic: true}
	}
	baseEnv := func() xlate.Env {
		e := xlate.NewEnv()
		e.Bind(m.recvVar, "o", rty)
		e.Bind(tokVar, "tok", xlate.TTok)
		return e
	}
	prefix, ts, tail := splitBody(m.decl.Body.List, valVar)
	err := xlate.Catch(func() {
		if ts != nil {
			_, bound, cases := xlate.SplitTypeSwitch(ts)
			for _, c := range cases {
				if c.Deflt || len(c.Types) != 1 {
					continue
				}
				ty := c.Types[0]
				tr := mkTr()
				env := baseEnv()
				env.BindNarrow(valVar, "("+valCtor(ty, "v")+")", ty, "v")
				if bound != "" {
					if bound == valVar {
						env.Bind(bound, "v", ty)
					} else {
						env.Bind(bound, "v", ty)
					}
				}
				stmts := append(append(append([]ast.Stmt{}, prefix...), c.Body...), tail...)
				body := tr.Stmts(stmts, env, func(xlate.Env) string { panic("fell off the end of BinaryOp") })
				name := fmt.Sprintf("%s_BinaryOp_%s", rn, ty)
				text := fmt.Sprintf("def %s (F : Go.FloatOps) (S : Go.ObjOps) (tok : Go.Tok) (o : %s) (v : %s) : Go.Res Go.Val := do\n%s\n",
					name, xlate.LeanTy(rty), xlate.LeanTy(ty), indentS(body, 2))
				defs = append(defs, &leanDef{name: name, text: text, calls: xlate.SortedKeys(tr.Calls)})
			}
		}
		// dispatcher
		tr := mkTr()
		var callNames []string
		tr.CellCall = func(ty xlate.Ty, payload string) string {
			n := fmt.Sprintf("%s_BinaryOp_%s", rn, ty)
			callNames = append(callNames, n)
			return fmt.Sprintf("%s F S tok o %s", n, payload)
		}
		env := baseEnv()
		env.Bind(valVar, "right", xlate.TVal)
		body := tr.Stmts(m.decl.Body.List, env, func(xlate.Env) string { panic("fell off the end of BinaryOp") })
		name := fmt.Sprintf("%s_BinaryOp", rn)
		text := fmt.Sprintf("def %s (F : Go.FloatOps) (S : Go.ObjOps) (tok : Go.Tok) (o : %s) (right : Go.Val) : Go.Res Go.Val := do\n%s\n",
			name, xlate.LeanTy(rty), indentS(body, 2))
		calls := append(xlate.SortedKeys(tr.Calls), callNames...)
		defs = append(defs, &leanDef{name: name, text: text, calls: calls})
	})
	return defs, err
}

func valCtor(ty xlate.Ty, payload string) string {
	switch ty {
	case xlate.TUndef:
		return ".undefined"
	case xlate.TInt:
		return ".int " + payload
	case xlate.TUint:
		return ".uint " + payload
	case xlate.TFloat:
		return ".float " + payload
	case xlate.TChar:
		return ".char " + payload
	case xlate.TBool:
		return ".bool " + payload
	case xlate.TString:
		return ".str " + payload
	case xlate.TBytes:
		return ".bytes " + payload
	case xlate.TArray:
		return ".array " + payload
	case xlate.TMap:
		return ".map " + payload
	}
	return "?"
}

func genEqual(m *method) (*leanDef, error) {
	rty := recvTy[m.recv]
	rn := recvName(m.recv)
	valVar := m.decl.Type.Params.List[0].Names[0].Name
	tr := &xlate.Tr{Kind: xlate.KindEqual, Recv: rn, RecvTy: rty, FuncName: "Equal", Calls: map[string]bool{}, ValVar: valVar}
	env := xlate.NewEnv()
	env.Bind(m.recvVar, "o", rty)
	env.Bind(valVar, "right", xlate.TVal)
	var text string
	err := xlate.Catch(func() {
		body := tr.Stmts(m.decl.Body.List, env, func(xlate.Env) string { panic("fell off the end of Equal") })
		text = fmt.Sprintf("def %s_Equal (F : Go.FloatOps) (o : %s) (right : Go.Val) : Bool :=\n%s\n",
			rn, xlate.LeanTy(rty), indentS(body, 2))
	})
	return &leanDef{name: rn + "_Equal", text: text}, err
}

func indentS(s string, n int) string {
	pad := strings.Repeat(" ", n)
	lines := strings.Split(s, "\n")
	for i, l := range lines {
		if l != "" {
			lines[i] = pad + l
		}
	}
	return strings.Join(lines, "\n")
}

const genHeader = `-- GENERATED by /verif/harness/cmd/goextract from %s — DO NOT EDIT.
-- Regenerated from /repo's working tree on every check run.
import UgoVerif.Go.Val
set_option linter.unusedVariables false
namespace UgoVerif.Gen
open UgoVerif
`

func genNumeric(repo string) (string, error) {
	_, fs, err := parseFiles(repo, "numeric.go", "objects.go")
	if err != nil {
		return "", err
	}
	ms := findMethods(fs)
	var defs []*leanDef
	types := []string{"Int", "Uint", "Float", "Char", "Bool", "String", "Bytes", "UndefinedType"}
	for _, tn := range types {
		m, ok := ms[tn+".BinaryOp"]
		if !ok {
			return "", fmt.Errorf("method %s.BinaryOp not found", tn)
		}
		ds, err := genBinaryOp(m)
		if err != nil {
			return "", fmt.Errorf("%s.BinaryOp: %w", tn, err)
		}
		defs = append(defs, ds...)
	}
	sorted, err := topo(defs)
	if err != nil {
		return "", err
	}
	var sb strings.Builder
	fmt.Fprintf(&sb, genHeader, "numeric.go, objects.go")
	for _, tn := range types {
		m, ok := ms[tn+".Equal"]
		if !ok {
			return "", fmt.Errorf("method %s.Equal not found", tn)
		}
		d, err := genEqual(m)
		if err != nil {
			return "", fmt.Errorf("%s.Equal: %w", tn, err)
		}
		sb.WriteString(d.text + "\n")
	}
	for _, d := range sorted {
		sb.WriteString(d.text + "\n")
	}
	// index of generated cells (for completeness theorems)
	var names []string
	for _, d := range sorted {
		names = append(names, d.name)
	}
	sort.Strings(names)
	fmt.Fprintf(&sb, "def binaryOpCells : List String := [%s]\n", quoteList(names))
	sb.WriteString("end UgoVerif.Gen\n")
	numericDefNames = append([]string{}, names...)
	for _, tn := range types {
		numericDefNames = append(numericDefNames, recvName(tn)+"_Equal")
	}
	return sb.String(), nil
}

var numericDefNames []string

// genNumericSimp tags every regenerated cell with the simp set used by the proofs
// (kept out of Numeric.lean so that the native driver stays core-only).
func genNumericSimp(repo string) (string, error) {
	if numericDefNames == nil {
		return "", fmt.Errorf("Numeric.lean was not generated")
	}
	var sb strings.Builder
	sb.WriteString("-- GENERATED by goextract — DO NOT EDIT.\nimport UgoVerif.Gen.Numeric\nimport UgoVerif.Go.Attr\nopen UgoVerif.Gen\n")
	for _, n := range numericDefNames {
		fmt.Fprintf(&sb, "attribute [ugo_cells] %s\n", n)
	}
	return sb.String(), nil
}

func quoteList(xs []string) string {
	var q []string
	for _, x := range xs {
		q = append(q, fmt.Sprintf("%q", x))
	}
	return strings.Join(q, ", ")
}
