package main

import (
	"fmt"
	"go/ast"
	"go/token"
	"sort"
	"strings"
)

// Gen/VmFields.lean (property C14, theorem acquire_complete / pool_fresh):
//   vmFields          the field names of `type VM struct`
//   acquireAssigns    paths assigned in vmPool._acquire through its parameter `vm`
//   prologueAssigns   paths assigned by Run before its `for run := true` loop (directly, or in the
//                     methods it calls there, transitively); `vm.f = e` counts only when `e` does not
//                     read `vm.f` (so `vm.modulesCache = append(vm.modulesCache, nil)` is growth, not
//                     initialisation); `vm.f.Store(..)` counts as an assignment of f
//   runReads          paths read anywhere in Run and the *VM methods reachable from it
//   releaseKeeps      the fields named in the composite literal `*vm = VM{...}` of vmPool._release
//   releaseResetsBytecode   `*bc = Bytecode{}` occurs in _release
//   newChildKeeps / syncPoolNewKeeps   fields set by the literals that create a child VM
// A path is `f` or `bytecode.g`.

type vmInfo struct {
	reads   map[string]bool
	assigns map[string]bool
	calls   map[string]bool
}

func vmPath(e ast.Expr, recv string) (string, bool) {
	sel, ok := e.(*ast.SelectorExpr)
	if !ok {
		return "", false
	}
	if id, ok := sel.X.(*ast.Ident); ok && id.Name == recv {
		return sel.Sel.Name, true
	}
	if in, ok := sel.X.(*ast.SelectorExpr); ok {
		if id, ok := in.X.(*ast.Ident); ok && id.Name == recv && in.Sel.Name == "bytecode" {
			return "bytecode." + sel.Sel.Name, true
		}
	}
	return "", false
}

func mentions(e ast.Node, recv, path string) bool {
	found := false
	ast.Inspect(e, func(n ast.Node) bool {
		if ex, ok := n.(ast.Expr); ok {
			if p, ok := vmPath(ex, recv); ok && p == path {
				found = true
			}
		}
		return !found
	})
	return found
}

func analyse(body ast.Node, recv string, methods map[string]bool) *vmInfo {
	in := &vmInfo{reads: map[string]bool{}, assigns: map[string]bool{}, calls: map[string]bool{}}
	plainLHS := map[ast.Expr]bool{}
	ast.Inspect(body, func(n ast.Node) bool {
		switch s := n.(type) {
		case *ast.AssignStmt:
			if s.Tok == token.ASSIGN && len(s.Lhs) == len(s.Rhs) {
				for i, l := range s.Lhs {
					if p, ok := vmPath(l, recv); ok {
						plainLHS[l] = true
						if !mentions(s.Rhs[i], recv, p) {
							in.assigns[p] = true
						}
					}
				}
			}
		case *ast.CallExpr:
			if sel, ok := s.Fun.(*ast.SelectorExpr); ok {
				if id, ok := sel.X.(*ast.Ident); ok && id.Name == recv && methods[sel.Sel.Name] {
					in.calls[sel.Sel.Name] = true
				}
				// vm.f.Store(x)
				if p, ok := vmPath(sel.X, recv); ok && sel.Sel.Name == "Store" {
					in.assigns[p] = true
					plainLHS[sel.X] = true
				}
			}
		}
		return true
	})
	ast.Inspect(body, func(n ast.Node) bool {
		if ex, ok := n.(ast.Expr); ok {
			if plainLHS[ex] {
				return false
			}
			if p, ok := vmPath(ex, recv); ok {
				in.reads[p] = true
				if strings.HasPrefix(p, "bytecode.") {
					in.reads["bytecode"] = true
				}
				return false
			}
		}
		return true
	})
	return in
}

func leanList(m map[string]bool) string {
	var ks []string
	for k := range m {
		ks = append(ks, k)
	}
	sort.Strings(ks)
	for i := range ks {
		ks[i] = fmt.Sprintf("%q", ks[i])
	}
	return "[" + strings.Join(ks, ", ") + "]"
}

func litKeys(cl *ast.CompositeLit) map[string]bool {
	out := map[string]bool{}
	for _, e := range cl.Elts {
		if kv, ok := e.(*ast.KeyValueExpr); ok {
			if id, ok := kv.Key.(*ast.Ident); ok {
				out[id.Name] = true
			}
		}
	}
	return out
}

func isLitOf(e ast.Expr, typ string) (*ast.CompositeLit, bool) {
	if u, ok := e.(*ast.UnaryExpr); ok && u.Op == token.AND {
		e = u.X
	}
	cl, ok := e.(*ast.CompositeLit)
	if !ok {
		return nil, false
	}
	id, ok := cl.Type.(*ast.Ident)
	return cl, ok && id.Name == typ
}

func genVmFields(repo string) (string, error) {
	_, fs, err := parseFiles(repo, "vm.go")
	if err != nil {
		return "", err
	}
	f := fs[0]
	fields := []string{}
	vmMethods := map[string]*ast.FuncDecl{}
	poolMethods := map[string]*ast.FuncDecl{}
	var syncNew *ast.CompositeLit
	for _, d := range f.Decls {
		switch d := d.(type) {
		case *ast.GenDecl:
			for _, sp := range d.Specs {
				if ts, ok := sp.(*ast.TypeSpec); ok && ts.Name.Name == "VM" {
					st, ok := ts.Type.(*ast.StructType)
					if !ok {
						return "", fmt.Errorf("VM is not a struct")
					}
					for _, fl := range st.Fields.List {
						for _, n := range fl.Names {
							fields = append(fields, n.Name)
						}
					}
				}
				if vs, ok := sp.(*ast.ValueSpec); ok && len(vs.Names) == 1 && vs.Names[0].Name == "vmSyncPool" && len(vs.Values) == 1 {
					ast.Inspect(vs.Values[0], func(n ast.Node) bool {
						if e, ok := n.(ast.Expr); ok {
							if cl, ok := isLitOf(e, "VM"); ok && syncNew == nil {
								syncNew = cl
							}
						}
						return true
					})
				}
			}
		case *ast.FuncDecl:
			if d.Recv == nil || len(d.Recv.List) != 1 || d.Body == nil {
				continue
			}
			st, ok := d.Recv.List[0].Type.(*ast.StarExpr)
			if !ok {
				continue
			}
			id, _ := st.X.(*ast.Ident)
			if id == nil {
				continue
			}
			if id.Name == "VM" && len(d.Recv.List[0].Names) == 1 && d.Recv.List[0].Names[0].Name == "vm" {
				vmMethods[d.Name.Name] = d
			}
			if id.Name == "vmPool" {
				poolMethods[d.Name.Name] = d
			}
		}
	}
	if len(fields) == 0 {
		return "", fmt.Errorf("type VM struct not found")
	}
	names := map[string]bool{}
	for n := range vmMethods {
		names[n] = true
	}
	infos := map[string]*vmInfo{}
	for n, d := range vmMethods {
		infos[n] = analyse(d.Body, "vm", names)
	}
	run, ok := vmMethods["Run"]
	if !ok {
		return "", fmt.Errorf("method (*VM).Run not found")
	}
	// split Run at its `for run := true; run; { ... }` statement
	var pro []ast.Stmt
	split := -1
	for i, s := range run.Body.List {
		if fs, ok := s.(*ast.ForStmt); ok && fs.Init != nil {
			if as, ok := fs.Init.(*ast.AssignStmt); ok && len(as.Lhs) == 1 {
				if id, ok := as.Lhs[0].(*ast.Ident); ok && id.Name == "run" {
					split = i
					break
				}
			}
		}
	}
	if split < 0 {
		return "", fmt.Errorf("Run: `for run := true; run; {...}` not found")
	}
	pro = run.Body.List[:split]
	closure := func(start map[string]bool) map[string]bool {
		seen := map[string]bool{}
		var visit func(n string)
		visit = func(n string) {
			if seen[n] || infos[n] == nil {
				return
			}
			seen[n] = true
			for c := range infos[n].calls {
				visit(c)
			}
		}
		for n := range start {
			visit(n)
		}
		return seen
	}
	proInfo := analyse(&ast.BlockStmt{List: pro}, "vm", names)
	prologueAssigns := map[string]bool{}
	for p := range proInfo.assigns {
		prologueAssigns[p] = true
	}
	for m := range closure(proInfo.calls) {
		for p := range infos[m].assigns {
			prologueAssigns[p] = true
		}
	}
	isField := map[string]bool{}
	for _, x := range fields {
		isField[x] = true
	}
	runReads := map[string]bool{}
	for m := range closure(map[string]bool{"Run": true}) {
		for p := range infos[m].reads {
			if isField[strings.SplitN(p, ".", 2)[0]] { // `vm.loop` in `vm.loop()` is a method, not a field
				runReads[p] = true
			}
		}
	}
	acq, ok := poolMethods["_acquire"]
	if !ok {
		return "", fmt.Errorf("vmPool._acquire not found")
	}
	acqInfo := analyse(acq.Body, "vm", names)
	rel, ok := poolMethods["_release"]
	if !ok {
		return "", fmt.Errorf("vmPool._release not found")
	}
	releaseKeeps := map[string]bool{}
	releaseWhole, releaseBC := false, false
	ast.Inspect(rel.Body, func(n ast.Node) bool {
		as, ok := n.(*ast.AssignStmt)
		if !ok || len(as.Lhs) != 1 || len(as.Rhs) != 1 {
			return true
		}
		st, ok := as.Lhs[0].(*ast.StarExpr)
		if !ok {
			return true
		}
		id, _ := st.X.(*ast.Ident)
		if id == nil {
			return true
		}
		if cl, ok := isLitOf(as.Rhs[0], "VM"); ok && id.Name == "vm" {
			releaseWhole = true
			releaseKeeps = litKeys(cl)
		}
		if cl, ok := isLitOf(as.Rhs[0], "Bytecode"); ok && len(cl.Elts) == 0 {
			releaseBC = true
		}
		return true
	})
	newKeeps := map[string]bool{}
	if a, ok := poolMethods["acquire"]; ok {
		ast.Inspect(a.Body, func(n ast.Node) bool {
			if e, ok := n.(ast.Expr); ok {
				if cl, ok := isLitOf(e, "VM"); ok {
					newKeeps = litKeys(cl)
				}
			}
			return true
		})
	}
	syncKeeps := map[string]bool{}
	if syncNew != nil {
		syncKeeps = litKeys(syncNew)
	}
	var sb strings.Builder
	sb.WriteString("-- GENERATED by harness/cmd/goextract/vmfields.go from vm.go — do not edit\n")
	sb.WriteString("namespace UgoVerif.Gen.VmFields\n\n")
	fq := make([]string, len(fields))
	for i, x := range fields {
		fq[i] = fmt.Sprintf("%q", x)
	}
	fmt.Fprintf(&sb, "def vmFields : List String := [%s]\n", strings.Join(fq, ", "))
	fmt.Fprintf(&sb, "def acquireAssigns : List String := %s\n", leanList(acqInfo.assigns))
	fmt.Fprintf(&sb, "def prologueAssigns : List String := %s\n", leanList(prologueAssigns))
	fmt.Fprintf(&sb, "def runReads : List String := %s\n", leanList(runReads))
	roots := map[string]bool{}
	for p := range runReads {
		roots[strings.SplitN(p, ".", 2)[0]] = true
	}
	fmt.Fprintf(&sb, "def runReadRoots : List String := %s\n", leanList(roots))
	fmt.Fprintf(&sb, "def releaseAssignsWholeVM : Bool := %v\n", releaseWhole)
	fmt.Fprintf(&sb, "def releaseKeeps : List String := %s\n", leanList(releaseKeeps))
	fmt.Fprintf(&sb, "def releaseResetsBytecode : Bool := %v\n", releaseBC)
	fmt.Fprintf(&sb, "def newChildKeeps : List String := %s\n", leanList(newKeeps))
	fmt.Fprintf(&sb, "def syncPoolNewKeeps : List String := %s\n", leanList(syncKeeps))
	sb.WriteString("\nend UgoVerif.Gen.VmFields\n")
	return sb.String(), nil
}
