package main

import (
	"fmt"
	"go/ast"
	"go/token"
	"sort"
	"strings"
)

// genVmWrites lists every store in vm.go, objects.go, modules.go, bytecode.go and
// parser/source_file.go whose target is rooted at data that VMs running one Bytecode
// share: vm.constants, vm.bytecode.*, fields of *Bytecode / *CompiledFunction values
// (bc.*, cfunc.*, fn.Instructions, fn.SourceMap, fn.Free, …) and the fields of
// SourceFileSet / SourceFile.  A store is
//
//	assign   x = …, x op= …, x++ / x--          (each left-hand side)
//	copy     copy(x, …)                           (destination)
//	append   append(x, …)                         (may write the backing array of x)
//	delete   delete(x, …)
//	call     x.IndexSet(…)                        (receiver)
//	addr     &x                                   (the location escapes)
//
// and it is *shared-rooted* when the selector path of x (index, slice, deref, type
// assertion and parentheses stripped) contains one of the shared field names, or starts
// at a variable conventionally holding a shared object (bc, cfunc, fn) and selects a
// field of it.  The Lean side (Props/C07, Props/C08) proves by `decide` that every entry
// belongs to an allow-listed function (SetBytecode, NewVM, _acquire, _release and the
// parse-time functions of the file set), so that adding a store to shared data in an
// opcode breaks an obligation.  The analysis is syntactic: a store through a local alias
// (`o := vm.constants[i]; o.(Map)[k] = v`) is visible only through the alias' own
// selector path; the `history`/`concurrent` streams cover that side dynamically.

var sharedFieldsVM = map[string]bool{
	"constants": true, "bytecode": true, "Constants": true, "Main": true, "NumModules": true, "FileSet": true,
	"Instructions": true, "SourceMap": true, "Free": true, "NumParams": true, "NumLocals": true, "Variadic": true,
	"Attrs": true, "Src": true,
}

var sharedFieldsFileSet = map[string]bool{
	"Base": true, "Files": true, "LastFile": true, "Name": true, "Size": true, "Lines": true, "set": true,
}

var sharedRootVars = map[string]bool{"bc": true, "cfunc": true, "fn": true}

type vmWrite struct {
	file, fn, kind, target string
}

func storeExprString(e ast.Expr) string {
	switch v := e.(type) {
	case *ast.Ident:
		return v.Name
	case *ast.SelectorExpr:
		return storeExprString(v.X) + "." + v.Sel.Name
	case *ast.IndexExpr:
		return storeExprString(v.X) + "[" + storeExprString(v.Index) + "]"
	case *ast.SliceExpr:
		return storeExprString(v.X) + "[:]"
	case *ast.StarExpr:
		return "*" + storeExprString(v.X)
	case *ast.ParenExpr:
		return "(" + storeExprString(v.X) + ")"
	case *ast.TypeAssertExpr:
		if v.Type == nil {
			return storeExprString(v.X) + ".(type)"
		}
		return storeExprString(v.X) + ".(" + storeExprString(v.Type) + ")"
	case *ast.UnaryExpr:
		return v.Op.String() + storeExprString(v.X)
	case *ast.BinaryExpr:
		return storeExprString(v.X) + v.Op.String() + storeExprString(v.Y)
	case *ast.BasicLit:
		return v.Value
	case *ast.CallExpr:
		return storeExprString(v.Fun) + "(…)"
	case *ast.CompositeLit:
		return "lit"
	}
	return fmt.Sprintf("%T", e)
}

// selPath: the chain of names from the root identifier to the stored location.
func selPath(e ast.Expr) []string {
	switch v := e.(type) {
	case *ast.Ident:
		return []string{v.Name}
	case *ast.SelectorExpr:
		return append(selPath(v.X), v.Sel.Name)
	case *ast.IndexExpr:
		return selPath(v.X)
	case *ast.SliceExpr:
		return selPath(v.X)
	case *ast.StarExpr:
		return selPath(v.X)
	case *ast.ParenExpr:
		return selPath(v.X)
	case *ast.TypeAssertExpr:
		return selPath(v.X)
	case *ast.UnaryExpr:
		return selPath(v.X)
	case *ast.CallExpr:
		// a call result: rooted at the callee's receiver chain (x.f().g = …)
		return append(selPath(v.Fun), "()")
	}
	return []string{"?"}
}

func sharedRooted(e ast.Expr, fields map[string]bool) bool {
	p := selPath(e)
	for i, n := range p {
		if i > 0 && fields[n] {
			return true
		}
	}
	if len(p) > 1 && sharedRootVars[p[0]] {
		return true
	}
	// `*bc = …` overwrites the whole shared object
	if st, ok := e.(*ast.StarExpr); ok {
		if id, ok := st.X.(*ast.Ident); ok && sharedRootVars[id.Name] {
			return true
		}
	}
	return false
}

func collectWrites(file string, f *ast.File, fields map[string]bool) []vmWrite {
	var out []vmWrite
	for _, d := range f.Decls {
		fd, ok := d.(*ast.FuncDecl)
		if !ok || fd.Body == nil {
			continue
		}
		name := fd.Name.Name
		add := func(kind string, e ast.Expr) {
			if sharedRooted(e, fields) {
				out = append(out, vmWrite{file, name, kind, storeExprString(e)})
			}
		}
		ast.Inspect(fd.Body, func(n ast.Node) bool {
			switch v := n.(type) {
			case *ast.AssignStmt:
				if v.Tok == token.DEFINE {
					return true
				}
				for _, l := range v.Lhs {
					add("assign", l)
				}
			case *ast.IncDecStmt:
				add("assign", v.X)
			case *ast.RangeStmt:
				if v.Tok == token.ASSIGN {
					if v.Key != nil {
						add("assign", v.Key)
					}
					if v.Value != nil {
						add("assign", v.Value)
					}
				}
			case *ast.UnaryExpr:
				if v.Op == token.AND {
					if _, lit := v.X.(*ast.CompositeLit); !lit {
						add("addr", v.X)
					}
				}
			case *ast.CallExpr:
				switch fun := v.Fun.(type) {
				case *ast.Ident:
					if (fun.Name == "copy" || fun.Name == "append" || fun.Name == "delete") && len(v.Args) > 0 {
						add(fun.Name, v.Args[0])
					}
				case *ast.SelectorExpr:
					if fun.Sel.Name == "IndexSet" {
						add("call", fun.X)
					}
				}
			}
			return true
		})
	}
	return out
}

func storeLeanStr(s string) string {
	s = strings.ReplaceAll(s, "\\", "\\\\")
	s = strings.ReplaceAll(s, "\"", "\\\"")
	return "\"" + s + "\""
}

func genVmWrites(repo string) (string, error) {
	type src struct {
		name   string
		fields map[string]bool
	}
	srcs := []src{
		{"vm.go", sharedFieldsVM}, {"objects.go", sharedFieldsVM}, {"modules.go", sharedFieldsVM},
		{"bytecode.go", sharedFieldsVM}, {"parser/source_file.go", sharedFieldsFileSet},
	}
	var all []vmWrite
	funcs := map[string]bool{}
	for _, s := range srcs {
		_, fs, err := parseFiles(repo, s.name)
		if err != nil {
			return "", err
		}
		ws := collectWrites(s.name, fs[0], s.fields)
		all = append(all, ws...)
		for _, d := range fs[0].Decls {
			if fd, ok := d.(*ast.FuncDecl); ok && s.name == "vm.go" {
				funcs[fd.Name.Name] = true
			}
		}
	}
	// the functions the allow-list names must exist: a rename is a broken obligation
	for _, need := range []string{"SetBytecode", "NewVM", "_acquire", "_release", "loop", "Run", "Clear"} {
		if !funcs[need] {
			return "", fmt.Errorf("vm.go has no function %s", need)
		}
	}
	sort.SliceStable(all, func(i, j int) bool {
		a, b := all[i], all[j]
		if a.file != b.file {
			return a.file < b.file
		}
		if a.fn != b.fn {
			return a.fn < b.fn
		}
		if a.kind != b.kind {
			return a.kind < b.kind
		}
		return a.target < b.target
	})
	var sb strings.Builder
	sb.WriteString("-- GENERATED by goextract (vmwrites.go) — DO NOT EDIT.\n")
	sb.WriteString("-- Every store in vm.go, objects.go, modules.go, bytecode.go, parser/source_file.go whose target is\n")
	sb.WriteString("-- rooted at data shared by the VMs that run one Bytecode (see harness/cmd/goextract/vmwrites.go).\n")
	sb.WriteString("namespace UgoVerif.Gen.VmWrites\n\n")
	sb.WriteString("structure Store where\n  file : String\n  func : String\n  kind : String\n  target : String\n  deriving Repr, DecidableEq\n\n")
	sb.WriteString("def stores : List Store := [\n")
	for i, w := range all {
		sep := ","
		if i == len(all)-1 {
			sep = ""
		}
		fmt.Fprintf(&sb, "  ⟨%s, %s, %s, %s⟩%s\n", storeLeanStr(w.file), storeLeanStr(w.fn), storeLeanStr(w.kind), storeLeanStr(w.target), sep)
	}
	sb.WriteString("]\n\n")
	sb.WriteString("end UgoVerif.Gen.VmWrites\n")
	return sb.String(), nil
}
