package main

import (
	"fmt"
	"go/ast"
	"go/constant"
	"go/parser"
	"go/token"
	"path/filepath"
	"strings"
)

// genEncTags regenerates Gen/EncTags.lean: the numeric constants of the binary
// format of encoder/encoder.go (signature, versions, object tags) and the field
// numbers used by the bytecode / compiled-function encoders and decoders.
// Everything is computed from the source text (const blocks with iota and
// explicit values, literal call arguments, case labels).  Fails closed.

type encConst struct {
	name string
	typ  string // Go type name of the constant ("byte", "uint32", ...)
	val  uint64
}

// evalConstExpr evaluates the tiny constant-expression subset used in the
// const blocks: integer literals, iota, parentheses, unary +, binary + - * << |.
func evalConstExpr(e ast.Expr, iota int64, env map[string]uint64) (constant.Value, error) {
	switch x := e.(type) {
	case *ast.BasicLit:
		if x.Kind != token.INT {
			return nil, fmt.Errorf("unsupported literal %s", x.Value)
		}
		v := constant.MakeFromLiteral(x.Value, token.INT, 0)
		if v.Kind() != constant.Int {
			return nil, fmt.Errorf("bad integer literal %s", x.Value)
		}
		return v, nil
	case *ast.Ident:
		if x.Name == "iota" {
			return constant.MakeInt64(iota), nil
		}
		if v, ok := env[x.Name]; ok {
			return constant.MakeUint64(v), nil
		}
		return nil, fmt.Errorf("unknown identifier %s in constant expression", x.Name)
	case *ast.ParenExpr:
		return evalConstExpr(x.X, iota, env)
	case *ast.UnaryExpr:
		if x.Op != token.ADD {
			return nil, fmt.Errorf("unsupported unary operator %s", x.Op)
		}
		return evalConstExpr(x.X, iota, env)
	case *ast.BinaryExpr:
		a, err := evalConstExpr(x.X, iota, env)
		if err != nil {
			return nil, err
		}
		b, err := evalConstExpr(x.Y, iota, env)
		if err != nil {
			return nil, err
		}
		switch x.Op {
		case token.ADD, token.SUB, token.MUL, token.OR:
			return constant.BinaryOp(a, x.Op, b), nil
		case token.SHL:
			s, ok := constant.Uint64Val(b)
			if !ok || s > 63 {
				return nil, fmt.Errorf("bad shift count")
			}
			return constant.Shift(a, token.SHL, uint(s)), nil
		}
		return nil, fmt.Errorf("unsupported binary operator %s", x.Op)
	}
	return nil, fmt.Errorf("unsupported constant expression %T", e)
}

// constBlock evaluates one parenthesised const declaration.
func constBlock(gd *ast.GenDecl, env map[string]uint64) ([]encConst, error) {
	var out []encConst
	var lastTyp string
	var lastVals []ast.Expr
	for i, sp := range gd.Specs {
		vs, ok := sp.(*ast.ValueSpec)
		if !ok {
			return nil, fmt.Errorf("unexpected spec %T in const block", sp)
		}
		typ := lastTyp
		vals := lastVals
		if len(vs.Values) > 0 {
			vals = vs.Values
			typ = ""
			if vs.Type != nil {
				id, ok := vs.Type.(*ast.Ident)
				if !ok {
					return nil, fmt.Errorf("unsupported constant type %T", vs.Type)
				}
				typ = id.Name
			}
		} else if vs.Type != nil {
			return nil, fmt.Errorf("typed constant %s without a value", vs.Names[0].Name)
		}
		if len(vals) != len(vs.Names) {
			return nil, fmt.Errorf("constant %s: %d names for %d values", vs.Names[0].Name, len(vs.Names), len(vals))
		}
		lastTyp, lastVals = typ, vals
		for j, n := range vs.Names {
			v, err := evalConstExpr(vals[j], int64(i), env)
			if err != nil {
				return nil, fmt.Errorf("constant %s: %v", n.Name, err)
			}
			u, ok := constant.Uint64Val(v)
			if !ok {
				return nil, fmt.Errorf("constant %s: value %s is not a uint64", n.Name, v)
			}
			var max uint64
			switch typ {
			case "byte", "uint8":
				max = 0xff
			case "uint16":
				max = 0xffff
			case "uint32":
				max = 0xffffffff
			default:
				return nil, fmt.Errorf("constant %s: unsupported type %q", n.Name, typ)
			}
			if u > max {
				return nil, fmt.Errorf("constant %s: value %d overflows %s", n.Name, u, typ)
			}
			if n.Name == "_" {
				continue
			}
			env[n.Name] = u
			out = append(out, encConst{n.Name, typ, u})
		}
	}
	return out, nil
}

func encIntLit(e ast.Expr) (uint64, bool) {
	bl, ok := e.(*ast.BasicLit)
	if !ok || bl.Kind != token.INT {
		return 0, false
	}
	v := constant.MakeFromLiteral(bl.Value, token.INT, 0)
	u, ok := constant.Uint64Val(v)
	return u, ok
}

// literalCallArgs collects, in source order, the literal integer argument at
// position argIdx of every call matching `match` in body.  A matching call whose
// argument is not an integer literal is ignored when allowNonLit, else an error.
func literalCallArgs(body *ast.BlockStmt, match func(*ast.CallExpr) bool, argIdx int, allowNonLit bool) ([]uint64, error) {
	var out []uint64
	var err error
	ast.Inspect(body, func(n ast.Node) bool {
		ce, ok := n.(*ast.CallExpr)
		if !ok || !match(ce) {
			return true
		}
		if len(ce.Args) <= argIdx {
			err = fmt.Errorf("call with %d arguments", len(ce.Args))
			return false
		}
		u, ok := encIntLit(ce.Args[argIdx])
		if !ok {
			if !allowNonLit {
				err = fmt.Errorf("non-literal field number argument")
			}
			return true
		}
		out = append(out, u)
		return true
	})
	return out, err
}

// switchFieldLabels returns the integer case labels of the unique
// `switch field { ... }` statement in body, in source order; the switch must
// have a default clause and only integer-literal labels.
func switchFieldLabels(body *ast.BlockStmt) ([]uint64, error) {
	var found []*ast.SwitchStmt
	ast.Inspect(body, func(n ast.Node) bool {
		if sw, ok := n.(*ast.SwitchStmt); ok {
			if id, ok := sw.Tag.(*ast.Ident); ok && id.Name == "field" && sw.Init == nil {
				found = append(found, sw)
			}
		}
		return true
	})
	if len(found) != 1 {
		return nil, fmt.Errorf("expected exactly one `switch field`, found %d", len(found))
	}
	var out []uint64
	hasDefault := false
	for _, st := range found[0].Body.List {
		cc, ok := st.(*ast.CaseClause)
		if !ok {
			return nil, fmt.Errorf("unexpected statement in switch")
		}
		if cc.List == nil {
			hasDefault = true
			continue
		}
		for _, e := range cc.List {
			u, ok := encIntLit(e)
			if !ok {
				return nil, fmt.Errorf("non-literal case label")
			}
			out = append(out, u)
		}
	}
	if !hasDefault {
		return nil, fmt.Errorf("`switch field` has no default clause")
	}
	seen := map[uint64]bool{}
	for _, u := range out {
		if seen[u] {
			return nil, fmt.Errorf("duplicate case label %d", u)
		}
		seen[u] = true
	}
	return out, nil
}

func recvTypeName(fd *ast.FuncDecl) string {
	if fd.Recv == nil || len(fd.Recv.List) != 1 {
		return ""
	}
	switch t := fd.Recv.List[0].Type.(type) {
	case *ast.Ident:
		return t.Name
	case *ast.StarExpr:
		if id, ok := t.X.(*ast.Ident); ok {
			return "*" + id.Name
		}
	}
	return "?"
}

func natList(xs []uint64) string {
	s := make([]string, len(xs))
	for i, x := range xs {
		s[i] = fmt.Sprint(x)
	}
	return "[" + strings.Join(s, ", ") + "]"
}

func genEncTags(repo string) (string, error) {
	fset := token.NewFileSet()
	f, err := parser.ParseFile(fset, filepath.Join(repo, "encoder", "encoder.go"), nil, 0)
	if err != nil {
		return "", err
	}
	env := map[string]uint64{}
	var header, tags []encConst
	funcs := map[string]*ast.FuncDecl{}
	for _, d := range f.Decls {
		switch x := d.(type) {
		case *ast.GenDecl:
			if x.Tok != token.CONST {
				continue
			}
			cs, err := constBlock(x, env)
			if err != nil {
				return "", err
			}
			if len(cs) == 0 {
				continue
			}
			switch {
			case strings.HasPrefix(cs[0].name, "Bytecode"):
				if header != nil {
					return "", fmt.Errorf("two Bytecode… const blocks")
				}
				header = cs
			case strings.HasPrefix(cs[0].name, "bin"):
				if tags != nil {
					return "", fmt.Errorf("two bin… const blocks")
				}
				tags = cs
			default:
				return "", fmt.Errorf("unexpected const block starting with %s", cs[0].name)
			}
		case *ast.FuncDecl:
			key := x.Name.Name
			if r := recvTypeName(x); r != "" {
				key = r + "." + key
			}
			if _, dup := funcs[key]; dup {
				return "", fmt.Errorf("duplicate function %s", key)
			}
			funcs[key] = x
		}
	}
	// header constants: exactly these four, with these types
	wantHeader := []struct{ name, typ string }{
		{"BytecodeSignature", "uint32"}, {"BytecodeVersion", "uint16"},
		{"BytecodeVersion1", "uint16"}, {"BytecodeVersion2", "uint16"},
	}
	if len(header) != len(wantHeader) {
		return "", fmt.Errorf("header const block has %d constants, want %d", len(header), len(wantHeader))
	}
	for i, w := range wantHeader {
		if header[i].name != w.name || header[i].typ != w.typ {
			return "", fmt.Errorf("header constant #%d is %s %s, want %s %s", i, header[i].name, header[i].typ, w.name, w.typ)
		}
	}
	if len(tags) == 0 {
		return "", fmt.Errorf("no bin… const block")
	}
	seenVal := map[uint64]string{}
	for _, t := range tags {
		if !strings.HasPrefix(t.name, "bin") {
			return "", fmt.Errorf("constant %s in the tag block does not start with bin", t.name)
		}
		if t.typ != "byte" && t.typ != "uint8" {
			return "", fmt.Errorf("tag %s has type %s, want byte", t.name, t.typ)
		}
		if o, dup := seenVal[t.val]; dup {
			return "", fmt.Errorf("tags %s and %s share the value %d", o, t.name, t.val)
		}
		seenVal[t.val] = t.name
	}

	need := func(key string) (*ast.FuncDecl, error) {
		fd, ok := funcs[key]
		if !ok || fd.Body == nil {
			return nil, fmt.Errorf("function %s not found", key)
		}
		return fd, nil
	}
	fd, err := need("encodeBytecodeCommon")
	if err != nil {
		return "", err
	}
	bcEnc, err := literalCallArgs(fd.Body, func(ce *ast.CallExpr) bool {
		id, ok := ce.Fun.(*ast.Ident)
		return ok && id.Name == "writeByteTo"
	}, 1, false)
	if err != nil {
		return "", fmt.Errorf("encodeBytecodeCommon: %v", err)
	}
	fd, err = need("decodeBytecodeV2")
	if err != nil {
		return "", err
	}
	bcDec, err := switchFieldLabels(fd.Body)
	if err != nil {
		return "", fmt.Errorf("decodeBytecodeV2: %v", err)
	}
	fd, err = need("*CompiledFunction.MarshalBinary")
	if err != nil {
		return "", err
	}
	cfEnc, err := literalCallArgs(fd.Body, func(ce *ast.CallExpr) bool {
		se, ok := ce.Fun.(*ast.SelectorExpr)
		if !ok || se.Sel.Name != "WriteByte" {
			return false
		}
		id, ok := se.X.(*ast.Ident)
		return ok && id.Name == "tmpBuf"
	}, 0, true)
	if err != nil {
		return "", fmt.Errorf("CompiledFunction.MarshalBinary: %v", err)
	}
	fd, err = need("*CompiledFunction.UnmarshalBinary")
	if err != nil {
		return "", err
	}
	cfDec, err := switchFieldLabels(fd.Body)
	if err != nil {
		return "", fmt.Errorf("CompiledFunction.UnmarshalBinary: %v", err)
	}
	for _, l := range [][]uint64{bcEnc, bcDec, cfEnc, cfDec} {
		if len(l) == 0 {
			return "", fmt.Errorf("empty field-number list")
		}
		for _, u := range l {
			if u > 255 {
				return "", fmt.Errorf("field number %d does not fit a byte", u)
			}
		}
	}

	var b strings.Builder
	b.WriteString("-- GENERATED by goextract (enctags.go) from encoder/encoder.go. Do not edit.\n")
	b.WriteString("namespace UgoVerif.Gen.EncTags\n")
	for _, h := range header {
		fmt.Fprintf(&b, "def %s : Nat := %d\n", h.name, h.val)
	}
	for _, t := range tags {
		fmt.Fprintf(&b, "def %s : UInt8 := %d\n", t.name, t.val)
	}
	b.WriteString("/-- every object tag, in source order -/\n")
	parts := make([]string, len(tags))
	for i, t := range tags {
		parts[i] = fmt.Sprintf("(%q, %d)", t.name, t.val)
	}
	fmt.Fprintf(&b, "def allTags : List (String × UInt8) := [%s]\n", strings.Join(parts, ", "))
	b.WriteString("/-- literal field numbers: arguments of writeByteTo(w, N) in encodeBytecodeCommon, in source order -/\n")
	fmt.Fprintf(&b, "def bcFieldsEnc : List Nat := %s\n", natList(bcEnc))
	b.WriteString("/-- integer case labels of the `switch field` in decodeBytecodeV2, in source order -/\n")
	fmt.Fprintf(&b, "def bcFieldsDec : List Nat := %s\n", natList(bcDec))
	b.WriteString("/-- arguments of tmpBuf.WriteByte(N) with a literal N in (*CompiledFunction).MarshalBinary, in source order -/\n")
	fmt.Fprintf(&b, "def cfFieldsEnc : List Nat := %s\n", natList(cfEnc))
	b.WriteString("/-- integer case labels of the `switch field` in (*CompiledFunction).UnmarshalBinary, in source order -/\n")
	fmt.Fprintf(&b, "def cfFieldsDec : List Nat := %s\n", natList(cfDec))
	b.WriteString("end UgoVerif.Gen.EncTags\n")
	return b.String(), nil
}
