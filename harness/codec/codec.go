// Package codec renders ugo objects in the line protocol shared with the Lean driver.
package codec

import (
	"encoding/hex"
	"fmt"
	"math"
	"reflect"
	"sort"
	"strings"

	"github.com/ozanh/ugo"
)

const canonNaN = 0x7FF8000000000001

// Ids assigns small stable identities to pointer-like objects within one case.
type Ids struct {
	m map[uintptr]int
}

func NewIds() *Ids { return &Ids{m: map[uintptr]int{}} }

func (ids *Ids) id(o any) int {
	p := reflect.ValueOf(o).Pointer()
	if n, ok := ids.m[p]; ok {
		return n
	}
	n := len(ids.m) + 1
	ids.m[p] = n
	return n
}

func Hex(b []byte) string { return hex.EncodeToString(b) }

// Encode renders a value.  Unknown object kinds are opaque (type name + identity).
func Encode(o ugo.Object, ids *Ids) string {
	var sb strings.Builder
	enc(&sb, o, ids, 0)
	return sb.String()
}

// Cyclic marks a value nested deeper than maxDepth: a script can build a cyclic value
// (`a[0] = a`), which has no finite rendering; streams skip outcomes containing the marker.
const Cyclic = "!cyclic!"
const maxDepth = 200

func enc(sb *strings.Builder, o ugo.Object, ids *Ids, depth int) {
	if depth > maxDepth || sb.Len() > 16<<20 {
		sb.WriteString(Cyclic)
		return
	}
	switch v := o.(type) {
	case nil:
		sb.WriteString("onil:0")
	case *ugo.UndefinedType:
		sb.WriteString("u")
	case ugo.Int:
		fmt.Fprintf(sb, "i%016x", uint64(v))
	case ugo.Uint:
		fmt.Fprintf(sb, "n%016x", uint64(v))
	case ugo.Float:
		b := math.Float64bits(float64(v))
		if v != v {
			b = canonNaN
		}
		fmt.Fprintf(sb, "f%016x", b)
	case ugo.Char:
		fmt.Fprintf(sb, "c%08x", uint32(v))
	case ugo.Bool:
		if v {
			sb.WriteString("b1")
		} else {
			sb.WriteString("b0")
		}
	case ugo.String:
		sb.WriteString("s" + Hex([]byte(v)))
	case ugo.Bytes:
		sb.WriteString("y" + Hex(v))
	case ugo.Array:
		sb.WriteString("a(")
		for i, x := range v {
			if i > 0 {
				sb.WriteByte(' ')
			}
			enc(sb, x, ids, depth+1)
		}
		sb.WriteString(")")
	case ugo.Map:
		keys := make([]string, 0, len(v))
		for k := range v {
			keys = append(keys, k)
		}
		sort.Strings(keys)
		sb.WriteString("m(")
		for i, k := range keys {
			if i > 0 {
				sb.WriteByte(' ')
			}
			sb.WriteString(Hex([]byte(k)) + "=")
			enc(sb, v[k], ids, depth+1)
		}
		sb.WriteString(")")
	default:
		tn := o.TypeName()
		tn = strings.Map(func(r rune) rune {
			if r == ':' || r == ' ' || r == '\t' || r == '(' || r == ')' {
				return '_'
			}
			return r
		}, tn)
		id := 0
		if ids != nil && reflect.ValueOf(o).Kind() == reflect.Ptr {
			id = ids.id(o)
		}
		fmt.Fprintf(sb, "o%s:%d", tn, id)
	}
}

// ErrString renders an error as `err Name Message`.
func ErrString(err error) string {
	var name, msg string
	switch e := err.(type) {
	case *ugo.Error:
		name, msg = e.Name, e.Message
	case *ugo.RuntimeError:
		if e.Err != nil {
			name, msg = e.Err.Name, e.Err.Message
		}
	default:
		name, msg = "error", err.Error()
	}
	if name == "InvalidOperatorError" {
		msg = ""
	}
	if msg == "" {
		return "err " + name
	}
	return "err " + name + " " + msg
}

// Decode parses the value syntax produced by Encode.  Opaque values are rebuilt
// by mk (type name, id); if mk is nil they decode to Undefined.
func Decode(s string, mk func(tn string, id int) ugo.Object) (ugo.Object, error) {
	p := &parser{s: s, mk: mk}
	v, err := p.val()
	if err != nil {
		return nil, err
	}
	if p.i != len(s) {
		return nil, fmt.Errorf("trailing input at %d", p.i)
	}
	return v, nil
}

type parser struct {
	s  string
	i  int
	mk func(string, int) ugo.Object
}

func (p *parser) hexRun() string {
	j := p.i
	for j < len(p.s) && strings.IndexByte("0123456789abcdefABCDEF", p.s[j]) >= 0 {
		j++
	}
	h := p.s[p.i:j]
	p.i = j
	return h
}

func (p *parser) val() (ugo.Object, error) {
	if p.i >= len(p.s) {
		return nil, fmt.Errorf("unexpected end")
	}
	c := p.s[p.i]
	p.i++
	switch c {
	case 'u':
		return ugo.Undefined, nil
	case 'i', 'n', 'f', 'c':
		var n uint64
		if _, err := fmt.Sscanf(p.hexRun(), "%x", &n); err != nil {
			return nil, err
		}
		switch c {
		case 'i':
			return ugo.Int(int64(n)), nil
		case 'n':
			return ugo.Uint(n), nil
		case 'f':
			return ugo.Float(math.Float64frombits(n)), nil
		}
		return ugo.Char(int32(uint32(n))), nil
	case 'b':
		p.i++
		return ugo.Bool(p.s[p.i-1] == '1'), nil
	case 's', 'y':
		b, err := hex.DecodeString(p.hexRun())
		if err != nil {
			return nil, err
		}
		if c == 's' {
			return ugo.String(b), nil
		}
		return ugo.Bytes(b), nil
	case 'a':
		p.i++ // (
		arr := ugo.Array{}
		for {
			if p.i >= len(p.s) {
				return nil, fmt.Errorf("unterminated array")
			}
			if p.s[p.i] == ')' {
				p.i++
				return arr, nil
			}
			if p.s[p.i] == ' ' {
				p.i++
				continue
			}
			v, err := p.val()
			if err != nil {
				return nil, err
			}
			arr = append(arr, v)
		}
	case 'm':
		p.i++
		m := ugo.Map{}
		for {
			if p.i >= len(p.s) {
				return nil, fmt.Errorf("unterminated map")
			}
			if p.s[p.i] == ')' {
				p.i++
				return m, nil
			}
			if p.s[p.i] == ' ' {
				p.i++
				continue
			}
			k, err := hex.DecodeString(p.hexRun())
			if err != nil {
				return nil, err
			}
			p.i++ // =
			v, err := p.val()
			if err != nil {
				return nil, err
			}
			m[string(k)] = v
		}
	case 'o':
		j := strings.IndexByte(p.s[p.i:], ':')
		if j < 0 {
			return nil, fmt.Errorf("bad opaque")
		}
		tn := p.s[p.i : p.i+j]
		p.i += j + 1
		k := p.i
		for k < len(p.s) && p.s[k] >= '0' && p.s[k] <= '9' {
			k++
		}
		var id int
		fmt.Sscanf(p.s[p.i:k], "%d", &id)
		p.i = k
		if p.mk == nil {
			return ugo.Undefined, nil
		}
		return p.mk(tn, id), nil
	}
	return nil, fmt.Errorf("bad value tag %q", c)
}
