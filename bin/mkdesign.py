#!/usr/bin/env python3
"""mkdesign.py: regenerate the machine-derived blocks of DESIGN.md

  <!-- BEGIN:findings --> … <!-- END:findings -->   from known_findings.jsonl
  <!-- BEGIN:props -->    … <!-- END:props -->      from bin/props.d/*.json (+ theorem names in Props/*.lean)
  <!-- BEGIN:seeded -->   … <!-- END:seeded -->     from seeded/*/meta.json

so that these sections cannot drift from what the checks actually run.
"""
import glob, json, os, re, sys

V = os.path.dirname(os.path.dirname(os.path.abspath(__file__)))


def findings():
    rows_fixed, rows_open = [], []
    for line in open(os.path.join(V, "known_findings.jsonl")):
        line = line.strip()
        if not line or line.startswith("#"):
            continue
        e = json.loads(line)
        what = e["what"].replace("|", "\\|").replace("\n", " ")
        if e["status"] == "fixed":
            rows_fixed.append("| %s | `%s` | %s |" % (e["property"], e.get("commit", ""), what))
        else:
            rows_open.append("| %s | `%s` | %s |" % (e["property"], e.get("signature", ""), what))
    out = ["**Repaired (`fix:` commits in /repo, `fixed:` entries in known_findings.jsonl; they suppress nothing).**", "",
           "| Prop | commit | what failed |", "|---|---|---|"] + sorted(rows_fixed)
    out += ["", "**Open known findings (printed as `KNOWN-FINDING:` by the check, matched by signature prefix).**", "",
            "| Prop | signature | what fails and why it is not repaired here |", "|---|---|---|"] + sorted(rows_open)
    return "\n".join(out)


def theorems_of(mod):
    p = os.path.join(V, "lean", mod.replace(".", "/") + ".lean")
    if not os.path.exists(p):
        return []
    return re.findall(r"^theorem\s+([A-Za-z0-9_'?.]+)", open(p).read(), re.M)


def props():
    titles = {}
    for l in open(os.path.join(V, "properties.jsonl")):
        p = json.loads(l)
        titles[p["id"]] = p["title"]
    out = []
    na = {}
    mt = os.path.join(V, "bin", "manifest_texts.py")
    sys.path.insert(0, os.path.join(V, "bin"))
    try:
        import manifest_texts
        na = getattr(manifest_texts, "NOT_APPLICABLE", {})
    except Exception:
        pass
    for pid in sorted(titles):
        f = os.path.join(V, "bin", "props.d", pid + ".json")
        out.append("### %s — %s" % (pid, titles[pid]))
        if not os.path.exists(f):
            out.append("Not claimed: %s" % na.get(pid, "no check registered"))
            out.append("")
            continue
        d = json.load(open(f))
        pr, tx = d["props"], d.get("texts") or {}
        ths = []
        for m in pr.get("lean", []):
            ths += theorems_of(m)
        req = pr.get("required_theorems", [])
        out.append("**Technique.** %s" % tx.get("technique", ""))
        out.append("")
        out.append("**What is proved / decided.** %s" % tx.get("level", ""))
        out.append("")
        out.append("**Lean modules.** %s. **Required theorems** (the check fails if one is missing, does not build, or uses an axiom outside {propext, Classical.choice, Quot.sound}): %s."
                   % (", ".join("`%s`" % m for m in pr.get("lean", [])), ", ".join("`%s`" % t for t in req) or "—"))
        if pr.get("gen"):
            out.append("")
            out.append("**Regenerated from the source on every run (T).** %s." % ", ".join("`Gen/%s`" % g for g in pr["gen"]))
        if pr.get("streams"):
            out.append("")
            s = "**Correspondence / oracle streams (C).** %s." % ", ".join("`%s`" % g for g in pr["streams"])
            if pr.get("spec_streams"):
                s += " In %s the model side is the hand-written reference semantics: a disagreement is reported as a failing input of the property, not as a broken correspondence." % ", ".join("`%s`" % g for g in pr["spec_streams"])
            out.append(s)
        if pr.get("partial"):
            out.append("")
            out.append("**Partial.** " + " ".join(x if isinstance(x, str) else "; ".join("%s: %s" % kv for kv in x.items()) for x in pr["partial"]))
        if pr.get("trusted"):
            out.append("")
            out.append("**Trusted / modelled rather than verified.** " + "; ".join(str(x) for x in pr["trusted"]) + ".")
        if pr.get("assumptions"):
            out.append("")
            out.append("**Assumptions.** " + "; ".join(str(x) for x in pr["assumptions"]) + ".")
        if tx.get("note"):
            out.append("")
            out.append("**Note.** " + tx["note"])
        out.append("")
    return "\n".join(out)


def seeded():
    rows = []
    for m in sorted(glob.glob(os.path.join(V, "seeded", "*", "meta.json"))):
        d = json.load(open(m))
        name = os.path.basename(os.path.dirname(m))
        ok = all(d.get(k) for k in ("suite_passes_with_patch", "demo_fails_with_patch", "demo_passes_without_patch"))
        res = []
        for c, r in (d.get("checks") or {}).items():
            lines = r.get("lines") or []
            conc = [l for l in lines if l.startswith("VIOLATION") and "no-failing-input-found" not in l]
            weak = [l for l in lines if "no-failing-input-found" in l]
            brk = sorted({l.strip().split(":")[0].replace("broken ", "") for l in lines if l.strip().startswith("broken")})
            if r.get("exit") == 1 and conc:
                sig = re.sub(r".*/violation-", "", conc[0]).replace(".json", "")
                res.append("%s: **caught**, concrete replay (`%s`%s)%s" % (c, sig[:60], ", +%d" % (len(conc) - 1) if len(conc) > 1 else "",
                                                                           "; also broken: " + ", ".join(brk) if brk else ""))
            elif r.get("exit") == 1 and weak:
                res.append("%s: caught as broken obligation only (no-failing-input-found; %s)" % (c, ", ".join(brk)))
            else:
                res.append("%s: **missed**" % c)
        what = ""
        note = os.path.join(os.path.dirname(m), "note.txt")
        if os.path.exists(note):
            what = open(note).read().strip().replace("\n", " ")
        rows.append("| %s | %s | %s | %s |" % (name, "yes" if ok else "NOT CONFIRMED", what, "; ".join(res)))
    return "\n".join(["| seeded change | confirmed (suite green, demo fails with / passes without) | what it changes | result of the checks (as committed now) |",
                      "|---|---|---|---|"] + rows)


def main():
    p = os.path.join(V, "DESIGN.md")
    s = open(p).read()
    for name, fn in (("findings", findings), ("props", props), ("seeded", seeded)):
        b, e = "<!-- BEGIN:%s -->" % name, "<!-- END:%s -->" % name
        if b in s and e in s:
            i, j = s.index(b) + len(b), s.index(e)
            s = s[:i] + "\n" + fn() + "\n" + s[j:]
    open(p, "w").write(s)
    print("DESIGN.md blocks regenerated")


if __name__ == "__main__":
    main()
